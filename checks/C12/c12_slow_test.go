//go:build verif

package collection_test

// C12, unit wheel-slow-callbacks — the timing wheel with execute callbacks that do not return at once.
//
// The wheel hands the timers that expire on a tick to a goroutine of their own; a callback of tick N may
// therefore still be running while ticks N+1, N+2, ... expire other timers and while SetTimer / MoveTimer /
// RemoveTimer / Drain are called.  In this unit the callback of generated (key,value) pairs BLOCKS on a gate
// of the harness until a later generated action release(value) (or the end of the case) opens it; every
// other callback returns at once.  Every callback records (key, value, tick at which it STARTED) under a
// mutex before it blocks.
//
// Oracle (from the statement of C12; "batch" = the timers the model has due on one tick):
//
//	set(k,v,d)  : pending[k] = (v, now + floor(d/interval))
//	move(k,d)   : if k pending: pending[k].due = now + floor(d/interval)
//	remove(k)   : delete pending[k]
//	tick        : now++; every pending timer with due == now becomes OWED (one entry per generation)
//	drain       : Drain's fn receives every pending timer exactly once
//	a callback that starts must match an owed, not yet delivered entry with the same key AND value
//	            (anything else is a duplicate, a stale or foreign value, a removed timer, or a fire before
//	            the due tick — an entry is owed only from its due tick on);
//	at every quiescent point an owed entry is either delivered, or some callback of ITS OWN batch is
//	            blocked at that moment (callbacks of one tick run one after the other, so a blocked callback
//	            may hold back the rest of its batch — but never the timers of another tick, which the
//	            statement requires to fire "at the floor(d/interval)-th tick");
//	at the end, with every gate open and the wheel settled, every owed entry was delivered exactly once.
//
// What the statement does not settle is left open: an owed entry whose callback has not started yet when
// its key is set / moved / removed again may fire once or not at all, and Drain may hand such an entry to
// its fn instead of the execute callback (once in total either way).
//
// Synchronisation is schedule-free as in the wheel unit: ticker channel empty, then a RemoveTimer round trip
// on a key that is never set, then runtime.NumGoroutine() back to idle + (callbacks blocked on a closed gate
// right now).  The last term can only grow while the harness waits (gates are opened by the harness only),
// and the goroutine count can only shrink once the loop has answered the round trip, so reaching the bound
// means that every spawned goroutine has either ended or is parked on a gate.  The wall clock is a watchdog
// only; its expiry opens all gates (so that nothing hangs) and makes the case inconclusive.

import (
	"fmt"
	"runtime"
	"sort"
	"strings"
	"sync"
	"testing"
	"time"

	"github.com/zeromicro/go-zero/core/collection"
	"github.com/zeromicro/go-zero/core/logx"
	"github.com/zeromicro/go-zero/core/timex"
	"github.com/zeromicro/go-zero/internal/verifkit"
	"pgregory.net/rapid"
)

const c12sBudget = 5 * time.Second // watchdog per wait; expiry = inconclusive

var c12sKeys = []string{"k0", "k1", "k2", "k3", "k4", "k5", "k6", "k7"}

// ---------------------------------------------------------------- recorder with gates

type c12sStart struct {
	f    c12Fire
	tick int  // tick number at the moment the callback started
	held bool // it found the gate of its value closed and blocks until the harness opens it
}

type c12sRec struct {
	mu       sync.Mutex
	now      int                   // written by the harness before Tick()
	gates    map[int]chan struct{} // value -> gate (only values generated as "slow")
	open     map[int]bool          // gates the harness has opened
	all      bool                  // every gate counts as open (end of case, watchdog)
	starts   []c12sStart
	finished int
	drained  []c12Fire
}

func (r *c12sRec) onFire(k, v any) {
	f := c12Conv(k, v)
	r.mu.Lock()
	g := r.gates[f.val]
	held := g != nil && !r.open[f.val] && !r.all
	r.starts = append(r.starts, c12sStart{f: f, tick: r.now, held: held})
	r.mu.Unlock()
	if held {
		<-g
	}
	r.mu.Lock()
	r.finished++
	r.mu.Unlock()
	if f.val >= c12PanicVal {
		panic(fmt.Sprintf("execute callback of %s panics (generated)", f))
	}
}

func (r *c12sRec) onDrain(k, v any) {
	f := c12Conv(k, v)
	r.mu.Lock()
	r.drained = append(r.drained, f)
	r.mu.Unlock()
}

func (r *c12sRec) addGate(val int) {
	r.mu.Lock()
	if r.gates[val] == nil {
		r.gates[val] = make(chan struct{})
	}
	r.mu.Unlock()
}

func (r *c12sRec) release(val int) {
	r.mu.Lock()
	if g := r.gates[val]; g != nil && !r.open[val] {
		r.open[val] = true
		close(g)
	}
	r.mu.Unlock()
}

func (r *c12sRec) openAll() {
	r.mu.Lock()
	r.all = true
	for val, g := range r.gates {
		if !r.open[val] {
			r.open[val] = true
			close(g)
		}
	}
	r.mu.Unlock()
}

// blockedNow: callbacks that started, found their gate closed, and whose gate is still closed.
func (r *c12sRec) blockedNow() int {
	r.mu.Lock()
	defer r.mu.Unlock()
	n := 0
	for _, s := range r.starts {
		if s.held && !r.open[s.f.val] {
			n++
		}
	}
	return n
}

// blockedVals: the values of the callbacks that are blocked right now (sorted, distinct).
func (r *c12sRec) blockedVals() []int {
	r.mu.Lock()
	defer r.mu.Unlock()
	seen := map[int]bool{}
	var out []int
	for _, s := range r.starts {
		if s.held && !r.open[s.f.val] && !seen[s.f.val] {
			seen[s.f.val] = true
			out = append(out, s.f.val)
		}
	}
	sort.Ints(out)
	return out
}

func (r *c12sRec) isOpen(val int) bool {
	r.mu.Lock()
	defer r.mu.Unlock()
	return r.open[val] || r.all
}

func (r *c12sRec) setNow(now int) {
	r.mu.Lock()
	r.now = now
	r.mu.Unlock()
}

func (r *c12sRec) takeFrom(seen int) (starts []c12sStart, drained []c12Fire, finished int) {
	r.mu.Lock()
	starts = append(starts, r.starts[seen:]...)
	drained, r.drained = r.drained, nil
	finished = r.finished
	r.mu.Unlock()
	return
}

// ---------------------------------------------------------------- operations

type c12sOp struct {
	kind  byte // 's'et 'm'ove 'r'emove 't'ick 'd'rain 'o'pen gate
	key   string
	val   int
	steps int
	rem   time.Duration
	slow  bool // 's': the callback of this value blocks on a gate
}

func (o c12sOp) String() string {
	switch o.kind {
	case 's':
		g := ""
		if o.slow {
			g = ",SLOW"
		}
		return fmt.Sprintf("set(%s,v%d,%dt+%v%s)", o.key, o.val, o.steps, o.rem, g)
	case 'm':
		return fmt.Sprintf("move(%s,%dt+%v)", o.key, o.steps, o.rem)
	case 'r':
		return fmt.Sprintf("remove(%s)", o.key)
	case 't':
		return "tick"
	case 'd':
		return "drain"
	case 'o':
		return fmt.Sprintf("release(%s=v%d)", o.key, o.val)
	case 'f':
		return "the end of the case (all gates opened)"
	}
	return "?"
}

func c12sRenderOps(n int, iv time.Duration, ops []c12sOp) string {
	var b strings.Builder
	fmt.Fprintf(&b, "slots=%d interval=%v:", n, iv)
	for i := 0; i < len(ops); {
		if ops[i].kind == 't' {
			j := i
			for j < len(ops) && ops[j].kind == 't' {
				j++
			}
			if j-i == 1 {
				b.WriteString(" tick")
			} else {
				fmt.Fprintf(&b, " tick*%d", j-i)
			}
			i = j
			continue
		}
		b.WriteString(" " + ops[i].String())
		i++
	}
	return b.String()
}

// ---------------------------------------------------------------- harness

type c12sPend struct{ val, due int }

type c12sOwed struct {
	f         c12Fire
	due       int
	delivered bool
	viaDrain  bool
	startTick int
	held      bool // its callback found the gate closed
	optional  bool // its key was set / moved / removed again before its callback started
}

type c12sRun struct {
	n      int
	iv     time.Duration
	slow   bool
	tw     *collection.TimingWheel
	tk     timex.FakeTicker
	rec    *c12sRec
	now    int
	closed bool
	done   bool // drained
	final  bool // every gate is open
	pend   map[string]*c12sPend
	owed   []*c12sOwed
	seen   int // callbacks starts already matched
	ops    []c12sOp

	cls      map[string]int
	across   int // ticks that expired >= 1 timer while a callback of an earlier tick was blocked
	maxBatch int
}

func c12sNew(n int, iv time.Duration, slow bool) (*c12sRun, error) {
	if err := c12WaitGoroutines(c12Base); err != nil {
		return nil, err
	}
	if g := runtime.NumGoroutine(); g != c12Base {
		return nil, &c12Stall{fmt.Sprintf("goroutine baseline moved: %d, calibrated %d", g, c12Base)}
	}
	r := &c12sRun{n: n, iv: iv, slow: slow, pend: map[string]*c12sPend{}, cls: map[string]int{}}
	r.rec = &c12sRec{gates: map[int]chan struct{}{}, open: map[int]bool{}}
	r.tk = timex.NewFakeTicker()
	tw, err := collection.NewTimingWheelWithTicker(iv, n, r.rec.onFire, r.tk)
	if err != nil {
		return nil, &c12Violation{fmt.Sprintf("NewTimingWheelWithTicker(%v,%d): %v", iv, n, err)}
	}
	r.tw = tw
	return r, nil
}

func (r *c12sRun) close() error {
	if r.closed {
		return nil
	}
	r.closed = true
	r.rec.openAll()
	r.tw.Stop()
	return c12WaitGoroutines(c12Base)
}

// c12sLoopBudget: how long the wheel's loop may take to accept a tick or an operation.  It drops once a goroutine
// dump taken at its expiry has shown every goroutine parked (the loop itself waits inside a blocked callback:
// waiting longer cannot help).
var c12sLoopBudget = c12sBudget

// loopStuck is called when the wheel's loop has not taken a tick / an operation within the budget: it opens all
// gates (nothing may hang) and describes the situation.  Always inconclusive: the statement of C12 speaks about
// the ticks the wheel has taken, not about how long its loop may be busy.
func (r *c12sRun) loopStuck(what string) *c12Stall {
	blocked := r.rec.blockedNow()
	parked, _ := c12sAllParked()
	r.rec.openAll()
	msg := fmt.Sprintf("%s not taken by the wheel's loop within %v while %d callback(s) were blocked", what, c12sLoopBudget, blocked)
	if parked {
		msg += "; every goroutine of the process was parked, i.e. the loop waits for a blocked callback (later ticks cannot be taken before the callback returns)"
		c12sLoopBudget = 300 * time.Millisecond
	}
	return &c12Stall{msg}
}

// guarded runs a call into the wheel that blocks until the wheel's loop takes it.
func (r *c12sRun) guarded(what string, call func() error) error {
	var mu sync.Mutex
	var stuck *c12Stall
	tm := time.AfterFunc(c12sLoopBudget, func() {
		st := r.loopStuck(what)
		mu.Lock()
		stuck = st
		mu.Unlock()
	})
	err := call()
	tm.Stop()
	mu.Lock()
	defer mu.Unlock()
	if stuck != nil {
		return stuck
	}
	return err
}

// c12sParkedStates: goroutine states (runtime.Stack) in which a goroutine stays until another goroutine acts on
// the channel / lock it waits for.  (Not listed on purpose: running, runnable, syscall, sleep, IO wait, GC states.)
var c12sParkedStates = map[string]bool{
	"chan receive": true, "chan send": true, "select": true, "semacquire": true,
	"sync.Mutex.Lock": true, "sync.RWMutex.RLock": true, "sync.RWMutex.Lock": true,
	"sync.Cond.Wait": true, "sync.WaitGroup.Wait": true,
	"chan receive (nil chan)": true, "chan send (nil chan)": true, "select (no cases)": true,
}

// c12sAllParked reports whether every goroutine of the process other than the calling one is parked on a
// channel or a lock.  If so, nothing in the process can move until the caller acts: the state is final, however
// long one waits (a proof of quiescence that does not depend on the wall clock).
func c12sAllParked() (bool, string) {
	buf := make([]byte, 1<<20)
	buf = buf[:runtime.Stack(buf, true)]
	blocks := strings.Split(string(buf), "\n\n")
	for i, b := range blocks {
		if i == 0 || strings.TrimSpace(b) == "" {
			continue // the calling goroutine is listed first
		}
		head, _, _ := strings.Cut(b, "\n")
		lo, hi := strings.IndexByte(head, '['), strings.LastIndexByte(head, ']')
		if !strings.HasPrefix(head, "goroutine ") || lo < 0 || hi < lo {
			return false, head
		}
		state, _, _ := strings.Cut(head[lo+1:hi], ",")
		if !c12sParkedStates[state] {
			return false, head
		}
	}
	return true, ""
}

// c12sPatience: how long the goroutine count is waited for before the goroutine dump is consulted.  It drops
// once a dump has shown that this build of the wheel parks goroutines elsewhere than on the harness's gates.
var c12sPatience = c12sBudget

// waitGoroutines waits until every goroutine the wheel spawned has ended or is parked on a closed gate.
// Fallback: if the count does not get there, but a goroutine dump shows that every other goroutine of the
// process is parked on a channel or a lock, the wheel is quiescent all the same (some goroutine it spawned
// waits for something else than a gate) and the oracle decides.
func (r *c12sRun) waitGoroutines() error {
	var start time.Time
	for i := 0; ; i++ {
		want := c12Base + 1 + r.rec.blockedNow()
		got := runtime.NumGoroutine()
		if got <= want {
			return nil
		}
		c12Pause(i)
		if i&255 != 255 {
			continue
		}
		if start.IsZero() {
			start = time.Now()
			continue
		}
		el := time.Since(start)
		if el > c12sPatience {
			if ok, _ := c12sAllParked(); ok {
				c12sPatience = 20 * time.Millisecond
				r.cls["quiescence-shown-by-goroutine-dump"]++
				return nil
			}
		}
		if el > c12sBudget {
			blocked := r.rec.blockedNow()
			r.rec.openAll()
			return &c12Stall{fmt.Sprintf("goroutine count %d did not return to %d (idle %d + %d blocked callbacks)", got, want, c12Base+1, blocked)}
		}
	}
}

func (r *c12sRun) roundTrip() error {
	return r.guarded("RemoveTimer(sentinel)", func() error {
		if err := r.tw.RemoveTimer(c12Sentinel); err != nil {
			return &c12Violation{fmt.Sprintf("RemoveTimer on a running wheel: %v", err)}
		}
		return nil
	})
}

func (r *c12sRun) quiesce() error {
	var deadline time.Time
	for i := 0; len(r.tk.Chan()) != 0; i++ {
		c12Pause(i)
		if i&255 == 255 {
			if deadline.IsZero() {
				deadline = time.Now().Add(c12sLoopBudget)
			} else if time.Now().After(deadline) {
				return r.loopStuck("tick")
			}
		}
	}
	if err := r.roundTrip(); err != nil {
		return err
	}
	if err := r.waitGoroutines(); err != nil {
		return err
	}
	if r.slow {
		time.Sleep(time.Millisecond)
		if err := r.roundTrip(); err != nil {
			return err
		}
		return r.waitGoroutines()
	}
	return nil
}

func (r *c12sRun) history() string { return c12sRenderOps(r.n, r.iv, r.ops) }

func (r *c12sRun) violation(format string, a ...any) error {
	return &c12Violation{fmt.Sprintf(format, a...) + "\n  state: " + r.state() + "\n  history: " + r.history()}
}

func (r *c12sRun) state() string {
	var p []string
	for k, e := range r.pend {
		p = append(p, fmt.Sprintf("%s=v%d@%d", k, e.val, e.due))
	}
	sort.Strings(p)
	var o []string
	for _, e := range r.owed {
		s := fmt.Sprintf("%s due %d: ", e.f, e.due)
		switch {
		case e.viaDrain:
			s += "handed to Drain's fn"
		case e.delivered && e.held && !r.rec.isOpen(e.f.val):
			s += fmt.Sprintf("started at tick %d, BLOCKED", e.startTick)
		case e.delivered:
			s += fmt.Sprintf("started at tick %d", e.startTick)
		case e.optional:
			s += "not started (key re-used since: optional)"
		default:
			s += "NOT STARTED"
		}
		o = append(o, s)
	}
	return fmt.Sprintf("tick %d; pending {%s}; due so far [%s]", r.now, strings.Join(p, " "), strings.Join(o, "; "))
}

// touchKey: the key of an owed entry whose callback has not started yet is used again; what becomes of
// that entry is not settled by the statement.
func (r *c12sRun) touchKey(key string) {
	for _, e := range r.owed {
		if e.f.key == key && !e.delivered && !e.optional {
			e.optional = true
			r.cls["op-on-key-whose-callback-is-held-back"]++
		}
	}
}

func (r *c12sRun) apply(op c12sOp) error {
	if r.done && (op.kind == 's' || op.kind == 'm' || op.kind == 'r' || op.kind == 'd') {
		return nil // Drain is terminal in the stated domain
	}
	r.ops = append(r.ops, op)
	d := time.Duration(op.steps)*r.iv + op.rem
	blockedBefore := r.rec.blockedNow()
	var err error
	switch op.kind {
	case 's':
		if op.slow {
			r.rec.addGate(op.val)
		}
		err = r.guarded("SetTimer", func() error {
			if e := r.tw.SetTimer(op.key, op.val, d); e != nil {
				return r.violation("SetTimer(%s,%v) returned %v", op.key, d, e)
			}
			return nil
		})
		r.touchKey(op.key)
		if p := r.pend[op.key]; p != nil {
			p.val, p.due = op.val, r.now+op.steps
			r.cls["re-set-pending"]++
		} else {
			r.pend[op.key] = &c12sPend{val: op.val, due: r.now + op.steps}
		}
		if blockedBefore > 0 {
			r.cls["set-while-blocked"]++
		}
	case 'm':
		err = r.guarded("MoveTimer", func() error {
			if e := r.tw.MoveTimer(op.key, d); e != nil {
				return r.violation("MoveTimer(%s,%v) returned %v", op.key, d, e)
			}
			return nil
		})
		r.touchKey(op.key)
		if p := r.pend[op.key]; p != nil {
			p.due = r.now + op.steps
			r.cls["move-pending"]++
			if blockedBefore > 0 {
				r.cls["move-while-blocked"]++
			}
		}
	case 'r':
		err = r.guarded("RemoveTimer", func() error {
			if e := r.tw.RemoveTimer(op.key); e != nil {
				return r.violation("RemoveTimer(%s) returned %v", op.key, e)
			}
			return nil
		})
		r.touchKey(op.key)
		if r.pend[op.key] != nil {
			r.cls["remove-pending"]++
			if blockedBefore > 0 {
				r.cls["remove-while-blocked"]++
			}
		}
		delete(r.pend, op.key)
	case 't':
		r.now++
		r.rec.setNow(r.now)
		r.tk.Tick()
	case 'd':
		err = r.guarded("Drain", func() error {
			if e := r.tw.Drain(r.rec.onDrain); e != nil {
				return r.violation("Drain returned %v", e)
			}
			return nil
		})
	case 'o':
		r.rec.release(op.val)
		r.cls["release"]++
	}
	if err != nil {
		return err
	}
	if err := r.quiesce(); err != nil {
		if v, ok := err.(*c12Violation); ok {
			return r.violation("%s", v.msg)
		}
		return err
	}
	return r.check(op, blockedBefore)
}

func (r *c12sRun) check(op c12sOp, blockedBefore int) error {
	starts, drained, _ := r.rec.takeFrom(r.seen)
	r.seen += len(starts)

	switch op.kind {
	case 't':
		var due []string
		for k, p := range r.pend {
			if p.due <= r.now {
				due = append(due, k)
			}
		}
		sort.Strings(due)
		for _, k := range due {
			p := r.pend[k]
			r.owed = append(r.owed, &c12sOwed{f: c12Fire{k, p.val}, due: r.now})
			delete(r.pend, k)
		}
		if b := len(due); b > 0 {
			r.cls["tick-with-fires"]++
			if b >= 2 {
				r.cls["batch>=2"]++
			}
			if b >= 3 {
				r.cls["batch>=3"]++
			}
			if b > r.maxBatch {
				r.maxBatch = b
			}
			if blockedBefore > 0 {
				r.cls["blocked-across-ticks"]++
				r.across++
			}
		}
	case 'd':
		if blockedBefore > 0 {
			r.cls["drain-while-blocked"]++
		}
		if len(r.pend) > 0 {
			r.cls["drain-with-pending"]++
		}
	}

	// every callback that started belongs to exactly one owed generation
	for _, s := range starts {
		var hit *c12sOwed
		for _, e := range r.owed {
			if e.f == s.f && !e.delivered {
				hit = e
				break
			}
		}
		if hit == nil {
			// a held-back timer whose key was set again meanwhile: the statement ("carrying the most recently
			// set value") does not settle which of the two values its late callback carries
			if p := r.pend[s.f.key]; p != nil && p.val == s.f.val {
				for _, e := range r.owed {
					if e.optional && !e.delivered && e.f.key == s.f.key {
						hit = e
						r.cls["held-back-timer-fired-with-newer-value"]++
						break
					}
				}
			}
		}
		if hit == nil {
			return r.violation("after %s: the execute callback was started for %s at tick %d, but the statement has no such timer due "+
				"at or before that tick that has not fired yet (a duplicate, a wrong value, a removed or superseded timer, or a fire before the due tick)",
				op, s.f, s.tick)
		}
		hit.delivered, hit.startTick, hit.held = true, s.tick, s.held
		if s.tick > hit.due {
			r.cls["held-back-behind-a-blocked-callback"]++
		}
		if s.held {
			r.cls["callback-blocked"]++
		}
	}

	// Drain: every pending timer exactly once; an owed entry whose callback has not started may be handed
	// to fn instead (exactly once in total)
	if op.kind == 'd' {
		var want []c12Fire
		for k, p := range r.pend {
			want = append(want, c12Fire{k, p.val})
		}
		left := append([]c12Fire(nil), drained...)
		for _, w := range want {
			found := false
			for i, g := range left {
				if g == w {
					left = append(left[:i], left[i+1:]...)
					found = true
					break
				}
			}
			if !found {
				return r.violation("after drain: Drain delivered %s, statement requires every pending timer %s exactly once", c12Render(drained), c12Render(want))
			}
		}
		for _, g := range left {
			var hit *c12sOwed
			for _, e := range r.owed {
				if e.f == g && !e.delivered {
					hit = e
					break
				}
			}
			if hit == nil {
				return r.violation("after drain: Drain delivered %s, statement requires the pending timers %s exactly once (extra: %s)", c12Render(drained), c12Render(want), g)
			}
			hit.delivered, hit.viaDrain = true, true
			r.cls["drain-took-held-back-timer"]++
		}
		r.pend = map[string]*c12sPend{}
		r.done = true
	} else if len(drained) > 0 {
		return r.violation("after %s: Drain's fn was called for %s", op, c12Render(drained))
	}

	// at a quiescent point an owed timer has fired unless a callback of its own tick is blocked right now
	blockedBatch := map[int]bool{}
	for _, e := range r.owed {
		if e.delivered && !e.viaDrain && e.held && !r.rec.isOpen(e.f.val) {
			blockedBatch[e.due] = true
		}
	}
	for _, e := range r.owed {
		if !e.delivered && !e.optional && !blockedBatch[e.due] {
			return r.violation("after %s: timer %s was due at tick %d and its callback has not been started by tick %d, although no callback of the "+
				"timers of tick %d is blocked (statement: fires exactly once, at the floor(d/interval)-th tick)", op, e.f, e.due, r.now, e.due)
		}
	}
	return nil
}

// runOut ticks until every pending timer is past its due tick, then one more revolution plus one tick for
// strays (gates stay as they are: slow callbacks of these ticks block, too).
func (r *c12sRun) runOut() error {
	last := r.now
	for _, p := range r.pend {
		if p.due > last {
			last = p.due
		}
	}
	last += r.n + 1
	for r.now < last {
		if err := r.apply(c12sOp{kind: 't'}); err != nil {
			return err
		}
	}
	return nil
}

// finish opens every gate, waits for the wheel to settle and checks that every owed generation was delivered.
func (r *c12sRun) finish() error {
	r.final = true
	r.rec.openAll()
	if err := r.quiesce(); err != nil {
		if v, ok := err.(*c12Violation); ok {
			return r.violation("%s", v.msg)
		}
		return err
	}
	if err := r.check(c12sOp{kind: 'f'}, 0); err != nil {
		return err
	}
	_, _, finished := r.rec.takeFrom(r.seen)
	if finished != r.seen {
		return &c12Stall{fmt.Sprintf("%d callbacks started, %d returned after all gates were opened", r.seen, finished)}
	}
	return nil
}

func c12sReplay(n int, iv time.Duration, ops []c12sOp, final bool, slow bool) (*c12sRun, error) {
	r, err := c12sNew(n, iv, slow)
	if err != nil {
		return nil, err
	}
	for _, op := range ops {
		if err := r.apply(op); err != nil {
			r.close()
			return r, err
		}
	}
	if final {
		if err := r.finish(); err != nil {
			r.close()
			return r, err
		}
	}
	return r, r.close()
}

var c12sConfirmed bool

// c12sConfirm: a violation counts only if a slow replay of the same history shows a violation too.
func c12sConfirm(r *c12sRun, err error) (violation string, inconclusive string) {
	r.close()
	if _, ok := err.(*c12Violation); !ok {
		return "", err.Error()
	}
	if c12sConfirmed {
		return err.Error(), ""
	}
	_, err2 := c12sReplay(r.n, r.iv, r.ops, r.final, true)
	if _, ok := err2.(*c12Violation); ok {
		c12sConfirmed = true
		return err.Error(), ""
	}
	return "", fmt.Sprintf("mismatch not reproduced by slow replay (%v): %s", err2, err.Error())
}

// ---------------------------------------------------------------- state machine

func TestVerifC12WheelSlowCallbacks(t *testing.T) {
	logx.Disable()
	st := verifkit.New("wheel-slow-callbacks")
	sampled := false
	defer c12Flush(st, &sampled)
	c12Calibrate()
	slotsGen := rapid.IntRange(1, 8)
	ivGen := rapid.SampledFrom([]time.Duration{time.Second, 250 * time.Millisecond, 7})
	keyGen := rapid.SampledFrom(c12sKeys)
	rapid.Check(t, func(t *rapid.T) {
		st.Eval()
		n := slotsGen.Draw(t, "slots")
		iv := ivGen.Draw(t, "interval")
		ending := rapid.SampledFrom([]string{"runout", "drain", "runout"}).Draw(t, "finish")
		r, err := c12sNew(n, iv, false)
		if err != nil {
			st.Note("%v", err)
			t.Skip(err.Error())
		}
		defer r.close()
		// (rapid swallows a Skip raised inside an action of Repeat — the action counts as not applicable and
		// the case goes on — so an inconclusive case is remembered and skipped again at every later step)
		dead := ""
		fail := func(err error) {
			v, inc := c12sConfirm(r, err)
			if v != "" {
				t.Fatalf("C12 violated: %s", v)
			}
			dead = inc
			st.Class("inconclusive")
			st.Note("%s", inc)
			t.Skip(inc)
		}
		do := func(ops ...c12sOp) {
			if dead != "" {
				t.Skip(dead)
			}
			for _, op := range ops {
				if err := r.apply(op); err != nil {
					fail(err)
				}
			}
		}
		// delays come from a small set, so that several timers expire on the same tick
		delay := func(t *rapid.T) (int, time.Duration) {
			steps := rapid.SampledFrom([]int{1, 1, 2, 2, 3, n, n + 1, 2*n + 1}).Draw(t, "ticks")
			rem := rapid.SampledFrom([]time.Duration{0, 0, iv / 2}).Draw(t, "rem")
			return steps, rem
		}
		val := 0
		newVal := func(t *rapid.T) (int, bool) {
			val++
			v := val
			if rapid.IntRange(0, 9).Draw(t, "callbackPanics") == 9 {
				v += c12PanicVal
				r.cls["timers-whose-callback-panics"]++
			}
			slow := rapid.IntRange(0, 2).Draw(t, "slow") == 0
			return v, slow
		}
		pending := func() []string {
			p := make([]string, 0, len(r.pend))
			for k := range r.pend {
				p = append(p, k)
			}
			sort.Strings(p)
			return p
		}
		keyOf := func(v int) string {
			for _, e := range r.owed {
				if e.f.val == v {
					return e.f.key
				}
			}
			return "?"
		}
		t.Repeat(map[string]func(*rapid.T){
			"set": func(t *rapid.T) {
				k := keyGen.Draw(t, "key")
				steps, rem := delay(t)
				v, slow := newVal(t)
				do(c12sOp{kind: 's', key: k, val: v, steps: steps, rem: rem, slow: slow})
			},
			"setBatch": func(t *rapid.T) {
				// 2..5 distinct keys with the same delay: they expire together
				keys := rapid.SliceOfNDistinct(keyGen, 2, 5, rapid.ID[string]).Draw(t, "keys")
				steps, rem := delay(t)
				for _, k := range keys {
					v, slow := newVal(t)
					do(c12sOp{kind: 's', key: k, val: v, steps: steps, rem: rem, slow: slow})
				}
			},
			"move": func(t *rapid.T) {
				pend := pending()
				anyKey := rapid.IntRange(0, 7).Draw(t, "anykey") == 0
				var k string
				if len(pend) > 0 && !anyKey {
					k = rapid.SampledFrom(pend).Draw(t, "pendingKey")
				} else {
					k = keyGen.Draw(t, "key")
				}
				steps, rem := delay(t)
				do(c12sOp{kind: 'm', key: k, steps: steps, rem: rem})
			},
			"remove": func(t *rapid.T) {
				pend := pending()
				if len(pend) > 0 && rapid.IntRange(0, 3).Draw(t, "anykey") != 0 {
					do(c12sOp{kind: 'r', key: rapid.SampledFrom(pend).Draw(t, "pendingKey")})
					return
				}
				do(c12sOp{kind: 'r', key: keyGen.Draw(t, "key")})
			},
			"tick": func(t *rapid.T) {
				do(c12sOp{kind: 't'})
			},
			"ticks": func(t *rapid.T) {
				k := rapid.IntRange(1, 3).Draw(t, "count")
				for i := 0; i < k; i++ {
					do(c12sOp{kind: 't'})
				}
			},
			"release": func(t *rapid.T) {
				bl := r.rec.blockedVals()
				if len(bl) == 0 {
					do(c12sOp{kind: 't'})
					return
				}
				v := rapid.SampledFrom(bl).Draw(t, "blockedValue")
				do(c12sOp{kind: 'o', key: keyOf(v), val: v})
			},
		})
		if dead != "" {
			t.Skip(dead)
		}
		if ending == "drain" {
			do(c12sOp{kind: 'd'})
		}
		if err := r.runOut(); err != nil {
			fail(err)
		}
		if err := r.finish(); err != nil {
			fail(err)
		}
		if err := r.close(); err != nil {
			st.Note("%v", err)
			t.Skip(err.Error())
		}
		for k, c := range r.cls {
			st.ClassN(k, c)
		}
		if r.across > 0 && r.maxBatch >= 2 {
			st.NonTrivial(r.history())
			sampled = true
		}
	})
}
