//go:build verif

package collection_test

// C12, unit wheel-reentrant — execute callbacks that call back into the SAME timing wheel.
//
// In real use the execute callback of a wheel re-arms its own key (cache.AddCleanTask's retry), arms other
// keys, postpones or cancels other pending timers (collection.Cache's expiry callback removes timers).  Here
// about one generated set in two attaches a REACTION to its value: when the callback for that (key, value)
// runs it performs, from inside the callback and on the wheel that runs it, one of
//
//	S  SetTimer(own key, new value, d)
//	A  SetTimer(another key, new value, d)
//	M  MoveTimer(another key, d)
//	R  RemoveTimer(another key)
//	B  SetTimer(own key, new value, d) and then RemoveTimer(another key)
//
// and the value set by S / A / B may carry a reaction of its own (chains of at most 3 reactions).  The
// callback records (key, value, tick) and "entered the re-entrant call" under a mutex before the call, and
// "left it" with the returned errors after it.
//
// Oracle (from the statement of C12; same model as the wheel unit, key -> (value, due tick)):
//
//	set / move / remove / drain by the harness : as in the wheel unit
//	tick        : now++; the callbacks observed for this tick == {pending[k] : due == now}; these leave the
//	              pending set; then the reaction of every fired (key,value) is applied to the model AT THIS
//	              TICK (the harness lets the wheel settle after every tick, so the reaction ran while the wheel
//	              stood at tick `now`): S/A/B-set: pending[target] = (new value, now + floor(d/interval));
//	              M: if the other key is pending its due tick becomes now + floor(d/interval), value kept,
//	              otherwise nothing; R/B-remove: the other key is no longer pending (nothing if it was not)
//	every re-entrant call returns, with a nil error (the wheel is running, the arguments are valid)
//	drain       : Drain's fn receives exactly the pending set, timers created by reactions included; the
//	              reaction of a drained value is not run (Drain hands the pair to fn, not to execute), so
//	              nothing fires and nothing is created afterwards
//
// Left open by the statement and therefore kept out of the generated histories (counted): the order in which
// the timers of ONE tick run.  Before every tick the harness looks at the reactions of the timers the model
// has due on that tick (in key order) and switches a reaction off for this firing (the callback then only
// records) when it targets a key whose own timer is due on the same tick, or a key that a reaction already
// admitted for this tick targets as well.  What remains is order-independent.  Delays below one interval are
// outside the statement and never generated.
//
// Verdict "a call into the wheel from inside an execute callback did not return": only when a callback has
// entered its re-entrant call, has not left it after the budget (5 s), AND a goroutine dump shows every other
// goroutine of the process parked on a channel or a lock — a state that cannot change however long one waits
// (the wheel's loop is the only goroutine that could take the call).  Without that proof the expiry of the
// budget is inconclusive.  The wheel is then stopped, which releases everything.
//
// Synchronisation as in the wheel unit (ticker channel empty, RemoveTimer round trip on a key that is never
// set, goroutine count back to idle = every callback goroutine, and with it every re-entrant call, has ended,
// then a second round trip = the loop has finished handling the last re-entrant call).

import (
	"fmt"
	"runtime"
	"sort"
	"strings"
	"sync"
	"testing"
	"time"

	"github.com/zeromicro/go-zero/core/collection"
	"github.com/zeromicro/go-zero/core/logx"
	"github.com/zeromicro/go-zero/core/timex"
	"github.com/zeromicro/go-zero/internal/verifkit"
	"pgregory.net/rapid"
)

const (
	c12rBudget   = 5 * time.Second // per wait; expiry without the all-parked proof = inconclusive
	c12rMaxDepth = 3
)

// c12rPatience: how long a wait lasts before the goroutine dump is consulted.  It drops once a dump has
// proven a re-entrant call stuck (what follows is the slow replay and shrinking; the proof does not depend
// on how long one waited).
var c12rPatience = c12rBudget

var c12rKeys = []string{"k0", "k1", "k2", "k3", "k4", "k5"}

// ---------------------------------------------------------------- reactions

type c12rReact struct {
	kind  byte   // 'S' 'A' 'M' 'R' 'B'
	other string // A, M, R, B
	val   int    // S, A, B: value of the timer the reaction sets
	steps int    // floor(d/interval)
	rem   time.Duration
	next  *c12rReact // reaction carried by val
}

func (re *c12rReact) String() string {
	if re == nil {
		return ""
	}
	nx := ""
	if re.next != nil {
		nx = "=>[" + re.next.String() + "]"
	}
	switch re.kind {
	case 'S':
		return fmt.Sprintf("set(OWN,v%d,%dt+%v)%s", re.val, re.steps, re.rem, nx)
	case 'A':
		return fmt.Sprintf("set(%s,v%d,%dt+%v)%s", re.other, re.val, re.steps, re.rem, nx)
	case 'M':
		return fmt.Sprintf("move(%s,%dt+%v)", re.other, re.steps, re.rem)
	case 'R':
		return fmt.Sprintf("remove(%s)", re.other)
	case 'B':
		return fmt.Sprintf("set(OWN,v%d,%dt+%v)%s+remove(%s)", re.val, re.steps, re.rem, nx, re.other)
	}
	return "?"
}

// targets: the keys the reaction of a timer with key own acts on.
func (re *c12rReact) targets(own string) []string {
	switch re.kind {
	case 'S':
		return []string{own}
	case 'B':
		return []string{own, re.other}
	}
	return []string{re.other}
}

// perform issues the re-entrant calls (from inside the execute callback).
func (re *c12rReact) perform(tw *collection.TimingWheel, own string, iv time.Duration) []error {
	d := time.Duration(re.steps)*iv + re.rem
	switch re.kind {
	case 'S':
		return []error{tw.SetTimer(own, re.val, d)}
	case 'A':
		return []error{tw.SetTimer(re.other, re.val, d)}
	case 'M':
		return []error{tw.MoveTimer(re.other, d)}
	case 'R':
		return []error{tw.RemoveTimer(re.other)}
	case 'B':
		e1 := tw.SetTimer(own, re.val, d)
		return []error{e1, tw.RemoveTimer(re.other)}
	}
	return nil
}

// ---------------------------------------------------------------- recorder

type c12rEvent struct {
	f       c12Fire
	tick    int
	react   *c12rReact // the reaction this callback performs (nil: none, or switched off)
	skipped bool       // a reaction is attached to the value but was switched off for this tick
	entered bool       // recorded before the re-entrant call
	left    bool       // recorded after it
	errs    []error
}

type c12rRec struct {
	mu       sync.Mutex
	tw       *collection.TimingWheel
	iv       time.Duration
	now      int                // written by the harness before Tick()
	reacts   map[int]*c12rReact // value -> reaction
	disabled map[int]bool       // values whose reaction is switched off
	events   []*c12rEvent
	drained  []c12Fire
}

func (r *c12rRec) onFire(k, v any) {
	f := c12Conv(k, v)
	r.mu.Lock()
	ev := &c12rEvent{f: f, tick: r.now}
	re := r.reacts[f.val]
	if re != nil && r.disabled[f.val] {
		ev.skipped = true
		re = nil
	}
	ev.react = re
	ev.entered = re != nil
	r.events = append(r.events, ev)
	tw, iv := r.tw, r.iv
	r.mu.Unlock()
	if re == nil {
		return
	}
	errs := re.perform(tw, f.key, iv)
	r.mu.Lock()
	ev.left = true
	ev.errs = errs
	r.mu.Unlock()
}

func (r *c12rRec) onDrain(k, v any) {
	f := c12Conv(k, v)
	r.mu.Lock()
	r.drained = append(r.drained, f)
	r.mu.Unlock()
}

func (r *c12rRec) take() (events []*c12rEvent, drained []c12Fire) {
	r.mu.Lock()
	events, drained = r.events, r.drained
	r.events, r.drained = nil, nil
	r.mu.Unlock()
	return
}

// inside: callbacks that have entered their re-entrant call and not left it.
func (r *c12rRec) inside() []string {
	r.mu.Lock()
	defer r.mu.Unlock()
	var out []string
	for _, ev := range r.events {
		if ev.entered && !ev.left {
			out = append(out, fmt.Sprintf("%s (tick %d) inside %s", ev.f, ev.tick, ev.react))
		}
	}
	return out
}

// ---------------------------------------------------------------- operations

type c12rOp struct {
	kind  byte // 's'et 'm'ove 'r'emove 't'ick 'd'rain
	key   string
	val   int
	steps int
	rem   time.Duration
	react *c12rReact // 's': reaction carried by val
}

func (o c12rOp) String() string {
	switch o.kind {
	case 's':
		if o.react != nil {
			return fmt.Sprintf("set(%s,v%d,%dt+%v)=>[%s]", o.key, o.val, o.steps, o.rem, o.react)
		}
		return fmt.Sprintf("set(%s,v%d,%dt+%v)", o.key, o.val, o.steps, o.rem)
	case 'm':
		return fmt.Sprintf("move(%s,%dt+%v)", o.key, o.steps, o.rem)
	case 'r':
		return fmt.Sprintf("remove(%s)", o.key)
	case 't':
		return "tick"
	case 'd':
		return "drain"
	}
	return "?"
}

func c12rRenderOps(n int, iv time.Duration, ops []c12rOp) string {
	var b strings.Builder
	fmt.Fprintf(&b, "slots=%d interval=%v:", n, iv)
	for i := 0; i < len(ops); {
		if ops[i].kind == 't' {
			j := i
			for j < len(ops) && ops[j].kind == 't' {
				j++
			}
			if j-i == 1 {
				b.WriteString(" tick")
			} else {
				fmt.Fprintf(&b, " tick*%d", j-i)
			}
			i = j
			continue
		}
		b.WriteString(" " + ops[i].String())
		i++
	}
	return b.String()
}

// ---------------------------------------------------------------- harness

type c12rPend struct {
	val, due  int
	react     *c12rReact
	depth     int  // 0: set by the harness; d: set by a reaction at chain depth d
	selfRearm bool // set by a reaction on the key of the callback that ran it
}

type c12rRun struct {
	n       int
	iv      time.Duration
	slow    bool
	tw      *collection.TimingWheel
	tk      timex.FakeTicker
	rec     *c12rRec
	now     int
	stopped bool
	closed  bool
	done    bool // drained
	model   map[string]*c12rPend
	ops     []c12rOp
	log     []string // what the reactions did, per tick (for failure messages)

	cls               map[string]int
	selfRearmSeen     int // timers re-armed by their own callback whose delivery was verified
	reactOnPending    int // reactions that moved or removed another PENDING key
	reactionsExecuted int
}

func c12rNew(n int, iv time.Duration, slow bool) (*c12rRun, error) {
	if c12rLeaked {
		return nil, &c12Stall{"a goroutine of an earlier, deadlocked case is still there"}
	}
	if err := c12WaitGoroutines(c12Base); err != nil {
		return nil, err
	}
	if g := runtime.NumGoroutine(); g != c12Base {
		return nil, &c12Stall{fmt.Sprintf("goroutine baseline moved: %d, calibrated %d", g, c12Base)}
	}
	r := &c12rRun{n: n, iv: iv, slow: slow, model: map[string]*c12rPend{}, cls: map[string]int{}}
	r.rec = &c12rRec{iv: iv, reacts: map[int]*c12rReact{}, disabled: map[int]bool{}}
	r.tk = timex.NewFakeTicker()
	tw, err := collection.NewTimingWheelWithTicker(iv, n, r.rec.onFire, r.tk)
	if err != nil {
		return nil, &c12Violation{fmt.Sprintf("NewTimingWheelWithTicker(%v,%d): %v", iv, n, err)}
	}
	r.tw = tw
	r.rec.mu.Lock()
	r.rec.tw = tw
	r.rec.mu.Unlock()
	return r, nil
}

func (r *c12rRun) stop() {
	if !r.stopped {
		r.stopped = true
		r.tw.Stop()
	}
}

func (r *c12rRun) close() error {
	if r.closed {
		return nil
	}
	r.closed = true
	r.stop()
	return c12WaitGoroutines(c12Base)
}

func (r *c12rRun) history() string { return c12rRenderOps(r.n, r.iv, r.ops) }

func (r *c12rRun) violation(format string, a ...any) error {
	msg := fmt.Sprintf(format, a...)
	if len(r.log) > 0 {
		msg += "\n  reactions run so far: " + strings.Join(r.log, "; ")
	}
	return &c12Violation{msg + "\n  history: " + r.history()}
}

func (r *c12rRun) pending() string {
	var s []string
	for k, p := range r.model {
		s = append(s, fmt.Sprintf("%s=v%d@%d", k, p.val, p.due))
	}
	sort.Strings(s)
	return "{" + strings.Join(s, " ") + "}"
}

// c12rDeadlock: the verdict of stuck.  Its proof (goroutine dump) does not depend on the schedule, so it is
// not submitted to the slow replay (which may be impossible: a call that waits for something else than the
// wheel's loop is not released by stopping the wheel, and its goroutine stays behind).
type c12rDeadlock struct{ msg string }

func (d *c12rDeadlock) Error() string { return d.msg }

// c12rLeaked: a goroutine of a deadlocked case stayed behind; no further case can be judged in this process.
var c12rLeaked bool

// stuck is called when a wait has lasted longer than the patience: it decides between the verdict "a
// re-entrant call did not return" (proof: a callback is inside its call before AND after a goroutine dump in
// which every other goroutine is parked) and "inconclusive", and stops the wheel so that nothing hangs.
// Called from the harness goroutine only (the dump leaves the calling goroutine out).
func (r *c12rRun) stuck(what string) error {
	before := r.rec.inside()
	parked, who := c12sAllParked()
	var in []string
	for _, a := range r.rec.inside() {
		for _, b := range before {
			if a == b {
				in = append(in, a)
			}
		}
	}
	var err error
	if len(in) > 0 && parked {
		c12rPatience = 300 * time.Millisecond
		v := r.violation("a call into the wheel from inside an execute callback did not return: %s; the harness waited for %s, and every other "+
			"goroutine of the process is parked on a channel or a lock (nothing can let the call return any more, e.g. because the wheel's loop runs "+
			"the callback itself or waits for it)", strings.Join(in, ", "), what)
		err = &c12rDeadlock{v.Error()}
	} else {
		err = &c12Stall{fmt.Sprintf("%s not taken by the wheel's loop within %v (callbacks inside a re-entrant call: %d; not parked: %q)", what, c12rPatience, len(in), who)}
	}
	r.stop()
	return err
}

// guarded runs a call into the wheel that blocks until the wheel's loop takes it.  The call is made on a
// goroutine of its own, so that the harness can give its verdict (and go on) whatever becomes of the call.
func (r *c12rRun) guarded(what string, call func() error) error {
	done := make(chan error, 1)
	go func() { done <- call() }()
	tm := time.NewTimer(c12rPatience)
	defer tm.Stop()
	select {
	case err := <-done:
		return err
	case <-tm.C:
	}
	verdict := r.stuck(what)
	// stopping the wheel releases the call; if it does not (it waits for something else than the wheel's
	// loop), its goroutine is left behind and the following cases are inconclusive (baseline moved)
	tm2 := time.NewTimer(2 * time.Second)
	defer tm2.Stop()
	select {
	case <-done:
	case <-tm2.C:
	}
	return verdict
}

func (r *c12rRun) roundTrip() error {
	return r.guarded("RemoveTimer(sentinel)", func() error {
		if err := r.tw.RemoveTimer(c12Sentinel); err != nil {
			return &c12Violation{fmt.Sprintf("RemoveTimer on a running wheel: %v", err)}
		}
		return nil
	})
}

// poll waits until cond holds.
func (r *c12rRun) poll(what string, cond func() bool) error {
	var start time.Time
	for i := 0; !cond(); i++ {
		c12Pause(i)
		if i&255 != 255 {
			continue
		}
		if start.IsZero() {
			start = time.Now()
		} else if time.Since(start) > c12rPatience {
			return r.stuck(what)
		}
	}
	return nil
}

func (r *c12rRun) settle() error {
	if err := r.poll("the tick", func() bool { return len(r.tk.Chan()) == 0 }); err != nil {
		return err
	}
	if err := r.roundTrip(); err != nil {
		return err
	}
	if err := r.poll("the return of every callback goroutine", func() bool { return runtime.NumGoroutine() <= c12Base+1 }); err != nil {
		return err
	}
	return r.roundTrip()
}

func (r *c12rRun) quiesce() error {
	if err := r.settle(); err != nil {
		return err
	}
	if r.slow {
		time.Sleep(time.Millisecond)
		return r.settle()
	}
	return nil
}

// register makes the recorder know the reactions of a value and of the values its chain sets.
func (r *c12rRun) register(val int, re *c12rReact) {
	r.rec.mu.Lock()
	for re != nil {
		r.rec.reacts[val] = re
		val, re = re.val, re.next
	}
	r.rec.mu.Unlock()
}

// planTick decides, for the timers the model has due at tick `at`, which reactions are switched off.
func (r *c12rRun) planTick(at int) (batch []string) {
	for k, p := range r.model {
		if p.due <= at {
			batch = append(batch, k)
		}
	}
	sort.Strings(batch)
	in := map[string]bool{}
	for _, k := range batch {
		in[k] = true
	}
	touched := map[string]bool{}
	off := map[int]bool{}
	for _, k := range batch {
		p := r.model[k]
		if p.react == nil {
			continue
		}
		tg := p.react.targets(k)
		sibling, conflict := false, false
		for _, x := range tg {
			if x != k && in[x] {
				sibling = true
			}
			if touched[x] {
				conflict = true
			}
		}
		switch {
		case sibling:
			off[p.val] = true
			r.cls["avoided: target is due on the same tick"]++
		case conflict:
			off[p.val] = true
			r.cls["avoided: two reactions of one tick on one key"]++
		default:
			for _, x := range tg {
				touched[x] = true
			}
		}
	}
	r.rec.mu.Lock()
	r.rec.disabled = off
	r.rec.mu.Unlock()
	return batch
}

func (r *c12rRun) apply(op c12rOp) error {
	if r.done && op.kind != 't' {
		return nil // Drain is terminal in the stated domain
	}
	r.ops = append(r.ops, op)
	d := time.Duration(op.steps)*r.iv + op.rem
	var err error
	var batch []string
	switch op.kind {
	case 's':
		r.register(op.val, op.react)
		err = r.guarded("SetTimer", func() error {
			if e := r.tw.SetTimer(op.key, op.val, d); e != nil {
				return r.violation("SetTimer(%s,%v) returned %v", op.key, d, e)
			}
			return nil
		})
		if p := r.model[op.key]; p != nil {
			r.cls["re-set-pending"]++
			if p.depth > 0 {
				r.cls["harness re-set of a reaction-created timer"]++
			}
		}
		r.model[op.key] = &c12rPend{val: op.val, due: r.now + op.steps, react: op.react}
		if op.react != nil {
			r.cls["set-with-reaction"]++
		} else {
			r.cls["set-without-reaction"]++
		}
	case 'm':
		err = r.guarded("MoveTimer", func() error {
			if e := r.tw.MoveTimer(op.key, d); e != nil {
				return r.violation("MoveTimer(%s,%v) returned %v", op.key, d, e)
			}
			return nil
		})
		if p := r.model[op.key]; p != nil {
			p.due = r.now + op.steps
			r.cls["move-pending"]++
			if p.depth > 0 {
				r.cls["harness move of a reaction-created timer"]++
			}
		} else {
			r.cls["move-absent"]++
		}
	case 'r':
		err = r.guarded("RemoveTimer", func() error {
			if e := r.tw.RemoveTimer(op.key); e != nil {
				return r.violation("RemoveTimer(%s) returned %v", op.key, e)
			}
			return nil
		})
		if p := r.model[op.key]; p != nil {
			r.cls["remove-pending"]++
			if p.depth > 0 {
				r.cls["harness remove of a reaction-created timer"]++
			}
		}
		delete(r.model, op.key)
	case 't':
		r.now++
		batch = r.planTick(r.now)
		r.rec.mu.Lock()
		r.rec.now = r.now
		r.rec.mu.Unlock()
		r.tk.Tick()
	case 'd':
		err = r.guarded("Drain", func() error {
			if e := r.tw.Drain(r.rec.onDrain); e != nil {
				return r.violation("Drain returned %v", e)
			}
			return nil
		})
	}
	if err != nil {
		return err
	}
	if err := r.quiesce(); err != nil {
		if v, ok := err.(*c12Violation); ok && !strings.Contains(v.msg, "\n  history: ") {
			return r.violation("%s", v.msg)
		}
		return err
	}
	return r.check(op, batch)
}

func (r *c12rRun) check(op c12rOp, batch []string) error {
	events, drained := r.rec.take()
	fired := make([]c12Fire, len(events))
	for i, ev := range events {
		fired[i] = ev.f
	}
	var wantFired, wantDrained []c12Fire
	switch op.kind {
	case 't':
		for _, k := range batch {
			wantFired = append(wantFired, c12Fire{k, r.model[k].val})
		}
	case 'd':
		for k, p := range r.model {
			wantDrained = append(wantDrained, c12Fire{k, p.val})
		}
	}
	if gf, wf := c12Render(fired), c12Render(wantFired); gf != wf {
		return r.violation("after %s (tick %d): execute callbacks %s, statement requires %s (pending: %s)", op, r.now, gf, wf, r.pending())
	}
	if gd, wd := c12Render(drained), c12Render(wantDrained); gd != wd {
		return r.violation("after %s (tick %d): Drain delivered %s, statement requires %s", op, r.now, gd, wd)
	}
	switch op.kind {
	case 't':
		byKey := map[string]*c12rEvent{}
		for _, ev := range events {
			byKey[ev.f.key] = ev
		}
		firedPend := map[string]*c12rPend{}
		for _, k := range batch {
			p := r.model[k]
			firedPend[k] = p
			if p.selfRearm {
				r.selfRearmSeen++
				r.cls["timer re-armed by its own callback: fired at its tick"]++
			}
			if p.depth > 0 {
				r.cls["reaction-created timer fired at its tick"]++
			}
			delete(r.model, k)
		}
		if len(batch) > 0 {
			r.cls["tick-with-fires"]++
		}
		if len(batch) >= 2 {
			r.cls["batch>=2"]++
		}
		for _, k := range batch {
			p, ev := firedPend[k], byKey[k]
			if p.react == nil {
				continue
			}
			if ev.skipped {
				continue
			}
			if ev.react != p.react {
				return r.violation("after tick %d: harness error: callback of %s ran reaction [%s], model has [%s]", r.now, ev.f, ev.react, p.react)
			}
			if !ev.left {
				return r.violation("after tick %d: the callback of %s entered its re-entrant call [%s] and its goroutine ended without the call having returned", r.now, ev.f, ev.react)
			}
			for _, e := range ev.errs {
				if e != nil {
					return r.violation("after tick %d: the re-entrant call [%s] made by the callback of %s on the running wheel returned %v", r.now, ev.react, ev.f, e)
				}
			}
			r.applyReaction(k, p)
		}
	case 'd':
		created, withReact := 0, 0
		for _, p := range r.model {
			if p.depth > 0 {
				created++
			}
			if p.selfRearm {
				r.selfRearmSeen++
				r.cls["timer re-armed by its own callback: drained"]++
			}
			if p.react != nil {
				withReact++
			}
		}
		if len(r.model) > 0 {
			r.cls["drain-with-pending"]++
		}
		if created > 0 {
			r.cls["drain with reaction-created timers pending"]++
		}
		if withReact > 0 {
			r.cls["drain of timers that carry a reaction (not run)"]++
		}
		r.model = map[string]*c12rPend{}
		r.done = true
	}
	return nil
}

// applyReaction: the model's side of the reaction of the timer (k, p) that fired at tick r.now.
func (r *c12rRun) applyReaction(k string, p *c12rPend) {
	re := p.react
	depth := p.depth + 1
	r.reactionsExecuted++
	r.cls[fmt.Sprintf("reaction %c executed", re.kind)]++
	r.cls[fmt.Sprintf("reaction at chain depth %d", depth)]++
	r.log = append(r.log, fmt.Sprintf("tick %d: %s=v%d ran %s", r.now, k, p.val, c12rShort(re)))
	remove := func() {
		if q := r.model[re.other]; q != nil {
			r.cls["reaction removed a pending timer"]++
			r.reactOnPending++
			delete(r.model, re.other)
		} else {
			r.cls["reaction on a non-pending target"]++
		}
	}
	switch re.kind {
	case 'S', 'B':
		r.model[k] = &c12rPend{val: re.val, due: r.now + re.steps, react: re.next, depth: depth, selfRearm: true}
		if re.steps > r.n {
			r.cls["reaction set with delay > revolution"]++
		}
		if re.kind == 'B' {
			remove()
		}
	case 'A':
		if r.model[re.other] != nil {
			r.cls["reaction re-set a pending timer of another key"]++
		}
		r.model[re.other] = &c12rPend{val: re.val, due: r.now + re.steps, react: re.next, depth: depth}
	case 'M':
		if q := r.model[re.other]; q != nil {
			q.due = r.now + re.steps
			r.cls["reaction moved a pending timer"]++
			r.reactOnPending++
		} else {
			r.cls["reaction on a non-pending target"]++
		}
	case 'R':
		remove()
	}
}

// c12rShort renders a reaction without its chain.
func c12rShort(re *c12rReact) string {
	c := *re
	c.next = nil
	return c.String()
}

// runOut ticks until nothing is pending any more (reactions may create timers on the way; chains are
// bounded), then one more revolution plus one tick for strays.
func (r *c12rRun) runOut() error {
	quiet := 0
	for quiet < r.n+1 {
		if len(r.model) == 0 {
			quiet++
		} else {
			quiet = 0
		}
		if err := r.apply(c12rOp{kind: 't'}); err != nil {
			return err
		}
	}
	return nil
}

func c12rReplay(n int, iv time.Duration, ops []c12rOp, slow bool) (*c12rRun, error) {
	r, err := c12rNew(n, iv, slow)
	if err != nil {
		return nil, err
	}
	for _, op := range ops {
		if err := r.apply(op); err != nil {
			r.close()
			return r, err
		}
	}
	return r, r.close()
}

var c12rConfirmed bool

// c12rConfirm: a violation counts only if a slow replay of the same history shows a violation too.
func c12rConfirm(r *c12rRun, err error) (violation string, inconclusive string) {
	cerr := r.close()
	if d, ok := err.(*c12rDeadlock); ok {
		if cerr != nil {
			c12rLeaked = true
		}
		return d.msg, ""
	}
	if _, ok := err.(*c12Violation); !ok {
		return "", err.Error()
	}
	if c12rConfirmed {
		return err.Error(), ""
	}
	_, err2 := c12rReplay(r.n, r.iv, r.ops, true)
	if _, ok := err2.(*c12Violation); ok {
		c12rConfirmed = true
		return err.Error(), ""
	}
	return "", fmt.Sprintf("mismatch not reproduced by slow replay (%v): %s", err2, err.Error())
}

// ---------------------------------------------------------------- state machine

func TestVerifC12WheelReentrant(t *testing.T) {
	logx.Disable()
	st := verifkit.New("wheel-reentrant")
	sampled := false
	defer c12Flush(st, &sampled)
	c12Calibrate()
	slotsGen := rapid.IntRange(1, 8)
	iv := time.Second
	rapid.Check(t, func(t *rapid.T) {
		st.Eval()
		// one case in five is wide: 24 keys, and batches of 9..20 timers that expire on one tick (more
		// than any small fixed pool of workers a wheel might run its callbacks on)
		caseKeys := c12rKeys
		wide := rapid.IntRange(0, 4).Draw(t, "wide") == 4
		if wide {
			caseKeys = nil
			for i := 0; i < 24; i++ {
				caseKeys = append(caseKeys, fmt.Sprintf("k%d", i))
			}
			st.Class("wide-case(24 keys)")
		}
		keyGen := rapid.SampledFrom(caseKeys)
		n := slotsGen.Draw(t, "slots")
		ending := rapid.SampledFrom([]string{"runout", "drain", "runout"}).Draw(t, "finish")
		r, err := c12rNew(n, iv, false)
		if err != nil {
			st.Note("%v", err)
			t.Skip(err.Error())
		}
		defer r.close()
		// (rapid swallows a Skip raised inside an action of Repeat, so an inconclusive case is remembered
		// and skipped again at every later step)
		dead := ""
		fail := func(err error) {
			v, inc := c12rConfirm(r, err)
			if v != "" {
				t.Fatalf("C12 violated: %s", v)
			}
			dead = inc
			st.Class("inconclusive")
			st.Note("%s", inc)
			t.Skip(inc)
		}
		do := func(ops ...c12rOp) {
			if dead != "" {
				t.Skip(dead)
			}
			for _, op := range ops {
				if err := r.apply(op); err != nil {
					fail(err)
				}
			}
		}
		delay := func(t *rapid.T) (int, time.Duration) {
			steps := rapid.IntRange(1, 3*n+2).Draw(t, "ticks")
			rem := rapid.SampledFrom([]time.Duration{0, 0, 0, 1, iv / 2, iv - 1}).Draw(t, "rem")
			return steps, rem
		}
		pendingKeys := func(except string) []string {
			p := make([]string, 0, len(r.model))
			for k := range r.model {
				if k != except {
					p = append(p, k)
				}
			}
			sort.Strings(p)
			return p
		}
		otherKey := func(t *rapid.T, own string) string {
			// mostly a key that is pending right now (it often still is when the reaction runs)
			if pend := pendingKeys(own); len(pend) > 0 && rapid.IntRange(0, 2).Draw(t, "otherAny") != 0 {
				return rapid.SampledFrom(pend).Draw(t, "otherPending")
			}
			var ks []string
			for _, k := range caseKeys {
				if k != own {
					ks = append(ks, k)
				}
			}
			return rapid.SampledFrom(ks).Draw(t, "other")
		}
		val := 0
		var genReact func(t *rapid.T, own string, depth int) *c12rReact
		genReact = func(t *rapid.T, own string, depth int) *c12rReact {
			re := &c12rReact{kind: rapid.SampledFrom([]byte{'S', 'S', 'A', 'M', 'M', 'R', 'R', 'B'}).Draw(t, "reaction")}
			if re.kind != 'S' {
				re.other = otherKey(t, own)
			}
			if re.kind == 'S' || re.kind == 'A' || re.kind == 'B' || re.kind == 'M' {
				re.steps, re.rem = delay(t)
			}
			if re.kind == 'S' || re.kind == 'A' || re.kind == 'B' {
				val++
				re.val = val
				if depth < c12rMaxDepth && rapid.IntRange(0, 1).Draw(t, "chain") == 0 {
					nextOwn := own
					if re.kind == 'A' {
						nextOwn = re.other
					}
					re.next = genReact(t, nextOwn, depth+1)
				}
			}
			return re
		}
		setOp := func(t *rapid.T, k string, steps int, rem time.Duration) c12rOp {
			val++
			op := c12rOp{kind: 's', key: k, val: val, steps: steps, rem: rem}
			if rapid.IntRange(0, 1).Draw(t, "withReaction") == 0 {
				op.react = genReact(t, k, 1)
			}
			return op
		}
		t.Repeat(map[string]func(*rapid.T){
			"set": func(t *rapid.T) {
				k := keyGen.Draw(t, "key")
				steps, rem := delay(t)
				do(setOp(t, k, steps, rem))
			},
			"setSameTick": func(t *rapid.T) {
				// 2..3 distinct keys with one delay: they expire together
				lo, hi := 2, 3
				if wide {
					lo, hi = 9, 20
				}
				keys := rapid.SliceOfNDistinct(keyGen, lo, hi, rapid.ID[string]).Draw(t, "keys")
				if len(keys) >= 9 {
					st.Class("batch>=9-set-for-one-tick")
				}
				steps, rem := delay(t)
				for _, k := range keys {
					do(setOp(t, k, steps, rem))
				}
			},
			"move": func(t *rapid.T) {
				pend := pendingKeys("")
				var k string
				if len(pend) > 0 && rapid.IntRange(0, 7).Draw(t, "anykey") != 0 {
					k = rapid.SampledFrom(pend).Draw(t, "pendingKey")
				} else {
					k = keyGen.Draw(t, "key")
				}
				steps, rem := delay(t)
				do(c12rOp{kind: 'm', key: k, steps: steps, rem: rem})
			},
			"remove": func(t *rapid.T) {
				do(c12rOp{kind: 'r', key: keyGen.Draw(t, "key")})
			},
			"tick": func(t *rapid.T) {
				do(c12rOp{kind: 't'})
			},
			"ticks": func(t *rapid.T) {
				k := rapid.SampledFrom([]int{1, 2, 3, n, n + 1}).Draw(t, "count")
				for i := 0; i < k; i++ {
					do(c12rOp{kind: 't'})
				}
			},
		})
		if dead != "" {
			t.Skip(dead)
		}
		if ending == "drain" {
			do(c12rOp{kind: 'd'})
		}
		if err := r.runOut(); err != nil {
			fail(err)
		}
		if err := r.close(); err != nil {
			st.Note("%v", err)
			t.Skip(err.Error())
		}
		for k, c := range r.cls {
			st.ClassN(k, c)
		}
		if r.reactionsExecuted > 0 {
			st.Class("cases with >= 1 reaction executed")
		}
		if r.selfRearmSeen > 0 && r.reactOnPending > 0 {
			st.NonTrivial(r.history())
			sampled = true
		}
	})
}
