//go:build verif

package cache_test

import (
	"errors"
	"fmt"
	"sync/atomic"
	"testing"
	"time"

	"github.com/zeromicro/go-zero/core/logx"
	"github.com/zeromicro/go-zero/core/stores/cache"
	"github.com/zeromicro/go-zero/internal/verifkit"
	"pgregory.net/rapid"
)

// The cache cleaner is a client of the timing wheel (anchor core/stores/cache/cleaner.go): every
// clean task handed to AddCleanTask is a timer of its own and must fire exactly once at its due
// tick (1 s), also when several pending tasks name the same keys or are added within one tick;
// a task that fails is retried 5 s later (thorough tier only), again exactly once.
// Real 1 s ticks: "fired" is polled with a budget of 4 ticks beyond the due time.
func TestVerifC12Cleaner(t *testing.T) {
	logx.Disable()
	st := verifkit.New("cleaner")
	defer st.Flush()
	withRetry := verifkit.Thorough()
	rapid.Check(t, func(t *rapid.T) {
		st.Eval()
		n := rapid.IntRange(2, 8).Draw(t, "tasks")
		keySets := [][]string{{"k:a"}, {"k:a"}, {"k:a", "k:b"}, {"k:b", "k:a"}, {"k:c"}, {}}
		type task struct {
			keys     []string
			failOnce bool
			runs     int32
			gapMs    int
		}
		tasks := make([]*task, n)
		desc := ""
		for i := range tasks {
			tk := &task{keys: rapid.SampledFrom(keySets).Draw(t, "keys"), gapMs: rapid.SampledFrom([]int{0, 0, 1, 30, 300}).Draw(t, "gapMs")}
			tk.failOnce = withRetry && rapid.IntRange(0, 3).Draw(t, "failOnce") == 0
			tasks[i] = tk
			desc += fmt.Sprintf("%v/%v/%d ", tk.keys, tk.failOnce, tk.gapMs)
		}
		start := time.Now()
		for _, tk := range tasks {
			tk := tk
			time.Sleep(time.Duration(tk.gapMs) * time.Millisecond)
			cache.AddCleanTask(func() error {
				r := atomic.AddInt32(&tk.runs, 1)
				if tk.failOnce && r == 1 {
					return errors.New("planned clean failure")
				}
				return nil
			}, tk.keys...)
		}
		want := func(tk *task) int32 {
			if tk.failOnce {
				return 2
			}
			return 1
		}
		budget := 6 * time.Second
		if withRetry {
			budget = 13 * time.Second
		}
		deadline := start.Add(budget)
		for {
			done := true
			for _, tk := range tasks {
				if atomic.LoadInt32(&tk.runs) < want(tk) {
					done = false
				}
			}
			if done || time.Now().After(deadline) {
				break
			}
			time.Sleep(50 * time.Millisecond)
		}
		time.Sleep(1200 * time.Millisecond) // a spurious second firing would come with the next tick
		for i, tk := range tasks {
			if r := atomic.LoadInt32(&tk.runs); r != want(tk) {
				t.Fatalf("clean task %d (keys %v, failOnce=%v) ran %d time(s) within %v, want exactly %d; tasks: %s", i, tk.keys, tk.failOnce, r, time.Since(start), want(tk), desc)
			}
		}
		st.NonTrivial(desc)
	})
}
