//go:build verif

// Scale mode of the C08 generators (unit `scale`): the same type family and the same
// oracle as c08gen.go, but with wide declarations (structs of hundreds of fields,
// options lists of hundreds of entries in both notations) and large inputs (slices and
// maps of thousands of elements, strings up to 1 MiB, numbers of hundreds to thousands
// of digits), plus inputs that sit just outside a long options list.  Every size is
// drawn log-uniformly from a wide range — nothing is tuned to a threshold of the
// current code.  Large values are built arithmetically from a few drawn numbers
// (length, pattern, stride), so that a failing case shrinks by its sizes.
package verifc08

import (
	"encoding/json"
	"fmt"
	"hash/fnv"
	"math"
	"math/big"
	"math/bits"
	"reflect"
	"sort"
	"strconv"
	"strings"
	"unicode/utf8"

	"pgregory.net/rapid"
)

// SizeRange describes one size dimension: Small is the largest size the small
// generators of c08gen.go produce, [MidLo, MidHi] the gap between the small and the
// large cases, [LargeLo, LargeHi] the large cases.
type SizeRange struct{ Small, MidLo, MidHi, LargeLo, LargeHi int }

// ScaleRanges lists the size dimensions of the scale unit.
//
//	fields    fields of one struct               (small generators: <= 6)
//	options   entries of one options list        (small: <= 3)
//	elements  elements of one slice or map       (small: <= 3)
//	bytes     bytes of one string value          (small: <= 13, "héllo wörld")
//	digits    characters of one number literal   (small: <= 23, MaxFloat64 in %g)
var ScaleRanges = map[string]SizeRange{
	"fields":   {6, 7, 99, 100, 1000},
	"options":  {3, 4, 16, 17, 600},
	"elements": {3, 4, 999, 1000, 10000},
	"bytes":    {13, 14, 65535, 65536, 1 << 20},
	"digits":   {23, 24, 99, 100, 5000},
}

// ScaleDims lists the dimensions in a fixed order.
var ScaleDims = []string{"fields", "options", "elements", "bytes", "digits"}

// NonTrivialFactor: a scale case is non-trivial when one of its sizes is at least this
// many times the largest size the small generators produce in the same dimension.
const NonTrivialFactor = 100

// UniformBits draws a uniformly distributed k-bit number (rapid's integer generators
// lean towards small values and towards the ends of their range; its booleans do not).
func UniformBits(t *rapid.T, k int, label string) int {
	v := 0
	for _, b := range rapid.SliceOfN(rapid.Bool(), k, k).Draw(t, label) {
		v <<= 1
		if b {
			v |= 1
		}
	}
	return v
}

// logUniform draws an integer from [lo, hi] with uniformly distributed logarithm; it
// shrinks towards lo.
func logUniform(t *rapid.T, lo, hi int, label string) int {
	if hi <= lo {
		return lo
	}
	u := float64(UniformBits(t, 12, label)) / 4095
	v := int(math.Round(float64(lo) * math.Pow(float64(hi)/float64(lo), u)))
	if v < lo {
		v = lo
	}
	if v > hi {
		v = hi
	}
	return v
}

// ScaleCase is one generated type of the scale unit together with what is scaled.
type ScaleCase struct {
	Spec  *Type
	Key   string // tag key: json | form | path | header
	Large bool
	Dims  []string // the scaled dimensions, the primary one first
	// In holds the sizes actually judged with the last input drawn by GenInput: the
	// declared sizes (fields, options) of structs that were instantiated and of fields
	// that were supplied, and the supplied sizes (elements, bytes, digits).
	In map[string]int
	// Picks are class names describing the last input (which option was picked, ...).
	Picks []string

	notes map[*Field]*scaleNote
	wide  *Type  // the wide struct (nil: dimension not scaled)
	wideF *Field // the field holding it (nil: the wide struct is the spec itself)
}

type scaleNote struct {
	dim     string // options | elements | bytes | digits
	n       int
	shape   string
	a, b    int
	chunk   string
	elemLen int
	sorted  []string   // options of a string field, sorted
	ints    []*big.Int // options of an integer field, ascending
	spare   string     // an entry of the same family that is not in the list
	twinAt  int        // index (in the tag) of the entry in which the field differs from its twin; -1: no twin
	twinHas string     // the twin's entry at that index (not an option of this field)
	elem    *Type      // elements: element type below the big container level(s)
}

func itoa(i int) string { return strconv.Itoa(i) }

// GenScaleCase draws a type of the scale family for cfg.Mode (json, form, path or
// header): a small struct of the family of c08gen.go with one or two scaled dimensions.
//
// The large ranges are used for the primary dimension of one case in `every` when that
// dimension makes large inputs (elements, bytes; 30-80 ms a case), of one case in
// every/2 for wide structs (40 ms) and of one case in every/3 (at least every second
// one) for long options lists and long number literals, which cost 3 ms a case.
// only != "" fixes the primary dimension (development aid).
func GenScaleCase(t *rapid.T, cfg GenConfig, every int, only string) *ScaleCase {
	sc := &ScaleCase{Key: cfg.Mode, notes: map[*Field]*scaleNote{}}
	pool := []string{"fields", "options", "options", "elements", "elements", "bytes", "digits"}
	if cfg.Mode == "path" || cfg.Mode == "header" {
		pool = []string{"fields", "options", "options", "bytes", "digits"}
	}
	primary := rapid.SampledFrom(pool).Draw(t, "dim")
	if only != "" && contains(pool, only) {
		primary = only
	}
	switch primary {
	case "fields":
		every = (every + 1) / 2
	case "options", "digits":
		if every > 1 {
			every = max(2, every/3)
		}
	}
	// the largest value selects the large ranges, so that shrinking leads away from them
	large := UniformBits(t, 16, "large")%every == every-1
	sc.Large = large
	sc.Dims = []string{primary}
	if rapid.IntRange(0, 2).Draw(t, "twodims") == 0 {
		if second := rapid.SampledFrom(pool).Draw(t, "dim2"); second != primary {
			sc.Dims = append(sc.Dims, second)
		}
	}
	size := func(dim string) int {
		r := ScaleRanges[dim]
		if large && dim == primary {
			return logUniform(t, r.LargeLo, r.LargeHi, dim)
		}
		return logUniform(t, r.MidLo, r.MidHi, dim)
	}
	has := func(dim string) bool { return contains(sc.Dims, dim) }

	// the struct itself
	placement := 0
	if has("fields") {
		sc.wide = genWideStruct(t, cfg, cfg.Mode, size("fields"))
		if cfg.Mode == "json" {
			placement = rapid.IntRange(0, 5).Draw(t, "wideplacement")
		}
	}
	if sc.wide != nil && placement <= 1 {
		sc.Spec = sc.wide
	} else {
		sc.Spec = GenStruct(t, cfg)
	}
	if sc.wide != nil && sc.Spec != sc.wide {
		var ty *Type
		switch placement {
		case 2:
			ty = sc.wide
		case 3:
			ty = ptr(sc.wide)
		case 4:
			ty = slice(sc.wide)
		default:
			ty = mapOf(sc.wide)
		}
		sc.wideF = sc.addField(sc.Spec, "wide", ty)
		if rapid.IntRange(0, 3).Draw(t, "wideoptional") == 0 {
			sc.wideF.Optional = true
		}
	}

	if has("options") {
		k := rapid.IntRange(1, 2).Draw(t, "noptfields")
		for i := 0; i < k; i++ {
			n := size("options")
			host := sc.Spec
			if cfg.Mode == "json" {
				// three times in four the field sits in a nested struct, reached directly,
				// through a pointer, or as the element of a slice or a map
				if w := rapid.IntRange(0, 11).Draw(t, "optnest"); w < 9 {
					inner := &Type{Kind: reflect.Struct}
					host = inner
					var ty *Type
					switch w {
					case 0, 4, 5, 6, 7, 8:
						ty = inner
					case 1:
						ty = ptr(inner)
					case 2:
						ty = slice(inner)
					default:
						ty = mapOf(inner)
					}
					sc.addField(sc.Spec, "n", ty)
					f := sc.genOptionsField(t, host, n)
					if w >= 4 {
						// twins: a second struct declares a field of the same name whose long
						// list differs in a single entry
						inner2 := &Type{Kind: reflect.Struct}
						if sc.genOptionsTwin(t, inner2, f); len(inner2.Fields) > 0 {
							sc.addField(sc.Spec, "n", inner2)
						}
					}
					continue
				}
			}
			sc.genOptionsField(t, host, n)
		}
	}
	if has("elements") {
		sc.genElementsField(t, cfg, size("elements"))
	}
	if has("bytes") {
		sc.genBytesField(t, size("bytes"))
	}
	if has("digits") {
		k := rapid.IntRange(1, 3).Draw(t, "ndigitfields")
		for i := 0; i < k; i++ {
			sc.genDigitsField(t, size("digits"))
		}
	}
	var fix func(ty *Type)
	fix = func(ty *Type) {
		switch ty.Kind {
		case reflect.Struct:
			for _, f := range ty.Fields {
				if n := f.NumOptions(); n > 1 && len(f.order) != n {
					f.order = rapid.Permutation(seq(n)).Draw(t, "order")
				}
			}
		}
	}
	fix(sc.Spec)
	for _, f := range sc.Spec.Fields {
		if d := f.T.Deref(); d.Kind == reflect.Struct {
			fix(d)
		} else if (d.Kind == reflect.Slice || d.Kind == reflect.Map) && d.Elem.Deref().Kind == reflect.Struct {
			fix(d.Elem.Deref())
		}
	}
	return sc
}

// addField appends a scale field to the struct host and returns it.
func (sc *ScaleCase) addField(host *Type, stem string, ty *Type) *Field {
	i := len(host.Fields)
	f := &Field{GoName: "S" + itoa(i), TagKey: sc.Key, Name: stem + itoa(i), T: ty}
	if host != sc.Spec {
		f.TagKey = "json"
	}
	if f.TagKey == "header" {
		f.Name = "x-" + f.Name
	}
	host.Fields = append(host.Fields, f)
	return f
}

// genWideStruct is genStruct for n fields: every field draws its type and its tag
// options exactly like the fields of the small structs (scalars, pointers, slices and
// maps, no struct below), names are f0, f1, ...
func genWideStruct(t *rapid.T, cfg GenConfig, key string, n int) *Type {
	st := &Type{Kind: reflect.Struct}
	for i := 0; i < n; i++ {
		f := &Field{GoName: "F" + itoa(i), TagKey: key, Name: "f" + itoa(i)}
		switch key {
		case "header":
			f.Name = "x-" + f.Name
			if rapid.IntRange(0, 3).Draw(t, "hupper") == 0 {
				f.Name = strings.ToUpper(f.Name)
			}
		case "json":
			if rapid.IntRange(0, 5).Draw(t, "upper") == 0 {
				f.Name = strings.ToUpper(f.Name)
			}
		}
		f.T = genFieldType(t, cfg, key, 2)
		genOptions(t, f, cfg)
		st.Fields = append(st.Fields, f)
	}
	var free []*Field // possible dependency targets
	for _, g := range st.Fields {
		if g.Dep == "" {
			free = append(free, g)
		}
	}
	for _, f := range st.Fields {
		if f.Dep == "" {
			continue
		}
		if len(free) == 0 {
			f.Dep, f.Optional = "", true
			continue
		}
		tgt := rapid.SampledFrom(free).Draw(t, "dep").Name
		if f.Dep == "!" {
			f.Dep = "!" + tgt
		} else {
			f.Dep = tgt
		}
	}
	for _, f := range st.Fields {
		if n := f.NumOptions(); n > 1 {
			f.order = rapid.Permutation(seq(n)).Draw(t, "order")
		}
	}
	return st
}

// ---------------------------------------------------------------- long options lists

var optPrefixes = []string{"", "", "opt-", "v", "a", "Zone_", "x1", "aa"}

// genOptionsField adds a string or integer field with a list of n options to host.
func (sc *ScaleCase) genOptionsField(t *rapid.T, host *Type, n int) *Field {
	// strings half of the time, else one of the integer kinds
	k := reflect.String
	if rapid.Bool().Draw(t, "optint") {
		k = rapid.SampledFrom([]reflect.Kind{reflect.Int, reflect.Int8, reflect.Int16, reflect.Int32, reflect.Int64,
			reflect.Uint, reflect.Uint8, reflect.Uint16, reflect.Uint32, reflect.Uint64}).Draw(t, "optkind")
	}
	ty := sc0(k)
	if rapid.IntRange(0, 4).Draw(t, "optptr") == 0 {
		ty = ptr(ty)
	}
	f := sc.addField(host, "w", ty)
	note := &scaleNote{dim: "options", twinAt: -1}
	a, b := rapid.IntRange(0, 2).Draw(t, "gapa"), rapid.IntRange(0, 2).Draw(t, "gapb")
	gap := func(i int) int64 { return int64(1 + (a+i*b)%3) }
	var list []string
	if k == reflect.String {
		prefix := rapid.SampledFrom(optPrefixes).Draw(t, "optprefix")
		radix := rapid.SampledFrom([]int{10, 16, 36}).Draw(t, "optradix")
		v := int64(rapid.IntRange(0, 5000).Draw(t, "optstart"))
		for i := 0; i < n; i++ {
			list = append(list, prefix+strconv.FormatInt(v, radix))
			v += gap(i)
		}
		note.spare = prefix + strconv.FormatInt(v, radix) // the entry that would come next
		note.sorted = append([]string(nil), list...)
		sort.Strings(note.sorted)
	} else {
		lo, hi := intBounds(k)
		var start *big.Int
		off := big.NewInt(int64(rapid.IntRange(0, 5).Draw(t, "optoff")))
		switch rapid.IntRange(0, 3).Draw(t, "optwhere") {
		case 0: // at the lower bound of the kind
			start = new(big.Int).Add(lo, off)
		case 1: // ending near the upper bound of the kind
			start = new(big.Int).Sub(hi, big.NewInt(int64(3*n)))
			start.Sub(start, off)
		default: // around zero
			start = big.NewInt(int64(rapid.IntRange(-n, 1000).Draw(t, "optstart")))
		}
		if room := new(big.Int).Sub(hi, big.NewInt(int64(3*n))); start.Cmp(room) > 0 {
			start = room // keep the whole list holdable by the kind (as far as the kind has room)
		}
		if start.Cmp(lo) < 0 {
			start = new(big.Int).Set(lo)
		}
		v := start
		for i := 0; i < n && v.Cmp(hi) <= 0; i++ {
			note.ints = append(note.ints, v)
			list = append(list, v.String())
			v = new(big.Int).Add(v, big.NewInt(gap(i)))
		}
		if v.Cmp(hi) <= 0 {
			note.spare = v.String()
		}
	}
	// order of the entries in the tag: as generated, sorted as text, reversed, rotated,
	// or interleaved (even positions first)
	switch rapid.IntRange(0, 4).Draw(t, "optorder") {
	case 1:
		sort.Strings(list)
	case 2:
		for i, j := 0, len(list)-1; i < j; i, j = i+1, j-1 {
			list[i], list[j] = list[j], list[i]
		}
	case 3:
		r := rapid.IntRange(0, len(list)-1).Draw(t, "optrotate")
		list = append(append([]string(nil), list[r:]...), list[:r]...)
	case 4:
		var ev, od []string
		for i, s := range list {
			if i%2 == 0 {
				ev = append(ev, s)
			} else {
				od = append(od, s)
			}
		}
		list = append(ev, od...)
	}
	f.Options = list
	f.Bracket = rapid.Bool().Draw(t, "optbracket")
	note.n = len(list)
	switch rapid.IntRange(0, 7).Draw(t, "optoptional") {
	case 0, 1:
		f.Optional = true
	case 2:
		f.HasDefault = true
		f.Default = list[rapid.IntRange(0, len(list)-1).Draw(t, "optdefault")]
	}
	if k != reflect.String && len(note.ints) > 0 && rapid.IntRange(0, 5).Draw(t, "optrange") == 0 {
		// a range that contains every option (ends exact in float64)
		limit := new(big.Int).Lsh(big.NewInt(1), 52)
		first, last := note.ints[0], note.ints[len(note.ints)-1]
		if first.CmpAbs(limit) < 0 && last.CmpAbs(limit) < 0 {
			d := int64(rapid.IntRange(0, 2).Draw(t, "optrangeslack"))
			f.Range = &Range{HasLo: true, HasHi: true, LoInc: true, HiInc: true,
				Lo: float64(first.Int64() - d), Hi: float64(last.Int64() + d)}
		}
	}
	if f.TagKey == "json" && rapid.IntRange(0, 5).Draw(t, "optfromstring") == 0 {
		f.FromString = true
	}
	if n := f.NumOptions(); n > 1 {
		f.order = rapid.Permutation(seq(n)).Draw(t, "order")
	}
	sc.notes[f] = note
	return f
}

// genOptionsTwin adds to host2 a field with the same name, the same kind and the same
// tag options as f (the field of another struct) whose options list differs from f's in
// exactly one entry, at either end or anywhere in the tag: two declarations whose tag
// texts agree over hundreds of bytes.
func (sc *ScaleCase) genOptionsTwin(t *rapid.T, host2 *Type, f *Field) {
	note := sc.notes[f]
	if note.spare == "" || (f.Range != nil && !f.Range.Contains(bigFloatOf(note.spare), false)) {
		return
	}
	g := *f
	n := len(f.Options)
	at := []int{0, n - 1, n / 2, rapid.IntRange(0, n-1).Draw(t, "twinat")}[rapid.IntRange(0, 3).Draw(t, "twinwhere")]
	g.Options = append([]string(nil), f.Options...)
	old := g.Options[at]
	g.Options[at] = note.spare
	if g.HasDefault && g.Default == old {
		g.Default = note.spare
	}
	g.order = append([]int(nil), f.order...)
	host2.Fields = append(host2.Fields, &g)
	note2 := &scaleNote{dim: "options", n: n, twinAt: at, twinHas: old}
	if note.ints != nil {
		for _, o := range g.Options {
			v, _ := new(big.Int).SetString(o, 10)
			note2.ints = append(note2.ints, v)
		}
		sort.Slice(note2.ints, func(i, j int) bool { return note2.ints[i].Cmp(note2.ints[j]) < 0 })
	} else {
		note2.sorted = append([]string(nil), g.Options...)
		sort.Strings(note2.sorted)
	}
	note.twinAt, note.twinHas = at, note.spare
	sc.notes[&g] = note2
}

func bigFloatOf(dec string) *big.Float {
	v, _ := new(big.Int).SetString(dec, 10)
	return new(big.Float).SetInt(v)
}

// sc0 is sc (scalar type of kind k) for the methods whose receiver is named sc.
func sc0(k reflect.Kind) *Type { return sc(k) }

type scaleCand struct {
	what  string
	nopt  int
	apply func()
}

// nearMisses lists values that are not among the options of f but sit next to them:
// sorting before the first, between two neighbours, after the last, a prefix, an
// extension, another spelling of the case, a sub-string, two options joined by the
// separator of either notation, an option with a blank appended.
func (sc *ScaleCase) nearMisses(t *rapid.T, f *Field, note *scaleNote) []Violation {
	set := map[string]bool{}
	for _, o := range f.Options {
		set[o] = true
	}
	var out []Violation
	add := func(kind, lit string) {
		if lit != "" && !set[lit] {
			out = append(out, Violation{"options-" + kind, lit})
		}
	}
	n := len(f.Options)
	i := rapid.IntRange(0, n-1).Draw(t, "neari")
	j := rapid.IntRange(0, n-1).Draw(t, "nearj")
	k := f.T.Deref().Kind
	if k == reflect.String {
		S := note.sorted
		first, last := S[0], S[n-1]
		if c := first[len(first)-1]; c > '!' {
			add("before-first", first[:len(first)-1]+string(rune(c-1)))
		}
		add("before-first", first[:len(first)-1])
		add("after-last", last+"z")
		add("after-last", last[:len(last)-1]+string(rune(last[len(last)-1]+1)))
		add("between", S[i]+"!")
		add("between", S[i][:len(S[i])-1]+string(rune(S[i][len(S[i])-1]+1)))
		add("prefix", S[i][:len(S[i])-1])
		add("extension", S[i]+S[j][len(S[j])-1:])
		add("extension", S[i]+S[j])
		add("case", swapCase(S[i]))
		add("sub", S[i][1:])
		add("joined", S[i]+"|"+S[j])
		add("joined", S[i]+","+S[j])
		add("blank", S[i]+" ")
		// the tag order matters to a reader that stops early: neighbours of the entries
		// at both ends of the tag
		add("extension", f.Options[n-1]+"0")
		add("prefix", f.Options[n-1][:len(f.Options[n-1])-1])
		return out
	}
	lo, hi := intBounds(k)
	V := note.ints
	addInt := func(kind string, v *big.Int) {
		if v.Cmp(lo) < 0 || v.Cmp(hi) > 0 {
			return
		}
		if f.Range != nil && !f.Range.Contains(new(big.Float).SetInt(v), false) {
			return
		}
		add(kind, v.String())
	}
	one, ten := big.NewInt(1), big.NewInt(10)
	addInt("before-first", new(big.Int).Sub(V[0], one))
	addInt("after-last", new(big.Int).Add(V[len(V)-1], one))
	i, j = i%len(V), j%len(V)
	addInt("between", new(big.Int).Add(V[i], one))
	addInt("between", new(big.Int).Sub(V[j], one))
	addInt("prefix", new(big.Int).Quo(V[i], ten))
	addInt("extension", new(big.Int).Add(new(big.Int).Mul(V[i], ten), big.NewInt(int64(j%10))))
	return out
}

func swapCase(s string) string {
	b := []byte(s)
	for i, c := range b {
		switch {
		case c >= 'a' && c <= 'z':
			b[i] = c - 'a' + 'A'
		case c >= 'A' && c <= 'Z':
			b[i] = c - 'A' + 'a'
		}
	}
	return string(b)
}

// ---------------------------------------------------------------- large containers

func (sc *ScaleCase) genElementsField(t *rapid.T, cfg GenConfig, n int) {
	note := &scaleNote{dim: "elements", n: n}
	k := drawKind(t)
	var ty *Type
	if sc.Key == "form" {
		note.shape, ty = "slice", slice(k)
	} else {
		switch rapid.IntRange(0, 11).Draw(t, "elemshape") {
		case 0, 1, 2:
			note.shape, ty = "slice", slice(k)
		case 3:
			note.shape, ty = "slice", slice(ptr(k))
		case 4, 5, 6:
			note.shape, ty = "map", mapOf(k)
		case 7:
			note.shape, ty = "slice2", slice(slice(k))
		case 8:
			note.shape, ty = "mapslice", mapOf(slice(k))
		case 9:
			k = genStruct(t, cfg, 2)
			note.shape, ty = "structslice", slice(k)
		case 10:
			k = genStruct(t, cfg, 2)
			note.shape, ty = "structmap", mapOf(k)
		default:
			k = genStruct(t, cfg, 2)
			note.shape, ty = "structslice", slice(ptr(k))
		}
	}
	note.elem = k
	note.a, note.b = rapid.IntRange(0, 50).Draw(t, "elema"), rapid.IntRange(1, 7).Draw(t, "elemb")
	if k.Kind == reflect.String && rapid.IntRange(0, 2).Draw(t, "elemlong") == 0 {
		// long elements, the whole container bounded by 2 MiB
		note.elemLen = logUniform(t, 1, 2048, "elemlen")
		if lim := (2 << 20) / n; note.elemLen > lim {
			note.elemLen = lim
		}
		note.chunk = rapid.SampledFrom(bigChunks).Draw(t, "elemchunk")
	}
	f := sc.addField(sc.Spec, "c", ty)
	if rapid.IntRange(0, 3).Draw(t, "elemoptional") == 0 {
		f.Optional = true
	}
	sc.notes[f] = note
}

// bigContainer builds a valid value for the container field f and the candidates for
// breaking exactly one element of it.
func (sc *ScaleCase) bigContainer(g *inputGen, f *Field, note *scaleNote, route, path string) (any, []scaleCand) {
	n := note.n
	var cands []scaleCand
	positions := func() []int {
		ps := []int{0, n - 1, n / 2, logUniform(g.t, 1, n, "badpos") - 1, rapid.IntRange(0, n-1).Draw(g.t, "badpos2")}
		return ps
	}
	key := func(i int) string { return "k" + itoa(i) }
	if note.elem.Kind == reflect.Struct {
		// struct elements: copies of a few templates, plus elements generated in place at
		// both ends and at a drawn position (their fields are sites for violations)
		tg := &inputGen{t: g.t}
		var tmpl []any
		for i := 0; i < 4; i++ {
			obj := map[string]any{}
			tg.fillObject(note.elem, nil, obj, path)
			tmpl = append(tmpl, obj)
		}
		live := map[int]bool{}
		for _, p := range positions() {
			live[p] = true
		}
		elemAt := func(i int, p string) any {
			if live[i] {
				obj := map[string]any{}
				g.fillObject(note.elem, nil, obj, p)
				return obj
			}
			return deepCopy(tmpl[(note.a+i*note.b)%len(tmpl)])
		}
		if note.shape == "structmap" {
			m := make(map[string]any, n)
			for i := 0; i < n; i++ {
				m[key(i)] = elemAt(i, path+"["+key(i)+"]")
			}
			return m, nil
		}
		arr := make([]any, n)
		for i := range arr {
			arr[i] = elemAt(i, fmt.Sprintf("%s[%d]", path, i))
		}
		return arr, nil
	}
	k := note.elem.Kind
	free := &Field{TagKey: route}
	lits := validLiterals(free, k, route != "form")
	leaf := func(i int) any {
		if note.elemLen > 0 {
			return bigString(note.elemLen, note.chunk, i)
		}
		return leafValue(free, k, lits[(note.a+i*note.b)%len(lits)], route)
	}
	inner := func(i int) []any {
		arr := make([]any, (note.a+i)%3)
		for j := range arr {
			arr[j] = leaf(i + j)
		}
		return arr
	}
	bad := overflowLiterals(k)
	addCands := func(set func(i int, v any), nested bool) {
		if len(bad) == 0 {
			return
		}
		for _, p := range positions() {
			p := p
			v := bad[(note.a+p)%len(bad)]
			val := leafValue(free, k, v.Literal, route)
			where := fmt.Sprintf("%s[%d of %d]", path, p, n)
			if nested {
				cands = append(cands, scaleCand{"element-overflow " + where + "[0]=" + clip(v.Literal, 40), 0,
					func() { set(p, []any{val}) }})
			} else {
				cands = append(cands, scaleCand{"element-overflow " + where + "=" + clip(v.Literal, 40), 0,
					func() { set(p, val) }})
			}
		}
	}
	switch note.shape {
	case "map":
		m := make(map[string]any, n)
		for i := 0; i < n; i++ {
			m[key(i)] = leaf(i)
		}
		addCands(func(i int, v any) { m[key(i)] = v }, false)
		return m, cands
	case "mapslice":
		m := make(map[string]any, n)
		for i := 0; i < n; i++ {
			m[key(i)] = inner(i)
		}
		addCands(func(i int, v any) { m[key(i)] = v }, true)
		return m, cands
	case "slice2":
		arr := make([]any, n)
		for i := range arr {
			arr[i] = inner(i)
		}
		addCands(func(i int, v any) { arr[i] = v }, true)
		return arr, cands
	default:
		arr := make([]any, n)
		for i := range arr {
			arr[i] = leaf(i)
		}
		addCands(func(i int, v any) { arr[i] = v }, false)
		return arr, cands
	}
}

// ---------------------------------------------------------------- long strings

var bigChunks = []string{"abc", "héllo wörld ", "0", "x y", "日本", `a"b\c`, "<&>\n\t", "ÿ", "€uro ", "z", "null,", "1.5e3 "}

// bigString builds a valid UTF-8 string of exactly n bytes from the chunk, with a
// position marker every 32 chunks (so that a truncated, rotated or recycled copy
// differs from the original).
func bigString(n int, chunk string, salt int) string {
	var b strings.Builder
	b.Grow(n + 32)
	for i := 0; b.Len() < n; i++ {
		if i%32 == 0 {
			b.WriteByte('#')
			b.WriteString(itoa(salt + b.Len()))
			b.WriteByte('#')
		}
		b.WriteString(chunk)
	}
	s := b.String()
	cut := n
	for cut > 0 && cut < len(s) && !utf8.RuneStart(s[cut]) {
		cut--
	}
	return s[:cut] + strings.Repeat("x", n-cut)
}

func (sc *ScaleCase) genBytesField(t *rapid.T, n int) {
	note := &scaleNote{dim: "bytes", n: n, shape: "scalar"}
	note.chunk = rapid.SampledFrom(bigChunks).Draw(t, "chunk")
	note.a = rapid.IntRange(0, 999).Draw(t, "salt")
	str := sc0(reflect.String)
	ty := str
	w := rapid.IntRange(0, 9).Draw(t, "bytesshape")
	switch {
	case w == 0:
		ty = ptr(str)
	case w == 1 && (sc.Key == "json" || sc.Key == "form"):
		note.shape, ty = "slice", slice(str)
	case w == 2 && sc.Key == "json":
		note.shape, ty = "map", mapOf(str)
	}
	f := sc.addField(sc.Spec, "b", ty)
	switch rapid.IntRange(0, 7).Draw(t, "bytesoptional") {
	case 0, 1:
		f.Optional = true
	case 2:
		if note.shape == "scalar" {
			f.HasDefault, f.Default = true, rapid.SampledFrom(strDefaults).Draw(t, "bytesdefault")
		}
	}
	if note.shape == "scalar" && f.TagKey == "json" && rapid.IntRange(0, 7).Draw(t, "bytesfromstring") == 0 {
		f.FromString = true
	}
	sc.notes[f] = note
}

// ---------------------------------------------------------------- long numbers

func (sc *ScaleCase) genDigitsField(t *rapid.T, n int) {
	note := &scaleNote{dim: "digits", n: n}
	kinds := []reflect.Kind{reflect.Float64, reflect.Float64, reflect.Float64, reflect.Float32, reflect.Float32,
		reflect.Int, reflect.Int8, reflect.Int64, reflect.Uint16, reflect.Uint64}
	k := rapid.SampledFrom(kinds).Draw(t, "digitskind")
	note.a, note.b = rapid.IntRange(0, 9).Draw(t, "digita"), rapid.IntRange(0, 9).Draw(t, "digitb")
	ty := sc0(k)
	if rapid.IntRange(0, 4).Draw(t, "digitsptr") == 0 {
		ty = ptr(ty)
	}
	f := sc.addField(sc.Spec, "d", ty)
	if rapid.Bool().Draw(t, "digitsrange") {
		f.Range = genRange(t, k)
	}
	switch rapid.IntRange(0, 7).Draw(t, "digitsoptional") {
	case 0, 1:
		f.Optional = true
	case 2:
		if vals := validLiterals(f, k, false); len(vals) > 0 {
			f.HasDefault, f.Default = true, rapid.SampledFrom(vals).Draw(t, "digitsdefault")
		}
	}
	if f.TagKey == "json" && rapid.IntRange(0, 3).Draw(t, "digitsfromstring") == 0 {
		f.FromString = true
	}
	sc.notes[f] = note
}

// digitRun returns n decimal digits (the first one not zero) following an arithmetic
// pattern.
func digitRun(n, a, b int) string {
	buf := make([]byte, n)
	for i := range buf {
		buf[i] = byte('0' + (a+i*b+i*i/7)%10)
	}
	if n > 0 && buf[0] == '0' {
		buf[0] = '1'
	}
	return string(buf)
}

// longNumbers returns number literals of about note.n characters for field f: those
// that are values of the field's kind inside its range ("valid", by the reference
// decoder refScalar) and those the kind cannot hold or that lie far outside the range.
func longNumbers(f *Field, note *scaleNote) (valid []string, invalid []Violation) {
	k := f.T.Deref().Kind
	n := note.n
	run := digitRun(n, note.a, note.b)
	var lits []string
	if isFloat(k) {
		if f.Range != nil {
			// a point well inside the range, spelled with 4 decimals, then the digits: the
			// value moves by less than 1.5e-4, the narrowest generated range is 1e-3 wide
			var mid float64
			switch {
			case f.Range.HasLo && f.Range.HasHi:
				mid = (f.Range.Lo + f.Range.Hi) / 2
			case f.Range.HasLo:
				mid = f.Range.Lo + 1
			default:
				mid = f.Range.Hi - 1
			}
			lits = append(lits, strconv.FormatFloat(mid, 'f', 4, 64)+run)
		} else {
			lits = append(lits, run[:1]+"."+run[1:], "-"+run[:1]+"."+run[1:], "0."+run, run+"e-"+itoa(n-1))
		}
		lits = append(lits, run, "-"+run)
	} else {
		lits = append(lits, run)
		if isInt(k) {
			lits = append(lits, "-"+run)
		}
	}
	for _, lit := range lits {
		r := refScalar(k, json.Number(lit))
		switch {
		case r.status == stOK && (f.Range == nil || f.Range.Contains(r.asBigFloat(k), r.nan)):
			valid = append(valid, lit)
		case r.status == stOK:
			invalid = append(invalid, Violation{"digits-range", lit})
		case r.status == stUnholdable:
			invalid = append(invalid, Violation{"digits-overflow", lit})
		}
	}
	return valid, invalid
}

// ---------------------------------------------------------------- inputs

// GenInput draws an input for the case: mode "valid", "violation" (exactly one
// constraint broken; three times in four at one of the scaled places) or "chaos".
func (sc *ScaleCase) GenInput(t *rapid.T, mode string) *Input {
	g := &inputGen{t: t}
	in := &Input{Docs: map[string]map[string]any{}, Mode: mode}
	keys := map[string]bool{}
	for _, f := range sc.Spec.Fields {
		keys[f.TagKey] = true
	}
	for _, k := range sortedKeys(keys) {
		in.Docs[k] = map[string]any{}
	}
	g.fillObject(sc.Spec, in.Docs, nil, "")
	sc.In, sc.Picks = map[string]int{}, nil
	cands := sc.applyBig(g, in)
	switch mode {
	case "valid":
		in.MustAccept = true
	case "violation":
		if len(cands) > 0 && rapid.IntRange(0, 3).Draw(t, "scaledviolation") != 0 {
			byKind := map[string][]scaleCand{}
			for _, c := range cands {
				k := strings.SplitN(c.what, " ", 2)[0]
				byKind[k] = append(byKind[k], c)
			}
			kinds := sortedKeys(byKind)
			pool := byKind[kinds[g.pick(len(kinds))]]
			c := pool[g.pick(len(pool))]
			c.apply()
			in.What, in.ViolatedOptions, in.MustReject = c.what, c.nopt, true
		} else if !g.violate(in) {
			in.Mode, in.MustAccept = "valid", true
		}
	case "chaos":
		g.chaos(in)
	}
	return in
}

func (sc *ScaleCase) size(dim string, n int) {
	if n > sc.In[dim] {
		sc.In[dim] = n
	}
}

// applyBig replaces, in the valid instance g has just written, the values at the scaled
// fields by large ones (keeping the instance valid) and returns the candidates for
// breaking exactly one constraint at a scaled place.
func (sc *ScaleCase) applyBig(g *inputGen, in *Input) []scaleCand {
	var cands []scaleCand
	t := g.t
	// the wide struct: make sure it is instantiated when it sits behind a container
	switch {
	case sc.wide == nil:
	case sc.wideF == nil:
		sc.size("fields", len(sc.wide.Fields))
	default:
		doc := in.Docs[sc.wideF.TagKey]
		path := "." + sc.wideF.Name
		switch v := doc[sc.wideF.Name].(type) {
		case map[string]any:
			if sc.wideF.T.Deref().Kind == reflect.Map && len(v) == 0 {
				v["k0"] = g.value(nil, sc.wide, "json", path+"[k0]")
			}
			sc.size("fields", len(sc.wide.Fields))
		case []any:
			if len(v) == 0 {
				doc[sc.wideF.Name] = []any{g.value(nil, sc.wide, "json", path+"[0]")}
			}
			sc.size("fields", len(sc.wide.Fields))
		}
	}

	// containers and strings inside containers: top-level fields, rebuilt as a whole
	for _, f := range sc.Spec.Fields {
		note := sc.notes[f]
		if note == nil || (note.dim != "elements" && !(note.dim == "bytes" && note.shape != "scalar")) {
			continue
		}
		doc := in.Docs[f.TagKey]
		if _, present := doc[f.Name]; !present {
			sc.Picks = append(sc.Picks, note.dim+":absent")
			continue
		}
		path := "." + f.Name
		// forget the sites inside the value that is being replaced
		keepS := g.sites[:0:0]
		for _, s := range g.sites {
			if !strings.HasPrefix(s.path, path+"[") {
				keepS = append(keepS, s)
			}
		}
		g.sites = keepS
		keepE := g.elems[:0:0]
		for _, e := range g.elems {
			if !strings.HasPrefix(e.path, path+"[") {
				keepE = append(keepE, e)
			}
		}
		g.elems = keepE
		if note.dim == "elements" {
			v, cs := sc.bigContainer(g, f, note, f.TagKey, path)
			doc[f.Name] = v
			cands = append(cands, cs...)
			sc.size("elements", note.n)
			if note.elemLen > 0 {
				sc.size("bytes", note.elemLen)
			}
			sc.Picks = append(sc.Picks, "elements:"+note.shape)
			continue
		}
		// a few strings, one of them long
		m := rapid.IntRange(1, 3).Draw(t, "nstrings")
		at := rapid.IntRange(0, m-1).Draw(t, "longat")
		big := bigString(note.n, note.chunk, note.a)
		small := func(i int) string { return strValues[(note.a+i)%len(strValues)] }
		if note.shape == "map" {
			mm := map[string]any{}
			for i := 0; i < m; i++ {
				mm["k"+itoa(i)] = small(i)
			}
			mm["k"+itoa(at)] = big
			doc[f.Name] = mm
		} else {
			arr := make([]any, m)
			for i := range arr {
				arr[i] = small(i)
			}
			arr[at] = big
			doc[f.Name] = arr
		}
		sc.size("bytes", note.n)
		sc.Picks = append(sc.Picks, "bytes:"+note.shape)
	}

	// scalar sites: long options lists, long strings, long numbers
	bytesNote := (*scaleNote)(nil)
	for _, n := range sc.notes {
		if n.dim == "bytes" {
			bytesNote = n
		}
	}
	for _, s := range g.sites {
		s := s
		note := sc.notes[s.f]
		if note == nil {
			continue
		}
		if v, present := s.obj[s.f.Name]; !present || v == nil {
			sc.Picks = append(sc.Picks, note.dim+":absent")
			continue
		}
		k := s.f.T.Deref().Kind
		set := func(lit string) { s.obj[s.f.Name] = leafValue(s.f, k, lit, s.route) }
		switch note.dim {
		case "options":
			// supply the entry at either end of the tag, or any
			opts := s.f.Options
			n := len(opts)
			var idx int
			pick := rapid.IntRange(0, 3).Draw(t, "optpick")
			if note.twinAt >= 0 && rapid.Bool().Draw(t, "optpicktwin") {
				pick = 4
			}
			switch pick {
			case 4: // the entry the twin does not have
				idx = note.twinAt
				sc.Picks = append(sc.Picks, "options:pick-twin-difference")
			case 0:
				idx = 0
			case 1:
				idx = n - 1
			case 2:
				idx = logUniform(t, 1, n, "optidx") - 1
			default:
				idx = rapid.IntRange(0, n-1).Draw(t, "optidx2")
			}
			set(opts[idx])
			sc.size("options", n)
			switch idx {
			case 0:
				sc.Picks = append(sc.Picks, "options:pick-first")
			case n - 1:
				sc.Picks = append(sc.Picks, "options:pick-last")
			default:
				sc.Picks = append(sc.Picks, "options:pick-inner")
			}
			if s.f.Bracket {
				sc.Picks = append(sc.Picks, "options:notation-bracket")
			} else {
				sc.Picks = append(sc.Picks, "options:notation-bar")
			}
			for _, v := range sc.nearMisses(t, s.f, note) {
				v := v
				cands = append(cands, scaleCand{fmt.Sprintf("%s %s=%s (%d options)", v.Kind, s.path, v.Literal, n),
					s.f.NumOptions(), func() { set(v.Literal) }})
			}
			if note.twinAt >= 0 {
				lit := note.twinHas
				cands = append(cands, scaleCand{fmt.Sprintf("options-of-twin %s=%s (%d options)", s.path, lit, n),
					s.f.NumOptions(), func() { set(lit) }})
			}
			if k == reflect.String && bytesNote != nil {
				// an option extended to a long string
				ext := opts[idx] + bigString(bytesNote.n, bytesNote.chunk, bytesNote.a)
				cands = append(cands, scaleCand{fmt.Sprintf("options-long-extension %s=%s...(%d bytes)", s.path, opts[idx], len(ext)),
					s.f.NumOptions(), func() { set(ext); sc.size("bytes", len(ext)) }})
			}
		case "bytes":
			set(bigString(note.n, note.chunk, note.a))
			sc.size("bytes", note.n)
			sc.Picks = append(sc.Picks, "bytes:scalar")
		case "digits":
			valid, invalid := longNumbers(s.f, note)
			if len(valid) > 0 {
				lit := valid[g.pick(len(valid))]
				set(lit)
				sc.size("digits", len(lit))
				sc.Picks = append(sc.Picks, "digits:valid")
			} else {
				sc.Picks = append(sc.Picks, "digits:only-invalid")
			}
			for _, v := range invalid {
				v := v
				cands = append(cands, scaleCand{fmt.Sprintf("%s %s=%s", v.Kind, s.path, clip(v.Literal, 40)),
					s.f.NumOptions(), func() { set(v.Literal); sc.size("digits", len(v.Literal)) }})
			}
		}
	}
	return cands
}

func clip(s string, n int) string {
	if len(s) <= n {
		return s
	}
	return fmt.Sprintf("%s...(%d characters)", s[:n], len(s))
}

// Factor returns the dimension in which the last input is largest relative to the small
// generators, and that ratio.
func (sc *ScaleCase) Factor() (string, int) {
	best, dim := 0, ""
	for _, d := range sortedKeys(sc.In) {
		if r := sc.In[d] / ScaleRanges[d].Small; r > best {
			best, dim = r, d
		}
	}
	return dim, best
}

// SizeClass is the histogram bucket of a size: the power of two below it.
func SizeClass(n int) string {
	if n <= 0 {
		return "0"
	}
	return "2^" + itoa(bits.Len(uint(n))-1)
}

// Describe renders the case compactly (sizes, hashes and the beginning of the type and
// of the input) for failure messages and fingerprints.
func (sc *ScaleCase) Describe(in *Input) string {
	h := func(s string) string {
		f := fnv.New64a()
		f.Write([]byte(s))
		return strconv.FormatUint(f.Sum64(), 36)
	}
	ty, doc := sc.Spec.String(), in.Render()
	var sizes []string
	for _, d := range sortedKeys(sc.In) {
		sizes = append(sizes, d+"="+itoa(sc.In[d]))
	}
	return fmt.Sprintf("key=%s large=%v dims=%v sizes[%s] mode=%s what=%q type(%d bytes, fnv %s)=%s input(%d bytes, fnv %s)=%s",
		sc.Key, sc.Large, sc.Dims, strings.Join(sizes, " "), in.Mode, in.What, len(ty), h(ty), clip(ty, 500), len(doc), h(doc), clip(doc, 500))
}
