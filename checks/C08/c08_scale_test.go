//go:build verif

package mapping_test

import (
	"fmt"
	"strings"
	"testing"

	"github.com/zeromicro/go-zero/core/conf"
	"github.com/zeromicro/go-zero/core/logx"
	"github.com/zeromicro/go-zero/core/mapping"
	"github.com/zeromicro/go-zero/internal/encoding"
	gen "github.com/zeromicro/go-zero/internal/verifc08"
	"github.com/zeromicro/go-zero/internal/verifkit"
	"pgregory.net/rapid"
)

// TestVerifC08Scale is the scale unit: the soundness/completeness pair of the other
// units on wide declarations and large inputs (see c08scale.go).  A case scales one or
// two dimensions; its primary dimension is drawn from the large range (100-1000 fields,
// 17-600 options, 10^3-10^4 elements, 64 KiB-1 MiB strings, 100-5000 digits) with a
// period derived from VERIF_SCALE_EVERY and the cost of the dimension, otherwise from
// the gap between the small generators and the large range.  Every input goes through
// the same judge as in the json and strmap units (the json-keyed cases through the JSON
// body, the typed map and one or all of the other routes of the json unit).
func TestVerifC08Scale(t *testing.T) {
	logx.Disable()
	st := verifkit.New("scale")
	defer st.Flush()
	every := verifkit.EnvInt("scale_every", 6)
	if every < 1 {
		every = 1
	}
	// development aid: VERIF_SCALE_DIM=1..5 fixes the primary dimension
	only := ""
	if d := verifkit.EnvInt("scale_dim", 0); d >= 1 && d <= len(gen.ScaleDims) {
		only = gen.ScaleDims[d-1]
	}
	dir := t.TempDir()
	rapid.Check(t, func(t *rapid.T) {
		key := rapid.SampledFrom([]string{"json", "json", "json", "form", "path", "header"}).Draw(t, "key")
		cfg := exclusions(st)
		cfg.Mode = key
		sc := gen.GenScaleCase(t, cfg, every, only)
		spec, large := sc.Spec, sc.Large
		tier := "mid"
		if large {
			tier = "large"
		}
		st.Class("tier:" + tier)
		st.Class("key:" + key)
		for i, d := range sc.Dims {
			if i == 0 {
				st.Class("dim:" + tier + ":" + d)
			} else {
				st.Class("dim:secondary:" + d)
			}
		}
		n := rapid.IntRange(1, 2).Draw(t, "ninputs")
		for i := 0; i < n; i++ {
			in := sc.GenInput(t, drawMode(t))
			st.Eval()
			st.Class("mode:" + in.Mode)
			if in.Mode == "violation" {
				st.Class("violated:" + strings.SplitN(in.What, " ", 2)[0])
			}
			for _, p := range sc.Picks {
				st.Class(p)
			}
			for d, v := range sc.In {
				st.Class("size:" + d + ":" + gen.SizeClass(v))
			}
			fatal := func(format string, args ...any) {
				msg := fmt.Sprintf(format, args...)
				if len(msg) > 6000 {
					msg = msg[:6000] + fmt.Sprintf("...(%d characters)", len(msg))
				}
				t.Fatalf("%s\n  scale case: %s", msg, sc.Describe(in))
			}
			if rapid.IntRange(0, 3).Draw(t, "interfere") == 0 {
				interfere(t, st, spec)
			}
			if key == "json" {
				scaleJSONRoutes(fatal, st, spec, in, rapid.SampledFrom(routePlans).Draw(t, "routes"),
					rapid.IntRange(0, 3).Draw(t, "recase"), dir, rapid.IntRange(0, 7).Draw(t, "viaFile"))
			} else {
				u := map[string]*mapping.Unmarshaler{"form": formU, "path": pathU, "header": headerU}[key]
				_, norm := gen.ParamMap(key, in.Docs[key])
				judge(fatal, st, spec, in, key, map[string]map[string]any{key: norm}, true,
					func() (func(any) error, []any) {
						params, _ := gen.ParamMap(key, in.Docs[key])
						return func(p any) error { return u.Unmarshal(params, p) }, []any{params}
					})
			}
			// the judged phase passed the oracle on every route
			if large {
				st.Class("large:judged")
			}
			if dim, factor := sc.Factor(); factor >= gen.NonTrivialFactor {
				// non-trivial by the rule in check.json
				st.Class("nontrivial:" + dim)
				st.NonTrivial(sc.Describe(in))
			}
		}
	})
}

// scaleJSONRoutes runs a json-keyed scale case through the JSON body and the typed
// parameter map, and (plan) through every other route of the json unit or through one
// of them: the documents are large, and the YAML and TOML converters are slow.
var routePlans = []string{"conf", "yaml", "toml", "filldefault", "json-only", "conf", "all"}

func scaleJSONRoutes(fatal failf, st *verifkit.Stats, spec *gen.Type, in *gen.Input, plan string, recase int, dir string, viaFile int) {
	doc := in.Docs["json"]
	docs := map[string]map[string]any{"json": doc}
	text := gen.RenderJSON(doc)
	// the TOML decoder takes quadratic time on long inline tables: documents above
	// 128 KiB skip it
	if len(text) > 128<<10 && (plan == "toml" || plan == "all") {
		st.Class("routes:" + plan + "-too-large-for-toml")
		plan = "conf"
	}
	if plan == "all" {
		st.Class("routes:all")
		jsonRoutes(fatal, st, spec, in, recase, dir, viaFile)
		return
	}
	judge(fatal, st, spec, in, "json", docs, true, bytesRoute(text, func(b []byte, p any) error {
		return mapping.UnmarshalJsonBytes(b, p)
	}))
	judge(fatal, st, spec, in, "native", docs, true, func() (func(any) error, []any) {
		native := gen.NativeDoc(spec, doc)
		return func(p any) error { return mapping.UnmarshalJsonMap(native, p) }, []any{native}
	})
	converted := func(route string, body string, convert func([]byte) ([]byte, error), load func([]byte, any) error) {
		conv, err := convert([]byte(body))
		if err != nil {
			st.Class(route + ":unconvertible")
			return
		}
		d, err := gen.DecodeJSON(conv)
		if err != nil {
			return
		}
		if m, ok := d.(map[string]any); ok {
			lossless := gen.RenderJSON(m) == text
			if lossless {
				st.Class(route + ":lossless")
			}
			judge(fatal, st, spec, in, route, map[string]map[string]any{"json": m}, lossless, bytesRoute(body, load))
		}
	}
	st.Class("routes:" + plan)
	switch plan {
	case "conf": // configuration loader, keys re-spelled in the drawn case variant
		folded, ok := gen.FoldDoc(spec, doc)
		if !ok {
			st.Class("conf:ambiguous-keys")
			return
		}
		recased := doc
		if recase > 0 {
			recased = gen.RecaseDoc(spec, doc, recaseFn(recase))
		}
		judge(fatal, st, spec, in, "conf", map[string]map[string]any{"json": folded}, true,
			bytesRoute(gen.RenderJSON(recased), func(b []byte, p any) error { return conf.LoadFromJsonBytes(b, p) }))
	case "yaml":
		converted("yaml", text, encoding.YamlToJson, func(b []byte, p any) error { return mapping.UnmarshalYamlBytes(b, p) })
	case "toml":
		if toml, ok := gen.RenderTOML(doc); ok {
			converted("toml", toml, encoding.TomlToJson, func(b []byte, p any) error { return mapping.UnmarshalTomlBytes(b, p) })
		}
	case "filldefault":
		fillDefaultRoute(fatal, st, spec)
	}
}
