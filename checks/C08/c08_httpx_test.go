//go:build verif

package httpx_test

import (
	"fmt"
	"net/http"
	"net/http/httptest"
	"net/textproto"
	"net/url"
	"reflect"
	"strings"
	"testing"

	"github.com/zeromicro/go-zero/core/logx"
	"github.com/zeromicro/go-zero/core/mapping"
	gen "github.com/zeromicro/go-zero/internal/verifc08"
	"github.com/zeromicro/go-zero/internal/verifkit"
	"github.com/zeromicro/go-zero/rest/httpx"
	"github.com/zeromicro/go-zero/rest/pathvar"
	"pgregory.net/rapid"
)

// buildRequest realises the per-source documents as one http.Request and returns
// the normalised documents the oracle reads (what actually reaches the parser:
// e.g. empty form values are dropped by the HTTP layer).
func buildRequest(docs map[string]map[string]any, bodyless, formInBody bool) (*http.Request, map[string]map[string]any, string) {
	norm := map[string]map[string]any{}
	var desc []string
	query := url.Values{}
	if doc, ok := docs["form"]; ok {
		params, n := gen.ParamMap("form", doc)
		norm["form"] = n
		for k, v := range params {
			for _, s := range v.([]string) {
				query.Add(k, s)
			}
		}
	}
	jsonDoc, hasJSON := docs["json"]
	sendBody := hasJSON && !(bodyless && len(jsonDoc) == 0)
	var r *http.Request
	switch {
	case sendBody:
		body := gen.RenderJSON(jsonDoc)
		r = httptest.NewRequest(http.MethodPost, "/x?"+query.Encode(), strings.NewReader(body))
		r.Header.Set("Content-Type", "application/json")
		desc = append(desc, "POST ?"+query.Encode()+" body="+body)
	case formInBody:
		r = httptest.NewRequest(http.MethodPost, "/x", strings.NewReader(query.Encode()))
		r.Header.Set("Content-Type", "application/x-www-form-urlencoded")
		desc = append(desc, "POST form-body="+query.Encode())
	default:
		r = httptest.NewRequest(http.MethodGet, "/x?"+query.Encode(), nil)
		desc = append(desc, "GET ?"+query.Encode())
	}
	if hasJSON {
		norm["json"] = jsonDoc
	}
	if doc, ok := docs["header"]; ok {
		params, n := gen.ParamMap("header", doc)
		norm["header"] = n
		for k, v := range params {
			r.Header[textproto.CanonicalMIMEHeaderKey(k)] = []string{v.(string)}
			desc = append(desc, fmt.Sprintf("%s: %s", k, v))
		}
	}
	if doc, ok := docs["path"]; ok {
		params, n := gen.ParamMap("path", doc)
		norm["path"] = n
		vars := map[string]string{}
		for k, v := range params {
			vars[k] = v.(string)
		}
		r = pathvar.WithVars(r, vars)
		desc = append(desc, fmt.Sprintf("pathvars=%v", vars))
	}
	return r, norm, strings.Join(desc, " | ")
}

type outcome struct {
	err      error
	panicked any
	target   reflect.Value
}

func parse(spec *gen.Type, r *http.Request) (o outcome) {
	o.target = reflect.New(spec.RType())
	defer func() {
		if p := recover(); p != nil {
			o.panicked = p
		}
	}()
	o.err = httpx.Parse(r, o.target.Interface())
	return o
}

// requestInputs lists the value trees of a parsed request that reached the parser.
func requestInputs(r *http.Request) []any {
	in := []any{map[string][]string(r.Header), map[string][]string(r.Form), map[string][]string(r.PostForm)}
	if vars := pathvar.Vars(r); vars != nil {
		in = append(in, vars)
	}
	return in
}

func judge(fatal func(string, ...any), st *verifkit.Stats, spec *gen.Type, in *gen.Input,
	norm map[string]map[string]any, req string, build func() *http.Request) {
	r := build()
	o := parse(spec, r)
	head := fmt.Sprintf("route=httpx.Parse mode=%s\n  type:    %s\n  request: %s\n  docs:    %s",
		in.Mode, spec, req, (&gen.Input{Docs: norm}).Render())
	if o.panicked != nil {
		fatal("C08 (no input makes the unmarshaller panic) VIOLATED: panic %v\n%s", o.panicked, head)
		return
	}
	if o.err != nil {
		st.Class("rejected")
		if in.MustAccept {
			fatal("C08 (input meeting all declared constraints with correctly typed values is accepted) VIOLATED: %v\n%s",
				o.err, head)
		}
		return
	}
	st.Class("accepted")
	if msgs := gen.Check(spec, norm, o.target); len(msgs) > 0 {
		fatal("C08 (succeeds only if ...) VIOLATED on an accepted request:\n  %s\n%s\n  target: %+v",
			strings.Join(msgs, "\n  "), head, o.target.Elem().Interface())
		return
	}
	if in.MustReject {
		fatal("C08 VIOLATED: accepted a request that breaks exactly one constraint (%s)\n%s\n  target: %+v",
			in.What, head, o.target.Elem().Interface())
		return
	}
	// result independence: the same request again, after the first result and the
	// request's own maps have been overwritten by their owner
	msg, sc, iw := gen.Independence(spec, norm, o.target, requestInputs(r),
		func(p any) error { return httpx.Parse(build(), p) })
	if sc.Refs > 0 {
		st.Class("indep:refs-scribbled")
	} else {
		st.Class("indep:scalars-only")
	}
	st.ClassN("indep:ref-writes", sc.Refs)
	st.ClassN("indep:input-writes", iw)
	if msg != "" {
		fatal("C08 (the target holds exactly the supplied values with defaults filled for the absent ones) VIOLATED: %s\n%s", msg, head)
	}
}

func interfere(t *rapid.T, st *verifkit.Stats, spec *gen.Type) {
	iv := gen.GenInterference(t, spec)
	var opts []mapping.UnmarshalOption
	if iv.Canon != nil {
		opts = append(opts, mapping.WithCanonicalKeyFunc(iv.Canon))
	}
	target := reflect.New(iv.Twin.RType())
	func() {
		defer func() {
			if p := recover(); p != nil {
				t.Fatalf("C08 (no input makes the unmarshaller panic) VIOLATED: panic %v\n  type: %s\n  doc: %s\n  canonical key function: %s",
					p, iv.Twin, gen.RenderJSON(iv.Doc), iv.CanonName)
			}
		}()
		_ = mapping.NewUnmarshaler("json", opts...).Unmarshal(iv.Doc, target.Interface())
	}()
	st.Class("interference:" + iv.CanonName)
}

func TestVerifC08Httpx(t *testing.T) {
	logx.Disable()
	st := verifkit.New("httpx")
	defer st.Flush()
	kf := verifkit.KnownFindings("C08")
	cfg := gen.GenConfig{Mode: "httpx", Exclude: map[string]bool{}, OnExcluded: st.Excluded}
	for _, id := range []string{"D9a", "D9b", "D9c", "N3", "N4"} {
		if kf[id] {
			cfg.Exclude[id] = true
		}
	}
	rapid.Check(t, func(t *rapid.T) {
		spec := gen.GenStruct(t, cfg)
		srcs := map[string]bool{}
		for _, f := range spec.Fields {
			srcs[f.TagKey] = true
		}
		st.Class(fmt.Sprintf("sources:%d", len(srcs)))
		n := rapid.IntRange(1, 4).Draw(t, "ninputs")
		for i := 0; i < n; i++ {
			mode := rapid.SampledFrom([]string{"valid", "valid", "valid", "violation", "violation", "violation",
				"violation", "chaos", "chaos"}).Draw(t, "mode")
			in := gen.GenInput(t, spec, mode)
			st.Eval()
			st.Class("mode:" + in.Mode)
			bodyless, formInBody := rapid.Bool().Draw(t, "bodyless"), rapid.Bool().Draw(t, "formInBody")
			_, norm, req := buildRequest(in.Docs, bodyless, formInBody)
			if in.Mode == "violation" {
				st.Class("violated:" + strings.SplitN(in.What, " ", 2)[0])
				if in.ViolatedOptions >= 2 {
					st.NonTrivial(spec.String() + " <- " + req + " [" + in.What + "]")
				}
			}
			// an unrelated decode of a type with the same tag texts, through an unmarshaler with
			// another canonical key function, before the judged request (result not judged here)
			if rapid.IntRange(0, 2).Draw(t, "interfere") == 0 {
				interfere(t, st, spec)
			}
			judge(t.Fatalf, st, spec, in, norm, req, func() *http.Request {
				r, _, _ := buildRequest(in.Docs, bodyless, formInBody)
				return r
			})
		}
	})
}

// TestVerifC08RegressHttpx replays the shrunk defects that are reachable through a
// real request.
func TestVerifC08RegressHttpx(t *testing.T) {
	logx.Disable()
	st := verifkit.New("regress-httpx")
	defer st.Flush()
	I, F64 := gen.Sc(reflect.Int), gen.Sc(reflect.Float64)
	cases := []struct {
		name string
		spec *gen.Type
		docs map[string]map[string]any
	}{
		{"D1FormOptionalDepDropsRange",
			gen.S(gen.FK("form", "a", I, "optional=b", "range=[1:5]"), gen.FK("form", "b", I, "optional")),
			map[string]map[string]any{"form": {"a": "100", "b": "1"}}},
		{"N1FormNaNPassesRange", gen.S(gen.FK("form", "a", F64, "range=[1:5]")),
			map[string]map[string]any{"form": {"a": "NaN"}}},
		{"N1HeaderNaNPassesRange", gen.S(gen.FK("header", "x-a", F64, "range=(0:1)")),
			map[string]map[string]any{"header": {"x-a": "nan"}}},
	}
	for _, c := range cases {
		st.Eval()
		r, _, req := buildRequest(c.docs, false, false)
		o := parse(c.spec, r)
		switch {
		case o.panicked != nil:
			t.Errorf("C08 VIOLATED (regression %s): panic %v; type %s request %s", c.name, o.panicked, c.spec, req)
		case o.err == nil:
			t.Errorf("C08 VIOLATED (regression %s): out-of-range value accepted; type %s request %s target %+v",
				c.name, c.spec, req, o.target.Elem().Interface())
		}
	}
	// N2: `optional=!dep` under the header key; the request meets every constraint
	st.Eval()
	spec := gen.S(gen.FK("header", "x-a", I, "optional"), gen.FK("header", "x-b", I, "optional=!x-a"))
	r, norm, req := buildRequest(map[string]map[string]any{"header": {"x-a": "1"}}, false, false)
	o := parse(spec, r)
	switch {
	case o.panicked != nil:
		t.Errorf("C08 VIOLATED (regression N2HeaderNegatedDep): panic %v; type %s request %s", o.panicked, spec, req)
	case o.err != nil:
		t.Errorf("C08 VIOLATED (regression N2HeaderNegatedDep): valid request rejected: %v; type %s request %s", o.err, spec, req)
	default:
		if msgs := gen.Check(spec, norm, o.target); len(msgs) > 0 {
			t.Errorf("C08 VIOLATED (regression N2HeaderNegatedDep): %v; type %s request %s", msgs, spec, req)
		}
	}
}
