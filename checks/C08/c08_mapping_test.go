//go:build verif

package mapping_test

import (
	"flag"
	"fmt"
	"net/textproto"
	"os"
	"path/filepath"
	"reflect"
	"strings"
	"testing"

	"github.com/zeromicro/go-zero/core/conf"
	"github.com/zeromicro/go-zero/core/logx"
	"github.com/zeromicro/go-zero/core/mapping"
	"github.com/zeromicro/go-zero/internal/encoding"
	gen "github.com/zeromicro/go-zero/internal/verifc08"
	"github.com/zeromicro/go-zero/internal/verifkit"
	"pgregory.net/rapid"
)

// ---------------------------------------------------------------- running one route

type outcome struct {
	err      error
	panicked any
	target   reflect.Value // pointer to the decoded struct
}

// run calls f with a fresh pointer to spec's type and captures a panic.
func run(spec *gen.Type, f func(ptr any) error) (o outcome) {
	o.target = reflect.New(spec.RType())
	defer func() {
		if r := recover(); r != nil {
			o.panicked = r
		}
	}()
	o.err = f(o.target.Interface())
	return o
}

type failf func(format string, args ...any)

// prepFn builds one call of a route from scratch: the function that unmarshals the
// (same) document into the pointer it is given, and the input value trees it hands to
// the unmarshaller (so that they can be scribbled over afterwards).
type prepFn func() (call func(ptr any) error, inputs []any)

// bytesRoute is a route whose input is a document text.
func bytesRoute(text string, f func(content []byte, ptr any) error) prepFn {
	return func() (func(ptr any) error, []any) {
		b := []byte(text)
		return func(p any) error { return f(b, p) }, []any{b}
	}
}

// judge applies the three clauses of the statement to one (type, input, route) run.
// expect=false drops the generator's accept/reject expectation (used where a format
// converter re-spelled the numbers); the result oracle and "no panic" always apply.
func judge(fatal failf, st *verifkit.Stats, spec *gen.Type, in *gen.Input, route string,
	docs map[string]map[string]any, expect bool, prep prepFn) {
	call, inputs := prep()
	o := run(spec, call)
	head := func() string {
		return fmt.Sprintf("route=%s mode=%s\n  type:  %s\n  input: %s", route, in.Mode, spec, renderDocs(docs))
	}
	if o.panicked != nil {
		fatal("C08 (no input makes the unmarshaller panic) VIOLATED: panic %v\n%s", o.panicked, head())
		return
	}
	if o.err != nil {
		st.Class(route + ":rejected")
		if expect && in.MustAccept {
			fatal("C08 (input meeting all declared constraints with correctly typed values is accepted) VIOLATED: %v\n%s",
				o.err, head())
		}
		return
	}
	st.Class(route + ":accepted")
	if msgs := gen.Check(spec, docs, o.target); len(msgs) > 0 {
		fatal("C08 (succeeds only if ...) VIOLATED on an accepted input:\n  %s\n%s\n  target: %+v",
			strings.Join(msgs, "\n  "), head(), o.target.Elem().Interface())
		return
	}
	if expect && in.MustReject {
		fatal("C08 VIOLATED: accepted an input that breaks exactly one constraint (%s)\n%s\n  target: %+v",
			in.What, head(), o.target.Elem().Interface())
		return
	}
	// result independence: the same document again, after the first result and the
	// input have been overwritten by their owner
	again, _ := prep()
	msg, sc, iw := gen.Independence(spec, docs, o.target, inputs, again)
	countIndependence(st, route, sc, iw)
	if msg != "" {
		fatal("C08 (the target holds exactly the supplied values with defaults filled for the absent ones) VIOLATED: %s\n%s",
			msg, head())
	}
}

// countIndependence records whether the case gave the independence clause something
// to bite on: memory behind a reference (slice elements, map entries, pointees).
func countIndependence(st *verifkit.Stats, route string, sc gen.ScribbleStats, inputWrites int) {
	if sc.Refs > 0 {
		st.Class("indep:" + route + ":refs-scribbled")
	} else {
		st.Class("indep:" + route + ":scalars-only")
	}
	st.ClassN("indep:ref-writes", sc.Refs)
	st.ClassN("indep:input-writes", inputWrites)
}

func renderDocs(docs map[string]map[string]any) string {
	in := gen.Input{Docs: docs}
	return in.Render()
}

// exclusions reads the known findings that switch a D9 shape class off.
func exclusions(st *verifkit.Stats) gen.GenConfig {
	kf := verifkit.KnownFindings("C08")
	cfg := gen.GenConfig{Exclude: map[string]bool{}, OnExcluded: st.Excluded}
	for _, id := range []string{"D9a", "D9b", "D9c", "N3", "N4"} {
		if kf[id] {
			cfg.Exclude[id] = true
		}
	}
	return cfg
}

func drawMode(t *rapid.T) string {
	return rapid.SampledFrom([]string{"valid", "valid", "valid", "violation", "violation", "violation",
		"violation", "chaos", "chaos"}).Draw(t, "mode")
}

func countCase(st *verifkit.Stats, spec *gen.Type, in *gen.Input) {
	st.Eval()
	st.Class("mode:" + in.Mode)
	if in.Mode == "violation" {
		st.Class("violated:" + strings.SplitN(in.What, " ", 2)[0])
		if in.ViolatedOptions >= 2 {
			// non-trivial by the rule in check.json
			st.NonTrivial(spec.String() + " <- " + in.Render() + " [" + in.What + "]")
		}
	}
}

// ---------------------------------------------------------------- JSON family of routes

var caseNames = []string{"as-tag", "UPPER", "lower", "mixed"}

// recaseFn re-spells a struct key in the given case variant (mixed alternates which
// letters are capitals from key to key).
func recaseFn(mode int) func(string) string {
	n := 0
	return func(k string) string {
		switch mode {
		case 1:
			return strings.ToUpper(k)
		case 2:
			return strings.ToLower(k)
		case 3:
			n++
			b := []byte(strings.ToLower(k))
			for i := range b {
				if (i+n)%2 == 0 && b[i] >= 'a' && b[i] <= 'z' {
					b[i] -= 'a' - 'A'
				}
			}
			return string(b)
		}
		return k
	}
}

// confRoutes runs the configuration-loader routes: LoadFromJsonBytes, LoadFromYamlBytes,
// LoadFromTomlBytes and (viaFile in 1..3) conf.Load on a .json/.yaml/.toml file.
func confRoutes(fatal failf, st *verifkit.Stats, spec *gen.Type, in *gen.Input, doc map[string]any,
	mode int, dir string, viaFile int) {
	folded, ok := gen.FoldDoc(spec, doc)
	if !ok {
		st.Class("conf:ambiguous-keys")
		return
	}
	st.Class("conf:case:" + caseNames[mode])
	st.Class(fmt.Sprintf("conf:struct-nesting-supplied:%d", gen.ReachedNesting(spec, folded)))
	recased := doc
	if mode > 0 {
		recased = gen.RecaseDoc(spec, doc, recaseFn(mode))
	}
	foldedText := gen.RenderJSON(folded)
	jsonText := gen.RenderJSON(recased)
	oracle := map[string]map[string]any{"json": folded}

	judge(fatal, st, spec, in, "conf", oracle, true,
		bytesRoute(jsonText, func(b []byte, p any) error { return conf.LoadFromJsonBytes(b, p) }))

	// through a format converter the numbers may be re-spelled: the oracle reads the
	// converter's output (folded), the accept/reject expectation holds when it is lossless
	viaConverter := func(route, text string, convert func([]byte) ([]byte, error),
		load func([]byte, any) error) (map[string]map[string]any, bool, bool) {
		conv, err := convert([]byte(text))
		if err != nil {
			st.Class(route + ":unconvertible")
			return nil, false, false
		}
		d, err := gen.DecodeJSON(conv)
		if err != nil {
			return nil, false, false
		}
		m, ok := d.(map[string]any)
		if !ok {
			return nil, false, false
		}
		fm, ok := gen.FoldDoc(spec, m)
		if !ok {
			return nil, false, false
		}
		docs := map[string]map[string]any{"json": fm}
		lossless := gen.RenderJSON(fm) == foldedText
		judge(fatal, st, spec, in, route, docs, lossless, bytesRoute(text, load))
		return docs, lossless, true
	}
	yamlDocs, yamlLossless, yamlOK := viaConverter("confyaml", jsonText, encoding.YamlToJson,
		func(b []byte, p any) error { return conf.LoadFromYamlBytes(b, p) })
	tomlText, tomlRenderable := gen.RenderTOML(recased)
	var tomlDocs map[string]map[string]any
	var tomlLossless, tomlOK bool
	if tomlRenderable {
		tomlDocs, tomlLossless, tomlOK = viaConverter("conftoml", tomlText, encoding.TomlToJson,
			func(b []byte, p any) error { return conf.LoadFromTomlBytes(b, p) })
	}

	// conf.Load on a file
	fileRoute := func(name, text string, docs map[string]map[string]any, expect bool) {
		path := filepath.Join(dir, name)
		judge(fatal, st, spec, in, "confload", docs, expect, func() (func(any) error, []any) {
			if err := os.WriteFile(path, []byte(text), 0o600); err != nil {
				panic(err)
			}
			return func(p any) error { return conf.Load(path, p) }, nil
		})
	}
	switch {
	case viaFile == 1:
		fileRoute("c.json", jsonText, oracle, true)
	case viaFile == 2 && yamlOK:
		fileRoute("c.yaml", jsonText, yamlDocs, yamlLossless)
	case viaFile == 3 && tomlOK:
		fileRoute("c.toml", tomlText, tomlDocs, tomlLossless)
	}
}

func jsonRoutes(fatal failf, st *verifkit.Stats, spec *gen.Type, in *gen.Input, recase int, dir string, viaFile int) {
	doc := in.Docs["json"]
	docs := map[string]map[string]any{"json": doc}
	text := gen.RenderJSON(doc)

	// 1. JSON body
	judge(fatal, st, spec, in, "json", docs, true, bytesRoute(text, func(b []byte, p any) error {
		return mapping.UnmarshalJsonBytes(b, p)
	}))

	// 2. parameter map with Go values of the fields' own types
	judge(fatal, st, spec, in, "native", docs, true, func() (func(any) error, []any) {
		native := gen.NativeDoc(spec, doc)
		return func(p any) error { return mapping.UnmarshalJsonMap(native, p) }, []any{native}
	})

	// 3. configuration loader: keys are matched case-insensitively.  The struct keys of
	// the document (not the map keys) are re-spelled in the drawn case variant; the
	// oracle keeps judging the supplied values by field (folded document).
	confRoutes(fatal, st, spec, in, doc, recase, dir, viaFile)

	// 3b. conf.FillDefault (fill-default mode, no document): outside the quantifier for
	// validation, but it hands out the same defaults: no panic, declared defaults held,
	// and independent results
	fillDefaultRoute(fatal, st, spec)

	// 4. YAML body: the JSON text is YAML; the oracle reads what the converter delivers
	if conv, err := encoding.YamlToJson([]byte(text)); err == nil {
		if d, err := gen.DecodeJSON(conv); err == nil {
			if m, ok := d.(map[string]any); ok {
				lossless := gen.RenderJSON(m) == text
				if lossless {
					st.Class("yaml:lossless")
				}
				judge(fatal, st, spec, in, "yaml", map[string]map[string]any{"json": m}, lossless,
					bytesRoute(text, func(b []byte, p any) error { return mapping.UnmarshalYamlBytes(b, p) }))
			}
		}
	} else {
		st.Class("yaml:unconvertible")
	}

	// 5. TOML body
	if toml, ok := gen.RenderTOML(doc); ok {
		if conv, err := encoding.TomlToJson([]byte(toml)); err == nil {
			if d, err := gen.DecodeJSON(conv); err == nil {
				if m, ok := d.(map[string]any); ok {
					lossless := gen.RenderJSON(m) == text
					if lossless {
						st.Class("toml:lossless")
					}
					judge(fatal, st, spec, in, "toml", map[string]map[string]any{"json": m}, lossless,
						bytesRoute(toml, func(b []byte, p any) error { return mapping.UnmarshalTomlBytes(b, p) }))
				}
			}
		} else {
			st.Class("toml:unconvertible")
		}
	}
}

func fillDefaultRoute(fatal failf, st *verifkit.Stats, spec *gen.Type) {
	o := run(spec, func(p any) error { return conf.FillDefault(p) })
	if o.panicked != nil {
		fatal("C08 (no input makes the unmarshaller panic) VIOLATED: conf.FillDefault panicked: %v\n  type: %s", o.panicked, spec)
		return
	}
	if o.err != nil {
		st.Class("filldefault:rejected")
		return
	}
	st.Class("filldefault:accepted")
	if msgs := gen.CheckDefaults(spec, o.target); len(msgs) > 0 {
		fatal("C08 (defaults filled for the absent ones) VIOLATED by conf.FillDefault:\n  %s\n  type: %s\n  target: %+v",
			strings.Join(msgs, "\n  "), spec, o.target.Elem().Interface())
		return
	}
	saved := gen.DeepCopy(o.target.Elem())
	sc := gen.Scribble(o.target.Elem())
	defer sc.Undo()
	countIndependence(st, "filldefault", sc, 0)
	o2 := run(spec, func(p any) error { return conf.FillDefault(p) })
	if o2.panicked != nil || o2.err != nil {
		fatal("C08 VIOLATED: second conf.FillDefault on a fresh target failed: %v %v\n  type: %s", o2.panicked, o2.err, spec)
		return
	}
	if d := gen.Same(saved, o2.target.Elem()); d != "" {
		fatal("C08 (defaults filled for the absent ones) VIOLATED: after the first result had been overwritten by its owner, conf.FillDefault fills other values: %s\n  type: %s\n  first:  %+v\n  second: %+v",
			d, spec, saved.Interface(), o2.target.Elem().Interface())
	}
}

// interfere decodes a type with the same tag texts as spec through an unmarshaler with another
// canonical key function (result not judged; a panic is a violation by itself): the verdict of the
// judged call that follows must not depend on it.
func interfere(t *rapid.T, st *verifkit.Stats, spec *gen.Type) {
	iv := gen.GenInterference(t, spec)
	var opts []mapping.UnmarshalOption
	if iv.Canon != nil {
		opts = append(opts, mapping.WithCanonicalKeyFunc(iv.Canon))
	}
	target := reflect.New(iv.Twin.RType())
	func() {
		defer func() {
			if p := recover(); p != nil {
				t.Fatalf("C08 (no input makes the unmarshaller panic) VIOLATED: panic %v\n  type: %s\n  doc: %s\n  canonical key function: %s",
					p, iv.Twin, gen.RenderJSON(iv.Doc), iv.CanonName)
			}
		}()
		_ = mapping.NewUnmarshaler("json", opts...).Unmarshal(iv.Doc, target.Interface())
	}()
	st.Class("interference:" + iv.CanonName)
}

func TestVerifC08Json(t *testing.T) {
	logx.Disable()
	st := verifkit.New("json")
	defer st.Flush()
	cfg := exclusions(st)
	cfg.Mode = "json"
	dir := t.TempDir()
	rapid.Check(t, func(t *rapid.T) {
		spec := gen.GenStruct(t, cfg)
		st.Class(fmt.Sprintf("struct-nesting:%d", spec.StructNesting()))
		for s := range spec.Shapes() {
			st.Class("shape:" + s)
		}
		n := rapid.IntRange(1, 4).Draw(t, "ninputs")
		for i := 0; i < n; i++ {
			in := gen.GenInput(t, spec, drawMode(t))
			countCase(st, spec, in)
			if rapid.IntRange(0, 2).Draw(t, "interfere") == 0 {
				interfere(t, st, spec)
			}
			jsonRoutes(t.Fatalf, st, spec, in, rapid.IntRange(0, 3).Draw(t, "recase"), dir,
				rapid.IntRange(0, 7).Draw(t, "viaFile"))
		}
	})
}

// ---------------------------------------------------------------- string-map routes

var (
	formU = mapping.NewUnmarshaler("form", mapping.WithStringValues(), mapping.WithOpaqueKeys(),
		mapping.WithFromArray())
	pathU   = mapping.NewUnmarshaler("path", mapping.WithStringValues(), mapping.WithOpaqueKeys())
	headerU = mapping.NewUnmarshaler("header", mapping.WithStringValues(),
		mapping.WithCanonicalKeyFunc(textproto.CanonicalMIMEHeaderKey))
)

func TestVerifC08StrMap(t *testing.T) {
	logx.Disable()
	st := verifkit.New("strmap")
	defer st.Flush()
	rapid.Check(t, func(t *rapid.T) {
		key := rapid.SampledFrom([]string{"form", "form", "path", "header"}).Draw(t, "key")
		cfg := exclusions(st)
		cfg.Mode = key
		spec := gen.GenStruct(t, cfg)
		u := map[string]*mapping.Unmarshaler{"form": formU, "path": pathU, "header": headerU}[key]
		n := rapid.IntRange(1, 4).Draw(t, "ninputs")
		for i := 0; i < n; i++ {
			in := gen.GenInput(t, spec, drawMode(t))
			countCase(st, spec, in)
			if rapid.IntRange(0, 2).Draw(t, "interfere") == 0 {
				interfere(t, st, spec)
			}
			_, norm := gen.ParamMap(key, in.Docs[key])
			judge(t.Fatalf, st, spec, in, key, map[string]map[string]any{key: norm}, true,
				func() (func(any) error, []any) {
					params, _ := gen.ParamMap(key, in.Docs[key])
					return func(p any) error { return u.Unmarshal(params, p) }, []any{params}
				})
		}
	})
}

// ---------------------------------------------------------------- regressions (shrunk defects)

type regress struct {
	name   string
	known  string // finding id that, when listed as known, turns the case into a KNOWN-FINDING report
	spec   *gen.Type
	key    string
	doc    string // JSON text of the document (string routes: object of strings)
	expect string // what the statement requires: accept | reject | nopanic
}

func regressions() []regress {
	I, F64 := gen.Sc(reflect.Int), gen.Sc(reflect.Float64)
	return []regress{
		{"D1OptionalDepDropsRange", "", gen.S(gen.F("a", I, "optional=b", "range=[1:5]"), gen.F("b", I, "optional")),
			"json", `{"a": 100, "b": 1}`, "reject"},
		{"D1OptionalNotDepDropsRange", "", gen.S(gen.F("a", I, "optional=!b", "range=[1:5]"), gen.F("b", I, "optional")),
			"json", `{"a": 100}`, "reject"},
		{"D2NullInMapOfSlice", "", gen.S(gen.F("m", gen.Map(gen.Slice(I)))),
			"json", `{"m": {"k": null}}`, "reject"},
		{"D9aPtrToMap", "D9a", gen.S(gen.F("m", gen.Ptr(gen.Map(I)))),
			"json", `{"m": {"k": 1}}`, "accept"},
		{"D9aPtrToMapAbsent", "D9a", gen.S(gen.F("m", gen.Ptr(gen.Map(I)))),
			"json", `{}`, "nopanic"},
		{"D9aMapOfPtrToMap", "D9a", gen.S(gen.F("m", gen.Map(gen.Ptr(gen.Map(I))))),
			"json", `{"m": {"k": {"j": 1}}}`, "accept"},
		{"D9bMapOfPtrToInt", "D9b", gen.S(gen.F("m", gen.Map(gen.Ptr(I)))),
			"json", `{"m": {"k": 1}}`, "accept"},
		{"D9bMapOfPtrToString", "D9b", gen.S(gen.F("m", gen.Map(gen.Ptr(gen.Sc(reflect.String))))),
			"json", `{"m": {"k": "x"}}`, "accept"},
		{"D9bNestedMapOfPtrToBool", "D9b", gen.S(gen.F("m", gen.Map(gen.Map(gen.Ptr(gen.Sc(reflect.Bool)))))),
			"json", `{"m": {"k": {"j": true}}}`, "accept"},
		{"D9cPtrToSlice", "D9c", gen.S(gen.F("m", gen.Ptr(gen.Slice(I)))),
			"json", `{"m": [1]}`, "accept"},
		{"D9cPtrToEmptySlice", "D9c", gen.S(gen.F("m", gen.Ptr(gen.Slice(I)))),
			"json", `{"m": []}`, "accept"},
		{"D9cSliceOfPtrToSlice", "D9c", gen.S(gen.F("m", gen.Slice(gen.Ptr(gen.Slice(I))))),
			"json", `{"m": [[1]]}`, "accept"},
		{"D9cPtrPtrToSlice", "D9c", gen.S(gen.F("m", gen.Ptr(gen.Ptr(gen.Slice(I))))),
			"json", `{"m": [1]}`, "accept"},
		{"D9cMapOfPtrToSlice", "D9c", gen.S(gen.F("m", gen.Map(gen.Ptr(gen.Slice(I))))),
			"json", `{"m": {"k": [1]}}`, "accept"},
		{"N2HeaderNegatedDepValidRejected", "", gen.S(gen.FK("header", "x-a", I, "optional"), gen.FK("header", "x-b", I, "optional=!x-a")),
			"header", `{"x-a": "1"}`, "accept"},
		{"N2HeaderNegatedDepOther", "", gen.S(gen.FK("header", "x-a", I, "optional"), gen.FK("header", "x-b", I, "optional=!x-a")),
			"header", `{"x-b": "2"}`, "accept"},
		{"SliceDefaultStrings", "", gen.S(gen.F("a", gen.Slice(gen.Sc(reflect.String)), "default=[west,north,east]"), gen.F("n", I, "optional")),
			"json", `{"n": 1}`, "accept"},
		{"SliceDefaultInts", "", gen.S(gen.F("a", gen.Slice(gen.Ptr(gen.Sc(reflect.Int8))), "default=[1,-2]")),
			"json", `{}`, "accept"},
		{"SliceDefaultForm", "", gen.S(gen.FK("form", "tags", gen.Slice(gen.Sc(reflect.String)), "default=[b,a]")),
			"form", `{}`, "accept"},
		{"N3DefaultOnPtrToSlice", "N3", gen.S(gen.F("a", gen.Ptr(gen.Slice(gen.Sc(reflect.String))), "default=[x,y]")),
			"json", `{}`, "accept"},
		// N4: the order of the two rows matters (the first fills the process-wide cache);
		// the default text is one the generators never draw (4 elements)
		{"N4DefaultCacheBoolFirst", "N4", gen.S(gen.F("a", gen.Slice(gen.Sc(reflect.Bool)), "default=[false,true,false,true]")),
			"json", `{}`, "accept"},
		{"N4DefaultCacheThenString", "N4", gen.S(gen.F("a", gen.Slice(gen.Sc(reflect.String)), "default=[false,true,false,true]")),
			"json", `{}`, "accept"},
		// N5: conf's key lower-casing lost the map levels of map-of-map types
		{"N5ConfMapOfMapOfSliceOfStruct", "", gen.S(gen.F("BQ", gen.Map(gen.Map(gen.Slice(gen.S(gen.F("BQ", gen.Sc(reflect.String)))))))),
			"conf", `{"BQ": {"k0": {"k0": [{"BQ": "abc"}]}}}`, "accept"},
		{"N5ConfMapKeyNamedLikeField", "", gen.S(gen.F("BQ", gen.Map(gen.Map(gen.S(gen.F("BQ", gen.Sc(reflect.String))))))),
			"conf", `{"BQ": {"k0": {"BQ": {"BQ": "abc"}}}}`, "accept"},
		{"N1NaNPassesRangeForm", "", gen.S(gen.FK("form", "a", F64, "range=[1:5]")),
			"form", `{"a": "NaN"}`, "reject"},
		{"N1NaNPassesRangeJsonString", "", gen.S(gen.F("a", F64, "string", "range=[1:5]")),
			"json", `{"a": "nan"}`, "reject"},
	}
}

// runRegressInto unmarshals the regression's document into ptr.
func runRegressInto(r regress, ptr any) (error, map[string]map[string]any) {
	d, err := gen.DecodeJSON([]byte(r.doc))
	if err != nil {
		panic(err)
	}
	doc := d.(map[string]any)
	switch r.key {
	case "json":
		return mapping.UnmarshalJsonBytes([]byte(r.doc), ptr), map[string]map[string]any{"json": doc}
	case "conf":
		return conf.LoadFromJsonBytes([]byte(r.doc), ptr), map[string]map[string]any{"json": doc}
	default:
		params, norm := gen.ParamMap(r.key, doc)
		u := map[string]*mapping.Unmarshaler{"form": formU, "path": pathU, "header": headerU}[r.key]
		return u.Unmarshal(params, ptr), map[string]map[string]any{r.key: norm}
	}
}

func runRegress(r regress) (o outcome, docs map[string]map[string]any) {
	o = run(r.spec, func(p any) error {
		var err error
		err, docs = runRegressInto(r, p)
		return err
	})
	if docs == nil { // panicked before returning
		d, _ := gen.DecodeJSON([]byte(r.doc))
		docs = map[string]map[string]any{r.key: d.(map[string]any)}
	}
	return o, docs
}

// verdict returns "" when the regression case behaves as the statement demands.
func (r regress) verdict() string {
	o, docs := runRegress(r)
	switch {
	case o.panicked != nil:
		return fmt.Sprintf("panic: %v", o.panicked)
	case o.err != nil && r.expect == "accept":
		return fmt.Sprintf("valid input rejected: %v", o.err)
	case o.err == nil && r.expect == "reject":
		return fmt.Sprintf("violating input accepted, target %+v", o.target.Elem().Interface())
	case o.err == nil:
		if msgs := gen.Check(r.spec, docs, o.target); len(msgs) > 0 {
			return strings.Join(msgs, "; ")
		}
		msg, _, _ := gen.Independence(r.spec, docs, o.target, nil, func(p any) error {
			o2, _ := runRegressInto(r, p)
			return o2
		})
		return msg
	}
	return ""
}

func TestVerifC08Regress(t *testing.T) {
	logx.Disable()
	st := verifkit.New("regress")
	defer st.Flush()
	kf := verifkit.KnownFindings("C08")
	reported := map[string]bool{}
	for _, r := range regressions() {
		st.Eval()
		v := r.verdict()
		if v == "" {
			continue
		}
		desc := fmt.Sprintf("%s: type %s input %s: %s", r.name, r.spec, r.doc, v)
		if r.known != "" && kf[r.known] {
			if !reported[r.known] {
				reported[r.known] = true
				st.KnownFinding(r.known, desc)
			}
			continue
		}
		t.Errorf("C08 VIOLATED (regression %s)", desc)
	}
}

// ---------------------------------------------------------------- native fuzz target

func fuzzing() bool {
	f := flag.Lookup("test.fuzz")
	return f != nil && f.Value.String() != ""
}

// fixedTypes is the family of representative types for the byte-level fuzz target.
func fixedTypes() []*gen.Type {
	S, F, Sc, Ptr, Slice, Map := gen.S, gen.F, gen.Sc, gen.Ptr, gen.Slice, gen.Map
	I, I8, U8, U64, F32, F64, Str, B := Sc(reflect.Int), Sc(reflect.Int8), Sc(reflect.Uint8), Sc(reflect.Uint64),
		Sc(reflect.Float32), Sc(reflect.Float64), Sc(reflect.String), Sc(reflect.Bool)
	inner := func() *gen.Type {
		return S(F("a", I, "range=[1:5]"), F("b", Str, "options=x|y", "optional"), F("c", F64, "default=1.5"))
	}
	return []*gen.Type{
		S(F("a", I)),
		S(F("a", I, "optional")),
		S(F("a", I, "default=3")),
		S(F("a", I, "range=[1:5]")),
		S(F("a", I, "range=(1:5)")),
		S(F("a", I8, "range=[:5)")),
		S(F("a", U8, "range=(1:]")),
		S(F("a", F64, "range=[0.5:2.25)")),
		S(F("a", F32, "range=(-1:1]")),
		S(F("a", I, "options=1|2|3")),
		S(F("a", Str, "options=foo|bar")),
		S(F("a", Str, "options=foo|bar", "default=foo")),
		S(F("a", I, "string")),
		S(F("a", F64, "string", "range=[1:5]")),
		S(F("a", B, "string", "optional")),
		S(F("a", I, "optional=b", "range=[1:5]"), F("b", I, "optional")),
		S(F("a", I, "optional=!b", "range=[1:5]"), F("b", I, "optional")),
		S(F("a", Str, "optional=b", "options=x|y"), F("b", Str, "optional")),
		S(F("a", I, "optional=b", "default=2", "range=[1:5]"), F("b", B, "default=true")),
		S(F("a", Ptr(I), "range=[1:5]")),
		S(F("a", Ptr(Str), "options=x|y", "optional")),
		S(F("a", Ptr(F32), "default=1.5", "range=[1:5]")),
		S(F("a", U64), F("b", I8), F("c", F32), F("d", B), F("e", Str)),
		S(F("a", inner())),
		S(F("a", inner(), "optional")),
		S(F("a", Ptr(inner()))),
		S(F("a", Ptr(inner()), "optional=b"), F("b", I, "optional")),
		S(F("a", Slice(I8))),
		S(F("a", Slice(inner()))),
		S(F("a", Slice(Ptr(inner())), "optional")),
		S(F("a", Slice(Ptr(U8)))),
		S(F("a", Slice(Slice(I)))),
		S(F("a", Map(I))),
		S(F("a", Map(Str), "optional")),
		S(F("a", Map(inner()))),
		S(F("a", Map(Ptr(inner())))),
		S(F("a", Map(Slice(I)))),
		S(F("a", Map(Map(F64)))),
		S(F("a", Slice(Map(B)))),
		S(F("a", Ptr(Ptr(I)), "optional")),
		// exotic shapes (D9)
		S(F("a", Ptr(Map(I)))),
		S(F("a", Map(Ptr(I)))),
		S(F("a", Ptr(Slice(I)))),
		S(F("a", Slice(Ptr(Slice(I))))),
		S(F("a", Map(Ptr(Slice(Str))))),
		S(F("a", Map(Ptr(Map(B))))),
		// container defaults (appended last so that the corpus indices stay valid)
		S(F("a", Slice(Str), "default=[west,north,east]"), F("b", I, "optional")),
		S(F("a", Slice(I8), "default=[1,-2]", "optional"), F("b", Slice(Ptr(F64)), "default=[1.5]")),
		S(F("a", Map(Slice(Str))), F("b", Ptr(inner()), "optional")),
		S(F("a", Ptr(Slice(Str)), "default=[x,y]")),
	}
}

// FuzzVerifC08Unmarshal feeds arbitrary bytes as a JSON body to one of the fixed
// types.  Inside: no panic, and — when the body was accepted — the soundness
// oracle (required fields, ranges, options, held values) on the decoded target.
func FuzzVerifC08Unmarshal(f *testing.F) {
	logx.Disable()
	st := verifkit.New("fuzz")
	defer st.Flush()
	campaign := fuzzing() // the driver counts a campaign's executions itself
	kf := verifkit.KnownFindings("C08")
	var types []*gen.Type
	for _, ty := range fixedTypes() {
		skip := false
		for s := range ty.Shapes() {
			if kf[s] {
				skip = true
			}
		}
		if kf["N3"] && ty.HasPtrSliceDefault() {
			skip = true
		}
		if skip {
			st.Excluded()
			continue
		}
		types = append(types, ty)
	}
	for i, seed := range []string{`{"a": 1}`, `{"a": 100, "b": 1}`, `{"a": {"k": null}}`, `{"a": "nan"}`,
		`{"a": [1, 2]}`, `{"a": {"a": 3, "b": "x"}}`, `{"a": [{"a": 6}]}`, `{"a": null}`, `[]`, `{"a": {"k": [1]}}`} {
		f.Add(uint8(i*7), []byte(seed))
	}
	f.Fuzz(func(t *testing.T, typeIdx uint8, data []byte) {
		if !campaign {
			st.Eval()
		}
		spec := types[int(typeIdx)%len(types)]
		body := append([]byte(nil), data...) // the fuzz engine's buffer is never written to
		data = append([]byte(nil), body...)
		o := run(spec, func(p any) error { return mapping.UnmarshalJsonBytes(data, p) })
		if o.panicked != nil {
			t.Fatalf("C08 (no input makes the unmarshaller panic) VIOLATED: panic %v\n  type:  %s\n  input: %q",
				o.panicked, spec, body)
		}
		if o.err != nil {
			st.Class("rejected")
			return
		}
		st.Class("accepted")
		d, err := gen.DecodeJSON(data)
		if err != nil {
			t.Fatalf("C08: accepted a body that is not JSON: %q (%v)", body, err)
		}
		doc, ok := d.(map[string]any)
		if !ok {
			t.Fatalf("C08: accepted a body that is not an object into a struct: %q", body)
		}
		if msgs := gen.Check(spec, map[string]map[string]any{"json": doc}, o.target); len(msgs) > 0 {
			t.Fatalf("C08 (succeeds only if ...) VIOLATED on an accepted input:\n  %s\n  type:  %s\n  input: %q\n  target: %+v",
				strings.Join(msgs, "\n  "), spec, data, o.target.Elem().Interface())
		}
		msg, sc, _ := gen.Independence(spec, map[string]map[string]any{"json": doc}, o.target, []any{data},
			func(p any) error { return mapping.UnmarshalJsonBytes(body, p) })
		if msg != "" {
			t.Fatalf("C08 (the target holds exactly the supplied values with defaults filled for the absent ones) VIOLATED: %s\n  type:  %s\n  input: %q",
				msg, spec, body)
		}
		if !campaign {
			countIndependence(st, "fuzz", sc, 0)
			st.NonTrivial(spec.String() + " <- " + string(body))
		}
	})
}
