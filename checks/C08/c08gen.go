//go:build verif

// Package verifc08 is injected (by -overlay) as
// github.com/zeromicro/go-zero/internal/verifc08.  It holds what the two C08 test
// binaries (core/mapping and rest/httpx) share: the type-spec generator realised
// with reflect.StructOf, the input generator, and the oracle written from the
// property statement.  It does not import core/mapping.
//
// Vocabulary.  A *Type describes a Go type; a struct *Type has *Field entries that
// carry the tag options.  An input is a set of "documents", one per tag key
// (json/form/path/header): Docs[key] is a generic tree of map[string]any, []any,
// json.Number, string, bool and nil, exactly what a JSON decoder with UseNumber
// yields (for the string routes every leaf is a string).  The oracle (Check) walks
// the spec, the documents and the decoded target side by side.
package verifc08

import (
	"encoding/json"
	"fmt"
	"math"
	"math/big"
	"net/textproto"
	"reflect"
	"regexp"
	"sort"
	"strconv"
	"strings"

	"pgregory.net/rapid"
)

// ---------------------------------------------------------------- type specs

// Range is a declared numeric range; an open end has Has*=false.
type Range struct {
	Lo, Hi       float64
	HasLo, HasHi bool
	LoInc, HiInc bool
}

// Tag renders the range as it appears in the tag.
func (r *Range) Tag() string {
	var b strings.Builder
	if r.LoInc {
		b.WriteByte('[')
	} else {
		b.WriteByte('(')
	}
	if r.HasLo {
		b.WriteString(fmtF(r.Lo))
	}
	b.WriteByte(':')
	if r.HasHi {
		b.WriteString(fmtF(r.Hi))
	}
	if r.HiInc {
		b.WriteByte(']')
	} else {
		b.WriteByte(')')
	}
	return b.String()
}

// Contains is the statement's meaning of "lies inside its declared range
// (respecting open/closed ends)".  NaN lies inside no range.
func (r *Range) Contains(v *big.Float, nan bool) bool {
	if nan {
		return false
	}
	if r.HasLo {
		c := v.Cmp(big.NewFloat(r.Lo))
		if c < 0 || (c == 0 && !r.LoInc) {
			return false
		}
	}
	if r.HasHi {
		c := v.Cmp(big.NewFloat(r.Hi))
		if c > 0 || (c == 0 && !r.HiInc) {
			return false
		}
	}
	return true
}

// Field is one struct field with its tag options.
type Field struct {
	GoName     string
	TagKey     string // json | form | path | header
	Name       string // key inside the document
	T          *Type
	Optional   bool   // plain `optional`
	Dep        string // "b" for optional=b, "!b" for optional=!b
	HasDefault bool
	Default    string
	// DefaultElems: the elements of a `default=[a,b]` declared on a slice field
	// (HasDefault is set and Default holds the bracketed text).
	DefaultElems []string
	Range        *Range
	Options      []string
	FromString   bool
	// Bracket: the options are spelled `options=[a,b,c]` instead of `options=a|b|c`
	// (scale unit; the small generators always use the bar notation).
	Bracket bool
	order   []int // permutation of the option segments in the tag
}

// IsOptional reports whether any optional form is declared on the field.
func (f *Field) IsOptional() bool { return f.Optional || f.Dep != "" }

// NumOptions counts the tag options on the field.
func (f *Field) NumOptions() int {
	n := 0
	if f.Optional || f.Dep != "" {
		n++
	}
	if f.HasDefault {
		n++
	}
	if f.Range != nil {
		n++
	}
	if len(f.Options) > 0 {
		n++
	}
	if f.FromString {
		n++
	}
	return n
}

// TagValue renders the tag value (without the key).
func (f *Field) TagValue() string {
	var segs []string
	if f.Optional {
		segs = append(segs, "optional")
	}
	if f.Dep != "" {
		segs = append(segs, "optional="+f.Dep)
	}
	if f.HasDefault {
		segs = append(segs, "default="+f.Default)
	}
	if f.Range != nil {
		segs = append(segs, "range="+f.Range.Tag())
	}
	if len(f.Options) > 0 {
		if f.Bracket {
			segs = append(segs, "options=["+strings.Join(f.Options, ",")+"]")
		} else {
			segs = append(segs, "options="+strings.Join(f.Options, "|"))
		}
	}
	if f.FromString {
		segs = append(segs, "string")
	}
	if len(f.order) == len(segs) {
		p := make([]string, len(segs))
		for i, j := range f.order {
			p[i] = segs[j]
		}
		segs = p
	}
	return strings.Join(append([]string{f.Name}, segs...), ",")
}

// Type describes a Go type.  Kind is a scalar kind, Ptr, Struct, Slice or Map
// (maps always have string keys).
type Type struct {
	Kind   reflect.Kind
	Elem   *Type
	Fields []*Field
	rt     reflect.Type
}

// IsScalar reports whether the kind is one of the primitive kinds.
func (t *Type) IsScalar() bool {
	switch t.Kind {
	case reflect.Ptr, reflect.Struct, reflect.Slice, reflect.Map:
		return false
	}
	return true
}

// Deref strips pointers.
func (t *Type) Deref() *Type {
	for t.Kind == reflect.Ptr {
		t = t.Elem
	}
	return t
}

// RType realises the spec as a reflect.Type (structs through reflect.StructOf).
func (t *Type) RType() reflect.Type {
	if t.rt != nil {
		return t.rt
	}
	switch t.Kind {
	case reflect.Ptr:
		t.rt = reflect.PointerTo(t.Elem.RType())
	case reflect.Slice:
		t.rt = reflect.SliceOf(t.Elem.RType())
	case reflect.Map:
		t.rt = reflect.MapOf(reflect.TypeOf(""), t.Elem.RType())
	case reflect.Struct:
		fs := make([]reflect.StructField, len(t.Fields))
		for i, f := range t.Fields {
			fs[i] = reflect.StructField{
				Name: f.GoName,
				Type: f.T.RType(),
				Tag:  reflect.StructTag(f.TagKey + `:"` + f.TagValue() + `"`),
			}
		}
		t.rt = reflect.StructOf(fs)
	default:
		t.rt = scalarRT[t.Kind]
	}
	return t.rt
}

// String renders the type in Go syntax including tags.
func (t *Type) String() string { return t.RType().String() }

// Twin returns a deep copy of t in which every struct field, at every depth, carries
// the tag key `key`; the tag texts (names and options) are unchanged.
func Twin(t *Type, key string) *Type {
	if t == nil {
		return nil
	}
	c := &Type{Kind: t.Kind, Elem: Twin(t.Elem, key)}
	for _, f := range t.Fields {
		g := *f
		g.TagKey = key
		g.T = Twin(f.T, key)
		c.Fields = append(c.Fields, &g)
	}
	return c
}

// Interference is a call that has nothing to do with the judged one except that it goes through
// the same process-wide machinery: the json-keyed twin of a spec (same tag texts), a valid
// document for it, and a canonical key function for the unmarshaler that decodes it.  The judged
// call's verdict must not depend on whether, or in which order, such calls happened.
type Interference struct {
	Twin      *Type
	Doc       map[string]any
	CanonName string
	Canon     func(string) string // nil: no canonical key function
}

// GenInterference draws an Interference for spec.
func GenInterference(t *rapid.T, spec *Type) Interference {
	tw := Twin(spec, "json")
	in := GenInput(t, tw, "valid")
	i := Interference{Twin: tw, Doc: in.Docs["json"]}
	switch rapid.IntRange(0, 3).Draw(t, "interfereCanon") {
	case 0:
		i.CanonName, i.Canon = "upper", strings.ToUpper
	case 1:
		i.CanonName, i.Canon = "lower", strings.ToLower
	case 2:
		i.CanonName, i.Canon = "mime", textproto.CanonicalMIMEHeaderKey
	default:
		i.CanonName = "none"
	}
	return i
}

var scalarRT = map[reflect.Kind]reflect.Type{
	reflect.Bool: reflect.TypeOf(false), reflect.String: reflect.TypeOf(""),
	reflect.Int: reflect.TypeOf(int(0)), reflect.Int8: reflect.TypeOf(int8(0)),
	reflect.Int16: reflect.TypeOf(int16(0)), reflect.Int32: reflect.TypeOf(int32(0)),
	reflect.Int64: reflect.TypeOf(int64(0)), reflect.Uint: reflect.TypeOf(uint(0)),
	reflect.Uint8: reflect.TypeOf(uint8(0)), reflect.Uint16: reflect.TypeOf(uint16(0)),
	reflect.Uint32: reflect.TypeOf(uint32(0)), reflect.Uint64: reflect.TypeOf(uint64(0)),
	reflect.Float32: reflect.TypeOf(float32(0)), reflect.Float64: reflect.TypeOf(float64(0)),
}

// ScalarKinds lists the primitive kinds of the quantifier.
var ScalarKinds = []reflect.Kind{
	reflect.Bool, reflect.Int, reflect.Int8, reflect.Int16, reflect.Int32, reflect.Int64,
	reflect.Uint, reflect.Uint8, reflect.Uint16, reflect.Uint32, reflect.Uint64,
	reflect.Float32, reflect.Float64, reflect.String,
}

func isInt(k reflect.Kind) bool   { return k >= reflect.Int && k <= reflect.Int64 }
func isUint(k reflect.Kind) bool  { return k >= reflect.Uint && k <= reflect.Uint64 }
func isFloat(k reflect.Kind) bool { return k == reflect.Float32 || k == reflect.Float64 }
func isNum(k reflect.Kind) bool   { return isInt(k) || isUint(k) || isFloat(k) }

// intBounds returns the inclusive bounds of an integer kind.
func intBounds(k reflect.Kind) (lo, hi *big.Int) {
	bits := map[reflect.Kind]uint{reflect.Int: strconv.IntSize, reflect.Int8: 8, reflect.Int16: 16,
		reflect.Int32: 32, reflect.Int64: 64, reflect.Uint: strconv.IntSize, reflect.Uint8: 8,
		reflect.Uint16: 16, reflect.Uint32: 32, reflect.Uint64: 64}[k]
	one := big.NewInt(1)
	if isUint(k) {
		hi = new(big.Int).Sub(new(big.Int).Lsh(one, bits), one)
		return big.NewInt(0), hi
	}
	hi = new(big.Int).Sub(new(big.Int).Lsh(one, bits-1), one)
	lo = new(big.Int).Neg(new(big.Int).Lsh(one, bits-1))
	return lo, hi
}

func fmtF(f float64) string { return strconv.FormatFloat(f, 'g', -1, 64) }

// ---------------------------------------------------------------- exotic shapes (D9)

// Shapes returns the D9 shape classes occurring in t (recursively):
//
//	D9a  a pointer whose (transitive) element is a map
//	D9b  a map whose element is a pointer to a primitive
//	D9c  a pointer whose (transitive) element is a slice
func (t *Type) Shapes() map[string]bool {
	out := map[string]bool{}
	t.shapes(out)
	return out
}

// HasPtrSliceDefault reports whether some field of the (struct) spec declares a
// default on a pointer-to-slice field (finding N3), recursively.
func (t *Type) HasPtrSliceDefault() bool {
	switch t.Kind {
	case reflect.Struct:
		for _, f := range t.Fields {
			if f.DefaultElems != nil && f.T.Kind == reflect.Ptr {
				return true
			}
			if f.T.HasPtrSliceDefault() {
				return true
			}
		}
	case reflect.Ptr, reflect.Slice, reflect.Map:
		return t.Elem.HasPtrSliceDefault()
	}
	return false
}

func (t *Type) shapes(out map[string]bool) {
	switch t.Kind {
	case reflect.Ptr:
		switch t.Deref().Kind {
		case reflect.Map:
			out["D9a"] = true
		case reflect.Slice:
			out["D9c"] = true
		}
		t.Elem.shapes(out)
	case reflect.Map:
		if t.Elem.Kind == reflect.Ptr && t.Elem.Deref().IsScalar() {
			out["D9b"] = true
		}
		t.Elem.shapes(out)
	case reflect.Slice:
		t.Elem.shapes(out)
	case reflect.Struct:
		for _, f := range t.Fields {
			f.T.shapes(out)
		}
	}
}

// ---------------------------------------------------------------- spec generator

// GenConfig selects the family of types to generate.
type GenConfig struct {
	// Mode: "json" (all shapes, one key), "form", "path", "header" (scalars, pointers
	// to scalars, form also slices of scalars), "httpx" (every top-level field draws
	// its own source key; json fields take all shapes).
	Mode string
	// Exclude lists D9 shape classes that must not be generated (known findings);
	// OnExcluded is called once per draw that had to be replaced.
	Exclude    map[string]bool
	OnExcluded func()
}

func sc(k reflect.Kind) *Type   { return &Type{Kind: k} }
func ptr(t *Type) *Type         { return &Type{Kind: reflect.Ptr, Elem: t} }
func slice(t *Type) *Type       { return &Type{Kind: reflect.Slice, Elem: t} }
func mapOf(t *Type) *Type       { return &Type{Kind: reflect.Map, Elem: t} }
func drawKind(t *rapid.T) *Type { return sc(rapid.SampledFrom(ScalarKinds).Draw(t, "kind")) }

// GenStruct draws a struct spec (1-6 fields at the top, 1-3 below, depth <= 2).
func GenStruct(t *rapid.T, cfg GenConfig) *Type {
	return genStruct(t, cfg, 0)
}

func genStruct(t *rapid.T, cfg GenConfig, depth int) *Type {
	maxFields := 6
	if depth > 0 {
		maxFields = 3
	}
	n := rapid.IntRange(1, maxFields).Draw(t, "nfields")
	st := &Type{Kind: reflect.Struct}
	for i := 0; i < n; i++ {
		key := cfg.Mode
		if cfg.Mode == "httpx" {
			key = "json"
			if depth == 0 {
				key = rapid.SampledFrom([]string{"json", "json", "form", "form", "path", "header"}).Draw(t, "src")
			}
		}
		f := &Field{GoName: "F" + strconv.Itoa(i), TagKey: key, Name: string(rune('a' + i))}
		switch key {
		case "header": // header names are case-insensitive: the tag may spell them in any case
			f.Name = rapid.SampledFrom([]string{"x-", "x-", "X-", "x-"}).Draw(t, "hprefix") + f.Name
			if rapid.IntRange(0, 3).Draw(t, "hupper") == 0 {
				f.Name = f.Name[:2] + strings.ToUpper(f.Name[2:])
			}
		case "json": // exact match in JSON bodies, case-insensitive in configuration
			f.Name += "q" // two letters, so that a mixed-case spelling exists
			switch rapid.IntRange(0, 5).Draw(t, "upper") {
			case 0:
				f.Name = strings.ToUpper(f.Name)
			case 1:
				f.Name = strings.ToUpper(f.Name[:1]) + f.Name[1:]
			}
		}
		f.T = genFieldType(t, cfg, key, depth)
		genOptions(t, f, cfg)
		st.Fields = append(st.Fields, f)
	}
	// dependency options: the target is another field of the same struct read from the
	// same source that carries no dependency option itself
	for _, f := range st.Fields {
		if f.Dep == "" {
			continue
		}
		var cands []*Field
		for _, g := range st.Fields {
			if g != f && g.TagKey == f.TagKey && g.Dep == "" {
				cands = append(cands, g)
			}
		}
		if len(cands) == 0 {
			f.Dep, f.Optional = "", true
			continue
		}
		tgt := rapid.SampledFrom(cands).Draw(t, "dep").Name
		if f.Dep == "!" {
			f.Dep = "!" + tgt
		} else {
			f.Dep = tgt
		}
	}
	for _, f := range st.Fields {
		n := f.NumOptions()
		if n > 1 {
			f.order = rapid.Permutation(seq(n)).Draw(t, "order")
		}
	}
	return st
}

func seq(n int) []int {
	s := make([]int, n)
	for i := range s {
		s[i] = i
	}
	return s
}

func genFieldType(t *rapid.T, cfg GenConfig, key string, depth int) *Type {
	switch key {
	case "path":
		if rapid.IntRange(0, 4).Draw(t, "pshape") == 0 {
			return ptr(drawKind(t))
		}
		return drawKind(t)
	case "header":
		if rapid.IntRange(0, 4).Draw(t, "hshape") == 0 {
			return ptr(drawKind(t))
		}
		return drawKind(t)
	case "form":
		switch rapid.IntRange(0, 6).Draw(t, "fshape") {
		case 0:
			return ptr(drawKind(t))
		case 1:
			return slice(drawKind(t))
		}
		return drawKind(t)
	}
	for {
		ty := genJSONShape(t, cfg, depth)
		excluded := false
		for s := range ty.Shapes() {
			if cfg.Exclude[s] {
				excluded = true
			}
		}
		if !excluded {
			return ty
		}
		if cfg.OnExcluded != nil {
			cfg.OnExcluded()
		}
	}
}

func genJSONShape(t *rapid.T, cfg GenConfig, depth int) *Type {
	leaf := func() *Type { // scalar or (below the depth bound) struct
		if depth < 2 && rapid.IntRange(0, 2).Draw(t, "structleaf") == 0 {
			return genStruct(t, cfg, depth+1)
		}
		return drawKind(t)
	}
	switch rapid.IntRange(0, 31).Draw(t, "shape") {
	case 0, 1, 2, 3, 4, 5, 6, 7:
		return drawKind(t)
	case 8, 9:
		return ptr(drawKind(t))
	case 10, 11:
		if depth < 2 {
			return genStruct(t, cfg, depth+1)
		}
		return drawKind(t)
	case 12:
		if depth < 2 {
			return ptr(genStruct(t, cfg, depth+1))
		}
		return ptr(drawKind(t))
	case 13, 14:
		return slice(leaf())
	case 15:
		return slice(ptr(leaf()))
	case 16, 17:
		return mapOf(leaf())
	case 18:
		return mapOf(slice(drawKind(t)))
	case 19:
		return mapOf(mapOf(drawKind(t)))
	case 20:
		if depth < 2 {
			return mapOf(ptr(genStruct(t, cfg, depth+1)))
		}
		return mapOf(drawKind(t))
	case 21:
		return slice(slice(drawKind(t)))
	case 22:
		return ptr(ptr(drawKind(t)))
	// ---- exotic shapes (D9)
	case 23: // D9a
		return rapid.SampledFrom([]*Type{ptr(mapOf(drawKind(t))), ptr(ptr(mapOf(drawKind(t)))),
			mapOf(ptr(mapOf(drawKind(t)))), slice(ptr(mapOf(drawKind(t))))}).Draw(t, "d9a")
	case 24: // D9b
		return rapid.SampledFrom([]*Type{mapOf(ptr(drawKind(t))), mapOf(mapOf(ptr(drawKind(t))))}).Draw(t, "d9b")
	case 25, 26: // D9c
		return rapid.SampledFrom([]*Type{ptr(slice(leaf())), ptr(ptr(slice(drawKind(t)))),
			slice(ptr(slice(drawKind(t)))), mapOf(ptr(slice(drawKind(t))))}).Draw(t, "d9c")
	case 27:
		return slice(mapOf(drawKind(t)))
	default: // 28..31: a struct behind 2-3 nested container levels, slices and maps mixed
		if depth > 0 {
			return slice(leaf())
		}
		levels := rapid.IntRange(2, 3).Draw(t, "levels")
		ty := genStruct(t, cfg, 2)
		if rapid.IntRange(0, 3).Draw(t, "ptrleaf") == 0 {
			ty = ptr(ty)
		}
		for i := 0; i < levels; i++ {
			if rapid.IntRange(0, 2).Draw(t, "level") == 0 {
				ty = mapOf(ty)
			} else {
				ty = slice(ty)
			}
		}
		return ty
	}
}

// StructNesting returns the largest number of consecutive container levels (slices,
// maps) through which some struct of the spec is reached (0: only direct/nested
// struct fields; -1: no struct below the top).
func (t *Type) StructNesting() int {
	best := -1
	var walk func(ty *Type, levels int)
	walk = func(ty *Type, levels int) {
		switch ty.Kind {
		case reflect.Ptr:
			walk(ty.Elem, levels)
		case reflect.Slice, reflect.Map:
			walk(ty.Elem, levels+1)
		case reflect.Struct:
			if levels > best {
				best = levels
			}
			for _, f := range ty.Fields {
				walk(f.T, 0)
			}
		}
	}
	for _, f := range t.Fields {
		walk(f.T, 0)
	}
	return best
}

// ReachedNesting is StructNesting evaluated on a document: the largest number of
// consecutive container levels through which an object for a struct is actually
// supplied.
func ReachedNesting(spec *Type, doc map[string]any) int {
	best := -1
	var walk func(ty *Type, v any, levels int)
	walk = func(ty *Type, v any, levels int) {
		d := ty.Deref()
		switch vv := v.(type) {
		case map[string]any:
			switch d.Kind {
			case reflect.Struct:
				if levels > best {
					best = levels
				}
				for _, f := range d.Fields {
					if fv, ok := vv[f.Name]; ok {
						walk(f.T, fv, 0)
					}
				}
			case reflect.Map:
				for _, e := range vv {
					walk(d.Elem, e, levels+1)
				}
			}
		case []any:
			if d.Kind == reflect.Slice {
				for _, e := range vv {
					walk(d.Elem, e, levels+1)
				}
			}
		}
	}
	for _, f := range spec.Fields {
		if fv, ok := doc[f.Name]; ok {
			walk(f.T, fv, 0)
		}
	}
	return best
}

var (
	strOptionPool = []string{"a", "b", "foo", "Bar", "x1", "zz"}
	strDefaults   = []string{"abc", "dflt", "x1", "Q"}
)

// genOptions draws the tag options of a field.  Scalars and pointers to scalars
// take every option; structs and containers only the optional forms.
func genOptions(t *rapid.T, f *Field, cfg GenConfig) {
	switch rapid.IntRange(0, 9).Draw(t, "optmode") {
	case 0, 1:
		f.Optional = true
	case 2, 3:
		f.Dep = "?" // resolved by genStruct
	case 4:
		f.Dep = "!"
	}
	d := f.T.Deref()
	if !d.IsScalar() || (f.T.Kind == reflect.Ptr && f.T.Elem.Kind == reflect.Ptr) {
		if f.Dep == "?" {
			f.Dep = "x" // placeholder: non-negated dependency
		}
		genSliceDefault(t, f, cfg)
		return
	}
	if f.Dep == "?" {
		f.Dep = "x"
	}
	k := d.Kind
	if isNum(k) && rapid.IntRange(0, 99).Draw(t, "hasrange") < 45 {
		f.Range = genRange(t, k)
	}
	if (k == reflect.String || isInt(k) || isUint(k)) && rapid.IntRange(0, 99).Draw(t, "hasoptions") < 30 {
		if k == reflect.String {
			n := rapid.IntRange(1, 3).Draw(t, "nopt")
			perm := rapid.Permutation(strOptionPool).Draw(t, "optperm")
			f.Options = append([]string(nil), perm[:n]...)
		} else {
			// integers: options that are holdable and inside the range (if any)
			var pool []string
			for _, c := range intCandidates(k, f.Range) {
				if f.Range == nil || f.Range.Contains(new(big.Float).SetInt(c), false) {
					pool = append(pool, c.String())
				}
			}
			if len(pool) > 0 {
				n := rapid.IntRange(1, min(3, len(pool))).Draw(t, "nopt")
				perm := rapid.Permutation(pool).Draw(t, "optperm")
				f.Options = append([]string(nil), perm[:n]...)
			}
		}
	}
	if rapid.IntRange(0, 99).Draw(t, "hasdefault") < 25 {
		vals := validLiterals(f, k, false)
		if k == reflect.String && len(f.Options) == 0 {
			vals = strDefaults
		}
		if len(vals) > 0 {
			f.Default = rapid.SampledFrom(vals).Draw(t, "default")
			f.HasDefault = f.Default != ""
		}
	}
	if f.TagKey == "json" && rapid.IntRange(0, 99).Draw(t, "fromstring") < 15 {
		f.FromString = true
	}
}

// genSliceDefault declares `default=[...]` on a slice of scalars ([]T, []*T and the
// pointer-to-slice shape *[]T): the only container default the code supports (a map
// default is an "unsupported type" error, structs have none).
func genSliceDefault(t *rapid.T, f *Field, cfg GenConfig) {
	ty := f.T
	ptrToSlice := ty.Kind == reflect.Ptr && ty.Elem.Kind == reflect.Slice
	if ptrToSlice {
		ty = ty.Elem
	}
	if ty.Kind != reflect.Slice || !ty.Elem.Deref().IsScalar() ||
		(ty.Elem.Kind == reflect.Ptr && ty.Elem.Elem.Kind == reflect.Ptr) {
		return
	}
	if rapid.IntRange(0, 99).Draw(t, "slicedefault") >= 40 {
		return
	}
	if ptrToSlice && cfg.Exclude["N3"] {
		if cfg.OnExcluded != nil {
			cfg.OnExcluded()
		}
		return
	}
	k := ty.Elem.Deref().Kind
	var pool []string
	if k == reflect.String {
		pool = []string{"west", "north", "east", "a", "B", "x1", "7", "1.5", "true"}
		if cfg.Exclude["N4"] { // known finding: string defaults spelled like a bool literal
			pool = pool[:len(pool)-1]
			if cfg.OnExcluded != nil {
				cfg.OnExcluded()
			}
		}
	} else {
		pool = validLiterals(&Field{}, k, false)
	}
	n := rapid.IntRange(0, 3).Draw(t, "ndefault")
	f.DefaultElems = []string{}
	for i := 0; i < n; i++ {
		f.DefaultElems = append(f.DefaultElems, rapid.SampledFrom(pool).Draw(t, "delem"))
	}
	f.HasDefault = true
	f.Default = "[" + strings.Join(f.DefaultElems, ",") + "]"
}

// genRange draws a range which contains at least one value of the kind.  Three quarters of the
// ranges have small dyadic ends (exact in float32 and float64).  One quarter has "hard" ends: for
// float kinds decimal fractions that no binary float holds exactly (n/10, n/100, n/1000, n/3, n/7;
// the end *is* the float64 the tag text denotes, and every generated literal is the exact 64-bit
// spelling of a value of the kind, so "inside the range" stays unambiguous), for integer kinds of 32
// or more bits integers between 2^24 and 2^52 with low bits set (exact in float64, not in float32).
func genRange(t *rapid.T, k reflect.Kind) *Range {
	r := &Range{HasLo: true, HasHi: true}
	hard := rapid.IntRange(0, 3).Draw(t, "hardends") == 0
	bits := 0
	if !isFloat(k) {
		lo, hi := intBounds(k)
		bits = hi.BitLen()
		_ = lo
	}
	switch {
	case hard && isFloat(k):
		scale := []float64{10, 100, 1000, 3, 7}[rapid.IntRange(0, 4).Draw(t, "scale")]
		lo := rapid.IntRange(-2000, 2000).Draw(t, "lon")
		w := rapid.IntRange(1, 300).Draw(t, "wn")
		r.Lo, r.Hi = float64(lo)/scale, float64(lo+w)/scale
	case hard && bits >= 31:
		p := rapid.IntRange(24, min(52, bits-1)).Draw(t, "p")
		lo := int64(1)<<uint(p) + int64(2*rapid.IntRange(0, 500).Draw(t, "lowbits")+1)
		if !isUint(k) && rapid.Bool().Draw(t, "neg") {
			lo = -lo
		}
		w := int64(rapid.IntRange(2, 40).Draw(t, "w"))
		if rapid.Bool().Draw(t, "widebig") {
			w = int64(1)<<uint(rapid.IntRange(10, p).Draw(t, "wp")) + int64(2*rapid.IntRange(0, 50).Draw(t, "wlow")+1)
		}
		_, kmax := intBounds(k)
		if new(big.Int).Add(big.NewInt(lo), big.NewInt(w)).Cmp(kmax) > 0 || lo+w > 1<<52 {
			lo, w = lo-w, w // keep the upper end holdable (lo stays far above the kind's minimum)
		}
		r.Lo, r.Hi = float64(lo), float64(lo+w)
	case isFloat(k):
		lo := rapid.IntRange(-200, 200).Draw(t, "lo4")
		w := rapid.IntRange(1, 80).Draw(t, "w4")
		r.Lo, r.Hi = float64(lo)/4, float64(lo+w)/4
	default:
		loMin := -50
		if isUint(k) {
			loMin = 0
		}
		lo := rapid.IntRange(loMin, 50).Draw(t, "lo")
		w := rapid.IntRange(2, 40).Draw(t, "w")
		r.Lo, r.Hi = float64(lo), float64(lo+w)
		if rapid.IntRange(0, 5).Draw(t, "halfend") == 0 {
			r.Lo -= 0.5
		}
	}
	r.LoInc = rapid.Bool().Draw(t, "loinc")
	r.HiInc = rapid.Bool().Draw(t, "hiinc")
	switch rapid.IntRange(0, 5).Draw(t, "open") {
	case 0:
		r.HasLo = false
	case 1:
		r.HasHi = false
	}
	return r
}

// ---------------------------------------------------------------- literals per kind

// intCandidates returns integer values of interest for kind k: the kind's bounds,
// small numbers, and the neighbourhood of the range ends — all holdable by k.
func intCandidates(k reflect.Kind, r *Range) []*big.Int {
	lo, hi := intBounds(k)
	var raw []*big.Int
	for _, v := range []int64{0, 1, 2, 7, -1, -3, 100, 127, -128} {
		raw = append(raw, big.NewInt(v))
	}
	raw = append(raw, lo, hi)
	if r != nil {
		ends := []float64{}
		if r.HasLo {
			ends = append(ends, r.Lo)
		}
		if r.HasHi {
			ends = append(ends, r.Hi)
		}
		for _, e := range ends {
			fl := int64(math.Floor(e))
			for d := int64(-1); d <= 2; d++ {
				raw = append(raw, big.NewInt(fl+d))
			}
			raw = append(raw, big.NewInt(fl+1000), big.NewInt(fl-1000))
		}
		if r.HasLo && r.HasHi {
			raw = append(raw, big.NewInt(int64(math.Floor((r.Lo+r.Hi)/2))))
		}
	}
	seen := map[string]bool{}
	var out []*big.Int
	for _, v := range raw {
		if v.Cmp(lo) < 0 || v.Cmp(hi) > 0 || seen[v.String()] {
			continue
		}
		seen[v.String()] = true
		out = append(out, v)
	}
	return out
}

// floatCandidates returns float values of interest, exactly representable in the
// kind's width: small numbers, extremes, range ends and their neighbours by one ulp.
func floatCandidates(k reflect.Kind, r *Range) []float64 {
	next := func(x float64, up bool) float64 {
		if k == reflect.Float32 {
			if up {
				return float64(math.Nextafter32(float32(x), float32(math.Inf(1))))
			}
			return float64(math.Nextafter32(float32(x), float32(math.Inf(-1))))
		}
		if up {
			return math.Nextafter(x, math.Inf(1))
		}
		return math.Nextafter(x, math.Inf(-1))
	}
	raw := []float64{0, 1, 1.5, -2.25, 1e10, 0.001, -7, 123456.789}
	if k == reflect.Float32 {
		raw = append(raw, math.MaxFloat32, -math.MaxFloat32, math.SmallestNonzeroFloat32)
	} else {
		raw = append(raw, math.MaxFloat64, math.SmallestNonzeroFloat64, math.MaxFloat32*2)
	}
	if r != nil {
		if r.HasLo {
			raw = append(raw, r.Lo, next(r.Lo, true), next(r.Lo, false), r.Lo-1000)
		}
		if r.HasHi {
			raw = append(raw, r.Hi, next(r.Hi, true), next(r.Hi, false), r.Hi+1000)
		}
		if r.HasLo && r.HasHi {
			raw = append(raw, (r.Lo+r.Hi)/2)
		}
	}
	seen := map[float64]bool{}
	var out []float64
	for _, v := range raw {
		if k == reflect.Float32 {
			v = float64(float32(v))
		}
		if seen[v] {
			continue
		}
		// Domain cut: the code spells an open end as +-MaxFloat64, so `range=(0:)`
		// excludes exactly that one value; it is not generated for ranged fields.
		if r != nil && math.Abs(v) == math.MaxFloat64 {
			continue
		}
		seen[v] = true
		out = append(out, v)
	}
	return out
}

var strValues = []string{"abc", "héllo wörld", "0", "true", "null", `a"b\c`, "日本", "NaN", "x y", "1.5"}

// validLiterals lists literals that satisfy every value constraint of f (range,
// options) and are holdable by kind k.  inForm forbids the empty string (an empty
// form value counts as absent).
func validLiterals(f *Field, k reflect.Kind, allowEmpty bool) []string {
	if len(f.Options) > 0 {
		return f.Options
	}
	switch {
	case k == reflect.Bool:
		return []string{"true", "false"}
	case k == reflect.String:
		out := append([]string(nil), strValues...)
		if allowEmpty {
			out = append(out, "")
		}
		return out
	case isFloat(k):
		var out []string
		for _, v := range floatCandidates(k, f.Range) {
			if f.Range == nil || f.Range.Contains(big.NewFloat(v), false) {
				out = append(out, fmtF(v))
			}
		}
		return out
	default:
		var out []string
		for _, v := range intCandidates(k, f.Range) {
			if f.Range == nil || f.Range.Contains(new(big.Float).SetInt(v), false) {
				out = append(out, v.String())
			}
		}
		return out
	}
}

// Violation is one way of breaking exactly one constraint at a present scalar field.
type Violation struct {
	Kind    string // range | options | overflow | nan
	Literal string
}

// violatingLiterals lists single-constraint violations available for f.
func violatingLiterals(f *Field, k reflect.Kind, stringRoute bool) []Violation {
	var out []Violation
	if f.Range != nil && len(f.Options) == 0 {
		if isFloat(k) {
			for _, v := range floatCandidates(k, f.Range) {
				if !f.Range.Contains(big.NewFloat(v), false) {
					out = append(out, Violation{"range", fmtF(v)})
				}
			}
			if stringRoute || f.FromString {
				out = append(out, Violation{"nan", "NaN"}, Violation{"nan", "nan"})
			}
		} else {
			for _, v := range intCandidates(k, f.Range) {
				if !f.Range.Contains(new(big.Float).SetInt(v), false) {
					out = append(out, Violation{"range", v.String()})
				}
			}
		}
	}
	if len(f.Options) > 0 {
		if k == reflect.String {
			for _, c := range []string{f.Options[0] + "x", strings.ToUpper(f.Options[0]) + "_", "other"} {
				if !contains(f.Options, c) {
					out = append(out, Violation{"options", c})
				}
			}
		} else {
			for _, v := range intCandidates(k, f.Range) {
				if contains(f.Options, v.String()) {
					continue
				}
				// inside the range (if any), so that only the options constraint is broken
				if f.Range == nil || f.Range.Contains(new(big.Float).SetInt(v), false) {
					out = append(out, Violation{"options", v.String()})
				}
			}
		}
	}
	if len(f.Options) == 0 && f.Range == nil {
		out = append(out, overflowLiterals(k)...)
	}
	return out
}

func overflowLiterals(k reflect.Kind) []Violation {
	var out []Violation
	switch {
	case isInt(k) || isUint(k):
		lo, hi := intBounds(k)
		out = append(out, Violation{"overflow", new(big.Int).Add(hi, big.NewInt(1)).String()},
			Violation{"overflow", new(big.Int).Sub(lo, big.NewInt(1)).String()})
	case k == reflect.Float32:
		out = append(out, Violation{"overflow", "1e39"}, Violation{"overflow", "-3.5e38"})
	case k == reflect.Float64:
		out = append(out, Violation{"overflow", "1e400"}, Violation{"overflow", "-1.8e308"})
	}
	return out
}

func contains(list []string, s string) bool {
	for _, x := range list {
		if x == s {
			return true
		}
	}
	return false
}

// ---------------------------------------------------------------- inputs

// Input is one generated input for a struct spec.
type Input struct {
	Docs map[string]map[string]any // per tag key
	Mode string                    // valid | violation | chaos
	// What names the single violated constraint (Mode == "violation").
	What string
	// ViolatedOptions is the number of tag options on the violated field.
	ViolatedOptions int
	// MustReject: the statement requires rejection (a single constraint is broken).
	MustReject bool
	// MustAccept: every constraint is met with correctly typed values.
	MustAccept bool
}

// site is one scalar field instance inside the generated documents.
type site struct {
	obj   map[string]any
	f     *Field
	path  string
	route string // tag key of the document the object belongs to
}

// elemSite is one scalar element inside a slice or map value.
type elemSite struct {
	set   func(any)
	kind  reflect.Kind
	path  string
	route string
}

type inputGen struct {
	t       *rapid.T
	sites   []site
	elems   []elemSite
	nodes   []func(any) // setters for every value node (chaos)
	strDocs bool
}

// leafValue wraps a literal as the document leaf for the field's route.
func leafValue(f *Field, k reflect.Kind, lit string, route string) any {
	if route != "json" || f.FromString {
		return lit
	}
	return jsonLeaf(k, lit)
}

func jsonLeaf(k reflect.Kind, lit string) any {
	switch {
	case k == reflect.Bool:
		return lit == "true"
	case k == reflect.String:
		return lit
	default:
		return json.Number(lit)
	}
}

// GenInput draws an input for spec: mode "valid" (every constraint met),
// "violation" (a valid input with exactly one constraint broken) or "chaos"
// (a valid input with random damage: wrong kinds, nulls, dropped keys, garbage).
func GenInput(t *rapid.T, spec *Type, mode string) *Input {
	g := &inputGen{t: t}
	in := &Input{Docs: map[string]map[string]any{}, Mode: mode}
	keys := map[string]bool{}
	for _, f := range spec.Fields {
		keys[f.TagKey] = true
	}
	for _, k := range sortedKeys(keys) {
		in.Docs[k] = map[string]any{}
	}
	g.fillObject(spec, in.Docs, nil, "")
	switch mode {
	case "valid":
		in.MustAccept = true
	case "violation":
		if !g.violate(in) {
			in.Mode, in.MustAccept = "valid", true
		}
	case "chaos":
		g.chaos(in)
	}
	return in
}

func sortedKeys[V any](m map[string]V) []string {
	ks := make([]string, 0, len(m))
	for k := range m {
		ks = append(ks, k)
	}
	sort.Strings(ks)
	return ks
}

// needsValue reports whether an instance of the struct spec must be supplied for the
// input to meet every declared constraint: some scalar is neither optional nor
// defaulted, an either-or dependency needs one of its two fields, or a nested
// struct/container without an optional form is declared (containers are always
// supplied by the generator unless optional).
func needsValue(st *Type) bool {
	for _, f := range st.Fields {
		d := f.T.Deref()
		switch {
		case strings.HasPrefix(f.Dep, "!"):
			return true
		case f.IsOptional() || f.HasDefault:
		case d.IsScalar():
			return true
		case f.T.Kind == reflect.Struct:
			if needsValue(d) {
				return true
			}
		default:
			// containers, and (domain cut) pointers to structs: inside a struct that is
			// left out the code counts an option-less pointer-to-struct field as required
			return true
		}
	}
	return false
}

// fillObject writes a valid instance of the struct spec.  At the top level the
// fields go to docs[f.TagKey]; below, everything goes to obj (a JSON object).
func (g *inputGen) fillObject(spec *Type, docs map[string]map[string]any, obj map[string]any, path string) {
	target := func(f *Field) (map[string]any, string) {
		if docs != nil {
			return docs[f.TagKey], f.TagKey
		}
		return obj, "json"
	}
	present := map[string]bool{}
	// pass 1: fields without dependency option
	for _, f := range spec.Fields {
		if f.Dep != "" {
			continue
		}
		mayBeAbsent := f.Optional || f.HasDefault
		if d := f.T.Deref(); d.Kind == reflect.Struct && !needsValue(d) {
			// a struct none of whose fields has to be supplied may be left out altogether:
			// no constraint is unmet, the defaults are filled in
			mayBeAbsent = true
		}
		p := true
		if mayBeAbsent {
			p = rapid.IntRange(0, 2).Draw(g.t, "present") != 0
		}
		present[f.Name] = p
	}
	// pass 2: dependent fields follow their target
	for _, f := range spec.Fields {
		if f.Dep == "" {
			continue
		}
		if strings.HasPrefix(f.Dep, "!") {
			present[f.Name] = !present[f.Dep[1:]]
		} else {
			present[f.Name] = present[f.Dep]
		}
	}
	for _, f := range spec.Fields {
		o, route := target(f)
		fp := path + "." + f.Name
		if f.T.Deref().IsScalar() {
			g.sites = append(g.sites, site{obj: o, f: f, path: fp, route: route})
		}
		if !present[f.Name] {
			continue
		}
		name := f.Name
		o[name] = g.value(f, f.T, route, fp)
		g.nodes = append(g.nodes, func(v any) { o[name] = v })
	}
}

func (g *inputGen) pick(n int) int { return rapid.IntRange(0, n-1).Draw(g.t, "pick") }

// value builds a valid value for type ty (field f supplies the constraints when ty
// is the field's own scalar type).
func (g *inputGen) value(f *Field, ty *Type, route, path string) any {
	d := ty.Deref()
	switch d.Kind {
	case reflect.Struct:
		obj := map[string]any{}
		g.fillObject(d, nil, obj, path)
		return obj
	case reflect.Slice:
		n := rapid.IntRange(0, 3).Draw(g.t, "len")
		if route == "form" {
			n = rapid.IntRange(1, 3).Draw(g.t, "len") // no values = absent in a form
		}
		arr := make([]any, n)
		for i := range arr {
			i := i
			arr[i] = g.elem(d.Elem, route, fmt.Sprintf("%s[%d]", path, i), func(v any) { arr[i] = v })
		}
		return arr
	case reflect.Map:
		n := rapid.IntRange(0, 2).Draw(g.t, "mlen")
		m := map[string]any{}
		for i := 0; i < n; i++ {
			k := "k" + strconv.Itoa(i)
			m[k] = g.elem(d.Elem, route, path+"["+k+"]", func(v any) { m[k] = v })
		}
		return m
	default:
		lits := validLiterals(f, d.Kind, route != "form")
		lit := lits[g.pick(len(lits))]
		return leafValue(f, d.Kind, lit, route)
	}
}

// elem builds a valid element of a slice or map.
func (g *inputGen) elem(ty *Type, route, path string, set func(any)) any {
	g.nodes = append(g.nodes, set)
	d := ty.Deref()
	if d.IsScalar() {
		g.elems = append(g.elems, elemSite{set: set, kind: d.Kind, path: path, route: route})
		free := &Field{TagKey: route}
		lits := validLiterals(free, d.Kind, route != "form")
		lit := lits[g.pick(len(lits))]
		return leafValue(free, d.Kind, lit, route)
	}
	return g.value(nil, ty, route, path)
}

// violate breaks exactly one constraint of the (valid) input; false if the input
// offers no site for that.
func (g *inputGen) violate(in *Input) bool {
	type cand struct {
		apply func()
		what  string
		nopt  int
	}
	var cands []cand
	for _, s := range g.sites {
		s := s
		k := s.f.T.Deref().Kind
		_, present := s.obj[s.f.Name]
		required := (!s.f.IsOptional() || DepMakesRequired(s.f, s.obj)) && !s.f.HasDefault
		if required && present {
			cands = append(cands,
				cand{func() { delete(s.obj, s.f.Name) }, "missing " + s.path, s.f.NumOptions()},
				cand{func() { delete(s.obj, s.f.Name) }, "missing " + s.path, s.f.NumOptions()})
			if s.route == "json" {
				cands = append(cands, cand{func() { s.obj[s.f.Name] = nil }, "null " + s.path, s.f.NumOptions()})
			}
		}
		if !present {
			continue
		}
		for _, v := range violatingLiterals(s.f, k, s.route != "json") {
			v := v
			cands = append(cands, cand{func() { s.obj[s.f.Name] = leafValue(s.f, k, v.Literal, s.route) },
				fmt.Sprintf("%s %s=%s", v.Kind, s.path, v.Literal), s.f.NumOptions()})
		}
	}
	for _, e := range g.elems {
		e := e
		for _, v := range overflowLiterals(e.kind) {
			v := v
			cands = append(cands, cand{func() { e.set(leafValue(&Field{}, e.kind, v.Literal, e.route)) },
				fmt.Sprintf("overflow %s=%s", e.path, v.Literal), 0})
		}
	}
	if len(cands) == 0 {
		return false
	}
	// prefer sites whose field carries >= 2 options (the non-trivial rule) half of the time
	var rich []cand
	for _, c := range cands {
		if c.nopt >= 2 {
			rich = append(rich, c)
		}
	}
	pool := cands
	if len(rich) > 0 && rapid.Bool().Draw(g.t, "rich") {
		pool = rich
	}
	// first the kind of violation (so that rare kinds are not drowned by the long
	// candidate lists of range/options), then the candidate
	byKind := map[string][]cand{}
	for _, c := range pool {
		k := strings.SplitN(c.what, " ", 2)[0]
		byKind[k] = append(byKind[k], c)
	}
	kinds := sortedKeys(byKind)
	pool = byKind[kinds[g.pick(len(kinds))]]
	c := pool[g.pick(len(pool))]
	c.apply()
	in.What, in.ViolatedOptions, in.MustReject = c.what, c.nopt, true
	return true
}

var garbage = []any{nil, true, json.Number("7"), json.Number("-1.5e3"), "str", "", []any{}, map[string]any{},
	[]any{nil}, []any{json.Number("1"), "x", nil, []any{map[string]any{"a": nil}}}, map[string]any{"a": nil, "k0": []any{nil}},
	map[string]any{"k0": nil}, []any{[]any{}}, json.Number("1e999"), "NaN", json.Number("0.5")}

// chaos damages the valid input at 1-4 places.
func (g *inputGen) chaos(in *Input) {
	n := rapid.IntRange(1, 4).Draw(g.t, "ndamage")
	for i := 0; i < n; i++ {
		switch rapid.IntRange(0, 3).Draw(g.t, "damage") {
		case 0: // replace any value node by garbage
			if len(g.nodes) > 0 {
				v := garbage[g.pick(len(garbage))]
				g.nodes[g.pick(len(g.nodes))](deepCopy(v))
			}
		case 1: // drop or null a scalar field
			if len(g.sites) > 0 {
				s := g.sites[g.pick(len(g.sites))]
				if rapid.Bool().Draw(g.t, "null") && s.route == "json" {
					s.obj[s.f.Name] = nil
				} else {
					delete(s.obj, s.f.Name)
				}
			}
		case 2: // set a scalar field (present or not) to any literal of interest
			if len(g.sites) > 0 {
				s := g.sites[g.pick(len(g.sites))]
				k := s.f.T.Deref().Kind
				var lits []string
				for _, v := range violatingLiterals(s.f, k, true) {
					lits = append(lits, v.Literal)
				}
				lits = append(lits, validLiterals(&Field{}, k, true)...)
				lits = append(lits, "Inf", "-inf", "0x10", "1e2", "1.0", " 1", "+1", "TRUE", "t")
				lit := lits[g.pick(len(lits))]
				if s.route == "json" && rapid.Bool().Draw(g.t, "asnumber") && numRe.MatchString(lit) && !strings.HasPrefix(lit, "+") {
					s.obj[s.f.Name] = json.Number(lit)
				} else {
					s.obj[s.f.Name] = lit
				}
			}
		case 3: // unknown extra key
			for _, k := range sortedKeys(in.Docs) {
				in.Docs[k]["zz"] = "extra"
				break
			}
		}
	}
	if in.Docs["form"] != nil || in.Docs["path"] != nil || in.Docs["header"] != nil {
		sanitizeStringDocs(in)
	}
}

// sanitizeStringDocs keeps the string routes' documents renderable as parameters:
// every leaf a string (form: string or list of strings).
func sanitizeStringDocs(in *Input) {
	for _, key := range []string{"form", "path", "header"} {
		doc := in.Docs[key]
		for k, v := range doc {
			switch vv := v.(type) {
			case string:
			case json.Number:
				doc[k] = vv.String()
			case bool:
				doc[k] = strconv.FormatBool(vv)
			case []any:
				var out []any
				for _, e := range vv {
					switch ev := e.(type) {
					case string:
						out = append(out, ev)
					case json.Number:
						out = append(out, ev.String())
					}
				}
				if key == "form" && len(out) > 0 {
					doc[k] = out
				} else {
					delete(doc, k)
				}
			default:
				delete(doc, k)
			}
		}
	}
}

func deepCopy(v any) any {
	switch vv := v.(type) {
	case []any:
		out := make([]any, len(vv))
		for i := range vv {
			out[i] = deepCopy(vv[i])
		}
		return out
	case map[string]any:
		out := map[string]any{}
		for k, e := range vv {
			out[k] = deepCopy(e)
		}
		return out
	}
	return v
}

// ---------------------------------------------------------------- rendering

// RenderJSON renders a generic document as JSON text (sorted keys; numbers verbatim).
func RenderJSON(v any) string {
	var b strings.Builder
	renderJSON(&b, v)
	return b.String()
}

func renderJSON(b *strings.Builder, v any) {
	switch vv := v.(type) {
	case nil:
		b.WriteString("null")
	case bool:
		b.WriteString(strconv.FormatBool(vv))
	case json.Number:
		b.WriteString(vv.String())
	case string:
		s, _ := json.Marshal(vv)
		b.Write(s)
	case []any:
		b.WriteByte('[')
		for i, e := range vv {
			if i > 0 {
				b.WriteString(", ")
			}
			renderJSON(b, e)
		}
		b.WriteByte(']')
	case map[string]any:
		b.WriteByte('{')
		for i, k := range sortedKeys(vv) {
			if i > 0 {
				b.WriteString(", ")
			}
			s, _ := json.Marshal(k)
			b.Write(s)
			b.WriteString(": ")
			renderJSON(b, vv[k])
		}
		b.WriteByte('}')
	default:
		fmt.Fprintf(b, "%q", fmt.Sprint(v))
	}
}

// FoldDoc returns doc as a case-insensitive reader (the configuration loader) sees
// it: every key that names a struct field in any spelling is re-spelled as the
// field's tag name.  ok=false when two keys of one object fold onto the same field
// (which of them the loader keeps is not specified).
func FoldDoc(spec *Type, doc map[string]any) (map[string]any, bool) {
	byLower := map[string]*Field{}
	for _, f := range spec.Fields {
		byLower[strings.ToLower(f.Name)] = f
	}
	out := map[string]any{}
	for k, v := range doc {
		f := byLower[strings.ToLower(k)]
		if f == nil {
			out[k] = v
			continue
		}
		if _, dup := out[f.Name]; dup {
			return nil, false
		}
		fv, ok := foldValue(f.T, v)
		if !ok {
			return nil, false
		}
		out[f.Name] = fv
	}
	return out, true
}

func foldValue(ty *Type, v any) (any, bool) {
	d := ty.Deref()
	switch vv := v.(type) {
	case map[string]any:
		switch d.Kind {
		case reflect.Struct:
			return FoldDoc(d, vv)
		case reflect.Map:
			out := map[string]any{}
			for k, e := range vv {
				fe, ok := foldValue(d.Elem, e)
				if !ok {
					return nil, false
				}
				out[k] = fe
			}
			return out, true
		}
	case []any:
		if d.Kind == reflect.Slice {
			out := make([]any, len(vv))
			for i, e := range vv {
				fe, ok := foldValue(d.Elem, e)
				if !ok {
					return nil, false
				}
				out[i] = fe
			}
			return out, true
		}
	}
	return v, true
}

// RecaseDoc returns a copy of doc in which the keys that name struct fields (not map
// keys) are re-spelled by recase; the configuration loader matches keys
// case-insensitively, so the copy denotes the same input there.
func RecaseDoc(spec *Type, doc map[string]any, recase func(string) string) map[string]any {
	byName := map[string]*Field{}
	for _, f := range spec.Fields {
		byName[f.Name] = f
	}
	out := map[string]any{}
	for _, k := range sortedKeys(doc) { // sorted: recase may count its calls
		v := doc[k]
		f := byName[k]
		if f == nil {
			out[k] = deepCopy(v)
			continue
		}
		out[recase(k)] = recaseValue(f.T, v, recase)
	}
	return out
}

func recaseValue(ty *Type, v any, recase func(string) string) any {
	d := ty.Deref()
	switch vv := v.(type) {
	case map[string]any:
		switch d.Kind {
		case reflect.Struct:
			return RecaseDoc(d, vv, recase)
		case reflect.Map:
			out := map[string]any{}
			for _, k := range sortedKeys(vv) {
				out[k] = recaseValue(d.Elem, vv[k], recase)
			}
			return out
		}
	case []any:
		if d.Kind == reflect.Slice {
			out := make([]any, len(vv))
			for i, e := range vv {
				out[i] = recaseValue(d.Elem, e, recase)
			}
			return out
		}
	}
	return deepCopy(v)
}

// RenderTOML renders a generic document as TOML, or ok=false when TOML cannot
// express it (null, integers beyond int64, non-finite or oddly spelled numbers).
func RenderTOML(doc map[string]any) (string, bool) {
	var b strings.Builder
	for _, k := range sortedKeys(doc) {
		b.WriteString(tomlKey(k))
		b.WriteString(" = ")
		if !renderTOML(&b, doc[k]) {
			return "", false
		}
		b.WriteByte('\n')
	}
	return b.String(), true
}

var tomlBare = regexp.MustCompile(`^[A-Za-z0-9_-]+$`)

func tomlKey(k string) string {
	if tomlBare.MatchString(k) {
		return k
	}
	return tomlString(k)
}

func tomlString(s string) string {
	var b strings.Builder
	b.WriteByte('"')
	for _, r := range s {
		switch {
		case r == '"' || r == '\\':
			b.WriteByte('\\')
			b.WriteRune(r)
		case r < 0x20 || r == 0x7f:
			fmt.Fprintf(&b, `\u%04X`, r)
		default:
			b.WriteRune(r)
		}
	}
	b.WriteByte('"')
	return b.String()
}

var (
	tomlInt   = regexp.MustCompile(`^-?(0|[1-9][0-9]*)$`)
	tomlFloat = regexp.MustCompile(`^-?(0|[1-9][0-9]*)(\.[0-9]+)?([eE][+-]?[0-9]+)?$`)
)

func renderTOML(b *strings.Builder, v any) bool {
	switch vv := v.(type) {
	case nil:
		return false
	case bool:
		b.WriteString(strconv.FormatBool(vv))
	case json.Number:
		s := vv.String()
		switch {
		case tomlInt.MatchString(s):
			if _, err := strconv.ParseInt(s, 10, 64); err != nil {
				return false
			}
		case tomlFloat.MatchString(s):
			if f, err := strconv.ParseFloat(s, 64); err != nil || math.IsInf(f, 0) {
				return false
			}
		default:
			return false
		}
		b.WriteString(s)
	case string:
		b.WriteString(tomlString(vv))
	case []any:
		b.WriteByte('[')
		for i, e := range vv {
			if i > 0 {
				b.WriteString(", ")
			}
			if !renderTOML(b, e) {
				return false
			}
		}
		b.WriteByte(']')
	case map[string]any:
		b.WriteByte('{')
		for i, k := range sortedKeys(vv) {
			if i > 0 {
				b.WriteString(", ")
			}
			b.WriteString(tomlKey(k))
			b.WriteString(" = ")
			if !renderTOML(b, vv[k]) {
				return false
			}
		}
		b.WriteByte('}')
	default:
		return false
	}
	return true
}

// Render renders the whole input for messages and fingerprints.
func (in *Input) Render() string {
	var parts []string
	for _, k := range sortedKeys(in.Docs) {
		parts = append(parts, k+"="+RenderJSON(in.Docs[k]))
	}
	return strings.Join(parts, " ")
}

// NativeDoc converts the json document into a "parameter map" holding Go values of
// exactly the field's type at every scalar struct field where the supplied literal
// is holdable (container elements stay as decoded JSON).
func NativeDoc(spec *Type, doc map[string]any) map[string]any {
	out := map[string]any{}
	byName := map[string]*Field{}
	for _, f := range spec.Fields {
		byName[f.Name] = f
	}
	for k, v := range doc {
		f := byName[k]
		if f == nil {
			out[k] = deepCopy(v)
			continue
		}
		d := f.T.Deref()
		switch {
		case d.Kind == reflect.Struct:
			if m, ok := v.(map[string]any); ok {
				out[k] = NativeDoc(d, m)
			} else {
				out[k] = deepCopy(v)
			}
		case d.IsScalar() && !f.FromString:
			r := refScalar(d.Kind, v)
			_, isNumber := v.(json.Number)
			if r.status == stOK && isNumber == isNum(d.Kind) {
				out[k] = r.goValue(d.Kind)
			} else {
				out[k] = deepCopy(v)
			}
		default:
			out[k] = deepCopy(v)
		}
	}
	return out
}

// ParamMap turns the generic document into the parameter map the HTTP layer would
// hand to the unmarshaler, and returns the normalised document the oracle reads.
func ParamMap(key string, doc map[string]any) (params map[string]any, norm map[string]any) {
	params, norm = map[string]any{}, map[string]any{}
	for k, v := range doc {
		var vals []string
		switch vv := v.(type) {
		case string:
			vals = []string{vv}
		case []any:
			for _, e := range vv {
				if s, ok := e.(string); ok {
					vals = append(vals, s)
				}
			}
		default:
			continue
		}
		switch key {
		case "form": // GetFormValues drops empty values; every key carries a list
			var kept []string
			for _, s := range vals {
				if s != "" {
					kept = append(kept, s)
				}
			}
			if len(kept) == 0 {
				continue
			}
			params[k] = kept
			if _, isList := v.([]any); isList {
				arr := make([]any, len(kept))
				for i, s := range kept {
					arr[i] = s
				}
				norm[k] = arr
			} else {
				norm[k] = kept[0]
			}
		case "path":
			if len(vals) != 1 {
				continue
			}
			params[k] = vals[0]
			norm[k] = vals[0]
		case "header":
			if len(vals) != 1 {
				continue
			}
			params[textproto.CanonicalMIMEHeaderKey(k)] = vals[0]
			norm[k] = vals[0]
		}
	}
	return params, norm
}

// ---------------------------------------------------------------- reference scalar decoding

const (
	stIllTyped   = iota // the supplied value is not of the field's kind: nothing is asserted
	stUnholdable        // a number the field's kind cannot hold (overflow, fraction into integer)
	stOK
)

type refVal struct {
	status int
	b      bool
	s      string
	i      *big.Int // integer kinds
	f64    float64  // float kinds: nearest float64 of the literal
	f32a   float32  // float32: direct rounding
	f32b   float32  // float32: rounding via float64
	nan    bool
	inf    int
}

var numRe = regexp.MustCompile(`^[+-]?([0-9]+\.?[0-9]*|\.[0-9]+)([eE][+-]?[0-9]+)?$`)

// refScalar decodes a supplied leaf for a field of kind k, independently of the
// code under test.  Numbers may arrive as json.Number or as strings (string routes,
// `string` option).
func refScalar(k reflect.Kind, raw any) refVal {
	switch k {
	case reflect.Bool:
		switch v := raw.(type) {
		case bool:
			return refVal{status: stOK, b: v}
		case string:
			switch strings.ToLower(v) {
			case "true", "1":
				return refVal{status: stOK, b: true}
			case "false", "0":
				return refVal{status: stOK, b: false}
			}
		}
		return refVal{}
	case reflect.String:
		if v, ok := raw.(string); ok {
			return refVal{status: stOK, s: v}
		}
		return refVal{}
	}
	var lit string
	switch v := raw.(type) {
	case json.Number:
		lit = v.String()
	case string:
		lit = v
	default:
		return refVal{}
	}
	if isFloat(k) {
		switch strings.ToLower(lit) {
		case "nan":
			return refVal{status: stOK, nan: true}
		case "inf", "+inf", "infinity", "+infinity":
			return refVal{status: stOK, inf: 1, f64: math.Inf(1)}
		case "-inf", "-infinity":
			return refVal{status: stOK, inf: -1, f64: math.Inf(-1)}
		}
	}
	if !numRe.MatchString(lit) {
		return refVal{}
	}
	if isFloat(k) {
		f, err := strconv.ParseFloat(lit, 64)
		if err != nil {
			return refVal{status: stUnholdable}
		}
		r := refVal{status: stOK, f64: f}
		if k == reflect.Float32 {
			g, err := strconv.ParseFloat(lit, 32)
			if err != nil || math.IsInf(float64(float32(f)), 0) {
				return refVal{status: stUnholdable}
			}
			r.f32a, r.f32b = float32(g), float32(f)
		}
		return r
	}
	// integer kinds
	var v *big.Int
	plain := strings.TrimPrefix(lit, "+")
	if iv, ok := new(big.Int).SetString(plain, 10); ok {
		v = iv
	} else {
		// fraction and/or exponent: exact rational arithmetic, bounded exponent
		if len(lit) > 400 {
			return refVal{} // not judged
		}
		if i := strings.IndexAny(lit, "eE"); i >= 0 {
			if e, err := strconv.Atoi(lit[i+1:]); err != nil || e > 400 || e < -400 {
				return refVal{} // not judged
			}
		}
		q, ok := new(big.Rat).SetString(lit)
		if !ok {
			return refVal{}
		}
		if !q.IsInt() {
			return refVal{status: stUnholdable}
		}
		v = q.Num()
	}
	lo, hi := intBounds(k)
	if v.Cmp(lo) < 0 || v.Cmp(hi) > 0 {
		return refVal{status: stUnholdable}
	}
	return refVal{status: stOK, i: v}
}

// goValue returns the Go value of exactly kind k.
func (r refVal) goValue(k reflect.Kind) any {
	rv := reflect.New(scalarRT[k]).Elem()
	switch {
	case k == reflect.Bool:
		rv.SetBool(r.b)
	case k == reflect.String:
		rv.SetString(r.s)
	case isInt(k):
		rv.SetInt(r.i.Int64())
	case isUint(k):
		rv.SetUint(r.i.Uint64())
	case k == reflect.Float32:
		rv.SetFloat(float64(r.f32a))
	default:
		rv.SetFloat(r.f64)
	}
	return rv.Interface()
}

// asBigFloat is the supplied number for range comparison.
func (r refVal) asBigFloat(k reflect.Kind) *big.Float {
	if isFloat(k) {
		if r.inf != 0 {
			return new(big.Float).SetInf(r.inf < 0)
		}
		return big.NewFloat(r.f64)
	}
	return new(big.Float).SetInt(r.i)
}

// holds reports whether the decoded scalar (pointers stripped) equals the reference.
func (r refVal) holds(k reflect.Kind, v reflect.Value) bool {
	switch {
	case k == reflect.Bool:
		return v.Bool() == r.b
	case k == reflect.String:
		return v.String() == r.s
	case isInt(k):
		return r.i.IsInt64() && v.Int() == r.i.Int64()
	case isUint(k):
		return r.i.IsUint64() && v.Uint() == r.i.Uint64()
	default:
		f := v.Float()
		if r.nan {
			return math.IsNaN(f)
		}
		if k == reflect.Float32 && r.inf == 0 {
			return f == float64(r.f32a) || f == float64(r.f32b)
		}
		return f == r.f64
	}
}

// ---------------------------------------------------------------- the oracle

// Check evaluates the soundness clauses of the statement on an ACCEPTED input: it
// returns one message per violated clause (empty = the result is justified).
//
//	(a) every scalar field that is neither optional nor defaulted was supplied
//	(b) every supplied numeric field lies inside its declared range
//	(c) every supplied field with declared options holds one of them
//	(d) the target holds exactly the supplied values, defaults for the absent ones
//
// Fields whose supplied value is not of the field's kind ("ill-typed") and JSON
// nulls carry no value assertion: the statement says nothing about them.
func Check(spec *Type, docs map[string]map[string]any, target reflect.Value) []string {
	c := &checker{}
	for target.Kind() == reflect.Ptr {
		if target.IsNil() {
			return []string{"target is a nil pointer"}
		}
		target = target.Elem()
	}
	c.structure(spec, docs, nil, target, "")
	return c.out
}

type checker struct {
	out         []string
	depRequired bool // the field being checked is not optional in this input (dependency option)
}

func (c *checker) fail(format string, a ...any) {
	c.out = append(c.out, fmt.Sprintf(format, a...))
}

func (c *checker) structure(spec *Type, docs map[string]map[string]any, obj map[string]any, v reflect.Value, path string) {
	for i, f := range spec.Fields {
		o := obj
		if docs != nil {
			o = docs[f.TagKey]
		}
		raw, present := o[f.Name]
		c.depRequired = DepMakesRequired(f, o)
		c.field(f, raw, present, v.Field(i), path+"."+f.Name)
	}
}

// DepMakesRequired resolves a dependency option against the object the field is
// read from: `optional=b` leaves the field optional only while b is absent, and
// `optional=!b` only while b is supplied.  (A null-valued b decides nothing.)
func DepMakesRequired(f *Field, obj map[string]any) bool {
	if f.Dep == "" {
		return false
	}
	if strings.HasPrefix(f.Dep, "!") {
		_, on := obj[f.Dep[1:]]
		return !on
	}
	v, on := obj[f.Dep]
	return on && v != nil
}

func derefValue(v reflect.Value) (reflect.Value, bool) {
	for v.Kind() == reflect.Ptr {
		if v.IsNil() {
			return v, false
		}
		v = v.Elem()
	}
	return v, true
}

func isEmptyish(v reflect.Value) bool {
	d, ok := derefValue(v)
	if !ok {
		return true
	}
	switch d.Kind() {
	case reflect.Slice, reflect.Map:
		return d.Len() == 0
	}
	return d.IsZero()
}

func (c *checker) field(f *Field, raw any, present bool, v reflect.Value, path string) {
	d := f.T.Deref()
	switch {
	case d.IsScalar():
		c.scalarField(f, d.Kind, raw, present, v, path)
	case d.Kind == reflect.Struct:
		if present && raw == nil {
			return
		}
		if present {
			obj, ok := raw.(map[string]any)
			if !ok {
				return // ill-typed
			}
			dv, ok := derefValue(v)
			if !ok {
				c.fail("(d) %s: object supplied but the pointer is nil", path)
				return
			}
			c.structure(d, nil, obj, dv, path)
			return
		}
		dv, ok := derefValue(v)
		if !ok {
			dv = reflect.Zero(d.RType())
		}
		if f.IsOptional() {
			if dv.IsZero() {
				return // absent optional struct: zero
			}
			sub := &checker{}
			sub.structure(d, nil, map[string]any{}, dv, path)
			if len(sub.out) > 0 {
				c.fail("(d) %s: absent optional struct is neither zero nor defaults-only: %v", path, sub.out)
			}
			return
		}
		// absent and not optional: as if {} had been supplied
		c.structure(d, nil, map[string]any{}, dv, path)
	default: // slice or map
		if !present {
			if f.DefaultElems != nil {
				c.sliceDefault(f, v, path)
				return
			}
			if !isEmptyish(v) {
				c.fail("(d) %s: absent container decoded to %v", path, v.Interface())
			}
			return
		}
		if raw == nil {
			return
		}
		c.value(f.T, raw, v, path)
	}
}

// sliceDefault: an absent slice field with `default=[...]` holds exactly the declared
// elements, in the declared order.
func (c *checker) sliceDefault(f *Field, v reflect.Value, path string) {
	dv, ok := derefValue(v)
	n := 0
	if ok {
		n = dv.Len()
	}
	if n != len(f.DefaultElems) {
		c.fail("(d) %s: absent, default %s declared, target holds %d elements: %v", path, f.Default, n, v.Interface())
		return
	}
	k := f.T.Deref().Elem.Deref().Kind
	for i, lit := range f.DefaultElems {
		ev, ok := derefValue(dv.Index(i))
		r := refScalar(k, lit)
		if !ok {
			c.fail("(d) %s[%d]: absent, default %s declared, element is a nil pointer", path, i, f.Default)
		} else if r.status == stOK && !r.holds(k, ev) {
			c.fail("(d) %s[%d]: absent, default %s declared, target holds %v", path, i, f.Default, ev.Interface())
		}
	}
}

func (c *checker) scalarField(f *Field, k reflect.Kind, raw any, present bool, v reflect.Value, path string) {
	if !present || raw == nil {
		if (!f.IsOptional() || c.depRequired) && !f.HasDefault {
			what := "absent"
			if present {
				what = "null"
			}
			why := ""
			if c.depRequired {
				why = " (optional=" + f.Dep + " does not make it optional in this input)"
			}
			c.fail("(a) %s is neither optional nor defaulted%s and was %s, yet the input was accepted", path, why, what)
			return
		}
		if present {
			return // null: no value assertion
		}
		dv, ok := derefValue(v)
		if f.HasDefault {
			r := refScalar(k, f.Default)
			if !ok {
				c.fail("(d) %s: absent, default %q not filled (nil pointer)", path, f.Default)
			} else if r.status == stOK && !r.holds(k, dv) {
				c.fail("(d) %s: absent, default %q declared, target holds %v", path, f.Default, dv.Interface())
			}
			return
		}
		if ok && !dv.IsZero() {
			c.fail("(d) %s: absent optional field holds %v", path, dv.Interface())
		}
		return
	}
	r := refScalar(k, raw)
	if r.status == stIllTyped {
		return
	}
	if r.status == stUnholdable {
		c.fail("(d) %s: supplied %v cannot be held by %s, yet the input was accepted", path, raw, k)
		return
	}
	if f.Range != nil && isNum(k) {
		if !f.Range.Contains(r.asBigFloat(k), r.nan) {
			c.fail("(b) %s: supplied %v lies outside range %s, yet the input was accepted", path, raw, f.Range.Tag())
		}
	}
	dv, ok := derefValue(v)
	if !ok {
		c.fail("(d) %s: supplied %v but the pointer is nil", path, raw)
		return
	}
	if !r.holds(k, dv) {
		c.fail("(d) %s: supplied %v, target holds %v", path, raw, dv.Interface())
	}
	if len(f.Options) > 0 {
		held := fmt.Sprint(dv.Interface())
		if !contains(f.Options, held) {
			c.fail("(c) %s: target holds %q, not one of the options %v", path, held, f.Options)
		}
	}
}

// value compares a supplied non-null value with the decoded value of type ty
// (containers, container elements).
func (c *checker) value(ty *Type, raw any, v reflect.Value, path string) {
	d := ty.Deref()
	if raw == nil {
		return
	}
	switch d.Kind {
	case reflect.Struct:
		obj, ok := raw.(map[string]any)
		if !ok {
			return
		}
		dv, ok := derefValue(v)
		if !ok {
			c.fail("(d) %s: object supplied but the pointer is nil", path)
			return
		}
		c.structure(d, nil, obj, dv, path)
	case reflect.Slice:
		arr, ok := raw.([]any)
		if !ok {
			return
		}
		for _, e := range arr {
			if e == nil {
				return // null elements: nothing asserted about the slice
			}
		}
		dv, ok := derefValue(v)
		n := 0
		if ok {
			n = dv.Len()
		}
		if n != len(arr) {
			c.fail("(d) %s: %d elements supplied, target holds %d", path, len(arr), n)
			return
		}
		for i, e := range arr {
			c.value(d.Elem, e, dv.Index(i), fmt.Sprintf("%s[%d]", path, i))
		}
	case reflect.Map:
		m, ok := raw.(map[string]any)
		if !ok {
			return
		}
		dv, ok := derefValue(v)
		n := 0
		if ok {
			n = dv.Len()
		}
		if n != len(m) {
			c.fail("(d) %s: %d keys supplied, target holds %d", path, len(m), n)
			return
		}
		for _, k := range sortedKeys(m) {
			ev := dv.MapIndex(reflect.ValueOf(k))
			if !ev.IsValid() {
				c.fail("(d) %s: key %q supplied but missing in the target", path, k)
				continue
			}
			c.value(d.Elem, m[k], ev, path+"["+k+"]")
		}
	default:
		r := refScalar(d.Kind, raw)
		if r.status == stIllTyped {
			return
		}
		if r.status == stUnholdable {
			c.fail("(d) %s: supplied %v cannot be held by %s, yet the input was accepted", path, raw, d.Kind)
			return
		}
		dv, ok := derefValue(v)
		if !ok {
			c.fail("(d) %s: supplied %v but the pointer is nil", path, raw)
			return
		}
		if !r.holds(d.Kind, dv) {
			c.fail("(d) %s: supplied %v, target holds %v", path, raw, dv.Interface())
		}
	}
}

// ---------------------------------------------------------------- fixed types (DSL)

// S builds a struct spec from fields.
func S(fields ...*Field) *Type {
	st := &Type{Kind: reflect.Struct}
	for i, f := range fields {
		f.GoName = "F" + strconv.Itoa(i)
		st.Fields = append(st.Fields, f)
	}
	return st
}

// F builds a json field from a compact description: F("a", T, "optional=b", "range=[1:5]").
func F(name string, ty *Type, opts ...string) *Field { return FK("json", name, ty, opts...) }

// FK is F with an explicit tag key.
func FK(key, name string, ty *Type, opts ...string) *Field {
	f := &Field{TagKey: key, Name: name, T: ty}
	for _, o := range opts {
		switch {
		case o == "optional":
			f.Optional = true
		case o == "string":
			f.FromString = true
		case strings.HasPrefix(o, "optional="):
			f.Dep = o[len("optional="):]
		case strings.HasPrefix(o, "default="):
			f.HasDefault, f.Default = true, o[len("default="):]
			if d := ty.Deref(); d.Kind == reflect.Slice {
				f.DefaultElems = []string{}
				if inner := strings.Trim(f.Default, "[]"); inner != "" {
					f.DefaultElems = strings.Split(inner, ",")
				}
			}
		case strings.HasPrefix(o, "options="):
			f.Options = strings.Split(o[len("options="):], "|")
		case strings.HasPrefix(o, "range="):
			f.Range = parseRangeDSL(o[len("range="):])
		default:
			panic("verifc08: bad option " + o)
		}
	}
	return f
}

func parseRangeDSL(s string) *Range {
	r := &Range{LoInc: s[0] == '[', HiInc: s[len(s)-1] == ']'}
	parts := strings.Split(s[1:len(s)-1], ":")
	if parts[0] != "" {
		r.HasLo = true
		r.Lo, _ = strconv.ParseFloat(parts[0], 64)
	}
	if parts[1] != "" {
		r.HasHi = true
		r.Hi, _ = strconv.ParseFloat(parts[1], 64)
	}
	return r
}

// Exported constructors for the fixed-type tables of the test files.
func Sc(k reflect.Kind) *Type { return sc(k) }
func Ptr(t *Type) *Type       { return ptr(t) }
func Slice(t *Type) *Type     { return slice(t) }
func Map(t *Type) *Type       { return mapOf(t) }

// DecodeJSON decodes the first JSON value of data the way the oracle reads it
// (numbers verbatim; like the code under test, anything after the first value is
// ignored).
func DecodeJSON(data []byte) (any, error) {
	dec := json.NewDecoder(strings.NewReader(string(data)))
	dec.UseNumber()
	var v any
	if err := dec.Decode(&v); err != nil {
		return nil, err
	}
	return v, nil
}

// ---------------------------------------------------------------- result independence

// DeepCopy returns an independent copy of v (nothing reachable from the copy is
// shared with v).
func DeepCopy(v reflect.Value) reflect.Value {
	out := reflect.New(v.Type()).Elem()
	deepCopyInto(out, v)
	return out
}

func deepCopyInto(dst, src reflect.Value) {
	switch src.Kind() {
	case reflect.Ptr:
		if src.IsNil() {
			return
		}
		p := reflect.New(src.Type().Elem())
		deepCopyInto(p.Elem(), src.Elem())
		dst.Set(p)
	case reflect.Struct:
		for i := 0; i < src.NumField(); i++ {
			deepCopyInto(dst.Field(i), src.Field(i))
		}
	case reflect.Slice:
		if src.IsNil() {
			return
		}
		s := reflect.MakeSlice(src.Type(), src.Len(), src.Len())
		for i := 0; i < src.Len(); i++ {
			deepCopyInto(s.Index(i), src.Index(i))
		}
		dst.Set(s)
	case reflect.Map:
		if src.IsNil() {
			return
		}
		m := reflect.MakeMapWithSize(src.Type(), src.Len())
		it := src.MapRange()
		for it.Next() {
			e := reflect.New(src.Type().Elem()).Elem()
			deepCopyInto(e, it.Value())
			m.SetMapIndex(it.Key(), e)
		}
		dst.Set(m)
	default:
		dst.Set(src)
	}
}

// Same is deep equality that treats NaN as equal to NaN and keeps nil and empty
// containers apart.  "" = same, otherwise the first difference.
func Same(a, b reflect.Value) string { return same(a, b, "") }

func same(a, b reflect.Value, path string) string {
	switch a.Kind() {
	case reflect.Ptr:
		if a.IsNil() != b.IsNil() {
			return fmt.Sprintf("%s: nil pointer vs non-nil", path)
		}
		if a.IsNil() {
			return ""
		}
		return same(a.Elem(), b.Elem(), path)
	case reflect.Struct:
		for i := 0; i < a.NumField(); i++ {
			if d := same(a.Field(i), b.Field(i), path+"."+a.Type().Field(i).Name); d != "" {
				return d
			}
		}
		return ""
	case reflect.Slice:
		if a.IsNil() != b.IsNil() || a.Len() != b.Len() {
			return fmt.Sprintf("%s: %v vs %v", path, a.Interface(), b.Interface())
		}
		for i := 0; i < a.Len(); i++ {
			if d := same(a.Index(i), b.Index(i), fmt.Sprintf("%s[%d]", path, i)); d != "" {
				return d
			}
		}
		return ""
	case reflect.Map:
		if a.IsNil() != b.IsNil() || a.Len() != b.Len() {
			return fmt.Sprintf("%s: %v vs %v", path, a.Interface(), b.Interface())
		}
		it := a.MapRange()
		for it.Next() {
			bv := b.MapIndex(it.Key())
			if !bv.IsValid() {
				return fmt.Sprintf("%s: key %v missing", path, it.Key())
			}
			if d := same(it.Value(), bv, fmt.Sprintf("%s[%v]", path, it.Key())); d != "" {
				return d
			}
		}
		return ""
	case reflect.Float32, reflect.Float64:
		x, y := a.Float(), b.Float()
		if x == y || (math.IsNaN(x) && math.IsNaN(y)) {
			return ""
		}
		return fmt.Sprintf("%s: %v vs %v", path, x, y)
	default:
		if a.Interface() == b.Interface() {
			return ""
		}
		return fmt.Sprintf("%s: %v vs %v", path, a.Interface(), b.Interface())
	}
}

// ScribbleStats counts what Scribble found to overwrite.
type ScribbleStats struct {
	Scalars int // scalar struct fields overwritten (memory owned by the target itself)
	Refs    int // writes into memory behind a reference: slice elements, map entries, pointees
	undo    []func()
}

// Undo takes every write back, in reverse order, through the same references.  If
// the unmarshaller shares memory with the scribbled target (the defect this oracle
// looks for) that memory is repaired too, so that one failing case does not poison
// the process for the cases (and shrink attempts) that follow.
func (st *ScribbleStats) Undo() {
	for i := len(st.undo) - 1; i >= 0; i-- {
		st.undo[i]()
	}
	st.undo = nil
}

// set performs v.Set(x) and records how to take it back.
func (st *ScribbleStats) set(v, x reflect.Value) {
	old := reflect.New(v.Type()).Elem()
	old.Set(v)
	v.Set(x)
	st.undo = append(st.undo, func() { v.Set(old) })
}

// setMap performs m[k] = x (x invalid: delete) and records how to take it back.
func (st *ScribbleStats) setMap(m, k, x reflect.Value) {
	var old reflect.Value
	if cur := m.MapIndex(k); cur.IsValid() {
		old = reflect.New(cur.Type()).Elem()
		old.Set(cur)
	}
	m.SetMapIndex(k, x)
	st.undo = append(st.undo, func() { m.SetMapIndex(k, old) })
}

// Scribble overwrites, in place, everything mutable that is reachable from the
// (addressable) value v: every scalar gets another value, slices are written
// element by element and reversed, map entries are overwritten, one is deleted and
// one added, pointers are written through.  It never allocates a new slice or
// pointer for the target: memory that the unmarshaller may have kept a reference to
// is what gets damaged.
func Scribble(v reflect.Value) ScribbleStats {
	var st ScribbleStats
	scribble(v, false, &st)
	return st
}

func scribble(v reflect.Value, behindRef bool, st *ScribbleStats) {
	switch v.Kind() {
	case reflect.Ptr:
		if !v.IsNil() {
			scribble(v.Elem(), true, st)
		}
	case reflect.Struct:
		for i := 0; i < v.NumField(); i++ {
			scribble(v.Field(i), behindRef, st)
		}
	case reflect.Slice:
		n := v.Len()
		for i := 0; i < n; i++ {
			scribble(v.Index(i), true, st)
		}
		for i, j := 0, n-1; i < j; i, j = i+1, j-1 { // reverse in place
			x := reflect.New(v.Type().Elem()).Elem()
			x.Set(v.Index(i))
			st.set(v.Index(i), v.Index(j))
			st.set(v.Index(j), x)
			st.Refs++
		}
	case reflect.Map:
		if v.IsNil() {
			return
		}
		keys := v.MapKeys()
		sort.Slice(keys, func(i, j int) bool { return keys[i].String() < keys[j].String() })
		for i, k := range keys {
			e := reflect.New(v.Type().Elem()).Elem()
			e.Set(v.MapIndex(k)) // shallow: containers/pointees behind the entry stay shared
			scribble(e, true, st)
			st.setMap(v, k, e)
			if i == 0 && len(keys) > 1 {
				st.setMap(v, k, reflect.Value{}) // delete one entry
			}
			st.Refs++
		}
		st.setMap(v, reflect.ValueOf("scribbled"), reflect.Zero(v.Type().Elem()))
		st.Refs++
	case reflect.Bool:
		st.set(v, reflect.ValueOf(!v.Bool()).Convert(v.Type()))
		count(behindRef, st)
	case reflect.Int, reflect.Int8, reflect.Int16, reflect.Int32, reflect.Int64:
		st.set(v, reflect.ValueOf(v.Int()^0x55).Convert(v.Type()))
		count(behindRef, st)
	case reflect.Uint, reflect.Uint8, reflect.Uint16, reflect.Uint32, reflect.Uint64:
		st.set(v, reflect.ValueOf(v.Uint()^0x55).Convert(v.Type()))
		count(behindRef, st)
	case reflect.Float32, reflect.Float64:
		f := v.Float()
		if math.IsNaN(f) || math.IsInf(f, 0) {
			f = 42
		} else {
			f = -f/2 - 1
		}
		st.set(v, reflect.ValueOf(f).Convert(v.Type()))
		count(behindRef, st)
	case reflect.String:
		st.set(v, reflect.ValueOf("scribbled<"+v.String()+">").Convert(v.Type()))
		count(behindRef, st)
	}
}

func count(behindRef bool, st *ScribbleStats) {
	if behindRef {
		st.Refs++
	} else {
		st.Scalars++
	}
}

// ScribbleInput overwrites, in place, the value tree that was handed to the
// unmarshaller as its input (maps and slices of a map[string]any input, lists of
// strings, raw bytes) and returns the number of writes.
func ScribbleInput(v any) int {
	n := 0
	switch vv := v.(type) {
	case map[string]any:
		for _, k := range sortedKeys(vv) {
			n += ScribbleInput(vv[k])
			switch vv[k].(type) {
			case map[string]any, []any, []string:
			default:
				vv[k] = "scribbled-input"
				n++
			}
		}
		vv["scribbled-input"] = []any{"x"}
		n++
	case []any:
		for i := range vv {
			n += ScribbleInput(vv[i])
			switch vv[i].(type) {
			case map[string]any, []any:
			default:
				vv[i] = "scribbled-input"
				n++
			}
		}
		for i, j := 0, len(vv)-1; i < j; i, j = i+1, j-1 {
			vv[i], vv[j] = vv[j], vv[i]
		}
	case []string:
		for i := range vv {
			vv[i] = "scribbled-input"
			n++
		}
	case map[string]string:
		for k := range vv {
			vv[k] = "scribbled-input"
			n++
		}
	case map[string][]string:
		for _, l := range vv {
			n += ScribbleInput(l)
		}
	case []byte:
		for i := range vv {
			vv[i] = 'x'
			n++
		}
	}
	return n
}

// Independence checks the result-independence reading of "the target holds exactly
// the supplied values with defaults filled for the absent ones": what a successful
// unmarshal handed out must not be memory the unmarshaller keeps.  first is the
// pointer to an accepted, already verified target; inputs are the value trees that
// were passed in; again unmarshals THE SAME document (rebuilt by the caller) into
// the pointer it is given.  The target and the inputs are scribbled over, then the
// document is unmarshalled again into a fresh target, which must equal the copy
// saved before the scribbling and satisfy the soundness oracle; and the first target
// must not change during the second call.  Returns "" or the violation.
func Independence(spec *Type, docs map[string]map[string]any, first reflect.Value, inputs []any,
	again func(ptr any) error) (msg string, st ScribbleStats, inputWrites int) {
	saved := DeepCopy(first.Elem())
	st = Scribble(first.Elem())
	defer st.Undo()
	for _, in := range inputs {
		inputWrites += ScribbleInput(in)
	}
	after := DeepCopy(first.Elem())
	second := reflect.New(spec.RType())
	var err error
	var panicked any
	func() {
		defer func() { panicked = recover() }()
		err = again(second.Interface())
	}()
	switch {
	case panicked != nil:
		return fmt.Sprintf("the second unmarshal of the same document panicked: %v", panicked), st, inputWrites
	case err != nil:
		return fmt.Sprintf("the same document was accepted once and rejected the second time: %v", err), st, inputWrites
	}
	if d := Same(saved, second.Elem()); d != "" {
		return fmt.Sprintf("after the first result (and the input) had been overwritten by their owner, a second unmarshal of the same document yields another result: %s\n  first result:  %+v\n  second result: %+v",
			d, saved.Interface(), second.Elem().Interface()), st, inputWrites
	}
	if msgs := Check(spec, docs, second); len(msgs) > 0 {
		return "second unmarshal: " + strings.Join(msgs, "; "), st, inputWrites
	}
	if d := Same(after, first.Elem()); d != "" {
		return fmt.Sprintf("an already returned target changed while the same document was unmarshalled into another target: %s", d), st, inputWrites
	}
	return "", st, inputWrites
}

// CheckDefaults is the oracle for fill-default mode (conf.FillDefault on a zero
// target): every field that declares a default — at the top level and inside nested
// non-pointer structs — holds it.  Nothing is asserted about the other fields.
func CheckDefaults(spec *Type, target reflect.Value) []string {
	c := &checker{}
	for target.Kind() == reflect.Ptr {
		target = target.Elem()
	}
	c.defaults(spec, target, "")
	return c.out
}

func (c *checker) defaults(spec *Type, v reflect.Value, path string) {
	for i, f := range spec.Fields {
		fp := path + "." + f.Name
		d := f.T.Deref()
		switch {
		case f.DefaultElems != nil:
			c.sliceDefault(f, v.Field(i), fp)
		case f.HasDefault && d.IsScalar():
			dv, ok := derefValue(v.Field(i))
			r := refScalar(d.Kind, f.Default)
			if !ok {
				c.fail("(d) %s: default %q not filled (nil pointer)", fp, f.Default)
			} else if r.status == stOK && !r.holds(d.Kind, dv) {
				c.fail("(d) %s: default %q declared, target holds %v", fp, f.Default, dv.Interface())
			}
		case f.T.Kind == reflect.Struct:
			c.defaults(d, v.Field(i), fp)
		}
	}
}
