//go:build verif

// C09 — the HTTP router dispatches every request to the right route with the right
// variables (see /verif/properties.jsonl, DESIGN.md §4 C09).
//
// One generator (route table + request batch) is written against an abstract source of
// small integers, so that the same construction is driven by rapid (TestVerifC09Router),
// by the bytes of a native fuzz input (FuzzVerifC09Router) and — for the small-table
// mode — by plain enumeration (TestVerifC09Exhaustive); TestVerifC09Concurrent serves a
// generated batch from many goroutines on one router and holds every response to the
// verdict of the same request served alone.  Every generated table stays
// inside the statement's precondition *by construction*: the name of a variable segment
// is a function of the pattern prefix in front of it (and contains its depth, so one
// pattern never uses a name twice).
//
// The oracle is a reference matcher written from the statement: own path cleaner, split
// into segments (root = one empty segment), segment-wise match, literal-before-variable
// choice, expected variables, otherwise 405 + Allow (compared as a set) or 404, and the
// three registration rejections.  The router is observed only at its public surface:
// router.NewRouter().Handle errors and ServeHTTP on httptest requests whose URL.Path is
// set directly (no ServeMux in front, so net/http never redirects an unclean path).  The
// search tree (core/search) is cross-checked on the same tables with the cleaned paths
// the router hands to it.
package router_test

import (
	"flag"
	"fmt"
	"net/http"
	"net/http/httptest"
	"net/url"
	"os"
	"path"
	"path/filepath"
	"runtime"
	"sort"
	"strconv"
	"strings"
	"sync"
	"sync/atomic"
	"testing"

	"github.com/zeromicro/go-zero/core/logx"
	"github.com/zeromicro/go-zero/core/search"
	"github.com/zeromicro/go-zero/internal/verifkit"
	"github.com/zeromicro/go-zero/rest/httpx"
	"github.com/zeromicro/go-zero/rest/pathvar"
	"github.com/zeromicro/go-zero/rest/router"
	"pgregory.net/rapid"
)

// ---------------------------------------------------------------- source of choices

type source interface {
	// intn returns a value in [0,n); 0 is always the "simplest" choice.
	intn(n int, label string) int
}

type rapidSrc struct{ t *rapid.T }

func (s rapidSrc) intn(n int, label string) int {
	if n <= 1 {
		return 0
	}
	return rapid.IntRange(0, n-1).Draw(s.t, label)
}

// byteSrc interprets a fuzz input: one byte per choice, 0 when exhausted.
type byteSrc struct {
	b []byte
	i int
}

func (s *byteSrc) intn(n int, _ string) int {
	if n <= 1 || s.i >= len(s.b) {
		return 0
	}
	v := int(s.b[s.i])
	s.i++
	return v % n
}

// ---------------------------------------------------------------- case shape

const varKind = "*" // a variable segment in a "kinds" vector; anything else is the literal itself

type regT struct {
	method string
	raw    string // what is passed to Handle
}

type reqT struct {
	method string
	path   string // assigned to URL.Path
	query  string // assigned to URL.RawQuery; must not influence dispatch
}

type caseT struct {
	regs []regT
	reqs []reqT
	// after[i] = number of Handle calls made before request i is served (registration and
	// serving alternate, never overlap); nil = the whole table first
	after []int
}

var (
	validMethods = []string{http.MethodGet, http.MethodPost, http.MethodPut, http.MethodDelete,
		http.MethodPatch, http.MethodHead, http.MethodOptions}
	badMethods = []string{"TRACE", "CONNECT", "get", "", "FOO"}
	// pattern segment choices, simplest first; the tail holds literals with odd spellings
	patSegs = []string{"a", varKind, "b", varKind, "a", "c", "ab", varKind, "a.b", "...", "a:b", "A"}
	// request segment choices: the pattern literals plus foreign segments
	reqSegs = []string{"a", "b", "c", "ab", "x", "a", "b", "a", "1", "a.b", "...", "a:b", "A", ":v", "%61", " ", "é", "a b", ".a", "..b", ":v0"}
)

// varName is the statement's precondition made constructive: the name depends only on the
// pattern prefix (as kinds) and the depth.
func varName(prefix []string, depth int) string {
	var b strings.Builder
	fmt.Fprintf(&b, "v%d", depth)
	for _, k := range prefix {
		b.WriteByte('_')
		if k == varKind {
			b.WriteByte('V')
		} else {
			b.WriteString(k)
		}
	}
	return b.String()
}

// patternSegs turns kinds into the cleaned pattern's segments; no kinds = root = [""].
func patternSegs(kinds []string) []string {
	if len(kinds) == 0 {
		return []string{""}
	}
	out := make([]string, len(kinds))
	for i, k := range kinds {
		if k == varKind {
			out[i] = ":" + varName(kinds[:i], i)
		} else {
			out[i] = k
		}
	}
	return out
}

func joinSegs(segs []string) string { return "/" + strings.Join(segs, "/") }

func genPatSeg(s source) string { return patSegs[s.intn(len(patSegs), "patSeg")] }

func genKinds(s source, existing [][]string) []string {
	if len(existing) > 0 && s.intn(6, "derive") >= 3 {
		base := existing[s.intn(len(existing), "base")]
		k := append([]string(nil), base...)
		op := s.intn(7, "deriveOp")
		if (op == 0 || op >= 4) && len(k) > 0 {
			// flip literal <-> variable at one position: sibling branches of both kinds
			i := s.intn(len(k), "flipAt")
			if k[i] == varKind {
				k[i] = "a"
			} else {
				k[i] = varKind
			}
		}
		switch op {
		case 1, 5: // another tail: with a flip in front, the two branches diverge only at the end
			if len(k) > 0 {
				k[len(k)-1] = genPatSeg(s)
			}
		case 2, 6:
			if len(k) < 4 {
				k = append(k, genPatSeg(s))
			}
		case 3:
			if len(k) > 0 {
				k = k[:len(k)-1]
			}
		}
		return k
	}
	n := s.intn(5, "nseg")
	k := make([]string, n)
	for i := range k {
		k[i] = genPatSeg(s)
	}
	return k
}

// dirtyPattern renders the cleaned segments in a raw form that needs cleaning: doubled
// slashes, "/./" and a trailing slash (the forms DESIGN §4 lists for patterns).
func dirtyPattern(s source, segs []string) string {
	level := s.intn(8, "patDirty") - 5 // 0..5 clean, 6 one op, 7 two ops
	if level <= 0 {
		return joinSegs(segs)
	}
	n := len(segs)
	if n == 1 && segs[0] == "" {
		n = 0
	}
	pre := make([]string, n)
	tail := ""
	for ; level > 0; level-- {
		at := s.intn(n+1, "patDirtyAt")
		form := []string{"/", "./"}[s.intn(2, "patDirtyForm")]
		if at == n {
			tail = []string{"/", "/./"}[s.intn(2, "patTail")]
		} else {
			pre[at] = form
		}
	}
	if n == 0 {
		return "/" + tail // "//" or "//./"
	}
	var b strings.Builder
	for i := 0; i < n; i++ {
		b.WriteString("/" + pre[i] + segs[i])
	}
	b.WriteString(tail)
	return b.String()
}

func genMethod(s source) string {
	switch m := s.intn(10, "method"); {
	case m <= 3:
		return http.MethodGet
	case m <= 6:
		return http.MethodPost
	case m == 7:
		return http.MethodPut
	case m == 8:
		return http.MethodDelete
	default:
		return validMethods[s.intn(len(validMethods), "anyMethod")]
	}
}

func genReqSeg(s source) string { return reqSegs[s.intn(len(reqSegs), "reqSeg")] }

func dirtyPath(s source, segs []string) string {
	level := s.intn(10, "pathDirty") - 5 // 0..5 clean, then 1..4 ops
	n := len(segs)
	if n == 1 && segs[0] == "" {
		n = 0
	}
	pre := make([]string, n)
	lead, tail := "", ""
	for ; level > 0; level-- {
		at := s.intn(n+2, "pathDirtyAt")
		switch {
		case at == n+1:
			lead = []string{"/..", "/.", "/", "/../.."}[s.intn(4, "pathLead")]
		case at == n:
			tail = []string{"/", "/.", "/x/..", "//", "/./"}[s.intn(5, "pathTail")]
		default:
			pre[at] = []string{"/", "./", "x/../", "/./", "x/y/../../"}[s.intn(5, "pathPre")]
		}
	}
	var b strings.Builder
	b.WriteString(lead)
	if n == 0 {
		b.WriteString("/")
		b.WriteString(tail)
		return b.String()
	}
	for i := 0; i < n; i++ {
		b.WriteString("/" + pre[i] + segs[i])
	}
	b.WriteString(tail)
	return b.String()
}

func genCase(s source) caseT { return genCaseN(s, 1, 10) }

// genCaseN is genCase with minReq..maxReq requests (same draws, same order).
func genCaseN(s source, minReq, maxReq int) caseT {
	var c caseT
	type att struct {
		method string
		kinds  []string
	}
	var atts []att
	var kindsSeen [][]string
	nroutes := s.intn(13, "nroutes")
	for i := 0; i < nroutes; i++ {
		what := s.intn(20, "regKind")
		var a att
		switch {
		case what >= 15 && what <= 16 && len(atts) > 0: // same method and pattern again
			a = atts[s.intn(len(atts), "dupOf")]
		case what == 19 && len(atts) > 0: // same pattern, another method (405 material)
			a = att{genMethod(s), atts[s.intn(len(atts), "sameOf")].kinds}
		default:
			a = att{genMethod(s), genKinds(s, kindsSeen)}
		}
		segs := patternSegs(a.kinds)
		raw := dirtyPattern(s, segs)
		switch what {
		case 17:
			a.method = badMethods[s.intn(len(badMethods), "badMethod")]
		case 18:
			raw = strings.TrimPrefix(joinSegs(segs), "/") // "" for the root pattern
		}
		c.regs = append(c.regs, regT{a.method, raw})
		if what != 17 && what != 18 {
			atts = append(atts, a)
			kindsSeen = append(kindsSeen, a.kinds)
		}
	}
	nreq := minReq + s.intn(maxReq-minReq+1, "nreq")
	for i := 0; i < nreq; i++ {
		var segs []string
		if len(atts) > 0 && s.intn(10, "pathMode") <= 6 {
			base := atts[s.intn(len(atts), "pathOf")].kinds
			for _, k := range base {
				if k == varKind || s.intn(10, "keepLit") == 9 {
					segs = append(segs, genReqSeg(s))
				} else {
					segs = append(segs, k)
				}
			}
			switch s.intn(10, "pathEdit") {
			case 7:
				if len(segs) > 0 {
					segs = segs[:len(segs)-1]
				}
			case 8:
				segs = append(segs, genReqSeg(s))
			case 9:
				if len(segs) > 0 {
					segs[s.intn(len(segs), "editAt")] = genReqSeg(s)
				}
			}
		} else {
			n := s.intn(6, "npathseg")
			for j := 0; j < n; j++ {
				segs = append(segs, genReqSeg(s))
			}
		}
		if len(segs) == 0 {
			segs = []string{""}
		}
		var method string
		switch m := s.intn(10, "reqMethodMode"); {
		case m <= 5 && len(atts) > 0:
			method = atts[s.intn(len(atts), "reqMethodOf")].method
		case m <= 8:
			method = genMethod(s)
		default:
			method = []string{"TRACE", "CONNECT", "get", "FOO"}[s.intn(4, "reqBadMethod")]
		}
		p := dirtyPath(s, segs)
		q := []string{"", "", "", "", "", "a=b", "p=/a/b/../c&v0=x", "/a"}[s.intn(8, "query")]
		c.reqs = append(c.reqs, reqT{method, p, q})
	}
	// phased use: a router that has already served requests (misses included) is extended and
	// serves again; every request is judged against the table as it is when it is served
	if len(c.regs) > 0 && s.intn(4, "phased") != 0 {
		c.after = make([]int, len(c.reqs))
		for i := range c.after {
			if s.intn(3, "afterAll") == 0 {
				c.after[i] = len(c.regs)
			} else {
				c.after[i] = s.intn(len(c.regs)+1, "after")
			}
		}
	}
	return c
}

// ---------------------------------------------------------------- reference model

// cleanSegs is the oracle's own cleaner for rooted paths: drop empty and "." segments,
// let ".." remove the previous one (none above the root); nothing left = the root path,
// which counts as one empty segment.
func cleanSegs(p string) []string {
	var out []string
	for _, seg := range strings.Split(p, "/") {
		switch seg {
		case "", ".":
		case "..":
			if len(out) > 0 {
				out = out[:len(out)-1]
			}
		default:
			out = append(out, seg)
		}
	}
	if len(out) == 0 {
		return []string{""}
	}
	return out
}

func isVar(seg string) bool { return len(seg) > 0 && seg[0] == ':' }

func isValidMethod(m string) bool {
	for _, v := range validMethods {
		if v == m {
			return true
		}
	}
	return false
}

type routeT struct {
	id     int
	method string
	segs   []string // cleaned pattern
}

func (r routeT) String() string { return fmt.Sprintf("#%d %s %s", r.id, r.method, joinSegs(r.segs)) }

func (r routeT) matches(segs []string) bool {
	if len(r.segs) != len(segs) {
		return false
	}
	for i, p := range r.segs {
		if !isVar(p) && p != segs[i] {
			return false
		}
	}
	return true
}

// prefer reports whether a is chosen over b: literal beats variable at the first segment
// where they differ in kind.  tie = the two are the same pattern (cannot happen inside the
// stated domain because duplicates are rejected and names are a function of the prefix).
func prefer(a, b routeT) (better, tie bool) {
	for i := range a.segs {
		va, vb := isVar(a.segs[i]), isVar(b.segs[i])
		if va != vb {
			return !va, false
		}
	}
	return false, true
}

type model struct {
	routes []routeT
	regLog []string
}

// register returns whether the statement wants this registration accepted.
func (m *model) register(id int, method, raw string) (accept bool, why string) {
	switch {
	case !isValidMethod(method):
		why = "unsupported method"
	case len(raw) == 0 || raw[0] != '/':
		why = "pattern not starting with '/'"
	default:
		segs := cleanSegs(raw)
		for _, r := range m.routes {
			if r.method == method && joinSegs(r.segs) == joinSegs(segs) {
				why = "same method and pattern as " + r.String()
			}
		}
		if why == "" {
			m.routes = append(m.routes, routeT{id, method, segs})
			accept = true
		}
	}
	if accept {
		m.regLog = append(m.regLog, fmt.Sprintf("#%d Handle(%q,%q)=ok", id, method, raw))
	} else {
		m.regLog = append(m.regLog, fmt.Sprintf("#%d Handle(%q,%q)=rejected[%s]", id, method, raw, why))
	}
	return
}

func (m *model) table() string {
	rs := make([]string, len(m.routes))
	for i, r := range m.routes {
		rs[i] = r.method + " " + joinSegs(r.segs)
	}
	sort.Strings(rs)
	return strings.Join(rs, "; ")
}

const (
	outDispatch = iota
	outNotAllowed
	outNotFound
)

type expectT struct {
	kind    int
	route   routeT
	vars    map[string]string
	allow   []string // sorted, for outNotAllowed
	nmatch  int      // matching routes of the request's method
	deadEnd bool     // a literal branch that fits the path had to be abandoned for a variable sibling
}

func (m *model) expect(method string, segs []string) expectT {
	var e expectT
	var same []routeT
	others := map[string]bool{}
	found := false
	for _, r := range m.routes {
		if r.method == method {
			same = append(same, r)
		}
		if !r.matches(segs) {
			continue
		}
		if r.method != method {
			others[r.method] = true
			continue
		}
		e.nmatch++
		if !found {
			e.route, found = r, true
			continue
		}
		better, tie := prefer(r, e.route)
		if tie {
			panic(fmt.Sprintf("oracle: %v and %v are the same pattern — generator left the stated domain", r, e.route))
		}
		if better {
			e.route = r
		}
	}
	e.deadEnd = deadEnd(same, segs)
	switch {
	case found:
		e.kind = outDispatch
		e.vars = map[string]string{}
		for i, p := range e.route.segs {
			if isVar(p) {
				e.vars[p[1:]] = segs[i]
			}
		}
	case len(others) > 0:
		e.kind = outNotAllowed
		for k := range others {
			e.allow = append(e.allow, k)
		}
		sort.Strings(e.allow)
	default:
		e.kind = outNotFound
	}
	return e
}

// deadEnd: some route's prefix fits the path, its next segment is a literal equal to the
// path's, a sibling pattern has a variable there, and no route below that literal matches
// the whole path — a literal-first search has to come back and try the variable.
func deadEnd(routes []routeT, segs []string) bool {
	for _, q := range routes {
		for i := 0; i < len(q.segs) && i < len(segs); i++ {
			if i > 0 && !isVar(q.segs[i-1]) && q.segs[i-1] != segs[i-1] {
				break
			}
			if isVar(q.segs[i]) || q.segs[i] != segs[i] {
				continue
			}
			sibling, through := false, false
			for _, o := range routes {
				if len(o.segs) <= i || joinSegs(o.segs[:i]) != joinSegs(q.segs[:i]) {
					continue
				}
				if isVar(o.segs[i]) {
					sibling = true
				} else if o.segs[i] == q.segs[i] && o.matches(segs) {
					through = true
				}
			}
			if sibling && !through {
				return true
			}
		}
	}
	return false
}

// ---------------------------------------------------------------- system under test

type callRec struct {
	id   int
	vars map[string]string
}

type harness struct {
	rt    httpx.Router
	trees map[string]*search.Tree
	calls []callRec
	// concurrent: requests are being served from several goroutines; handlers then report
	// only through the (per-request) response headers, never through calls.
	concurrent bool
}

const (
	hdrRoute = "X-Verif-Route" // added once per handler invocation: route id
	hdrVars  = "X-Verif-Vars"  // the variables that invocation received
)

func newHarness() *harness {
	return &harness{rt: router.NewRouter(), trees: map[string]*search.Tree{}}
}

func (h *harness) handler(id int) http.Handler {
	return http.HandlerFunc(func(w http.ResponseWriter, r *http.Request) {
		vars := map[string]string{}
		for k, v := range pathvar.Vars(r) {
			vars[k] = v
		}
		if !h.concurrent {
			h.calls = append(h.calls, callRec{id, vars})
		}
		w.Header().Add(hdrRoute, strconv.Itoa(id))
		w.Header().Add(hdrVars, renderVars(vars))
		w.WriteHeader(299)
	})
}

func renderVars(v map[string]string) string {
	ks := make([]string, 0, len(v))
	for k := range v {
		ks = append(ks, k)
	}
	sort.Strings(ks)
	var b strings.Builder
	b.WriteByte('{')
	for i, k := range ks {
		if i > 0 {
			b.WriteByte(' ')
		}
		fmt.Fprintf(&b, "%s=%q", k, v[k])
	}
	b.WriteByte('}')
	return b.String()
}

func sameVars(a, b map[string]string) bool {
	if len(a) != len(b) {
		return false
	}
	for k, v := range a {
		if w, ok := b[k]; !ok || w != v {
			return false
		}
	}
	return true
}

type failFn func(format string, a ...any)

// safely runs f and returns the value it panicked with, if any (a panic inside the router
// is reported as a violation with the case attached instead of killing the process).
func safely(f func()) (p any) {
	defer func() { p = recover() }()
	f()
	return nil
}

// register drives Handle (and the tree cross-check) and compares with the statement's
// registration rules.
func (h *harness) register(m *model, id int, rg regT, fail failFn) bool {
	accept, why := m.register(id, rg.method, rg.raw)
	var err error
	if p := safely(func() { err = h.rt.Handle(rg.method, rg.raw, h.handler(id)) }); p != nil {
		fail("Handle(%q,%q) panicked: %v\nhistory: %s", rg.method, rg.raw, p, strings.Join(m.regLog, "; "))
		return accept
	}
	if accept && err != nil {
		fail("registration: Handle(%q,%q) returned %v but it is a new route with a supported method and a pattern starting with '/'\nhistory: %s",
			rg.method, rg.raw, err, strings.Join(m.regLog, "; "))
	}
	if !accept && err == nil {
		fail("registration: Handle(%q,%q) was accepted; the statement wants it rejected (%s)\nhistory: %s",
			rg.method, rg.raw, why, strings.Join(m.regLog, "; "))
	}
	// tree cross-check: the router adds the cleaned pattern to the method's tree
	if isValidMethod(rg.method) && len(rg.raw) > 0 && rg.raw[0] == '/' {
		cp := joinSegs(cleanSegs(rg.raw))
		if std := path.Clean(rg.raw); std != cp {
			fail("oracle self-check: own cleaner gives %q, path.Clean gives %q for pattern %q", cp, std, rg.raw)
		}
		tr := h.trees[rg.method]
		if tr == nil {
			tr = search.NewTree()
			h.trees[rg.method] = tr
		}
		terr := tr.Add(cp, id)
		if accept != (terr == nil) {
			fail("tree: Add(%q) error=%v, expected accept=%v\nhistory: %s", cp, terr, accept, strings.Join(m.regLog, "; "))
		}
	}
	return accept
}

type reqInfo struct {
	exp     expectT
	unclean bool
	clean   string
}

// newRequest builds an httptest request and sets method, URL.Path and query directly.
func newRequest(rq reqT) *http.Request {
	r := httptest.NewRequest(http.MethodGet, "http://verif.test/", nil)
	r.Method = rq.method
	r.URL.Path = rq.path
	r.URL.RawPath = ""
	r.URL.RawQuery = rq.query
	r.RequestURI = (&url.URL{Path: rq.path, RawQuery: rq.query}).RequestURI() // what a server would have seen on the wire
	return r
}

// serve sends one request through ServeHTTP and compares with the reference matcher.
func (h *harness) serve(m *model, rq reqT, fail failFn) reqInfo {
	segs := cleanSegs(rq.path)
	cp := joinSegs(segs)
	if std := path.Clean(rq.path); std != cp {
		fail("oracle self-check: own cleaner gives %q, path.Clean gives %q for path %q", cp, std, rq.path)
	}
	exp := m.expect(rq.method, segs)
	info := reqInfo{exp: exp, unclean: cp != rq.path, clean: cp}

	r := newRequest(rq)
	w := httptest.NewRecorder()
	h.calls = h.calls[:0]
	if p := safely(func() { h.rt.ServeHTTP(w, r) }); p != nil {
		fail("ServeHTTP panicked: %v\nrequest: %s %q (cleaned %q)\nroutes: %s\nhistory: %s",
			p, rq.method, rq.path, cp, m.table(), strings.Join(m.regLog, "; "))
		return info
	}

	ctx := func() string {
		return fmt.Sprintf("\nrequest: %s %q query %q (cleaned %q)\nroutes: %s\nhistory: %s",
			rq.method, rq.path, rq.query, cp, m.table(), strings.Join(m.regLog, "; "))
	}
	got := func() string {
		var cs []string
		for _, c := range h.calls {
			cs = append(cs, fmt.Sprintf("handler #%d vars %s", c.id, renderVars(c.vars)))
		}
		return fmt.Sprintf("status %d, Allow %q, calls [%s]", w.Code, w.Header().Values("Allow"), strings.Join(cs, "; "))
	}
	switch exp.kind {
	case outDispatch:
		if len(h.calls) != 1 || h.calls[0].id != exp.route.id {
			fail("dispatch: want handler of route %v (of %d matching), got %s%s", exp.route, exp.nmatch, got(), ctx())
		} else if !sameVars(h.calls[0].vars, exp.vars) {
			fail("path variables: route %v binds %s, handler received %s%s", exp.route, renderVars(exp.vars), renderVars(h.calls[0].vars), ctx())
		} else if w.Code != 299 {
			fail("dispatch: handler ran but the response status is %d, not the handler's 299%s", w.Code, ctx())
		}
	case outNotAllowed:
		if len(h.calls) != 0 || w.Code != http.StatusMethodNotAllowed {
			fail("no route of method %q matches but %v do: want 405, got %s%s", rq.method, exp.allow, got(), ctx())
		} else {
			set := map[string]bool{}
			for _, line := range w.Header().Values("Allow") {
				for _, f := range strings.Split(line, ",") {
					if f = strings.TrimSpace(f); f != "" {
						set[f] = true
					}
				}
			}
			var have []string
			for k := range set {
				have = append(have, k)
			}
			sort.Strings(have)
			if strings.Join(have, ",") != strings.Join(exp.allow, ",") {
				fail("Allow header: want exactly %v, got %v (%s)%s", exp.allow, have, got(), ctx())
			}
		}
	default:
		if len(h.calls) != 0 || w.Code != http.StatusNotFound {
			fail("no route of any method matches: want 404, got %s%s", got(), ctx())
		}
	}

	// tree cross-check with the cleaned path, as the router calls it
	if tr := h.trees[rq.method]; tr != nil {
		var res search.Result
		var ok bool
		if p := safely(func() { res, ok = tr.Search(cp) }); p != nil {
			fail("tree: Search(%q) panicked: %v%s", cp, p, ctx())
			return info
		}
		switch {
		case ok != (exp.kind == outDispatch):
			fail("tree: Search(%q) found=%v, reference says found=%v%s", cp, ok, exp.kind == outDispatch, ctx())
		case ok:
			if id, isInt := res.Item.(int); !isInt || id != exp.route.id {
				fail("tree: Search(%q) item #%v, reference chooses %v%s", cp, res.Item, exp.route, ctx())
			} else if !sameVars(res.Params, exp.vars) {
				fail("tree: Search(%q) params %s, reference %s%s", cp, renderVars(res.Params), renderVars(exp.vars), ctx())
			}
		}
	}
	return info
}

// runCase executes a whole case; it returns the canonical route table and the (sorted)
// requests of the case that are non-trivial by the rule in check.json.
func runCase(c caseT, st *verifkit.Stats, fail failFn) (table string, nt []string) {
	h := newHarness()
	m := &model{}
	// requests in serving order: by the number of registrations that precede them
	order := make([]int, len(c.reqs))
	for i := range order {
		order[i] = i
	}
	afterOf := func(i int) int {
		if c.after == nil {
			return len(c.regs)
		}
		return c.after[i]
	}
	sort.SliceStable(order, func(a, b int) bool { return afterOf(order[a]) < afterOf(order[b]) })
	next := 0
	served := 0
	serveOne := func(rq reqT) {
		info := h.serve(m, rq, fail)
		served++
		switch info.exp.kind {
		case outDispatch:
			st.Class("req:dispatched")
			if len(info.exp.vars) > 0 {
				st.Class("req:dispatched-with-vars")
			}
		case outNotAllowed:
			st.Class("req:405")
		default:
			st.Class("req:404")
		}
		if info.unclean {
			st.Class("req:path-needs-cleaning")
		}
		if info.exp.nmatch >= 2 {
			st.Class("req:multi-match")
		}
		if info.exp.deadEnd {
			st.Class("req:literal-dead-end")
		}
		if info.exp.nmatch >= 2 || info.exp.deadEnd {
			nt = append(nt, rq.method+" "+info.clean)
		}
	}
	for i, rg := range c.regs {
		for next < len(order) && afterOf(order[next]) <= i {
			serveOne(c.reqs[order[next]])
			next++
		}
		if served > 0 {
			st.Class("reg:after-serving")
		}
		ok := h.register(m, i, rg, fail)
		switch {
		case ok:
			st.Class("reg:accepted")
			if joinSegs(cleanSegs(rg.raw)) != rg.raw {
				st.Class("reg:accepted-raw-needs-cleaning")
			}
		case !isValidMethod(rg.method):
			st.Class("reg:rejected-method")
		case len(rg.raw) == 0 || rg.raw[0] != '/':
			st.Class("reg:rejected-no-leading-slash")
		default:
			st.Class("reg:rejected-duplicate")
		}
	}
	for ; next < len(order); next++ {
		serveOne(c.reqs[order[next]])
	}
	sort.Strings(nt)
	return m.table(), nt
}

func renderCase(table string, nt []string) string {
	return "routes[" + table + "] requests[" + strings.Join(nt, "; ") + "]"
}

// ---------------------------------------------------------------- hand-written examples

// The expectations below are written by hand from the statement (not computed by the
// reference matcher); the test holds both the matcher and the router to them.
func TestVerifC09Examples(t *testing.T) {
	logx.Disable()
	type want struct {
		method, path string
		kind         int
		route        int
		vars         map[string]string
		allow        []string
	}
	tables := []struct {
		regs  []regT
		wants []want
	}{
		{
			regs: []regT{{"GET", "/a/b"}, {"GET", "/a/:x"}, {"GET", "/:y/b/c"}, {"POST", "/a/b/c"}, {"GET", "/"}, {"DELETE", "/:y"}},
			wants: []want{
				{"GET", "/a/b", outDispatch, 0, nil, nil},
				{"GET", "/a/c", outDispatch, 1, map[string]string{"x": "c"}, nil},
				{"GET", "/a/b/c", outDispatch, 2, map[string]string{"y": "a"}, nil}, // literal a/b dead-ends
				{"GET", "//a/./b/", outDispatch, 0, nil, nil},
				{"GET", "/q/../a/z", outDispatch, 1, map[string]string{"x": "z"}, nil},
				{"GET", "/", outDispatch, 4, nil, nil},
				{"GET", "/../", outDispatch, 4, nil, nil},
				{"PUT", "/a/b/c", outNotAllowed, 0, nil, []string{"GET", "POST"}},
				{"POST", "/a/b", outNotAllowed, 0, nil, []string{"GET"}},
				{"PUT", "//a/./b/x/../c/", outNotAllowed, 0, nil, []string{"GET", "POST"}},
				{"TRACE", "/a", outNotAllowed, 0, nil, []string{"DELETE"}},
				{"DELETE", "/", outDispatch, 5, map[string]string{"y": ""}, nil}, // root = one empty segment
				{"POST", "/", outNotAllowed, 0, nil, []string{"DELETE", "GET"}},
				{"GET", "/x/y/z/w", outNotFound, 0, nil, nil},
				{"POST", "/a/b/c/d", outNotFound, 0, nil, nil},
			},
		},
		{
			regs: []regT{{"GET", "/a/:p/c"}, {"GET", "/:q/b/d"}, {"GET", "/a/b"}},
			wants: []want{
				{"GET", "/a/b/d", outDispatch, 1, map[string]string{"q": "a"}, nil}, // nothing left over from /a/:p
				{"GET", "/a/b/c", outDispatch, 0, map[string]string{"p": "b"}, nil},
				{"GET", "/a/b", outDispatch, 2, nil, nil},
				{"GET", "/a/b/e", outNotFound, 0, nil, nil},
			},
		},
	}
	for ti, tb := range tables {
		h := newHarness()
		m := &model{}
		fail := func(format string, a ...any) { t.Errorf("table %d: "+format, append([]any{ti}, a...)...) }
		for i, rg := range tb.regs {
			if !h.register(m, i, rg, fail) {
				t.Fatalf("table %d: example route %v not accepted by the model", ti, rg)
			}
		}
		for _, wn := range tb.wants {
			info := h.serve(m, reqT{wn.method, wn.path, ""}, fail)
			e := info.exp
			ok := e.kind == wn.kind
			if ok && wn.kind == outDispatch {
				ok = e.route.id == wn.route && sameVars(e.vars, wn.vars)
			}
			if ok && wn.kind == outNotAllowed {
				ok = strings.Join(e.allow, ",") == strings.Join(wn.allow, ",")
			}
			if !ok {
				t.Errorf("table %d: reference matcher disagrees with the hand-written expectation for %s %q: got kind=%d route=%v vars=%s allow=%v",
					ti, wn.method, wn.path, e.kind, e.route, renderVars(e.vars), e.allow)
			}
		}
	}
	// registration rules, by hand
	rt := router.NewRouter()
	nop := http.HandlerFunc(func(http.ResponseWriter, *http.Request) {})
	for _, c := range []struct {
		method, p string
		ok        bool
	}{
		{"GET", "/a/:x", true}, {"GET", "/a/:x", false}, {"POST", "/a/:x", true}, {"GET", "/a/:x/", false},
		{"GET", "a/b", false}, {"GET", "", false}, {"TRACE", "/t", false}, {"get", "/t", false}, {"GET", "/", true}, {"GET", "//", false},
	} {
		if err := rt.Handle(c.method, c.p, nop); (err == nil) != c.ok {
			t.Errorf("Handle(%q,%q): err=%v, want accepted=%v", c.method, c.p, err, c.ok)
		}
	}
}

// ---------------------------------------------------------------- rapid property

func TestVerifC09Router(t *testing.T) {
	logx.Disable()
	st := verifkit.New("router")
	defer st.Flush()
	sampled := false
	rapid.Check(t, func(t *rapid.T) {
		st.Eval()
		c := genCase(rapidSrc{t})
		st.ClassN("requests", len(c.reqs))
		st.ClassN("registrations", len(c.regs))
		table, nt := runCase(c, st, t.Fatalf)
		if len(nt) > 0 {
			st.NonTrivial(renderCase(table, nt))
		} else if !sampled {
			sampled = true
			st.Sample(fmt.Sprintf("(trivial) routes[%s] %d requests", table, len(c.reqs)))
		}
	})
}

// ---------------------------------------------------------------- concurrent serving

// The statement is per request, and a router serves requests of many connections at once:
// the verdict of a request must not depend on which other requests are in flight.  The
// table is registered first (sequentially, as the statement does not require registration
// to be concurrent with serving), the reference verdict of every request of a batch is
// computed once, then G goroutines fire requests of the batch at the one shared router and
// each compares what it got (handler id, variables, status, Allow set) with that verdict.

// verdictSig renders the reference verdict in the form observedSig produces.
func verdictSig(e expectT) string {
	switch e.kind {
	case outDispatch:
		return fmt.Sprintf("dispatched to [#%d] with [%s], status 299", e.route.id, renderVars(e.vars))
	case outNotAllowed:
		return fmt.Sprintf("405, Allow %v", e.allow)
	default:
		return "404"
	}
}

func observedSig(w *httptest.ResponseRecorder) string {
	if ids := w.Header().Values(hdrRoute); len(ids) > 0 {
		for i := range ids {
			ids[i] = "#" + ids[i]
		}
		return fmt.Sprintf("dispatched to [%s] with [%s], status %d", strings.Join(ids, " "),
			strings.Join(w.Header().Values(hdrVars), " "), w.Code)
	}
	if w.Code == http.StatusMethodNotAllowed {
		set := map[string]bool{}
		for _, line := range w.Header().Values("Allow") {
			for _, f := range strings.Split(line, ",") {
				if f = strings.TrimSpace(f); f != "" {
					set[f] = true
				}
			}
		}
		have := make([]string, 0, len(set))
		for k := range set {
			have = append(have, k)
		}
		sort.Strings(have)
		return fmt.Sprintf("405, Allow %v", have)
	}
	return strconv.Itoa(w.Code)
}

// lcg expands a rapid-drawn seed into a goroutine's private choice stream (rapid.T must not
// be used from several goroutines); the run is a function of the drawn values only, up to
// the scheduler.
type lcg uint64

func (x *lcg) intn(n int) int {
	*x = *x*6364136223846793005 + 1442695040888963407
	return int((uint64(*x) >> 33) % uint64(n))
}

func TestVerifC09Concurrent(t *testing.T) {
	logx.Disable()
	st := verifkit.New("concurrent")
	defer st.Flush()
	sampled := false
	rapid.Check(t, func(t *rapid.T) {
		st.Eval()
		src := rapidSrc{t}
		c := genCaseN(src, 20, 60)
		h := newHarness()
		m := &model{}
		for i, rg := range c.regs {
			h.register(m, i, rg, t.Fatalf)
		}
		// sequential pass: full oracle with messages; also fixes the verdicts
		want := make([]string, len(c.reqs))
		exps := make([]expectT, len(c.reqs))
		for i, rq := range c.reqs {
			exps[i] = h.serve(m, rq, t.Fatalf).exp
			want[i] = verdictSig(exps[i])
		}
		// hot set: requests with different cleaned paths that are dispatched inside ONE
		// method tree; goroutines pinned to different ones keep that tree's lookups overlapping
		byMethod := map[string][]int{}
		seenPath := map[string]bool{}
		for i, rq := range c.reqs {
			key := rq.method + " " + joinSegs(cleanSegs(rq.path))
			if exps[i].kind == outDispatch && !seenPath[key] {
				seenPath[key] = true
				byMethod[rq.method] = append(byMethod[rq.method], i)
			}
		}
		var hot []int
		for _, mth := range validMethods { // fixed order
			if len(byMethod[mth]) > len(hot) {
				hot = byMethod[mth]
			}
		}
		if len(hot) > 1 {
			keep := 2 + src.intn(min(len(hot), 4)-1, "hotSize")
			start := src.intn(len(hot)-keep+1, "hotStart")
			hot = hot[start : start+keep]
		}
		g := 4 + src.intn(13, "goroutines")
		rounds := 50 + src.intn(351, "rounds")
		hotPct := []int{90, 100, 50, 0}[src.intn(4, "hotPct")]
		if len(hot) < 2 {
			hotPct = 0
		}
		jitter := src.intn(3, "jitter") // 0 none, 1 Gosched now and then, 2 Gosched after every request
		seeds := make([]lcg, g)
		for i := range seeds {
			seeds[i] = lcg(rapid.Uint64().Draw(t, "goroutineSeed"))
		}

		var (
			wg       sync.WaitGroup
			stop     atomic.Bool
			fired    atomic.Int64
			mu       sync.Mutex
			firstBad string
		)
		h.concurrent = true
		for gi := 0; gi < g; gi++ {
			wg.Add(1)
			go func(gi int, rnd lcg) {
				defer wg.Done()
				for n := 0; n < rounds && !stop.Load(); n++ {
					idx := rnd.intn(len(c.reqs))
					if hotPct > 0 && rnd.intn(100) < hotPct {
						idx = hot[gi%len(hot)]
					}
					rq := c.reqs[idx]
					w := httptest.NewRecorder()
					var got string
					if p := safely(func() { h.rt.ServeHTTP(w, newRequest(rq)) }); p != nil {
						got = fmt.Sprintf("panic: %v", p)
					} else {
						got = observedSig(w)
					}
					fired.Add(1)
					if got != want[idx] {
						mu.Lock()
						if firstBad == "" {
							firstBad = fmt.Sprintf("goroutine %d, its request no. %d: %s %q (cleaned %q)\n  got:  %s\n  want: %s",
								gi, n, rq.method, rq.path, joinSegs(cleanSegs(rq.path)), got, want[idx])
						}
						mu.Unlock()
						stop.Store(true)
						return
					}
					if jitter == 2 || jitter == 1 && rnd.intn(4) == 0 {
						runtime.Gosched()
					}
				}
			}(gi, seeds[gi])
		}
		wg.Wait()
		h.concurrent = false
		st.ClassN("concurrent-requests", int(fired.Load()))
		if firstBad != "" {
			var hs []string
			for _, i := range hot {
				hs = append(hs, c.reqs[i].method+" "+c.reqs[i].path)
			}
			t.Fatalf("concurrent serving: a request got another verdict than the same request served alone (after %d concurrent requests; %d goroutines x %d requests, GOMAXPROCS=%d, hot %d%% on %v, jitter %d)\n%s\nroutes: %s\nhistory: %s",
				fired.Load(), g, rounds, runtime.GOMAXPROCS(0), hotPct, hs, jitter, firstBad, m.table(), strings.Join(m.regLog, "; "))
		}
		// after the storm: the same requests, alone again (state left behind by overlapping lookups)
		for _, rq := range c.reqs {
			h.serve(m, rq, func(format string, a ...any) {
				t.Fatalf("after %d concurrent requests, served alone again: "+format, append([]any{fired.Load()}, a...)...)
			})
		}

		// coverage bookkeeping
		routesOf := map[string]map[int]bool{} // method -> dispatched route ids in the batch
		valuesOf := map[int]map[string]bool{} // route id -> distinct variable bindings
		has404, has405 := false, false
		for i, rq := range c.reqs {
			switch exps[i].kind {
			case outDispatch:
				if routesOf[rq.method] == nil {
					routesOf[rq.method] = map[int]bool{}
				}
				routesOf[rq.method][exps[i].route.id] = true
				if valuesOf[exps[i].route.id] == nil {
					valuesOf[exps[i].route.id] = map[string]bool{}
				}
				valuesOf[exps[i].route.id][renderVars(exps[i].vars)] = true
			case outNotAllowed:
				has405 = true
			default:
				has404 = true
			}
		}
		multiRoute, multiValue := false, false
		for _, rs := range routesOf {
			if len(rs) >= 2 {
				multiRoute = true
			}
		}
		for _, vs := range valuesOf {
			if len(vs) >= 2 {
				multiValue = true
			}
		}
		if multiRoute {
			st.Class("batch:several-routes-of-one-method")
		}
		if multiValue {
			st.Class("batch:one-route-several-variable-values")
		}
		if has404 {
			st.Class("batch:has-404")
		}
		if has405 {
			st.Class("batch:has-405")
		}
		if hotPct > 0 {
			st.Class("plan:hot-set")
		}
		desc := fmt.Sprintf("routes[%s] batch of %d requests, %d goroutines x %d, hot %d%% of %d, jitter %d",
			m.table(), len(c.reqs), g, rounds, hotPct, len(hot), jitter)
		if multiRoute {
			st.NonTrivial(desc)
		} else if !sampled {
			sampled = true
			st.Sample("(trivial) " + desc)
		}
	})
}

// ---------------------------------------------------------------- native fuzz target

func fuzzing() bool {
	f := flag.Lookup("test.fuzz")
	return f != nil && f.Value.String() != ""
}

// FuzzVerifC09Router decodes the input bytes with the same generator (one byte per
// choice) and applies the same reference-matcher oracle.  Quick tier: seed corpus only.
func FuzzVerifC09Router(f *testing.F) {
	logx.Disable()
	st := verifkit.New("fuzz")
	defer st.Flush()
	campaign := fuzzing() // the driver counts a campaign's executions itself
	sampled := false
	f.Add([]byte{})
	f.Add([]byte{3, 0, 0, 0, 2, 0, 1, 0, 0, 0, 1, 3, 0, 0, 0, 0, 4, 0, 2, 1, 0, 0, 3, 1, 0, 1, 2, 0, 0, 0})
	f.Add([]byte("\x0c\x13\x04\x03\x02\x01\x00\x07\x06\x05\x04\x03\x02\x01\x09\x08\x07\x10\x11\x12\x0f\x0e\x0d\x0c\x0b\x0a\x09\x08\x07\x06\x05\x04\x03\x02\x01"))
	f.Fuzz(func(t *testing.T, data []byte) {
		if !campaign {
			st.Eval()
		}
		c := genCase(&byteSrc{b: data})
		st.ClassN("requests", len(c.reqs))
		table, nt := runCase(c, st, t.Fatalf)
		if len(nt) > 0 {
			st.NonTrivial(renderCase(table, nt))
		} else if !sampled {
			sampled = true
			st.Sample(fmt.Sprintf("(trivial) routes[%s] %d requests", table, len(c.reqs)))
		}
	})
}

// recSrc records the choices of another source as bytes; the record decodes (through
// byteSrc) to the same case, which is how the fuzz seed corpus in corpus/ was produced.
type recSrc struct {
	inner source
	rec   []byte
}

func (s *recSrc) intn(n int, label string) int {
	v := s.inner.intn(n, label)
	if n > 1 {
		s.rec = append(s.rec, byte(v))
	}
	return v
}

// TestVerifC09DumpSeeds is a development aid (not part of any unit): with
// VERIF_C09_DUMPSEEDS=<dir> it writes non-trivial generated cases as fuzz corpus files.
func TestVerifC09DumpSeeds(t *testing.T) {
	dir := os.Getenv("VERIF_C09_DUMPSEEDS")
	if dir == "" {
		t.Skip("development aid")
	}
	logx.Disable()
	st := verifkit.New("dumpseeds")
	n := 0
	rapid.Check(t, func(t *rapid.T) {
		rs := &recSrc{inner: rapidSrc{t}}
		c := genCase(rs)
		_, nt := runCase(c, st, t.Fatalf)
		if len(nt) < 2 || n >= 24 || len(rs.rec) > 400 {
			return
		}
		n++
		body := fmt.Sprintf("go test fuzz v1\n[]byte(%q)\n", string(rs.rec))
		if err := os.WriteFile(filepath.Join(dir, fmt.Sprintf("seed-%02d", n)), []byte(body), 0o644); err != nil {
			t.Fatalf("write: %v", err)
		}
	})
}

// ---------------------------------------------------------------- exhaustive small tables

// TestVerifC09Exhaustive enumerates every table of at most VERIF_MAXROUTES routes over
// {GET,POST} x (patterns of 0..3 segments over {a, variable}) and sends every request of
// {GET,POST,PUT} x (paths of 0..4 segments over {a,b}).  Sharded by table index.
func TestVerifC09Exhaustive(t *testing.T) {
	logx.Disable()
	st := verifkit.New("exhaustive")
	defer st.Flush()
	maxRoutes := verifkit.EnvInt("maxroutes", 2)
	st.Sample(fmt.Sprintf("(enumeration) every table of <= %d routes over {GET,POST} x patterns of <= 3 segments over {a, variable}", maxRoutes))
	shard, shards := verifkit.EnvInt("shard", 0), verifkit.EnvInt("shards", 1)
	if shards < 1 {
		shards = 1
	}

	var pats [][]string
	var rec func(k []string)
	rec = func(k []string) {
		pats = append(pats, append([]string(nil), k...))
		if len(k) == 3 {
			return
		}
		rec(append(k, "a"))
		rec(append(k, varKind))
	}
	rec(nil)
	var universe []regT
	for _, mth := range []string{"GET", "POST"} {
		for _, k := range pats {
			universe = append(universe, regT{mth, joinSegs(patternSegs(k))})
		}
	}
	var reqs []reqT
	var prec func(segs []string)
	prec = func(segs []string) {
		p := "/" + strings.Join(segs, "/")
		for _, mth := range []string{"GET", "POST", "PUT"} {
			reqs = append(reqs, reqT{mth, p, ""})
		}
		if len(segs) == 4 {
			return
		}
		prec(append(append([]string(nil), segs...), "a"))
		prec(append(append([]string(nil), segs...), "b"))
	}
	prec(nil)

	failed := false
	fail := func(format string, a ...any) {
		if !failed {
			t.Errorf(format, a...)
		}
		failed = true
	}
	index := 0
	var walk func(start int, chosen []int)
	walk = func(start int, chosen []int) {
		if failed {
			return
		}
		if index%shards == shard {
			st.Eval()
			c := caseT{reqs: reqs}
			for i := range chosen {
				j := i
				if index%2 == 1 { // registration order must not matter: alternate
					j = len(chosen) - 1 - i
				}
				c.regs = append(c.regs, universe[chosen[j]])
			}
			st.ClassN("requests", len(reqs))
			if table, nt := runCase(c, st, fail); len(nt) > 0 {
				st.NonTrivial(fmt.Sprintf("routes[%s] (%d of %d requests non-trivial)", table, len(nt), len(reqs)))
			}
		}
		index++
		if len(chosen) == maxRoutes {
			return
		}
		for i := start; i < len(universe); i++ {
			walk(i+1, append(chosen, i))
		}
	}
	walk(0, nil)
	if shard == 0 {
		st.Note("%d patterns x 2 methods, tables of <= %d routes: %d tables in total, shard %d/%d; %d requests per table",
			len(pats), maxRoutes, index, shard, shards, len(reqs))
	}
}
