//go:build verif

// C09, unit forward — handlers that call BACK INTO THE SAME ROUTER.
//
// An internal forward / rewrite (`rt.ServeHTTP(w, r2)` with r2 made from the request the handler
// received), a versioned alias that dispatches to the canonical route, a fallback from a variable
// route to a literal one: in all of them the request that is passed on carries the OUTER route's
// context, and with it whatever the router attached for the outer route.  In the other units of the
// check the handlers only record.
//
// One case = a generated route table (generator of c09_test.go; in half of the cases the variables
// are renamed to `v<depth>`, which is still one name per position under a prefix, so that routes
// under different literal prefixes share names as `/a/:id` and `/b/:id` do) in which about one
// accepted route in three carries a FORWARD plan (how the inner request is made: Clone /
// WithContext + copied URL / a new request with the outer context / the received request itself
// with Method and URL.Path rewritten in place; on which writer: the handler's own ResponseWriter
// or a fresh recorder; target method + path: a request of the ordinary request generator, or the
// route's own / another pattern of the table filled with fresh segments), plus 1-5 top-level
// requests.  A handler with a plan records pathvar.Vars(r), makes the inner request, serves it
// through the same router, and records pathvar.Vars(r) of ITS OWN request again.  Chains are bounded
// (at most 3 forwards are open at a time) and acyclic (a forward whose target the reference matcher
// sends to a route that is already on the chain is not made).
//
// Oracle (statement of C09, applied to EVERY request of a chain on its own, for ITS method and
// cleaned path, against the reference matcher of c09_test.go): which handler ran; the variables it
// received are exactly the reference binding of that route (no variable of an outer route leaking
// in, none missing); 405 + Allow set / 404 for inner misses, observed on the writer that level
// handed to the router (a tap that remembers the first status written through it), never on the
// combined top-level recorder; and the variables of a handler's own request are the same before and
// after the inner dispatch (what the router delivered stays delivered; also the map object that
// Vars returned first still has the same contents).
package router_test

import (
	"fmt"
	"net/http"
	"net/http/httptest"
	"path"
	"regexp"
	"sort"
	"strings"
	"testing"

	"github.com/zeromicro/go-zero/core/logx"
	"github.com/zeromicro/go-zero/internal/verifkit"
	"github.com/zeromicro/go-zero/rest/pathvar"
	"pgregory.net/rapid"
)

const fwdMaxOpen = 3 // forwards open at a time on one chain

// Finding C09-F1 (see FINDINGS.md): a request whose context already carries path variables and
// that is dispatched to a route binding none keeps the outer variables.  Only when the finding is
// listed with status "known" in /verif/known_findings.json are such forwards left out (by
// construction, counted as excluded); a finding that is not listed excludes nothing.
const fwdFindingID = "C09-F1"

const (
	fwdClone = iota
	fwdWithContext
	fwdNewRequest
	fwdInPlace
)

const (
	fwdSameWriter = iota
	fwdFreshWriter
)

var (
	fwdHowNames    = []string{"clone", "withcontext", "newrequest", "inplace"}
	fwdWriterNames = []string{"same-writer", "fresh-writer"}
)

type fwdPlan struct {
	how, writer  int
	method, path string
}

func (p *fwdPlan) String() string {
	return fmt.Sprintf("[%s,%s] %s %q", fwdHowNames[p.how], fwdWriterNames[p.writer], p.method, p.path)
}

type fwdCase struct {
	regs  []regT
	plans map[int]*fwdPlan // by index into regs
	reqs  []reqT           // top-level requests
}

// ---------------------------------------------------------------- generator

var fwdVarSeg = regexp.MustCompile(`/:v([0-9]+)[^/]*`)

// fwdFill turns a cleaned pattern into request segments: variables get a generated segment,
// literals stay (now and then one is replaced).
func fwdFill(s source, pat []string) []string {
	out := make([]string, len(pat))
	for i, p := range pat {
		if isVar(p) || (p != "" && s.intn(8, "fillEdit") == 7) {
			out[i] = genReqSeg(s)
		} else {
			out[i] = p
		}
	}
	return out
}

func genFwdCase(s source) fwdCase {
	base := genCaseN(s, 4, 10) // the requests are the pool for top-level requests and forward targets
	c := fwdCase{regs: base.regs, plans: map[int]*fwdPlan{}}
	if s.intn(2, "shortNames") == 1 {
		for i := range c.regs {
			c.regs[i].raw = fwdVarSeg.ReplaceAllString(c.regs[i].raw, "/:v$1")
		}
	}
	type cand struct {
		idx    int
		method string
		segs   []string
	}
	var cands []cand // registrations that can be accepted (duplicates included; harmless)
	for i, rg := range c.regs {
		if isValidMethod(rg.method) && len(rg.raw) > 0 && rg.raw[0] == '/' {
			cands = append(cands, cand{i, rg.method, cleanSegs(rg.raw)})
		}
	}
	var forwarding []cand
	for _, cd := range cands {
		if s.intn(3, "forward") == 0 {
			forwarding = append(forwarding, cd)
		}
	}
	if len(forwarding) == 0 && len(cands) > 0 { // no case without a forwarding route when there are routes
		forwarding = append(forwarding, cands[s.intn(len(cands), "forwardAtLeast")])
	}
	for fi, cd := range forwarding {
		p := &fwdPlan{how: s.intn(4, "how"), writer: s.intn(2, "writer")}
		switch mode := s.intn(6, "targetMode"); {
		case mode <= 1: // an ordinary generated request
			rq := base.reqs[s.intn(len(base.reqs), "targetOf")]
			p.method, p.path = rq.method, rq.path
		default:
			// the route's own pattern (a literal sibling may take it; another method gives 405), the
			// pattern of any route, or the pattern of another forwarding route (chains), filled afresh
			from := cd
			switch {
			case mode == 3:
				from = cands[s.intn(len(cands), "targetPattern")]
			case mode >= 4 && len(forwarding) > 1: // another one
				from = forwarding[(fi+1+s.intn(len(forwarding)-1, "targetForwarding"))%len(forwarding)]
			}
			p.path = dirtyPath(s, fwdFill(s, from.segs))
			switch m := s.intn(6, "targetMethod"); {
			case m <= 2 || (m == 3 && mode != 2):
				p.method = from.method
			case m == 3:
				p.method = cands[s.intn(len(cands), "targetMethodOf")].method
			case m == 4:
				p.method = cd.method
			default:
				p.method = genMethod(s)
			}
		}
		c.plans[cd.idx] = p
	}
	ntop := 1 + s.intn(5, "ntop")
	for i := 0; i < ntop; i++ {
		if len(forwarding) > 0 && s.intn(4, "topMode") != 0 { // aim at a forwarding route
			cd := forwarding[s.intn(len(forwarding), "topOf")]
			q := []string{"", "", "a=b"}[s.intn(3, "topQuery")]
			c.reqs = append(c.reqs, reqT{cd.method, dirtyPath(s, fwdFill(s, cd.segs)), q})
		} else {
			c.reqs = append(c.reqs, base.reqs[s.intn(len(base.reqs), "topPool")])
		}
	}
	return c
}

// ---------------------------------------------------------------- system under test

// tapWriter remembers the first status written through it.
type tapWriter struct {
	http.ResponseWriter
	code int
}

func (t *tapWriter) WriteHeader(code int) {
	if t.code == 0 {
		t.code = code
	}
	t.ResponseWriter.WriteHeader(code)
}

func (t *tapWriter) Write(b []byte) (int, error) {
	if t.code == 0 {
		t.code = http.StatusOK
	}
	return t.ResponseWriter.Write(b)
}

// fwdHop is one request handed to the router (top-level or by a forwarding handler).
type fwdHop struct {
	plan         *fwdPlan // nil for a top-level request
	method, path string
	calls        []*fwdInv // handler invocations this dispatch caused directly
	panicked     any
	status       int // first status written through the writer handed to the router; 0 = none
	observable   bool
	allow        []string
}

// fwdInv is one handler invocation.
type fwdInv struct {
	id        int
	before    map[string]string // snapshot of pathvar.Vars(r) on entry
	after     map[string]string // snapshot of pathvar.Vars(r) after the inner dispatch (or at the end)
	liveAfter map[string]string // contents, at the end, of the map object Vars(r) returned on entry
	fwd       *fwdHop
}

type fwdHarness struct {
	*harness
	m     *model
	plans map[int]*fwdPlan
	st    *verifkit.Stats
	known bool     // finding C09-F1 listed as known: its signature is left out
	stack []int    // routes whose handlers are waiting for an inner dispatch, outermost first
	cur   *fwdHop  // the dispatch whose handler invocations are being collected
	notes []string // skipped forwards of the current top-level request
}

func newFwdHarness(st *verifkit.Stats, plans map[int]*fwdPlan) *fwdHarness {
	return &fwdHarness{harness: newHarness(), m: &model{}, plans: plans, st: st,
		known: verifkit.KnownFindings("C09")[fwdFindingID]}
}

func copyVars(v map[string]string) map[string]string {
	out := make(map[string]string, len(v))
	for k, x := range v {
		out[k] = x
	}
	return out
}

func (f *fwdHarness) onChain(id int) bool {
	for _, x := range f.stack {
		if x == id {
			return true
		}
	}
	return false
}

func fwdInner(r *http.Request, p *fwdPlan) *http.Request {
	switch p.how {
	case fwdClone:
		r2 := r.Clone(r.Context())
		r2.Method, r2.URL.Path, r2.URL.RawPath = p.method, p.path, ""
		return r2
	case fwdWithContext:
		r2 := r.WithContext(r.Context()) // shallow: the URL is shared, so it is copied before the edit
		u := *r.URL
		u.Path, u.RawPath = p.path, ""
		r2.URL, r2.Method = &u, p.method
		return r2
	case fwdNewRequest:
		r2, err := http.NewRequestWithContext(r.Context(), http.MethodGet, "http://verif.test/", nil)
		if err != nil {
			panic(err)
		}
		r2.Method, r2.URL.Path = p.method, p.path
		return r2
	default: // rewrite in place: the request the router delivered goes back in
		r.Method, r.URL.Path, r.URL.RawPath = p.method, p.path, ""
		return r
	}
}

func (f *fwdHarness) handler(id int) http.Handler {
	return http.HandlerFunc(func(w http.ResponseWriter, r *http.Request) {
		live := pathvar.Vars(r)
		inv := &fwdInv{id: id, before: copyVars(live)}
		hop := f.cur
		hop.calls = append(hop.calls, inv)
		plan := f.plans[id]
		forward := false
		if plan != nil {
			exp := f.m.expect(plan.method, cleanSegs(plan.path))
			switch {
			case len(f.stack) >= fwdMaxOpen:
				f.st.Class("forward not made: 3 forwards already open")
				f.notes = append(f.notes, fmt.Sprintf("#%d: not forwarded (3 open)", id))
			case exp.kind == outDispatch && (exp.route.id == id || f.onChain(exp.route.id)):
				f.st.Class("forward not made: target route already on the chain")
				f.notes = append(f.notes, fmt.Sprintf("#%d: not forwarded (cycle)", id))
			case f.known && exp.kind == outDispatch && len(exp.vars) == 0 && len(live) > 0:
				f.st.Excluded()
				f.notes = append(f.notes, fmt.Sprintf("#%d: not forwarded (%s)", id, fwdFindingID))
			default:
				forward = true
			}
		}
		if forward {
			inner := &fwdHop{plan: plan, method: plan.method, path: plan.path}
			inv.fwd = inner
			m0, p0, rp0 := r.Method, r.URL.Path, r.URL.RawPath
			r2 := fwdInner(r, plan)
			var w2 http.ResponseWriter
			var tap *tapWriter
			if plan.writer == fwdSameWriter {
				w2 = w
				tap, _ = w.(*tapWriter)
			} else {
				tap = &tapWriter{ResponseWriter: httptest.NewRecorder()}
				w2 = tap
			}
			f.stack = append(f.stack, id)
			f.cur = inner
			inner.panicked = safely(func() { f.rt.ServeHTTP(w2, r2) })
			f.cur = hop
			f.stack = f.stack[:len(f.stack)-1]
			if tap != nil {
				inner.status, inner.observable = tap.code, true
			}
			inner.allow = append([]string(nil), w2.Header().Values("Allow")...)
			if plan.how == fwdInPlace {
				r.Method, r.URL.Path, r.URL.RawPath = m0, p0, rp0
			}
		}
		inv.after = copyVars(pathvar.Vars(r))
		inv.liveAfter = copyVars(live)
		if !forward || plan.writer == fwdFreshWriter {
			w.WriteHeader(299) // a forward on the handler's own writer leaves the answer to the inner request
		}
	})
}

func (f *fwdHarness) register(id int, rg regT, fail failFn) bool {
	accept, why := f.m.register(id, rg.method, rg.raw)
	var err error
	if p := safely(func() { err = f.rt.Handle(rg.method, rg.raw, f.handler(id)) }); p != nil {
		fail("Handle(%q,%q) panicked: %v\nhistory: %s", rg.method, rg.raw, p, strings.Join(f.m.regLog, "; "))
		return accept
	}
	if accept && err != nil {
		fail("registration: Handle(%q,%q) returned %v but it is a new route with a supported method and a pattern starting with '/'\nhistory: %s",
			rg.method, rg.raw, err, strings.Join(f.m.regLog, "; "))
	}
	if !accept && err == nil {
		fail("registration: Handle(%q,%q) was accepted; the statement wants it rejected (%s)\nhistory: %s",
			rg.method, rg.raw, why, strings.Join(f.m.regLog, "; "))
	}
	return accept
}

// serve sends one top-level request and returns what was observed.
func (f *fwdHarness) serve(rq reqT) *fwdHop {
	hop := &fwdHop{method: rq.method, path: rq.path}
	tap := &tapWriter{ResponseWriter: httptest.NewRecorder()}
	f.cur, f.stack, f.notes = hop, f.stack[:0], nil
	hop.panicked = safely(func() { f.rt.ServeHTTP(tap, newRequest(rq)) })
	f.cur = nil
	hop.status, hop.observable = tap.code, true
	hop.allow = append([]string(nil), tap.Header().Values("Allow")...)
	return hop
}

// render: `GET "/u/1" => #0{id="1"} -> [clone,same-writer] GET "/v/7" => #1{id="7"} (status 299);
// back in #0{id="1"} (status 299)`
func (hop *fwdHop) render(b *strings.Builder) {
	fmt.Fprintf(b, "%s %q =>", hop.method, hop.path)
	if hop.panicked != nil {
		fmt.Fprintf(b, " PANIC(%v)", hop.panicked)
	}
	if len(hop.calls) == 0 {
		b.WriteString(" no handler")
	}
	for _, inv := range hop.calls {
		fmt.Fprintf(b, " #%d%s", inv.id, renderVars(inv.before))
		if inv.fwd != nil {
			fmt.Fprintf(b, " -> [%s,%s] ", fwdHowNames[inv.fwd.plan.how], fwdWriterNames[inv.fwd.plan.writer])
			inv.fwd.render(b)
			fmt.Fprintf(b, "; back in #%d%s", inv.id, renderVars(inv.after))
		}
	}
	if !hop.observable {
		b.WriteString(" (status not observable)")
	} else if len(hop.allow) > 0 {
		fmt.Fprintf(b, " (status %d, Allow %v)", hop.status, allowSet(hop.allow))
	} else {
		fmt.Fprintf(b, " (status %d)", hop.status)
	}
}

func (hop *fwdHop) String() string {
	var b strings.Builder
	hop.render(&b)
	return b.String()
}

func allowSet(lines []string) []string {
	set := map[string]bool{}
	for _, line := range lines {
		for _, x := range strings.Split(line, ",") {
			if x = strings.TrimSpace(x); x != "" {
				set[x] = true
			}
		}
	}
	have := make([]string, 0, len(set))
	for k := range set {
		have = append(have, k)
	}
	sort.Strings(have)
	return have
}

// fwdChainInfo is what judge reports about one top-level request.
type fwdChainInfo struct {
	forwards   int  // forwards made along the chain
	nontrivial bool // by the rule in check.json
}

// judge holds one request of a chain, and recursively the requests forwarded from its handler,
// to the reference matcher.  enclosing = the handler invocations the request was forwarded through.
func (f *fwdHarness) judge(hop *fwdHop, enclosing []*fwdInv, info *fwdChainInfo, fail func(clause, format string, a ...any)) {
	level := len(enclosing)
	segs := cleanSegs(hop.path)
	cp := joinSegs(segs)
	if std := path.Clean(hop.path); std != cp {
		fail("oracle self-check", "own cleaner gives %q, path.Clean gives %q for path %q", cp, std, hop.path)
	}
	exp := f.m.expect(hop.method, segs)
	where := fmt.Sprintf("level %d request %s %q (cleaned %q)", level, hop.method, hop.path, cp)
	if hop.panicked != nil {
		fail("panic", "%s: ServeHTTP panicked: %v", where, hop.panicked)
		return
	}
	inner := level > 0
	if inner {
		info.forwards++
		f.st.Class("forward: " + fwdHowNames[hop.plan.how])
		f.st.Class("forward: " + fwdWriterNames[hop.plan.writer])
		for _, r := range f.m.routes {
			if r.id == enclosing[level-1].id && r.method != hop.method {
				f.st.Class("inner: method differs from the outer request's")
			}
		}
		if exp.nmatch >= 2 {
			f.st.Class("inner: literal-over-variable choice (>=2 routes match)")
		}
		if exp.deadEnd {
			f.st.Class("inner: literal dead end")
		}
	}
	switch exp.kind {
	case outDispatch:
		if len(hop.calls) != 1 || hop.calls[0].id != exp.route.id {
			fail("dispatch", "%s: want the handler of route %v (of %d matching) to run once, observed %s", where, exp.route, exp.nmatch, hop)
			return
		}
		inv := hop.calls[0]
		if inner {
			f.st.Class("inner: dispatched")
			outerHasVars, shared := false, false
			for _, e := range enclosing {
				if len(e.before) > 0 {
					outerHasVars = true
				}
				for k, v := range e.before {
					if w, ok := exp.vars[k]; ok && w != v {
						shared = true
					}
				}
			}
			switch {
			case shared:
				f.st.Class("inner: same variable name as an outer route, different value")
				info.nontrivial = true
			case outerHasVars && len(exp.vars) > 0:
				f.st.Class("inner: outer and inner route both bind variables")
			case outerHasVars:
				f.st.Class("inner: route without variables under an outer route with variables")
			}
		}
		if !sameVars(inv.before, exp.vars) {
			leak := ""
			for _, e := range enclosing {
				for k, v := range e.before {
					if w, ok := inv.before[k]; ok && w == v {
						if _, bound := exp.vars[k]; !bound {
							leak = fmt.Sprintf(" (%s=%q is a variable of the outer route #%d)", k, v, e.id)
						}
					}
				}
			}
			fail("path variables", "%s: route %v binds %s, its handler received %s%s", where, exp.route, renderVars(exp.vars), renderVars(inv.before), leak)
			return
		}
		if !sameVars(inv.after, inv.before) {
			fail("path variables", "%s: the handler of route %v received %s, after the request it forwarded had been served pathvar.Vars of its own request is %s",
				where, exp.route, renderVars(inv.before), renderVars(inv.after))
			return
		}
		if !sameVars(inv.liveAfter, inv.before) {
			fail("path variables", "%s: the map pathvar.Vars handed to the handler of route %v held %s, after the request it forwarded had been served it holds %s",
				where, exp.route, renderVars(inv.before), renderVars(inv.liveAfter))
			return
		}
		if terminal := inv.fwd == nil || inv.fwd.plan.writer == fwdFreshWriter; terminal && hop.observable && hop.status != 299 {
			fail("dispatch", "%s: the handler of route %v answers 299 itself, the writer it was given saw status %d", where, exp.route, hop.status)
			return
		}
		if inv.fwd != nil {
			f.judge(inv.fwd, append(enclosing, inv), info, fail)
		}
	case outNotAllowed:
		if inner {
			f.st.Class("inner: 405")
			info.nontrivial = true
		}
		if len(hop.calls) != 0 || (hop.observable && hop.status != http.StatusMethodNotAllowed) {
			fail("405", "%s: no route of method %q matches but %v do: want 405 and no handler, observed %s", where, hop.method, exp.allow, hop)
			return
		}
		if have := allowSet(hop.allow); strings.Join(have, ",") != strings.Join(exp.allow, ",") {
			fail("Allow", "%s: want Allow to list exactly %v, got %v", where, exp.allow, have)
		}
	default:
		if inner {
			f.st.Class("inner: 404")
			info.nontrivial = true
		}
		if len(hop.calls) != 0 || (hop.observable && hop.status != http.StatusNotFound) {
			fail("404", "%s: no route of any method matches: want 404 and no handler, observed %s", where, hop)
		}
	}
}

func (f *fwdHarness) plansText() string {
	ids := make([]int, 0, len(f.plans))
	for id := range f.plans {
		ids = append(ids, id)
	}
	sort.Ints(ids)
	var out []string
	for _, id := range ids {
		out = append(out, fmt.Sprintf("#%d -> %v", id, f.plans[id]))
	}
	return strings.Join(out, "; ")
}

// routesText lists the accepted routes with their ids (the plans refer to them).
func (f *fwdHarness) routesText() string {
	rs := make([]string, len(f.m.routes))
	for i, r := range f.m.routes {
		rs[i] = r.String()
	}
	return strings.Join(rs, "; ")
}

// runFwdCase executes a case; it returns the canonical table and the rendered non-trivial chains.
func runFwdCase(c fwdCase, st *verifkit.Stats, fatal failFn) (table string, nt []string) {
	f := newFwdHarness(st, c.plans)
	for i, rg := range c.regs {
		if !f.register(i, rg, fatal) {
			delete(f.plans, i)
		}
	}
	st.ClassN("routes with a forward", len(f.plans))
	for _, rq := range c.reqs {
		hop := f.serve(rq)
		info := &fwdChainInfo{}
		failed := false
		f.judge(hop, nil, info, func(clause, format string, a ...any) {
			if failed {
				return
			}
			failed = true
			fatal("%s: "+format+"\nchain observed: %s\nnot forwarded: %v\nroutes: %s\nforwards: %s\nhistory: %s",
				append(append([]any{clause}, a...), hop, f.notes, f.routesText(), f.plansText(), strings.Join(f.m.regLog, "; "))...)
		})
		st.Class(fmt.Sprintf("chain: %d forwards", info.forwards))
		if info.nontrivial {
			nt = append(nt, hop.String())
		}
	}
	sort.Strings(nt)
	return f.m.table(), nt
}

// ---------------------------------------------------------------- hand-written examples

// The expected chains are written by hand from the statement, not computed by the reference
// matcher; the test holds the harness (rendered observation) and the judge to them.
func TestVerifC09ForwardExamples(t *testing.T) {
	logx.Disable()
	st := verifkit.New("forward-examples")
	regs := []regT{
		{"GET", "/u/:id"},    // 0: alias of /v/<7>
		{"GET", "/v/:id"},    // 1
		{"GET", "/w/:id"},    // 2: forwards as PUT -> 405
		{"GET", "/x/:id"},    // 3: forwards to a path nobody serves -> 404
		{"GET", "/y/:id"},    // 4: rewrites itself in place to /u/5 -> chain of two
		{"POST", "/v/:id"},   // 5
		{"GET", "/v/lit"},    // 6: literal sibling of #1
		{"GET", "/t/:id/:k"}, // 7: falls back to the literal sibling /v/lit's neighbour /v/<k>
		{"PUT", "/:any/p"},   // 8: forwards to /u/:id, three levels in all
	}
	plans := map[int]*fwdPlan{
		0: {fwdClone, fwdSameWriter, "GET", "/v/7"},
		2: {fwdWithContext, fwdFreshWriter, "PUT", "/v//9/"},
		3: {fwdNewRequest, fwdSameWriter, "GET", "/nope/1/2"},
		4: {fwdInPlace, fwdFreshWriter, "GET", "/u/5"},
		7: {fwdClone, fwdFreshWriter, "GET", "/v/./lit"},
		8: {fwdWithContext, fwdSameWriter, "GET", "/y/8"},
	}
	wants := []struct{ method, path, chain string }{
		{"GET", "/v/3", `GET "/v/3" => #1{id="3"} (status 299)`},
		{"GET", "/u/1", `GET "/u/1" => #0{id="1"} -> [clone,same-writer] GET "/v/7" => #1{id="7"} (status 299); back in #0{id="1"} (status 299)`},
		{"GET", "/w/1", `GET "/w/1" => #2{id="1"} -> [withcontext,fresh-writer] PUT "/v//9/" => no handler (status 405, Allow [GET POST]); back in #2{id="1"} (status 299)`},
		{"GET", "/x/1", `GET "/x/1" => #3{id="1"} -> [newrequest,same-writer] GET "/nope/1/2" => no handler (status 404); back in #3{id="1"} (status 404)`},
		{"GET", "/y/1", `GET "/y/1" => #4{id="1"} -> [inplace,fresh-writer] GET "/u/5" => #0{id="5"} -> [clone,same-writer] GET "/v/7" => #1{id="7"} (status 299); back in #0{id="5"} (status 299); back in #4{id="1"} (status 299)`},
		{"GET", "/t/1/2", `GET "/t/1/2" => #7{id="1" k="2"} -> [clone,fresh-writer] GET "/v/./lit" => #6{} (status 299); back in #7{id="1" k="2"} (status 299)`},
		{"PUT", "/q/p", `PUT "/q/p" => #8{any="q"} -> [withcontext,same-writer] GET "/y/8" => #4{id="8"} -> [inplace,fresh-writer] GET "/u/5" => #0{id="5"} -> [clone,same-writer] GET "/v/7" => #1{id="7"} (status 299); back in #0{id="5"} (status 299); back in #4{id="8"} (status 299); back in #8{any="q"} (status 299)`},
	}
	f := newFwdHarness(st, plans)
	known := f.known
	f.known = false // the examples are always run in full; the known finding is reported, not hidden
	for i, rg := range regs {
		if !f.register(i, rg, t.Errorf) {
			t.Fatalf("example route %v not accepted by the model", rg)
		}
	}
	for _, wn := range wants {
		hop := f.serve(reqT{wn.method, wn.path, ""})
		leakOnly := true // every complaint of the judge is the known finding's signature
		var msgs []string
		f.judge(hop, nil, &fwdChainInfo{}, func(clause, format string, a ...any) {
			msg := clause + ": " + fmt.Sprintf(format, a...)
			msgs = append(msgs, msg)
			if !strings.Contains(msg, "is a variable of the outer route") {
				leakOnly = false
			}
		})
		if got := hop.String(); got == wn.chain && len(msgs) == 0 {
			continue
		} else if known && leakOnly && len(msgs) > 0 {
			st.KnownFinding(fwdFindingID, fmt.Sprintf("router: %s %q: %s", wn.method, wn.path, msgs[0]))
		} else {
			t.Errorf("%s %q:\n  observed: %s\n  by hand:  %s\n  judge: %v\n  routes: %s\n  forwards: %s", wn.method, wn.path, got, wn.chain, msgs, f.routesText(), f.plansText())
		}
	}
}

// TestVerifC09ForwardRegressF1 is the shrunk input of finding C09-F1 (FINDINGS.md) as a plain test:
// GET /:v0 forwards (Clone, same writer) to GET /a/a, a route that binds no variable; its handler
// must receive no variable.  Reported as KNOWN-FINDING instead of a failure only while the finding
// is listed with status "known" in known_findings.json.
func TestVerifC09ForwardRegressF1(t *testing.T) {
	logx.Disable()
	st := verifkit.New("forward-regress")
	reported := false
	for how := fwdClone; how <= fwdInPlace; how++ {
		f := newFwdHarness(st, map[int]*fwdPlan{1: {how, fwdSameWriter, "GET", "/a/a"}})
		known := f.known
		f.known = false
		for i, rg := range []regT{{"GET", "/a/a"}, {"GET", "/:v0"}} {
			f.register(i, rg, t.Errorf)
		}
		hop := f.serve(reqT{"GET", "/a", ""})
		want := fmt.Sprintf(`GET "/a" => #1{v0="a"} -> [%s,same-writer] GET "/a/a" => #0{} (status 299); back in #1{v0="a"} (status 299)`, fwdHowNames[how])
		if got := hop.String(); got == want {
			continue
		} else if leaked := strings.Replace(want, "#0{}", `#0{v0="a"}`, 1); known && got == leaked {
			if !reported {
				st.KnownFinding(fwdFindingID, "router: a forwarded request dispatched to a route without variables keeps the outer route's variables: "+got)
			}
			reported = true
		} else {
			t.Errorf("routes GET /a/a (#0), GET /:v0 (#1, forwards to GET /a/a):\n  observed: %s\n  by hand:  %s", got, want)
		}
	}
}

// ---------------------------------------------------------------- rapid property

func TestVerifC09Forward(t *testing.T) {
	logx.Disable()
	st := verifkit.New("forward")
	defer st.Flush()
	sampled := false
	rapid.Check(t, func(t *rapid.T) {
		st.Eval()
		c := genFwdCase(rapidSrc{t})
		st.ClassN("top-level requests", len(c.reqs))
		table, nt := runFwdCase(c, st, t.Fatalf)
		if len(nt) > 0 {
			st.NonTrivial("routes[" + table + "] chains[" + strings.Join(nt, " || ") + "]")
		} else if !sampled {
			sampled = true
			st.Sample(fmt.Sprintf("(trivial) routes[%s] %d top-level requests, %d forwarding routes", table, len(c.reqs), len(c.plans)))
		}
	})
}
