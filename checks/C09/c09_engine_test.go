//go:build verif

// C09, unit "engine" — the routing property of /verif/properties.jsonl C09 observed through
// the REST engine: route tables are handed to rest.NewServer(...).AddRoutes / AddRoute in
// groups with route options (WithPrefix, WithTimeout, WithMaxBytes, WithPriority, WithSSE), bound
// to the server's router the way Server.Start does it (engine.bindRoutes, no socket), and
// requests are sent through that router's ServeHTTP.
//
// The oracle is the reference matcher of c09_test.go (copied: this file lives in package
// rest, the other one in package router_test), applied to the FULL pattern of a route:
// the group prefix put in front of the route's own pattern ("WithPrefix adds group as a
// prefix to the route paths").  Checked: which route's handler ran (every route has an
// id), pathvar.Vars seen by that handler, else 405 + Allow (as a set) or the custom
// not-allowed handler, else 404 or the custom not-found handler; binding reports an error
// iff the whole table contains an unsupported method, a full pattern not starting with
// '/', or the same (method, cleaned full pattern) twice — inside one group or across
// groups.  The built-in middlewares of conf.Middlewares are switched all on (the
// defaults), all off, or a generated subset: requests that pass them (no body, no
// content encoding, deadlines of a minute) must be dispatched exactly the same.
//
// In-package only because engine.bindRoutes and Server.router are the way to get the
// assembled handler without listening (the package's own tests do the same).
package rest

import (
	"fmt"
	"net/http"
	"net/http/httptest"
	"net/url"
	"path"
	"sort"
	"strings"
	"sync"
	"testing"
	"time"

	"github.com/zeromicro/go-zero/core/logx"
	"github.com/zeromicro/go-zero/internal/verifkit"
	"github.com/zeromicro/go-zero/rest/pathvar"
	"github.com/zeromicro/go-zero/rest/router"
	"pgregory.net/rapid"
)

// ---------------------------------------------------------------- source of choices

type c9Src struct{ t *rapid.T }

// intn returns a value in [0,n); 0 is always the "simplest" choice.
func (s c9Src) intn(n int, label string) int {
	if n <= 1 {
		return 0
	}
	return rapid.IntRange(0, n-1).Draw(s.t, label)
}

// ---------------------------------------------------------------- case shape

const c9Var = "*" // a variable segment in a "kinds" vector; anything else is the literal itself

var (
	c9ValidMethods = []string{http.MethodGet, http.MethodPost, http.MethodPut, http.MethodDelete,
		http.MethodPatch, http.MethodHead, http.MethodOptions}
	c9BadMethods = []string{"TRACE", "CONNECT", "get", "", "FOO"}
	// pattern segments: the router unit's alphabet plus the prefix literals p and q, so that a
	// route of an unprefixed group can coincide with a prefixed one
	c9PatSegs = []string{"a", c9Var, "b", c9Var, "p", "c", "ab", c9Var, "q", "a"}
	c9ReqSegs = []string{"a", "b", "c", "ab", "p", "q", "x", "a", "p", "1", ":v", "a.b", "%61", " ", "é", ":v0", "A"}
)

type c9PrefixT struct {
	text  string
	kinds []string // its cleaned segments (all literal)
}

var c9Prefixes = []c9PrefixT{
	{"/p", []string{"p"}},
	{"/p/q", []string{"p", "q"}},
	{"/", nil},
	{"", nil},
	{"/p/", []string{"p"}}, // needs cleaning
	{"p", []string{"p"}},   // not rooted: every full pattern of the group is invalid
}

type c9OptT struct {
	kind string // prefix | timeout | maxbytes | priority | sse
	text string // rendered
	pfx  string
	dur  time.Duration
	n    int64
}

type c9RegT struct {
	id     int
	method string
	raw    string // Route.Path as handed to AddRoutes
	full   string // the oracle's full pattern (prefix in front of raw), uncleaned
}

type c9GroupT struct {
	hasPrefix bool
	prefix    c9PrefixT
	opts      []c9OptT // in application order
	regs      []c9RegT
	single    bool // one route, added through AddRoute
}

type c9ReqT struct {
	method string
	path   string
	query  string
}

type c9ConfT struct {
	mw        MiddlewaresConf
	mwText    string
	name      string
	verbose   bool
	timeoutMs int64
	cpu       int64
	useRouter bool // WithRouter(router.NewRouter()) as first option
	customNF  bool
	customNA  bool
	nfFirst   bool // order of the two handler options
	uses      int  // pass-through Server.Use middlewares
}

type c9CaseT struct {
	conf   c9ConfT
	groups []c9GroupT
	reqs   []c9ReqT
}

// c9VarName is the statement's precondition made constructive: the name depends only on
// the FULL pattern prefix (as kinds) and the depth.
func c9VarName(prefix []string, depth int) string {
	var b strings.Builder
	fmt.Fprintf(&b, "v%d", depth)
	for _, k := range prefix {
		b.WriteByte('_')
		if k == c9Var {
			b.WriteByte('V')
		} else {
			b.WriteString(k)
		}
	}
	return b.String()
}

// c9PatternSegs renders full kinds as segments (not the root convention: no kinds = no segments).
func c9PatternSegs(kinds []string) []string {
	out := make([]string, len(kinds))
	for i, k := range kinds {
		if k == c9Var {
			out[i] = ":" + c9VarName(kinds[:i], i)
		} else {
			out[i] = k
		}
	}
	return out
}

func c9Join(segs []string) string { return "/" + strings.Join(segs, "/") }

func c9GenPatSeg(s c9Src) string { return c9PatSegs[s.intn(len(c9PatSegs), "patSeg")] }

// c9GenKinds returns a kinds vector and the index of the existing vector it was derived
// from (-1 for a fresh one).
func c9GenKinds(s c9Src, existing [][]string) ([]string, int) {
	if len(existing) > 0 && s.intn(6, "derive") >= 3 {
		bi := s.intn(len(existing), "base")
		base := existing[bi]
		k := append([]string(nil), base...)
		op := s.intn(7, "deriveOp")
		if (op == 0 || op >= 4) && len(k) > 0 {
			i := s.intn(len(k), "flipAt")
			if k[i] == c9Var {
				k[i] = "a"
			} else {
				k[i] = c9Var
			}
		}
		switch op {
		case 1, 5:
			if len(k) > 0 {
				k[len(k)-1] = c9GenPatSeg(s)
			}
		case 2, 6:
			if len(k) < 5 {
				k = append(k, c9GenPatSeg(s))
			}
		case 3:
			if len(k) > 0 {
				k = k[:len(k)-1]
			}
		}
		return k, bi
	}
	n := s.intn(5, "nseg")
	k := make([]string, n)
	for i := range k {
		k[i] = c9GenPatSeg(s)
	}
	return k, -1
}

// c9DirtyPattern renders pattern segments (possibly none = the root) in a raw form that may
// need cleaning: doubled slashes, "/./" and a trailing slash.
func c9DirtyPattern(s c9Src, segs []string) string {
	level := s.intn(8, "patDirty") - 5 // 0..5 clean, 6 one op, 7 two ops
	n := len(segs)
	if level <= 0 {
		return c9Join(segs)
	}
	pre := make([]string, n)
	tail := ""
	for ; level > 0; level-- {
		at := s.intn(n+1, "patDirtyAt")
		form := []string{"/", "./"}[s.intn(2, "patDirtyForm")]
		if at == n {
			tail = []string{"/", "/./"}[s.intn(2, "patTail")]
		} else {
			pre[at] = form
		}
	}
	if n == 0 {
		return "/" + tail
	}
	var b strings.Builder
	for i := 0; i < n; i++ {
		b.WriteString("/" + pre[i] + segs[i])
	}
	b.WriteString(tail)
	return b.String()
}

func c9GenMethod(s c9Src) string {
	switch m := s.intn(10, "method"); {
	case m <= 3:
		return http.MethodGet
	case m <= 6:
		return http.MethodPost
	case m == 7:
		return http.MethodPut
	case m == 8:
		return http.MethodDelete
	default:
		return c9ValidMethods[s.intn(len(c9ValidMethods), "anyMethod")]
	}
}

func c9GenReqSeg(s c9Src) string { return c9ReqSegs[s.intn(len(c9ReqSegs), "reqSeg")] }

func c9DirtyPath(s c9Src, segs []string) string {
	level := s.intn(10, "pathDirty") - 5
	n := len(segs)
	pre := make([]string, n)
	lead, tail := "", ""
	for ; level > 0; level-- {
		at := s.intn(n+2, "pathDirtyAt")
		switch {
		case at == n+1:
			lead = []string{"/..", "/.", "/", "/../.."}[s.intn(4, "pathLead")]
		case at == n:
			tail = []string{"/", "/.", "/x/..", "//", "/./"}[s.intn(5, "pathTail")]
		default:
			pre[at] = []string{"/", "./", "x/../", "/./", "x/y/../../"}[s.intn(5, "pathPre")]
		}
	}
	var b strings.Builder
	b.WriteString(lead)
	if n == 0 {
		b.WriteString("/")
		b.WriteString(tail)
		return b.String()
	}
	for i := 0; i < n; i++ {
		b.WriteString("/" + pre[i] + segs[i])
	}
	b.WriteString(tail)
	return b.String()
}

// c9Full is the oracle's reading of "WithPrefix adds group as a prefix to the route paths":
// the prefix text, a separator, the route's own pattern; no WithPrefix or an empty prefix
// leaves the pattern as it is.  Cleaning is applied afterwards (a pattern denotes its
// cleaned form, check.json "assumptions").
func c9Full(g *c9GroupT, raw string) string {
	if !g.hasPrefix || g.prefix.text == "" {
		return raw
	}
	return g.prefix.text + "/" + raw
}

func c9HasPrefixKinds(k, prefix []string) bool {
	if len(k) < len(prefix) {
		return false
	}
	for i := range prefix {
		if k[i] != prefix[i] {
			return false
		}
	}
	return true
}

func c9GenConf(s c9Src) c9ConfT {
	var c c9ConfT
	flags := []*bool{&c.mw.Trace, &c.mw.Log, &c.mw.Prometheus, &c.mw.MaxConns, &c.mw.Breaker, &c.mw.Shedding,
		&c.mw.Timeout, &c.mw.Recover, &c.mw.Metrics, &c.mw.MaxBytes, &c.mw.Gunzip}
	names := []string{"Trace", "Log", "Prometheus", "MaxConns", "Breaker", "Shedding", "Timeout", "Recover", "Metrics", "MaxBytes", "Gunzip"}
	switch s.intn(4, "mwMode") {
	case 0:
		c.mwText = "none"
	case 1:
		for _, f := range flags {
			*f = true
		}
		c.mwText = "all(default)"
	default:
		var on []string
		for i, f := range flags {
			if s.intn(2, "mw"+names[i]) == 1 {
				*f = true
				on = append(on, names[i])
			}
		}
		c.mwText = "{" + strings.Join(on, ",") + "}"
	}
	c.name = []string{"", "verif-c09"}[s.intn(2, "confName")]
	c.verbose = s.intn(5, "verbose") == 4
	c.timeoutMs = []int64{60000, 0, 120000}[s.intn(3, "confTimeout")]
	c.cpu = []int64{0, 900}[s.intn(2, "cpuThreshold")]
	switch s.intn(8, "serverOpts") {
	case 0, 1: // plain
	case 2:
		c.customNF = true
	case 3:
		c.customNA = true
	case 4:
		c.customNF, c.customNA = true, true
	case 5:
		c.customNF, c.customNA, c.nfFirst = true, true, true
	case 6:
		c.useRouter = true
	case 7:
		c.useRouter = true
		c.customNF = s.intn(2, "routerNF") == 1
		c.customNA = s.intn(2, "routerNA") == 1
	}
	c.uses = s.intn(4, "uses") - 1
	if c.uses < 0 {
		c.uses = 0
	}
	return c
}

func (c c9ConfT) String() string {
	var o []string
	if c.useRouter {
		o = append(o, "WithRouter(new)")
	}
	nf, na := "WithNotFoundHandler(h)", "WithNotAllowedHandler(h)"
	switch {
	case c.customNF && c.customNA && c.nfFirst:
		o = append(o, nf, na)
	case c.customNF && c.customNA:
		o = append(o, na, nf)
	case c.customNF:
		o = append(o, nf)
	case c.customNA:
		o = append(o, na)
	}
	return fmt.Sprintf("conf{Name=%q Verbose=%v Timeout=%dms CpuThreshold=%d Middlewares=%s} options[%s] Use x%d",
		c.name, c.verbose, c.timeoutMs, c.cpu, c.mwText, strings.Join(o, ", "), c.uses)
}

func c9GenCase(s c9Src) c9CaseT {
	var c c9CaseT
	c.conf = c9GenConf(s)
	// a table with one invalid entry does not bind at all, so most tables are kept valid: a
	// candidate the statement wants rejected is dropped unless the case is a "faulty" one
	faulty := s.intn(4, "faulty") == 3
	type att struct {
		method string
		kinds  []string // full kinds
	}
	var atts []att
	var kindsSeen [][]string
	m := &c9Model{}
	id := 0
	ngroups := 1 + s.intn(4, "ngroups")
	for gi := 0; gi < ngroups; gi++ {
		var g c9GroupT
		pc := s.intn(12, "prefixChoice")
		switch {
		case pc <= 3:
		case pc <= 5:
			g.hasPrefix, g.prefix = true, c9Prefixes[0]
		case pc == 6 || pc == 11:
			g.hasPrefix, g.prefix = true, c9Prefixes[1]
		case pc == 7:
			g.hasPrefix, g.prefix = true, c9Prefixes[2]
		case pc == 8:
			g.hasPrefix, g.prefix = true, c9Prefixes[3]
		case pc == 9:
			g.hasPrefix, g.prefix = true, c9Prefixes[4]
		default:
			g.hasPrefix, g.prefix = true, c9Prefixes[0]
			if faulty {
				g.prefix = c9Prefixes[5]
			}
		}
		if g.hasPrefix {
			g.opts = append(g.opts, c9OptT{kind: "prefix", pfx: g.prefix.text, text: fmt.Sprintf("WithPrefix(%q)", g.prefix.text)})
		}
		switch s.intn(4, "optTimeout") {
		case 1:
			g.opts = append(g.opts, c9OptT{kind: "timeout", dur: time.Minute, text: "WithTimeout(1m)"})
		case 2:
			g.opts = append(g.opts, c9OptT{kind: "timeout", dur: 0, text: "WithTimeout(0)"})
		case 3:
			g.opts = append(g.opts, c9OptT{kind: "timeout", dur: 90 * time.Second, text: "WithTimeout(90s)"})
		}
		switch s.intn(3, "optMaxBytes") {
		case 1:
			g.opts = append(g.opts, c9OptT{kind: "maxbytes", n: 1 << 20, text: "WithMaxBytes(1MiB)"})
		case 2:
			g.opts = append(g.opts, c9OptT{kind: "maxbytes", n: 0, text: "WithMaxBytes(0)"})
		}
		if s.intn(4, "optPriority") == 3 {
			g.opts = append(g.opts, c9OptT{kind: "priority", text: "WithPriority()"})
		}
		if s.intn(6, "optSSE") == 5 {
			g.opts = append(g.opts, c9OptT{kind: "sse", text: "WithSSE()"})
		}
		for i := len(g.opts) - 1; i > 0; i-- { // generated order of the options
			j := s.intn(i+1, "optOrder")
			g.opts[i], g.opts[j] = g.opts[j], g.opts[i]
		}
		var gk []string
		if g.hasPrefix {
			gk = g.prefix.kinds
		}
		nroutes := s.intn(7, "nroutes")
		if nroutes == 6 {
			nroutes = 0 // an empty group now and then
		} else {
			nroutes++
		}
		for i := 0; i < nroutes; i++ {
			what := s.intn(20, "regKind")
			var a att
			switch {
			case what >= 14 && what <= 16 && len(atts) > 0: // same method and full pattern again (this or another group)
				a = atts[s.intn(len(atts), "dupOf")]
			case what == 19 && len(atts) > 0: // same full pattern, another method (405 material)
				a = att{c9GenMethod(s), atts[s.intn(len(atts), "sameOf")].kinds}
			default:
				k, bi := c9GenKinds(s, kindsSeen)
				if bi >= 0 && s.intn(2, "methodOfBase") == 1 {
					a = att{atts[bi].method, k} // a sibling in the same method tree
				} else {
					a = att{c9GenMethod(s), k}
				}
			}
			// express the full pattern inside this group: strip the group's prefix if the
			// pattern has it, otherwise the whole vector becomes the route's own pattern
			// (and the full pattern gets the prefix in front)
			if !c9HasPrefixKinds(a.kinds, gk) {
				a.kinds = append(append([]string(nil), gk...), a.kinds...)
				if len(a.kinds) > 6 {
					a.kinds = a.kinds[:6]
				}
			}
			own := c9PatternSegs(a.kinds)[len(gk):]
			raw := c9DirtyPattern(s, own)
			method := a.method
			bad := false
			switch what {
			case 17:
				if faulty {
					method, bad = c9BadMethods[s.intn(len(c9BadMethods), "badMethod")], true
				}
			case 18, 13:
				// no leading slash: fine under a rooted, non-empty prefix, invalid otherwise
				raw = strings.TrimPrefix(c9Join(own), "/")
			}
			full := c9Full(&g, raw)
			if ok, _ := m.wouldAccept(method, full); !ok && !faulty {
				continue
			}
			accepted, _ := m.register(id, gi, method, full)
			g.regs = append(g.regs, c9RegT{id: id, method: method, raw: raw, full: full})
			id++
			if accepted && !bad {
				atts = append(atts, a)
				kindsSeen = append(kindsSeen, a.kinds)
			}
		}
		g.single = len(g.regs) == 1 && s.intn(2, "addRoute") == 1
		c.groups = append(c.groups, g)
	}
	nreq := 1 + s.intn(10, "nreq")
	for i := 0; i < nreq; i++ {
		var segs []string
		if len(atts) > 0 && s.intn(10, "pathMode") <= 6 {
			base := atts[s.intn(len(atts), "pathOf")].kinds
			for _, k := range base {
				if k == c9Var || s.intn(10, "keepLit") == 9 {
					segs = append(segs, c9GenReqSeg(s))
				} else {
					segs = append(segs, k)
				}
			}
			switch s.intn(12, "pathEdit") {
			case 7:
				if len(segs) > 0 {
					segs = segs[:len(segs)-1]
				}
			case 8:
				segs = append(segs, c9GenReqSeg(s))
			case 9:
				if len(segs) > 0 {
					segs[s.intn(len(segs), "editAt")] = c9GenReqSeg(s)
				}
			case 10: // the path without / with a prefix in front
				if len(segs) > 0 && segs[0] == "p" {
					segs = segs[1:]
				} else {
					segs = append([]string{"p"}, segs...)
				}
			}
		} else {
			n := s.intn(6, "npathseg")
			for j := 0; j < n; j++ {
				segs = append(segs, c9GenReqSeg(s))
			}
		}
		var method string
		switch mm := s.intn(10, "reqMethodMode"); {
		case mm <= 5 && len(atts) > 0:
			method = atts[s.intn(len(atts), "reqMethodOf")].method
		case mm <= 8:
			method = c9GenMethod(s)
		default:
			method = []string{"TRACE", "CONNECT", "get", "FOO"}[s.intn(4, "reqBadMethod")]
		}
		p := c9DirtyPath(s, segs)
		q := []string{"", "", "", "", "", "a=b", "p=/a/b/../c&v0=x", "/a"}[s.intn(8, "query")]
		c.reqs = append(c.reqs, c9ReqT{method, p, q})
	}
	return c
}

// ---------------------------------------------------------------- reference model
// (the matcher of c09_test.go, written from the statement; routes additionally carry the
// group they were added in)

func c9CleanSegs(p string) []string {
	var out []string
	for _, seg := range strings.Split(p, "/") {
		switch seg {
		case "", ".":
		case "..":
			if len(out) > 0 {
				out = out[:len(out)-1]
			}
		default:
			out = append(out, seg)
		}
	}
	if len(out) == 0 {
		return []string{""} // the root path counts as one empty segment
	}
	return out
}

func c9IsVar(seg string) bool { return len(seg) > 0 && seg[0] == ':' }

func c9IsValidMethod(m string) bool {
	for _, v := range c9ValidMethods {
		if v == m {
			return true
		}
	}
	return false
}

type c9RouteT struct {
	id     int
	group  int
	method string
	segs   []string // cleaned full pattern
}

func (r c9RouteT) String() string {
	return fmt.Sprintf("#%d(group %d) %s %s", r.id, r.group, r.method, c9Join(r.segs))
}

func (r c9RouteT) matches(segs []string) bool {
	if len(r.segs) != len(segs) {
		return false
	}
	for i, p := range r.segs {
		if !c9IsVar(p) && p != segs[i] {
			return false
		}
	}
	return true
}

// c9Prefer: a is chosen over b if it has a literal where b has a variable at the first
// segment where they differ in kind.
func c9Prefer(a, b c9RouteT) (better, tie bool) {
	for i := range a.segs {
		va, vb := c9IsVar(a.segs[i]), c9IsVar(b.segs[i])
		if va != vb {
			return !va, false
		}
	}
	return false, true
}

type c9Model struct {
	routes   []c9RouteT
	rejected []string // registrations the statement wants rejected, rendered
}

func (m *c9Model) wouldAccept(method, full string) (bool, string) {
	switch {
	case !c9IsValidMethod(method):
		return false, "unsupported method"
	case len(full) == 0 || full[0] != '/':
		return false, "full pattern not starting with '/'"
	}
	cp := c9Join(c9CleanSegs(full))
	for _, r := range m.routes {
		if r.method == method && c9Join(r.segs) == cp {
			return false, "same method and cleaned full pattern as " + r.String()
		}
	}
	return true, ""
}

func (m *c9Model) register(id, group int, method, full string) (bool, string) {
	ok, why := m.wouldAccept(method, full)
	if ok {
		m.routes = append(m.routes, c9RouteT{id, group, method, c9CleanSegs(full)})
	} else {
		m.rejected = append(m.rejected, fmt.Sprintf("#%d(group %d) %q %q [%s]", id, group, method, full, why))
	}
	return ok, why
}

func (m *c9Model) table() string {
	rs := make([]string, len(m.routes))
	for i, r := range m.routes {
		rs[i] = fmt.Sprintf("%s %s g%d", r.method, c9Join(r.segs), r.group)
	}
	sort.Strings(rs)
	return strings.Join(rs, "; ")
}

const (
	c9OutDispatch = iota
	c9OutNotAllowed
	c9OutNotFound
)

type c9ExpectT struct {
	kind    int
	route   c9RouteT
	vars    map[string]string
	allow   []string
	nmatch  int  // matching routes of the request's method
	ngroups int  // ... coming from that many different groups
	deadEnd bool // a literal branch that fits the path has a variable sibling and nothing below the literal matches
}

func (m *c9Model) expect(method string, segs []string) c9ExpectT {
	var e c9ExpectT
	var same []c9RouteT
	others := map[string]bool{}
	groups := map[int]bool{}
	found := false
	for _, r := range m.routes {
		if r.method == method {
			same = append(same, r)
		}
		if !r.matches(segs) {
			continue
		}
		if r.method != method {
			others[r.method] = true
			continue
		}
		e.nmatch++
		groups[r.group] = true
		if !found {
			e.route, found = r, true
			continue
		}
		better, tie := c9Prefer(r, e.route)
		if tie {
			panic(fmt.Sprintf("oracle: %v and %v are the same pattern — generator left the stated domain", r, e.route))
		}
		if better {
			e.route = r
		}
	}
	e.ngroups = len(groups)
	e.deadEnd = c9DeadEnd(same, segs)
	switch {
	case found:
		e.kind = c9OutDispatch
		e.vars = map[string]string{}
		for i, p := range e.route.segs {
			if c9IsVar(p) {
				e.vars[p[1:]] = segs[i]
			}
		}
	case len(others) > 0:
		e.kind = c9OutNotAllowed
		for k := range others {
			e.allow = append(e.allow, k)
		}
		sort.Strings(e.allow)
	default:
		e.kind = c9OutNotFound
	}
	return e
}

func c9DeadEnd(routes []c9RouteT, segs []string) bool {
	for _, q := range routes {
		for i := 0; i < len(q.segs) && i < len(segs); i++ {
			if i > 0 && !c9IsVar(q.segs[i-1]) && q.segs[i-1] != segs[i-1] {
				break
			}
			if c9IsVar(q.segs[i]) || q.segs[i] != segs[i] {
				continue
			}
			sibling, through := false, false
			for _, o := range routes {
				if len(o.segs) <= i || c9Join(o.segs[:i]) != c9Join(q.segs[:i]) {
					continue
				}
				if c9IsVar(o.segs[i]) {
					sibling = true
				} else if o.segs[i] == q.segs[i] && o.matches(segs) {
					through = true
				}
			}
			if sibling && !through {
				return true
			}
		}
	}
	return false
}

// ---------------------------------------------------------------- system under test

type c9Call struct {
	id   int
	vars map[string]string
}

type c9Harness struct {
	mu      sync.Mutex // handlers may run on the timeout middleware's goroutine
	calls   []c9Call
	nf, na  int
	useSeen int
	srv     *Server
	conf    c9ConfT
	log     []string // rendered construction history
}

func (h *c9Harness) routeHandler(id int) http.HandlerFunc {
	return func(w http.ResponseWriter, r *http.Request) {
		vars := map[string]string{}
		for k, v := range pathvar.Vars(r) {
			vars[k] = v
		}
		h.mu.Lock()
		h.calls = append(h.calls, c9Call{id, vars})
		h.mu.Unlock()
		w.WriteHeader(299)
	}
}

func c9RenderVars(v map[string]string) string {
	ks := make([]string, 0, len(v))
	for k := range v {
		ks = append(ks, k)
	}
	sort.Strings(ks)
	var b strings.Builder
	b.WriteByte('{')
	for i, k := range ks {
		if i > 0 {
			b.WriteByte(' ')
		}
		fmt.Fprintf(&b, "%s=%q", k, v[k])
	}
	b.WriteByte('}')
	return b.String()
}

func c9SameVars(a, b map[string]string) bool {
	if len(a) != len(b) {
		return false
	}
	for k, v := range a {
		if w, ok := b[k]; !ok || w != v {
			return false
		}
	}
	return true
}

type c9FailFn func(format string, a ...any)

func c9Safely(f func()) (p any) {
	defer func() { p = recover() }()
	f()
	return nil
}

var c9SetupOnce sync.Once

// c9Setup runs the process-wide service set-up once, as a real service does (NewServer
// calls it every time; everything in it is once-only), and silences logging afterwards.
func c9Setup() {
	c9SetupOnce.Do(func() { MustNewServer(RestConf{}) })
	logx.Disable()
}

// c9Build constructs the server of a case through the public constructors and adds the
// groups.  It returns nil if NewServer failed (reported through fail).
func c9Build(conf c9ConfT, groups []c9GroupT, fail c9FailFn) *c9Harness {
	h := &c9Harness{conf: conf}
	rc := RestConf{Host: "127.0.0.1", Port: 0, Verbose: conf.verbose, MaxConns: 10000, MaxBytes: 1 << 20,
		Timeout: conf.timeoutMs, CpuThreshold: conf.cpu, Middlewares: conf.mw}
	rc.Name = conf.name
	var ro []RunOption
	if conf.useRouter {
		ro = append(ro, WithRouter(router.NewRouter()))
	}
	nf := WithNotFoundHandler(http.HandlerFunc(func(w http.ResponseWriter, r *http.Request) {
		h.mu.Lock()
		h.nf++
		h.mu.Unlock()
		w.WriteHeader(http.StatusNotFound)
	}))
	na := WithNotAllowedHandler(http.HandlerFunc(func(w http.ResponseWriter, r *http.Request) {
		h.mu.Lock()
		h.na++
		h.mu.Unlock()
		w.WriteHeader(http.StatusMethodNotAllowed)
	}))
	switch {
	case conf.customNF && conf.customNA && conf.nfFirst:
		ro = append(ro, nf, na)
	case conf.customNF && conf.customNA:
		ro = append(ro, na, nf)
	case conf.customNF:
		ro = append(ro, nf)
	case conf.customNA:
		ro = append(ro, na)
	}
	h.log = append(h.log, "NewServer("+conf.String()+")")
	var err error
	if p := c9Safely(func() { h.srv, err = NewServer(rc, ro...) }); p != nil || err != nil {
		fail("NewServer failed: panic=%v err=%v\nhistory: %s", p, err, strings.Join(h.log, "; "))
		return nil
	}
	for i := 0; i < conf.uses; i++ {
		h.srv.Use(func(next http.HandlerFunc) http.HandlerFunc {
			return func(w http.ResponseWriter, r *http.Request) {
				h.mu.Lock()
				h.useSeen++
				h.mu.Unlock()
				next(w, r)
			}
		})
	}
	for gi, g := range groups {
		var opts []RouteOption
		var ot []string
		for _, o := range g.opts {
			ot = append(ot, o.text)
			switch o.kind {
			case "prefix":
				opts = append(opts, WithPrefix(o.pfx))
			case "timeout":
				opts = append(opts, WithTimeout(o.dur))
			case "maxbytes":
				opts = append(opts, WithMaxBytes(o.n))
			case "priority":
				opts = append(opts, WithPriority())
			case "sse":
				opts = append(opts, WithSSE())
			}
		}
		var rs []Route
		var rt []string
		for _, rg := range g.regs {
			rs = append(rs, Route{Method: rg.method, Path: rg.raw, Handler: h.routeHandler(rg.id)})
			rt = append(rt, fmt.Sprintf("#%d %q %q", rg.id, rg.method, rg.raw))
		}
		call := "AddRoutes"
		if p := c9Safely(func() {
			if g.single {
				call = "AddRoute"
				h.srv.AddRoute(rs[0], opts...)
			} else {
				h.srv.AddRoutes(rs, opts...)
			}
		}); p != nil {
			fail("%s panicked: %v\nhistory: %s", call, p, strings.Join(h.log, "; "))
			return nil
		}
		h.log = append(h.log, fmt.Sprintf("group %d: %s([%s], %s)", gi, call, strings.Join(rt, ", "), strings.Join(ot, ", ")))
	}
	return h
}

// bind does what Server.Start does before listening: engine.bindRoutes on the server's router.
func (h *c9Harness) bind(fail c9FailFn) (err error) {
	if p := c9Safely(func() { err = h.srv.ngin.bindRoutes(h.srv.router) }); p != nil {
		fail("bindRoutes panicked: %v\nhistory: %s", p, strings.Join(h.log, "; "))
		return fmt.Errorf("panic: %v", p)
	}
	return err
}

func c9NewRequest(rq c9ReqT) *http.Request {
	r := httptest.NewRequest(http.MethodGet, "http://verif.test/", nil)
	r.Method = rq.method
	r.URL.Path = rq.path
	r.URL.RawPath = ""
	r.URL.RawQuery = rq.query
	r.RequestURI = (&url.URL{Path: rq.path, RawQuery: rq.query}).RequestURI()
	return r
}

type c9Info struct {
	exp          c9ExpectT
	clean        string
	unclean      bool
	inconclusive bool
}

// serve sends one request through the server's router and compares with the reference matcher.
func (h *c9Harness) serve(m *c9Model, rq c9ReqT, st *verifkit.Stats, fail c9FailFn) c9Info {
	segs := c9CleanSegs(rq.path)
	cp := c9Join(segs)
	if std := path.Clean(rq.path); std != cp {
		fail("oracle self-check: own cleaner gives %q, path.Clean gives %q for path %q", cp, std, rq.path)
	}
	exp := m.expect(rq.method, segs)
	info := c9Info{exp: exp, clean: cp, unclean: cp != rq.path}

	ctx := func() string {
		return fmt.Sprintf("\nrequest: %s %q query %q (cleaned %q)\nroutes (method, cleaned full pattern, group): %s\nhistory: %s",
			rq.method, rq.path, rq.query, cp, m.table(), strings.Join(h.log, "; "))
	}
	r := c9NewRequest(rq)
	w := httptest.NewRecorder()
	h.mu.Lock()
	h.calls, h.nf, h.na, h.useSeen = nil, 0, 0, 0
	h.mu.Unlock()
	if p := c9Safely(func() { h.srv.router.ServeHTTP(w, r) }); p != nil {
		fail("ServeHTTP panicked: %v%s", p, ctx())
		return info
	}
	h.mu.Lock()
	calls, nf, na := append([]c9Call(nil), h.calls...), h.nf, h.na
	h.mu.Unlock()

	// a deadline of >= 1 minute that fired or a shedder that dropped a lone request is a
	// stalled machine, not a routing verdict
	if w.Code == http.StatusServiceUnavailable && (h.conf.mw.Timeout || h.conf.mw.Shedding && h.conf.cpu > 0) {
		st.Note("inconclusive: 503 from the timeout/shedding middleware for %s %q", rq.method, rq.path)
		info.inconclusive = true
		return info
	}

	got := func() string {
		var cs []string
		for _, c := range calls {
			cs = append(cs, fmt.Sprintf("handler #%d vars %s", c.id, c9RenderVars(c.vars)))
		}
		return fmt.Sprintf("status %d, Allow %q, route handler calls [%s], custom not-found calls %d, custom not-allowed calls %d",
			w.Code, w.Header().Values("Allow"), strings.Join(cs, "; "), nf, na)
	}
	switch exp.kind {
	case c9OutDispatch:
		switch {
		case len(calls) != 1 || calls[0].id != exp.route.id || nf != 0 || na != 0:
			fail("dispatch: want exactly the handler of route %v (of %d matching), got %s%s", exp.route, exp.nmatch, got(), ctx())
		case !c9SameVars(calls[0].vars, exp.vars):
			fail("path variables: route %v binds %s, handler received %s%s", exp.route, c9RenderVars(exp.vars), c9RenderVars(calls[0].vars), ctx())
		case w.Code != 299:
			fail("dispatch: the route's handler ran but the response status is %d, not the handler's 299%s", w.Code, ctx())
		}
	case c9OutNotAllowed:
		switch {
		case len(calls) != 0 || nf != 0:
			fail("no route of method %q matches but %v do: want 405 handling, got %s%s", rq.method, exp.allow, got(), ctx())
		case h.conf.customNA:
			if na != 1 {
				fail("no route of method %q matches but %v do: want the configured not-allowed handler called once, got %s%s", rq.method, exp.allow, got(), ctx())
			}
		case w.Code != http.StatusMethodNotAllowed || na != 0:
			fail("no route of method %q matches but %v do: want 405, got %s%s", rq.method, exp.allow, got(), ctx())
		default:
			set := map[string]bool{}
			for _, line := range w.Header().Values("Allow") {
				for _, f := range strings.Split(line, ",") {
					if f = strings.TrimSpace(f); f != "" {
						set[f] = true
					}
				}
			}
			var have []string
			for k := range set {
				have = append(have, k)
			}
			sort.Strings(have)
			if strings.Join(have, ",") != strings.Join(exp.allow, ",") {
				fail("Allow header: want exactly %v, got %v (%s)%s", exp.allow, have, got(), ctx())
			}
		}
	default:
		switch {
		case len(calls) != 0 || na != 0:
			fail("no route of any method matches: want 404 handling, got %s%s", got(), ctx())
		case h.conf.customNF:
			if nf != 1 {
				fail("no route of any method matches: want the configured not-found handler called once, got %s%s", got(), ctx())
			} else if w.Code != http.StatusNotFound {
				fail("no route of any method matches and the configured not-found handler answered 404: got %s%s", got(), ctx())
			}
		case w.Code != http.StatusNotFound || nf != 0:
			fail("no route of any method matches: want 404, got %s%s", got(), ctx())
		}
	}
	return info
}

// c9RunCase builds, binds and serves a case; it returns the canonical table and the
// non-trivial requests.
func c9RunCase(c c9CaseT, st *verifkit.Stats, fail c9FailFn) (table string, nt []string) {
	m := &c9Model{}
	crossDup := false
	for gi, g := range c.groups {
		st.Class(fmt.Sprintf("group:%d-options", len(g.opts)))
		if g.hasPrefix {
			st.Class(fmt.Sprintf("group:prefix %q", g.prefix.text))
		}
		for _, rg := range g.regs {
			ok, why := m.register(rg.id, gi, rg.method, rg.full)
			switch {
			case ok:
				st.Class("reg:valid")
				if c9Join(c9CleanSegs(rg.full)) != rg.full {
					st.Class("reg:valid-full-pattern-needs-cleaning")
				}
				if len(rg.raw) == 0 || rg.raw[0] != '/' {
					st.Class("reg:valid-own-pattern-without-leading-slash")
				}
			case !c9IsValidMethod(rg.method):
				st.Class("reg:invalid-method")
			case strings.HasPrefix(why, "full pattern"):
				st.Class("reg:invalid-no-leading-slash")
			default:
				st.Class("reg:invalid-duplicate")
				if !strings.Contains(why, fmt.Sprintf("(group %d)", gi)) {
					crossDup = true
					st.Class("reg:invalid-duplicate-across-groups")
				}
			}
		}
	}
	_ = crossDup
	h := c9Build(c.conf, c.groups, fail)
	if h == nil {
		return m.table(), nil
	}
	err := h.bind(fail)
	wantErr := len(m.rejected) > 0
	switch {
	case wantErr && err == nil:
		fail("registration: binding the routes succeeded; the statement wants it rejected because of %s\nhistory: %s",
			strings.Join(m.rejected, "; "), strings.Join(h.log, "; "))
	case !wantErr && err != nil:
		fail("registration: binding the routes returned %v, but every method is supported, every full pattern starts with '/' and no (method, cleaned full pattern) occurs twice\nroutes: %s\nhistory: %s",
			err, m.table(), strings.Join(h.log, "; "))
	}
	if wantErr || err != nil {
		st.Class("bind:rejected")
		return m.table(), nil
	}
	st.Class("bind:ok")
	st.Class("conf:middlewares " + map[bool]string{true: "subset", false: c.conf.mwText}[strings.HasPrefix(c.conf.mwText, "{")])
	if c.conf.customNF {
		st.Class("conf:custom-not-found")
	}
	if c.conf.customNA {
		st.Class("conf:custom-not-allowed")
	}
	if c.conf.useRouter {
		st.Class("conf:with-router")
	}
	for _, rq := range c.reqs {
		info := h.serve(m, rq, st, fail)
		if info.inconclusive {
			st.Class("req:inconclusive-503")
			continue
		}
		switch info.exp.kind {
		case c9OutDispatch:
			st.Class("req:dispatched")
			if len(info.exp.vars) > 0 {
				st.Class("req:dispatched-with-vars")
			}
		case c9OutNotAllowed:
			st.Class("req:405")
		default:
			st.Class("req:404")
		}
		if info.unclean {
			st.Class("req:path-needs-cleaning")
		}
		why := ""
		if info.exp.nmatch >= 2 {
			st.Class("req:multi-match")
		}
		if info.exp.ngroups >= 2 {
			st.Class("req:multi-match-across-groups")
			why += "+groups"
		}
		if info.exp.deadEnd {
			st.Class("req:literal-dead-end")
			why += "+deadend"
		}
		if info.exp.kind == c9OutNotAllowed && len(info.exp.allow) >= 2 {
			st.Class("req:405-several-allowed")
			why += "+allow"
		}
		if why != "" {
			nt = append(nt, rq.method+" "+info.clean+" "+why)
		}
	}
	sort.Strings(nt)
	return m.table(), nt
}

// ---------------------------------------------------------------- hand-written examples

func TestVerifC09EngineExamples(t *testing.T) {
	c9Setup()
	st := verifkit.New("engine-examples")
	all := MiddlewaresConf{Trace: true, Log: true, Prometheus: true, MaxConns: true, Breaker: true, Shedding: true,
		Timeout: true, Recover: true, Metrics: true, MaxBytes: true, Gunzip: true}
	pfx := func(i int) (bool, c9PrefixT, []c9OptT) {
		p := c9Prefixes[i]
		return true, p, []c9OptT{{kind: "prefix", pfx: p.text, text: fmt.Sprintf("WithPrefix(%q)", p.text)}}
	}
	mk := func(g c9GroupT, regs ...c9RegT) c9GroupT {
		for i := range regs {
			regs[i].full = c9Full(&g, regs[i].raw)
		}
		g.regs = regs
		return g
	}
	var g0, g2 c9GroupT
	g0.hasPrefix, g0.prefix, g0.opts = pfx(0) // "/p"
	g2.hasPrefix, g2.prefix, g2.opts = pfx(2) // "/"
	groups := []c9GroupT{
		mk(g0, c9RegT{id: 0, method: "GET", raw: "/a/b"}, c9RegT{id: 1, method: "GET", raw: "a/:x"}),
		mk(c9GroupT{}, c9RegT{id: 2, method: "GET", raw: "/:y/a/c"}, c9RegT{id: 3, method: "POST", raw: "/p/a/b"}, c9RegT{id: 4, method: "PUT", raw: "//p/a/./b/"}),
		mk(g2, c9RegT{id: 5, method: "GET", raw: ""}),
	}
	type want struct {
		method, path string
		kind         int
		route        int
		vars         map[string]string
		allow        []string
	}
	wants := []want{
		{"GET", "/p/a/b", c9OutDispatch, 0, nil, nil},
		{"GET", "/p/a/z", c9OutDispatch, 1, map[string]string{"x": "z"}, nil},
		{"GET", "/p/a/c", c9OutDispatch, 1, map[string]string{"x": "c"}, nil}, // group 1's /:y/a/c matches too: literal p wins
		{"GET", "/q/a/c", c9OutDispatch, 2, map[string]string{"y": "q"}, nil},
		{"GET", "//p/./a/b/", c9OutDispatch, 0, nil, nil},
		{"POST", "/p/a/b", c9OutDispatch, 3, nil, nil},
		{"DELETE", "/p/a/b", c9OutNotAllowed, 0, nil, []string{"GET", "POST", "PUT"}},
		{"POST", "/p/a/c", c9OutNotAllowed, 0, nil, []string{"GET"}},
		{"GET", "/", c9OutDispatch, 5, nil, nil},
		{"GET", "/a/b", c9OutNotFound, 0, nil, nil}, // the prefix is part of the pattern
		{"GET", "/p", c9OutNotFound, 0, nil, nil},
	}
	for _, conf := range []c9ConfT{
		{mwText: "none"},
		{mw: all, mwText: "all(default)", timeoutMs: 60000, cpu: 900, name: "verif-c09"},
		{mw: all, mwText: "all(default)", timeoutMs: 60000, useRouter: true},
	} {
		fail := func(format string, a ...any) { t.Errorf("["+conf.String()+"] "+format, a...) }
		m := &c9Model{}
		for gi, g := range groups {
			for _, rg := range g.regs {
				if ok, why := m.register(rg.id, gi, rg.method, rg.full); !ok {
					t.Fatalf("example route #%d not accepted by the model: %s", rg.id, why)
				}
			}
		}
		h := c9Build(conf, groups, fail)
		if h == nil {
			continue
		}
		if err := h.bind(fail); err != nil {
			t.Fatalf("[%v] example table does not bind: %v", conf, err)
		}
		for _, wn := range wants {
			e := h.serve(m, c9ReqT{wn.method, wn.path, ""}, st, fail).exp
			ok := e.kind == wn.kind
			if ok && wn.kind == c9OutDispatch {
				ok = e.route.id == wn.route && c9SameVars(e.vars, wn.vars)
			}
			if ok && wn.kind == c9OutNotAllowed {
				ok = strings.Join(e.allow, ",") == strings.Join(wn.allow, ",")
			}
			if !ok {
				t.Errorf("reference matcher disagrees with the hand-written expectation for %s %q: kind=%d route=%v vars=%s allow=%v",
					wn.method, wn.path, e.kind, e.route, c9RenderVars(e.vars), e.allow)
			}
		}
	}

	// registration, by hand: each table must bind (true) or be rejected (false)
	type rt struct{ prefix, method, path string }
	for _, c := range []struct {
		routes []rt
		ok     bool
	}{
		{[]rt{{"/p", "GET", "/a"}, {"-", "GET", "/p/b"}}, true},
		{[]rt{{"/p", "GET", "/a"}, {"-", "GET", "/p/a/"}}, false}, // same full pattern from two groups
		{[]rt{{"/p", "GET", "/a"}, {"/p/", "GET", "a"}}, false},
		{[]rt{{"/p", "GET", "/a"}, {"-", "POST", "/p/a"}}, true},
		{[]rt{{"-", "GET", "/:v/a"}, {"-", "GET", "/:v/a"}}, false}, // inside one group
		{[]rt{{"/p", "GET", "a"}}, true},
		{[]rt{{"/", "GET", ""}}, true},
		{[]rt{{"", "GET", "a"}}, false},
		{[]rt{{"", "GET", ""}}, false},
		{[]rt{{"-", "GET", "a/b"}}, false},
		{[]rt{{"p", "GET", "/a"}}, false},
		{[]rt{{"/p", "TRACE", "/a"}}, false},
		{[]rt{{"-", "get", "/a"}}, false},
	} {
		s, err := NewServer(RestConf{})
		if err != nil {
			t.Fatalf("NewServer: %v", err)
		}
		nop := func(http.ResponseWriter, *http.Request) {}
		for i := 0; i < len(c.routes); {
			j := i
			var rs []Route
			for ; j < len(c.routes) && c.routes[j].prefix == c.routes[i].prefix; j++ {
				rs = append(rs, Route{Method: c.routes[j].method, Path: c.routes[j].path, Handler: nop})
			}
			if c.routes[i].prefix == "-" {
				s.AddRoutes(rs)
			} else {
				s.AddRoutes(rs, WithPrefix(c.routes[i].prefix))
			}
			i = j
		}
		if err := s.ngin.bindRoutes(s.router); (err == nil) != c.ok {
			t.Errorf("table %v: bind error=%v, want accepted=%v", c.routes, err, c.ok)
		}
	}
}

// ---------------------------------------------------------------- rapid property

func TestVerifC09Engine(t *testing.T) {
	c9Setup()
	st := verifkit.New("engine")
	defer st.Flush()
	sampled := false
	rapid.Check(t, func(t *rapid.T) {
		st.Eval()
		c := c9GenCase(c9Src{t})
		st.ClassN("requests", len(c.reqs))
		st.ClassN("groups", len(c.groups))
		table, nt := c9RunCase(c, st, t.Fatalf)
		desc := "routes[" + table + "] requests[" + strings.Join(nt, "; ") + "]"
		if len(nt) > 0 {
			st.NonTrivial(desc)
		} else if !sampled {
			sampled = true
			st.Sample(fmt.Sprintf("(trivial) routes[%s] %d requests, %s", table, len(c.reqs), c.conf))
		}
	})
}
