//go:build verif

// C09, unit "scale" — wide and deep route tables.
//
// Everything the other units of the check generate is small (at most 12 routes of at most 4
// segments over a handful of spellings).  This unit draws the SIZES of a case from wide,
// log-uniform ranges that are not tuned to anything in the implementation: the number of
// literal siblings under one prefix next to a variable sibling at the same depth (2-64 in the
// frequent "medium" cases, 65-500 in the rare "big" ones), the number of routes (up to 200 /
// 200-2000), the pattern length (1-12 / 10-30 segments), the length of the values bound to
// variables (1-300 bytes) and of literal spellings.  A table is a list of "fans": a prefix, W
// literal siblings s_0..s_(W-1) and (nearly always) a variable sibling at the same depth, with
// a few templates of tails (1-3 related tails each, derived from each other by flipping a
// segment between literal and variable, changing the last segment, cutting or extending)
// hung below the siblings; later fans are nested inside the subtrees of earlier ones (or get
// a fresh top-level prefix), so wide levels occur at several depths, also at the leaf level.
// The requests aim at what a search that is literal-first has to get right at width: a path
// through literal sibling s_k continued with a tail that exists only below the variable
// sibling (the literal subtree, often sharing all but the last segments, has to be abandoned),
// siblings at the ends of the range, spellings that are not in the table, variable values that
// spell a literal sibling, other methods (405 + Allow over several wide method trees), near
// misses; paths are dirtied with the existing path dirtier.
//
// The oracle is the reference matcher of c09_test.go (routeT.matches, prefer, the three
// registration rules, cleanSegs); expectScale below is model.expect without its dead-end
// classifier (which is quadratic in the table), and duplicate detection uses a map instead of
// a scan.  On every table of at most 80 registrations both are cross-checked against the
// original model.register / model.expect.  Variable names stay a function of (pattern prefix,
// depth) by construction (varName of c09_test.go, or v<depth> in half of the cases).
package router_test

import (
	"fmt"
	"math"
	"math/bits"
	"net/http"
	"net/http/httptest"
	"path"
	"sort"
	"strconv"
	"strings"
	"testing"

	"github.com/zeromicro/go-zero/core/logx"
	"github.com/zeromicro/go-zero/core/search"
	"github.com/zeromicro/go-zero/internal/verifkit"
	"pgregory.net/rapid"
)

// ---------------------------------------------------------------- size draws

// scaleUnif draws a roughly uniform value in [0,n) from single coin flips.  rapid's integer
// ranges are deliberately skewed towards small values and the bounds; for sizes that are
// meant to be spread over a whole range (and for "one case in N") fair bits are used instead.
// All zero bits = 0 = the simplest value, so shrinking still moves towards the small end.
func scaleUnif(s source, n int, label string) int {
	if n <= 1 {
		return 0
	}
	nb := bits.Len(uint(n-1)) + 3
	v := 0
	for i := 0; i < nb; i++ {
		v = v<<1 | s.intn(2, label)
	}
	return v % n
}

// scaleLogU draws from [lo,hi] log-uniformly (every octave of the range is about equally
// likely), so that a threshold anywhere in the range is crossed by a fair share of the cases.
func scaleLogU(s source, lo, hi int, label string) int {
	if lo < 1 {
		lo = 1
	}
	if hi <= lo {
		return lo
	}
	k := scaleUnif(s, 1024, label)
	v := int(math.Round(float64(lo) * math.Pow(float64(hi)/float64(lo), float64(k)/1023)))
	if v < lo {
		v = lo
	}
	if v > hi {
		v = hi
	}
	return v
}

// ---------------------------------------------------------------- case shape

type scaleTail struct {
	kinds   []string // segments below the sibling (varKind = a variable)
	methods []string // 1-2 methods the tail is registered for
}

type scaleFan struct {
	pre     []string // kinds in front of the sibling level
	w       int      // literal siblings s_0 .. s_(w-1)
	scheme  int      // spelling of the siblings
	pad     int      // filler length of the long spelling
	tpls    [][]scaleTail
	a, b    int   // sibling k carries template (a*k+b) mod len(tpls)
	varTpls []int // templates below the variable sibling; none = no variable sibling
}

var scaleSmallSibs = []string{"a", "b", "c", "ab", "x", "A", "a.b", "1"}

func (f *scaleFan) sib(k int) string {
	switch f.scheme {
	case 1:
		return fmt.Sprintf("%03d", k)
	case 2: // the first ones are the spellings the request alphabet uses
		if k < len(scaleSmallSibs) {
			return scaleSmallSibs[k]
		}
		return "s" + strconv.Itoa(k)
	case 3:
		return "item-" + strings.Repeat("x", f.pad) + "-" + strconv.Itoa(k)
	default:
		return "s" + strconv.Itoa(k)
	}
}

func (f *scaleFan) tplOf(k int) []scaleTail { return f.tpls[(f.a*k+f.b)%len(f.tpls)] }

func (f *scaleFan) varTails() []scaleTail {
	var out []scaleTail
	for _, ti := range f.varTpls {
		out = append(out, f.tpls[ti]...)
	}
	return out
}

func scaleKindsText(kinds []string) string {
	if len(kinds) == 0 {
		return "/"
	}
	return "/" + strings.Join(kinds, "/")
}

func (f *scaleFan) String() string {
	var b strings.Builder
	fmt.Fprintf(&b, "{pre=%s w=%d spelling=%d", scaleKindsText(f.pre), f.w, f.scheme)
	if f.scheme == 3 {
		fmt.Fprintf(&b, "(pad %d)", f.pad)
	}
	fmt.Fprintf(&b, " tpl(k)=(%d*k+%d)%%%d var=%v tpls=[", f.a, f.b, len(f.tpls), f.varTpls)
	for i, tp := range f.tpls {
		if i > 0 {
			b.WriteString(" | ")
		}
		for j, tl := range tp {
			if j > 0 {
				b.WriteString(" ; ")
			}
			b.WriteString(strings.Join(tl.methods, ",") + " " + scaleKindsText(tl.kinds))
		}
	}
	b.WriteString("]}")
	return b.String()
}

type scaleRoute struct {
	method string
	kinds  []string
}

type scaleCase struct {
	big   bool
	desc  string // the structure the table was built from (rendered history of the case)
	regs  []regT
	reqs  []reqT
	after []int // as caseT.after; nil = whole table first
}

// scalePatternSegs is patternSegs of c09_test.go with the variable names built
// incrementally (linear instead of quadratic in the pattern length); short = v<depth>.
func scalePatternSegs(kinds []string, short bool) []string {
	if len(kinds) == 0 {
		return []string{""}
	}
	out := make([]string, len(kinds))
	var sfx strings.Builder
	for i, k := range kinds {
		if k == varKind {
			if short {
				out[i] = ":v" + strconv.Itoa(i)
			} else {
				out[i] = ":v" + strconv.Itoa(i) + sfx.String()
			}
			sfx.WriteString("_V")
		} else {
			out[i] = k
			sfx.WriteString("_" + k)
		}
	}
	return out
}

func scaleGenTail(s source, lo, hi int) []string {
	n := lo + s.intn(hi-lo+1, "tailLen")
	k := make([]string, n)
	for i := range k {
		k[i] = genPatSeg(s)
	}
	return k
}

// scaleDeriveTail: a tail that shares most of base, so that a search walks far down the one
// before it notices that it is in the wrong subtree.
func scaleDeriveTail(s source, base []string, lo, hi int) []string {
	k := append([]string(nil), base...)
	flip := func(i int) {
		if k[i] == varKind {
			k[i] = "a"
		} else {
			k[i] = varKind
		}
	}
	switch op := s.intn(7, "tailOp"); {
	case op == 0 && len(k) > 0: // flip near the end
		flip(len(k) - 1 - s.intn(min(len(k), 4), "flipBack"))
	case op == 1 && len(k) > 0: // flip anywhere
		flip(s.intn(len(k), "flipAt"))
	case op == 2 && len(k) > 0: // another last segment
		k[len(k)-1] = genPatSeg(s)
	case op == 3 && len(k) > 0: // another literal somewhere
		k[s.intn(len(k), "relitAt")] = []string{"b", "c", "ab", "a"}[s.intn(4, "relit")]
	case op == 4 && len(k) > lo:
		k = k[:len(k)-1-s.intn(min(len(k)-lo, 3), "cut")]
	case op == 5 && len(k) < hi:
		for n := 1 + s.intn(min(hi-len(k), 3), "ext"); n > 0; n-- {
			k = append(k, genPatSeg(s))
		}
	default:
		if len(k) > 0 {
			flip(s.intn(len(k), "flipAt"))
			k[len(k)-1] = genPatSeg(s)
		} else if hi > 0 {
			k = append(k, genPatSeg(s))
		}
	}
	return k
}

func genScaleCase(s source, big bool) scaleCase {
	c := scaleCase{big: big}
	wLo, wHi, nLo, nHi, lenLo, lenHi, rLo, rHi := 2, 64, 2, 200, 1, 12, 1, 40
	if big {
		wLo, wHi, nLo, nHi, lenLo, lenHi, rLo, rHi = 65, 500, 200, 2000, 10, 30, 8, 400
	} else {
		lenHi = scaleLogU(s, 1, 12, "lenHi")
	}
	short := s.intn(2, "shortNames") == 1
	palette := make([]string, 1+s.intn(4, "npalette"))
	for i := range palette {
		palette[i] = genMethod(s)
	}
	tailMethods := func() []string {
		m1 := palette[0]
		if s.intn(8, "tailMethod") >= 5 {
			m1 = palette[s.intn(len(palette), "tailMethodOf")]
		}
		ms := []string{m1}
		if s.intn(4, "tailMethod2") == 3 {
			if m2 := palette[s.intn(len(palette), "tailMethod2Of")]; m2 != m1 {
				ms = append(ms, m2)
			}
		}
		return ms
	}
	w0 := scaleLogU(s, wLo, wHi, "width")
	target := scaleLogU(s, max(nLo, w0+8), nHi, "routes")

	var fans []*scaleFan
	var cands []scaleRoute
	seenCand := map[string]bool{}
	remaining := target
	for len(fans) < 24 && remaining > 0 {
		f := &scaleFan{}
		switch {
		case len(fans) == 0:
			f.w = w0
			for n := s.intn(min(6, lenHi), "preLen"); n > 0; n-- {
				f.pre = append(f.pre, genPatSeg(s))
			}
		case s.intn(4, "fanPlace") == 3: // a region of its own
			f.pre = []string{"g" + strconv.Itoa(len(fans))}
			for n := s.intn(min(4, lenHi), "preLen"); n > 0; n-- {
				f.pre = append(f.pre, genPatSeg(s))
			}
		default: // inside the subtree of an earlier fan
			bf := fans[s.intn(len(fans), "nestIn")]
			var sibKind string
			var tails []scaleTail
			if len(bf.varTpls) > 0 && s.intn(2, "nestUnderVar") == 0 {
				sibKind, tails = varKind, bf.varTails()
			} else {
				k := s.intn(bf.w, "nestUnderSib")
				sibKind, tails = bf.sib(k), bf.tplOf(k)
			}
			t := tails[s.intn(len(tails), "nestTail")]
			f.pre = append(append([]string(nil), bf.pre...), sibKind)
			f.pre = append(f.pre, t.kinds[:s.intn(len(t.kinds)+1, "nestCut")]...)
		}
		if len(f.pre) > lenHi-1 {
			f.pre = f.pre[:lenHi-1]
		}
		if len(fans) > 0 {
			f.w = scaleLogU(s, 1, min(wHi, remaining), "fanWidth")
		}
		f.scheme = s.intn(4, "spelling")
		if f.scheme == 3 {
			f.pad = scaleLogU(s, 1, 120, "spellingPad")
		}
		tLo := max(0, lenLo-len(f.pre)-1)
		tHi := max(tLo, lenHi-len(f.pre)-1)
		ntpl := 1 + s.intn(4, "ntpl")
		for j := 0; j < ntpl; j++ {
			var tp []scaleTail
			for i, nt := 0, 1+s.intn(3, "ntails"); i < nt; i++ {
				var kinds []string
				switch {
				case i > 0:
					kinds = scaleDeriveTail(s, tp[s.intn(len(tp), "deriveFrom")].kinds, tLo, tHi)
				case j > 0 && s.intn(4, "tplFresh") != 3:
					prev := f.tpls[j-1]
					kinds = scaleDeriveTail(s, prev[s.intn(len(prev), "deriveFromTpl")].kinds, tLo, tHi)
				default:
					kinds = scaleGenTail(s, tLo, tHi)
				}
				tp = append(tp, scaleTail{kinds, tailMethods()})
			}
			f.tpls = append(f.tpls, tp)
		}
		f.a, f.b = 1+s.intn(ntpl, "tplA"), s.intn(ntpl, "tplB")
		if len(fans) == 0 || s.intn(4, "hasVar") != 3 {
			f.varTpls = []int{s.intn(ntpl, "varTpl")}
			if ntpl > 1 && s.intn(2, "varTpl2") == 1 {
				if t2 := s.intn(ntpl, "varTpl2Of"); t2 != f.varTpls[0] {
					f.varTpls = append(f.varTpls, t2)
				}
			}
		}
		// routes of the fan: the variable sibling's first (so that it survives a tight budget),
		// then every literal sibling's first tail, then the remaining tails / methods
		var rs []scaleRoute
		mk := func(sib string, tl scaleTail, mi int) scaleRoute {
			kinds := make([]string, 0, len(f.pre)+1+len(tl.kinds))
			kinds = append(append(append(kinds, f.pre...), sib), tl.kinds...)
			return scaleRoute{tl.methods[mi], kinds}
		}
		for _, tl := range f.varTails() {
			for mi := range tl.methods {
				rs = append(rs, mk(varKind, tl, mi))
			}
		}
		if room := remaining - len(rs); f.w > room {
			f.w = max(room, 1)
		}
		for k := 0; k < f.w; k++ {
			rs = append(rs, mk(f.sib(k), f.tplOf(k)[0], 0))
		}
		for round := 1; round < 6; round++ { // (tail, method) pairs beyond the first, sibling by sibling
			for k := 0; k < f.w; k++ {
				n := 0
				for _, tl := range f.tplOf(k) {
					for mi := range tl.methods {
						if n == round {
							rs = append(rs, mk(f.sib(k), tl, mi))
						}
						n++
					}
				}
			}
		}
		// related tails often coincide: keep one candidate per (method, pattern); registering a
		// route twice is the business of the "extras" below
		uniq := rs[:0]
		for _, r := range rs {
			if key := r.method + " " + strings.Join(r.kinds, "/"); !seenCand[key] {
				seenCand[key] = true
				uniq = append(uniq, r)
			}
		}
		rs = uniq
		if len(rs) > remaining {
			rs = rs[:remaining]
		}
		remaining -= len(rs)
		cands = append(cands, rs...)
		fans = append(fans, f)
	}

	// registrations: the routes in a scrambled order, a few raw forms that need cleaning, a few
	// duplicates and invalid registrations
	n := len(cands)
	idx := make([]int, n)
	orderText := "as built"
	switch om := s.intn(4, "order"); om {
	case 0:
		for i := range idx {
			idx[i] = i
		}
	case 1:
		orderText = "reversed"
		for i := range idx {
			idx[i] = n - 1 - i
		}
	default:
		stride := 1 + scaleUnif(s, max(n-1, 1), "stride")
		for scaleGCD(stride, n) != 1 {
			stride++
		}
		off := s.intn(n, "strideOff")
		orderText = fmt.Sprintf("i -> (%d*i+%d) mod %d", stride, off, n)
		for i := range idx {
			idx[i] = (stride*i + off) % n
		}
	}
	raws := make([]string, n)
	for i, r := range cands {
		raws[i] = joinSegs(scalePatternSegs(r.kinds, short))
	}
	if !short && n > 0 { // self-check of the incremental naming against the original
		probe := cands[s.intn(n, "nameProbe")].kinds
		if a, b := joinSegs(scalePatternSegs(probe, false)), joinSegs(patternSegs(probe)); a != b {
			panic(fmt.Sprintf("generator self-check: scalePatternSegs %q != patternSegs %q", a, b))
		}
	}
	var extraText []string
	for nd := s.intn(6, "ndirty"); nd > 0 && n > 0; nd-- {
		i := scaleUnif(s, n, "dirtyAt")
		raws[i] = dirtyPattern(s, scalePatternSegs(cands[i].kinds, short))
		extraText = append(extraText, fmt.Sprintf("raw %q", raws[i]))
	}
	for _, i := range idx {
		c.regs = append(c.regs, regT{cands[i].method, raws[i]})
	}
	for ne := s.intn(5, "nextra"); ne > 0 && n > 0; ne-- {
		i := scaleUnif(s, n, "extraOf")
		rg := regT{cands[i].method, raws[i]}
		what := "duplicate"
		switch s.intn(6, "extraKind") {
		case 4:
			rg.method, what = badMethods[s.intn(len(badMethods), "badMethod")], "bad method"
		case 5:
			rg.raw, what = strings.TrimPrefix(rg.raw, "/"), "no leading slash"
		}
		at := scaleUnif(s, len(c.regs)+1, "extraAt")
		c.regs = append(c.regs, regT{})
		copy(c.regs[at+1:], c.regs[at:])
		c.regs[at] = rg
		extraText = append(extraText, fmt.Sprintf("%s %s %q at %d", what, rg.method, rg.raw, at))
	}

	// requests
	value := func() string {
		switch s.intn(8, "valMode") {
		case 4:
			f := fans[s.intn(len(fans), "valFan")]
			return f.sib(scaleUnif(s, f.w, "valSib"))
		case 5:
			return strings.Repeat("y", scaleLogU(s, 1, 300, "valLen"))
		case 6:
			return "s0"
		default:
			return genReqSeg(s)
		}
	}
	fill := func(kinds []string) []string {
		segs := make([]string, len(kinds))
		for i, k := range kinds {
			if k == varKind {
				segs[i] = value()
			} else {
				segs[i] = k
			}
		}
		return segs
	}
	pickFan := func() *scaleFan {
		if i := s.intn(len(fans)+2, "reqFan"); i < len(fans) {
			return fans[i]
		}
		return fans[0]
	}
	pickSib := func(f *scaleFan) int {
		switch s.intn(4, "sibMode") {
		case 2:
			return f.w - 1 - s.intn(min(f.w, 3), "sibFromEnd")
		case 3:
			return s.intn(min(f.w, 3), "sibFromStart")
		default:
			return scaleUnif(s, f.w, "sib")
		}
	}
	nreq := scaleLogU(s, rLo, rHi, "nreq")
	for i := 0; i < nreq && n > 0; i++ {
		var segs []string
		method := palette[0]
		through := func(f *scaleFan, sib string, tl scaleTail) {
			segs = append(append(fill(f.pre), sib), fill(tl.kinds)...)
			method = tl.methods[s.intn(len(tl.methods), "tailMethodIdx")]
		}
		switch mode := s.intn(12, "reqMode"); {
		case mode <= 4: // literal sibling, then a tail of the variable sibling
			f := pickFan()
			tails := f.varTails()
			if len(tails) == 0 {
				tails = f.tpls[s.intn(len(f.tpls), "reqTpl")]
			}
			through(f, f.sib(pickSib(f)), tails[s.intn(len(tails), "reqTail")])
		case mode <= 6: // a registered route
			r := cands[scaleUnif(s, n, "reqRoute")]
			segs, method = fill(r.kinds), r.method
		case mode == 7: // a spelling that is not a sibling
			f := pickFan()
			tails := f.varTails()
			if len(tails) == 0 {
				tails = f.tpls[0]
			}
			sib := []string{"s" + strconv.Itoa(f.w+s.intn(3, "beyond")), "zz", f.sib(0) + "0", genReqSeg(s)}[s.intn(4, "foreignSib")]
			through(f, sib, tails[s.intn(len(tails), "reqTail")])
		case mode == 8: // a literal sibling with a tail of any template
			f := pickFan()
			tp := f.tpls[s.intn(len(f.tpls), "reqTpl")]
			through(f, f.sib(pickSib(f)), tp[s.intn(len(tp), "reqTail")])
		case mode == 9: // ends at, or just below, the sibling level
			f := pickFan()
			segs = append(fill(f.pre), f.sib(pickSib(f)))
			if s.intn(2, "belowSib") == 1 {
				segs = append(segs, genReqSeg(s))
			}
		case mode == 10: // variable sibling's tail below a VALUE that spells no sibling, deep
			f := pickFan()
			tails := f.varTails()
			if len(tails) == 0 {
				tails = f.tpls[0]
			}
			through(f, value(), tails[s.intn(len(tails), "reqTail")])
		default:
			for j := s.intn(6, "npathseg"); j > 0; j-- {
				segs = append(segs, genReqSeg(s))
			}
		}
		switch s.intn(12, "pathEdit") {
		case 8:
			if len(segs) > 0 {
				segs = segs[:len(segs)-1]
			}
		case 9:
			segs = append(segs, genReqSeg(s))
		case 10:
			if len(segs) > 0 {
				segs[s.intn(len(segs), "editAt")] = genReqSeg(s)
			}
		case 11:
			if len(segs) > 0 { // near the end: the search is deep inside a subtree when it fails
				segs[len(segs)-1-s.intn(min(len(segs), 3), "editBack")] = genReqSeg(s)
			}
		}
		if len(segs) == 0 {
			segs = []string{""}
		}
		switch m := s.intn(10, "reqMethodMode"); {
		case m <= 5:
		case m <= 7:
			method = palette[s.intn(len(palette), "reqPalette")]
		case m == 8:
			method = genMethod(s)
		default:
			method = []string{"TRACE", "CONNECT", "get", "FOO"}[s.intn(4, "reqBadMethod")]
		}
		q := []string{"", "", "", "", "", "a=b", "p=/a/b/../c&v0=x", "/a"}[s.intn(8, "query")]
		c.reqs = append(c.reqs, reqT{method, dirtyPath(s, segs), q})
	}
	phasedText := "whole table first"
	if len(c.regs) > 0 && s.intn(2, "phased") == 1 {
		phasedText = "phased"
		c.after = make([]int, len(c.reqs))
		for i := range c.after {
			if s.intn(3, "afterAll") != 0 {
				c.after[i] = len(c.regs)
			} else {
				c.after[i] = scaleUnif(s, len(c.regs)+1, "after")
			}
		}
	}

	var b strings.Builder
	fmt.Fprintf(&b, "big=%v names=%s palette=%v width=%d target=%d routes=%d order[%s] %s extras%v fans[",
		big, map[bool]string{true: "v<depth>", false: "varName(prefix)"}[short], palette, w0, target, n, orderText, phasedText, extraText)
	for i, f := range fans {
		if i > 0 {
			b.WriteString(" ")
		}
		b.WriteString(f.String())
	}
	b.WriteString("]")
	c.desc = b.String()
	return c
}

func scaleGCD(a, b int) int {
	for b != 0 {
		a, b = b, a%b
	}
	return a
}

// ---------------------------------------------------------------- reference model at size

// scaleModel is the reference model of c09_test.go with the two quadratic parts replaced:
// duplicates are found through a map (same key: method + cleaned pattern), and expect is
// used without its dead-end classifier.
type scaleModel struct {
	model
	seen   map[string]int // method + " " + cleaned pattern -> id of the accepted registration
	joined []string       // parallel to routes: joinSegs(segs)
	nsegs  int
	widths map[string]int // cache of width(), dropped by every accepted registration
}

func newScaleModel() *scaleModel { return &scaleModel{seen: map[string]int{}} }

func (m *scaleModel) register(id int, method, raw string) (accept bool, why string) {
	switch {
	case !isValidMethod(method):
		return false, "unsupported method"
	case len(raw) == 0 || raw[0] != '/':
		return false, "pattern not starting with '/'"
	}
	segs := cleanSegs(raw)
	j := joinSegs(segs)
	if first, dup := m.seen[method+" "+j]; dup {
		return false, fmt.Sprintf("same method and pattern as #%d", first)
	}
	m.seen[method+" "+j] = id
	m.routes = append(m.routes, routeT{id, method, segs})
	m.joined = append(m.joined, j)
	m.nsegs += len(segs)
	m.widths = nil
	return true, ""
}

// expectScale is model.expect (same statement, same helpers) without the classifier.
func (m *scaleModel) expectScale(method string, segs []string) expectT {
	var e expectT
	others := map[string]bool{}
	found := false
	for _, r := range m.routes {
		if !r.matches(segs) {
			continue
		}
		if r.method != method {
			others[r.method] = true
			continue
		}
		e.nmatch++
		if !found {
			e.route, found = r, true
			continue
		}
		better, tie := prefer(r, e.route)
		if tie {
			panic(fmt.Sprintf("oracle: %v and %v are the same pattern — generator left the stated domain", r, e.route))
		}
		if better {
			e.route = r
		}
	}
	switch {
	case found:
		e.kind = outDispatch
		e.vars = map[string]string{}
		for i, p := range e.route.segs {
			if isVar(p) {
				e.vars[p[1:]] = segs[i]
			}
		}
	case len(others) > 0:
		e.kind = outNotAllowed
		for k := range others {
			e.allow = append(e.allow, k)
		}
		sort.Strings(e.allow)
	default:
		e.kind = outNotFound
	}
	return e
}

type scaleShape struct {
	deadEnd   bool // some literal child that fits the path has a variable sibling and nothing below it matches
	backWidth int  // widest such level (number of literal children) that the chosen route passes through the variable child of
	maxWidth  int  // widest level (literal children) the path's walk touches that also has a variable child
}

// width counts the literal children of the pattern prefix key (at depth) among the routes of
// method; cached until the next registration.
func (m *scaleModel) width(method, key string, depth int) int {
	ck := method + " " + key
	if w, ok := m.widths[ck]; ok {
		return w
	}
	lits := map[string]struct{}{}
	for r, q := range m.routes {
		if q.method != method || len(q.segs) <= depth || isVar(q.segs[depth]) {
			continue
		}
		if j := m.joined[r]; len(j) > len(key) && j[:len(key)] == key && j[len(key)] == '/' {
			lits[q.segs[depth]] = struct{}{}
		}
	}
	if m.widths == nil {
		m.widths = map[string]int{}
	}
	m.widths[ck] = len(lits)
	return len(lits)
}

// shape classifies a request (bookkeeping only, not part of the oracle): it walks the
// pattern prefixes of the method's routes that fit the path, level by level.
func (m *scaleModel) shape(method string, segs []string, exp expectT) scaleShape {
	type node struct {
		depth                   int
		hasVar, hasLit, through bool
	}
	nodes := map[string]*node{}
	for r, q := range m.routes {
		if q.method != method {
			continue
		}
		joined, off := m.joined[r], 0
		matched, matches := false, false
		for i := 0; i < len(q.segs) && i < len(segs); i++ {
			key := joined[:off]
			nd := nodes[key]
			if nd == nil {
				nd = &node{depth: i}
				nodes[key] = nd
			}
			if isVar(q.segs[i]) {
				nd.hasVar = true
			} else {
				if q.segs[i] != segs[i] {
					break
				}
				nd.hasLit = true
				if !matched {
					matched, matches = true, q.matches(segs)
				}
				if matches {
					nd.through = true
				}
			}
			off += 1 + len(q.segs[i])
		}
	}
	var sh scaleShape
	for key, nd := range nodes {
		if !nd.hasVar {
			continue
		}
		w := m.width(method, key, nd.depth)
		if w > sh.maxWidth {
			sh.maxWidth = w
		}
		if !nd.hasLit || nd.through {
			continue
		}
		sh.deadEnd = true
		if exp.kind != outDispatch || len(exp.route.segs) <= nd.depth || !isVar(exp.route.segs[nd.depth]) {
			continue
		}
		ck := ""
		if nd.depth > 0 {
			ck = joinSegs(exp.route.segs[:nd.depth])
		}
		if ck == key && w > sh.backWidth {
			sh.backWidth = w
		}
	}
	return sh
}

// ---------------------------------------------------------------- running a case

func sameExpect(a, b expectT) bool {
	if a.kind != b.kind || a.nmatch != b.nmatch {
		return false
	}
	switch a.kind {
	case outDispatch:
		return a.route.id == b.route.id && sameVars(a.vars, b.vars)
	case outNotAllowed:
		return strings.Join(a.allow, ",") == strings.Join(b.allow, ",")
	}
	return true
}

type scaleRun struct {
	h    *harness
	m    *scaleModel
	ref  *model // the original model, kept next to m on small tables (cross-check)
	desc string
	fail failFn
}

func (x *scaleRun) register(id int, rg regT) bool {
	accept, why := x.m.register(id, rg.method, rg.raw)
	if x.ref != nil {
		if a2, w2 := x.ref.register(id, rg.method, rg.raw); a2 != accept {
			x.fail("oracle self-check: scale model says accept=%v (%s), original model accept=%v (%s) for Handle(%q,%q)\ncase: %s",
				accept, why, a2, w2, rg.method, rg.raw, x.desc)
		}
	}
	h := x.h
	var err error
	if p := safely(func() { err = h.rt.Handle(rg.method, rg.raw, h.handler(id)) }); p != nil {
		x.fail("Handle(%q,%q) (registration #%d) panicked: %v\ncase: %s", rg.method, rg.raw, id, p, x.desc)
		return accept
	}
	if accept && err != nil {
		x.fail("registration #%d: Handle(%q,%q) returned %v but it is a new route with a supported method and a pattern starting with '/' (%d routes accepted before it)\ncase: %s",
			id, rg.method, rg.raw, err, len(x.m.routes)-1, x.desc)
	}
	if !accept && err == nil {
		x.fail("registration #%d: Handle(%q,%q) was accepted; the statement wants it rejected (%s)\ncase: %s", id, rg.method, rg.raw, why, x.desc)
	}
	if isValidMethod(rg.method) && len(rg.raw) > 0 && rg.raw[0] == '/' {
		cp := joinSegs(cleanSegs(rg.raw))
		if std := path.Clean(rg.raw); std != cp {
			x.fail("oracle self-check: own cleaner gives %q, path.Clean gives %q for pattern %q", cp, std, rg.raw)
		}
		tr := h.trees[rg.method]
		if tr == nil {
			tr = search.NewTree()
			h.trees[rg.method] = tr
		}
		if terr := tr.Add(cp, id); accept != (terr == nil) {
			x.fail("tree: Add(%q) (registration #%d) error=%v, expected accept=%v\ncase: %s", cp, id, terr, accept, x.desc)
		}
	}
	return accept
}

func (x *scaleRun) serve(rq reqT) (expectT, string, bool) {
	h, m := x.h, x.m
	segs := cleanSegs(rq.path)
	cp := joinSegs(segs)
	if std := path.Clean(rq.path); std != cp {
		x.fail("oracle self-check: own cleaner gives %q, path.Clean gives %q for path %q", cp, std, rq.path)
	}
	exp := m.expectScale(rq.method, segs)
	if x.ref != nil {
		if e2 := x.ref.expect(rq.method, segs); !sameExpect(exp, e2) {
			x.fail("oracle self-check: expectScale %s (%d matching) differs from the original expect %s (%d matching) for %s %q\ncase: %s",
				verdictSig(exp), exp.nmatch, verdictSig(e2), e2.nmatch, rq.method, cp, x.desc)
		}
	}
	ctx := func() string {
		var ms []string
		for _, r := range m.routes {
			if r.matches(segs) {
				if len(ms) == 12 {
					ms = append(ms, "…")
					break
				}
				ms = append(ms, r.String())
			}
		}
		return fmt.Sprintf("\nrequest: %s %q query %q (cleaned %q, %d segments)\nroutes matching the path (any method): %s\ntable: %d routes accepted so far, %d pattern segments\ncase: %s",
			rq.method, rq.path, rq.query, cp, len(segs), strings.Join(ms, "; "), len(m.routes), m.nsegs, x.desc)
	}
	r := newRequest(rq)
	w := httptest.NewRecorder()
	h.calls = h.calls[:0]
	if p := safely(func() { h.rt.ServeHTTP(w, r) }); p != nil {
		x.fail("ServeHTTP panicked: %v%s", p, ctx())
		return exp, cp, cp != rq.path
	}
	got := func() string {
		var cs []string
		for _, c := range h.calls {
			cs = append(cs, fmt.Sprintf("handler #%d vars %s", c.id, renderVars(c.vars)))
		}
		return fmt.Sprintf("status %d, Allow %q, calls [%s]", w.Code, w.Header().Values("Allow"), strings.Join(cs, "; "))
	}
	switch exp.kind {
	case outDispatch:
		if len(h.calls) != 1 || h.calls[0].id != exp.route.id {
			x.fail("dispatch: want handler of route %v (of %d matching), got %s%s", exp.route, exp.nmatch, got(), ctx())
		} else if !sameVars(h.calls[0].vars, exp.vars) {
			x.fail("path variables: route %v binds %s, handler received %s%s", exp.route, renderVars(exp.vars), renderVars(h.calls[0].vars), ctx())
		} else if w.Code != 299 {
			x.fail("dispatch: handler ran but the response status is %d, not the handler's 299%s", w.Code, ctx())
		}
	case outNotAllowed:
		if len(h.calls) != 0 || w.Code != http.StatusMethodNotAllowed {
			x.fail("no route of method %q matches but %v do: want 405, got %s%s", rq.method, exp.allow, got(), ctx())
		} else if have := allowSet(w.Header().Values("Allow")); strings.Join(have, ",") != strings.Join(exp.allow, ",") {
			x.fail("Allow header: want exactly %v, got %v (%s)%s", exp.allow, have, got(), ctx())
		}
	default:
		if len(h.calls) != 0 || w.Code != http.StatusNotFound {
			x.fail("no route of any method matches: want 404, got %s%s", got(), ctx())
		}
	}
	// tree cross-check with the cleaned path, as the router calls it
	if tr := h.trees[rq.method]; tr != nil {
		var res search.Result
		var ok bool
		if p := safely(func() { res, ok = tr.Search(cp) }); p != nil {
			x.fail("tree: Search(%q) panicked: %v%s", cp, p, ctx())
			return exp, cp, cp != rq.path
		}
		switch {
		case ok != (exp.kind == outDispatch):
			x.fail("tree: Search(%q) found=%v, reference says found=%v%s", cp, ok, exp.kind == outDispatch, ctx())
		case ok:
			if id, isInt := res.Item.(int); !isInt || id != exp.route.id {
				x.fail("tree: Search(%q) item #%v, reference chooses %v%s", cp, res.Item, exp.route, ctx())
			} else if !sameVars(res.Params, exp.vars) {
				x.fail("tree: Search(%q) params %s, reference %s%s", cp, renderVars(res.Params), renderVars(exp.vars), ctx())
			}
		}
	}
	return exp, cp, cp != rq.path
}

// The smallest "size" (sum of the pattern lengths of the accepted routes) that counts as
// large: 100 x the largest table of the small generators (12 routes of 4 segments).
const scaleLargeSegs = 100 * 12 * 4

// scaleWide: a level counts as wide from 65 literal siblings on (the small generators have at most 8 spellings).
const scaleWide = 65

func runScaleCase(c scaleCase, st *verifkit.Stats, fail failFn) {
	x := &scaleRun{h: newHarness(), m: newScaleModel(), desc: c.desc, fail: fail}
	if len(c.regs) <= 80 {
		x.ref = &model{}
	}
	order := make([]int, len(c.reqs))
	for i := range order {
		order[i] = i
	}
	afterOf := func(i int) int {
		if c.after == nil {
			return len(c.regs)
		}
		return c.after[i]
	}
	sort.SliceStable(order, func(a, b int) bool { return afterOf(order[a]) < afterOf(order[b]) })
	pfx := "req:"
	if c.big {
		pfx = "bigreq:"
	}
	var wideBack []string
	maxVars, maxLen, maxWidth, maxPath := 0, 0, 0, 0
	serveOne := func(rq reqT) {
		exp, cp, unclean := x.serve(rq)
		sh := x.m.shape(rq.method, cleanSegs(rq.path), exp)
		switch exp.kind {
		case outDispatch:
			st.Class(pfx + "dispatched")
			if len(exp.vars) > maxVars {
				maxVars = len(exp.vars)
			}
			if len(exp.route.segs) > maxLen {
				maxLen = len(exp.route.segs)
			}
			if len(exp.vars) >= 8 {
				st.Class(pfx + "dispatched-with>=8-vars")
			}
		case outNotAllowed:
			st.Class(pfx + "405")
			if len(exp.allow) >= 2 {
				st.Class(pfx + "405-allow>=2")
			}
		default:
			st.Class(pfx + "404")
		}
		if unclean {
			st.Class(pfx + "path-needs-cleaning")
		}
		if len(cp) > maxPath {
			maxPath = len(cp)
		}
		if exp.nmatch >= 2 {
			st.Class(pfx + "multi-match")
		}
		if sh.deadEnd {
			st.Class(pfx + "literal-dead-end")
		}
		if sh.maxWidth > maxWidth {
			maxWidth = sh.maxWidth
		}
		if sh.maxWidth >= scaleWide {
			st.Class(pfx + "walks-a-wide-level")
			if exp.kind != outDispatch {
				st.Class(pfx + "miss-at-a-wide-level")
			}
		}
		if sh.backWidth > 0 {
			st.Class(pfx + "backtrack-to-variable-sibling")
		}
		if sh.backWidth >= scaleWide {
			st.Class(pfx + "backtrack-to-variable-sibling-at-width>=65")
			wideBack = append(wideBack, rq.method+" "+cp)
		}
	}
	next, served := 0, 0
	for i, rg := range c.regs {
		for next < len(order) && afterOf(order[next]) <= i {
			serveOne(c.reqs[order[next]])
			next++
			served++
		}
		if served > 0 {
			st.Class("reg:after-serving")
		}
		ok := x.register(i, rg)
		switch {
		case ok:
			st.Class("reg:accepted")
		case !isValidMethod(rg.method):
			st.Class("reg:rejected-method")
		case len(rg.raw) == 0 || rg.raw[0] != '/':
			st.Class("reg:rejected-no-leading-slash")
		default:
			st.Class("reg:rejected-duplicate")
		}
	}
	for ; next < len(order); next++ {
		serveOne(c.reqs[order[next]])
	}

	// sizes the case reached
	nr, ns := len(x.m.routes), x.m.nsegs
	kind := "medium"
	if c.big {
		kind = "big"
	}
	st.Class("case:" + kind)
	st.Class(fmt.Sprintf("case:%s:routes-2^%d", kind, bits.Len(uint(nr))))
	st.Class(fmt.Sprintf("case:%s:widest-level-walked-2^%d", kind, bits.Len(uint(maxWidth))))
	st.ClassN("requests", len(c.reqs))
	st.ClassN("routes-accepted", nr)
	if maxLen >= 20 {
		st.Class("case:dispatched-to-pattern-of>=20-segments")
	}
	if maxVars >= 10 {
		st.Class("case:dispatched-with>=10-variables")
	}
	if maxPath >= 256 {
		st.Class("case:cleaned-path>=256-bytes")
	}
	if nr >= 1200 {
		st.Class("case:routes>=1200")
	}
	if ns >= scaleLargeSegs {
		st.Class("case:pattern-segments>=4800")
		if len(wideBack) > 0 {
			sort.Strings(wideBack)
			st.NonTrivial(c.desc + " requests[" + strings.Join(wideBack, "; ") + "]")
		}
	}
}

// ---------------------------------------------------------------- hand-written wide table

// Expectations written by hand from the statement; reference matcher and router are both
// held to them (as in TestVerifC09Examples), on a table that is wide (200 literal siblings
// next to a variable) and deep (30 segments, 15 variables).
func TestVerifC09ScaleExamples(t *testing.T) {
	logx.Disable()
	var regs []regT
	for k := 0; k < 200; k++ {
		regs = append(regs, regT{"GET", "/api/s" + strconv.Itoa(k) + "/x/y"}) // #0..#199
	}
	regs = append(regs,
		regT{"GET", "/api/:t/x/z"},  // #200
		regT{"POST", "/api/s7/x/z"}, // #201
		regT{"GET", "/api/s199"},    // #202
	)
	// #203: 30 segments, literal "k" and a variable alternating; #204 / #205: 30 segments that
	// differ only in the first and the last one
	var deep, lit, alt, deepPath, altPath []string
	deepVars := map[string]string{}
	for i := 0; i < 30; i++ {
		if i%2 == 0 {
			deep, deepPath = append(deep, "k"), append(deepPath, "k")
		} else {
			deep, deepPath = append(deep, ":d"+strconv.Itoa(i)), append(deepPath, "val"+strconv.Itoa(i))
			deepVars["d"+strconv.Itoa(i)] = "val" + strconv.Itoa(i)
		}
		lit, alt, altPath = append(lit, "m"), append(alt, "m"), append(altPath, "m")
	}
	alt[0], alt[29], altPath[29] = ":w", "n", "n"
	regs = append(regs, regT{"GET", joinSegs(deep)}, regT{"GET", joinSegs(lit)}, regT{"GET", joinSegs(alt)})

	type want struct {
		method, path string
		kind         int
		route        int
		vars         map[string]string
		allow        []string
	}
	wants := []want{
		{"GET", "/api/s7/x/y", outDispatch, 7, nil, nil},
		{"GET", "/api/s7/x/z", outDispatch, 200, map[string]string{"t": "s7"}, nil}, // s7 is a literal sibling, its subtree has no x/z for GET
		{"GET", "/api/s199/x/z", outDispatch, 200, map[string]string{"t": "s199"}, nil},
		{"GET", "/api/s0/x/z", outDispatch, 200, map[string]string{"t": "s0"}, nil},
		{"GET", "/api/zz/x/z", outDispatch, 200, map[string]string{"t": "zz"}, nil},
		{"GET", "/api/zz/x/y", outNotFound, 0, nil, nil},
		{"GET", "/api/s200/x/y", outNotFound, 0, nil, nil},
		{"PUT", "/api/s7/x/z", outNotAllowed, 0, nil, []string{"GET", "POST"}},
		{"POST", "/api/s8/x/z", outNotAllowed, 0, nil, []string{"GET"}},
		{"POST", "/api/s7/x/z", outDispatch, 201, nil, nil},
		{"GET", "/api/s199", outDispatch, 202, nil, nil},
		{"GET", "/api/s198", outNotFound, 0, nil, nil},
		{"GET", "//api/./s150/q/../x/y/", outDispatch, 150, nil, nil},
		{"GET", joinSegs(deepPath), outDispatch, 203, deepVars, nil},
		{"GET", joinSegs(lit), outDispatch, 204, nil, nil},
		{"GET", joinSegs(altPath), outDispatch, 205, map[string]string{"w": "m"}, nil}, // 29 literal segments deep before the literal branch fails
		{"DELETE", joinSegs(altPath), outNotAllowed, 0, nil, []string{"GET"}},
		{"GET", joinSegs(altPath[:29]), outNotFound, 0, nil, nil},
	}
	x := &scaleRun{h: newHarness(), m: newScaleModel(), ref: &model{}, desc: "hand-written wide table",
		fail: func(format string, a ...any) { t.Errorf(format, a...) }}
	for i, rg := range regs {
		if !x.register(i, rg) {
			t.Fatalf("example route %v not accepted by the model", rg)
		}
	}
	for _, wn := range wants {
		e, _, _ := x.serve(reqT{wn.method, wn.path, ""})
		ok := e.kind == wn.kind
		if ok && wn.kind == outDispatch {
			ok = e.route.id == wn.route && sameVars(e.vars, wn.vars)
		}
		if ok && wn.kind == outNotAllowed {
			ok = strings.Join(e.allow, ",") == strings.Join(wn.allow, ",")
		}
		if !ok {
			t.Errorf("reference matcher disagrees with the hand-written expectation for %s %q: got kind=%d route=%v vars=%s allow=%v",
				wn.method, wn.path, e.kind, e.route, renderVars(e.vars), e.allow)
		}
	}
	sh := x.m.shape("GET", cleanSegs("/api/s7/x/z"), x.m.expectScale("GET", cleanSegs("/api/s7/x/z")))
	if !sh.deadEnd || sh.backWidth != 200 {
		t.Errorf("classifier: GET /api/s7/x/z should be a dead end of literal sibling s7 resolved through the variable sibling at width 200, got %+v", sh)
	}
}

// ---------------------------------------------------------------- rapid property

func TestVerifC09Scale(t *testing.T) {
	logx.Disable()
	st := verifkit.New("scale")
	defer st.Flush()
	// a case is big when `rarity` fair coin flips all come up 1: 5 = about one case in 28
	rarity := verifkit.EnvInt("scale_rarity", 5)
	rapid.Check(t, func(t *rapid.T) {
		st.Eval()
		s := rapidSrc{t}
		big := true
		for i := 0; i < rarity && big; i++ {
			big = s.intn(2, "big") == 1
		}
		runScaleCase(genScaleCase(s, big), st, t.Fatalf)
	})
}
