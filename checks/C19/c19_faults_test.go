//go:build verif

package redis_test

// C19, unit `faults` — the lock under store faults on single commands.
//
// The other C19 units never make the store fail.  Here the same kind of state machine
// (2-4 RedisLock instances on one key plus one on another key, miniredis, acquire / release /
// setExpire / forward) draws, for every Acquire / AcquireCtx / Release / ReleaseCtx call, a
// FAULT on the one store command the call sends:
//
//	a         the command fails before it reaches the server (go-redis hook returns an
//	          error without calling next: nothing executed)
//	b         the server executes the command, the reply is lost (hook calls next, then
//	          returns an error)
//	c         the server answers the script command with an error reply without executing
//	          it (server pre-hook writing an error: the mechanism of miniredis.SetError,
//	          which itself cannot be used because it replaces the pre-hook that counts)
//	c-nested  the server fails the n-th redis.call inside the script (error raised in the
//	          script, script aborted, error reply)
//	c-odd-reply  the server answers the script command, without executing it, with a reply
//	          of a type the script never produces (an integer to the lock script, a string
//	          to the release script)
//	d         the caller's context is already cancelled / its deadline has passed
//
// The harness has a miniredis and a go-zero client of its own (another address than the
// other units: own go-redis client, own breaker, own hooks).  The fault hook is added with
// redis.WithHook, i.e. it sits inside go-zero's breaker hook: every injected failure is a
// failure to the breaker.  After every faulty call the harness sends successful PINGs so
// that failures never outnumber 5 + accepts/2 (the breaker's rejection condition); should
// the breaker reject a call all the same, that is a fault of kind (a) (nothing executed)
// and is judged as such.
//
// Oracle (from the statement; model = (holder, expiry) of the other units):
//  1. Acquire never returns true while another instance certainly holds the key unexpired;
//  2. an Acquire that returned false / an error under a, c, d left the key (presence, value,
//     TTL) as it was;
//  3. a Release that returned false / an error under a, c, d freed nothing;
//  4. a call that returned true is judged exactly like a call without a fault (key carries the
//     caller's id, TTL = seconds*1000+500 ms; Release: the key is free);
//  5. never (true, non-nil error); no panic.
//
// After kind b the statement leaves the outcome open where the script's effect depends on
// whether it ran: the set of permitted store states is computed from the model ("may hold"),
// the store must be in it, and the model continues from the state found (re-synchronisation,
// counted as resync:*).  Where the outcome is not open even then (another instance holds the
// key: neither Acquire nor Release may touch it; a free key stays free under Release) the
// check is strict.

import (
	"context"
	"errors"
	"fmt"
	"strings"
	"sync"
	"sync/atomic"
	"testing"
	"time"

	"github.com/alicebob/miniredis/v2"
	"github.com/alicebob/miniredis/v2/server"
	red "github.com/redis/go-redis/v9"
	"github.com/zeromicro/go-zero/core/breaker"
	"github.com/zeromicro/go-zero/core/logx"
	"github.com/zeromicro/go-zero/core/stores/redis"
	"github.com/zeromicro/go-zero/internal/verifkit"
	"pgregory.net/rapid"
)

var (
	errC19FPre  = errors.New("verif: injected client-side failure (command not sent)")
	errC19FPost = errors.New("verif: injected client-side failure (reply dropped after execution)")
)

const (
	c19FSrvMsg    = "ERR verif: injected server error (script not executed)"
	c19FNestedMsg = "ERR verif: injected server error inside the script"
)

type c19FKind int

const (
	c19FNone c19FKind = iota
	c19FPre
	c19FPost
	c19FSrv
	c19FNested
	c19FOdd
	c19FCancelled
	c19FDeadline
	c19FRejected // not generated: the client's breaker rejected the call (nothing executed)
)

func (k c19FKind) String() string {
	return [...]string{"none", "a", "b", "c", "c-nested", "c-odd-reply", "d-cancelled", "d-deadline", "a-breaker"}[k]
}

func (k c19FKind) ctx() bool { return k == c19FCancelled || k == c19FDeadline }

// c19FEnv: the fault server and its one go-zero client.
type c19FEnv struct {
	mr    *miniredis.Miniredis
	store *redis.Redis

	passed atomic.Int64 // script commands that reached the harness hook (past the breaker)
	srvTop atomic.Int64 // top-level EVAL/EVALSHA commands the server received
	srvRun atomic.Int64 // ... of which it started to execute

	armPre    atomic.Int32 // fail the next script command before sending it
	armPost   atomic.Int32 // let the next script command execute, then report an error
	armSrv    atomic.Int32 // answer the next top-level script command with an error reply
	armNested atomic.Int32 // n > 0: fail the n-th redis.call of the next script
	armOdd    atomic.Int32 // answer the next top-level script command with an integer (1) / a string (2)
	nestedN   atomic.Int32
	fired     atomic.Int32

	mu        sync.Mutex
	postInner error // what next returned when the reply was dropped
}

type c19FHook struct{ e *c19FEnv }

func (h c19FHook) DialHook(next red.DialHook) red.DialHook { return next }

func (h c19FHook) ProcessPipelineHook(next red.ProcessPipelineHook) red.ProcessPipelineHook {
	return next
}

func (h c19FHook) ProcessHook(next red.ProcessHook) red.ProcessHook {
	return func(ctx context.Context, cmd red.Cmder) error {
		name := strings.ToLower(cmd.Name())
		if name != "evalsha" && name != "eval" {
			return next(ctx, cmd)
		}
		e := h.e
		e.passed.Add(1)
		if e.armPre.CompareAndSwap(1, 0) {
			e.fired.Store(1)
			cmd.SetErr(errC19FPre)
			return errC19FPre
		}
		err := next(ctx, cmd)
		if e.armPost.CompareAndSwap(1, 0) {
			e.fired.Store(1)
			e.mu.Lock()
			e.postInner = err
			e.mu.Unlock()
			cmd.SetErr(errC19FPost)
			return errC19FPost
		}
		return err
	}
}

func (e *c19FEnv) preHook(peer *server.Peer, cmd string, _ ...string) bool {
	if c19Nested(peer) { // redis.call inside a script
		if n := e.armNested.Load(); n > 0 && e.nestedN.Add(1) == n {
			e.armNested.Store(0)
			e.fired.Store(1)
			peer.WriteError(c19FNestedMsg)
			return true
		}
		return false
	}
	if cmd == "EVAL" || cmd == "EVALSHA" {
		e.srvTop.Add(1)
		if e.armSrv.CompareAndSwap(1, 0) {
			e.fired.Store(1)
			peer.WriteError(c19FSrvMsg)
			return true
		}
		if v := e.armOdd.Swap(0); v != 0 {
			e.fired.Store(1)
			if v == 1 {
				peer.WriteInt(7)
			} else {
				peer.WriteBulk("x")
			}
			return true
		}
		e.srvRun.Add(1)
	}
	return false
}

func (e *c19FEnv) disarm() {
	e.armPre.Store(0)
	e.armPost.Store(0)
	e.armSrv.Store(0)
	e.armNested.Store(0)
	e.armOdd.Store(0)
	e.nestedN.Store(0)
	e.fired.Store(0)
	e.mu.Lock()
	e.postInner = nil
	e.mu.Unlock()
}

// pad sends n successful PINGs: accepted calls for the client's breaker.
func (e *c19FEnv) pad(n int) {
	for i := 0; i < n; i++ {
		e.store.Ping()
	}
}

var (
	c19FOnce sync.Once
	c19FMain *c19FEnv
	c19FErr  error
	c19FSeq  atomic.Int64
)

func c19FServer(tb failer) *c19FEnv {
	c19FOnce.Do(func() {
		mr, err := miniredis.Run()
		if err != nil {
			c19FErr = err
			return
		}
		e := &c19FEnv{mr: mr}
		mr.Server().SetPreHook(e.preHook)
		e.store = redis.New(mr.Addr(), redis.WithHook(c19FHook{e}))
		e.pad(100)
		// both scripts into the server's cache: from now on a call is one EVALSHA
		warm := redis.NewRedisLock(e.store, "c19f:warmup")
		warm.SetExpire(1)
		warm.Acquire()
		warm.Release()
		c19FMain = e
	})
	if c19FErr != nil {
		tb.Skipf("inconclusive: cannot start miniredis: %v", c19FErr)
	}
	c19FMain.disarm()
	return c19FMain
}

// c19FWorld: the model of the other units (c19World: holder, expiry, log, abort/guard) on
// the fault server, plus what the fault oracle needs.
type c19FWorld struct {
	*c19World
	e      *c19FEnv
	tokens []string // value the store carried after a successful Acquire of instance i ("" = not seen yet)
	// bookkeeping for the non-trivial rule (not used by the oracle)
	underHolder []bool // per key: a fault hit a call while ANOTHER instance held the key
	nt          int    // ... and later a call on that key returned true
	faults      int
	resyncs     int
}

func c19FNewWorld(f failer, st *verifkit.Stats, nOnKey []int, secs []int) *c19FWorld {
	e := c19FServer(f)
	e.mr.FlushAll()
	seq := c19FSeq.Add(1)
	w := &c19FWorld{c19World: &c19World{f: f, st: st, mr: e.mr}, e: e}
	idx := 0
	for k, n := range nOnKey {
		kn := fmt.Sprintf("c19f:%d:%c", seq, 'a'+k)
		w.keys = append(w.keys, &c19Key{name: kn, holder: -1})
		for j := 0; j < n; j++ {
			in := &c19Inst{name: fmt.Sprintf("%c%d", 'a'+k, j), key: k, lock: redis.NewRedisLock(e.store, kn)}
			if s := secs[idx]; s >= 0 {
				in.lock.SetExpire(s)
				in.sec = s
			}
			idx++
			w.inst = append(w.inst, in)
		}
	}
	w.tokens = make([]string, len(w.inst))
	w.underHolder = make([]bool, len(w.keys))
	fmt.Fprintf(&w.log, "inst=%v sec=%v:", nOnKey, secs)
	return w
}

type c19FSnap struct {
	exists bool
	ttl    time.Duration
	val    string
}

func (s c19FSnap) String() string {
	if !s.exists {
		return "absent"
	}
	return fmt.Sprintf("value %q ttl %v", s.val, s.ttl)
}

func (w *c19FWorld) snap(k *c19Key) c19FSnap {
	if !w.mr.Exists(k.name) {
		return c19FSnap{}
	}
	v, _ := w.mr.Get(k.name)
	return c19FSnap{true, w.mr.TTL(k.name), v}
}

func c19FMs(n int64) time.Duration { return time.Duration(n) * time.Millisecond }

// invoke calls the lock; a panic of the code under test is reported, not propagated.
func (w *c19FWorld) invoke(l *redis.RedisLock, acq, useCtx bool, ctx context.Context) (got bool, err error, pan any) {
	defer func() { pan = recover() }()
	switch {
	case acq && useCtx:
		got, err = l.AcquireCtx(ctx)
	case acq:
		got, err = l.Acquire()
	case useCtx:
		got, err = l.ReleaseCtx(ctx)
	default:
		got, err = l.Release()
	}
	return
}

// fwd: clock advance that never lands exactly on a lease end (that instant is ambiguous by
// the statement and is the business of the unit `machine`; here it would only blur which
// outcomes a fault leaves open).
func (w *c19FWorld) fwd(d int64) {
	if d < 1 {
		d = 1
	}
	for again := true; again; {
		again = false
		for _, k := range w.keys {
			if k.holder >= 0 && w.now+d == k.expiry {
				d++
				again = true
			}
		}
	}
	w.forward(d)
}

// call: one API call of instance i with the drawn fault, judged.
func (w *c19FWorld) call(i int, acq, useCtx bool, fk c19FKind, nestedAt int) bool {
	in := w.inst[i]
	k := w.keys[in.key]
	e := w.e
	state, h := w.view(k)
	before := w.snap(k)
	if fk.ctx() {
		useCtx = true
	}
	api := map[bool]string{true: "Acquire", false: "Release"}[acq]
	if useCtx {
		api += "Ctx"
	}

	e.disarm()
	ctx := context.Background()
	var cancel context.CancelFunc
	switch {
	case fk == c19FCancelled:
		ctx, cancel = context.WithCancel(ctx)
		cancel()
	case fk == c19FDeadline:
		ctx, cancel = context.WithDeadline(ctx, time.Unix(1, 0)) // long past, whatever the wall clock says
	case useCtx:
		ctx, cancel = context.WithCancel(ctx)
	}
	if cancel != nil {
		defer cancel()
	}
	switch fk {
	case c19FPre:
		e.armPre.Store(1)
	case c19FPost:
		e.armPost.Store(1)
	case c19FSrv:
		e.armSrv.Store(1)
	case c19FNested:
		e.armNested.Store(int32(nestedAt))
	case c19FOdd:
		if acq {
			e.armOdd.Store(1) // the lock script answers "OK" or null
		} else {
			e.armOdd.Store(2) // the release script answers an integer
		}
	}
	passed0, top0, run0 := e.passed.Load(), e.srvTop.Load(), e.srvRun.Load()
	t0 := time.Now()
	got, err, pan := w.invoke(in.lock, acq, useCtx, ctx)
	took := time.Since(t0)
	fired := e.fired.Load() == 1
	e.mu.Lock()
	postInner := e.postInner
	e.mu.Unlock()
	e.disarm()
	reached, top, run := e.passed.Load()-passed0, e.srvTop.Load()-top0, e.srvRun.Load()-run0

	res := tf(got)
	if err != nil {
		res += "/err"
	}
	if fk == c19FNone {
		fmt.Fprintf(&w.log, " %s(%s)=%s", api, in.name, res)
	} else {
		at := ""
		if fk == c19FNested {
			at = fmt.Sprintf("@%d", nestedAt)
		}
		fmt.Fprintf(&w.log, " %s(%s)!%s%s=%s", api, in.name, fk, at, res)
	}
	if pan != nil {
		w.fail("%s by %s under fault %s panicked: %v", api, in.name, fk, pan)
	}
	if got && err != nil {
		w.fail("%s by %s under fault %s returned true together with the error %v", api, in.name, fk, err)
	}

	// which fault really happened
	eff := fk
	if fk != c19FNone && !fk.ctx() && !fired {
		// e.g. the second redis.call of a release script that stops after its first
		eff = c19FNone
		w.class("fault-not-delivered:" + fk.String())
	}
	if err != nil && reached == 0 && top == 0 && errors.Is(err, breaker.ErrServiceUnavailable) {
		eff = c19FRejected
		w.st.Note("the client's breaker rejected a call (judged as fault kind a); history: %s", w.log.String())
	}
	if eff == c19FNone && err != nil {
		var reply red.Error
		if errors.As(err, &reply) {
			w.fail("%s returned error %v", api, err)
		}
		w.abort("%s returned transport/client error %v", api, err)
	}
	// go-redis re-sends a command after its 3 s read timeout (see scriptRuns in c19_test.go):
	// decided by counting at the server.  Only a call without a fault is abandoned for that: a
	// call hit by a fault is judged by what it reported and by the store, however many commands
	// it sent (a lock that tries again after an error is not wrong by the statement).
	if eff == c19FNone && top > 1 {
		w.st.Class("inconclusive:transport-retry")
		w.abort("%s: the server received %d script commands for one call (client re-sent a command; the call took %v)",
			api, top, took.Round(time.Millisecond))
	}
	if top > 1 || (top > 0 && (eff == c19FPre || eff == c19FRejected)) {
		w.class("fault:further-script-commands-after-the-fault")
	}
	if eff == c19FPost {
		var reply red.Error
		if run < 1 || (postInner != nil && !errors.Is(postInner, red.Nil) && !errors.As(postInner, &reply)) {
			w.abort("%s under fault b: the command was not executed (executions %d, inner error %v)", api, run, postInner)
		}
	}
	if took >= 2500*time.Millisecond {
		w.st.Class("inconclusive:slow-call")
		w.abort("%s took %v of wall time: a client re-send cannot be excluded", api, took.Round(time.Millisecond))
	}

	under := "free"
	if state == c19Held {
		under = "held-by-other"
		if h == i {
			under = "held-by-self"
		}
	}
	if eff == c19FNone {
		w.class("call:no-fault:" + api)
	} else {
		w.faults++
		w.class("fault:" + eff.String() + ":" + api)
		w.class("fault-under:" + under + ":" + map[bool]string{true: "acquire", false: "release"}[acq])
		w.class("outcome:" + eff.String() + ":" + res)
	}

	switch {
	case got || eff == c19FNone:
		// judged like a call without a fault (a call that reports true under a fault - the
		// context was ignored, the lock retried - has to be what true means without one; a call
		// that reports false under a fault is never asked why: "succeeds only if")
		var msg string
		if acq {
			msg = w.applyAcquire(i, got)
		} else {
			msg = w.applyRelease(i, got)
		}
		if msg != "" {
			if eff != c19FNone {
				msg += fmt.Sprintf(" [call under fault %s: whatever failed, a call that reports %v must be what a fault-free call reporting %v is]", eff, got, got)
			}
			w.fail("%s", msg)
		}
		w.checkState()
		if acq && got && !c19APIOnly {
			w.ownToken(i, k, api)
		}
	case eff == c19FPost:
		w.judgeLost(i, acq, api, state, h, before)
	default:
		// a, c, c-nested, d, breaker rejection, reported false (with or without an error):
		// nothing may have changed
		if after := w.snap(k); after != before && !c19APIOnly {
			what := "an Acquire that fails must leave the key as it was"
			if !acq {
				what = "a Release that fails frees nothing"
			}
			w.fail("%s by %s returned (%v, %v) under fault %s, yet the key %s changed: before %v, after %v (%s)",
				api, in.name, got, err, eff, k.name, before, after, what)
		}
		w.checkState()
	}

	if eff != c19FNone {
		e.pad(3) // keeps the client's breaker closed (every injected failure counts for it)
		if state == c19Held && h != i {
			w.underHolder[in.key] = true
		}
	} else if got && w.underHolder[in.key] {
		w.nt++
	}
	return got
}

// ownToken: after a successful Acquire the key carries the instance's id - the same value
// every time, and (as far as seen) nobody else's.
func (w *c19FWorld) ownToken(i int, k *c19Key, api string) {
	v, err := w.mr.Get(k.name)
	if err != nil {
		return // reported by checkState
	}
	if w.tokens[i] == "" {
		w.tokens[i] = v
		return
	}
	if v != w.tokens[i] {
		w.fail("%s by %s returned true but the key carries %q, not the id %q it carried after %s's earlier Acquire",
			api, w.inst[i].name, v, w.tokens[i], w.inst[i].name)
	}
}

// judgeLost: fault kind b (executed, reply lost), the call reported false / an error.
func (w *c19FWorld) judgeLost(i int, acq bool, api string, state, h int, before c19FSnap) {
	in := w.inst[i]
	k := w.keys[in.key]
	after := w.snap(k)
	if c19APIOnly {
		// resynchronise only
		if state == c19Free && acq && after.exists {
			w.grant(k, i)
		} else if state == c19Held && h == i && !after.exists {
			k.holder, k.tieHeld = -1, false
		} else if state == c19Held && h == i && acq && after.ttl == c19FMs(c19Lease(in.sec)) {
			w.grant(k, i)
		}
		return
	}
	lease := c19FMs(c19Lease(in.sec))
	switch {
	case state == c19Held && h != i:
		// not open: whether or not the script ran, the holder's key is untouched
		if after != before {
			w.fail("%s by %s (executed, reply lost) while %s holds %s with %d ms left: the key changed, before %v, after %v",
				api, in.name, w.inst[h].name, k.name, k.expiry-w.now, before, after)
		}
	case state == c19Free && !acq:
		if after.exists {
			w.fail("%s by %s (executed, reply lost) on the free key %s: the key is now set (%v)", api, in.name, k.name, after)
		}
	case state == c19Free && acq:
		// open: the key is free or the caller's, with a full lease
		w.resyncs++
		if !after.exists {
			w.class("resync:acquire-lost-reply:key-free")
			break
		}
		if after.ttl != lease {
			w.fail("%s by %s (executed, reply lost) on the free key %s: key set with ttl %v, the lease of %s is %v (seconds*1000+500 ms)",
				api, in.name, k.name, after.ttl, in.name, lease)
		}
		for j, tok := range w.tokens {
			if j != i && tok != "" && w.inst[j].key == in.key && tok == after.val && w.tokens[i] != after.val {
				w.fail("%s by %s (executed, reply lost) on the free key %s: the key now carries the id of %s", api, in.name, k.name, w.inst[j].name)
			}
		}
		if w.tokens[i] != "" && after.val != w.tokens[i] {
			w.fail("%s by %s (executed, reply lost): the key carries %q, not the id %q of %s", api, in.name, after.val, w.tokens[i], in.name)
		}
		w.tokens[i] = after.val
		w.grant(k, i)
		w.class("resync:acquire-lost-reply:caller-holds")
	case acq: // held by the caller: lease as it was, or refreshed
		w.resyncs++
		rem := c19FMs(k.expiry - w.now)
		if !after.exists || after.val != before.val || (after.ttl != rem && after.ttl != lease) {
			w.fail("re-%s by the holder %s (executed, reply lost): key is %v; it must still be %s's with the old (%v) or the refreshed (%v) lease",
				api, in.name, after, in.name, rem, lease)
		}
		if after.ttl == lease {
			w.grant(k, i)
			w.class("resync:refresh-lost-reply:refreshed")
		} else {
			w.class("resync:refresh-lost-reply:lease-as-before")
		}
	default: // Release by the holder: freed, or untouched
		w.resyncs++
		switch {
		case !after.exists:
			k.holder, k.tieHeld = -1, false
			w.class("resync:release-lost-reply:freed")
		case after == before:
			w.class("resync:release-lost-reply:still-held")
		default:
			w.fail("%s by the holder %s (executed, reply lost): the key is neither free nor untouched: before %v, after %v", api, in.name, before, after)
		}
	}
	w.checkState()
}

// generators ---------------------------------------------------------------

// drawFault: none 2/6, a..d 1/6 each (c: top-level or inside the script).
func c19FDrawFault(t *rapid.T) (c19FKind, int) {
	switch rapid.IntRange(0, 5).Draw(t, "fault") {
	case 0, 1:
		return c19FNone, 0
	case 2:
		return c19FPre, 0
	case 3:
		return c19FPost, 0
	case 4:
		switch rapid.IntRange(0, 4).Draw(t, "serverFault") {
		case 0, 1:
			return c19FNested, rapid.IntRange(1, 2).Draw(t, "redisCallNo")
		case 2:
			return c19FOdd, 0
		}
		return c19FSrv, 0
	default:
		if rapid.Bool().Draw(t, "deadline") {
			return c19FDeadline, 0
		}
		return c19FCancelled, 0
	}
}

func c19FDrawRealFault(t *rapid.T) (c19FKind, int) {
	k := rapid.SampledFrom([]c19FKind{c19FPre, c19FPost, c19FSrv, c19FNested, c19FOdd, c19FCancelled, c19FDeadline}).Draw(t, "faultKind")
	if k == c19FNested {
		return k, rapid.IntRange(1, 2).Draw(t, "redisCallNo")
	}
	return k, 0
}

func TestVerifC19Faults(t *testing.T) {
	logx.Disable()
	st := verifkit.New("faults")
	defer st.Flush()
	rapid.Check(t, func(t *rapid.T) {
		st.Eval()
		n0 := rapid.IntRange(2, 4).Draw(t, "instancesOnA")
		secs := rapid.SliceOfN(c19InitSecGen, n0+1, n0+1).Draw(t, "initialSeconds")
		w := c19FNewWorld(t, st, []int{n0, 1}, secs)
		all := rapid.IntRange(0, n0)
		onA := rapid.IntRange(0, n0-1)
		pick := func(t *rapid.T) int {
			if rapid.IntRange(0, 5).Draw(t, "otherKey") == 0 {
				return all.Draw(t, "inst")
			}
			return onA.Draw(t, "inst")
		}
		clean := func(i int, acq bool) bool { return w.call(i, acq, false, c19FNone, 0) }
		shapes := 0
		actions := map[string]func(*rapid.T){
			"acquire": func(t *rapid.T) {
				i := pick(t)
				fk, at := c19FDrawFault(t)
				w.call(i, true, rapid.Bool().Draw(t, "ctxAPI"), fk, at)
			},
			"release": func(t *rapid.T) {
				i := pick(t)
				fk, at := c19FDrawFault(t)
				w.call(i, false, rapid.Bool().Draw(t, "ctxAPI"), fk, at)
			},
			"setExpire": func(t *rapid.T) { w.setExpire(pick(t), c19SecGen.Draw(t, "seconds")) },
			"forward": func(t *rapid.T) {
				var d int64
				switch rapid.IntRange(0, 2).Draw(t, "mode") {
				case 0:
					d = rapid.Int64Range(1, 1200).Draw(t, "ms")
				case 1: // around the end of a running lease
					k := w.keys[rapid.IntRange(0, 1).Draw(t, "key")]
					rem := int64(500)
					if s, _ := w.view(k); s != c19Free {
						rem = k.expiry - w.now
					}
					d = rem + rapid.SampledFrom([]int64{-1, 1}).Draw(t, "delta")
				default:
					d = c19Lease(c19SecGen.Draw(t, "s")) + rapid.SampledFrom([]int64{-1, 1}).Draw(t, "delta")
				}
				w.fwd(d)
			},
			// forced shape: H holds the key; a call by H or by a competitor is hit by a fault;
			// then calls without a fault show who holds the key
			"shapeFaultWhileHeld": func(t *rapid.T) {
				shapes++
				k := w.keys[0]
				hd := onA.Draw(t, "H")
				c := (hd + rapid.IntRange(1, n0-1).Draw(t, "Coff")) % n0
				if s, cur := w.view(k); s != c19Free && cur != hd {
					w.fwd(k.expiry - w.now + 1)
				}
				if !clean(hd, true) {
					w.fail("shape: %s could not acquire", w.inst[hd].name)
				}
				if rapid.Bool().Draw(t, "wait") {
					w.fwd(rapid.Int64Range(1, k.expiry-w.now-1).Draw(t, "within"))
				}
				who := c
				if rapid.IntRange(0, 2).Draw(t, "faultOnHolder") == 0 {
					who = hd
				}
				fk, at := c19FDrawRealFault(t)
				w.call(who, rapid.Bool().Draw(t, "faultedCallIsAcquire"), rapid.Bool().Draw(t, "ctxAPI"), fk, at)
				// the model now says who holds (after a lost reply: what the store says, within
				// what the statement permits); every probe is judged against it
				for n := rapid.IntRange(1, 3).Draw(t, "probes"); n > 0; n-- {
					useCtx := rapid.Bool().Draw(t, "probeCtxAPI")
					clean := func(i int, acq bool) bool { return w.call(i, acq, useCtx, c19FNone, 0) }
					switch rapid.IntRange(0, 4).Draw(t, "probe") {
					case 0:
						clean(c, true)
					case 1:
						clean(hd, false)
					case 2:
						clean(hd, true)
					case 3:
						clean(c, false)
					default:
						if s, _ := w.view(k); s != c19Free {
							w.fwd(k.expiry - w.now + 1)
						}
						clean(c, true)
					}
				}
			},
		}
		for name, f := range actions {
			f := f
			actions[name] = func(t *rapid.T) { w.f = t; w.guard(func() { f(t) }) }
		}
		t.Repeat(actions)
		st.ClassN("shape:fault-while-held", shapes)
		st.ClassN("resync:total", w.resyncs)
		if w.dead {
			return
		}
		if w.faults > 0 {
			st.Class("case:with-fault")
		}
		if w.nt > 0 {
			st.Class("case:fault-under-another-holder-then-success")
			st.NonTrivial(w.log.String())
		}
	})
}

// One history per fault kind as a plain test: B's call fails while A holds, A is unaffected;
// the holder's own Release fails (a, c, d: still held; b: freed although it saw an error, and
// a competitor may then take the key).
func TestVerifC19FaultsScripted(t *testing.T) {
	logx.Disable()
	st := verifkit.New("faults-scripted")
	defer st.Flush()
	for _, fk := range []c19FKind{c19FPre, c19FPost, c19FSrv, c19FNested, c19FOdd, c19FCancelled, c19FDeadline} {
		for _, useCtx := range []bool{false, true} {
			st.Eval()
			w := c19FNewWorld(t, st, []int{3}, []int{2, 1, -1})
			const a, b, c = 0, 1, 2
			w.guard(func() {
				w.call(a, true, useCtx, c19FNone, 0)       // true
				w.call(b, true, useCtx, fk, 2)             // fails; a holds
				w.call(b, false, useCtx, fk, 1)            // fails; a holds
				w.call(c, true, useCtx, c19FNone, 0)       // false
				w.call(a, true, useCtx, fk, 2)             // holder's refresh fails: lease old or (b) new
				w.call(a, false, useCtx, fk, 2)            // holder's release fails: still held or (b) freed
				got := w.call(b, true, false, c19FNone, 0) // b: true exactly if the key was freed
				w.call(a, false, useCtx, c19FNone, 0)      // a: true exactly if it still held
				if s, _ := w.view(w.keys[0]); s != c19Free {
					w.fwd(w.keys[0].expiry - w.now + 1)
				}
				w.call(c, true, useCtx, fk, 1)       // on a free key: nothing, or (b) c holds
				w.call(c, true, useCtx, c19FNone, 0) // true either way
				_ = got
			})
			if w.dead {
				continue
			}
			if w.nt == 0 {
				t.Fatalf("scripted fault history not recognised as non-trivial; %s", w.log.String())
			}
			st.NonTrivial(w.log.String())
		}
	}
}
