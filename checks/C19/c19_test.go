//go:build verif

package redis_test

// C19 — Redis lock: one holder at a time, only the holder can release.
//
// The real RedisLock (real lockscript.lua / delscript.lua, executed by miniredis'
// Lua interpreter) is driven through generated histories of Acquire / Release /
// SetExpire / clock advance by several lock instances on the same key, and compared
// after every operation with a model (holder, expiry) written from the property
// statement.  Time is miniredis' FastForward only; the wall clock is read only to annotate
// notes about inconclusive cases, never by an oracle.

import (
	"errors"
	"fmt"
	"reflect"
	"strings"
	"sync"
	"sync/atomic"
	"testing"
	"time"

	"github.com/alicebob/miniredis/v2"
	"github.com/alicebob/miniredis/v2/server"
	red "github.com/redis/go-redis/v9"
	"github.com/zeromicro/go-zero/core/logx"
	"github.com/zeromicro/go-zero/core/stores/redis"
	"github.com/zeromicro/go-zero/internal/verifkit"
	"pgregory.net/rapid"
)

// One miniredis per test process: go-zero keeps one client (and one breaker) per
// address, so a server per case would leak clients.  Cases are separated by FlushAll
// and by key names that are unique per case.
var (
	c19Once  sync.Once
	c19MR    *miniredis.Miniredis
	c19Store *redis.Redis
	// c19StoreC: the same server through a client of Type "cluster" (go-redis ClusterClient; miniredis
	// answers CLUSTER SLOTS as a one-node cluster).  Code that treats cluster-type stores differently
	// is reached only through it.
	c19StoreC *redis.Redis
	// c19UseCluster: which client the instances of the next world use (set by the unit before c19NewWorld)
	c19UseCluster bool
	c19Err        error
	c19Seq        atomic.Int64
	// number of EVAL / EVALSHA commands the server received (see scriptRuns)
	c19Evals atomic.Int64
)

func c19Server(tb failer) (*miniredis.Miniredis, *redis.Redis) {
	c19Once.Do(func() {
		c19MR, c19Err = miniredis.Run()
		if c19Err != nil {
			return
		}
		c19MR.Server().SetPreHook(c19Hook)
		c19Store = redis.New(c19MR.Addr())
		// load both scripts into the server once, so that from now on every
		// Acquire/Release is exactly one EVALSHA (no NOSCRIPT + EVAL fallback)
		// (best effort: if it fails, the first case sees a NOSCRIPT fallback and is inconclusive)
		warm := redis.NewRedisLock(c19Store, "c19:warmup")
		warm.SetExpire(1)
		warm.Acquire()
		warm.Release()
		c19StoreC = redis.New(c19MR.Addr(), redis.Cluster())
		warmC := redis.NewRedisLock(c19StoreC, "c19:warmup-cluster")
		warmC.SetExpire(1)
		warmC.Acquire()
		warmC.Release()
	})
	if c19Err != nil {
		tb.Skipf("inconclusive: cannot start miniredis: %v", c19Err)
	}
	return c19MR, c19Store
}

// c19Gate lets the test pause the k-th store command of the API call that is in flight
// (command-granularity interleaving, see interleave).  Everything the oracle needs is
// evaluated on the test goroutine; the hook only counts, signals and waits.
type c19Gate struct {
	mu     sync.Mutex
	state  int // 0 idle, 1 armed, 2 paused (interloper running), 3 trailing (count only)
	target int
	seen   int
	cmds   []string
	paused chan struct{}
	resume chan struct{}
}

var c19G c19Gate

// connection set-up traffic of go-redis is not part of an API call
func c19ConnCmd(cmd string) bool {
	switch cmd {
	case "HELLO", "CLIENT", "PING", "AUTH", "SELECT", "QUIT", "COMMAND", "ECHO", "CLUSTER", "READONLY", "READWRITE":
		return true
	}
	return false
}

// redis.call inside a Lua script is dispatched through the same server entry point (and
// pre-hook) with miniredis' lock held; such nested commands are not store commands of
// the client and must never be paused.
func c19Nested(p *server.Peer) bool {
	if p == nil || p.Ctx == nil {
		return false
	}
	v := reflect.ValueOf(p.Ctx)
	if v.Kind() != reflect.Ptr || v.IsNil() || v.Elem().Kind() != reflect.Struct {
		return false
	}
	f := v.Elem().FieldByName("nested")
	return f.IsValid() && f.Kind() == reflect.Bool && f.Bool()
}

func c19Hook(peer *server.Peer, cmd string, _ ...string) bool {
	if c19Nested(peer) {
		return false
	}
	if cmd == "EVAL" || cmd == "EVALSHA" {
		// VERIF_C19_STALL_AT=n (experiments only): the n-th script call is held back
		// beyond go-redis' 3 s read timeout, which makes the client re-send it
		if n := c19Evals.Add(1); n == c19StallAt {
			time.Sleep(3300 * time.Millisecond)
		}
	}
	g := &c19G
	g.mu.Lock()
	if (g.state == 1 || g.state == 3) && !c19ConnCmd(cmd) {
		g.seen++
		g.cmds = append(g.cmds, cmd)
		if g.state == 1 && g.seen == g.target {
			g.state = 2
			paused, resume := g.paused, g.resume
			g.mu.Unlock()
			close(paused)
			select {
			case <-resume:
			case <-time.After(10 * time.Second): // never hang the server goroutine
			}
			return false
		}
	}
	g.mu.Unlock()
	return false
}

// failer is what the model needs from *rapid.T / *testing.T.
type failer interface {
	Fatalf(format string, args ...any)
	Skipf(format string, args ...any)
}

// VERIF_C19_API_ONLY=1 switches the key/TTL comparison off (sensitivity experiments:
// shows what the Acquire/Release results alone detect).  Never set by check.json.
var c19APIOnly = verifkit.EnvInt("c19_api_only", 0) == 1

var c19StallAt = int64(verifkit.EnvInt("c19_stall_at", 0))

// configured seconds: mostly 0..3 (so that leases expire within a few generated steps), sometimes
// large values up to the uint32 range the field can hold, placed around the points where a lease
// computed in 32 bits (2^31 ms, 2^32 ms) would wrap.
var c19SecGen = rapid.OneOf(rapid.IntRange(0, 3), rapid.IntRange(0, 3), rapid.IntRange(0, 3),
	rapid.SampledFrom([]int{60, 86400, 2147482, 2147483, 2147484, 4294966, 4294967, 4294968, 4294969, 1 << 31, 1<<32 - 1}))

// -1: SetExpire never called
var c19InitSecGen = rapid.OneOf(rapid.IntRange(-1, 3), rapid.IntRange(-1, 3), c19SecGen)

func c19Lease(sec int) int64 { return int64(sec)*1000 + 500 } // "configured seconds plus 500 ms"

type c19Inst struct {
	name string
	key  int
	lock *redis.RedisLock
	sec  int // configured seconds; 0 when SetExpire was never called
	// bookkeeping for the non-trivial rule (not used by the oracle)
	lapsed     bool // its lease ran out without a release
	superseded bool // ... and afterwards another instance acquired the key
}

type c19Key struct {
	name    string
	holder  int   // index into world.inst, -1 = nobody
	expiry  int64 // virtual ms at which the holder's lease ends
	tieHeld bool  // at now == expiry an observation showed the lease still counted
}

const (
	c19Free = iota
	c19Held
	c19Tie // now == expiry exactly: the statement does not say which side the instant belongs to
)

type c19World struct {
	f     failer
	st    *verifkit.Stats
	mr    *miniredis.Miniredis
	now   int64
	keys  []*c19Key
	inst  []*c19Inst
	log   strings.Builder
	dead  bool  // case abandoned as inconclusive
	mute  bool  // trying out an order of an interleaved pair: no histogram entries
	evals int64 // server-side script executions accounted for so far
	late  int   // "A expired, B acquired, A released while B holds" events
	concF int   // concurrent acquire rounds on a free key
}

func c19NewWorld(f failer, st *verifkit.Stats, nOnKey []int, secs []int) *c19World {
	mr, store := c19Server(f)
	if c19UseCluster {
		store = c19StoreC
		st.Class("store:cluster-type-client")
	} else {
		st.Class("store:node-type-client")
	}
	mr.FlushAll()
	seq := c19Seq.Add(1)
	w := &c19World{f: f, st: st, mr: mr, evals: c19Evals.Load()}
	idx := 0
	// The instances of a case are constructed at the same instant by parallel goroutines (as
	// replicas of a service starting together do): "only the holder can release" presupposes
	// that instances are told apart however they came into being.
	total := 0
	for _, n := range nOnKey {
		total += n
	}
	locks := make([]*redis.RedisLock, total)
	var ready, done sync.WaitGroup
	start := make(chan struct{})
	li := 0
	for k, n := range nOnKey {
		kn := fmt.Sprintf("c19:%d:%c", seq, 'a'+k)
		for j := 0; j < n; j++ {
			ready.Add(1)
			done.Add(1)
			go func(i int) {
				defer done.Done()
				ready.Done()
				<-start
				locks[i] = redis.NewRedisLock(store, kn)
			}(li)
			li++
		}
	}
	ready.Wait()
	close(start)
	done.Wait()
	li = 0
	for k, n := range nOnKey {
		kn := fmt.Sprintf("c19:%d:%c", seq, 'a'+k)
		w.keys = append(w.keys, &c19Key{name: kn, holder: -1})
		for j := 0; j < n; j++ {
			in := &c19Inst{name: fmt.Sprintf("%c%d", 'a'+k, j), key: k, lock: locks[li]}
			li++
			if s := secs[idx]; s >= 0 {
				in.lock.SetExpire(s)
				in.sec = s
			}
			idx++
			w.inst = append(w.inst, in)
		}
	}
	fmt.Fprintf(&w.log, "inst=%v sec=%v:", nOnKey, secs)
	return w
}

// c19Abort unwinds an inconclusive case (see abort).
type c19Abort struct{}

// abort ends the case without a verdict.  rapid's Skip cannot be used inside Repeat
// actions (the machine would go on with further actions on a model that no longer
// follows), so the world is marked dead, the current action is unwound, every later
// action is a no-op and the case ends as passed-but-inconclusive (counted and noted).
func (w *c19World) abort(format string, a ...any) {
	w.dead = true
	w.st.Class("inconclusive:case-abandoned")
	w.st.Note("inconclusive case: "+format+"; history: %s", append(a, w.log.String())...)
	panic(c19Abort{})
}

// guard runs f unless the case was abandoned, and absorbs the abort unwinding.
func (w *c19World) guard(f func()) {
	if w.dead {
		return
	}
	defer func() {
		if r := recover(); r != nil {
			if _, ok := r.(c19Abort); !ok {
				panic(r)
			}
		}
	}()
	f()
}

func (w *c19World) fail(format string, a ...any) {
	// keeps the unit's sample list non-empty even when the very first case fails
	w.st.Sample("FAILING: " + fmt.Sprintf(format, a...) + " | " + w.log.String())
	var ks []string
	for _, k := range w.keys {
		ks = append(ks, fmt.Sprintf("%s: present=%v pttl=%v, model holder=%d until t=%d", k.name, w.mr.Exists(k.name), w.mr.TTL(k.name), k.holder, k.expiry))
	}
	w.f.Fatalf("%s\n  at virtual t=%dms; history: %s\n  redis: %s", fmt.Sprintf(format, a...), w.now, w.log.String(), strings.Join(ks, "; "))
}

// infra: a transport error means the script may or may not have run, so the model
// cannot follow; the statement says nothing about such runs.  Inconclusive, never a
// violation.  Any other error (e.g. a script error) is reported.
func (w *c19World) infra(op string, err error) {
	if err == nil {
		return
	}
	var reply red.Error // an error reply sent by the server (e.g. a script error)
	if errors.As(err, &reply) {
		w.fail("%s returned error %v", op, err)
	}
	w.abort("%s returned transport/client error %v", op, err)
}

// scriptRuns: go-redis re-sends a command whose reply did not arrive within its read
// timeout (3 s; MaxRetries is fixed to 3 by go-zero).  The scripts are not idempotent
// in what they report (a Release that ran twice answers 0 although it freed the key),
// and the statement quantifies over histories and schedules, not over transport
// faults.  So a call for which the server saw more script executions than API calls is
// inconclusive.  This is decided by counting commands at the server, not by a clock.
func (w *c19World) scriptRuns(op string, calls int, took time.Duration) {
	n := c19Evals.Load() - w.evals
	w.evals += n
	if n > int64(calls) {
		w.st.Class("inconclusive:transport-retry")
		w.abort("%s: %d API call(s) but the server received %d script executions (client re-sent a command; the call took %v of wall time)",
			op, calls, n, took.Round(time.Millisecond))
	}
	// an implementation that does not use scripts cannot be counted that way; a re-send
	// happens only after go-redis' 3 s read timeout, so a call that took that long is
	// inconclusive as well (wall-clock budget overrun, never a verdict)
	if took >= 2500*time.Millisecond {
		w.st.Class("inconclusive:slow-call")
		w.abort("%s took %v of wall time: a client re-send cannot be excluded", op, took.Round(time.Millisecond))
	}
}

// quiet is called before an operation: a script execution that arrived at the server
// while no call was in flight is a late duplicate of an earlier re-sent command.
func (w *c19World) quiet(op string) time.Time {
	w.scriptRuns("before "+op, 0, 0)
	return time.Now()
}

func (w *c19World) expire(k *c19Key) {
	w.inst[k.holder].lapsed = true
	k.holder, k.tieHeld = -1, false
}

func (w *c19World) view(k *c19Key) (state, holder int) {
	if k.holder < 0 {
		return c19Free, -1
	}
	switch {
	case w.now < k.expiry:
		return c19Held, k.holder
	case w.now > k.expiry:
		w.expire(k)
		return c19Free, -1
	case k.tieHeld:
		return c19Held, k.holder
	default:
		return c19Tie, k.holder
	}
}

func (w *c19World) grant(k *c19Key, i int) {
	for j, o := range w.inst {
		if j != i && o.key == w.inst[i].key && o.lapsed {
			o.superseded = true
		}
	}
	k.holder, k.expiry, k.tieHeld = i, w.now+c19Lease(w.inst[i].sec), false
	w.inst[i].lapsed, w.inst[i].superseded = false, false
}

func tf(b bool) string {
	if b {
		return "T"
	}
	return "F"
}

// checkState compares the Redis key (anchored state "key -> holder id with PX ttl")
// with the model: present exactly while somebody holds an unexpired lease, and the
// remaining TTL is the remaining lease.
func (w *c19World) checkState() {
	if msg := w.storeMismatch(); msg != "" {
		w.fail("%s", msg)
	}
}

func (w *c19World) storeMismatch() string {
	if c19APIOnly {
		return ""
	}
	for _, k := range w.keys {
		state, h := w.view(k)
		exists, ttl := w.mr.Exists(k.name), w.mr.TTL(k.name)
		switch state {
		case c19Free:
			if exists {
				return fmt.Sprintf("key %s is still set (ttl %v) although nobody holds it", k.name, ttl)
			}
		case c19Held:
			if k.expiry == w.now {
				continue // the instant the lease ends: either side is acceptable
			}
			if !exists {
				return fmt.Sprintf("key %s is gone although %s holds it for another %d ms (lease = seconds*1000+500)",
					k.name, w.inst[h].name, k.expiry-w.now)
			}
			if rem := k.expiry - w.now; rem > 0 && ttl != time.Duration(rem)*time.Millisecond {
				return fmt.Sprintf("key %s held by %s: remaining ttl %v, lease says %d ms (lease = seconds*1000+500)",
					k.name, w.inst[h].name, ttl, rem)
			}
		}
	}
	return ""
}

func (w *c19World) class(name string) {
	if !w.mute {
		w.st.Class(name)
	}
}

func (w *c19World) acquire(i int) bool {
	in := w.inst[i]
	t0 := w.quiet("Acquire")
	got, err := in.lock.Acquire()
	fmt.Fprintf(&w.log, " acq(%s)=%s", in.name, tf(got))
	w.infra("Acquire", err)
	w.scriptRuns("Acquire", 1, time.Since(t0))
	if msg := w.applyAcquire(i, got); msg != "" {
		w.fail("%s", msg)
	}
	w.checkState()
	return got
}

// applyAcquire: the model's verdict on "Acquire by i returned got" in the current model
// state ("" = consistent with the statement), and the model's next state.
func (w *c19World) applyAcquire(i int, got bool) string {
	in := w.inst[i]
	k := w.keys[in.key]
	state, h := w.view(k)
	switch state {
	case c19Free:
		w.class("acquire:free")
		if !got {
			return fmt.Sprintf("Acquire by %s failed although no instance holds %s unexpired", in.name, k.name)
		}
		w.grant(k, i)
	case c19Held:
		if h == i {
			w.class("acquire:refresh")
			if !got {
				return fmt.Sprintf("re-Acquire by the holder %s failed (must refresh its lease)", in.name)
			}
			w.grant(k, i)
		} else {
			w.class("acquire:held-by-other")
			if got {
				return fmt.Sprintf("Acquire by %s succeeded while %s holds the key with %d ms of lease left",
					in.name, w.inst[h].name, k.expiry-w.now)
			}
		}
	case c19Tie:
		w.class("acquire:at-expiry-instant")
		if h == i {
			if !got {
				return fmt.Sprintf("Acquire by %s failed at the instant its own lease ends (holder or free: must succeed)", in.name)
			}
			w.grant(k, i)
		} else if got {
			w.expire(k)
			w.grant(k, i)
		} else {
			k.tieHeld = true
		}
	}
	return ""
}

func (w *c19World) release(i int) bool {
	in := w.inst[i]
	t0 := w.quiet("Release")
	got, err := in.lock.Release()
	fmt.Fprintf(&w.log, " rel(%s)=%s", in.name, tf(got))
	w.infra("Release", err)
	w.scriptRuns("Release", 1, time.Since(t0))
	if msg := w.applyRelease(i, got); msg != "" {
		w.fail("%s", msg)
	}
	w.checkState() // in particular: a refused release left the holder's key and ttl untouched
	return got
}

func (w *c19World) applyRelease(i int, got bool) string {
	in := w.inst[i]
	k := w.keys[in.key]
	state, h := w.view(k)
	switch state {
	case c19Free:
		w.class("release:free-key")
		if got {
			return fmt.Sprintf("Release by %s reported true although it does not hold the key (nobody does)", in.name)
		}
	case c19Held:
		if h == i {
			w.class("release:holder")
			if !got {
				return fmt.Sprintf("Release by the current holder %s reported false", in.name)
			}
			k.holder, k.tieHeld = -1, false
		} else {
			if in.superseded {
				w.late++
				w.class("release:late-after-takeover")
			} else {
				w.class("release:non-holder")
			}
			if got {
				return fmt.Sprintf("Release by %s reported true while %s is the current holder (%d ms left)",
					in.name, w.inst[h].name, k.expiry-w.now)
			}
		}
	case c19Tie:
		w.class("release:at-expiry-instant")
		if h == i {
			// true: still holder, freed; false: already expired.  Free either way.
			if !got {
				in.lapsed = true
			}
			k.holder, k.tieHeld = -1, false
		} else if got {
			return fmt.Sprintf("Release by %s reported true; the key was last held by %s", in.name, w.inst[h].name)
		}
	}
	return ""
}

func (w *c19World) setExpire(i, s int) {
	w.inst[i].lock.SetExpire(s)
	w.inst[i].sec = s
	fmt.Fprintf(&w.log, " exp(%s,%d)", w.inst[i].name, s)
	w.checkState() // SetExpire alone changes nothing in Redis
}

func (w *c19World) forward(ms int64) {
	if ms < 1 {
		ms = 1
	}
	w.mr.FastForward(time.Duration(ms) * time.Millisecond)
	fmt.Fprintf(&w.log, " fwd(%d)", ms)
	w.applyForward(ms)
	w.checkState()
}

func (w *c19World) applyForward(ms int64) {
	for _, k := range w.keys {
		if st, _ := w.view(k); st != c19Free {
			switch rem := k.expiry - w.now; {
			case ms < rem:
				w.class("forward:before-expiry")
				if ms == rem-1 {
					w.class("forward:to-1ms-before-expiry")
				}
			case ms == rem:
				w.class("forward:to-expiry-instant")
			default:
				w.class("forward:past-expiry")
				if ms == rem+1 {
					w.class("forward:to-1ms-past-expiry")
				}
			}
		}
	}
	w.now += ms
	for _, k := range w.keys {
		k.tieHeld = false
		w.view(k)
	}
}

// ------------------------------------------------------------------ command-granularity interleaving

// c19Step is one primitive step, executed without touching the model (raw) and judged
// afterwards (apply).
type c19Step struct {
	kind byte // 'a' Acquire, 'r' Release, 'e' SetExpire, 'f' forward
	inst int
	arg  int64 // seconds or milliseconds
	got  bool
	err  error
}

func (w *c19World) raw(s *c19Step) {
	switch s.kind {
	case 'a':
		s.got, s.err = w.inst[s.inst].lock.Acquire()
	case 'r':
		s.got, s.err = w.inst[s.inst].lock.Release()
	case 'e':
		w.inst[s.inst].lock.SetExpire(int(s.arg))
	case 'f':
		w.mr.FastForward(time.Duration(s.arg) * time.Millisecond)
	}
}

func (w *c19World) apply(s *c19Step) string {
	switch s.kind {
	case 'a':
		return w.applyAcquire(s.inst, s.got)
	case 'r':
		return w.applyRelease(s.inst, s.got)
	case 'e':
		w.inst[s.inst].sec = int(s.arg)
	case 'f':
		w.applyForward(s.arg)
	}
	return ""
}

func (w *c19World) render(s *c19Step) string {
	switch s.kind {
	case 'a':
		return fmt.Sprintf("acq(%s)=%s", w.inst[s.inst].name, tf(s.got))
	case 'r':
		return fmt.Sprintf("rel(%s)=%s", w.inst[s.inst].name, tf(s.got))
	case 'e':
		return fmt.Sprintf("exp(%s,%d)", w.inst[s.inst].name, s.arg)
	default:
		return fmt.Sprintf("fwd(%d)", s.arg)
	}
}

type c19Snap struct {
	now         int64
	keys        []c19Key
	inst        []c19Inst
	late, concF int
}

func (w *c19World) snapshot() c19Snap {
	sn := c19Snap{now: w.now, late: w.late, concF: w.concF}
	for _, k := range w.keys {
		sn.keys = append(sn.keys, *k)
	}
	for _, in := range w.inst {
		sn.inst = append(sn.inst, *in)
	}
	return sn
}

func (w *c19World) restore(sn c19Snap) {
	w.now, w.late, w.concF = sn.now, sn.late, sn.concF
	for i := range sn.keys {
		*w.keys[i] = sn.keys[i]
	}
	for i := range sn.inst {
		*w.inst[i] = sn.inst[i]
	}
}

// interleave runs the API call x and, while the k-th store command that x issues is
// held back at the server (pre-hook), the interloper steps y of other instances /
// the clock.  If x issues fewer than k commands (the real scripts are one command), y
// runs right after x.  Oracle: the results of all steps and the final store state must
// be those of SOME sequential order, y-then-x or x-then-y, under the (holder, expiry)
// model; the model continues from that order's state.
func (w *c19World) interleave(x *c19Step, k int, y []*c19Step) {
	snap := w.snapshot()
	t0 := w.quiet("interleaved call")
	g := &c19G
	g.mu.Lock()
	g.state, g.target, g.seen, g.cmds = 1, k, 0, nil
	g.paused, g.resume = make(chan struct{}), make(chan struct{})
	paused, resume := g.paused, g.resume
	g.mu.Unlock()
	done := make(chan struct{})
	go func() {
		defer close(done)
		w.raw(x)
	}()
	interrupted := false
	select {
	case <-paused:
		interrupted = true
		for _, s := range y {
			w.raw(s)
		}
		g.mu.Lock()
		g.state = 3
		g.mu.Unlock()
		close(resume)
		<-done
	case <-done:
	}
	g.mu.Lock()
	g.state = 0
	ncmd, cmds := g.seen, strings.Join(g.cmds, "+")
	g.mu.Unlock()
	if !interrupted {
		for _, s := range y {
			w.raw(s)
		}
	}
	took := time.Since(t0)
	var ys []string
	calls := 1
	for _, s := range y {
		ys = append(ys, w.render(s))
		if s.kind == 'a' || s.kind == 'r' {
			calls++
		}
	}
	at := "after"
	if interrupted {
		at = fmt.Sprintf("before cmd %d of %d", k, ncmd)
	}
	fmt.Fprintf(&w.log, " il{%s [%s] | %s: %s}", w.render(x), cmds, at, strings.Join(ys, " "))
	w.infra("interleaved call", x.err)
	for _, s := range y {
		w.infra("interloper", s.err)
	}
	w.scriptRuns("interleaved call", calls, took)
	switch {
	case !interrupted:
		w.class("interleave:not-interrupted(call-issued-fewer-commands)")
	case k == 1:
		w.class("interleave:interrupted-at-command-1")
	default:
		w.class("interleave:interrupted-at-command-2+")
	}
	w.class(fmt.Sprintf("interleave:call-issued-%d-command(s)", ncmd))

	// the order that really happened when x is atomic comes first
	orders := [][]*c19Step{append(append([]*c19Step{}, y...), x), append([]*c19Step{x}, y...)}
	names := []string{"interloper-first", "call-first"}
	if !interrupted {
		orders[0], orders[1] = orders[1], orders[0]
		names[0], names[1] = names[1], names[0]
	}
	var why []string
	for o, order := range orders {
		w.restore(snap)
		w.mute = true
		msg := ""
		for _, s := range order {
			if msg = w.apply(s); msg != "" {
				break
			}
		}
		if msg == "" {
			msg = w.storeMismatch()
		}
		w.mute = false
		if msg == "" {
			w.class("interleave:explained-as-" + names[o])
			return
		}
		why = append(why, names[o]+": "+msg)
	}
	w.restore(snap)
	w.fail("interleaved call: results and final store state match neither sequential order (%s)", strings.Join(why, "; "))
}

// concurrent runs Acquire on the given distinct instances of one key at once.
func (w *c19World) concurrent(set []int) {
	k := w.keys[w.inst[set[0]].key]
	state, h := w.view(k)
	res := make([]bool, len(set))
	errs := make([]error, len(set))
	start := make(chan struct{})
	var wg sync.WaitGroup
	for x, i := range set {
		wg.Add(1)
		go func(x int, l *redis.RedisLock) {
			defer wg.Done()
			<-start
			res[x], errs[x] = l.Acquire()
		}(x, w.inst[i].lock)
	}
	t0 := w.quiet("concurrent Acquire")
	close(start)
	wg.Wait()
	took := time.Since(t0)
	var names, outs []string
	winners := []int{}
	for x, i := range set {
		names = append(names, w.inst[i].name)
		outs = append(outs, tf(res[x]))
		if res[x] {
			winners = append(winners, i)
		}
	}
	fmt.Fprintf(&w.log, " conc(%s)=%s", strings.Join(names, ","), strings.Join(outs, ""))
	for _, e := range errs {
		w.infra("concurrent Acquire", e)
	}
	w.scriptRuns("concurrent Acquire", len(set), took)
	wn := func() string {
		var s []string
		for _, i := range winners {
			s = append(s, w.inst[i].name)
		}
		return strings.Join(s, ",")
	}
	switch state {
	case c19Free:
		w.concF++
		w.st.Class("concurrent:free-key")
		w.st.Class(fmt.Sprintf("concurrent:G=%d", len(set)))
		if len(winners) != 1 {
			w.fail("%d concurrent Acquire on the free key %s: %d succeeded (%s), exactly one must",
				len(set), k.name, len(winners), wn())
		}
		w.grant(k, winners[0])
	case c19Held:
		w.st.Class("concurrent:held-key")
		for _, i := range winners {
			if i != h {
				w.fail("concurrent Acquire: %s succeeded while %s holds the key (%d ms left)",
					w.inst[i].name, w.inst[h].name, k.expiry-w.now)
			}
		}
		for _, i := range set {
			if i == h {
				if len(winners) != 1 {
					w.fail("concurrent Acquire: the holder %s was not refreshed", w.inst[h].name)
				}
				w.grant(k, h)
			}
		}
	case c19Tie:
		w.st.Class("concurrent:at-expiry-instant")
		if len(winners) > 1 {
			w.fail("concurrent Acquire at a lease end: %d succeeded (%s), at most one may", len(winners), wn())
		}
		if len(winners) == 1 {
			if winners[0] != h {
				w.expire(k)
			}
			w.grant(k, winners[0])
		} else {
			for _, i := range set {
				if i == h {
					w.fail("concurrent Acquire at its own lease end: %s failed (holder or free: one must succeed)", w.inst[h].name)
				}
			}
			k.tieHeld = true
		}
	}
	w.checkState()
}

// onKey returns the instance indices bound to key k.
func (w *c19World) onKey(k int) []int {
	var out []int
	for i, in := range w.inst {
		if in.key == k {
			out = append(out, i)
		}
	}
	return out
}

// ------------------------------------------------------------------ state machine

func TestVerifC19Machine(t *testing.T) {
	logx.Disable()
	st := verifkit.New("machine")
	defer st.Flush()
	rapid.Check(t, func(t *rapid.T) {
		st.Eval()
		n0 := rapid.IntRange(2, 4).Draw(t, "instancesOnA")
		n1 := rapid.IntRange(1, 2).Draw(t, "instancesOnB")
		secs := rapid.SliceOfN(c19InitSecGen, n0+n1, n0+n1).Draw(t, "initialSeconds") // -1: SetExpire never called
		c19UseCluster = rapid.IntRange(0, 2).Draw(t, "clusterTypeClient") == 0
		w := c19NewWorld(t, st, []int{n0, n1}, secs)
		w.f = t
		all := rapid.IntRange(0, n0+n1-1)
		onA := rapid.IntRange(0, n0-1)
		// mostly the contended key, sometimes the other one
		pick := func(t *rapid.T) int {
			if rapid.IntRange(0, 4).Draw(t, "otherKey") == 0 {
				return all.Draw(t, "inst")
			}
			return onA.Draw(t, "inst")
		}
		shapeLate, shapeEdge := 0, 0
		actions := map[string]func(*rapid.T){
			"acquire": func(t *rapid.T) { w.acquire(pick(t)) },
			"release": func(t *rapid.T) { w.release(pick(t)) },
			"setExpire": func(t *rapid.T) {
				w.setExpire(pick(t), c19SecGen.Draw(t, "seconds"))
			},
			"forward": func(t *rapid.T) {
				var ms int64
				switch rapid.IntRange(0, 2).Draw(t, "mode") {
				case 0:
					ms = rapid.Int64Range(1, 1200).Draw(t, "ms")
				case 1: // around the end of a running lease
					k := w.keys[rapid.IntRange(0, 1).Draw(t, "key")]
					rem := int64(500)
					if s, _ := w.view(k); s != c19Free {
						rem = k.expiry - w.now
					}
					ms = rem + rapid.Int64Range(-1, 1).Draw(t, "delta")
				default: // around a configured lease length
					ms = c19Lease(c19SecGen.Draw(t, "s")) + rapid.Int64Range(-1, 1).Draw(t, "delta")
				}
				w.forward(ms)
			},
			"concurrent": func(t *rapid.T) {
				var set []int
				for i := 0; i < n0; i++ {
					if rapid.Bool().Draw(t, "in") {
						set = append(set, i)
					}
				}
				if len(set) < 2 {
					set = w.onKey(0)
				}
				// half of the time make sure the key is free first
				if rapid.Bool().Draw(t, "freeFirst") {
					if s, _ := w.view(w.keys[0]); s != c19Free {
						w.forward(w.keys[0].expiry - w.now + 1)
					}
				}
				w.concurrent(set)
			},
			// one API call with other instances' steps / the clock landing between its store commands
			"interleaved": func(t *rapid.T) {
				k := w.keys[0]
				i := onA.Draw(t, "inst")
				if s, h := w.view(k); s != c19Free && rapid.Bool().Draw(t, "byHolder") {
					i = h
				}
				j := (i + rapid.IntRange(1, n0-1).Draw(t, "other")) % n0
				x := &c19Step{kind: rapid.SampledFrom([]byte{'a', 'r', 'r'}).Draw(t, "call"), inst: i}
				if x.kind == 'r' && rapid.Bool().Draw(t, "holdFirst") {
					if s, h := w.view(k); s == c19Free || h != i {
						if s != c19Free {
							w.forward(k.expiry - w.now + 1)
						}
						w.acquire(i)
					}
				}
				rem := int64(500)
				if s, _ := w.view(k); s != c19Free {
					rem = k.expiry - w.now
				}
				fwd := func(ms int64) *c19Step {
					if ms < 1 {
						ms = 1
					}
					return &c19Step{kind: 'f', arg: ms}
				}
				var y []*c19Step
				shape := rapid.IntRange(0, 5).Draw(t, "interloper")
				switch shape {
				case 0: // lease runs out and somebody else takes the key
					y = []*c19Step{fwd(rem + rapid.SampledFrom([]int64{1, 2, 500}).Draw(t, "past")), {kind: 'a', inst: j}}
				case 1:
					y = []*c19Step{{kind: 'a', inst: j}}
				case 2:
					y = []*c19Step{{kind: 'r', inst: j}}
				case 3:
					y = []*c19Step{fwd(rem + rapid.Int64Range(-2, 1).Draw(t, "delta"))}
				case 4:
					y = []*c19Step{{kind: 'e', inst: j, arg: int64(c19SecGen.Draw(t, "seconds"))}, {kind: 'a', inst: j}}
				default: // taken over and given back
					y = []*c19Step{fwd(rem + 1), {kind: 'a', inst: j}, {kind: 'r', inst: j}}
				}
				w.class(fmt.Sprintf("interleave:interloper-shape-%d", shape))
				w.interleave(x, rapid.IntRange(1, 3).Draw(t, "pauseAtCommand"), y)
			},
			// forced shape: A's lease expires, B acquires, A releases late; B must still hold
			"shapeLateRelease": func(t *rapid.T) {
				shapeLate++
				a := onA.Draw(t, "A")
				b := (a + rapid.IntRange(1, n0-1).Draw(t, "Boff")) % n0
				k := w.keys[0]
				if s, h := w.view(k); s != c19Free && h != a {
					w.forward(k.expiry - w.now + 1)
				}
				if !w.acquire(a) {
					w.fail("shape: %s could not acquire", w.inst[a].name)
				}
				w.forward(k.expiry - w.now + rapid.SampledFrom([]int64{1, 2, 400, 1000}).Draw(t, "past"))
				if !w.acquire(b) {
					w.fail("shape: %s could not acquire after %s expired", w.inst[b].name, w.inst[a].name)
				}
				if rapid.Bool().Draw(t, "wait") {
					w.forward(rapid.Int64Range(1, k.expiry-w.now-1).Draw(t, "within"))
				}
				before := w.late
				if w.release(a) {
					w.fail("shape: late Release by the expired holder %s reported true", w.inst[a].name)
				}
				if w.late != before+1 {
					w.fail("harness: late release not recognised")
				}
				// B still holds: seen through the API, not only through the key
				switch rapid.IntRange(0, 2).Draw(t, "probe") {
				case 0:
					if w.acquire(a) {
						w.fail("shape: %s acquired after its late release although %s holds", w.inst[a].name, w.inst[b].name)
					}
				case 1:
					if !w.release(b) {
						w.fail("shape: holder %s could not release after %s's late release", w.inst[b].name, w.inst[a].name)
					}
				default:
					if !w.acquire(b) {
						w.fail("shape: holder %s could not refresh after %s's late release", w.inst[b].name, w.inst[a].name)
					}
				}
			},
			// forced shape: a competitor probes 1 ms before and 1 ms after the lease end
			"shapeLeaseEdge": func(t *rapid.T) {
				shapeEdge++
				a := onA.Draw(t, "A")
				b := (a + rapid.IntRange(1, n0-1).Draw(t, "Boff")) % n0
				k := w.keys[0]
				if s, h := w.view(k); s != c19Free && h != a {
					w.forward(k.expiry - w.now + 1)
				}
				w.setExpire(a, c19SecGen.Draw(t, "seconds"))
				w.acquire(a)
				if rapid.Bool().Draw(t, "refresh") { // the refreshed lease is what counts
					w.forward(rapid.Int64Range(1, k.expiry-w.now-1).Draw(t, "within"))
					w.acquire(a)
				}
				w.forward(k.expiry - w.now - 1)
				if w.acquire(b) {
					w.fail("shape: %s acquired 1 ms before %s's lease ends", w.inst[b].name, w.inst[a].name)
				}
				w.forward(2)
				if !w.acquire(b) {
					w.fail("shape: %s could not acquire 1 ms after %s's lease ended", w.inst[b].name, w.inst[a].name)
				}
			},
		}
		for name, f := range actions {
			f := f
			actions[name] = func(t *rapid.T) { w.f = t; w.guard(func() { f(t) }) }
		}
		t.Repeat(actions)
		st.ClassN("shape:late-release", shapeLate)
		st.ClassN("shape:lease-edge", shapeEdge)
		if w.concF > 0 {
			st.Class("case:with-concurrent-acquire-on-free-key")
		}
		if w.late > 0 && !w.dead {
			st.Class("case:with-late-release-after-takeover")
			st.NonTrivial(w.log.String())
		}
	})
}

// ------------------------------------------------------------------ concurrency clause

// G goroutines, each with its own RedisLock on one key, call Acquire at once.
func TestVerifC19Concurrent(t *testing.T) {
	logx.Disable()
	st := verifkit.New("concurrent")
	defer st.Flush()
	rapid.Check(t, func(t *rapid.T) {
		st.Eval()
		g := rapid.IntRange(2, 12).Draw(t, "G")
		secs := rapid.SliceOfN(c19InitSecGen, g+1, g+1).Draw(t, "seconds")
		// instances 0..g-1 compete; instance g is an outsider used to prepare the key
		c19UseCluster = rapid.IntRange(0, 2).Draw(t, "clusterTypeClient") == 0
		w := c19NewWorld(t, st, []int{g + 1}, secs)
		out := g
		k := w.keys[0]
		member := rapid.IntRange(0, g-1).Draw(t, "member")
		delta := rapid.Int64Range(1, 3).Draw(t, "delta")
		pre := rapid.SampledFrom([]string{"fresh", "released", "expired", "expired-late-released",
			"held-by-outsider", "held-by-member"}).Draw(t, "pre")
		fmt.Fprintf(&w.log, " pre=%s", pre)
		st.Class("pre:" + pre)
		w.guard(func() {
			switch pre {
			case "released":
				w.acquire(out)
				w.release(out)
			case "expired":
				w.acquire(out)
				w.forward(k.expiry - w.now + delta)
			case "expired-late-released":
				w.acquire(out)
				w.forward(k.expiry - w.now + 1)
				w.release(out)
			case "held-by-outsider":
				w.acquire(out)
				w.forward(k.expiry - w.now - delta)
			case "held-by-member":
				w.acquire(member)
			}
			set := make([]int, g)
			for i := range set {
				set[i] = i
			}
			free, _ := w.view(k)
			w.concurrent(set)
			_, winner := w.view(k)
			if free == c19Free {
				st.NonTrivial(fmt.Sprintf("G=%d pre=%s sec=%v", g, pre, secs[:g]))
				// the winner really owns it: every loser's Release is refused, the winner's is honoured
				for _, i := range set {
					if i != winner {
						w.release(i)
					}
				}
				w.release(winner)
				// and the freed key is again won by exactly one
				w.concurrent(set)
			} else {
				// nobody but the holder got in; after the lease ends exactly one does
				w.forward(k.expiry - w.now + 1)
				w.concurrent(set)
			}
		})
	})
}

// ------------------------------------------------------------------ scripted histories

// The history named in the property ("A expires, B acquires, A releases"), as a plain
// test.  Also documents the API-level meaning of each clause.
func TestVerifC19ScriptedLateRelease(t *testing.T) {
	logx.Disable()
	st := verifkit.New("scripted")
	defer st.Flush()
	for _, sec := range []int{-1, 0, 1, 3} {
		st.Eval()
		w := c19NewWorld(t, st, []int{3}, []int{sec, 2, 1})
		const a, b, c = 0, 1, 2
		w.guard(func() {
			w.acquire(a) // true
			w.acquire(b) // false: a holds
			w.forward(c19Lease(w.inst[a].sec) - 1)
			w.acquire(b)               // false: 1 ms of lease left
			w.release(b)               // false, a unaffected
			w.forward(2)               // a expired
			w.acquire(b)               // true
			w.release(a)               // false: late release
			w.acquire(c)               // false: b still holds
			w.acquire(b)               // true: refresh
			w.forward(c19Lease(2) - 1) // counted from the refresh
			w.acquire(c)               // false
			w.release(b)               // true
			w.release(b)               // false: already released
			w.acquire(c)               // true
		})
		if w.dead {
			continue
		}
		if w.late != 1 {
			t.Fatalf("scripted history: late release not recognised; %s", w.log.String())
		}
		st.NonTrivial(w.log.String())
	}
}

// The window named by seeded change C19b as a plain test: while the holder's Release is
// between its store commands (if it has more than one) the lease runs out and another
// instance takes the key; likewise for Acquire with a competing Acquire in the window.
func TestVerifC19ScriptedInterleaved(t *testing.T) {
	logx.Disable()
	st := verifkit.New("scripted")
	defer st.Flush()
	for _, cluster := range []bool{false, true} {
		for k := 1; k <= 3; k++ {
			for _, call := range []byte{'r', 'a', 'h'} {
				st.Eval()
				c19UseCluster = cluster
				w := c19NewWorld(t, st, []int{3}, []int{2, 30, 30})
				const a, b = 0, 1
				w.guard(func() {
					if call == 'r' {
						w.acquire(a)
						w.interleave(&c19Step{kind: 'r', inst: a}, k,
							[]*c19Step{{kind: 'f', arg: c19Lease(2) + 1}, {kind: 'a', inst: b}})
						w.release(a) // late (or repeated) release: false
						w.acquire(2) // false: b holds
						w.release(b) // true
					} else if call == 'h' { // the holder's refreshing Acquire, lease running out in the window
						w.acquire(a)
						w.interleave(&c19Step{kind: 'a', inst: a}, k,
							[]*c19Step{{kind: 'f', arg: c19Lease(2) + 1}, {kind: 'a', inst: b}})
						w.acquire(2) // false: one of a, b holds
						w.forward(c19Lease(30) + 1)
						w.acquire(2) // true
					} else {
						w.interleave(&c19Step{kind: 'a', inst: a}, k, []*c19Step{{kind: 'a', inst: b}})
						w.acquire(2) // false: exactly one of a, b holds
						w.forward(c19Lease(30) + 1)
						w.acquire(2) // true
					}
				})
				if !w.dead {
					st.NonTrivial(w.log.String())
				}
			}
		}
	}
	c19UseCluster = false
}

// ------------------------------------------------------------------ many instances

// "for every number of lock instances on a key": thousands of instances, constructed by
// parallel goroutines at the same instant (one lock object per request is the usual go-zero
// pattern), then used strictly one after another on a frozen store clock.  Every verdict is
// an Acquire/Release result; the token the store holds after an Acquire (the state named in
// the property: "redis key -> holder id") is only used to pick which pairs to try first.
func TestVerifC19ManyInstances(t *testing.T) {
	logx.Disable()
	st := verifkit.New("many-instances")
	defer st.Flush()
	rapid.Check(t, func(t *rapid.T) {
		st.Eval()
		mr, store := c19Server(t)
		mr.FlushAll()
		workers := rapid.SampledFrom([]int{2, 4, 8, 16, 32}).Draw(t, "workers")
		per := rapid.IntRange(50, 400).Draw(t, "perWorker")
		key := fmt.Sprintf("c19:many:%d", c19Seq.Add(1))
		locks := make([]*redis.RedisLock, workers*per)
		start := make(chan struct{})
		var wg sync.WaitGroup
		for w := 0; w < workers; w++ {
			wg.Add(1)
			go func(w int) {
				defer wg.Done()
				<-start
				for i := 0; i < per; i++ {
					l := redis.NewRedisLock(store, key)
					l.SetExpire(60)
					locks[w*per+i] = l
				}
			}(w)
		}
		close(start)
		wg.Wait()
		st.Class(fmt.Sprintf("workers:%d", workers))
		desc := fmt.Sprintf("workers=%d perWorker=%d", workers, per)

		// pass 1: each instance in turn takes and frees the (free) key
		owner := map[string]int{} // stored token -> first instance seen with it
		var twinA, twinB = -1, -1
		for i, l := range locks {
			ok, err := l.Acquire()
			if err != nil {
				st.Note("inconclusive (store error): %v", err)
				return
			}
			if !ok {
				t.Fatalf("C19 VIOLATED (Acquire succeeds if no other instance holds the key): instance #%d refused on a free key; %s", i, desc)
			}
			tok, _ := mr.Get(key)
			if j, dup := owner[tok]; dup && twinA < 0 {
				twinA, twinB = j, i
			} else if !dup {
				owner[tok] = i
			}
			rel, err := l.Release()
			if err != nil {
				st.Note("inconclusive (store error): %v", err)
				return
			}
			if !rel {
				t.Fatalf("C19 VIOLATED (Release by the current holder frees the key): instance #%d holds the key but its Release reported false; %s", i, desc)
			}
		}
		// pass 2: a holder excludes others.  Candidates: the pair the store could not tell apart
		// (if any), plus a generated sample.
		a := rapid.IntRange(0, len(locks)-1).Draw(t, "holder")
		cands := rapid.SliceOfN(rapid.IntRange(0, len(locks)-1), 20, 60).Draw(t, "contenders")
		if twinA >= 0 {
			a = twinA
			cands = append([]int{twinB}, cands...)
			st.Class("store-token-seen-twice")
		}
		if ok, err := locks[a].Acquire(); err != nil || !ok {
			if err != nil {
				st.Note("inconclusive (store error): %v", err)
				return
			}
			t.Fatalf("C19 VIOLATED: instance #%d refused on a free key; %s", a, desc)
		}
		for _, j := range cands {
			if j == a {
				continue
			}
			if rel, err := locks[j].Release(); err == nil && rel {
				t.Fatalf("C19 VIOLATED (Release frees the key only when called by the current holder): instance #%d holds the key (lease 60.5 s, store clock frozen), yet Release by instance #%d reported true; %s", a, j, desc)
			}
			if ok, err := locks[j].Acquire(); err == nil && ok {
				t.Fatalf("C19 VIOLATED (at most one instance holds a key): instance #%d holds the key unexpired, yet instance #%d also acquired it; %s", a, j, desc)
			}
		}
		if rel, err := locks[a].Release(); err == nil && !rel {
			t.Fatalf("C19 VIOLATED: the holder #%d's Release reported false; %s", a, desc)
		}
		st.NonTrivial(desc)
	})
}
