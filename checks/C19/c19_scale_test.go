//go:build verif

package redis_test

// C19, unit `scale` — many lock instances and long histories.
//
// Everything the other units generate is small: 2-4 instances per key (the many-instances unit
// builds up to 12 800, but judges at most 61 of them against a running lease) and histories of some
// tens of steps.  A change that only misbehaves past some size (owner ids minted from a counter
// that wraps, from a ring that is reused when exhausted, from a source that runs dry; a client-side
// table that is reset after a burst; a per-instance counter that wraps) is invisible to them
// however long they run.  This unit draws SIZES as a dimension of the case, log-uniformly over two
// to three orders of magnitude and never tuned to a threshold:
//
//	crowd    N RedisLock instances (medium: 10 - 9 999; large: 10 000 - 300 000) on 1-3 keys are
//	         constructed by 1-16 goroutines, part of them while instance A already holds key K
//	         with a long lease (the other keys get a holder too).  Then the instances that act
//	         (all of them if the per-case budget of store round trips allows; otherwise the ones an
//	         id hint cannot tell apart from A, A's neighbours at every power-of-two stride, the
//	         oldest and newest on every key, and a uniform sample; most instances are never used)
//	         set their seconds and try Acquire and Release on their key, in 1-3 rounds from 1-16
//	         goroutines, with time passing inside the leases or a holder refreshing between rounds:
//	         none may acquire, none may release (all verdicts are API results; refused calls change
//	         nothing, so the verdict does not depend on the order the server sees them in), and
//	         after every round each key still carries its holder's full remaining lease.  Then
//	         the lease ends (A releases, or it runs out: a competitor is refused 1 ms before the
//	         end and admitted 1 ms after, A's late release is refused), the new holder B is attacked
//	         by another sample, pairs on one key that the hint cannot tell apart (if any) are
//	         played against each other under the model, and an instance that was never used takes
//	         and frees the key at the end.
//	history  2-4 instances on each of 1-3 keys and a history of L operations (medium: 20 - 999;
//	         large: 1 000 - 20 000) judged operation by operation by the (holder, expiry) model
//	         of the machine unit: single Acquire / Release / SetExpire / clock advance /
//	         concurrent Acquire, and long RUNS of one situation (the holder refreshing again and
//	         again; one competitor refused again and again and admitted once the key is free; the
//	         key passed round; lease after lease running out, with late releases), their lengths
//	         log-uniform up to what is left of the history.
//
// A store round trip (one Lua script run by miniredis) costs 0.3 - 0.5 ms, constructing an instance
// well under a microsecond: the number of instances and the number of them that act are separate
// dimensions.  One crowd case in VERIF_C19_SCALE_ONE_IN is large; in one of VERIF_C19_SCALE_MASS_ONE_IN
// of those as many instances act as VERIF_C19_SCALE_CALLS round trips allow ("mass sweep"), in the
// others a sample of 200 - 1 200; one history case in VERIF_C19_SCALE_HIST_ONE_IN is large (0 = never,
// 1 = always).  The quick tier runs the test twice: unit `scale` (50 cases: medium sizes, large crowds
// with a sample acting, now and then a long history) and unit `scale-large` (2 cases, each a mass sweep
// or a long history), so that the expensive cases are rare AND their number per run is fixed.  The
// history length is a dimension of the case here, so the loop over operations is explicit (t.Repeat
// takes its length from the global -rapid.steps); every choice in it is a rapid draw.  Which
// instances a sample contains is a pure function (splitmix64) of a drawn seed: rapid's integer
// generators are skewed towards small values, which would keep a sample among the first few
// hundred instances; for the same reason sizes and one-in-n classes are computed from 24 fair bits.
//
// The owner id of an instance is not exported.  It is read through reflection (as the machine unit
// reads miniredis' `nested` flag) ONLY to choose which instances must act when not all can: no
// verdict depends on it, and when the field is not there the unit falls back to stride neighbours
// and the uniform sample.

import (
	"fmt"
	"math"
	"reflect"
	"sort"
	"strings"
	"sync"
	"sync/atomic"
	"testing"
	"time"

	"github.com/zeromicro/go-zero/core/logx"
	"github.com/zeromicro/go-zero/core/stores/redis"
	"github.com/zeromicro/go-zero/internal/verifkit"
	"pgregory.net/rapid"
)

const (
	// the small generators: at most 61 instances are judged against a running lease in one case
	// (many-instances, pass 2: the holder and 20-60 contenders), and the machine / faults units run
	// 40 (quick) resp. 60 (thorough) steps per history
	c19SmallJudged = 61
	c19SmallSteps  = 60
	// non-trivial: at least 100x that
	c19ScaleMinCrowd   = 10000
	c19ScaleMinActed   = 100 * c19SmallJudged
	c19ScaleMinHistory = 100 * c19SmallSteps
)

// VERIF_C19_SCALE_WORKERS=n (timing experiments only): every sweep uses n goroutines.  Never set by check.json.
var c19ScaleWorkers = verifkit.EnvInt("c19_scale_workers", 0)

var c19BitsGen = rapid.SliceOfN(rapid.Bool(), 24, 24)

// c19Unit draws a number in [0,1) that is uniform (24 fair bits).
func c19Unit(t *rapid.T, label string) float64 {
	v := 0
	for _, b := range c19BitsGen.Draw(t, label) {
		v <<= 1
		if b {
			v |= 1
		}
	}
	return float64(v) / (1 << 24)
}

// c19LogU draws an integer from [lo, hi] whose logarithm is uniform.
func c19LogU(t *rapid.T, lo, hi int, label string) int {
	if hi <= lo {
		return lo
	}
	n := int(float64(lo) * math.Pow(float64(hi+1)/float64(lo), c19Unit(t, label)))
	if n < lo {
		n = lo
	}
	if n > hi {
		n = hi
	}
	return n
}

// c19Mix: splitmix64 stream over a drawn seed.
type c19Mix uint64

func (m *c19Mix) next() uint64 {
	*m += 0x9e3779b97f4a7c15
	z := uint64(*m)
	z = (z ^ (z >> 30)) * 0xbf58476d1ce4e5b9
	z = (z ^ (z >> 27)) * 0x94d049bb133111eb
	return z ^ (z >> 31)
}

func (m *c19Mix) intn(n int) int { return int(m.next() % uint64(n)) }

// long leases for the holders that are attacked by a crowd (nothing runs out during a sweep),
// including the values around the 2^31 ms / 2^32 ms points of the other units
var c19LongSecGen = rapid.SampledFrom([]int{30, 60, 600, 3600, 86400, 2147483, 2147484, 4294967, 4294968, 1 << 31, 1<<32 - 1})

// c19IdHint reads the owner id of an instance (a hint for choosing who acts, never a verdict).
func c19IdHint(l *redis.RedisLock) (string, bool) {
	v := reflect.ValueOf(l)
	if v.Kind() != reflect.Ptr || v.IsNil() || v.Elem().Kind() != reflect.Struct {
		return "", false
	}
	f := v.Elem().FieldByName("id")
	if !f.IsValid() || f.Kind() != reflect.String {
		return "", false
	}
	return f.String(), true
}

func TestVerifC19Scale(t *testing.T) {
	logx.Disable()
	st := verifkit.New("scale")
	defer st.Flush()
	oneIn := verifkit.EnvInt("C19_SCALE_ONE_IN", 8)           // crowd: one case in .. has 10 000 - 300 000 instances
	massOneIn := verifkit.EnvInt("C19_SCALE_MASS_ONE_IN", 0)  // ... and one of .. of those a mass sweep
	histOneIn := verifkit.EnvInt("C19_SCALE_HIST_ONE_IN", 20) // history: one case in .. has 1 000 - 20 000 operations
	calls := verifkit.EnvInt("C19_SCALE_CALLS", 12400)
	wall := time.Duration(verifkit.EnvInt("C19_SCALE_WALL_S", 15)) * time.Second
	rapid.Check(t, func(t *rapid.T) {
		st.Eval()
		if rapid.IntRange(0, 2).Draw(t, "crowdMode") != 0 {
			large := c19OneIn(t, oneIn, "sizeClass")
			c19ScaleCrowd(t, st, large, large && c19OneIn(t, massOneIn, "massSweep"), calls, wall)
		} else {
			c19ScaleHistory(t, st, c19OneIn(t, histOneIn, "sizeClass"))
		}
	})
}

// c19OneIn is true in one draw of n: the upper end of the unit interval, so that shrinking moves
// towards the smaller class.
func c19OneIn(t *rapid.T, n int, label string) bool {
	if n <= 0 { // never
		return false
	}
	return n == 1 || c19Unit(t, label) >= 1-1/float64(n)
}

// ------------------------------------------------------------------ crowd

type c19Crowd struct {
	w      *c19World
	t      *rapid.T
	n      int
	knames []string
	keyOf  []uint8
	locks  []*redis.RedisLock
	onKey  [][]int32
	rank   []int32 // position of an instance among the instances of its key
	hints  []string
	cast   map[int32]int // instance -> index in w.inst (instances driven through the model)
	acted  []bool        // took part in a sweep
	wall   time.Duration
	sweeps int
	nacted int
	resent bool
}

// member puts instance g under the model (named role#g) with the given configured seconds.
func (c *c19Crowd) member(g int32, role string, sec int) int {
	if i, ok := c.cast[g]; ok {
		c.w.setExpire(i, sec)
		return i
	}
	in := &c19Inst{name: fmt.Sprintf("%s#%d", role, g), key: int(c.keyOf[g]), lock: c.locks[g]}
	c.w.inst = append(c.w.inst, in)
	i := len(c.w.inst) - 1
	c.cast[g] = i
	c.w.setExpire(i, sec)
	return i
}

// sweep: every instance of list (none of them under the model, each on a key that the model says
// is held by somebody else with time left) sets its seconds and tries Acquire and Release, from
// `workers` goroutines.  Every call must be refused; refused calls change nothing, so the verdict
// does not depend on the order the server sees them in.
func (c *c19Crowd) sweep(list []int32, workers int, order string, sec int) {
	w := c.w
	if c19ScaleWorkers > 0 {
		workers = c19ScaleWorkers
	}
	if len(list) == 0 {
		return
	}
	for _, k := range w.keys {
		if s, _ := w.view(k); s != c19Held || k.expiry-w.now < 2 {
			w.fail("harness: sweep on key %s that the model does not show as held", k.name)
		}
	}
	w.quiet("sweep")
	const (
		acqT = 1 << iota
		relT
		failed
		done
	)
	res := make([]uint8, len(list))
	errs := make([]error, workers)
	deadline := time.Now().Add(c.wall)
	var stop atomic.Bool
	var wg sync.WaitGroup
	for wi := 0; wi < workers; wi++ {
		wg.Add(1)
		go func(wi int) {
			defer wg.Done()
			for p, cnt := wi, 0; p < len(list); p, cnt = p+workers, cnt+1 {
				if cnt&63 == 63 && (stop.Load() || time.Now().After(deadline)) {
					stop.Store(true)
					return
				}
				g := list[p]
				l := c.locks[g]
				if sec >= 0 {
					l.SetExpire(sec)
				}
				var r uint8 = done
				first := order == "acquire-first" || (order == "mixed" && g&1 == 0)
				for step := 0; step < 2; step++ {
					var got bool
					var err error
					if (step == 0) == first {
						if got, err = l.Acquire(); got {
							r |= acqT
						}
					} else {
						if got, err = l.Release(); got {
							r |= relT
						}
					}
					if err != nil {
						r |= failed
						if errs[wi] == nil {
							errs[wi] = err
						}
					}
				}
				res[p] = r
			}
		}(wi)
	}
	wg.Wait()
	ran, nerr := 0, 0
	var bad []string
	for p, r := range res {
		if r&done == 0 {
			continue
		}
		ran++
		c.sweeps++
		if !c.acted[list[p]] {
			c.acted[list[p]] = true
			c.nacted++
		}
		if r&failed != 0 {
			nerr++
		}
		if r&(acqT|relT) != 0 && len(bad) < 6 {
			g := list[p]
			k := w.keys[c.keyOf[g]]
			what := "Acquire succeeded"
			if r&relT != 0 {
				what = "Release reported true"
				if r&acqT != 0 {
					what = "Acquire succeeded and Release reported true"
				}
			}
			bad = append(bad, fmt.Sprintf("instance #%d (no. %d on %s): %s while %s holds the key with %d ms of lease left%s",
				g, c.rank[g], k.name, what, w.inst[k.holder].name, k.expiry-w.now, c.sameHint(g, k.holder)))
		}
	}
	fmt.Fprintf(&w.log, " sweep(%d of %d instances, %d goroutines, %s, seconds %d)", ran, len(list), workers, order, sec)
	if ran < len(list) {
		c.w.st.Class("crowd:sweep-cut-short-by-wall-budget")
		c.w.st.Note("scale: a sweep of %d instances was cut short after %d (wall budget %v): the rest of the case is judged on those", len(list), ran, c.wall)
	}
	if len(bad) > 0 {
		nbad := 0
		for _, r := range res {
			if r&(acqT|relT) != 0 {
				nbad++
			}
		}
		w.fail("crowd of %d instances against running leases: %d instance(s) got through (at most one instance holds a key; Release frees the key only when called by the current holder), first: %s",
			ran, nbad, strings.Join(bad, " | "))
	}
	for _, e := range errs {
		w.infra(fmt.Sprintf("sweep (%d of %d calls returned an error)", nerr, 2*ran), e)
	}
	if n := c19Evals.Load() - w.evals; n > int64(2*ran) {
		// a refused call that go-redis sent twice is refused twice: harmless here, but noted
		c.resent = true
		w.st.Class("crowd:server-saw-re-sent-commands")
	}
	w.evals = c19Evals.Load()
	fmt.Fprintf(&w.log, "=all-refused")
	w.checkState() // every holder's key is there and carries its full remaining lease
}

func (c *c19Crowd) sameHint(g int32, holderInst int) string {
	if c.hints == nil {
		return ""
	}
	for hg, i := range c.cast {
		if i == holderInst {
			if c.hints[hg] == c.hints[g] {
				return fmt.Sprintf(" [both carry the owner id %q]", c.hints[g])
			}
			return fmt.Sprintf(" [owner ids %q and %q]", c.hints[g], c.hints[hg])
		}
	}
	return ""
}

// twins: instances on the same key that the id hint cannot tell apart, as groups (only groups
// of two or more).
func (c *c19Crowd) twins() [][]int32 {
	if c.hints == nil {
		return nil
	}
	idx := make([]int32, c.n)
	for i := range idx {
		idx[i] = int32(i)
	}
	sort.Slice(idx, func(a, b int) bool {
		x, y := idx[a], idx[b]
		if c.hints[x] != c.hints[y] {
			return c.hints[x] < c.hints[y]
		}
		if c.keyOf[x] != c.keyOf[y] {
			return c.keyOf[x] < c.keyOf[y]
		}
		return x < y
	})
	var out [][]int32
	for i := 0; i < len(idx); {
		j := i + 1
		for j < len(idx) && c.hints[idx[j]] == c.hints[idx[i]] && c.keyOf[idx[j]] == c.keyOf[idx[i]] {
			j++
		}
		if j-i >= 2 {
			out = append(out, append([]int32(nil), idx[i:j]...))
		}
		i = j
	}
	return out
}

func c19ScaleCrowd(t *rapid.T, st *verifkit.Stats, large, mass bool, calls int, wall time.Duration) {
	mr, store := c19Server(t)
	cluster := rapid.IntRange(0, 3).Draw(t, "clusterTypeClient") == 0
	if cluster {
		store = c19StoreC
		st.Class("store:cluster-type-client")
	} else {
		st.Class("store:node-type-client")
	}
	mr.FlushAll()
	// A store round trip (one Lua script run by miniredis) costs some hundred microseconds, constructing
	// an instance well under one: the number of instances and the number of them that act are separate
	// dimensions.  medium: 10 - 9 999 instances, at most 100 act; large: 10 000 - 300 000 instances, of
	// which either a sample of 200 - 1 200 acts (stride neighbours, oldest / newest, hinted, uniform) or,
	// in one large case of VERIF_C19_SCALE_MASS_ONE_IN, as many as the budget VERIF_C19_SCALE_CALLS allows
	// ("mass sweep").
	var n int
	if large {
		n = c19LogU(t, c19ScaleMinCrowd, 300000, "instances")
		if !mass {
			calls = c19LogU(t, 400, 2400, "sampleBudget")
		}
	} else {
		n = c19LogU(t, 10, c19ScaleMinCrowd-1, "instances")
		calls = 200
	}
	nkeys := rapid.IntRange(1, 3).Draw(t, "keys")
	layout := "all-on-K"
	if nkeys > 1 {
		layout = rapid.SampledFrom([]string{"all-on-K", "interleaved", "blocks", "random"}).Draw(t, "layout")
	}
	mix := c19Mix(rapid.Uint64().Draw(t, "sampleSeed"))
	share := rapid.SampledFrom([]float64{0.5, 0.8, 0.95}).Draw(t, "shareOfK")
	blockAt := rapid.IntRange(0, 2).Draw(t, "blockOfK")

	c := &c19Crowd{t: t, n: n, wall: wall, cast: map[int32]int{}, acted: make([]bool, n)}
	c.keyOf = make([]uint8, n)
	if nkeys > 1 {
		kn := int(share * float64(n))
		start := []int{0, (n - kn) / 2, n - kn}[blockAt]
		for g := 0; g < n; g++ {
			switch layout {
			case "interleaved":
				c.keyOf[g] = uint8(g % nkeys)
			case "blocks":
				if g < start || g >= start+kn {
					c.keyOf[g] = uint8(1 + g%(nkeys-1))
				}
			case "random":
				if float64(mix.next()>>11)/(1<<53) >= share {
					c.keyOf[g] = uint8(1 + mix.intn(nkeys-1))
				}
			}
		}
		for g := 0; g < 2*nkeys; g++ { // every key has at least two instances
			c.keyOf[g] = uint8(g % nkeys)
		}
	}
	c.onKey = make([][]int32, nkeys)
	c.rank = make([]int32, n)
	for g := 0; g < n; g++ {
		k := c.keyOf[g]
		c.rank[g] = int32(len(c.onKey[k]))
		c.onKey[k] = append(c.onKey[k], int32(g))
	}
	// A: an instance on K (key 0)
	onK := c.onKey[0]
	var a int32
	posA := rapid.SampledFrom([]string{"first", "last", "near-the-end", "uniform"}).Draw(t, "positionOfA")
	switch posA {
	case "first":
		a = onK[0]
	case "last":
		a = onK[len(onK)-1]
	case "near-the-end":
		a = onK[len(onK)-c19LogU(t, 1, len(onK), "AfromEnd")]
	default:
		a = onK[int(c19Unit(t, "A")*float64(len(onK)))]
	}
	// how many instances exist when A takes the key; the others are constructed while it holds it
	cut := n
	switch rapid.SampledFrom([]string{"A-is-the-newest", "all", "uniform"}).Draw(t, "createdBeforeAAcquires") {
	case "A-is-the-newest":
		cut = int(a) + 1
	case "uniform":
		cut = int(a) + 1 + int(c19Unit(t, "cut")*float64(n-int(a)))
	}
	cw := rapid.SampledFrom([]int{1, 1, 4, 16}).Draw(t, "constructors")
	secA := c19LongSecGen.Draw(t, "secondsOfA")

	seq := c19Seq.Add(1)
	w := &c19World{f: t, st: st, mr: mr, evals: c19Evals.Load()}
	c.w = w
	for k := 0; k < nkeys; k++ {
		c.knames = append(c.knames, fmt.Sprintf("c19:%d:s%c", seq, 'a'+k))
		w.keys = append(w.keys, &c19Key{name: c.knames[k], holder: -1})
	}
	fmt.Fprintf(&w.log, "crowd N=%d keys=%d layout=%s onK=%d A=#%d(%s) existingWhenAAcquires=%d constructors=%d cluster=%v budget=%d calls:",
		n, nkeys, layout, len(onK), a, posA, cut, cw, cluster, calls)
	c.locks = make([]*redis.RedisLock, n)
	build := func(from, to int) {
		var wg sync.WaitGroup
		for wi := 0; wi < cw; wi++ {
			wg.Add(1)
			go func(wi int) {
				defer wg.Done()
				for g := from + wi; g < to; g += cw {
					c.locks[g] = redis.NewRedisLock(store, c.knames[c.keyOf[g]])
				}
			}(wi)
		}
		wg.Wait()
	}

	w.guard(func() {
		build(0, cut)
		ia := c.member(a, "A", secA)
		w.acquire(ia)
		build(cut, n) // most of them are never used
		if _, ok := c19IdHint(c.locks[0]); ok {
			c.hints = make([]string, n)
			for g, l := range c.locks {
				c.hints[g], _ = c19IdHint(l)
			}
			st.Class("crowd:id-hint-available")
		} else {
			st.Class("crowd:id-hint-unavailable")
		}
		groups := c.twins()
		if len(groups) > 0 {
			st.Class("crowd:id-hint-shows-instances-it-cannot-tell-apart")
		}
		// the other keys get a holder too (first or last instance on the key)
		for k := 1; k < nkeys; k++ {
			h := c.onKey[k][0]
			if rapid.Bool().Draw(t, "holderIsLast") {
				h = c.onKey[k][len(c.onKey[k])-1]
			}
			w.acquire(c.member(h, "H", c19LongSecGen.Draw(t, "secondsOfH")))
		}

		// --- who acts against the running leases
		maxAct := calls / 2
		var list []int32
		picked := make([]bool, n)
		add := func(g int) {
			if g < 0 || g >= n || picked[g] {
				return
			}
			picked[g] = true
			if _, holder := c.cast[int32(g)]; !holder {
				list = append(list, int32(g))
			}
		}
		if n-len(c.cast) <= maxAct {
			for g := 0; g < n; g++ {
				add(g)
			}
			st.Class("crowd:every-instance-acts")
		} else {
			st.Class("crowd:sample-acts")
			for _, grp := range groups { // indistinguishable from A by the hint
				if c.hints[grp[0]] == c.hints[a] && c.keyOf[grp[0]] == 0 {
					for i, g := range grp {
						if i < 1000 || i >= len(grp)-1000 {
							add(int(g))
						}
					}
				}
			}
			for d := 1; d < n; d <<= 1 { // stride neighbours of A, in construction order and on its key
				for _, e := range []int{d - 1, d, d + 1} {
					add(int(a) - e)
					add(int(a) + e)
					for _, r := range []int{int(c.rank[a]) - e, int(c.rank[a]) + e} {
						if r >= 0 && r < len(onK) {
							add(int(onK[r]))
						}
					}
				}
			}
			for _, on := range c.onKey { // the oldest and the newest on every key
				for i := 0; i < 64 && i < len(on); i++ {
					add(int(on[i]))
					add(int(on[len(on)-1-i]))
				}
			}
			if len(list) > maxAct {
				list = list[:maxAct]
			}
			for len(list) < maxAct {
				add(mix.intn(n))
			}
		}
		rounds := rapid.IntRange(1, 3).Draw(t, "rounds")
		for r := 0; r < rounds; r++ {
			part := list[r*len(list)/rounds : (r+1)*len(list)/rounds]
			c.sweep(part, rapid.SampledFrom([]int{1, 4, 16}).Draw(t, "goroutines"),
				rapid.SampledFrom([]string{"acquire-first", "release-first", "mixed"}).Draw(t, "order"),
				rapid.IntRange(-1, 3).Draw(t, "secondsOfCrowd"))
			if r == rounds-1 {
				break
			}
			switch rapid.IntRange(0, 2).Draw(t, "between") {
			case 1: // time passes, inside every running lease
				rem := int64(math.MaxInt64)
				for _, k := range w.keys {
					if k.expiry-w.now < rem {
						rem = k.expiry - w.now
					}
				}
				if rem > 4 {
					w.forward(1 + int64(c19Unit(t, "within")*float64(rem-4)))
				}
			case 2: // a holder refreshes
				w.acquire(rapid.IntRange(0, len(w.inst)-1).Draw(t, "refresher"))
			}
		}

		// --- the lease ends (released, or run out: refused 1 ms before, admitted 1 ms after); B takes K
		b := onK[len(onK)-1]
		switch rapid.IntRange(0, 3).Draw(t, "B") {
		case 1:
			b = onK[mix.intn(len(onK))]
		case 2: // a stride neighbour of A on the key
			if r := int(c.rank[a]) + (1<<mix.intn(19))*(1-2*mix.intn(2)); r >= 0 && r < len(onK) {
				b = onK[r]
			}
		case 3: // one the hint cannot tell apart from A, if there is one
			b = onK[mix.intn(len(onK))]
			for _, grp := range groups {
				if c.hints[grp[0]] == c.hints[a] && c.keyOf[grp[0]] == 0 {
					b = grp[mix.intn(len(grp))]
				}
			}
		}
		if b == a {
			b = onK[(int(c.rank[a])+1)%len(onK)]
		}
		kK := w.keys[0]
		ib := c.member(b, "B", rapid.SampledFrom([]int{0, 1, 2, 3, 60}).Draw(t, "secondsOfB"))
		if rapid.Bool().Draw(t, "leaseRunsOut") {
			w.forward(kK.expiry - w.now - 1)
			w.acquire(ib) // 1 ms left: refused
			w.forward(2)
			w.acquire(ib)
			w.release(ia) // late release by the expired holder: refused, B keeps the key
		} else {
			w.release(ia)
			w.acquire(ib)
		}
		// B is attacked by a sample of the instances on K (the other keys' leases may have run out)
		maxB := maxAct / 10
		if maxB < 50 {
			maxB = 50
		}
		var listB []int32
		pickedB := make([]bool, len(onK))
		addB := func(r int) {
			if r < 0 || r >= len(onK) || pickedB[r] {
				return
			}
			pickedB[r] = true
			if _, model := c.cast[onK[r]]; !model {
				listB = append(listB, onK[r])
			}
		}
		if len(onK)-2 <= maxB {
			for r := range onK {
				addB(r)
			}
		} else {
			for _, grp := range groups {
				if c.hints[grp[0]] == c.hints[b] && c.keyOf[grp[0]] == 0 {
					for i, g := range grp {
						if i < 200 || i >= len(grp)-200 {
							addB(int(c.rank[g]))
						}
					}
				}
			}
			for d := 1; d < len(onK); d <<= 1 {
				for _, e := range []int{d - 1, d, d + 1} {
					addB(int(c.rank[b]) - e)
					addB(int(c.rank[b]) + e)
				}
			}
			if len(listB) > maxB {
				listB = listB[:maxB]
			}
			for len(listB) < maxB {
				addB(mix.intn(len(onK)))
			}
		}
		// only K is swept now: the sweep precondition (every key held) is checked for K alone
		others := w.keys
		w.keys = w.keys[:1]
		c.sweep(listB, rapid.SampledFrom([]int{1, 4, 16}).Draw(t, "goroutinesB"),
			rapid.SampledFrom([]string{"acquire-first", "release-first", "mixed"}).Draw(t, "orderB"),
			rapid.IntRange(-1, 3).Draw(t, "secondsOfCrowdB"))
		w.keys = others
		w.checkState()
		w.acquire(ia) // the former holder is one of the crowd now: refused
		w.release(ia)
		w.release(ib)

		// --- pairs on one key that the hint cannot tell apart (none on the unchanged tree): x takes
		// the key, y must be refused; judged by the model like every other call
		npairs := 0
		for _, grp := range groups {
			if npairs == 12 {
				break
			}
			x, y := grp[0], grp[len(grp)-1]
			if x == a || x == b || y == a || y == b {
				continue
			}
			npairs++
			k := w.keys[c.keyOf[x]]
			if s, h := w.view(k); s != c19Free {
				if s == c19Held {
					w.release(h)
				} else {
					w.forward(1)
				}
			}
			ix, iy := c.member(x, "T", 1), c.member(y, "U", 2)
			w.acquire(ix)
			w.release(iy)
			w.acquire(iy)
			w.release(ix)
			st.Class("crowd:pair-the-hint-cannot-tell-apart-judged")
		}

		// --- after the burst an instance that was never used still works as a lock on K
		fresh := int32(-1)
		for i, p := 0, mix.intn(len(onK)); i < len(onK); i, p = i+1, (p+1)%len(onK) {
			if g := onK[p]; !c.acted[g] {
				if _, model := c.cast[g]; !model {
					fresh = g
					break
				}
			}
		}
		if fresh >= 0 {
			st.Class("crowd:never-used-instance-at-the-end")
			ic := c.member(fresh, "C", rapid.IntRange(0, 3).Draw(t, "secondsOfC"))
			w.acquire(ic)
			w.acquire(ib) // refused
			w.release(ic)
		}
	})

	switch {
	case n >= 100000:
		st.Class("crowd:instances>=100000")
		st.Class("crowd:instances>=10000")
	case n >= 10000:
		st.Class("crowd:instances>=10000")
	case n >= 1000:
		st.Class("crowd:instances>=1000")
	default:
		st.Class("crowd:instances<1000")
	}
	if mass {
		st.Class("crowd:mass-sweep")
	}
	st.Class("crowd:layout:" + layout)
	st.Class("crowd:A-" + posA)
	st.ClassN("crowd:refused-calls-judged", c.sweeps*2)
	if w.dead {
		return
	}
	if c.nacted >= c19ScaleMinActed {
		st.Class("crowd:acted>=6100")
	}
	if n >= c19ScaleMinCrowd && c.nacted >= c19ScaleMinActed {
		st.Class("case:large-crowd-judged")
		st.NonTrivial(w.log.String())
	}
}

// ------------------------------------------------------------------ long histories

type c19Hist struct {
	w   *c19World
	t   *rapid.T
	ops int
}

func (h *c19Hist) acq(i int) bool { h.ops++; return h.w.acquire(i) }
func (h *c19Hist) rel(i int) bool { h.ops++; return h.w.release(i) }
func (h *c19Hist) fwd(ms int64)   { h.ops++; h.w.forward(ms) }

// free makes key k free: its holder releases, or the lease runs out.
func (h *c19Hist) free(k int) {
	key := h.w.keys[k]
	switch s, hd := h.w.view(key); {
	case s == c19Held && rapid.Bool().Draw(h.t, "byRelease"):
		h.rel(hd)
	case s != c19Free:
		h.fwd(key.expiry - h.w.now + 1)
	}
}

// hold makes sure somebody holds key k with more than 2 ms left and returns that instance.
func (h *c19Hist) hold(k int) int {
	key := h.w.keys[k]
	if s, hd := h.w.view(key); s == c19Held && key.expiry-h.w.now > 2 {
		return hd
	} else if s != c19Free {
		h.fwd(key.expiry - h.w.now + 1)
	}
	on := h.w.onKey(k)
	i := on[rapid.IntRange(0, len(on)-1).Draw(h.t, "newHolder")]
	h.acq(i)
	return i
}

func (h *c19Hist) other(k, not int) int {
	on := h.w.onKey(k)
	i := on[rapid.IntRange(0, len(on)-1).Draw(h.t, "other")]
	if i == not {
		i = on[(i-on[0]+1)%len(on)]
	}
	return i
}

func c19Min64(a, b int64) int64 {
	if a < b {
		return a
	}
	return b
}

func c19ScaleHistory(t *rapid.T, st *verifkit.Stats, large bool) {
	nkeys := rapid.IntRange(1, 3).Draw(t, "keys")
	nOnKey := make([]int, nkeys)
	total := 0
	for k := range nOnKey {
		nOnKey[k] = rapid.IntRange(2, 4).Draw(t, "instancesOnKey")
		total += nOnKey[k]
	}
	secs := rapid.SliceOfN(c19InitSecGen, total, total).Draw(t, "initialSeconds")
	c19UseCluster = rapid.IntRange(0, 3).Draw(t, "clusterTypeClient") == 0
	w := c19NewWorld(t, st, nOnKey, secs)
	c19UseCluster = false
	var target int
	if large {
		target = c19LogU(t, 1000, 20000, "operations")
	} else {
		target = c19LogU(t, 20, 999, "operations")
	}
	fmt.Fprintf(&w.log, " history of %d operations:", target)
	h := &c19Hist{w: w, t: t}
	anyInst := rapid.IntRange(0, total-1)
	anyKey := rapid.IntRange(0, nkeys-1)
	runs := map[string]int{}
	for h.ops < target && !w.dead {
		w.guard(func() {
			switch op := rapid.IntRange(0, 15).Draw(t, "op"); {
			case op < 4:
				h.acq(anyInst.Draw(t, "inst"))
			case op < 8:
				h.rel(anyInst.Draw(t, "inst"))
			case op < 11:
				var ms int64
				switch rapid.IntRange(0, 2).Draw(t, "mode") {
				case 0:
					ms = rapid.Int64Range(1, 1200).Draw(t, "ms")
				case 1: // around the end of a running lease
					k := w.keys[anyKey.Draw(t, "key")]
					rem := int64(500)
					if s, _ := w.view(k); s != c19Free {
						rem = k.expiry - w.now
					}
					ms = rem + rapid.Int64Range(-1, 1).Draw(t, "delta")
				default: // around a configured lease length
					ms = c19Lease(c19SecGen.Draw(t, "s")) + rapid.Int64Range(-1, 1).Draw(t, "delta")
				}
				h.fwd(ms)
			case op < 12:
				h.ops++
				w.setExpire(anyInst.Draw(t, "inst"), c19SecGen.Draw(t, "seconds"))
			case op < 13: // concurrent Acquire by all instances of a key
				h.ops++
				w.concurrent(w.onKey(anyKey.Draw(t, "key")))
			default: // a long run of one situation
				k := anyKey.Draw(t, "key")
				key := w.keys[k]
				left := target - h.ops
				if left < 2 {
					left = 2
				}
				n := c19LogU(t, 2, left, "runLength")
				end := h.ops + n
				kind := rapid.SampledFrom([]string{"refresh", "starve", "pass-round", "run-out"}).Draw(t, "run")
				runs[kind]++
				if n >= 256 {
					runs[kind+">=256"]++
				}
				fmt.Fprintf(&w.log, " run{%s %d}", kind, n)
				switch kind {
				case "refresh": // the holder re-acquires again and again; its lease counts from the last one
					hd := h.hold(k)
					for h.ops < end {
						rem := key.expiry - w.now
						if rem > 1 {
							h.fwd(rapid.Int64Range(1, c19Min64(rem-1, 1500)).Draw(t, "within"))
						}
						h.acq(hd)
					}
				case "starve": // one competitor is refused again and again, and admitted once the key is free
					hd := h.hold(k)
					o := h.other(k, hd)
					for h.ops < end {
						rem := key.expiry - w.now
						switch x := rapid.IntRange(0, 3).Draw(t, "step"); {
						case rem <= 300:
							h.acq(hd)
						case x == 0:
							h.fwd(rapid.Int64Range(1, c19Min64(rem-2, 200)).Draw(t, "within"))
						case x == 1:
							h.rel(o)
						default:
							h.acq(o)
						}
					}
					h.free(k)
					h.acq(o)
				case "pass-round": // taken and given back by one instance after the other
					h.free(k)
					on := w.onKey(k)
					for j := 0; h.ops < end; j++ {
						i := on[j%len(on)]
						h.acq(i)
						if rapid.IntRange(0, 7).Draw(t, "intruder") == 0 {
							h.acq(on[(j+1)%len(on)])
						}
						h.rel(i)
					}
				default: // lease after lease runs out; the expired holder sometimes releases late
					for h.ops < end {
						prev := -1
						if s, hd := w.view(key); s != c19Free {
							prev = hd
							h.fwd(key.expiry - w.now + rapid.Int64Range(1, 3).Draw(t, "past"))
						}
						on := w.onKey(k)
						i := on[rapid.IntRange(0, len(on)-1).Draw(t, "next")]
						h.acq(i)
						if prev >= 0 && prev != i && rapid.Bool().Draw(t, "lateRelease") {
							h.rel(prev)
						}
					}
				}
			}
		})
	}
	for name, n := range runs {
		st.ClassN("history:run:"+name, n)
	}
	switch {
	case h.ops >= c19ScaleMinHistory:
		st.Class("history:operations>=6000")
	case h.ops >= 1000:
		st.Class("history:operations>=1000")
	case h.ops >= 100:
		st.Class("history:operations>=100")
	default:
		st.Class("history:operations<100")
	}
	st.ClassN("history:operations-judged", h.ops)
	if w.late > 0 {
		st.Class("history:with-late-release-after-takeover")
	}
	if !w.dead && h.ops >= c19ScaleMinHistory {
		st.Class("case:long-history-judged")
		st.NonTrivial(w.log.String())
	}
}
