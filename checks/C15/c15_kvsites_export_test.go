//go:build verif

package kv

import "github.com/zeromicro/go-zero/core/hash"

// VerifC15EmptyStore returns a store whose ring holds no node.  NewStore refuses such a
// configuration with log.Fatal, so it can only be built in-package; the external test
// package kv_test uses it for the "none when the ring is empty" clause of C15.
func VerifC15EmptyStore() Store {
	return clusterStore{dispatcher: hash.NewConsistentHash()}
}
