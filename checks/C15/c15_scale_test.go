//go:build verif

// C15, unit scale — large rings.
//
// The units `ring` and `rings-independent` hold at most 12 nodes (4 800 virtual nodes) and ask
// at most 2 000 probe keys, so a regression that needs a size (a buffer capped or recycled past
// a threshold, a counter that wraps, a chunked loop that drops its remainder, a fast path for
// big slices) is invisible to them however long they run.  This unit drives ONE ring per case
// through a long history:
//
//	build   n nodes are added one by one (Add / AddWithWeight / AddWithReplicas with drawn
//	        arguments) in a drawn order (sorted by representation, reverse, shuffled);
//	churn   a rapid state machine (t.Repeat) removes, re-adds and re-weights 1–30 % of the
//	        nodes, one at a time or in batches;
//
// and judges it with the three oracles of unit `ring`, on a probe set that is large enough to
// see single virtual nodes (the arc of one virtual node is 1/400 000 of the ring at the top of
// the range):
//
//	(1) membership            every full reading of the probe set: Get returns a node that is
//	                          in the ring with > 0 virtual nodes; no node only if there is none;
//	(2) history independence  the ring after the history answers every probe like a fresh ring
//	                          that got the same members in another order;
//	(3) minimal disruption    between two full readings, a probe whose answer changed has one
//	                          of the nodes operated in between on one side.  Operations that
//	                          are judged alone (a reading directly before and after) get the
//	                          statement's per-operation rule exactly; the others are judged
//	                          as a batch, which follows from the per-operation rule: the first
//	                          change of the probe leaves its old node for an operated node
//	                          unless the old node was operated itself.
//
// Sizes are not tuned to anything in the implementation: node count, replica count of custom
// rings, probe count, churn share and batch sizes are log-uniform over wide ranges (drawn from
// fair coins, because rapid's integer and float generators prefer small and simple values).
// One case in VERIF_SCALE_ONEIN is LARGE (100–2 000 nodes, 10^4–4·10^5 virtual nodes,
// 2·10^4–3·10^5 probes), the others are MEDIUM (12–100 nodes, 2 000–20 000 probes) and close
// the gap to the small units.  What a case costs is bounded by knobs, never by a clock:
// VERIF_SCALE_MAXVN caps nodes × replicas (4·10^5, the top of the range) and
// VERIF_SCALE_MAXWORK caps nodes × nodes × replicas, which is what building a ring costs (every
// addition sorts the whole list of virtual nodes again); a case beyond a cap keeps its replica
// count and gets fewer nodes (class large:nodes-cut-by-budget).  VERIF_SCALE_GETS is the
// number of Get calls a case may spend, i.e. how many full readings are taken.
package hash_test

import (
	"fmt"
	"hash/fnv"
	"math"
	"sort"
	"strconv"
	"strings"
	"testing"

	"github.com/zeromicro/go-zero/core/hash"
	"github.com/zeromicro/go-zero/internal/verifkit"
	"pgregory.net/rapid"
)

// Largest sizes the small generators (units ring, rings-independent) produce, thorough tier.
const (
	c15sSmallMaxNodes  = 12
	c15sSmallMaxProbes = 2000
	c15sNontrivialX    = 100
)

// ------------------------------------------------------------------ drawing sizes

// c15sUniform: a uniform number in [0,1) with 16 bits of resolution from fair coins, most
// significant first (shrinking makes it smaller).
func c15sUniform(t *rapid.T, label string) float64 {
	u := 0
	for _, b := range rapid.SliceOfN(rapid.Bool(), 16, 16).Draw(t, label) {
		u <<= 1
		if b {
			u |= 1
		}
	}
	return float64(u) / 65536
}

// c15sLog draws an integer from [lo, hi] with log-uniform density.
func c15sLog(t *rapid.T, lo, hi int, label string) int {
	if hi <= lo {
		return lo
	}
	n := int(float64(lo) * math.Pow(float64(hi+1)/float64(lo), c15sUniform(t, label)))
	return min(max(n, lo), hi)
}

func c15sBand(n int, bounds ...int) string {
	lo := 0
	for _, b := range bounds {
		if n < b {
			return fmt.Sprintf("%d..%d", lo, b-1)
		}
		lo = b
	}
	return fmt.Sprintf(">=%d", lo)
}

// ------------------------------------------------------------------ nodes and probes

var c15sNamings = []string{"ints", "ints-wide", "addresses", "hostnames", "stringers", "mixed"}

// c15sMakeNode returns node number i of a case.  Different i give different
// representations inside one naming (checked by the caller).
func c15sMakeNode(naming string, i, salt int) c15Node {
	switch naming {
	case "ints": // consecutive numbers: "12"+"34" == "123"+"4", nodes share virtual-node names all the time
		return c15Node{salt + i, strconv.Itoa(salt + i)}
	case "ints-wide":
		v := int64(salt)*1000003 + int64(i)*7919
		return c15Node{v, strconv.FormatInt(v, 10)}
	case "addresses":
		s := fmt.Sprintf("10.%d.%d.%d:%d", (salt+i>>16)&255, (i>>8)&255, i&255, 6379+salt%3)
		return c15Node{s, s}
	case "hostnames":
		s := fmt.Sprintf("cache-%04d.shard-%d.prod.svc.cluster.local:6379", i, salt%97)
		return c15Node{s, s}
	case "stringers":
		if i%2 == 0 {
			s := fmt.Sprintf("redis-%d.%d", salt%1000, i)
			return c15Node{&c15Addr{s, i}, s}
		}
		s := strconv.Itoa(salt%1000) + "/" + strconv.Itoa(i)
		return c15Node{c15Val(s), "v" + s}
	default: // mixed
		switch i % 5 {
		case 0:
			return c15Node{100000 + salt + i, strconv.Itoa(100000 + salt + i)}
		case 1:
			return c15sMakeNode("addresses", i, salt)
		case 2:
			return c15sMakeNode("hostnames", i, salt)
		case 3:
			s := "n" + strconv.Itoa(i) // n1, n11, n111: digit suffixes again
			return c15Node{s, s}
		default:
			return c15sMakeNode("stringers", i, salt)
		}
	}
}

// c15sMakeProbes builds n lookup keys: numbers, strings of several shapes, a few Stringers.
func c15sMakeProbes(n, salt int) []any {
	ps := make([]any, n)
	for i := range ps {
		switch i % 4 {
		case 0:
			ps[i] = salt + i*3
		case 1:
			ps[i] = "user:" + strconv.Itoa(salt+i) + ":profile"
		case 2:
			ps[i] = strconv.FormatInt(int64(salt+1)*int64(i+7)*2654435761, 36)
		default:
			if i%64 == 3 {
				ps[i] = c15Val("p" + strconv.Itoa(i))
			} else {
				ps[i] = "order#" + strconv.Itoa(i) + "/" + strconv.Itoa(salt)
			}
		}
	}
	return ps
}

// ------------------------------------------------------------------ one case

type c15sMember struct {
	in   bool
	call c15Op // the call that defines the node at the moment
	eff  int   // number of virtual nodes that call asks for
}

type c15sCase struct {
	t      *rapid.T
	st     *verifkit.Stats
	header string
	R      int
	mk     func() *hash.ConsistentHash
	ch     *hash.ConsistentHash
	nodes  []c15Node
	index  map[any]int32 // node value -> number
	probes []any
	memb   []c15sMember
	live   int // members with > 0 virtual nodes
	vnodes int // sum of eff over the members

	cur      []int32 // the last full reading (-1 = no node)
	batch    []int32 // nodes operated since the last full reading
	inBatch  []bool
	batchLog []string
	nops     int
	opsHash  uint64 // fingerprint of the whole history
	churnLog strings.Builder

	getsLeft   int
	readings   int
	singles    int // operations judged alone
	batches    int // batches of >= 2 operations judged together
	changed    int // probes that changed in some judged step
	peakNodes  int
	peakVnodes int
}

func (c *c15sCase) fatalf(format string, a ...any) {
	log := c.churnLog.String()
	if len(log) > 6000 {
		log = log[:3000] + " … " + log[len(log)-3000:]
	}
	c.t.Fatalf("%s\ncase: %s\noperations since the last full reading (%d): %s\nchurn so far:%s",
		fmt.Sprintf(format, a...), c.header, len(c.batchLog), c.renderBatch(), log)
}

func (c *c15sCase) renderBatch() string {
	if len(c.batchLog) <= 12 {
		return strings.Join(c.batchLog, " ")
	}
	return strings.Join(c.batchLog[:6], " ") + fmt.Sprintf(" … (%d more) … ", len(c.batchLog)-12) +
		strings.Join(c.batchLog[len(c.batchLog)-6:], " ")
}

// apply performs one operation on the ring and on the model.
func (c *c15sCase) apply(op c15Op, i int32) {
	s := op.String()
	c.nops++
	c.opsHash = (c.opsHash ^ c15sFnv(s)) * 1099511628211
	c.batchLog = append(c.batchLog, s)
	if !c.inBatch[i] {
		c.inBatch[i] = true
		c.batch = append(c.batch, i)
	}
	op.apply(c.ch)
	m := &c.memb[i]
	if m.in {
		c.vnodes -= m.eff
		if m.eff > 0 {
			c.live--
		}
	}
	if op.kind == "remove" {
		*m = c15sMember{}
		return
	}
	eff, _ := op.effective(c.R)
	*m = c15sMember{in: true, call: op, eff: eff}
	c.vnodes += eff
	if eff > 0 {
		c.live++
	}
	c.peakVnodes = max(c.peakVnodes, c.vnodes)
}

func c15sFnv(s string) uint64 {
	h := fnv.New64a()
	h.Write([]byte(s))
	return h.Sum64()
}

// read asks every probe.
func (c *c15sCase) read(ch *hash.ConsistentHash) []int32 {
	out := make([]int32, len(c.probes))
	for i, p := range c.probes {
		v, ok := ch.Get(p)
		if !ok {
			if v != nil {
				c.fatalf("Get(%v) = (%v, false): a node together with ok=false", p, v)
			}
			out[i] = -1
			continue
		}
		k, known := c.index[v]
		if !known {
			c.fatalf("membership: Get(%v) returned %T(%v), which was never added", p, v, v)
		}
		out[i] = k
	}
	return out
}

func (c *c15sCase) name(k int32) string {
	if k < 0 {
		return "no node"
	}
	return c.nodes[k].String()
}

// judge takes a full reading and evaluates membership and minimal disruption for the
// operations since the previous full reading.
func (c *c15sCase) judge() {
	after := c.read(c.ch)
	c.getsLeft -= len(c.probes)
	c.readings++

	// (1) "Get always returns one of the nodes currently in the ring (and none when the ring
	// is empty) ... a removed node is never returned"
	for i, a := range after {
		if a < 0 {
			if c.live > 0 {
				c.fatalf("membership: Get(%v) found no node although %d nodes with virtual nodes are in the ring", c.probes[i], c.live)
			}
			continue
		}
		m := c.memb[a]
		if !m.in {
			c.fatalf("membership: Get(%v) returned %s, which is not in the ring (removed or never added)", c.probes[i], c.name(a))
		}
		if m.eff == 0 {
			c.fatalf("membership: Get(%v) returned %s, which was last added with zero replicas (%v)", c.probes[i], c.name(a), m.call)
		}
	}

	// (3) "Adding a new node changes the assignment only of keys that move to it, removing a
	// node changes the assignment only of keys that were assigned to it, and re-adding a node
	// with a different replica count or weight only moves keys to or from that node."
	nchanged := 0
	for i := range after {
		b, a := c.cur[i], after[i]
		if a == b {
			continue
		}
		nchanged++
		if (b < 0 || !c.inBatch[b]) && (a < 0 || !c.inBatch[a]) {
			what := "the operated node"
			if len(c.batch) > 1 {
				what = fmt.Sprintf("one of the %d operated nodes", len(c.batch))
			}
			c.fatalf("disruption: probe %v moved from %s to %s, neither is %s", c.probes[i], c.name(b), c.name(a), what)
		}
	}
	c.changed += nchanged
	switch {
	case len(c.batchLog) == 1:
		c.singles++
		if nchanged > 0 {
			c.st.Class("judged-alone:changed-probes")
		}
	case len(c.batchLog) > 1:
		c.batches++
	}
	c.cur = after
	for _, k := range c.batch {
		c.inBatch[k] = false
	}
	c.batch = c.batch[:0]
	c.batchLog = c.batchLog[:0]
}

// canRead reports whether n more full readings fit into the budget (two are reserved for the
// end of the case).
func (c *c15sCase) canRead(n int) bool {
	return c.getsLeft >= (n+2)*len(c.probes)
}

// single performs one operation and, budget permitting, judges it alone.
func (c *c15sCase) single(op c15Op, i int32) {
	if len(c.batchLog) > 0 && c.canRead(2) {
		c.judge()
	}
	c.apply(op, i)
	if c.canRead(1) {
		c.judge()
	}
}

// drawCall draws the call that (re-)adds a node.
func (c *c15sCase) drawCall(t *rapid.T, n c15Node, label string) c15Op {
	R := c.R
	switch rapid.IntRange(0, 9).Draw(t, label+"Kind") {
	case 0, 1, 2, 3:
		return c15Op{kind: "add", node: n}
	case 4, 5, 6, 7:
		var w int
		if rapid.IntRange(0, 3).Draw(t, label+"WeightEdge") == 0 {
			w = rapid.SampledFrom([]int{1, 2, 50, 99, 100, 101, 150, 0}).Draw(t, label+"Weight")
		} else {
			w = rapid.IntRange(1, 150).Draw(t, label+"Weight")
		}
		return c15Op{kind: "weight", node: n, arg: w}
	default:
		var r int
		if rapid.IntRange(0, 3).Draw(t, label+"ReplicasEdge") == 0 {
			r = rapid.SampledFrom([]int{1, 2, R - 1, R, R + 1, 2 * R, 0}).Draw(t, label+"Replicas")
		} else {
			r = rapid.IntRange(1, 2*R).Draw(t, label+"Replicas")
		}
		return c15Op{kind: "replicas", node: n, arg: r}
	}
}

// ------------------------------------------------------------------ the property

func TestVerifC15Scale(t *testing.T) {
	st := verifkit.New("scale")
	defer st.Flush()
	oneIn := verifkit.EnvInt("scale_onein", 18)
	maxVN := verifkit.EnvInt("scale_maxvn", 400000)
	maxWork := verifkit.EnvInt("scale_maxwork", 50000000)
	getBudget := verifkit.EnvInt("scale_gets", 1500000)
	fns := c15xFuncs(0, false)

	rapid.Check(t, func(t *rapid.T) {
		st.Eval()
		c := &c15sCase{t: t, st: st}

		// ---- sizes
		large := oneIn <= 1 || c15sUniform(t, "sizeClass") >= 1-1/float64(oneIn)
		var n, nprobes int
		if large {
			n = c15sLog(t, 100, 2000, "nodes")
			nprobes = c15sLog(t, 20000, 300000, "probes")
		} else {
			n = c15sLog(t, c15sSmallMaxNodes, 99, "nodes")
			nprobes = c15sLog(t, c15sSmallMaxProbes, 19999, "probes")
		}
		var ringName string
		if rapid.IntRange(0, 2).Draw(t, "defaultRing") == 0 {
			c.R, ringName = 100, "default"
			c.mk = func() *hash.ConsistentHash { return hash.NewConsistentHash() }
		} else {
			R := c15sLog(t, 100, 400, "replicas")
			fn := rapid.SampledFrom(fns).Draw(t, "hashFunc")
			c.R, ringName = R, fmt.Sprintf("custom(%d,%s)", R, fn.label)
			c.mk = func() *hash.ConsistentHash { return hash.NewCustomConsistentHash(R, fn.fn) }
		}
		drawnNodes := n
		if n*c.R > maxVN {
			n = maxVN / c.R
		}
		if n*n*c.R > maxWork {
			n = int(math.Sqrt(float64(maxWork) / float64(c.R)))
		}
		n = max(n, c15sSmallMaxNodes)
		naming := rapid.SampledFrom(c15sNamings).Draw(t, "naming")
		salt := rapid.IntRange(0, 99999).Draw(t, "salt")
		order := rapid.SampledFrom([]string{"sorted", "reverse", "shuffled"}).Draw(t, "buildOrder")
		churnShare := float64(c15sLog(t, 100, 3000, "churnShare")) / 10000 // 1 % .. 30 %
		quota := max(1, int(math.Round(churnShare*float64(n))))
		c.getsLeft = max(getBudget, 4*nprobes)

		c.nodes = make([]c15Node, n)
		c.index = make(map[any]int32, n)
		reprs := map[string]bool{}
		for i := range c.nodes {
			nd := c15sMakeNode(naming, i, salt)
			if reprs[nd.repr] {
				t.Fatalf("test bug: naming %s salt %d gives the representation %q twice", naming, salt, nd.repr)
			}
			reprs[nd.repr] = true
			c.nodes[i] = nd
			c.index[nd.val] = int32(i)
		}
		c.probes = c15sMakeProbes(nprobes, salt)
		c.memb = make([]c15sMember, n)
		c.inBatch = make([]bool, n)
		c.opsHash = 14695981039346656037
		c.ch = c.mk()
		c.header = fmt.Sprintf("ring=%s nodes=%d naming=%s salt=%d build-order=%s probes=%d churn=%d nodes",
			ringName, n, naming, salt, order, nprobes, quota)

		// the order in which the nodes are added
		byRepr := make([]int32, n)
		for i := range byRepr {
			byRepr[i] = int32(i)
		}
		sort.Slice(byRepr, func(a, b int) bool { return c.nodes[byRepr[a]].repr < c.nodes[byRepr[b]].repr })
		orderOf := func(kind, label string) []int32 {
			out := append([]int32(nil), byRepr...)
			switch kind {
			case "reverse":
				for a, b := 0, len(out)-1; a < b; a, b = a+1, b-1 {
					out[a], out[b] = out[b], out[a]
				}
			case "shuffled":
				out = rapid.Permutation(out).Draw(t, label)
			}
			return out
		}
		buildOrder := orderOf(order, "buildPermutation")

		// ---- empty ring
		c.cur = c.read(c.ch)
		for i, k := range c.cur {
			if k >= 0 {
				c.fatalf("empty ring: Get(%v) returned %s", c.probes[i], c.name(k))
			}
		}

		// ---- build: one node after the other; up to three additions (drawn positions) are
		// judged alone, the others in the batches between them
		alone := map[int]bool{}
		for k := rapid.IntRange(0, 3).Draw(t, "additionsJudgedAlone"); k > 0; k-- {
			alone[int(c15sUniform(t, "judgedAddition")*float64(n))] = true
		}
		for pos, i := range buildOrder {
			op := c.drawCall(t, c.nodes[i], "build")
			if alone[pos] {
				c.single(op, i)
			} else {
				c.apply(op, i)
			}
			c.peakNodes = pos + 1
		}
		if len(c.batchLog) > 0 {
			c.judge() // reserved reading at the end of the build phase
		}

		// ---- churn: removals, re-adds and new weights for `quota` of the nodes
		var untouched, removed []int32 // members not operated in this phase; nodes out of the ring
		untouched = append(untouched, buildOrder...)
		sort.Slice(untouched, func(a, b int) bool { return untouched[a] < untouched[b] })
		take := func(t *rapid.T, pool *[]int32, label string) int32 {
			k := rapid.IntRange(0, len(*pool)-1).Draw(t, label)
			v := (*pool)[k]
			(*pool)[k] = (*pool)[len(*pool)-1]
			*pool = (*pool)[:len(*pool)-1]
			return v
		}
		nRemove, nReadd, nReweight := 0, 0, 0
		remove := func(t *rapid.T, alone bool) {
			i := take(t, &untouched, "removeNode")
			quota--
			nRemove++
			removed = append(removed, i)
			op := c15Op{kind: "remove", node: c.nodes[i]}
			fmt.Fprintf(&c.churnLog, " %v", op)
			if alone {
				c.single(op, i)
			} else {
				c.apply(op, i)
			}
		}
		readd := func(t *rapid.T, alone bool) {
			i := take(t, &removed, "readdNode")
			nReadd++
			op := c.drawCall(t, c.nodes[i], "readd")
			fmt.Fprintf(&c.churnLog, " %v", op)
			if alone {
				c.single(op, i)
			} else {
				c.apply(op, i)
			}
		}
		reweight := func(t *rapid.T, alone bool) {
			i := take(t, &untouched, "reweightNode")
			quota--
			nReweight++
			op := c.drawCall(t, c.nodes[i], "reweight")
			fmt.Fprintf(&c.churnLog, " %v", op)
			if alone {
				c.single(op, i)
			} else {
				c.apply(op, i)
			}
		}
		many := func(t *rapid.T, avail int, one func(*rapid.T, bool)) {
			if avail < 2 {
				t.Skip("nothing for a batch")
			}
			for k := c15sLog(t, 2, avail, "batchSize"); k > 0; k-- {
				one(t, false)
			}
			if c.canRead(1) {
				c.judge()
			}
		}
		t.Repeat(map[string]func(*rapid.T){
			"remove": func(t *rapid.T) {
				if quota < 1 || len(untouched) < 1 {
					t.Skip("quota used up")
				}
				remove(t, true)
			},
			"removeMany": func(t *rapid.T) { many(t, min(quota, len(untouched)), remove) },
			"readd": func(t *rapid.T) {
				if len(removed) < 1 {
					t.Skip("no node is out of the ring")
				}
				readd(t, true)
			},
			"readdMany": func(t *rapid.T) { many(t, len(removed), readd) },
			"reweight": func(t *rapid.T) {
				if quota < 1 || len(untouched) < 1 {
					t.Skip("quota used up")
				}
				reweight(t, true)
			},
			"reweightMany": func(t *rapid.T) { many(t, min(quota, len(untouched)), reweight) },
			"reading": func(t *rapid.T) {
				if len(c.batchLog) > 0 && c.canRead(1) {
					c.judge()
				}
			},
		})
		// what is left of the quota goes in one batch: removals and new weights, then most of
		// the removed nodes come back
		for quota > 0 && len(untouched) > 0 {
			if rapid.IntRange(0, 2).Draw(t, "drainReweight") == 0 {
				reweight(t, false)
			} else {
				remove(t, false)
			}
		}
		for k := int(math.Ceil(float64(len(removed)) * float64(rapid.IntRange(5, 10).Draw(t, "drainReaddTenths")) / 10)); k > 0; k-- {
			readd(t, false)
		}
		if len(c.batchLog) > 0 {
			c.judge() // reserved
		}

		// ---- (2) "the mapping of keys to nodes depends only on the current set of nodes and
		// their replica counts, not on the order in which nodes were added or removed"
		freshKind := rapid.SampledFrom([]string{"sorted", "reverse", "shuffled"}).Draw(t, "freshOrder")
		direct := rapid.Bool().Draw(t, "freshByReplicaCount")
		fresh := c.mk()
		members := 0
		for _, i := range orderOf(freshKind, "freshPermutation") {
			m := c.memb[i]
			if !m.in {
				continue
			}
			members++
			if _, exact := m.call.effective(c.R); exact && direct {
				fresh.AddWithReplicas(m.call.node.val, m.eff)
			} else {
				m.call.apply(fresh)
			}
		}
		snap := c.read(fresh)
		ndiff, first := 0, -1
		for i := range snap {
			if snap[i] != c.cur[i] {
				if ndiff == 0 {
					first = i
				}
				ndiff++
			}
		}
		if ndiff > 0 {
			how := "each by its defining call"
			if direct {
				how = "by AddWithReplicas(node, count)"
			}
			c.fatalf("history dependence: the ring after the history vs a fresh ring that got the same %d members in %s order, %s: %d of %d probes differ, first probe %v: %s vs %s",
				members, freshKind, how, ndiff, len(snap), c.probes[first], c.name(c.cur[first]), c.name(snap[first]))
		}

		// ---- classes
		size := "medium"
		if large {
			size = "large"
			if n < drawnNodes {
				st.Class("large:nodes-cut-by-budget")
			}
		}
		st.Class("size:" + size)
		st.Class(size + ":nodes=" + c15sBand(c.peakNodes, 32, 100, 300, 1000))
		st.Class(size + ":virtual-nodes=" + c15sBand(c.peakVnodes, 10000, 30000, 100000, 200000))
		st.Class(size + ":probes=" + c15sBand(nprobes, 20000, 60000, 200000))
		st.Class(size + ":build-order=" + order)
		st.Class("ring:" + strings.SplitN(ringName, "(", 2)[0])
		st.Class("naming:" + naming)
		st.ClassN("ops:add", n)
		st.ClassN("ops:remove", nRemove)
		st.ClassN("ops:readd", nReadd)
		st.ClassN("ops:reweight", nReweight)
		st.ClassN("judged:operations-alone", c.singles)
		st.ClassN("judged:batches", c.batches)
		st.ClassN("judged:full-readings", c.readings+1)
		if c.changed > 0 {
			st.Class(size + ":some-judged-step-changed-probes")
		}
		if c.peakNodes >= c15sNontrivialX*c15sSmallMaxNodes {
			st.Class("large:nodes>=100x-small")
		}
		if nprobes >= c15sNontrivialX*c15sSmallMaxProbes {
			st.Class("large:probes>=100x-small")
		}
		if c.peakNodes >= c15sNontrivialX*c15sSmallMaxNodes || nprobes >= c15sNontrivialX*c15sSmallMaxProbes {
			st.NonTrivial(fmt.Sprintf("%s; %d operations (fingerprint %x), peak %d virtual nodes, %d removals %d re-adds %d new weights, %d operations judged alone, %d batches, %d full readings, fresh ring %s",
				c.header, c.nops, c.opsHash, c.peakVnodes, nRemove, nReadd, nReweight, c.singles, c.batches, c.readings+1, freshKind))
		}
	})
}
