//go:build verif

// C15, unit dispatch-sites (kv half) — the anchored call site core/stores/kv/store.go.
//
// kv.NewStore(KvConf) puts one redis node per configured entry on a consistent-hash ring
// (AddWithWeight(redis node, weight)) and dispatches every command to the node the ring
// names for the key.  What the C15 statement says about the ring therefore has to be
// visible at this call site:
//
//	(1) member-only, single owner ("Get always returns one of the nodes currently in the
//	    ring"): a key lives on exactly one of the configured servers, and every command on
//	    that key acts on that server — the cluster answers every command exactly as ONE
//	    redis node does (the reference is a plain redis.Redis on a server of its own, which
//	    receives the same commands), whatever the number of nodes;
//	(2) order independence ("the mapping of keys to nodes depends only on the current set
//	    of nodes and their replica counts, not on the order in which nodes were added"):
//	    stores built from the same (node, weight) list in different orders are
//	    interchangeable — every step of a history picks one of them at random;
//	(3) agreement with the ring: the server that holds a key is the one a reference ring
//	    hash.NewConsistentHash() + AddWithWeight(redis node, weight) names (the reference
//	    ring is filled in yet another order); the hash itself is not re-specified here.
//
// Nothing is asserted about the share of keys a weight buys.  Servers are miniredis; they
// are inspected directly (Exists/Type/TTL/Get), never through the code under test.
package kv_test

import (
	"context"
	"errors"
	"fmt"
	"reflect"
	"sort"
	"strings"
	"sync"
	"testing"
	"time"

	"github.com/alicebob/miniredis/v2"
	"github.com/zeromicro/go-zero/core/breaker"
	"github.com/zeromicro/go-zero/core/hash"
	"github.com/zeromicro/go-zero/core/logx"
	"github.com/zeromicro/go-zero/core/stores/cache"
	"github.com/zeromicro/go-zero/core/stores/kv"
	"github.com/zeromicro/go-zero/core/stores/redis"
	"github.com/zeromicro/go-zero/internal/verifkit"
	"pgregory.net/rapid"
)

// ------------------------------------------------------------------ environment

// c15kvPoolSize servers are started once per process (go-zero keeps one client per
// address for the life of the process); a case uses 1..5 of them, wiped by FlushAll.
const c15kvPoolSize = 8

// c15kvEpoch is the frozen clock of every server, so that EXPIREAT is a pure function of
// its argument (miniredis never expires anything by itself).
var c15kvEpoch = time.Unix(1_700_000_000, 0)

type c15kvEnv struct {
	pool []*miniredis.Miniredis
	ref  *miniredis.Miniredis
	rds  *redis.Redis // plain single node on ref: the reference "one redis node"
}

var (
	c15kvOnce sync.Once
	c15kvE    *c15kvEnv
	c15kvErr  error
)

func c15kvGetEnv(t *testing.T) *c15kvEnv {
	c15kvOnce.Do(func() {
		e := &c15kvEnv{}
		for i := 0; i <= c15kvPoolSize; i++ {
			mr, err := miniredis.Run()
			if err != nil {
				c15kvErr = err
				return
			}
			mr.SetTime(c15kvEpoch)
			if i == c15kvPoolSize {
				e.ref = mr
			} else {
				e.pool = append(e.pool, mr)
			}
		}
		e.rds = redis.New(e.ref.Addr())
		c15kvE = e
	})
	if c15kvErr != nil || c15kvE == nil {
		t.Skipf("inconclusive: cannot start miniredis: %v", c15kvErr)
	}
	return c15kvE
}

// ------------------------------------------------------------------ command sample

// c15kvRes is the outcome of one command on the store under test (g) and on the
// reference node (w).
type c15kvRes struct {
	g, w   any
	ge, we error
}

func c15r[T any](g T, ge error) func(T, error) c15kvRes {
	return func(w T, we error) c15kvRes { return c15kvRes{g, w, ge, we} }
}

func c15e(ge error) func(error) c15kvRes {
	return func(we error) c15kvRes { return c15kvRes{nil, nil, ge, we} }
}

// c15kvCall carries the drawn arguments of one command.
type c15kvCall struct {
	s     kv.Store
	r     *redis.Redis
	ctx   context.Context
	key   string
	field string
	val   string
	n     int64
	secs  int
}

type c15kvOp struct {
	name   string
	kind   string // namespace the key is usually drawn from
	sorted bool   // result is a set: compare as sorted slices
	run    func(c *c15kvCall) c15kvRes
}

const c15kvLua = `return redis.call('INCRBY', KEYS[1], ARGV[1])`

var c15kvOps = []c15kvOp{
	// strings
	{"Set", "str", false, func(c *c15kvCall) c15kvRes { return c15e(c.s.Set(c.key, c.val))(c.r.Set(c.key, c.val)) }},
	{"SetCtx", "str", false, func(c *c15kvCall) c15kvRes {
		return c15e(c.s.SetCtx(c.ctx, c.key, c.val))(c.r.SetCtx(c.ctx, c.key, c.val))
	}},
	{"Get", "str", false, func(c *c15kvCall) c15kvRes { return c15r(c.s.Get(c.key))(c.r.Get(c.key)) }},
	{"GetCtx", "str", false, func(c *c15kvCall) c15kvRes { return c15r(c.s.GetCtx(c.ctx, c.key))(c.r.GetCtx(c.ctx, c.key)) }},
	{"GetSet", "str", false, func(c *c15kvCall) c15kvRes { return c15r(c.s.GetSet(c.key, c.val))(c.r.GetSet(c.key, c.val)) }},
	{"GetSetCtx", "str", false, func(c *c15kvCall) c15kvRes {
		return c15r(c.s.GetSetCtx(c.ctx, c.key, c.val))(c.r.GetSetCtx(c.ctx, c.key, c.val))
	}},
	{"Setnx", "str", false, func(c *c15kvCall) c15kvRes { return c15r(c.s.Setnx(c.key, c.val))(c.r.Setnx(c.key, c.val)) }},
	{"SetnxCtx", "str", false, func(c *c15kvCall) c15kvRes {
		return c15r(c.s.SetnxCtx(c.ctx, c.key, c.val))(c.r.SetnxCtx(c.ctx, c.key, c.val))
	}},
	{"Setex", "str", false, func(c *c15kvCall) c15kvRes {
		return c15e(c.s.Setex(c.key, c.val, c.secs))(c.r.Setex(c.key, c.val, c.secs))
	}},
	{"SetexCtx", "str", false, func(c *c15kvCall) c15kvRes {
		return c15e(c.s.SetexCtx(c.ctx, c.key, c.val, c.secs))(c.r.SetexCtx(c.ctx, c.key, c.val, c.secs))
	}},
	{"SetnxEx", "str", false, func(c *c15kvCall) c15kvRes {
		return c15r(c.s.SetnxEx(c.key, c.val, c.secs))(c.r.SetnxEx(c.key, c.val, c.secs))
	}},
	{"SetnxExCtx", "str", false, func(c *c15kvCall) c15kvRes {
		return c15r(c.s.SetnxExCtx(c.ctx, c.key, c.val, c.secs))(c.r.SetnxExCtx(c.ctx, c.key, c.val, c.secs))
	}},
	{"Incr", "num", false, func(c *c15kvCall) c15kvRes { return c15r(c.s.Incr(c.key))(c.r.Incr(c.key)) }},
	{"IncrCtx", "num", false, func(c *c15kvCall) c15kvRes { return c15r(c.s.IncrCtx(c.ctx, c.key))(c.r.IncrCtx(c.ctx, c.key)) }},
	{"Incrby", "num", false, func(c *c15kvCall) c15kvRes { return c15r(c.s.Incrby(c.key, c.n))(c.r.Incrby(c.key, c.n)) }},
	{"IncrbyCtx", "num", false, func(c *c15kvCall) c15kvRes {
		return c15r(c.s.IncrbyCtx(c.ctx, c.key, c.n))(c.r.IncrbyCtx(c.ctx, c.key, c.n))
	}},
	{"Decr", "num", false, func(c *c15kvCall) c15kvRes { return c15r(c.s.Decr(c.key))(c.r.Decr(c.key)) }},
	{"DecrCtx", "num", false, func(c *c15kvCall) c15kvRes { return c15r(c.s.DecrCtx(c.ctx, c.key))(c.r.DecrCtx(c.ctx, c.key)) }},
	{"Decrby", "num", false, func(c *c15kvCall) c15kvRes { return c15r(c.s.Decrby(c.key, c.n))(c.r.Decrby(c.key, c.n)) }},
	{"DecrbyCtx", "num", false, func(c *c15kvCall) c15kvRes {
		return c15r(c.s.DecrbyCtx(c.ctx, c.key, c.n))(c.r.DecrbyCtx(c.ctx, c.key, c.n))
	}},
	{"Eval", "num", false, func(c *c15kvCall) c15kvRes {
		return c15r(c.s.Eval(c15kvLua, c.key, c.n))(c.r.Eval(c15kvLua, []string{c.key}, c.n))
	}},
	{"EvalCtx", "num", false, func(c *c15kvCall) c15kvRes {
		return c15r(c.s.EvalCtx(c.ctx, c15kvLua, c.key, c.n))(c.r.EvalCtx(c.ctx, c15kvLua, []string{c.key}, c.n))
	}},
	// any key
	{"Exists", "any", false, func(c *c15kvCall) c15kvRes { return c15r(c.s.Exists(c.key))(c.r.Exists(c.key)) }},
	{"ExistsCtx", "any", false, func(c *c15kvCall) c15kvRes {
		return c15r(c.s.ExistsCtx(c.ctx, c.key))(c.r.ExistsCtx(c.ctx, c.key))
	}},
	{"Expire", "any", false, func(c *c15kvCall) c15kvRes { return c15e(c.s.Expire(c.key, c.secs))(c.r.Expire(c.key, c.secs)) }},
	{"ExpireCtx", "any", false, func(c *c15kvCall) c15kvRes {
		return c15e(c.s.ExpireCtx(c.ctx, c.key, c.secs))(c.r.ExpireCtx(c.ctx, c.key, c.secs))
	}},
	{"Expireat", "any", false, func(c *c15kvCall) c15kvRes {
		at := c15kvEpoch.Unix() + int64(c.secs)
		return c15e(c.s.Expireat(c.key, at))(c.r.Expireat(c.key, at))
	}},
	{"ExpireatCtx", "any", false, func(c *c15kvCall) c15kvRes {
		at := c15kvEpoch.Unix() + int64(c.secs)
		return c15e(c.s.ExpireatCtx(c.ctx, c.key, at))(c.r.ExpireatCtx(c.ctx, c.key, at))
	}},
	{"Persist", "any", false, func(c *c15kvCall) c15kvRes { return c15r(c.s.Persist(c.key))(c.r.Persist(c.key)) }},
	{"PersistCtx", "any", false, func(c *c15kvCall) c15kvRes {
		return c15r(c.s.PersistCtx(c.ctx, c.key))(c.r.PersistCtx(c.ctx, c.key))
	}},
	{"Ttl", "any", false, func(c *c15kvCall) c15kvRes { return c15r(c.s.Ttl(c.key))(c.r.Ttl(c.key)) }},
	{"TtlCtx", "any", false, func(c *c15kvCall) c15kvRes { return c15r(c.s.TtlCtx(c.ctx, c.key))(c.r.TtlCtx(c.ctx, c.key)) }},
	{"Del1", "any", false, func(c *c15kvCall) c15kvRes { return c15r(c.s.Del(c.key))(c.r.Del(c.key)) }},
	{"Del1Ctx", "any", false, func(c *c15kvCall) c15kvRes { return c15r(c.s.DelCtx(c.ctx, c.key))(c.r.DelCtx(c.ctx, c.key)) }},
	// hashes
	{"Hset", "hash", false, func(c *c15kvCall) c15kvRes {
		return c15e(c.s.Hset(c.key, c.field, c.val))(c.r.Hset(c.key, c.field, c.val))
	}},
	{"HsetCtx", "hash", false, func(c *c15kvCall) c15kvRes {
		return c15e(c.s.HsetCtx(c.ctx, c.key, c.field, c.val))(c.r.HsetCtx(c.ctx, c.key, c.field, c.val))
	}},
	{"Hsetnx", "hash", false, func(c *c15kvCall) c15kvRes {
		return c15r(c.s.Hsetnx(c.key, c.field, c.val))(c.r.Hsetnx(c.key, c.field, c.val))
	}},
	{"HsetnxCtx", "hash", false, func(c *c15kvCall) c15kvRes {
		return c15r(c.s.HsetnxCtx(c.ctx, c.key, c.field, c.val))(c.r.HsetnxCtx(c.ctx, c.key, c.field, c.val))
	}},
	{"Hmset", "hash", false, func(c *c15kvCall) c15kvRes {
		m := map[string]string{c.field: c.val, "fx": c.key}
		return c15e(c.s.Hmset(c.key, m))(c.r.Hmset(c.key, m))
	}},
	{"HmsetCtx", "hash", false, func(c *c15kvCall) c15kvRes {
		m := map[string]string{c.field: c.val, "fx": c.key}
		return c15e(c.s.HmsetCtx(c.ctx, c.key, m))(c.r.HmsetCtx(c.ctx, c.key, m))
	}},
	{"Hget", "hash", false, func(c *c15kvCall) c15kvRes { return c15r(c.s.Hget(c.key, c.field))(c.r.Hget(c.key, c.field)) }},
	{"HgetCtx", "hash", false, func(c *c15kvCall) c15kvRes {
		return c15r(c.s.HgetCtx(c.ctx, c.key, c.field))(c.r.HgetCtx(c.ctx, c.key, c.field))
	}},
	{"Hmget", "hash", false, func(c *c15kvCall) c15kvRes {
		return c15r(c.s.Hmget(c.key, c.field, "fx"))(c.r.Hmget(c.key, c.field, "fx"))
	}},
	{"HmgetCtx", "hash", false, func(c *c15kvCall) c15kvRes {
		return c15r(c.s.HmgetCtx(c.ctx, c.key, c.field, "fx"))(c.r.HmgetCtx(c.ctx, c.key, c.field, "fx"))
	}},
	{"Hdel", "hash", false, func(c *c15kvCall) c15kvRes { return c15r(c.s.Hdel(c.key, c.field))(c.r.Hdel(c.key, c.field)) }},
	{"HdelCtx", "hash", false, func(c *c15kvCall) c15kvRes {
		return c15r(c.s.HdelCtx(c.ctx, c.key, c.field))(c.r.HdelCtx(c.ctx, c.key, c.field))
	}},
	{"Hexists", "hash", false, func(c *c15kvCall) c15kvRes {
		return c15r(c.s.Hexists(c.key, c.field))(c.r.Hexists(c.key, c.field))
	}},
	{"HexistsCtx", "hash", false, func(c *c15kvCall) c15kvRes {
		return c15r(c.s.HexistsCtx(c.ctx, c.key, c.field))(c.r.HexistsCtx(c.ctx, c.key, c.field))
	}},
	{"Hlen", "hash", false, func(c *c15kvCall) c15kvRes { return c15r(c.s.Hlen(c.key))(c.r.Hlen(c.key)) }},
	{"HlenCtx", "hash", false, func(c *c15kvCall) c15kvRes { return c15r(c.s.HlenCtx(c.ctx, c.key))(c.r.HlenCtx(c.ctx, c.key)) }},
	{"Hgetall", "hash", false, func(c *c15kvCall) c15kvRes { return c15r(c.s.Hgetall(c.key))(c.r.Hgetall(c.key)) }},
	{"HgetallCtx", "hash", false, func(c *c15kvCall) c15kvRes {
		return c15r(c.s.HgetallCtx(c.ctx, c.key))(c.r.HgetallCtx(c.ctx, c.key))
	}},
	{"Hkeys", "hash", true, func(c *c15kvCall) c15kvRes { return c15r(c.s.Hkeys(c.key))(c.r.Hkeys(c.key)) }},
	{"HkeysCtx", "hash", true, func(c *c15kvCall) c15kvRes { return c15r(c.s.HkeysCtx(c.ctx, c.key))(c.r.HkeysCtx(c.ctx, c.key)) }},
	{"Hvals", "hash", true, func(c *c15kvCall) c15kvRes { return c15r(c.s.Hvals(c.key))(c.r.Hvals(c.key)) }},
	{"HvalsCtx", "hash", true, func(c *c15kvCall) c15kvRes { return c15r(c.s.HvalsCtx(c.ctx, c.key))(c.r.HvalsCtx(c.ctx, c.key)) }},
	{"Hincrby", "hash", false, func(c *c15kvCall) c15kvRes {
		return c15r(c.s.Hincrby(c.key, "cnt", int(c.n)))(c.r.Hincrby(c.key, "cnt", int(c.n)))
	}},
	{"HincrbyCtx", "hash", false, func(c *c15kvCall) c15kvRes {
		return c15r(c.s.HincrbyCtx(c.ctx, c.key, "cnt", int(c.n)))(c.r.HincrbyCtx(c.ctx, c.key, "cnt", int(c.n)))
	}},
	// sets
	{"Sadd", "set", false, func(c *c15kvCall) c15kvRes {
		return c15r(c.s.Sadd(c.key, c.val, c.field))(c.r.Sadd(c.key, c.val, c.field))
	}},
	{"SaddCtx", "set", false, func(c *c15kvCall) c15kvRes {
		return c15r(c.s.SaddCtx(c.ctx, c.key, c.val))(c.r.SaddCtx(c.ctx, c.key, c.val))
	}},
	{"Srem", "set", false, func(c *c15kvCall) c15kvRes { return c15r(c.s.Srem(c.key, c.val))(c.r.Srem(c.key, c.val)) }},
	{"SremCtx", "set", false, func(c *c15kvCall) c15kvRes {
		return c15r(c.s.SremCtx(c.ctx, c.key, c.val))(c.r.SremCtx(c.ctx, c.key, c.val))
	}},
	{"Scard", "set", false, func(c *c15kvCall) c15kvRes { return c15r(c.s.Scard(c.key))(c.r.Scard(c.key)) }},
	{"ScardCtx", "set", false, func(c *c15kvCall) c15kvRes { return c15r(c.s.ScardCtx(c.ctx, c.key))(c.r.ScardCtx(c.ctx, c.key)) }},
	{"Sismember", "set", false, func(c *c15kvCall) c15kvRes {
		return c15r(c.s.Sismember(c.key, c.val))(c.r.Sismember(c.key, c.val))
	}},
	{"SismemberCtx", "set", false, func(c *c15kvCall) c15kvRes {
		return c15r(c.s.SismemberCtx(c.ctx, c.key, c.val))(c.r.SismemberCtx(c.ctx, c.key, c.val))
	}},
	{"Smembers", "set", true, func(c *c15kvCall) c15kvRes { return c15r(c.s.Smembers(c.key))(c.r.Smembers(c.key)) }},
	{"SmembersCtx", "set", true, func(c *c15kvCall) c15kvRes {
		return c15r(c.s.SmembersCtx(c.ctx, c.key))(c.r.SmembersCtx(c.ctx, c.key))
	}},
	// lists
	{"Lpush", "list", false, func(c *c15kvCall) c15kvRes {
		return c15r(c.s.Lpush(c.key, c.val, c.field))(c.r.Lpush(c.key, c.val, c.field))
	}},
	{"LpushCtx", "list", false, func(c *c15kvCall) c15kvRes {
		return c15r(c.s.LpushCtx(c.ctx, c.key, c.val))(c.r.LpushCtx(c.ctx, c.key, c.val))
	}},
	{"Rpush", "list", false, func(c *c15kvCall) c15kvRes { return c15r(c.s.Rpush(c.key, c.val))(c.r.Rpush(c.key, c.val)) }},
	{"RpushCtx", "list", false, func(c *c15kvCall) c15kvRes {
		return c15r(c.s.RpushCtx(c.ctx, c.key, c.val, c.field))(c.r.RpushCtx(c.ctx, c.key, c.val, c.field))
	}},
	{"Llen", "list", false, func(c *c15kvCall) c15kvRes { return c15r(c.s.Llen(c.key))(c.r.Llen(c.key)) }},
	{"LlenCtx", "list", false, func(c *c15kvCall) c15kvRes { return c15r(c.s.LlenCtx(c.ctx, c.key))(c.r.LlenCtx(c.ctx, c.key)) }},
	{"Lindex", "list", false, func(c *c15kvCall) c15kvRes { return c15r(c.s.Lindex(c.key, c.n))(c.r.Lindex(c.key, c.n)) }},
	{"LindexCtx", "list", false, func(c *c15kvCall) c15kvRes {
		return c15r(c.s.LindexCtx(c.ctx, c.key, c.n))(c.r.LindexCtx(c.ctx, c.key, c.n))
	}},
	{"Lrange", "list", false, func(c *c15kvCall) c15kvRes { return c15r(c.s.Lrange(c.key, 0, -1))(c.r.Lrange(c.key, 0, -1)) }},
	{"LrangeCtx", "list", false, func(c *c15kvCall) c15kvRes {
		return c15r(c.s.LrangeCtx(c.ctx, c.key, 0, int(c.n)))(c.r.LrangeCtx(c.ctx, c.key, 0, int(c.n)))
	}},
	{"Lpop", "list", false, func(c *c15kvCall) c15kvRes { return c15r(c.s.Lpop(c.key))(c.r.Lpop(c.key)) }},
	{"LpopCtx", "list", false, func(c *c15kvCall) c15kvRes { return c15r(c.s.LpopCtx(c.ctx, c.key))(c.r.LpopCtx(c.ctx, c.key)) }},
	{"Lrem", "list", false, func(c *c15kvCall) c15kvRes { return c15r(c.s.Lrem(c.key, 0, c.val))(c.r.Lrem(c.key, 0, c.val)) }},
	{"LremCtx", "list", false, func(c *c15kvCall) c15kvRes {
		return c15r(c.s.LremCtx(c.ctx, c.key, 1, c.val))(c.r.LremCtx(c.ctx, c.key, 1, c.val))
	}},
	// sorted sets
	{"Zadd", "zset", false, func(c *c15kvCall) c15kvRes { return c15r(c.s.Zadd(c.key, c.n, c.val))(c.r.Zadd(c.key, c.n, c.val)) }},
	{"ZaddCtx", "zset", false, func(c *c15kvCall) c15kvRes {
		return c15r(c.s.ZaddCtx(c.ctx, c.key, c.n, c.val))(c.r.ZaddCtx(c.ctx, c.key, c.n, c.val))
	}},
	{"Zadds", "zset", false, func(c *c15kvCall) c15kvRes {
		ps := []redis.Pair{{Key: c.val, Score: c.n}, {Key: c.field, Score: c.n + 1}}
		return c15r(c.s.Zadds(c.key, ps...))(c.r.Zadds(c.key, ps...))
	}},
	{"ZaddsCtx", "zset", false, func(c *c15kvCall) c15kvRes {
		ps := []redis.Pair{{Key: c.val, Score: c.n}}
		return c15r(c.s.ZaddsCtx(c.ctx, c.key, ps...))(c.r.ZaddsCtx(c.ctx, c.key, ps...))
	}},
	{"Zincrby", "zset", false, func(c *c15kvCall) c15kvRes {
		return c15r(c.s.Zincrby(c.key, c.n, c.val))(c.r.Zincrby(c.key, c.n, c.val))
	}},
	{"ZincrbyCtx", "zset", false, func(c *c15kvCall) c15kvRes {
		return c15r(c.s.ZincrbyCtx(c.ctx, c.key, c.n, c.val))(c.r.ZincrbyCtx(c.ctx, c.key, c.n, c.val))
	}},
	{"Zscore", "zset", false, func(c *c15kvCall) c15kvRes { return c15r(c.s.Zscore(c.key, c.val))(c.r.Zscore(c.key, c.val)) }},
	{"ZscoreCtx", "zset", false, func(c *c15kvCall) c15kvRes {
		return c15r(c.s.ZscoreCtx(c.ctx, c.key, c.val))(c.r.ZscoreCtx(c.ctx, c.key, c.val))
	}},
	{"Zcard", "zset", false, func(c *c15kvCall) c15kvRes { return c15r(c.s.Zcard(c.key))(c.r.Zcard(c.key)) }},
	{"ZcardCtx", "zset", false, func(c *c15kvCall) c15kvRes { return c15r(c.s.ZcardCtx(c.ctx, c.key))(c.r.ZcardCtx(c.ctx, c.key)) }},
	{"Zcount", "zset", false, func(c *c15kvCall) c15kvRes { return c15r(c.s.Zcount(c.key, -2, c.n))(c.r.Zcount(c.key, -2, c.n)) }},
	{"ZcountCtx", "zset", false, func(c *c15kvCall) c15kvRes {
		return c15r(c.s.ZcountCtx(c.ctx, c.key, -2, c.n))(c.r.ZcountCtx(c.ctx, c.key, -2, c.n))
	}},
	{"Zrank", "zset", false, func(c *c15kvCall) c15kvRes { return c15r(c.s.Zrank(c.key, c.val))(c.r.Zrank(c.key, c.val)) }},
	{"ZrankCtx", "zset", false, func(c *c15kvCall) c15kvRes {
		return c15r(c.s.ZrankCtx(c.ctx, c.key, c.val))(c.r.ZrankCtx(c.ctx, c.key, c.val))
	}},
	{"Zrevrank", "zset", false, func(c *c15kvCall) c15kvRes { return c15r(c.s.Zrevrank(c.key, c.val))(c.r.Zrevrank(c.key, c.val)) }},
	{"ZrevrankCtx", "zset", false, func(c *c15kvCall) c15kvRes {
		return c15r(c.s.ZrevrankCtx(c.ctx, c.key, c.val))(c.r.ZrevrankCtx(c.ctx, c.key, c.val))
	}},
	{"Zrange", "zset", false, func(c *c15kvCall) c15kvRes { return c15r(c.s.Zrange(c.key, 0, -1))(c.r.Zrange(c.key, 0, -1)) }},
	{"ZrangeCtx", "zset", false, func(c *c15kvCall) c15kvRes {
		return c15r(c.s.ZrangeCtx(c.ctx, c.key, 0, c.n))(c.r.ZrangeCtx(c.ctx, c.key, 0, c.n))
	}},
	{"Zrevrange", "zset", false, func(c *c15kvCall) c15kvRes {
		return c15r(c.s.Zrevrange(c.key, 0, -1))(c.r.Zrevrange(c.key, 0, -1))
	}},
	{"ZrevrangeCtx", "zset", false, func(c *c15kvCall) c15kvRes {
		return c15r(c.s.ZrevrangeCtx(c.ctx, c.key, 0, c.n))(c.r.ZrevrangeCtx(c.ctx, c.key, 0, c.n))
	}},
	{"ZrangeWithScores", "zset", false, func(c *c15kvCall) c15kvRes {
		return c15r(c.s.ZrangeWithScores(c.key, 0, -1))(c.r.ZrangeWithScores(c.key, 0, -1))
	}},
	{"ZrangeWithScoresCtx", "zset", false, func(c *c15kvCall) c15kvRes {
		return c15r(c.s.ZrangeWithScoresCtx(c.ctx, c.key, 0, -1))(c.r.ZrangeWithScoresCtx(c.ctx, c.key, 0, -1))
	}},
	{"Zrem", "zset", false, func(c *c15kvCall) c15kvRes { return c15r(c.s.Zrem(c.key, c.val))(c.r.Zrem(c.key, c.val)) }},
	{"ZremCtx", "zset", false, func(c *c15kvCall) c15kvRes {
		return c15r(c.s.ZremCtx(c.ctx, c.key, c.val, c.field))(c.r.ZremCtx(c.ctx, c.key, c.val, c.field))
	}},
}

var c15kvKinds = []string{"str", "num", "hash", "set", "list", "zset"}

func c15kvOpsOf(kinds ...string) []int {
	var out []int
	for i, op := range c15kvOps {
		for _, k := range kinds {
			if op.kind == k {
				out = append(out, i)
			}
		}
	}
	return out
}

func c15kvSortedCopy(v any) any {
	if s, ok := v.([]string); ok {
		c := append([]string(nil), s...)
		sort.Strings(c)
		return c
	}
	return v
}

// c15kvSame compares the two outcomes of a command.  Only the presence of an error is
// compared, not its text.
func c15kvSame(op c15kvOp, r c15kvRes) bool {
	if (r.ge == nil) != (r.we == nil) {
		return false
	}
	g, w := r.g, r.w
	if op.sorted {
		g, w = c15kvSortedCopy(g), c15kvSortedCopy(w)
	}
	return reflect.DeepEqual(g, w)
}

// ------------------------------------------------------------------ case

type c15kvNode struct {
	idx    int // index into the pool
	weight int
}

type c15kvCase struct {
	t      *rapid.T
	env    *c15kvEnv
	nodes  []c15kvNode
	stores []kv.Store
	orders [][]int
	ring   *hash.ConsistentHash // reference ring (3)
	inCase map[int]bool         // pool index -> part of this cluster
	log    strings.Builder
	landed map[int]bool // pool indices on which a key of this case was seen
	prefix string
}

func c15kvConf(e *c15kvEnv, n c15kvNode) cache.NodeConf {
	return cache.NodeConf{
		RedisConf: redis.RedisConf{Host: e.pool[n.idx].Addr(), Type: redis.NodeType, NonBlock: true},
		Weight:    n.weight,
	}
}

func c15kvDrawWeights(t *rapid.T, n int) []int {
	base := rapid.IntRange(1, 150).Draw(t, "baseWeight")
	ws := make([]int, n)
	for i := range ws {
		switch rapid.IntRange(0, 5).Draw(t, "weightKind") {
		case 0, 1, 2:
			ws[i] = base // duplicates of the same weight
		case 3:
			ws[i] = rapid.SampledFrom([]int{1, 2, 50, 99, 100, 101, 150}).Draw(t, "edgeWeight")
		default:
			ws[i] = rapid.IntRange(1, 150).Draw(t, "weight")
		}
	}
	return ws
}

// c15kvOrder draws an order of 0..n-1 that differs from the identity whenever n >= 2.
func c15kvOrder(t *rapid.T, n int, label string) []int {
	id := make([]int, n)
	for i := range id {
		id[i] = i
	}
	p := rapid.Permutation(id).Draw(t, label)
	same := true
	for i := range p {
		if p[i] != i {
			same = false
		}
	}
	if same && n >= 2 {
		p = append(append([]int(nil), id[1:]...), id[0])
	}
	return p
}

// c15kvLastFail keeps the last failure message: when the code under test is not
// deterministic rapid cannot reproduce the failure and prints only "flaky test".
var c15kvLastFail string

func (c *c15kvCase) fatalf(format string, a ...any) {
	c15kvLastFail = fmt.Sprintf(format, a...)
	c.t.Fatalf("%s", c15kvLastFail)
}

func c15kvReportLast(t *testing.T) {
	if t.Failed() && c15kvLastFail != "" {
		t.Logf("last failure message: %s", c15kvLastFail)
	}
}

func (c *c15kvCase) owner(key string) int {
	v, ok := c.ring.Get(key)
	if !ok {
		c.fatalf("reference ring with %d nodes names no node for key %q; %s", len(c.nodes), key, c.log.String())
	}
	addr := v.(*redis.Redis).Addr
	for _, n := range c.nodes {
		if c.env.pool[n.idx].Addr() == addr {
			return n.idx
		}
	}
	c.fatalf("reference ring named an unknown node %q", addr)
	return -1
}

// holders lists the pool servers (of the whole pool, not only of the cluster) holding key.
func (c *c15kvCase) holders(key string) []int {
	var out []int
	for i, mr := range c.env.pool {
		if mr.Exists(key) {
			out = append(out, i)
		}
	}
	return out
}

// checkKey is the server-level part of oracles (1) and (3) for one key.
func (c *c15kvCase) checkKey(key, after string) {
	h := c.holders(key)
	inRef := c.env.ref.Exists(key)
	if len(h) > 1 {
		c.fatalf("single owner violated after %s: key %q is held by %d servers %v (owner by the reference ring: #%d); %s",
			after, key, len(h), h, c.owner(key), c.log.String())
	}
	if inRef != (len(h) == 1) {
		c.fatalf("after %s: key %q exists on the reference node: %v, on the cluster servers: %v; %s",
			after, key, inRef, h, c.log.String())
	}
	if len(h) == 0 {
		return
	}
	if !c.inCase[h[0]] {
		c.fatalf("member-only violated after %s: key %q is on server #%d, which is not a node of this store; %s",
			after, key, h[0], c.log.String())
	}
	if own := c.owner(key); h[0] != own {
		c.fatalf("after %s: key %q is on server #%d, the reference ring (AddWithWeight(redis node, weight)) names #%d; %s",
			after, key, h[0], own, c.log.String())
	}
	c.landed[h[0]] = true
	mr := c.env.pool[h[0]]
	if gt, wt := mr.Type(key), c.env.ref.Type(key); gt != wt {
		c.fatalf("after %s: key %q has type %s on its server, %s on the reference node; %s", after, key, gt, wt, c.log.String())
	}
	if gt, wt := mr.TTL(key), c.env.ref.TTL(key); gt != wt {
		c.fatalf("after %s: key %q has TTL %v on its server, %v on the reference node; %s", after, key, gt, wt, c.log.String())
	}
	if mr.Type(key) == "string" {
		gv, _ := mr.Get(key)
		wv, _ := c.env.ref.Get(key)
		if gv != wv {
			c.fatalf("after %s: key %q holds %q on its server, %q on the reference node; %s", after, key, gv, wv, c.log.String())
		}
	}
}

// sweep compares the key sets of all servers with the reference node.
func (c *c15kvCase) sweep() {
	want := c.env.ref.Keys()
	total := 0
	for i, mr := range c.env.pool {
		ks := mr.Keys()
		if len(ks) > 0 && !c.inCase[i] {
			c.fatalf("member-only violated: server #%d is not a node of this store but holds %q; %s", i, ks, c.log.String())
		}
		total += len(ks)
	}
	for _, k := range want {
		c.checkKey(k, "the history so far")
	}
	if total != len(want) {
		var all []string
		for i, mr := range c.env.pool {
			for _, k := range mr.Keys() {
				all = append(all, fmt.Sprintf("#%d:%s", i, k))
			}
		}
		c.fatalf("the servers hold %d keys %q, the reference node %d keys %q; %s", total, all, len(want), want, c.log.String())
	}
}

// pickKey draws a key for a command of the given kind.  Every kind has its own namespace
// (a small one, so that commands meet earlier ones, and a wide one for fresh probe keys):
// a command never meets a key of another type or a non-numeric counter, so no server ever
// answers with an error reply — go-zero's per-address circuit breaker counts error replies
// and would start rejecting commands.  Commands of kind "any" (Exists, Expire, Del, ...)
// go to keys of every kind.
func (c *c15kvCase) pickKey(kind string) string {
	t := c.t
	if kind == "any" {
		kind = rapid.SampledFrom(c15kvKinds).Draw(t, "kind")
	}
	if rapid.IntRange(0, 9).Draw(t, "wideKey") < 3 {
		return fmt.Sprintf("%s%sp%d", c.prefix, kind, rapid.IntRange(0, 99999).Draw(t, "probe"))
	}
	return fmt.Sprintf("%s%s%d", c.prefix, kind, rapid.IntRange(0, 5).Draw(t, "keyNo"))
}

func (c *c15kvCase) drawCall(kind string) (*c15kvCall, int) {
	t := c.t
	si := rapid.IntRange(0, len(c.stores)-1).Draw(t, "store")
	val := rapid.SampledFrom([]string{"a", "b", "c", "7", "-3", ""}).Draw(t, "val")
	return &c15kvCall{
		s:     c.stores[si],
		r:     c.env.rds,
		ctx:   context.Background(),
		key:   c.pickKey(kind),
		field: rapid.SampledFrom([]string{"f0", "f1", "f2"}).Draw(t, "field"),
		val:   val,
		n:     int64(rapid.IntRange(-3, 9).Draw(t, "n")),
		secs:  rapid.IntRange(1, 5000).Draw(t, "secs"),
	}, si
}

func (c *c15kvCase) step(st *verifkit.Stats, kinds ...string) {
	ids := c15kvOpsOf(kinds...)
	op := c15kvOps[rapid.SampledFrom(ids).Draw(c.t, "op")]
	call, si := c.drawCall(op.kind)
	c.exec(st, op, call, si)
}

func (c *c15kvCase) exec(st *verifkit.Stats, op c15kvOp, call *c15kvCall, si int) {
	desc := fmt.Sprintf("s%d.%s(%q f=%s v=%q n=%d secs=%d)", si, op.name, call.key, call.field, call.val, call.n, call.secs)
	res := op.run(call)
	fmt.Fprintf(&c.log, " %s", desc)
	st.Class("kv-op:" + op.kind)
	if errors.Is(res.we, redis.Nil) {
		st.Class("kv-nil-reply") // no such key / member; not a failure for the breaker
	} else if res.we != nil {
		st.Class("kv-error-reply:" + op.name) // expected: none (see pickKey)
	}
	c.infra(st, res.ge, res.we)
	if !c15kvSame(op, res) {
		c.fatalf("%s on the %d-node store returned (%#v, %v), one redis node returns (%#v, %v); owner of the key by the reference ring: #%d, held by %v; %s",
			desc, len(c.nodes), res.g, res.ge, res.w, res.we, c.owner(call.key), c.holders(call.key), c.log.String())
	}
	c.checkKey(call.key, desc)
}

// infra gives the case up (inconclusive, never a failure) when go-zero's circuit breaker
// rejected a command: that is about the health of the address, not about dispatch.
func (c *c15kvCase) infra(st *verifkit.Stats, errs ...error) {
	for _, err := range errs {
		if errors.Is(err, breaker.ErrServiceUnavailable) {
			st.Class("kv-inconclusive-breaker-open")
			st.Note("inconclusive: circuit breaker open; %s", c.log.String())
			c.t.Skip("circuit breaker open")
		}
	}
}

var (
	c15kvWriters = []string{"Set", "SetCtx", "Setnx", "SetexCtx", "Incr", "IncrbyCtx", "Hset", "HmsetCtx", "Sadd", "SaddCtx", "Lpush", "RpushCtx", "Zadd", "ZaddsCtx", "Eval"}
	c15kvReaders = []string{"Exists", "ExistsCtx", "Ttl", "TtlCtx", "Del1", "Del1Ctx", "Expire", "ExpireatCtx", "PersistCtx"} // kind "any": no type clash
)

func c15kvOpNamed(name string) c15kvOp {
	for _, op := range c15kvOps {
		if op.name == name {
			return op
		}
	}
	panic("c15: no op " + name)
}

// probe creates a fresh key from a wide namespace through one store and touches it through
// another one (a store built from the same nodes in another order).
func (c *c15kvCase) probe(st *verifkit.Stats) {
	t := c.t
	w := c15kvOpNamed(rapid.SampledFrom(c15kvWriters).Draw(t, "writer"))
	key := fmt.Sprintf("%s%sp%d", c.prefix, w.kind, rapid.IntRange(0, 99999).Draw(t, "probe"))
	call, si := c.drawCall(w.kind)
	call.key = key
	c.exec(st, w, call, si)
	r := c15kvOpNamed(rapid.SampledFrom(c15kvReaders).Draw(t, "reader"))
	call2, si2 := c.drawCall(r.kind)
	if len(c.stores) > 1 && si2 == si {
		si2 = (si + 1) % len(c.stores)
		call2.s = c.stores[si2]
	}
	call2.key = key
	c.exec(st, r, call2, si2)
}

func (c *c15kvCase) delMany(st *verifkit.Stats) {
	t := c.t
	si := rapid.IntRange(0, len(c.stores)-1).Draw(t, "store")
	n := rapid.IntRange(0, 6).Draw(t, "nkeys")
	var keys []string
	existing := c.env.ref.Keys()
	for i := 0; i < n; i++ {
		if len(existing) > 0 && rapid.IntRange(0, 9).Draw(t, "existing") < 7 {
			keys = append(keys, rapid.SampledFrom(existing).Draw(t, "key"))
		} else {
			keys = append(keys, c.pickKey("any"))
		}
	}
	useCtx := rapid.Bool().Draw(t, "ctx")
	desc := fmt.Sprintf("s%d.Del(%q ctx=%v)", si, keys, useCtx)
	var g, w int
	var ge, we error
	if useCtx {
		g, ge = c.stores[si].DelCtx(context.Background(), keys...)
		w, we = c.env.rds.DelCtx(context.Background(), keys...)
	} else {
		g, ge = c.stores[si].Del(keys...)
		w, we = c.env.rds.Del(keys...)
	}
	fmt.Fprintf(&c.log, " %s", desc)
	st.Class("kv-op:del-many")
	owners := map[int]bool{}
	for _, k := range keys {
		owners[c.owner(k)] = true
	}
	if len(owners) >= 2 {
		st.Class("kv-del-many-across-nodes")
	}
	c.infra(st, ge, we)
	if len(keys) == 0 && we != nil {
		// DEL without keys is an error on a redis node; the store has nothing to dispatch
		// and the statement does not say what it answers
		we, w = ge, g
	}
	if g != w || (ge == nil) != (we == nil) {
		c.fatalf("%s on the %d-node store returned (%d, %v), one redis node returns (%d, %v); %s", desc, len(c.nodes), g, ge, w, we, c.log.String())
	}
	for _, k := range keys {
		c.checkKey(k, desc)
	}
}

func TestVerifC15KvSites(t *testing.T) {
	logx.Disable()
	st := verifkit.New("dispatch-sites-kv")
	defer st.Flush()
	env := c15kvGetEnv(t)
	defer c15kvReportLast(t)

	rapid.Check(t, func(t *rapid.T) {
		st.Eval()
		for _, mr := range env.pool {
			mr.FlushAll()
		}
		env.ref.FlushAll()

		c := &c15kvCase{t: t, env: env, inCase: map[int]bool{}, landed: map[int]bool{}}
		n := rapid.IntRange(1, 5).Draw(t, "nodes")
		ids := make([]int, c15kvPoolSize)
		for i := range ids {
			ids[i] = i
		}
		chosen := rapid.Permutation(ids).Draw(t, "servers")[:n]
		ws := c15kvDrawWeights(t, n)
		for i := 0; i < n; i++ {
			c.nodes = append(c.nodes, c15kvNode{chosen[i], ws[i]})
			c.inCase[chosen[i]] = true
		}
		c.prefix = rapid.SampledFrom([]string{"", "k", "user:", "c15/"}).Draw(t, "prefix")

		// the stores: same (node, weight) list, different orders
		nstores := rapid.IntRange(2, 3).Draw(t, "stores")
		for s := 0; s < nstores; s++ {
			var order []int
			if s == 0 {
				for i := 0; i < n; i++ {
					order = append(order, i)
				}
			} else {
				order = c15kvOrder(t, n, "order")
			}
			var conf kv.KvConf
			for _, i := range order {
				conf = append(conf, c15kvConf(env, c.nodes[i]))
			}
			c.orders = append(c.orders, order)
			c.stores = append(c.stores, kv.NewStore(conf))
		}
		// the reference ring, filled as documented for the call site, in one more order
		c.ring = hash.NewConsistentHash()
		for _, i := range c15kvOrder(t, n, "ringOrder") {
			c.ring.AddWithWeight(redis.MustNewRedis(c15kvConf(env, c.nodes[i]).RedisConf), c.nodes[i].weight)
		}
		fmt.Fprintf(&c.log, " nodes=")
		for _, nd := range c.nodes {
			fmt.Fprintf(&c.log, "#%d(w=%d)", nd.idx, nd.weight)
		}
		fmt.Fprintf(&c.log, " orders=%v prefix=%q:", c.orders, c.prefix)

		t.Repeat(map[string]func(*rapid.T){
			"string":  func(t *rapid.T) { c.t = t; c.step(st, "str", "num") },
			"anykey":  func(t *rapid.T) { c.t = t; c.step(st, "any") },
			"hash":    func(t *rapid.T) { c.t = t; c.step(st, "hash") },
			"set":     func(t *rapid.T) { c.t = t; c.step(st, "set") },
			"list":    func(t *rapid.T) { c.t = t; c.step(st, "list") },
			"zset":    func(t *rapid.T) { c.t = t; c.step(st, "zset") },
			"delmany": func(t *rapid.T) { c.t = t; c.delMany(st) },
			"probe":   func(t *rapid.T) { c.t = t; c.probe(st) },
			"probe2":  func(t *rapid.T) { c.t = t; c.probe(st) }, // twice as likely as the other actions
			"":        func(t *rapid.T) { c.t = t; c.sweep() },
		})

		st.Class(fmt.Sprintf("kv-nodes=%d", n))
		st.Class(fmt.Sprintf("kv-landed-on=%d", len(c.landed)))
		if n >= 2 && len(c.landed) >= 2 {
			st.NonTrivial(c.log.String())
		}
	})
}

// TestVerifC15KvSitesEmpty: "Get ... returns none when the ring is empty" at the call site:
// a store whose ring has no node acts on no server and answers the documented
// kv.ErrNoRedisNode.  (kv.NewStore refuses an empty configuration with log.Fatal, so the
// empty store is built in-package, see c15_kvsites_export_test.go.)
func TestVerifC15KvSitesEmpty(t *testing.T) {
	logx.Disable()
	st := verifkit.New("dispatch-sites-kv")
	defer st.Flush()
	env := c15kvGetEnv(t)
	s := kv.VerifC15EmptyStore()

	rapid.Check(t, func(t *rapid.T) {
		st.Eval()
		st.Class("kv-empty-store")
		for _, mr := range env.pool {
			mr.FlushAll()
		}
		env.ref.FlushAll()
		op := c15kvOps[rapid.IntRange(0, len(c15kvOps)-1).Draw(t, "op")]
		call := &c15kvCall{
			s:     s,
			r:     env.rds,
			ctx:   context.Background(),
			key:   rapid.StringMatching(`[a-z0-9:]{0,8}`).Draw(t, "key"),
			field: "f0",
			val:   "1",
			n:     int64(rapid.IntRange(-3, 9).Draw(t, "n")),
			secs:  rapid.IntRange(1, 5000).Draw(t, "secs"),
		}
		res := op.run(call)
		if !errors.Is(res.ge, kv.ErrNoRedisNode) {
			t.Fatalf("%s(%q) on a store without nodes returned (%#v, %v), want kv.ErrNoRedisNode", op.name, call.key, res.g, res.ge)
		}
		keys := rapid.SliceOfN(rapid.StringMatching(`[a-z0-9:]{0,8}`), 1, 4).Draw(t, "delKeys")
		if n, err := s.Del(keys...); !errors.Is(err, kv.ErrNoRedisNode) || n != 0 {
			t.Fatalf("Del(%q) on a store without nodes returned (%d, %v), want (0, kv.ErrNoRedisNode)", keys, n, err)
		}
		for i, mr := range env.pool {
			if ks := mr.Keys(); len(ks) != 0 {
				t.Fatalf("store without nodes: server #%d holds %q after %s(%q)", i, ks, op.name, call.key)
			}
		}
	})
}
