//go:build verif

package cache

import (
	"time"

	"github.com/zeromicro/go-zero/core/collection"
	"github.com/zeromicro/go-zero/core/hash"
	"github.com/zeromicro/go-zero/core/timex"
)

// VerifC15EmptyCluster returns a cluster whose ring holds no node.  New refuses such a
// configuration with log.Fatal, so it can only be built in-package; the external test
// package cache_test uses it for the "none when the ring is empty" clause of C15.
func VerifC15EmptyCluster(errNotFound error) Cache {
	return cacheCluster{dispatcher: hash.NewConsistentHash(), errNotFound: errNotFound}
}

// VerifC15FakeCleanerClock replaces, for the rest of the process, the timing wheel from
// which failed deletes are retried (1 s interval, same slots, same clean function) by one
// that only moves when the returned function is called (the package's own tests do the
// same).  Without it a retry would fire 1..2 s of wall clock after the failed delete.
func VerifC15FakeCleanerClock() (tick func(), err error) {
	ticker := timex.NewFakeTicker()
	tw, err := collection.NewTimingWheelWithTicker(time.Second, timingWheelSlots, clean, ticker)
	if err != nil {
		return nil, err
	}
	timingWheel.Store(tw)
	return ticker.Tick, nil
}
