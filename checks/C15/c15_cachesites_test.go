//go:build verif

// C15, unit dispatch-sites (cache half) — the anchored call site core/stores/cache/cache.go.
//
// cache.New(ClusterConf) with more than one node puts one cache node per entry on a
// consistent-hash ring (AddWithWeight(cache node, weight)); the cluster dispatches
// Set/Get/Take/Del per key to the node the ring names, and Del with several keys groups
// the keys per node.  Oracles, from the C15 statement:
//
//	(1) member-only, single owner: a cached key lives on exactly one of the configured
//	    servers and every later operation on it acts there — the cluster answers every
//	    operation exactly as ONE cache node does (reference: cache.NewNode on a server of
//	    its own receiving the same operations), whatever the number of nodes;
//	(2) order independence: clusters built from the same (node, weight) list in different
//	    orders are interchangeable — every step picks one of them at random;
//	(3) agreement with the ring: the server that holds a key is the one a reference ring
//	    hash.NewConsistentHash() + AddWithWeight(cache node, weight) names;
//	(4) Del(k1..kn): every key is deleted from its own node and from no other (decoy
//	    copies planted directly on other servers survive) — also when one node is down:
//	    then only "keys on healthy nodes are gone, no key is deleted from a node that does
//	    not own it" is asserted (TestVerifC15CacheSitesDown).
//
// TTLs are not compared (C06 owns them; the cache jitters them).  Servers are miniredis,
// inspected directly.
package cache_test

import (
	"context"
	"errors"
	"fmt"
	"sort"
	"strings"
	"sync"
	"testing"
	"time"

	"github.com/alicebob/miniredis/v2"
	"github.com/zeromicro/go-zero/core/breaker"
	"github.com/zeromicro/go-zero/core/hash"
	"github.com/zeromicro/go-zero/core/logx"
	"github.com/zeromicro/go-zero/core/stores/cache"
	"github.com/zeromicro/go-zero/core/stores/redis"
	"github.com/zeromicro/go-zero/core/syncx"
	"github.com/zeromicro/go-zero/internal/verifkit"
	"pgregory.net/rapid"
)

const c15caPoolSize = 8

var (
	c15caErrNotFound = errors.New("c15: not found")
	c15caErrDB       = errors.New("c15: query failed")
)

type c15caEnv struct {
	pool []*miniredis.Miniredis
	ref  *miniredis.Miniredis
	stat *cache.Stat
	node cache.Cache // the reference "one cache node" on ref
}

var (
	c15caOnce sync.Once
	c15caE    *c15caEnv
	c15caErr  error
)

func c15caGetEnv(t *testing.T) *c15caEnv {
	c15caOnce.Do(func() {
		e := &c15caEnv{stat: cache.NewStat("c15")}
		for i := 0; i <= c15caPoolSize; i++ {
			mr, err := miniredis.Run()
			if err != nil {
				c15caErr = err
				return
			}
			if i == c15caPoolSize {
				e.ref = mr
			} else {
				e.pool = append(e.pool, mr)
			}
		}
		e.node = cache.NewNode(redis.New(e.ref.Addr()), syncx.NewSingleFlight(), e.stat, c15caErrNotFound,
			cache.WithExpiry(time.Hour), cache.WithNotFoundExpiry(time.Minute))
		c15caE = e
	})
	if c15caErr != nil || c15caE == nil {
		t.Skipf("inconclusive: cannot start miniredis: %v", c15caErr)
	}
	return c15caE
}

type c15caNode struct {
	addr   string
	weight int
}

func c15caConf(n c15caNode) cache.NodeConf {
	return cache.NodeConf{
		RedisConf: redis.RedisConf{Host: n.addr, Type: redis.NodeType, NonBlock: true},
		Weight:    n.weight,
	}
}

func c15caDrawWeights(t *rapid.T, n int) []int {
	base := rapid.IntRange(1, 150).Draw(t, "baseWeight")
	ws := make([]int, n)
	for i := range ws {
		switch rapid.IntRange(0, 5).Draw(t, "weightKind") {
		case 0, 1, 2:
			ws[i] = base // duplicates of the same weight
		case 3:
			ws[i] = rapid.SampledFrom([]int{1, 2, 50, 99, 100, 101, 150}).Draw(t, "edgeWeight")
		default:
			ws[i] = rapid.IntRange(1, 150).Draw(t, "weight")
		}
	}
	return ws
}

// c15caOrder draws an order of 0..n-1 that differs from the identity whenever n >= 2.
func c15caOrder(t *rapid.T, n int, label string) []int {
	id := make([]int, n)
	for i := range id {
		id[i] = i
	}
	p := rapid.Permutation(id).Draw(t, label)
	same := true
	for i := range p {
		if p[i] != i {
			same = false
		}
	}
	if same && n >= 2 {
		p = append(append([]int(nil), id[1:]...), id[0])
	}
	return p
}

// c15caCluster is one generated cluster: the servers, the caches built from them in
// several orders, and the reference ring.
type c15caCluster struct {
	servers  []*miniredis.Miniredis // node i of the cluster
	nodes    []c15caNode
	caches   []cache.Cache
	orders   [][]int
	ring     *hash.ConsistentHash
	ringNode []cache.Cache // ringNode[i] is the ring's node object of node i
}

func c15caBuild(t *rapid.T, servers []*miniredis.Miniredis, stat *cache.Stat, ncaches int) *c15caCluster {
	n := len(servers)
	cl := &c15caCluster{servers: servers}
	ws := c15caDrawWeights(t, n)
	for i, mr := range servers {
		cl.nodes = append(cl.nodes, c15caNode{mr.Addr(), ws[i]})
	}
	opts := []cache.Option{cache.WithExpiry(time.Hour), cache.WithNotFoundExpiry(time.Minute)}
	for s := 0; s < ncaches; s++ {
		var order []int
		if s == 0 {
			for i := 0; i < n; i++ {
				order = append(order, i)
			}
		} else {
			order = c15caOrder(t, n, "order")
		}
		var conf cache.ClusterConf
		for _, i := range order {
			conf = append(conf, c15caConf(cl.nodes[i]))
		}
		cl.orders = append(cl.orders, order)
		cl.caches = append(cl.caches, cache.New(conf, syncx.NewSingleFlight(), stat, c15caErrNotFound, opts...))
	}
	cl.ring = hash.NewConsistentHash()
	cl.ringNode = make([]cache.Cache, n)
	for _, i := range c15caOrder(t, n, "ringOrder") {
		cl.ringNode[i] = cache.NewNode(redis.MustNewRedis(c15caConf(cl.nodes[i]).RedisConf), syncx.NewSingleFlight(), stat,
			c15caErrNotFound, opts...)
		cl.ring.AddWithWeight(cl.ringNode[i], cl.nodes[i].weight)
	}
	return cl
}

func (cl *c15caCluster) String() string {
	var b strings.Builder
	b.WriteString("nodes=")
	for i, n := range cl.nodes {
		fmt.Fprintf(&b, "#%d(w=%d)", i, n.weight)
	}
	fmt.Fprintf(&b, " orders=%v", cl.orders)
	return b.String()
}

// owner is the node index the reference ring names for key (-1: none).
func (cl *c15caCluster) owner(key string) int {
	v, ok := cl.ring.Get(key)
	if !ok {
		return -1
	}
	for i, nd := range cl.ringNode {
		if nd == v {
			return i
		}
	}
	return -1
}

func (cl *c15caCluster) holders(key string) []int {
	var out []int
	for i, mr := range cl.servers {
		if mr.Exists(key) {
			out = append(out, i)
		}
	}
	return out
}

// ------------------------------------------------------------------ history on a pooled cluster

type c15caVal struct {
	A string `json:"a"`
	N int    `json:"n"`
}

type c15caCase struct {
	t      *rapid.T
	env    *c15caEnv
	cl     *c15caCluster
	inCase map[*miniredis.Miniredis]bool
	log    strings.Builder
	landed map[int]bool
	prefix string
}

// c15caLastFail keeps the last failure message: when the code under test is not
// deterministic (Go map order in a mutant of DelCtx) rapid cannot reproduce the failure and
// prints only "flaky test".
var c15caLastFail string

func c15caReportLast(t *testing.T) {
	if t.Failed() && c15caLastFail != "" {
		t.Logf("last failure message: %s", c15caLastFail)
	}
}

func (c *c15caCase) fail(format string, a ...any) {
	c15caLastFail = fmt.Sprintf("%s\ncluster %s\nhistory:%s", fmt.Sprintf(format, a...), c.cl, c.log.String())
	c.t.Fatalf("%s", c15caLastFail)
}

func (c *c15caCase) pickKey() string {
	t := c.t
	if rapid.IntRange(0, 9).Draw(t, "wideKey") < 4 {
		return fmt.Sprintf("%sp%d", c.prefix, rapid.IntRange(0, 99999).Draw(t, "probe"))
	}
	return fmt.Sprintf("%sk%d", c.prefix, rapid.IntRange(0, 11).Draw(t, "keyNo"))
}

func (c *c15caCase) drawVal() c15caVal {
	return c15caVal{
		A: rapid.SampledFrom([]string{"", "a", "b", "*"}).Draw(c.t, "valA"),
		N: rapid.IntRange(0, 50).Draw(c.t, "valN"),
	}
}

// checkKey: server-level part of (1) and (3) for one key.
func (c *c15caCase) checkKey(key, after string) {
	h := c.cl.holders(key)
	for _, mr := range c.env.pool {
		if !c.inCase[mr] && mr.Exists(key) {
			c.fail("member-only violated after %s: key %q is on server %s, which is not a node of this cluster", after, key, mr.Addr())
		}
	}
	inRef := c.env.ref.Exists(key)
	if len(h) > 1 {
		c.fail("single owner violated after %s: key %q is held by nodes %v (owner by the reference ring: #%d)", after, key, h, c.cl.owner(key))
	}
	if inRef != (len(h) == 1) {
		c.fail("after %s: key %q exists on the reference node: %v, on the cluster nodes: %v (owner by the reference ring: #%d)",
			after, key, inRef, h, c.cl.owner(key))
	}
	if len(h) == 0 {
		return
	}
	if own := c.cl.owner(key); h[0] != own {
		c.fail("after %s: key %q is on node #%d, the reference ring (AddWithWeight(cache node, weight)) names #%d", after, key, h[0], own)
	}
	c.landed[h[0]] = true
	gv, _ := c.cl.servers[h[0]].Get(key)
	wv, _ := c.env.ref.Get(key)
	if gv != wv {
		c.fail("after %s: key %q holds %q on its node, %q on the reference node", after, key, gv, wv)
	}
}

func (c *c15caCase) sweep() {
	want := c.env.ref.Keys()
	total := 0
	for _, mr := range c.env.pool {
		ks := mr.Keys()
		if len(ks) > 0 && !c.inCase[mr] {
			c.fail("member-only violated: server %s is not a node of this cluster but holds %q", mr.Addr(), ks)
		}
		total += len(ks)
	}
	for _, k := range want {
		c.checkKey(k, "the history so far")
	}
	if total != len(want) {
		var all []string
		for i, mr := range c.cl.servers {
			for _, k := range mr.Keys() {
				all = append(all, fmt.Sprintf("#%d:%s", i, k))
			}
		}
		sort.Strings(all)
		c.fail("the cluster nodes hold %d keys %q, the reference node %d keys %q", total, all, len(want), want)
	}
}

func c15caErrClass(err error) string {
	switch {
	case err == nil:
		return "nil"
	case errors.Is(err, c15caErrNotFound):
		return "not-found"
	case errors.Is(err, c15caErrDB):
		return "query-error"
	default:
		return "other: " + err.Error()
	}
}

// infra gives the case up (inconclusive, never a failure) when go-zero's circuit breaker
// rejected a command: that is about the health of the address, not about dispatch.
func (c *c15caCase) infra(st *verifkit.Stats, errs ...error) {
	for _, err := range errs {
		if errors.Is(err, breaker.ErrServiceUnavailable) {
			st.Class("cache-inconclusive-breaker-open")
			st.Note("inconclusive: circuit breaker open; %s", c.log.String())
			c.t.Skip("circuit breaker open")
		}
	}
}

func (c *c15caCase) pickCache() (cache.Cache, int) {
	i := rapid.IntRange(0, len(c.cl.caches)-1).Draw(c.t, "cache")
	return c.cl.caches[i], i
}

func (c *c15caCase) set(st *verifkit.Stats) {
	t := c.t
	ca, ci := c.pickCache()
	key, val := c.pickKey(), c.drawVal()
	variant := rapid.SampledFrom([]string{"Set", "SetCtx", "SetWithExpire", "SetWithExpireCtx"}).Draw(t, "variant")
	exp := time.Duration(rapid.IntRange(1, 7200).Draw(t, "expireSec")) * time.Second
	desc := fmt.Sprintf("c%d.%s(%q,%+v)", ci, variant, key, val)
	ctx := context.Background()
	var ge, we error
	switch variant {
	case "Set":
		ge, we = ca.Set(key, val), c.env.node.Set(key, val)
	case "SetCtx":
		ge, we = ca.SetCtx(ctx, key, val), c.env.node.SetCtx(ctx, key, val)
	case "SetWithExpire":
		ge, we = ca.SetWithExpire(key, val, exp), c.env.node.SetWithExpire(key, val, exp)
	default:
		ge, we = ca.SetWithExpireCtx(ctx, key, val, exp), c.env.node.SetWithExpireCtx(ctx, key, val, exp)
	}
	fmt.Fprintf(&c.log, " %s", desc)
	st.Class("cache-op:set")
	c.infra(st, ge, we)
	if c15caErrClass(ge) != c15caErrClass(we) {
		c.fail("%s returned %v, one cache node returns %v", desc, ge, we)
	}
	c.checkKey(key, desc)
}

func (c *c15caCase) get(st *verifkit.Stats) {
	ca, ci := c.pickCache()
	key := c.pickKey()
	useCtx := rapid.Bool().Draw(c.t, "ctx")
	desc := fmt.Sprintf("c%d.Get(%q ctx=%v)", ci, key, useCtx)
	var gv, wv c15caVal
	var ge, we error
	if useCtx {
		ge, we = ca.GetCtx(context.Background(), key, &gv), c.env.node.GetCtx(context.Background(), key, &wv)
	} else {
		ge, we = ca.Get(key, &gv), c.env.node.Get(key, &wv)
	}
	fmt.Fprintf(&c.log, " %s", desc)
	st.Class("cache-op:get")
	c.infra(st, ge, we)
	if c15caErrClass(ge) != c15caErrClass(we) || gv != wv || ca.IsNotFound(ge) != c.env.node.IsNotFound(we) {
		c.fail("%s returned (%+v, %v), one cache node returns (%+v, %v); owner by the reference ring #%d, held by %v",
			desc, gv, ge, wv, we, c.cl.owner(key), c.cl.holders(key))
	}
	c.checkKey(key, desc)
}

func (c *c15caCase) take(st *verifkit.Stats) {
	t := c.t
	ca, ci := c.pickCache()
	key, val := c.pickKey(), c.drawVal()
	variant := rapid.SampledFrom([]string{"Take", "TakeCtx", "TakeWithExpire", "TakeWithExpireCtx"}).Draw(t, "variant")
	outcome := rapid.SampledFrom([]string{"row", "row", "not-found", "error"}).Draw(t, "query")
	desc := fmt.Sprintf("c%d.%s(%q, query->%s %+v)", ci, variant, key, outcome, val)
	ctx := context.Background()
	run := func(target cache.Cache) (v c15caVal, calls int, err error) {
		q := func(p any) error {
			calls++
			switch outcome {
			case "row":
				*p.(*c15caVal) = val
				return nil
			case "not-found":
				return c15caErrNotFound
			default:
				return c15caErrDB
			}
		}
		qe := func(p any, _ time.Duration) error { return q(p) }
		switch variant {
		case "Take":
			err = target.Take(&v, key, q)
		case "TakeCtx":
			err = target.TakeCtx(ctx, &v, key, q)
		case "TakeWithExpire":
			err = target.TakeWithExpire(&v, key, qe)
		default:
			err = target.TakeWithExpireCtx(ctx, &v, key, qe)
		}
		return
	}
	gv, gc, ge := run(ca)
	wv, wc, we := run(c.env.node)
	fmt.Fprintf(&c.log, " %s", desc)
	st.Class("cache-op:take")
	c.infra(st, ge, we)
	if c15caErrClass(ge) != c15caErrClass(we) || gc != wc || (ge == nil && gv != wv) {
		c.fail("%s returned (%+v, %v) after %d queries, one cache node returns (%+v, %v) after %d queries; owner by the reference ring #%d, held by %v",
			desc, gv, ge, gc, wv, we, wc, c.cl.owner(key), c.cl.holders(key))
	}
	c.checkKey(key, desc)
}

// del: Del / DelCtx with 0..6 keys; decoy copies of the keys are planted directly on nodes
// that do not own them and must survive.
func (c *c15caCase) del(st *verifkit.Stats) {
	t := c.t
	ca, ci := c.pickCache()
	n := rapid.IntRange(0, 6).Draw(t, "nkeys")
	existing := c.env.ref.Keys()
	seen := map[string]bool{}
	var keys []string
	for i := 0; i < n; i++ {
		var k string
		if len(existing) > 0 && rapid.IntRange(0, 9).Draw(t, "existing") < 7 {
			k = rapid.SampledFrom(existing).Draw(t, "key")
		} else {
			k = c.pickKey()
		}
		keys = append(keys, k)
		seen[k] = true
	}
	type decoy struct {
		key  string
		node int
	}
	var decoys []decoy
	if len(c.cl.servers) >= 2 {
		for _, k := range keys {
			if !seen[k] {
				continue // a repeated key gets one decoy
			}
			seen[k] = false
			if rapid.IntRange(0, 9).Draw(t, "decoy") < 6 {
				own := c.cl.owner(k)
				other := rapid.IntRange(0, len(c.cl.servers)-2).Draw(t, "decoyNode")
				if other >= own {
					other++
				}
				c.cl.servers[other].Set(k, "decoy")
				decoys = append(decoys, decoy{k, other})
			}
		}
	}
	useCtx := rapid.Bool().Draw(t, "ctx")
	desc := fmt.Sprintf("c%d.Del(%q ctx=%v decoys=%v)", ci, keys, useCtx, decoys)
	var ge, we error
	if useCtx {
		ge, we = ca.DelCtx(context.Background(), keys...), c.env.node.DelCtx(context.Background(), keys...)
	} else {
		ge, we = ca.Del(keys...), c.env.node.Del(keys...)
	}
	fmt.Fprintf(&c.log, " %s", desc)
	st.Class("cache-op:del")
	c.infra(st, ge, we)
	owners := map[int]bool{}
	for _, k := range keys {
		owners[c.cl.owner(k)] = true
	}
	if len(owners) >= 2 {
		st.Class("cache-del-across-nodes")
	}
	if len(decoys) > 0 {
		st.Class("cache-del-with-decoys")
	}
	if c15caErrClass(ge) != c15caErrClass(we) {
		c.fail("%s returned %v, one cache node returns %v", desc, ge, we)
	}
	for _, d := range decoys {
		mr := c.cl.servers[d.node]
		if v, err := mr.Get(d.key); err != nil || v != "decoy" {
			c.fail("%s deleted key %q from node #%d, which does not own it (owner by the reference ring: #%d)", desc, d.key, d.node, c.cl.owner(d.key))
		}
		mr.Del(d.key)
	}
	for _, k := range keys {
		if h := c.cl.holders(k); len(h) != 0 {
			c.fail("%s left key %q on node(s) %v (owner by the reference ring: #%d)", desc, k, h, c.cl.owner(k))
		}
		c.checkKey(k, desc)
	}
}

func TestVerifC15CacheSites(t *testing.T) {
	logx.Disable()
	st := verifkit.New("dispatch-sites-cache")
	defer st.Flush()
	env := c15caGetEnv(t)
	defer c15caReportLast(t)

	rapid.Check(t, func(t *rapid.T) {
		st.Eval()
		for _, mr := range env.pool {
			mr.FlushAll()
		}
		env.ref.FlushAll()

		n := rapid.IntRange(1, 5).Draw(t, "nodes")
		chosen := rapid.Permutation(append([]*miniredis.Miniredis(nil), env.pool...)).Draw(t, "servers")[:n]
		c := &c15caCase{t: t, env: env, inCase: map[*miniredis.Miniredis]bool{}, landed: map[int]bool{}}
		for _, mr := range chosen {
			c.inCase[mr] = true
		}
		c.cl = c15caBuild(t, chosen, env.stat, rapid.IntRange(2, 3).Draw(t, "caches"))
		c.prefix = rapid.SampledFrom([]string{"", "cache:", "user#", "c15/"}).Draw(t, "prefix")
		fmt.Fprintf(&c.log, " prefix=%q:", c.prefix)

		t.Repeat(map[string]func(*rapid.T){
			"set":  func(t *rapid.T) { c.t = t; c.set(st) },
			"get":  func(t *rapid.T) { c.t = t; c.get(st) },
			"take": func(t *rapid.T) { c.t = t; c.take(st) },
			"del":  func(t *rapid.T) { c.t = t; c.del(st) },
			"":     func(t *rapid.T) { c.t = t; c.sweep() },
		})

		st.Class(fmt.Sprintf("cache-nodes=%d", n))
		st.Class(fmt.Sprintf("cache-landed-on=%d", len(c.landed)))
		if n >= 2 && len(c.landed) >= 2 {
			st.NonTrivial(c.cl.String() + c.log.String())
		}
	})
}

// TestVerifC15CacheSitesEmpty: a cluster whose ring holds no node ("none when the ring is
// empty") acts on no server and reports an error for every keyed operation.  cache.New
// refuses an empty configuration with log.Fatal, so the empty cluster is built in-package
// (c15_cachesites_export_test.go).  Which error is not documented; only "an error, and no
// server touched" is asserted.
func TestVerifC15CacheSitesEmpty(t *testing.T) {
	logx.Disable()
	st := verifkit.New("dispatch-sites-cache")
	defer st.Flush()
	env := c15caGetEnv(t)
	ca := cache.VerifC15EmptyCluster(c15caErrNotFound)

	rapid.Check(t, func(t *rapid.T) {
		st.Eval()
		st.Class("cache-empty-cluster")
		for _, mr := range env.pool {
			mr.FlushAll()
		}
		keys := rapid.SliceOfN(rapid.StringMatching(`[a-z0-9:]{0,8}`), 1, 4).Draw(t, "keys")
		key := keys[0]
		var v c15caVal
		called := 0
		q := func(p any) error { called++; return nil }
		ctx := context.Background()
		errs := map[string]error{
			"Set":               ca.Set(key, v),
			"SetCtx":            ca.SetCtx(ctx, key, v),
			"SetWithExpire":     ca.SetWithExpire(key, v, time.Minute),
			"Get":               ca.Get(key, &v),
			"GetCtx":            ca.GetCtx(ctx, key, &v),
			"Take":              ca.Take(&v, key, q),
			"TakeCtx":           ca.TakeCtx(ctx, &v, key, q),
			"TakeWithExpireCtx": ca.TakeWithExpireCtx(ctx, &v, key, func(p any, _ time.Duration) error { return q(p) }),
			"Del":               ca.Del(keys...),
			"DelCtx":            ca.DelCtx(ctx, key),
		}
		for name, err := range errs {
			if err == nil {
				t.Fatalf("%s(%q) on a cluster without nodes returned no error", name, keys)
			}
		}
		for i, mr := range env.pool {
			if ks := mr.Keys(); len(ks) != 0 {
				t.Fatalf("cluster without nodes: server #%d holds %q", i, ks)
			}
		}
	})
}

// ------------------------------------------------------------------ Del with one node down

const c15caDownMsg = "ERR c15 node down" // not LOADING/READONLY/...: go-redis must not retry with backoff

// TestVerifC15CacheSitesDown: Del(k1..kn) on a cluster one node of which answers every
// command with an error.  Asserted (one-directional, from the task's reading of C06/C15):
// keys owned by healthy nodes are gone, and no key is deleted from a node that does not own
// it.  What happens to the keys of the node that is down (error reported, retried later) is
// only observed.  The timing wheel from which the cache retries a failed delete (after 1 s,
// 5 s, ...) is driven by the test (fake ticker), and a case ends only when its retry has
// landed, so that no retry of one case reaches a later case on the pooled servers.
func TestVerifC15CacheSitesDown(t *testing.T) {
	logx.Disable()
	st := verifkit.New("dispatch-sites-cache-down")
	defer st.Flush()
	env := c15caGetEnv(t)
	stat := env.stat
	tick, err := cache.VerifC15FakeCleanerClock()
	if err != nil {
		t.Skipf("inconclusive: cannot replace the cleaner's timing wheel: %v", err)
	}

	defer c15caReportLast(t)

	rapid.Check(t, func(t *rapid.T) {
		st.Eval()
		fatalf := func(format string, a ...any) {
			c15caLastFail = fmt.Sprintf(format, a...)
			t.Fatalf("%s", c15caLastFail)
		}
		for _, mr := range env.pool {
			mr.SetError("")
			mr.FlushAll()
		}
		n := rapid.IntRange(2, 5).Draw(t, "nodes")
		servers := rapid.Permutation(append([]*miniredis.Miniredis(nil), env.pool...)).Draw(t, "servers")[:n]
		cl := c15caBuild(t, servers, stat, 2)
		ca := cl.caches[rapid.IntRange(0, 1).Draw(t, "cache")]

		nkeys := rapid.IntRange(1, 8).Draw(t, "nkeys")
		keys := rapid.SliceOfNDistinct(rapid.IntRange(0, 9999), nkeys, nkeys, rapid.ID[int]).Draw(t, "keys")
		var names []string
		for _, k := range keys {
			names = append(names, fmt.Sprintf("d%d", k))
		}
		var log strings.Builder
		fmt.Fprintf(&log, "cluster %s keys %q", cl, names)
		for _, k := range names {
			if err := ca.Set(k, c15caVal{A: k}); errors.Is(err, breaker.ErrServiceUnavailable) {
				st.Note("inconclusive: circuit breaker open; %s", log.String())
				t.Skip("circuit breaker open")
			} else if err != nil {
				fatalf("Set(%q) on a healthy cluster: %v; %s", k, err, log.String())
			}
			h := cl.holders(k)
			if len(h) != 1 || h[0] != cl.owner(k) {
				fatalf("Set(%q): key is held by nodes %v, the reference ring names #%d; %s", k, h, cl.owner(k), log.String())
			}
		}
		down := rapid.IntRange(0, n-1).Draw(t, "down")
		// decoys on healthy nodes that do not own the key
		type decoy struct {
			key  string
			node int
		}
		var decoys []decoy
		for _, k := range names {
			own := cl.owner(k)
			for i := range servers {
				if i != own && i != down && rapid.IntRange(0, 9).Draw(t, "decoy") < 4 {
					servers[i].Set(k, "decoy")
					decoys = append(decoys, decoy{k, i})
				}
			}
		}
		ownersHit := map[int]bool{}
		downOwns := 0
		for _, k := range names {
			ownersHit[cl.owner(k)] = true
			if cl.owner(k) == down {
				downOwns++
			}
		}
		fmt.Fprintf(&log, " down=#%d (owns %d of the keys) decoys=%v", down, downOwns, decoys)

		servers[down].SetError(c15caDownMsg)
		useCtx := rapid.Bool().Draw(t, "ctx")
		var err error
		if useCtx {
			err = ca.DelCtx(context.Background(), names...)
		} else {
			err = ca.Del(names...)
		}
		servers[down].SetError("")
		fmt.Fprintf(&log, " Del(ctx=%v) -> %v", useCtx, err)
		// go-zero keeps one circuit breaker per address; it starts to reject when the failures
		// of the last 10 s exceed 5 + 0.1 x successes.  The Del above failed at most one command
		// on the node that was down; 12 successful PINGs through the same client keep the
		// breaker closed whatever the number of cases per 10 s.
		for i, pad := 0, redis.New(servers[down].Addr()); i < 12; i++ {
			pad.Ping()
		}
		inCluster := map[*miniredis.Miniredis]bool{}
		for _, mr := range servers {
			inCluster[mr] = true
		}
		for _, mr := range env.pool {
			if ks := mr.Keys(); !inCluster[mr] && len(ks) > 0 {
				fatalf("member-only violated: server %s is not a node of this cluster but holds %q; %s", mr.Addr(), ks, log.String())
			}
		}
		st.Class(fmt.Sprintf("down-del-error=%v", err != nil))

		for _, k := range names {
			own := cl.owner(k)
			if own != down && servers[own].Exists(k) {
				fatalf("key %q is still on its healthy node #%d after Del; %s", k, own, log.String())
			}
		}
		for _, d := range decoys {
			if v, e := servers[d.node].Get(d.key); e != nil || v != "decoy" {
				fatalf("Del removed key %q from node #%d, which does not own it (owner #%d); %s", d.key, d.node, cl.owner(d.key), log.String())
			}
		}
		if downOwns > 0 {
			st.Class("down-node-owned-keys")
			// settle: the cache retries the failed delete from its timing wheel, which in this
			// process only moves when tick() is called; the retry itself runs on a goroutine
			// of the cleaner, so its effect is polled for (bounded).  Not an assertion.
			remaining := func() int {
				r := 0
				for _, k := range names {
					if cl.owner(k) == down && servers[down].Exists(k) {
						r++
					}
				}
				return r
			}
			ticks := 0
			for ticks < 8 && remaining() > 0 {
				tick()
				ticks++
				for j := 0; j < 500 && remaining() > 0; j++ {
					time.Sleep(time.Millisecond)
				}
			}
			if remaining() == 0 {
				st.Class(fmt.Sprintf("down-keys-deleted-by-retry-after-ticks=%d", ticks))
			} else {
				st.Class("down-keys-still-there")
				st.Note("keys of the node that was down were not deleted %d cleaner ticks after it came back (not asserted): %s", ticks, log.String())
			}
			// the retry must not have touched the decoys either
			for _, d := range decoys {
				if v, e := servers[d.node].Get(d.key); e != nil || v != "decoy" {
					fatalf("the retried delete removed key %q from node #%d, which does not own it; %s", d.key, d.node, log.String())
				}
			}
		}
		// non-trivial: the node that is down owns some of the keys and a healthy node owns others
		if downOwns > 0 && len(ownersHit) >= 2 {
			st.NonTrivial(log.String())
		}
	})
}
