//go:build verif

// C15, unit rings-independent — several ConsistentHash rings alive in one process.
//
// A rapid state machine drives 2–3 rings per case, each built by its own drawn
// constructor (NewConsistentHash, or NewCustomConsistentHash with a drawn replica count
// and a drawn hash function), over the node universe of the `ring` unit, so that the
// rings hold nodes with the same names.  Every operation goes to one drawn ring.  After
// every operation
//
//	(1)–(3) the three oracles of the `ring` unit are evaluated on the operated ring
//	        (membership, history independence against two rings built from scratch by the
//	        same constructor, minimal disruption), and
//	(4)     every other ring must still answer every probe as it did before: its node set
//	        did not change, and "the mapping of keys to nodes depends only on the current
//	        set of nodes and their replica counts".
//
// One of the hash functions has a range of only 997 values, so that different virtual
// nodes share a point of the ring all the time.  The statement makes no exception for
// such collisions and none of the oracles needs one: what sits on a point is a function of
// the member set and the replica counts, an operation on node x changes the content of a
// point only by x, so whichever rule picks inside a point, a correct ring keeps (1)–(3).
package hash_test

import (
	"fmt"
	"hash/crc64"
	"hash/fnv"
	"sort"
	"strings"
	"testing"

	"github.com/zeromicro/go-zero/core/hash"
	"github.com/zeromicro/go-zero/internal/verifkit"
	"pgregory.net/rapid"
)

// ------------------------------------------------------------------ constructors

type c15xFn struct {
	name  string // the function (canonical; nil and hash.Hash are both "murmur3")
	label string // how it is handed to the constructor
	fn    hash.Func
}

var c15xCrcTable = crc64.MakeTable(crc64.ECMA)

func c15xFnv1a(data []byte) uint64 {
	h := fnv.New64a()
	h.Write(data)
	return h.Sum64()
}

func c15xFuncs(smallMod uint64, withSmall bool) []c15xFn {
	fns := []c15xFn{
		{"murmur3", "hash.Hash", hash.Hash},
		{"fnv1a64", "fnv1a64", c15xFnv1a},
		{"crc64", "crc64-ecma", func(data []byte) uint64 { return crc64.Checksum(data, c15xCrcTable) }},
	}
	fns = append(fns, c15xFn{"murmur3", "murmur3-wiping-its-input", c15WipingHash})
	if withSmall {
		name := fmt.Sprintf("fnv1a64%%%d", smallMod)
		fns = append(fns, c15xFn{name, name, func(data []byte) uint64 { return c15xFnv1a(data) % smallMod }})
	}
	// nil (= the package default) last and only once, so that murmur3 does not dominate
	return append(fns, c15xFn{"murmur3", "nil", nil})
}

// c15xSpec is one drawn constructor.  lo and hi are the two admissible readings of the
// ring's replica count R: the constructor is documented as "returns a ConsistentHash with
// given replicas", the code raises a count below 100 to 100 without saying so.  For
// requested counts >= 100 (and for NewConsistentHash, R = 100) both readings coincide.
type c15xSpec struct {
	name   string
	req    int // requested replica count (100 for NewConsistentHash)
	lo, hi int
	fn     c15xFn
	mk     func() *hash.ConsistentHash
}

func c15xDrawSpec(t *rapid.T, label string, fns []c15xFn) c15xSpec {
	if rapid.IntRange(0, 7).Draw(t, label+".ctor") == 0 {
		return c15xSpec{name: "default", req: 100, lo: 100, hi: 100, fn: fns[0],
			mk: func() *hash.ConsistentHash { return hash.NewConsistentHash() }}
	}
	req := rapid.SampledFrom([]int{1, 5, 100, 150, 400}).Draw(t, label+".replicas")
	// rapid favours small values; taking a wide draw modulo the length spreads the functions
	f := fns[rapid.IntRange(0, 9999).Draw(t, label+".fn")%len(fns)]
	hi := req
	if hi < 100 {
		hi = 100
	}
	return c15xSpec{name: fmt.Sprintf("custom(%d,%s)", req, f.label), req: req, lo: req, hi: hi, fn: f,
		mk: func() *hash.ConsistentHash { return hash.NewCustomConsistentHash(req, f.fn) }}
}

func (s c15xSpec) differs(o c15xSpec) bool { return s.fn.name != o.fn.name || s.req != o.req }

// ------------------------------------------------------------------ model of one ring

type c15xMember struct {
	last   c15Op // the call that currently defines the node
	lo, hi int   // virtual nodes it asks for under the two readings of R
	exact  bool  // both readings agree and are free of rounding ambiguity
}

// zero: the call asks for no virtual node whatever R is.
func (m *c15xMember) zero() bool { return m.last.kind != "add" && m.last.arg <= 0 }

// positive: the call asks for at least one virtual node under both readings of R.
func (m *c15xMember) positive() bool { return m.lo > 0 && m.hi > 0 }

type c15xRing struct {
	id      string
	spec    c15xSpec
	ch      *hash.ConsistentHash
	members map[string]*c15xMember
	snap    []string // answers to the probes after the last operation on this ring
}

func (r *c15xRing) sorted() []string {
	rs := make([]string, 0, len(r.members))
	for x := range r.members {
		rs = append(rs, x)
	}
	sort.Strings(rs)
	return rs
}

func (r *c15xRing) member(op c15Op) *c15xMember {
	lo, exLo := op.effective(r.spec.lo)
	hi, exHi := op.effective(r.spec.hi)
	return &c15xMember{last: op, lo: lo, hi: hi, exact: exLo && exHi && lo == hi}
}

// c15xCommon returns the names ring k has in common with a ring built differently.
func c15xCommon(rings []*c15xRing, k int) (withAny, withDifferent int) {
	for j, o := range rings {
		if j == k {
			continue
		}
		for x := range rings[k].members {
			if _, ok := o.members[x]; ok {
				withAny++
				if o.spec.differs(rings[k].spec) {
					withDifferent++
				}
			}
		}
	}
	return
}

// ------------------------------------------------------------------ the state machine

func TestVerifC15RingsIndependent(t *testing.T) {
	st := verifkit.New("rings-independent")
	defer st.Flush()
	knownD5 := verifkit.KnownFindings("C15")["D5"]
	nprobes := verifkit.EnvInt("probes", 300)
	maxNodes := verifkit.EnvInt("maxnodes", 6)
	smallMod := uint64(verifkit.EnvInt("smallmod", 997))
	probes := c15Probes(nprobes)
	fns := c15xFuncs(smallMod, !knownD5)
	// A failure caused by state that rings share inside the process cannot be replayed by
	// rapid (it reports "flaky test"); the message of the first failure is printed then.
	firstFail := ""
	fail := func(t *rapid.T, format string, a ...any) {
		msg := fmt.Sprintf(format, a...)
		if firstFail == "" {
			firstFail = msg
		}
		t.Fatalf("%s", msg)
	}
	defer func() {
		if t.Failed() && firstFail != "" {
			t.Logf("first failure message: %s", firstFail)
		}
	}()
	if knownD5 {
		st.Note("D5 is listed as known: node sets matching its signature are excluded by construction and the small-range hash function (which produces the same situation through hash collisions) is not drawn")
	}

	rapid.Check(t, func(t *rapid.T) {
		st.Eval()
		n := rapid.IntRange(2, 3).Draw(t, "rings")
		rings := make([]*c15xRing, n)
		var logb strings.Builder
		logb.WriteString("rings")
		funcs := map[string]bool{}
		small := false
		for k := range rings {
			id := string(rune('A' + k))
			spec := c15xDrawSpec(t, id, fns)
			rings[k] = &c15xRing{id: id, spec: spec, ch: spec.mk(), members: map[string]*c15xMember{}}
			fmt.Fprintf(&logb, " %s=%s", id, spec.name)
			funcs[spec.fn.name] = true
			small = small || spec.lo != spec.hi
		}
		logb.WriteString(":")
		family := rapid.SampledFrom(c15Families).Draw(t, "family")
		nontrivial, sawShared, sawSharedDiff, sawTwinOp, sawForeignChange := false, false, false, false, false

		for _, rg := range rings {
			s, err := c15Snapshot(rg.ch, probes)
			if err != nil {
				fail(t, "%v; %s", err, logb.String())
			}
			for i, b := range s {
				if b != c15None {
					fail(t, "empty ring %s: Get(%v) returned node %q; %s", rg.id, probes[i], b, logb.String())
				}
			}
			rg.snap = s
		}

		alt := func(t *rapid.T, n c15Node) c15Node {
			// sometimes another value with the same representation
			if rapid.IntRange(0, 5).Draw(t, "sameRepr") != 0 {
				return n
			}
			var alts []c15Node
			for _, u := range c15Universe {
				if u.repr == n.repr {
					alts = append(alts, u)
				}
			}
			return rapid.SampledFrom(alts).Draw(t, "alt")
		}

		// pickNode draws the node an operation on ring k works on: a member of that ring
		// (removal, re-adding), a node that another ring holds (a foreign twin), or a node of
		// the universe (half of them from the case's family of related names).
		pickNode := func(t *rapid.T, k int, wantMember, adding bool) c15Node {
			rg := rings[k]
			rs := rg.sorted()
			if len(rs) > 0 && (wantMember && rapid.IntRange(0, 9).Draw(t, "memberBias") < 8 || adding && len(rs) >= maxNodes) {
				return alt(t, rg.members[rapid.SampledFrom(rs).Draw(t, "member")].last.node)
			}
			collides := func(repr string) bool {
				for r := range rg.members {
					if c15Collide(r, repr, rg.spec.hi) {
						return true
					}
				}
				return false
			}
			var foreign []c15Node
			seen := map[string]bool{}
			for j, o := range rings {
				if j == k {
					continue
				}
				for _, x := range o.sorted() {
					if _, mine := rg.members[x]; !mine && !seen[x] && !(adding && knownD5 && collides(x)) {
						seen[x] = true
						foreign = append(foreign, o.members[x].last.node)
					}
				}
			}
			if len(foreign) > 0 && rapid.IntRange(0, 9).Draw(t, "twinBias") < 5 {
				sort.Slice(foreign, func(a, b int) bool { return foreign[a].repr < foreign[b].repr })
				return alt(t, rapid.SampledFrom(foreign).Draw(t, "twin"))
			}
			var idx int
			if rapid.Bool().Draw(t, "fromFamily") {
				idx = rapid.SampledFrom(family).Draw(t, "node")
			} else {
				idx = rapid.IntRange(0, len(c15Universe)-1).Draw(t, "node")
			}
			nd := c15Universe[idx]
			if adding && knownD5 && collides(nd.repr) {
				st.Excluded()
				st.Class("excluded-D5-collision")
				for d := 1; d < len(c15Universe); d++ {
					c := c15Universe[(idx+d)%len(c15Universe)]
					if !collides(c.repr) {
						return c
					}
				}
				t.Skip("no collision-free node left")
			}
			return nd
		}

		step := func(t *rapid.T, k int, op c15Op) {
			rg := rings[k]
			x := op.node.repr
			fmt.Fprintf(&logb, " %s.%v", rg.id, op)
			st.Class("op:" + op.kind)
			for j, o := range rings {
				if _, ok := o.members[x]; ok && j != k {
					st.Class("ops-on-ring-with-foreign-twin")
					sawTwinOp = true
					break
				}
			}
			_, diffBefore := c15xCommon(rings, k)

			op.apply(rg.ch)
			if op.kind == "remove" {
				delete(rg.members, x)
			} else {
				rg.members[x] = rg.member(op)
			}
			rs := rg.sorted()
			positive, possible := 0, 0
			for _, r := range rs {
				if rg.members[r].positive() {
					positive++
				}
				if !rg.members[r].zero() {
					possible++
				}
			}
			anyCommon, diffAfter := c15xCommon(rings, k)
			if anyCommon > 0 {
				sawShared = true
			}
			if diffAfter > 0 {
				sawSharedDiff = true
			}

			// (4) independence: no other ring was operated, so each of them holds the set of
			// nodes and replica counts it held before, and "the mapping of keys to nodes depends
			// only on the current set of nodes and their replica counts".
			for j, o := range rings {
				if j == k {
					continue
				}
				s, err := c15Snapshot(o.ch, probes)
				if err != nil {
					fail(t, "ring %s after %s.%v: %v; %s", o.id, rg.id, op, err, logb.String())
				}
				if d := c15Diff(o.snap, s, probes); d != "" {
					fail(t, "independence: %s.%v changed the answers of ring %s (%s, members %q), which was not operated: %s; %s",
						rg.id, op, o.id, o.spec.name, o.sorted(), d, logb.String())
				}
			}

			before := rg.snap
			after, err := c15Snapshot(rg.ch, probes)
			if err != nil {
				fail(t, "ring %s: %v; %s", rg.id, err, logb.String())
			}

			// (1) membership: "Get always returns one of the nodes currently in the ring (and
			// none when the ring is empty) ... a removed node is never returned"
			for i, a := range after {
				if a == c15None {
					if positive > 0 {
						fail(t, "membership: %s.Get(%v) found no node although %d nodes with replicas are in ring %s (%s, members %q); %s",
							rg.id, probes[i], positive, rg.id, rg.spec.name, rs, logb.String())
					}
					continue
				}
				m, ok := rg.members[a]
				if !ok {
					fail(t, "membership: %s.Get(%v) returned %q, which is not in ring %s (%s, members %q); %s",
						rg.id, probes[i], a, rg.id, rg.spec.name, rs, logb.String())
				}
				if m.zero() {
					fail(t, "membership: %s.Get(%v) returned %q, which was last added with zero replicas; %s", rg.id, probes[i], a, logb.String())
				}
			}

			// (3) minimal disruption: a probe whose assignment changed has the operated node
			// on one side (see the `ring` unit).
			changed := 0
			for i := range after {
				if before[i] == after[i] {
					continue
				}
				changed++
				if before[i] != x && after[i] != x {
					fail(t, "disruption: %s.%v moved probe %v from %q to %q, neither is the operated node %q (ring %s); %s",
						rg.id, op, probes[i], before[i], after[i], x, rg.spec.name, logb.String())
				}
			}
			if changed > 0 {
				st.Class("op-changed-probes")
				if diffBefore > 0 || diffAfter > 0 {
					nontrivial = true
					st.Class("op-changed-probes-on-ring-sharing-names")
				}
				if possible >= 2 && rg.spec.fn.name != "murmur3" {
					sawForeignChange = true
				}
			}

			// (2) history independence, against rings built from scratch with the same
			// constructor arguments: the defining call of every member in sorted order, and a
			// drawn order with the replica count given directly where both readings of R and
			// the documented arithmetic leave no doubt about it.
			freshA := rg.spec.mk()
			for _, r := range rs {
				rg.members[r].last.apply(freshA)
			}
			snapA, err := c15Snapshot(freshA, probes)
			if err != nil {
				fail(t, "fresh ring: %v; %s", err, logb.String())
			}
			if d := c15Diff(after, snapA, probes); d != "" {
				fail(t, "history dependence: ring %s (%s) after the history vs a fresh %s with the same members added in sorted order %q: %s; %s",
					rg.id, rg.spec.name, rg.spec.name, rs, d, logb.String())
			}
			if len(rs) > 0 {
				perm := rapid.Permutation(rs).Draw(t, "freshOrder")
				freshB := rg.spec.mk()
				desc := make([]string, 0, len(perm))
				for _, r := range perm {
					m := rg.members[r]
					if m.exact {
						freshB.AddWithReplicas(m.last.node.val, m.lo)
						desc = append(desc, fmt.Sprintf("%q x%d", r, m.lo))
					} else {
						m.last.apply(freshB)
						desc = append(desc, m.last.String())
					}
				}
				snapB, err := c15Snapshot(freshB, probes)
				if err != nil {
					fail(t, "fresh ring: %v; %s", err, logb.String())
				}
				if d := c15Diff(after, snapB, probes); d != "" {
					fail(t, "history dependence: ring %s (%s) after the history vs a fresh %s built in order %v: %s; %s",
						rg.id, rg.spec.name, rg.spec.name, desc, d, logb.String())
				}
			}
			rg.snap = after
		}

		ring := func(t *rapid.T) int { return rapid.IntRange(0, n-1).Draw(t, "on") }
		t.Repeat(map[string]func(*rapid.T){
			"add": func(t *rapid.T) {
				k := ring(t)
				step(t, k, c15Op{kind: "add", node: pickNode(t, k, false, true)})
			},
			"addReplicas": func(t *rapid.T) {
				k := ring(t)
				R := rings[k].spec.hi
				nd := pickNode(t, k, rapid.Bool().Draw(t, "readd"), true)
				var r int
				if rapid.Bool().Draw(t, "edge") {
					r = rapid.SampledFrom([]int{0, 1, 2, 5, 10, 11, R - 1, R, R + 1, 2 * R, 300, -1}).Draw(t, "replicas")
				} else {
					r = rapid.IntRange(0, 300).Draw(t, "replicas")
				}
				step(t, k, c15Op{kind: "replicas", node: nd, arg: r})
			},
			"addWeight": func(t *rapid.T) {
				k := ring(t)
				nd := pickNode(t, k, rapid.Bool().Draw(t, "readd"), true)
				var w int
				if rapid.Bool().Draw(t, "edge") {
					w = rapid.SampledFrom([]int{0, 1, 10, 50, 99, 100, 101, 150, -5}).Draw(t, "weight")
				} else {
					w = rapid.IntRange(0, 150).Draw(t, "weight")
				}
				step(t, k, c15Op{kind: "weight", node: nd, arg: w})
			},
			"remove": func(t *rapid.T) {
				k := ring(t)
				step(t, k, c15Op{kind: "remove", node: pickNode(t, k, true, false)})
			},
		})

		st.Class(fmt.Sprintf("rings=%d", n))
		st.Class(fmt.Sprintf("distinct-hash-funcs=%d", len(funcs)))
		for f := range funcs {
			st.Class("case:fn=" + f)
		}
		if sawShared {
			st.Class("shared-node-names")
		}
		if sawSharedDiff {
			st.Class("shared-node-names:rings-built-differently")
		}
		if sawTwinOp {
			st.Class("case:op-on-node-with-foreign-twin")
		}
		if small {
			st.Class("case:requested-replicas-below-100")
		}
		if sawForeignChange {
			st.Class("case:op-changed-probes-on-non-default-hash")
		}
		if nontrivial {
			st.NonTrivial(logb.String())
		}
	})
}
