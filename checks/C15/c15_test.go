//go:build verif

// C15 — consistent hashing: deterministic, member-only, minimally disruptive.
//
// A rapid state machine drives one ConsistentHash through Add / AddWithReplicas /
// AddWithWeight / Remove over a node universe in which prefix/digit-suffix relations
// between node representations are common, and after every operation compares the
// assignment of a fixed probe-key set
//
//	(1) with the model's member set                       (membership),
//	(2) with two rings built from scratch in other orders (history independence),
//	(3) with the assignment before the operation          (minimal disruption).
//
// The oracles are written from the property statement; the only knowledge taken from
// the documentation of the package is how many virtual nodes a call asks for
// (Add: the ring's replica count R; AddWithReplicas(r): r truncated to R;
// AddWithWeight(w): w percent of R) and that the default ring has R = 100.
package hash_test

import (
	"fmt"
	"sort"
	"strconv"
	"strings"
	"testing"

	"github.com/zeromicro/go-zero/core/hash"
	"github.com/zeromicro/go-zero/internal/verifkit"
	"pgregory.net/rapid"
)

// ------------------------------------------------------------------ node universe

// c15Addr is a Stringer with a pointer receiver (like a connection object keyed by address).
type c15Addr struct {
	addr string
	id   int
}

func (n *c15Addr) String() string { return n.addr }

// c15Val is a Stringer with a value receiver.
type c15Val string

func (v c15Val) String() string { return "v" + string(v) }

type c15Node struct {
	val  any
	repr string // what the node is known as (decimal number, the string, String())
}

func (n c15Node) String() string { return fmt.Sprintf("%T(%q)", n.val, n.repr) }

// package-level initialisation (not init()) so that the regression tables below can use it
var c15Universe, c15ReprOf = c15MakeUniverse()

func c15MakeUniverse() (c15Universe []c15Node, c15ReprOf map[any]string) {
	c15ReprOf = map[any]string{}
	add := func(v any, repr string) {
		c15Universe = append(c15Universe, c15Node{v, repr})
		c15ReprOf[v] = repr
	}
	for i := 0; i <= 30; i++ {
		add(i, strconv.Itoa(i))
	}
	add(110, "110")
	add(111, "111")
	add(int64(7), "7")
	add(uint16(11), "11")
	add(int8(-1), "-1")
	add(1.5, "1.5")
	add(1.51, "1.51")
	for _, s := range []string{"", "1", "12", "n1", "n11", "n111", "n12", "n2", "n21",
		"10.0.0.1", "10.0.0.11", "10.0.0.12", "10.0.0.2", "10.0.0.1:6379", "10.0.0.1:63791",
		"localhost:1", "localhost:11", "localhost:2", "a", "b", "c", "redis-a", "redis-b",
		"cache/0", "cache/1", "node", "node1"} {
		add(s, s)
	}
	add(&c15Addr{"n1", 1}, "n1")
	add(&c15Addr{"s2", 2}, "s2")
	add(&c15Addr{"s2", 3}, "s2")
	add(&c15Addr{"s21", 4}, "s21")
	add(&c15Addr{"10.0.0.1", 5}, "10.0.0.1")
	add(c15Val("3"), "v3")
	add(c15Val("31"), "v31")
	add(c15Val("x"), "vx")
	return
}

// c15Families groups representations related by digit suffixes; a case concentrates on
// one family so that members naming the same virtual node (also three at once, which
// needs a replica count above 110) are common.
var c15Families = func() [][]int {
	fams := [][]string{
		{"", "1", "11", "111", "110", "12", "7"},
		{"1", "11", "111", "10", "12", "2", "21"},
		{"n1", "n11", "n111", "n12", "n2", "n21"},
		{"10.0.0.1", "10.0.0.11", "10.0.0.12", "10.0.0.2", "10.0.0.1:6379", "10.0.0.1:63791"},
		{"2", "20", "21", "22", "25", "29", "3", "30"},
		{"1.5", "1.51", "s2", "s21", "v3", "v31", "node", "node1", "localhost:1", "localhost:11"},
	}
	out := make([][]int, len(fams))
	for k, f := range fams {
		for _, r := range f {
			for i, u := range c15Universe {
				if u.repr == r {
					out[k] = append(out[k], i)
				}
			}
		}
	}
	return out
}()

// c15SharedNames counts the virtual-node names two different representations have in
// common: pairs i < na, j < nb with a+itoa(i) == b+itoa(j).
func c15SharedNames(a string, na int, b string, nb int) int {
	if a == b {
		return 0
	}
	if len(a) > len(b) {
		a, b, na, nb = b, a, nb, na
	}
	if !strings.HasPrefix(b, a) {
		return 0
	}
	d := b[len(a):]
	n := 0
	for j := 0; j < nb; j++ {
		s := d + strconv.Itoa(j)
		i, err := strconv.Atoi(s)
		if err == nil && i >= 0 && i < na && strconv.Itoa(i) == s {
			n++
		}
	}
	return n
}

// c15Collide is the signature of finding D5: two different representations a, b such
// that a+itoa(i) == b+itoa(j) for some i, j below the ring's replica count R, i.e. the
// two nodes can name the same virtual node.
func c15Collide(a, b string, R int) bool {
	return c15SharedNames(a, R, b, R) > 0
}

// ------------------------------------------------------------------ probes

func c15Probes(n int) []any {
	ps := make([]any, 0, n)
	special := []any{"", "a", "key", 0, -1, int64(1) << 40, 3.25, c15Val("probe"), &c15Addr{"probe", 0}, "10.0.0.1", "n1"}
	for _, s := range special {
		if len(ps) < n {
			ps = append(ps, s)
		}
	}
	for i := 0; len(ps) < n; i++ {
		if i%2 == 0 {
			ps = append(ps, 1000+i)
		} else {
			ps = append(ps, "user:"+strconv.Itoa(i)+":profile")
		}
	}
	return ps
}

const c15None = "\x00none"

// c15Snapshot returns, per probe, the representation of the node Get returned
// (c15None when Get reported no node).
func c15Snapshot(ch *hash.ConsistentHash, probes []any) ([]string, error) {
	out := make([]string, len(probes))
	for i, p := range probes {
		v, ok := ch.Get(p)
		if !ok {
			if v != nil {
				return nil, fmt.Errorf("Get(%v) = (%v, false): a node together with ok=false", p, v)
			}
			out[i] = c15None
			continue
		}
		r, known := c15ReprOf[v]
		if !known {
			return nil, fmt.Errorf("Get(%v) returned %T(%v), which was never added", p, v, v)
		}
		out[i] = r
	}
	return out, nil
}

// ------------------------------------------------------------------ model

type c15Op struct {
	kind string // add | replicas | weight | remove
	node c15Node
	arg  int
}

func (o c15Op) String() string {
	switch o.kind {
	case "add":
		return fmt.Sprintf("Add(%v)", o.node)
	case "replicas":
		return fmt.Sprintf("AddWithReplicas(%v,%d)", o.node, o.arg)
	case "weight":
		return fmt.Sprintf("AddWithWeight(%v,%d)", o.node, o.arg)
	default:
		return fmt.Sprintf("Remove(%v)", o.node)
	}
}

func (o c15Op) apply(ch *hash.ConsistentHash) {
	switch o.kind {
	case "add":
		ch.Add(o.node.val)
	case "replicas":
		ch.AddWithReplicas(o.node.val, o.arg)
	case "weight":
		ch.AddWithWeight(o.node.val, o.arg)
	default:
		ch.Remove(o.node.val)
	}
}

// effective returns the number of virtual nodes the call asks for on a ring with
// replica count R, and whether that number is free of rounding ambiguity.
func (o c15Op) effective(R int) (eff int, exact bool) {
	clamp := func(x int) int {
		if x < 0 {
			return 0
		}
		if x > R {
			return R
		}
		return x
	}
	switch o.kind {
	case "add":
		return R, true
	case "replicas":
		return clamp(o.arg), true
	case "weight":
		return clamp(R * o.arg / 100), o.arg <= 0 || o.arg >= 100 || (R*o.arg)%100 == 0
	}
	return 0, true
}

type c15Member struct {
	last c15Op // the call that currently defines the node
	eff  int
}

type c15Ring struct {
	name string
	R    int
	mk   func() *hash.ConsistentHash
}

var c15Rings = []c15Ring{
	{"default", 100, func() *hash.ConsistentHash { return hash.NewConsistentHash() }},
	{"custom(100)", 100, func() *hash.ConsistentHash { return hash.NewCustomConsistentHash(100, hash.Hash) }},
	{"custom(150)", 150, func() *hash.ConsistentHash { return hash.NewCustomConsistentHash(150, nil) }},
	{"custom(400)", 400, func() *hash.ConsistentHash { return hash.NewCustomConsistentHash(400, hash.Hash) }},
	// a caller's hash function may do what it likes with the bytes it is handed (hash.Func documents
	// no restriction): this one wipes its input after hashing it, so a ring that lends the same buffer
	// to several calls, or goes on using it, reads zeroes
	{"custom(100,wiping)", 100, func() *hash.ConsistentHash { return hash.NewCustomConsistentHash(100, c15WipingHash) }},
}

func c15WipingHash(data []byte) uint64 {
	h := hash.Hash(data)
	for i := range data {
		data[i] = 0
	}
	return h
}

func c15SortedReprs(m map[string]*c15Member) []string {
	rs := make([]string, 0, len(m))
	for r := range m {
		rs = append(rs, r)
	}
	sort.Strings(rs)
	return rs
}

func c15Diff(a, b []string, probes []any) string {
	n := 0
	first := ""
	for i := range a {
		if a[i] != b[i] {
			if n == 0 {
				first = fmt.Sprintf("probe %v: %q vs %q", probes[i], a[i], b[i])
			}
			n++
		}
	}
	if n == 0 {
		return ""
	}
	return fmt.Sprintf("%d of %d probes differ, first %s", n, len(a), first)
}

// ------------------------------------------------------------------ the state machine

func TestVerifC15Ring(t *testing.T) {
	st := verifkit.New("ring")
	defer st.Flush()
	knownD5 := verifkit.KnownFindings("C15")["D5"]
	nprobes := verifkit.EnvInt("probes", 600)
	maxNodes := verifkit.EnvInt("maxnodes", 8)
	probes := c15Probes(nprobes)
	if knownD5 {
		st.Note("D5 is listed as known: node sets matching its signature (two members whose repr+itoa(i) coincide for i below the replica count) are excluded by construction")
	}

	rapid.Check(t, func(t *rapid.T) {
		st.Eval()
		rk := rapid.SampledFrom(c15Rings).Draw(t, "ring")
		R := rk.R
		ch := rk.mk()
		family := rapid.SampledFrom(c15Families).Draw(t, "family")
		members := map[string]*c15Member{}
		var logb strings.Builder
		fmt.Fprintf(&logb, "ring=%s:", rk.name)
		nontrivial, sawCollision, sawZero, sawReplace, sawShared, sawShared3 := false, false, false, false, false, false

		before, err := c15Snapshot(ch, probes)
		if err != nil {
			t.Fatalf("%v; history %s", err, logb.String())
		}
		for i, b := range before {
			if b != c15None {
				t.Fatalf("empty ring: Get(%v) returned node %q", probes[i], b)
			}
		}

		collidesWithMembers := func(repr string) bool {
			for r := range members {
				if c15Collide(r, repr, R) {
					return true
				}
			}
			return false
		}

		// pickNode draws the node an operation works on.  wantMember biases towards
		// nodes that are in the ring (removal, re-adding with another count).
		pickNode := func(t *rapid.T, wantMember bool, adding bool) c15Node {
			rs := c15SortedReprs(members)
			var n c15Node
			fromMembers := len(rs) > 0 && (wantMember && rapid.IntRange(0, 9).Draw(t, "memberBias") < 8 ||
				adding && len(rs) >= maxNodes)
			if fromMembers {
				n = members[rapid.SampledFrom(rs).Draw(t, "member")].last.node
				// sometimes another value with the same representation
				if rapid.IntRange(0, 5).Draw(t, "sameRepr") == 0 {
					var alts []c15Node
					for _, u := range c15Universe {
						if u.repr == n.repr {
							alts = append(alts, u)
						}
					}
					n = rapid.SampledFrom(alts).Draw(t, "alt")
				}
				return n
			}
			var idx int
			if rapid.Bool().Draw(t, "fromFamily") {
				idx = rapid.SampledFrom(family).Draw(t, "node")
			} else {
				idx = rapid.IntRange(0, len(c15Universe)-1).Draw(t, "node")
			}
			n = c15Universe[idx]
			if adding && knownD5 && collidesWithMembers(n.repr) {
				// known finding D5: this node would share a virtual node with a member
				st.Excluded()
				st.Class("excluded-D5-collision")
				for k := 1; k < len(c15Universe); k++ {
					c := c15Universe[(idx+k)%len(c15Universe)]
					if !collidesWithMembers(c.repr) {
						return c
					}
				}
				t.Skip("no collision-free node left") // cannot happen with this universe
			}
			return n
		}

		step := func(t *rapid.T, op c15Op) {
			x := op.node.repr
			fmt.Fprintf(&logb, " %v", op)
			st.Class("op:" + op.kind)
			if prev, ok := members[x]; ok && op.kind != "remove" && prev.last.node.val != op.node.val {
				sawReplace = true
			}
			op.apply(ch)
			if op.kind == "remove" {
				delete(members, x)
			} else {
				eff, _ := op.effective(R)
				members[x] = &c15Member{last: op, eff: eff}
				if eff == 0 {
					sawZero = true
				}
			}
			rs := c15SortedReprs(members)
			live := 0
			for _, r := range rs {
				if members[r].eff > 0 {
					live++
				}
			}
			for i := 0; i < len(rs) && !sawCollision; i++ {
				for j := i + 1; j < len(rs); j++ {
					if c15Collide(rs[i], rs[j], R) {
						sawCollision = true
						break
					}
				}
			}

			// virtual nodes really owned by two (three) members at this moment
			for i := 0; i < len(rs); i++ {
				with := 0
				for j := 0; j < len(rs); j++ {
					if c15SharedNames(rs[i], members[rs[i]].eff, rs[j], members[rs[j]].eff) > 0 {
						with++
					}
				}
				if with >= 1 {
					sawShared = true
				}
			}
			if sawShared && !sawShared3 && R > 110 {
				owners := map[string]int{}
				for _, r := range rs {
					for i := 0; i < members[r].eff; i++ {
						name := r + strconv.Itoa(i)
						owners[name]++
						if owners[name] >= 3 {
							sawShared3 = true
						}
					}
				}
			}

			after, err := c15Snapshot(ch, probes)
			if err != nil {
				t.Fatalf("%v; history %s", err, logb.String())
			}

			// (1) membership: "Get always returns one of the nodes currently in the ring
			// (and none when the ring is empty) ... a removed node is never returned"
			for i, a := range after {
				if a == c15None {
					if live > 0 {
						t.Fatalf("membership: Get(%v) found no node although %d nodes with replicas are in the ring; history %s", probes[i], live, logb.String())
					}
					continue
				}
				m, ok := members[a]
				if !ok {
					t.Fatalf("membership: Get(%v) returned %q, which is not in the ring (members %v); history %s", probes[i], a, rs, logb.String())
				}
				if m.eff == 0 {
					t.Fatalf("membership: Get(%v) returned %q, which was last added with zero replicas; history %s", probes[i], a, logb.String())
				}
			}

			// (3) minimal disruption: "Adding a new node changes the assignment only of keys
			// that move to it, removing a node changes the assignment only of keys that were
			// assigned to it, and re-adding a node with a different replica count or weight
			// only moves keys to or from that node."  With (1) these three clauses are the
			// single rule: a probe whose assignment changed has the operated node on one side.
			changed := 0
			for i := range after {
				if before[i] == after[i] {
					continue
				}
				changed++
				if before[i] != x && after[i] != x {
					t.Fatalf("disruption: %v moved probe %v from %q to %q, neither is the operated node %q; history %s",
						op, probes[i], before[i], after[i], x, logb.String())
				}
			}
			if changed > 0 {
				st.Class("op-changed-probes")
				if live >= 2 {
					nontrivial = true
				}
			}

			// (2) history independence: "the mapping of keys to nodes depends only on the
			// current set of nodes and their replica counts, not on the order in which nodes
			// were added or removed".  Ring A: the defining call of every member, replayed in
			// sorted order.  Ring B: a drawn order, and the replica count given directly
			// (AddWithReplicas) where the documented count is free of rounding ambiguity.
			freshA := rk.mk()
			for _, r := range rs {
				members[r].last.apply(freshA)
			}
			snapA, err := c15Snapshot(freshA, probes)
			if err != nil {
				t.Fatalf("fresh ring: %v; history %s", err, logb.String())
			}
			if d := c15Diff(after, snapA, probes); d != "" {
				t.Fatalf("history dependence: ring after the history vs a fresh ring with the same members added in sorted order %v: %s; history %s",
					rs, d, logb.String())
			}
			if len(rs) > 0 {
				perm := rapid.Permutation(rs).Draw(t, "freshOrder")
				freshB := rk.mk()
				for _, r := range perm {
					m := members[r]
					if _, exact := m.last.effective(R); exact {
						freshB.AddWithReplicas(m.last.node.val, m.eff)
					} else {
						m.last.apply(freshB)
					}
				}
				snapB, err := c15Snapshot(freshB, probes)
				if err != nil {
					t.Fatalf("fresh ring: %v; history %s", err, logb.String())
				}
				if d := c15Diff(after, snapB, probes); d != "" {
					effs := make([]string, 0, len(perm))
					for _, r := range perm {
						effs = append(effs, fmt.Sprintf("%q x%d", r, members[r].eff))
					}
					t.Fatalf("history dependence: ring after the history vs a fresh ring built by AddWithReplicas in order %v: %s; history %s",
						effs, d, logb.String())
				}
			}
			before = after
		}

		t.Repeat(map[string]func(*rapid.T){
			"add": func(t *rapid.T) {
				step(t, c15Op{kind: "add", node: pickNode(t, false, true)})
			},
			"addReplicas": func(t *rapid.T) {
				n := pickNode(t, rapid.Bool().Draw(t, "readd"), true)
				var r int
				if rapid.Bool().Draw(t, "edge") {
					r = rapid.SampledFrom([]int{0, 1, 2, 5, 10, 11, R - 1, R, R + 1, 2 * R, 300, -1}).Draw(t, "replicas")
				} else {
					r = rapid.IntRange(0, 300).Draw(t, "replicas")
				}
				step(t, c15Op{kind: "replicas", node: n, arg: r})
			},
			"addWeight": func(t *rapid.T) {
				n := pickNode(t, rapid.Bool().Draw(t, "readd"), true)
				var w int
				if rapid.Bool().Draw(t, "edge") {
					w = rapid.SampledFrom([]int{0, 1, 10, 50, 99, 100, 101, 150, -5}).Draw(t, "weight")
				} else {
					w = rapid.IntRange(0, 150).Draw(t, "weight")
				}
				step(t, c15Op{kind: "weight", node: n, arg: w})
			},
			"remove": func(t *rapid.T) {
				step(t, c15Op{kind: "remove", node: pickNode(t, true, false)})
			},
		})

		if sawCollision {
			st.Class("case:members-match-D5-signature")
		}
		if sawShared {
			st.Class("case:virtual-node-owned-by-2-members")
		}
		if sawShared3 {
			st.Class("case:virtual-node-owned-by-3-members")
		}
		if sawZero {
			st.Class("case:zero-replica-member")
		}
		if sawReplace {
			st.Class("case:same-repr-other-value")
		}
		st.Class("case:ring=" + rk.name)
		if nontrivial {
			st.NonTrivial(logb.String())
		}
	})
}

// ------------------------------------------------------------------ regressions (finding D5)

// c15Build applies ops to a fresh ring with the default replica count.
func c15Build(ops ...c15Op) *hash.ConsistentHash {
	ch := hash.NewConsistentHash()
	for _, o := range ops {
		o.apply(ch)
	}
	return ch
}

func c15N(v any) c15Node {
	if r, ok := c15ReprOf[v]; ok {
		return c15Node{v, r}
	}
	panic(fmt.Sprintf("node %v not in universe", v))
}

type c15Regress struct {
	name   string
	clause string
	a, b   []c15Op // two histories with the same final member set and replica counts
}

var c15D5 = []c15Regress{
	{ // minimal input named in DESIGN §3 D5: "n1"+"10" == "n11"+"0"
		name:   "order",
		clause: "the mapping of keys to nodes depends only on the current set of nodes and their replica counts, not on the order in which nodes were added or removed",
		a:      []c15Op{{kind: "add", node: c15N("n11")}, {kind: "add", node: c15N("n1")}},
		b:      []c15Op{{kind: "add", node: c15N("n1")}, {kind: "add", node: c15N("n11")}},
	},
	{ // shrunk by rapid from TestVerifC15Ring (VERIF_SEED=1, first case): exactly one shared virtual node "110"
		name:   "order-shrunk",
		clause: "the mapping of keys to nodes depends only on the current set of nodes and their replica counts, not on the order in which nodes were added or removed",
		a:      []c15Op{{kind: "replicas", node: c15N(1), arg: 11}, {kind: "weight", node: c15N(11), arg: 1}},
		b:      []c15Op{{kind: "replicas", node: c15N(11), arg: 1}, {kind: "replicas", node: c15N(1), arg: 11}},
	},
	{ // shrunk by rapid at VERIF_SEED=1 after the universe got its families: "111"+"0" == "11"+"10"
		name:   "order-shrunk-2",
		clause: "the mapping of keys to nodes depends only on the current set of nodes and their replica counts, not on the order in which nodes were added or removed",
		a:      []c15Op{{kind: "replicas", node: c15N(111), arg: 1}, {kind: "add", node: c15N(11)}},
		b:      []c15Op{{kind: "add", node: c15N(11)}, {kind: "replicas", node: c15N(111), arg: 1}},
	},
	{ // Remove walks all R names of the node and drops the neighbour's virtual nodes "110".."119" from the sorted list
		name:   "remove-strips-neighbour",
		clause: "removing a node changes the assignment only of keys that were assigned to it",
		a: []c15Op{{kind: "add", node: c15N("b")}, {kind: "add", node: c15N(11)}, {kind: "replicas", node: c15N(1), arg: 5},
			{kind: "remove", node: c15N(1)}},
		b: []c15Op{{kind: "add", node: c15N("b")}, {kind: "add", node: c15N(11)}},
	},
	{ // same, the removed node never owned a virtual node at all
		name:   "zero-replica-node-removed",
		clause: "removing a node changes the assignment only of keys that were assigned to it",
		a: []c15Op{{kind: "add", node: c15N("b")}, {kind: "add", node: c15N(11)}, {kind: "replicas", node: c15N(1), arg: 0},
			{kind: "remove", node: c15N(1)}},
		b: []c15Op{{kind: "add", node: c15N("b")}, {kind: "add", node: c15N(11)}},
	},
	{ // re-adding with another count goes through Remove as well
		name:   "readd-strips-neighbour",
		clause: "re-adding a node with a different replica count or weight only moves keys to or from that node",
		a: []c15Op{{kind: "add", node: c15N("b")}, {kind: "add", node: c15N("n11")}, {kind: "replicas", node: c15N("n1"), arg: 3},
			{kind: "replicas", node: c15N("n1"), arg: 4}},
		b: []c15Op{{kind: "add", node: c15N("b")}, {kind: "add", node: c15N("n11")}, {kind: "replicas", node: c15N("n1"), arg: 4}},
	},
}

func (r c15Regress) run(probes []any) string {
	sa, err := c15Snapshot(c15Build(r.a...), probes)
	if err != nil {
		return err.Error()
	}
	sb, err := c15Snapshot(c15Build(r.b...), probes)
	if err != nil {
		return err.Error()
	}
	if d := c15Diff(sa, sb, probes); d != "" {
		return fmt.Sprintf("%v vs %v on a default ring: %s", r.a, r.b, d)
	}
	return ""
}

// TestVerifC15RegressD5 replays the shrunk inputs of finding D5 (virtual-node name
// collisions, e.g. "n1"+"10" == "n11"+"0").  While D5 is listed as known the first
// input is reported as KNOWN-FINDING instead of failing; once it is not listed, any of
// them failing is a violation.
func TestVerifC15RegressD5(t *testing.T) {
	st := verifkit.New("regress")
	defer st.Flush()
	known := verifkit.KnownFindings("C15")["D5"]
	probes := c15Probes(2000)
	reported := false
	for _, r := range c15D5 {
		st.Eval()
		st.Class("regress:" + r.name)
		st.Sample(fmt.Sprintf("%s: %v vs %v", r.name, r.a, r.b))
		d := r.run(probes)
		if d == "" {
			continue
		}
		st.NonTrivial("D5 " + r.name + " fails")
		if !known {
			t.Errorf("D5/%s: %s — violates %q", r.name, d, r.clause)
			continue
		}
		if !reported {
			reported = true
			st.KnownFinding("D5", "consistent hash: nodes whose repr+itoa(i) coincide share virtual nodes — "+d)
		} else {
			t.Logf("D5/%s (known): %s", r.name, d)
		}
	}
	if known && !reported {
		st.Note("D5 is listed as known but its minimal inputs pass on this tree")
	}
}

// TestVerifC15RegressSignature pins the collision predicate used as D5's signature.
func TestVerifC15RegressSignature(t *testing.T) {
	for _, c := range []struct {
		a, b string
		R    int
		want bool
	}{
		{"1", "11", 100, true}, {"n11", "n1", 100, true}, {"", "7", 100, true}, {"", "10", 100, false},
		{"", "10", 150, true}, {"1", "111", 100, false}, {"1", "111", 150, true}, {"1", "10", 100, false},
		{"2", "23", 400, true}, {"2", "240", 400, false}, {"a", "b", 400, false}, {"n1", "n2", 400, false},
		{"1.5", "1.51", 100, true}, {"s2", "s2", 100, false}, {"1", "1a", 400, false},
	} {
		if got := c15Collide(c.a, c.b, c.R); got != c.want {
			t.Errorf("c15Collide(%q,%q,%d)=%v want %v", c.a, c.b, c.R, got, c.want)
		}
		// brute force from the definition
		names := map[string]bool{}
		for i := 0; i < c.R; i++ {
			names[c.a+strconv.Itoa(i)] = true
		}
		brute := false
		for j := 0; j < c.R && c.a != c.b; j++ {
			if names[c.b+strconv.Itoa(j)] {
				brute = true
			}
		}
		if brute != c.want {
			t.Errorf("brute force (%q,%q,%d)=%v want %v", c.a, c.b, c.R, brute, c.want)
		}
	}
}
