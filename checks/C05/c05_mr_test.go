//go:build verif

package mr_test

import (
	"context"
	"fmt"
	"runtime"
	"sync/atomic"
	"testing"

	"github.com/zeromicro/go-zero/core/logx"
	"github.com/zeromicro/go-zero/core/mr"
	"github.com/zeromicro/go-zero/internal/verifkit"
	"pgregory.net/rapid"
)

// MapReduce worker counts: with WithWorkers(w) at most max(w,1) mapper invocations are inside the
// mapper at any instant (no option: the documented default of 16), for every entry point that takes
// options, and every item is mapped exactly once.  One case is a sequence of one to three calls
// with their own options — the cap of one call must not depend on an earlier call.
func TestVerifC05MrWorkers(t *testing.T) {
	logx.Disable()
	st := verifkit.New("mr-workers")
	defer st.Flush()
	rapid.Check(t, func(t *rapid.T) {
		st.Eval()
		ncalls := rapid.IntRange(1, 3).Draw(t, "calls")
		var descr []string
		nontrivial := false
		for c := 0; c < ncalls; c++ {
			items := rapid.IntRange(0, 80).Draw(t, "items")
			if rapid.IntRange(0, 5).Draw(t, "manyItems") == 0 {
				items = rapid.IntRange(81, 400).Draw(t, "itemsMany")
			}
			entry := rapid.SampledFrom([]string{"MapReduce", "MapReduceVoid", "MapReduceChan", "ForEach"}).Draw(t, "entry")
			var opts []mr.Option
			cap, od := 16, "default"
			switch rapid.IntRange(0, 4).Draw(t, "optKind") {
			case 0:
			default:
				w := rapid.IntRange(-1, 8).Draw(t, "workers")
				if rapid.IntRange(0, 9).Draw(t, "wide") == 0 {
					w = rapid.IntRange(17, 48).Draw(t, "wideWorkers")
				}
				cap = w
				if cap < 1 {
					cap = 1
				}
				opts, od = []mr.Option{mr.WithWorkers(w)}, fmt.Sprintf("workers(%d)", w)
			}
			if rapid.Bool().Draw(t, "withContext") {
				opts = append(opts, mr.WithContext(context.Background()))
			}
			var cur, max int64
			seen := make([]int32, items)
			enter := func(i int) {
				n := atomic.AddInt64(&cur, 1)
				atomic.AddInt32(&seen[i], 1)
				for {
					m := atomic.LoadInt64(&max)
					if n <= m || atomic.CompareAndSwapInt64(&max, m, n) {
						break
					}
				}
				for k := 0; k < i%6; k++ {
					runtime.Gosched()
				}
				atomic.AddInt64(&cur, -1)
			}
			gen := func(source chan<- int) {
				for i := 0; i < items; i++ {
					source <- i
				}
			}
			mapper := func(i int, w mr.Writer[int], cancel func(error)) { enter(i); w.Write(i) }
			sum := 0
			reducer := func(pipe <-chan int, w mr.Writer[int], cancel func(error)) {
				for v := range pipe {
					sum += v
				}
				w.Write(sum)
			}
			switch entry {
			case "MapReduce":
				if _, err := mr.MapReduce(gen, mapper, reducer, opts...); err != nil {
					t.Fatalf("MapReduce failed: %v", err)
				}
			case "MapReduceVoid":
				err := mr.MapReduceVoid(gen, mapper, func(pipe <-chan int, cancel func(error)) {
					for range pipe {
					}
				}, opts...)
				if err != nil {
					t.Fatalf("MapReduceVoid failed: %v", err)
				}
			case "MapReduceChan":
				ch := make(chan int, rapid.IntRange(0, 8).Draw(t, "chanCap"))
				go func() { gen(ch); close(ch) }()
				if _, err := mr.MapReduceChan(ch, mapper, reducer, opts...); err != nil {
					t.Fatalf("MapReduceChan failed: %v", err)
				}
			default:
				mr.ForEach(gen, func(i int) { enter(i) }, opts...)
			}
			d := fmt.Sprintf("#%d %s[%s] items=%d", c, entry, od, items)
			descr = append(descr, d)
			if max > int64(cap) {
				t.Fatalf("C05 violated (at no instant more than n holders): %s: %d mapper invocations ran at once, the cap is %d; calls of this case so far: %v", d, max, cap, descr)
			}
			for i, n := range seen {
				if n != 1 {
					t.Fatalf("%s: item %d mapped %d times", d, i, n)
				}
			}
			if items > cap && max == int64(cap) {
				nontrivial = true
			}
		}
		if nontrivial {
			st.NonTrivial(fmt.Sprint(descr))
		}
	})
}
