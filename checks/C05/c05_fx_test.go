//go:build verif

package fx_test

import (
	"fmt"
	"runtime"
	"sort"
	"sync/atomic"
	"testing"

	"github.com/zeromicro/go-zero/core/fx"
	"github.com/zeromicro/go-zero/core/logx"
	"github.com/zeromicro/go-zero/internal/verifkit"
	"pgregory.net/rapid"
)

// fx worker counts: Walk / Map / Filter / Parallel with WithWorkers(w) never run more than
// max(w,1) callbacks at once (no option: the documented default of 16; UnlimitedWorkers: no
// bound), and every item is processed exactly once.  One case is a sequence of one to three
// pipelines of one or two stages, each stage with its own option, because the cap of one call
// must not depend on what an earlier or a neighbouring call was configured with.
func TestVerifC05FxWorkers(t *testing.T) {
	logx.Disable()
	st := verifkit.New("fx-workers")
	defer st.Flush()
	rapid.Check(t, func(t *rapid.T) {
		st.Eval()
		npipes := rapid.IntRange(1, 3).Draw(t, "pipelines")
		var descr []string
		nontrivial := false
		for p := 0; p < npipes; p++ {
			d, nt := fxPipeline(t, p)
			descr = append(descr, d)
			nontrivial = nontrivial || nt
		}
		if npipes > 1 {
			st.Class("several-pipelines")
		}
		if nontrivial {
			st.NonTrivial(fmt.Sprint(descr))
		}
	})
}

type fxGauge struct {
	cur, max int64
	seen     []int32
}

func (g *fxGauge) enter(i int) {
	c := atomic.AddInt64(&g.cur, 1)
	atomic.AddInt32(&g.seen[i], 1)
	for {
		m := atomic.LoadInt64(&g.max)
		if c <= m || atomic.CompareAndSwapInt64(&g.max, m, c) {
			break
		}
	}
	for k := 0; k < i%6; k++ {
		runtime.Gosched()
	}
	atomic.AddInt64(&g.cur, -1)
}

// fxStageOpt draws a stage's option: cap = 0 means "no bound asserted".
func fxStageOpt(t *rapid.T, label string) (opts []fx.Option, cap int, descr string) {
	switch rapid.IntRange(0, 5).Draw(t, label+"OptKind") {
	case 0:
		return nil, 16, "default"
	case 1:
		return []fx.Option{fx.UnlimitedWorkers()}, 0, "unlimited"
	default:
		w := rapid.IntRange(-1, 8).Draw(t, label+"Workers")
		if rapid.IntRange(0, 9).Draw(t, label+"Wide") == 0 {
			w = rapid.IntRange(17, 48).Draw(t, label+"WideWorkers")
		}
		eff := w
		if eff < 1 {
			eff = 1
		}
		return []fx.Option{fx.WithWorkers(w)}, eff, fmt.Sprintf("workers(%d)", w)
	}
}

func fxPipeline(t *rapid.T, p int) (string, bool) {
	items := rapid.IntRange(0, 60).Draw(t, "items")
	if rapid.IntRange(0, 5).Draw(t, "manyItems") == 0 {
		items = rapid.IntRange(61, 300).Draw(t, "itemsMany")
	}
	op := rapid.SampledFrom([]string{"Walk", "Map", "Filter", "Parallel"}).Draw(t, "op")
	opts, eff, od := fxStageOpt(t, "s1")
	g := &fxGauge{seen: make([]int32, items)}
	// the stage's input in every shape a caller can hand it over: an unbuffered generator, a
	// complete buffered list, a buffered channel that is still being fed, a Buffer(k) stage
	shape := rapid.SampledFrom([]string{"From", "Just", "RangeBuffered", "RangeUnbuffered", "Buffer"}).Draw(t, "sourceShape")
	gen := func(source chan<- any) {
		for i := 0; i < items; i++ {
			source <- i
		}
	}
	var src fx.Stream
	switch shape {
	case "From":
		src = fx.From(gen)
	case "Just":
		all := make([]any, items)
		for i := range all {
			all[i] = i
		}
		src = fx.Just(all...)
	case "RangeBuffered", "RangeUnbuffered":
		c := 0
		if shape == "RangeBuffered" {
			c = rapid.IntRange(1, 16).Draw(t, "chanCap")
		}
		ch := make(chan any, c)
		prefill := rapid.IntRange(0, c).Draw(t, "prefill")
		if prefill > items {
			prefill = items
		}
		for i := 0; i < prefill; i++ {
			ch <- i
		}
		go func() {
			for i := prefill; i < items; i++ {
				ch <- i
			}
			close(ch)
		}()
		src = fx.Range(ch)
	case "Buffer":
		src = fx.From(gen).Buffer(rapid.IntRange(1, 16).Draw(t, "bufferSize"))
	}
	// an optional first stage with its own option and its own gauge in front of the stage under test
	var g0 *fxGauge
	eff0, od0 := 0, ""
	if rapid.IntRange(0, 2).Draw(t, "twoStages") == 0 {
		var opts0 []fx.Option
		opts0, eff0, od0 = fxStageOpt(t, "s0")
		g0 = &fxGauge{seen: make([]int32, items)}
		src = src.Map(func(item any) any { g0.enter(item.(int)); return item }, opts0...)
	}
	var out []int
	collect := func(s fx.Stream) {
		s.ForEach(func(item any) { out = append(out, item.(int)) })
	}
	switch op {
	case "Walk":
		collect(src.Walk(func(item any, pipe chan<- any) { g.enter(item.(int)); pipe <- item }, opts...))
	case "Map":
		collect(src.Map(func(item any) any { g.enter(item.(int)); return item }, opts...))
	case "Filter":
		collect(src.Filter(func(item any) bool { g.enter(item.(int)); return true }, opts...))
	case "Parallel":
		src.Parallel(func(item any) { g.enter(item.(int)) }, opts...)
	}
	descr := fmt.Sprintf("#%d %s[%s] on %s items=%d", p, op, od, shape, items)
	if g0 != nil {
		descr += " after Map[" + od0 + "]"
		if eff0 > 0 && g0.max > int64(eff0) {
			t.Fatalf("pipeline %s: the first stage (Map, %s) ran %d callbacks at once, its cap is %d", descr, od0, g0.max, eff0)
		}
		for i, c := range g0.seen {
			if c != 1 {
				t.Fatalf("pipeline %s: first stage processed item %d %d times", descr, i, c)
			}
		}
	}
	if eff > 0 && g.max > int64(eff) {
		t.Fatalf("pipeline %s: %d callbacks ran at once, the cap is %d", descr, g.max, eff)
	}
	for i, c := range g.seen {
		if c != 1 {
			t.Fatalf("pipeline %s: item %d processed %d times", descr, i, c)
		}
	}
	if op != "Parallel" {
		sort.Ints(out)
		if len(out) != items {
			t.Fatalf("pipeline %s: %d items out, %d in", descr, len(out), items)
		}
	}
	return descr, eff > 0 && items > eff && g.max == int64(eff)
}
