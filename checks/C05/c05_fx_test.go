//go:build verif

package fx_test

import (
	"fmt"
	"runtime"
	"sort"
	"sync/atomic"
	"testing"

	"github.com/zeromicro/go-zero/core/fx"
	"github.com/zeromicro/go-zero/core/logx"
	"github.com/zeromicro/go-zero/internal/verifkit"
	"pgregory.net/rapid"
)

// fx worker counts: Walk / Map / Filter / Parallel with WithWorkers(w) never run more than
// max(w,1) callbacks at once, and every item is processed exactly once.
func TestVerifC05FxWorkers(t *testing.T) {
	logx.Disable()
	st := verifkit.New("fx-workers")
	defer st.Flush()
	rapid.Check(t, func(t *rapid.T) {
		st.Eval()
		items := rapid.IntRange(0, 60).Draw(t, "items")
		w := rapid.IntRange(-1, 8).Draw(t, "workers")
		op := rapid.SampledFrom([]string{"Walk", "Map", "Filter", "Parallel"}).Draw(t, "op")
		eff := w
		if eff < 1 {
			eff = 1
		}
		var cur, max int64
		seen := make([]int32, items)
		enter := func(i int) {
			c := atomic.AddInt64(&cur, 1)
			atomic.AddInt32(&seen[i], 1)
			for {
				m := atomic.LoadInt64(&max)
				if c <= m || atomic.CompareAndSwapInt64(&max, m, c) {
					break
				}
			}
			for k := 0; k < i%6; k++ {
				runtime.Gosched()
			}
			atomic.AddInt64(&cur, -1)
		}
		// the stage's input in every shape a caller can hand it over: an unbuffered generator, a
		// complete buffered list, a buffered channel that is still being fed, a Buffer(k) stage
		shape := rapid.SampledFrom([]string{"From", "Just", "RangeBuffered", "RangeUnbuffered", "Buffer"}).Draw(t, "sourceShape")
		gen := func(source chan<- any) {
			for i := 0; i < items; i++ {
				source <- i
			}
		}
		var src fx.Stream
		switch shape {
		case "From":
			src = fx.From(gen)
		case "Just":
			all := make([]any, items)
			for i := range all {
				all[i] = i
			}
			src = fx.Just(all...)
		case "RangeBuffered", "RangeUnbuffered":
			c := 0
			if shape == "RangeBuffered" {
				c = rapid.IntRange(1, 16).Draw(t, "chanCap")
			}
			ch := make(chan any, c)
			prefill := rapid.IntRange(0, c).Draw(t, "prefill")
			if prefill > items {
				prefill = items
			}
			for i := 0; i < prefill; i++ {
				ch <- i
			}
			go func() {
				for i := prefill; i < items; i++ {
					ch <- i
				}
				close(ch)
			}()
			src = fx.Range(ch)
		case "Buffer":
			src = fx.From(gen).Buffer(rapid.IntRange(1, 16).Draw(t, "bufferSize"))
		}
		var out []int
		collect := func(s fx.Stream) {
			s.ForEach(func(item any) { out = append(out, item.(int)) })
		}
		switch op {
		case "Walk":
			collect(src.Walk(func(item any, pipe chan<- any) { enter(item.(int)); pipe <- item }, fx.WithWorkers(w)))
		case "Map":
			collect(src.Map(func(item any) any { enter(item.(int)); return item }, fx.WithWorkers(w)))
		case "Filter":
			collect(src.Filter(func(item any) bool { enter(item.(int)); return true }, fx.WithWorkers(w)))
		case "Parallel":
			src.Parallel(func(item any) { enter(item.(int)) }, fx.WithWorkers(w))
		}
		if max > int64(eff) {
			t.Fatalf("%s with WithWorkers(%d) on a %s source: %d callbacks ran at once", op, w, shape, max)
		}
		for i, c := range seen {
			if c != 1 {
				t.Fatalf("%s: item %d processed %d times", op, i, c)
			}
		}
		if op != "Parallel" {
			sort.Ints(out)
			if len(out) != items {
				t.Fatalf("%s: %d items out, %d in", op, len(out), items)
			}
		}
		if items > eff && max == int64(eff) {
			st.NonTrivial(fmt.Sprintf("%s %s items=%d w=%d", op, shape, items, w))
		}
	})
}
