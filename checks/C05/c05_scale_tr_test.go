//go:build verif

package threading_test

// Unit `scale-taskrunner`: a long history on ONE TaskRunner.
//
// The small unit schedules at most 40 tasks on a runner of concurrency <= 8.  Here one runner
// lives through a drawn sequence of segments - sequential bursts (d <= n tasks parked on a gate,
// released, Wait; repeated) and streams (a drawn number of scheduling goroutines pushing short
// tasks through Schedule / ScheduleImmediately, some ending by panic or runtime.Goexit) - BEFORE
// and BETWEEN the judged phases.  Concurrency, burst depth, number of schedulers and number of
// tasks are drawn log-uniformly (n 1..2047, up to ~2.6*10^5 tasks in a large case).  Oracle as
// in the small unit, during the whole history: the gauge inside the task body never exceeds n;
// from quiescence (Wait returned) the first n ScheduleImmediately succeed; with n tasks parked
// the (n+1)-th ScheduleImmediately returns ErrTaskRunnerBusy and a blocking Schedule stays
// blocked until a slot is released.
//
// All draws are made up front; one worker goroutine executes the plan and the property
// goroutine watches a progress counter (tasks that entered their body): 20 s without progress
// while the worker is not finished means a Schedule / Wait that is blocked although every task
// is short or already released - slots held by nobody, the leak verdict of the small unit.

import (
	"fmt"
	"math/bits"
	"runtime"
	"strings"
	"sync"
	"sync/atomic"
	"testing"
	"time"

	"github.com/zeromicro/go-zero/core/logx"
	"github.com/zeromicro/go-zero/core/threading"
	"github.com/zeromicro/go-zero/internal/verifkit"
	"pgregory.net/rapid"
)

// 100 x the most tasks the small generator schedules on one runner (40).
const c05trNonTrivial = 100 * 40

var c05trStalled int32

func c05trLogU(t *rapid.T, label string, loBits, hiBits int) int {
	e := rapid.IntRange(loBits, hiBits).Draw(t, label+"Bits")
	return rapid.IntRange(1<<uint(e), 1<<uint(e+1)-1).Draw(t, label)
}

func c05trLogUTo(t *rapid.T, label string, max int) int {
	if max <= 1 {
		return 1
	}
	e := rapid.IntRange(0, bits.Len(uint(max))-1).Draw(t, label+"Bits")
	lo, hi := 1<<uint(e), 1<<uint(e+1)-1
	if hi > max {
		hi = max
	}
	return rapid.IntRange(lo, hi).Draw(t, label)
}

func c05trMax(a, b int) int {
	if a > b {
		return a
	}
	return b
}

type c05trSeg struct {
	stream     bool
	weight     int
	tasks      int
	depth      int // burst: tasks parked at once, 1..n
	probe      bool
	mode       int // 0 ScheduleImmediately / blocking Schedule (stream), 1 the other, 2 alternating
	g          int // stream: scheduling goroutines
	yieldEvery int
	endEvery   int // every endEvery-th task ends by panic / runtime.Goexit (0 = all return)
	judged     bool
}

func (s c05trSeg) String() string {
	var b strings.Builder
	if s.stream {
		fmt.Fprintf(&b, "stream(g=%d tasks=%d mode=%d yieldEvery=%d endEvery=%d)", s.g, s.tasks, s.mode, s.yieldEvery, s.endEvery)
	} else {
		fmt.Fprintf(&b, "burst(depth=%d tasks=%d mode=%d probe=%v endEvery=%d)", s.depth, s.tasks, s.mode, s.probe, s.endEvery)
	}
	if s.judged {
		b.WriteString("+judged")
	}
	return b.String()
}

type c05trCase struct {
	n     int
	large bool
	total int
	segs  []c05trSeg
}

func (c c05trCase) String() string {
	var b strings.Builder
	fmt.Fprintf(&b, "taskrunner n=%d large=%v tasks=%d:", c.n, c.large, c.total)
	for _, s := range c.segs {
		b.WriteString(" " + s.String())
	}
	return b.String()
}

type c05trRun struct {
	c            c05trCase
	tr           *threading.TaskRunner
	cur, max     int64
	prog         int64 // tasks that entered their body
	refused      int64
	judgedPassed int64
	bad          atomic.Value
	where        atomic.Value
}

func (r *c05trRun) fail(format string, a ...any) {
	r.bad.CompareAndSwap(nil, fmt.Sprintf(format, a...)+" ["+r.where.Load().(string)+"]")
}

func (r *c05trRun) failed() bool { return r.bad.Load() != nil }

func (r *c05trRun) enter() {
	c := atomic.AddInt64(&r.cur, 1)
	if c > int64(r.c.n) {
		r.fail("%d tasks running, concurrency %d", c, r.c.n)
	}
	for {
		m := atomic.LoadInt64(&r.max)
		if c <= m || atomic.CompareAndSwapInt64(&r.max, m, c) {
			break
		}
	}
	atomic.AddInt64(&r.prog, 1)
}

// end finishes a task body the way the plan says: return, panic or runtime.Goexit.
func (r *c05trRun) end(s c05trSeg, k int) {
	atomic.AddInt64(&r.cur, -1)
	if s.endEvery > 0 && k%s.endEvery == 0 {
		if (k/s.endEvery)&1 == 0 {
			panic("task panic")
		}
		runtime.Goexit()
	}
}

func (r *c05trRun) burst(s c05trSeg) {
	reps := c05trMax(1, s.tasks/s.depth)
	k := 0
	for rep := 0; rep < reps && !r.failed(); rep++ {
		gate := make(chan struct{})
		for i := 0; i < s.depth; i++ {
			k++
			kk := k
			task := func() { r.enter(); <-gate; r.end(s, kk) }
			m := s.mode
			if m == 2 {
				m = i & 1
			}
			if m == 0 {
				if err := r.tr.ScheduleImmediately(task); err != nil {
					close(gate)
					r.fail("capacity leaked: ScheduleImmediately #%d of a burst of %d from quiescence (concurrency %d) returned %v", i+1, s.depth, r.c.n, err)
					return
				}
			} else {
				r.tr.Schedule(task)
			}
		}
		if s.probe && s.depth == r.c.n {
			if err := r.tr.ScheduleImmediately(func() { r.enter(); atomic.AddInt64(&r.cur, -1) }); err != threading.ErrTaskRunnerBusy {
				close(gate)
				r.fail("with %d tasks parked ScheduleImmediately returned %v, want ErrTaskRunnerBusy", r.c.n, err)
				return
			}
		}
		close(gate)
		r.tr.Wait()
	}
}

func (r *c05trRun) stream(s c05trSeg) {
	per := c05trMax(1, s.tasks/s.g)
	var wg sync.WaitGroup
	for gi := 0; gi < s.g; gi++ {
		wg.Add(1)
		go func(gi int) {
			defer wg.Done()
			for i := 0; i < per && !r.failed(); i++ {
				kk := gi*per + i + 1
				task := func() {
					r.enter()
					if s.yieldEvery > 0 && kk%s.yieldEvery == 0 {
						runtime.Gosched()
					}
					r.end(s, kk)
				}
				m := s.mode
				if m == 2 {
					m = (i + gi) & 1
				}
				if m == 0 {
					r.tr.Schedule(task)
				} else if err := r.tr.ScheduleImmediately(task); err != nil {
					if err != threading.ErrTaskRunnerBusy {
						r.fail("ScheduleImmediately returned %v", err)
						return
					}
					atomic.AddInt64(&r.refused, 1)
				}
			}
		}(gi)
	}
	wg.Wait()
	r.tr.Wait()
}

// judged: from quiescence exactly n tasks are admitted, the (n+1)-th is refused / blocked.
func (r *c05trRun) judged(si int) {
	n := r.c.n
	gate := make(chan struct{})
	for i := 0; i < n; i++ {
		if err := r.tr.ScheduleImmediately(func() { r.enter(); <-gate; atomic.AddInt64(&r.cur, -1) }); err != nil {
			close(gate)
			r.fail("capacity leaked: slot %d of %d not available after all tasks finished (Wait returned): %v", i+1, n, err)
			return
		}
	}
	if err := r.tr.ScheduleImmediately(func() { r.enter(); atomic.AddInt64(&r.cur, -1) }); err != threading.ErrTaskRunnerBusy {
		close(gate)
		r.fail("with %d tasks parked ScheduleImmediately returned %v, want ErrTaskRunnerBusy", n, err)
		return
	}
	blocked := make(chan struct{})
	go func() {
		r.tr.Schedule(func() { r.enter(); atomic.AddInt64(&r.cur, -1) })
		close(blocked)
	}()
	select {
	case <-blocked:
		close(gate)
		r.fail("Schedule was admitted while %d tasks hold all %d slots", n, n)
		return
	case <-time.After(2 * time.Millisecond):
	}
	close(gate)
	r.where.Store(fmt.Sprintf("judged phase after segment %d: blocked Schedule after the gate was opened", si))
	<-blocked
	r.tr.Wait()
	if !r.failed() {
		r.judgedPassed++
	}
}

func (r *c05trRun) run() {
	for si, s := range r.c.segs {
		if r.failed() {
			return
		}
		r.where.Store(fmt.Sprintf("segment %d %s", si, s.String()))
		if s.stream {
			r.stream(s)
		} else {
			r.burst(s)
		}
		if s.judged && !r.failed() {
			r.where.Store(fmt.Sprintf("judged phase after segment %d", si))
			r.judged(si)
		}
	}
}

func TestVerifC05ScaleTaskRunner(t *testing.T) {
	logx.Disable()
	st := verifkit.New("scale-taskrunner")
	defer st.Flush()
	every := verifkit.EnvInt("scale_every", 40)
	if every < 1 {
		every = 1
	}
	rapid.Check(t, func(t *rapid.T) {
		st.Eval()
		var c c05trCase
		// the die shrinks towards 1 = a small case
		c.large = rapid.IntRange(1, every).Draw(t, "largeDie") == every
		c.n = c05trLogU(t, "n", 0, 10)
		if c.large {
			c.total = c05trLogU(t, "tasks", 10, 17)
		} else {
			c.total = rapid.IntRange(1, 128).Draw(t, "tasks")
		}
		nseg := rapid.IntRange(1, 6).Draw(t, "segments")
		sumW := 0
		for i := 0; i < nseg; i++ {
			var s c05trSeg
			s.stream = rapid.Bool().Draw(t, "stream")
			s.weight = rapid.IntRange(1, 8).Draw(t, "weight")
			sumW += s.weight
			switch rapid.IntRange(0, 2).Draw(t, "depthKind") {
			case 0:
				s.depth = c05trLogUTo(t, "depth", c.n)
			case 1:
				s.depth = c.n
			default:
				s.depth = rapid.IntRange(1, c05trMax(1, c05trMin(c.n, 8))).Draw(t, "depth")
			}
			s.probe = rapid.Bool().Draw(t, "probe")
			s.mode = rapid.IntRange(0, 2).Draw(t, "mode")
			s.g = c05trLogUTo(t, "schedulers", 32)
			s.yieldEvery = rapid.SampledFrom([]int{0, 1, 7, 64}).Draw(t, "yieldEvery")
			s.endEvery = rapid.SampledFrom([]int{0, 0, 3, 64, 1000}).Draw(t, "endEvery")
			s.judged = i == nseg-1 || rapid.IntRange(0, 2).Draw(t, "judged") == 0
			c.segs = append(c.segs, s)
		}
		for i := range c.segs {
			c.segs[i].tasks = c05trMax(1, c.total*c.segs[i].weight/sumW)
		}
		r := &c05trRun{c: c, tr: threading.NewTaskRunner(c.n)}
		r.where.Store("start")
		done := make(chan struct{})
		go func() { defer close(done); r.run() }()
		last, idle := int64(-1), 0
	wait:
		for {
			select {
			case <-done:
				break wait
			case <-time.After(250 * time.Millisecond):
			}
			if p := atomic.LoadInt64(&r.prog); p != last {
				last, idle = p, 0
			} else if idle++; idle >= 80 || idle >= 2 && atomic.LoadInt32(&c05trStalled) != 0 {
				// the verdict needs 20 s; once it has been given, the re-runs that rapid makes to shrink
				// the failing case settle for 0.5 s
				atomic.StoreInt32(&c05trStalled, 1)
				t.Fatalf("capacity leaked: no task entered its body for %v (20 s for the verdict, 0.5 s in the re-runs that shrink it) in [%s] with %d tasks inside their body (concurrency %d, %d tasks so far); case: %s",
					time.Duration(idle)*250*time.Millisecond, r.where.Load(), atomic.LoadInt64(&r.cur), c.n, last, c.String())
			}
		}
		if v := r.bad.Load(); v != nil {
			t.Fatalf("%v after %d tasks; case: %s", v, atomic.LoadInt64(&r.prog), c.String())
		}
		size := int(atomic.LoadInt64(&r.prog))
		st.Class(fmt.Sprintf("n:2^%d", bits.Len(uint(c.n))-1))
		st.ClassN("judged-phases", int(r.judgedPassed))
		if r.max == int64(c.n) {
			st.Class("reached-cap")
		}
		if r.refused > 0 {
			st.Class("with-refusals")
		}
		if c.large {
			st.Class("large")
			st.Class(fmt.Sprintf("large:size:2^%d", bits.Len(uint(size))-1))
		}
		if size >= c05trNonTrivial && r.judgedPassed > 0 {
			st.Class("nontrivial")
			st.NonTrivial(fmt.Sprintf("%s ran=%d refused=%d judged=%d", c.String(), size, r.refused, r.judgedPassed))
		}
	})
}

func c05trMin(a, b int) int {
	if a < b {
		return a
	}
	return b
}
