//go:build verif

package threading_test

import (
	"fmt"
	"runtime"
	"sync/atomic"
	"testing"
	"time"

	"github.com/zeromicro/go-zero/core/lang"
	"github.com/zeromicro/go-zero/core/logx"
	"github.com/zeromicro/go-zero/core/threading"
	"github.com/zeromicro/go-zero/internal/verifkit"
	"pgregory.net/rapid"
)

// TaskRunner: at most n tasks run at once; with n tasks parked ScheduleImmediately is refused;
// panicking tasks give their slot back; afterwards exactly n slots are free again.
func TestVerifC05TaskRunner(t *testing.T) {
	logx.Disable()
	st := verifkit.New("taskrunner")
	defer st.Flush()
	rapid.Check(t, func(t *rapid.T) {
		st.Eval()
		if verifkit.EnvInt("yield", 0) == 1 {
			lang.VerifYieldConfig(rapid.Uint64Range(1, 1<<62).Draw(t, "yieldSeed"), 200, 60, 100)
			defer lang.VerifYieldConfig(0, 0, 0, 0)
		}
		n := rapid.IntRange(1, 8).Draw(t, "n")
		tasks := rapid.IntRange(1, 40).Draw(t, "tasks")
		tr := threading.NewTaskRunner(n)
		var cur, max, ran, refused, goexits int64
		var bad atomic.Value
		for i := 0; i < tasks; i++ {
			immediate := rapid.Bool().Draw(t, "immediately")
			spin := rapid.IntRange(0, 20).Draw(t, "spin")
			// how the task ends: returns, panics (string / error value), or ends its goroutine with
			// runtime.Goexit (what t.FailNow, t.SkipNow and abort helpers do) - "finished" either way
			end := rapid.SampledFrom([]string{"return", "return", "return", "return", "panic", "goexit", "panic-error", "return"}).Draw(t, "end")
			task := func() {
				c := atomic.AddInt64(&cur, 1)
				defer atomic.AddInt64(&cur, -1)
				atomic.AddInt64(&ran, 1)
				if c > int64(n) {
					bad.Store(fmt.Sprintf("%d tasks running, concurrency %d", c, n))
				}
				for {
					m := atomic.LoadInt64(&max)
					if c <= m || atomic.CompareAndSwapInt64(&max, m, c) {
						break
					}
				}
				for k := 0; k < spin; k++ {
					runtime.Gosched()
				}
				switch end {
				case "panic":
					panic("task panic")
				case "panic-error":
					panic(fmt.Errorf("task panic %d", c))
				case "goexit":
					atomic.AddInt64(&goexits, 1)
					runtime.Goexit()
				}
			}
			if immediate {
				if err := tr.ScheduleImmediately(task); err != nil {
					if err != threading.ErrTaskRunnerBusy {
						t.Fatalf("ScheduleImmediately returned %v", err)
					}
					refused++
				}
			} else {
				// Schedule blocks while all slots are taken.  Every task here is short, so a Schedule that
				// stays blocked although no task has been inside its body for 5 s on end can only mean
				// that slots are held by nobody: capacity leaked ("after all holders have finished,
				// including by panic, the full capacity is available again").
				admitted := make(chan struct{})
				go func() { tr.Schedule(task); close(admitted) }()
				idleSince := time.Time{}
			wait:
				for {
					select {
					case <-admitted:
						break wait
					case <-time.After(5 * time.Millisecond):
					}
					if atomic.LoadInt64(&cur) != 0 {
						idleSince = time.Time{}
					} else if idleSince.IsZero() {
						idleSince = time.Now()
					} else if time.Since(idleSince) > 5*time.Second {
						t.Fatalf("capacity leaked: Schedule #%d blocked for 5 s although no task is running (n=%d, %d tasks ran so far, some panicking)", i+1, n, atomic.LoadInt64(&ran))
					}
				}
			}
		}
		done := make(chan struct{})
		go func() { tr.Wait(); close(done) }()
		select {
		case <-done:
		case <-time.After(30 * time.Second):
			t.Fatalf("TaskRunner.Wait did not return within 30 s")
		}
		if v := bad.Load(); v != nil {
			t.Fatalf("%v", v)
		}
		if ran+refused != int64(tasks) {
			t.Fatalf("%d tasks scheduled, %d ran and %d were refused", tasks, ran, refused)
		}
		// exact refusal and no leak: park n tasks on a gate, the (n+1)-th is refused
		gate := make(chan struct{})
		var parked int64
		for i := 0; i < n; i++ {
			if err := tr.ScheduleImmediately(func() { atomic.AddInt64(&parked, 1); <-gate }); err != nil {
				close(gate)
				t.Fatalf("capacity leaked: slot %d of %d not available after all tasks (some panicking) finished: %v", i+1, n, err)
			}
		}
		if err := tr.ScheduleImmediately(func() {}); err != threading.ErrTaskRunnerBusy {
			close(gate)
			t.Fatalf("with %d tasks parked ScheduleImmediately returned %v, want ErrTaskRunnerBusy", n, err)
		}
		blocked := make(chan struct{})
		go func() { tr.Schedule(func() {}); close(blocked) }()
		select {
		case <-blocked:
			close(gate)
			t.Fatalf("Schedule was admitted while %d tasks hold all %d slots", n, n)
		case <-time.After(2 * time.Millisecond):
		}
		close(gate)
		select {
		case <-blocked:
		case <-time.After(20 * time.Second):
			t.Fatalf("blocked Schedule never admitted after slots were released")
		}
		tr.Wait()
		if max == int64(n) && refused > 0 {
			st.NonTrivial(fmt.Sprintf("n=%d tasks=%d max=%d refused=%d", n, tasks, max, refused))
			if atomic.LoadInt64(&goexits) > 0 {
				st.Class("tasks-ended-by-goexit")
			}
		}
	})
}

// WorkerGroup: exactly `workers` concurrent runs of the job, each exactly once, Start waits for all.
func TestVerifC05WorkerGroup(t *testing.T) {
	logx.Disable()
	st := verifkit.New("workergroup")
	defer st.Flush()
	rapid.Check(t, func(t *rapid.T) {
		st.Eval()
		w := rapid.IntRange(1, 12).Draw(t, "workers")
		panEvery := rapid.IntRange(0, 4).Draw(t, "panicEvery")
		var runs, cur, max int64
		threading.NewWorkerGroup(func() {
			c := atomic.AddInt64(&cur, 1)
			defer atomic.AddInt64(&cur, -1)
			r := atomic.AddInt64(&runs, 1)
			for {
				m := atomic.LoadInt64(&max)
				if c <= m || atomic.CompareAndSwapInt64(&max, m, c) {
					break
				}
			}
			runtime.Gosched()
			if panEvery > 0 && r%int64(panEvery) == 0 {
				panic("job panic")
			}
		}, w).Start()
		if runs != int64(w) || max > int64(w) || cur != 0 {
			t.Fatalf("WorkerGroup(%d): job ran %d times, max concurrent %d, still running %d after Start returned", w, runs, max, cur)
		}
		if w >= 2 {
			st.NonTrivial(fmt.Sprintf("w=%d panEvery=%d", w, panEvery))
		}
	})
}
