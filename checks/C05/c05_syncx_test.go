//go:build verif

package syncx_test

import (
	"fmt"
	"runtime"
	"strings"
	"sync"
	"sync/atomic"
	"testing"
	"time"

	"github.com/zeromicro/go-zero/core/lang"
	"github.com/zeromicro/go-zero/core/syncx"
	"github.com/zeromicro/go-zero/core/timex"
	"github.com/zeromicro/go-zero/internal/verifkit"
	"pgregory.net/rapid"
)

type c05jit struct{ kind, n int }

func (j c05jit) run() {
	switch j.kind {
	case 1:
		for i := 0; i < j.n; i++ {
			runtime.Gosched()
		}
	case 2:
		x := 0
		for i := 0; i < j.n*200; i++ {
			x += i
		}
		_ = x
	case 3:
		time.Sleep(time.Duration(j.n) * 10 * time.Microsecond)
	}
}

func c05genJit(t *rapid.T, l string) c05jit {
	return c05jit{rapid.IntRange(0, 3).Draw(t, l+"Kind"), rapid.IntRange(0, 25).Draw(t, l+"N")}
}

func c05yield(t *rapid.T) func() {
	if verifkit.EnvInt("yield", 0) != 1 {
		return func() {}
	}
	lang.VerifYieldConfig(rapid.Uint64Range(1, 1<<62).Draw(t, "yieldSeed"),
		rapid.SampledFrom([]uint32{0, 100, 400}).Draw(t, "yieldGosched"), rapid.SampledFrom([]uint32{0, 30, 120}).Draw(t, "yieldSleep"), 120)
	return func() { lang.VerifYieldConfig(0, 0, 0, 0) }
}

// gauge: number of holders inside the guarded region; max observed right after entry
type gauge struct{ cur, max, entries int64 }

func (g *gauge) enter() int64 {
	c := atomic.AddInt64(&g.cur, 1)
	atomic.AddInt64(&g.entries, 1)
	for {
		m := atomic.LoadInt64(&g.max)
		if c <= m || atomic.CompareAndSwapInt64(&g.max, m, c) {
			break
		}
	}
	return c
}
func (g *gauge) leave() { atomic.AddInt64(&g.cur, -1) }

// ------------------------------------------------------------ Limit / TimeoutLimit: sequential model

func TestVerifC05LimitModel(t *testing.T) {
	st := verifkit.New("limit-model")
	defer st.Flush()
	rapid.Check(t, func(t *rapid.T) {
		st.Eval()
		n := rapid.IntRange(1, 8).Draw(t, "n")
		timeoutKind := rapid.Bool().Draw(t, "timeoutLimit")
		var tryBorrow func() bool
		var ret func() error
		var borrowTimeout func(time.Duration) error
		if timeoutKind {
			l := syncx.NewTimeoutLimit(n)
			tryBorrow, ret, borrowTimeout = l.TryBorrow, l.Return, l.Borrow
		} else {
			l := syncx.NewLimit(n)
			tryBorrow, ret = l.TryBorrow, l.Return
		}
		held := 0
		var logb strings.Builder
		fmt.Fprintf(&logb, "n=%d timeout=%v:", n, timeoutKind)
		refusals, surplus := 0, 0
		acts := map[string]func(*rapid.T){
			"tryBorrow": func(t *rapid.T) {
				ok := tryBorrow()
				if ok != (held < n) {
					t.Fatalf("TryBorrow=%v with %d of %d permits held; %s", ok, held, n, logb.String())
				}
				if ok {
					held++
				} else {
					refusals++
				}
				logb.WriteString(" try")
			},
			"return": func(t *rapid.T) {
				err := ret()
				if held > 0 {
					if err != nil {
						t.Fatalf("Return with %d held failed: %v; %s", held, err, logb.String())
					}
					held--
				} else {
					if err != syncx.ErrLimitReturn {
						t.Fatalf("surplus Return gave %v, want ErrLimitReturn; %s", err, logb.String())
					}
					surplus++
				}
				logb.WriteString(" ret")
			},
		}
		if timeoutKind {
			acts["borrowTimeout"] = func(t *rapid.T) {
				d := time.Duration(rapid.IntRange(0, 3).Draw(t, "ms")) * time.Millisecond
				err := borrowTimeout(d)
				if held < n {
					if err != nil {
						t.Fatalf("Borrow(%v) with a free permit failed: %v; %s", d, err, logb.String())
					}
					held++
				} else {
					if err != syncx.ErrTimeout {
						t.Fatalf("Borrow(%v) with all %d permits held returned %v, want ErrTimeout; %s", d, n, err, logb.String())
					}
					refusals++
				}
				logb.WriteString(" borrow")
			}
		}
		t.Repeat(acts)
		if refusals > 0 && surplus > 0 {
			st.NonTrivial(logb.String())
		}
	})
}

// ------------------------------------------------------------ Limit / TimeoutLimit: concurrent

func TestVerifC05LimitConcurrent(t *testing.T) {
	st := verifkit.New("limit-concurrent")
	defer st.Flush()
	rapid.Check(t, func(t *rapid.T) {
		st.Eval()
		defer c05yield(t)()
		n := rapid.IntRange(1, 8).Draw(t, "n")
		g := rapid.IntRange(n, 4*n).Draw(t, "goroutines")
		per := rapid.IntRange(1, 8).Draw(t, "rounds")
		timeoutKind := rapid.Bool().Draw(t, "timeoutLimit")
		var lim syncx.Limit
		var tl syncx.TimeoutLimit
		if timeoutKind {
			tl = syncx.NewTimeoutLimit(n)
		} else {
			lim = syncx.NewLimit(n)
		}
		type plan struct {
			mode int // 0 blocking borrow / long-timeout borrow, 1 tryBorrow, 2 short-timeout borrow
			hold c05jit
			pan  bool
		}
		plans := make([][]plan, g)
		for i := range plans {
			for j := 0; j < per; j++ {
				plans[i] = append(plans[i], plan{rapid.IntRange(0, 2).Draw(t, "mode"), c05genJit(t, "hold"), rapid.IntRange(0, 7).Draw(t, "panic") == 0})
			}
		}
		var gg gauge
		var refused, longTimeouts int64
		var bad atomic.Value
		var wg sync.WaitGroup
		for i := 0; i < g; i++ {
			wg.Add(1)
			go func(pl []plan) {
				defer wg.Done()
				for _, p := range pl {
					got := false
					switch {
					case timeoutKind && p.mode == 0:
						// a long timed borrow.  It may still time out with a permit free: Return's
						// Signal is lost when no borrower is parked at that instant (lost wake-up in
						// TimeoutLimit).  The statement only forbids over-admission and leaks, so a
						// timeout is counted as a refusal, not reported.
						got = tl.Borrow(300*time.Millisecond) == nil
						if !got {
							atomic.AddInt64(&longTimeouts, 1)
						}
					case timeoutKind && p.mode == 1:
						got = tl.TryBorrow()
					case timeoutKind:
						got = tl.Borrow(time.Duration(p.hold.n)*20*time.Microsecond) == nil
					case p.mode == 0:
						lim.Borrow()
						got = true
					default:
						got = lim.TryBorrow()
					}
					if !got {
						atomic.AddInt64(&refused, 1)
						continue
					}
					func() {
						defer func() {
							recover()
							gg.leave()
							var err error
							if timeoutKind {
								err = tl.Return()
							} else {
								err = lim.Return()
							}
							if err != nil {
								bad.Store(fmt.Sprintf("Return by a holder failed: %v", err))
							}
						}()
						if c := gg.enter(); c > int64(n) {
							bad.Store(fmt.Sprintf("%d holders inside the region, capacity %d", c, n))
						}
						p.hold.run()
						if p.pan {
							panic("holder panic")
						}
					}()
				}
			}(plans[i])
		}
		done := make(chan struct{})
		go func() { wg.Wait(); close(done) }()
		select {
		case <-done:
		case <-time.After(30 * time.Second):
			t.Fatalf("holders did not finish within 30 s (n=%d g=%d timeoutLimit=%v)", n, g, timeoutKind)
		}
		if v := bad.Load(); v != nil {
			t.Fatalf("%v (n=%d g=%d timeoutLimit=%v)", v, n, g, timeoutKind)
		}
		// no leak, no inflation: exactly n permits are available now
		try := func() bool {
			if timeoutKind {
				return tl.TryBorrow()
			}
			return lim.TryBorrow()
		}
		ret := func() error {
			if timeoutKind {
				return tl.Return()
			}
			return lim.Return()
		}
		if err := ret(); err != syncx.ErrLimitReturn {
			t.Fatalf("surplus Return after quiescence gave %v, want ErrLimitReturn", err)
		}
		for i := 0; i < n; i++ {
			if !try() {
				t.Fatalf("capacity leaked: only %d of %d permits available after all holders finished", i, n)
			}
		}
		if try() {
			t.Fatalf("capacity inflated: more than %d permits available", n)
		}
		if timeoutKind {
			if err := tl.Borrow(2 * time.Millisecond); err != syncx.ErrTimeout {
				t.Fatalf("Borrow(2ms) with all permits held returned %v", err)
			}
		}
		st.ClassN("entries", int(gg.entries))
		st.ClassN("observed:timed-borrow-timed-out-300ms", int(longTimeouts))
		if gg.max == int64(n) && refused > 0 {
			st.NonTrivial(fmt.Sprintf("n=%d g=%d per=%d timeout=%v max=%d refused=%d", n, g, per, timeoutKind, gg.max, refused))
		}
	})
}

// ------------------------------------------------------------ Pool

type pres struct {
	id    int64
	inUse int32
}

func TestVerifC05Pool(t *testing.T) {
	st := verifkit.New("pool")
	defer st.Flush()
	defer timex.VerifUnfreeze()
	rapid.Check(t, func(t *rapid.T) {
		st.Eval()
		defer c05yield(t)()
		timex.VerifFreeze(400 * 24 * time.Hour)
		n := rapid.IntRange(1, 6).Draw(t, "n")
		g := rapid.IntRange(n, 4*n).Draw(t, "goroutines")
		per := rapid.IntRange(1, 8).Draw(t, "rounds")
		maxAge := time.Duration(rapid.SampledFrom([]int{0, 0, 50, 1000}).Draw(t, "maxAgeMs")) * time.Millisecond
		var created, destroyed, seq int64
		var bad atomic.Value
		var opts []syncx.PoolOption
		if maxAge > 0 {
			opts = append(opts, syncx.WithMaxAge(maxAge))
		}
		pool := syncx.NewPool(n, func() any {
			c := atomic.AddInt64(&created, 1)
			if live := c - atomic.LoadInt64(&destroyed); live > int64(n) {
				bad.Store(fmt.Sprintf("%d resources alive, limit %d", live, n))
			}
			return &pres{id: atomic.AddInt64(&seq, 1)}
		}, func(x any) {
			atomic.AddInt64(&destroyed, 1)
			if atomic.LoadInt32(&x.(*pres).inUse) != 0 {
				bad.Store("a resource was destroyed while in use")
			}
		}, opts...)
		type plan struct {
			hold c05jit
			adv  int // advance the virtual clock by adv ms while holding (ages idle resources)
			pan  bool
		}
		plans := make([][]plan, g)
		for i := range plans {
			for j := 0; j < per; j++ {
				plans[i] = append(plans[i], plan{c05genJit(t, "hold"), rapid.SampledFrom([]int{0, 0, 0, 30, 600}).Draw(t, "advanceMs"), rapid.IntRange(0, 7).Draw(t, "panic") == 0})
			}
		}
		var gg gauge
		var wg sync.WaitGroup
		for i := 0; i < g; i++ {
			wg.Add(1)
			go func(pl []plan) {
				defer wg.Done()
				for _, p := range pl {
					r := pool.Get().(*pres)
					func() {
						defer func() {
							recover()
							gg.leave()
							atomic.StoreInt32(&r.inUse, 0)
							pool.Put(r)
						}()
						if !atomic.CompareAndSwapInt32(&r.inUse, 0, 1) {
							bad.Store(fmt.Sprintf("resource %d handed to two users at once", r.id))
						}
						if c := gg.enter(); c > int64(n) {
							bad.Store(fmt.Sprintf("%d users hold a resource, limit %d", c, n))
						}
						p.hold.run()
						if p.adv > 0 {
							timex.VerifAdvance(time.Duration(p.adv) * time.Millisecond)
						}
						if p.pan {
							panic("user panic")
						}
					}()
				}
			}(plans[i])
		}
		done := make(chan struct{})
		go func() { wg.Wait(); close(done) }()
		select {
		case <-done:
		case <-time.After(30 * time.Second):
			t.Fatalf("pool users did not finish within 30 s (n=%d g=%d): a Put did not wake a waiting Get", n, g)
		}
		if v := bad.Load(); v != nil {
			t.Fatalf("%v (n=%d g=%d maxAge=%v)", v, n, g, maxAge)
		}
		// full capacity available again: n Gets succeed, the (n+1)-th blocks until a Put
		var held []*pres
		for i := 0; i < n; i++ {
			ch := make(chan *pres, 1)
			go func() { ch <- pool.Get().(*pres) }()
			select {
			case r := <-ch:
				held = append(held, r)
			case <-time.After(20 * time.Second):
				t.Fatalf("capacity leaked: Get #%d of %d blocked after all users finished", i+1, n)
			}
		}
		extra := make(chan *pres, 1)
		go func() { extra <- pool.Get().(*pres) }()
		select {
		case <-extra:
			t.Fatalf("Get #%d was admitted beyond the limit %d", n+1, n)
		case <-time.After(3 * time.Millisecond):
		}
		pool.Put(held[0])
		select {
		case r := <-extra:
			if r != held[0] && maxAge == 0 {
				t.Fatalf("waiting Get received a different resource than the one put back")
			}
		case <-time.After(20 * time.Second):
			t.Fatalf("Put did not wake the waiting Get")
		}
		if live := atomic.LoadInt64(&created) - atomic.LoadInt64(&destroyed); live > int64(n) {
			t.Fatalf("%d resources alive at the end, limit %d", live, n)
		}
		if destroyed > 0 {
			st.Class("with-expiry")
		}
		if gg.max == int64(n) && g > n {
			st.NonTrivial(fmt.Sprintf("n=%d g=%d per=%d maxAge=%v created=%d destroyed=%d", n, g, per, maxAge, created, destroyed))
		}
	})
}
