//go:build verif

package handler_test

import (
	"fmt"
	"net/http"
	"net/http/httptest"
	"runtime"
	"sync"
	"sync/atomic"
	"testing"
	"time"

	"github.com/zeromicro/go-zero/core/logx"
	"github.com/zeromicro/go-zero/internal/verifkit"
	"github.com/zeromicro/go-zero/rest/handler"
	"pgregory.net/rapid"
)

// REST max-connections middleware: never more than n handlers inside; with n parked the next
// request gets 503 and does not run; panicking handlers give the slot back.
func TestVerifC05MaxConns(t *testing.T) {
	logx.Disable()
	st := verifkit.New("rest-maxconns")
	defer st.Flush()
	rapid.Check(t, func(t *rapid.T) {
		st.Eval()
		n := rapid.IntRange(1, 8).Draw(t, "n")
		g := rapid.IntRange(n, 4*n).Draw(t, "goroutines")
		per := rapid.IntRange(1, 6).Draw(t, "rounds")
		var cur, max, ran, refused int64
		var bad atomic.Value
		var gate chan struct{}
		var mode int32 // 0 storm, 1 parked
		h := handler.MaxConnsHandler(n)(http.HandlerFunc(func(w http.ResponseWriter, r *http.Request) {
			c := atomic.AddInt64(&cur, 1)
			defer atomic.AddInt64(&cur, -1)
			atomic.AddInt64(&ran, 1)
			if c > int64(n) {
				bad.Store(fmt.Sprintf("%d handlers inside, max conns %d", c, n))
			}
			for {
				m := atomic.LoadInt64(&max)
				if c <= m || atomic.CompareAndSwapInt64(&max, m, c) {
					break
				}
			}
			if atomic.LoadInt32(&mode) == 1 {
				<-gate
				return
			}
			k := r.URL.Query().Get("k")
			for i := 0; i < len(k); i++ {
				runtime.Gosched()
			}
			if r.URL.Query().Get("p") == "1" {
				panic("handler panic")
			}
			w.WriteHeader(200)
		}))
		type req struct {
			spin string
			pan  bool
		}
		plans := make([][]req, g)
		for i := range plans {
			for j := 0; j < per; j++ {
				plans[i] = append(plans[i], req{rapid.StringMatching("x{0,12}").Draw(t, "spin"), rapid.IntRange(0, 6).Draw(t, "panic") == 0})
			}
		}
		var wg sync.WaitGroup
		for i := 0; i < g; i++ {
			wg.Add(1)
			go func(pl []req) {
				defer wg.Done()
				for _, q := range pl {
					p := "0"
					if q.pan {
						p = "1"
					}
					rr := httptest.NewRecorder()
					func() {
						defer func() { recover() }()
						h.ServeHTTP(rr, httptest.NewRequest(http.MethodGet, "/x?k="+q.spin+"&p="+p, nil))
					}()
					if rr.Code == http.StatusServiceUnavailable {
						atomic.AddInt64(&refused, 1)
					}
				}
			}(plans[i])
		}
		wg.Wait()
		if v := bad.Load(); v != nil {
			t.Fatalf("%v", v)
		}
		if ran+refused != int64(g*per) {
			t.Fatalf("%d requests: %d ran, %d refused", g*per, ran, refused)
		}
		// exact refusal, no leak
		atomic.StoreInt32(&mode, 1)
		gate = make(chan struct{})
		ranBefore := atomic.LoadInt64(&ran)
		var pw sync.WaitGroup
		for i := 0; i < n; i++ {
			pw.Add(1)
			go func() {
				defer pw.Done()
				h.ServeHTTP(httptest.NewRecorder(), httptest.NewRequest(http.MethodGet, "/park", nil))
			}()
		}
		deadline := time.Now().Add(20 * time.Second)
		for atomic.LoadInt64(&ran)-ranBefore < int64(n) {
			if time.Now().After(deadline) {
				close(gate)
				t.Fatalf("capacity leaked: only %d of %d requests admitted after all handlers (some panicking) finished", atomic.LoadInt64(&ran)-ranBefore, n)
			}
			time.Sleep(100 * time.Microsecond)
		}
		rr := httptest.NewRecorder()
		h.ServeHTTP(rr, httptest.NewRequest(http.MethodGet, "/extra", nil))
		if rr.Code != http.StatusServiceUnavailable || atomic.LoadInt64(&ran)-ranBefore != int64(n) {
			close(gate)
			t.Fatalf("with %d handlers parked request %d got status %d (handler ran: %v)", n, n+1, rr.Code, atomic.LoadInt64(&ran)-ranBefore != int64(n))
		}
		close(gate)
		pw.Wait()
		if max == int64(n) && refused > 0 {
			st.NonTrivial(fmt.Sprintf("n=%d g=%d per=%d refused=%d", n, g, per, refused))
		}
	})
}

// n <= 0 disables the middleware.
func TestVerifC05MaxConnsDisabled(t *testing.T) {
	ran := 0
	h := handler.MaxConnsHandler(0)(http.HandlerFunc(func(w http.ResponseWriter, r *http.Request) { ran++ }))
	for i := 0; i < 10; i++ {
		h.ServeHTTP(httptest.NewRecorder(), httptest.NewRequest(http.MethodGet, "/", nil))
	}
	if ran != 10 {
		t.Fatalf("MaxConnsHandler(0) ran the handler %d of 10 times", ran)
	}
}
