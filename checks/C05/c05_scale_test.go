//go:build verif

package syncx_test

// Unit `scale`: long histories on ONE Limit / TimeoutLimit / Pool (with and without max age).
//
// The other units of C05 judge one short burst per object (n <= 8, at most 4n*8 = 256
// acquisitions).  Here one object lives through a drawn sequence of churn segments
// (sequential bursts of a drawn depth, repeated; concurrent churn by a drawn number of
// goroutines) BEFORE and BETWEEN the judged phases.  Capacities, depths, goroutine counts,
// cycle counts and max ages are drawn log-uniformly over wide ranges (n 1..8191, up to
// ~5*10^5 cycles in a large case, max age 65 us..9.7 h of virtual time), not tuned to any
// threshold.  The oracle is the one of the small units, applied during the whole history:
// gauge inside the region <= n at every entry, a pooled resource CAS-marked (never two
// users, never destroyed while in use), created-destroyed <= n, a holder's Return is
// accepted, a surplus Return at zero holders reports ErrLimitReturn, and at every judged
// phase (all holders finished, some by panic) exactly n acquisitions succeed and the
// (n+1)-th is refused (TryBorrow false / ErrTimeout) or stays blocked (Pool.Get).
//
// All draws are made up front; the plan is executed by one worker goroutine that the
// property goroutine watches through a progress counter (20 s without one successful
// acquisition while the worker is not finished = a blocked acquisition that the capacity
// allows = leak verdict, the same reading as the 20-30 s watchdogs of the small units).

import (
	"fmt"
	"math/bits"
	"runtime"
	"strings"
	"sync"
	"sync/atomic"
	"testing"
	"time"

	"github.com/zeromicro/go-zero/core/syncx"
	"github.com/zeromicro/go-zero/core/timex"
	"github.com/zeromicro/go-zero/internal/verifkit"
	"pgregory.net/rapid"
)

// 100 x the most acquisitions any small generator makes on one object (limit-concurrent:
// 4n goroutines * 8 rounds with n = 8).
const c05scaleNonTrivial = 100 * 256

var c05scaleStalled int32

// c05logU draws log-uniformly from [2^loBits, 2^(hiBits+1)).
func c05logU(t *rapid.T, label string, loBits, hiBits int) int {
	e := rapid.IntRange(loBits, hiBits).Draw(t, label+"Bits")
	return rapid.IntRange(1<<uint(e), 1<<uint(e+1)-1).Draw(t, label)
}

// c05logUTo draws log-uniformly from [1, max].
func c05logUTo(t *rapid.T, label string, max int) int {
	if max <= 1 {
		return 1
	}
	e := rapid.IntRange(0, bits.Len(uint(max))-1).Draw(t, label+"Bits")
	lo, hi := 1<<uint(e), 1<<uint(e+1)-1
	if hi > max {
		hi = max
	}
	return rapid.IntRange(lo, hi).Draw(t, label)
}

func c05min(a, b int) int {
	if a < b {
		return a
	}
	return b
}

func c05max(a, b int) int {
	if a > b {
		return a
	}
	return b
}

type c05seg struct {
	conc         bool
	weight       int
	cycles       int // share of the case's cycle budget
	depth        int // sequential: permits/resources held at once, 1..n
	deepEvery    int // sequential: every deepEvery-th repetition goes down to `deep` instead (0 = never)
	deep         int // depth..n; what lies between depth and deep stays idle while the top stays hot
	probe        bool
	order        int // sequential release order: 0 LIFO, 1 FIFO, 2 rotating
	mode         int // how acquisitions are made (see must/maybe)
	advNum       int // pool with max age: the virtual clock moves by maxAge*advNum/64
	advWhen      int // 0 while holding, 1 while everything is idle
	surplusEvery int
	g            int // concurrent: goroutines
	yieldEvery   int
	judged       bool
	jg, jper     int
	jmode        int
	jpanicEvery  int
	jhold        c05jit
}

func (s c05seg) String() string {
	var b strings.Builder
	if s.conc {
		fmt.Fprintf(&b, "conc(g=%d cycles=%d mode=%d yieldEvery=%d adv=%d/64)", s.g, s.cycles, s.mode, s.yieldEvery, s.advNum)
	} else {
		fmt.Fprintf(&b, "seq(depth=%d deep=%d every %d cycles=%d mode=%d order=%d probe=%v adv=%d/64@%d surplusEvery=%d)", s.depth, s.deep, s.deepEvery, s.cycles, s.mode, s.order, s.probe, s.advNum, s.advWhen, s.surplusEvery)
	}
	if s.judged {
		fmt.Fprintf(&b, "+judged(g=%d rounds=%d mode=%d panicEvery=%d hold=%d/%d)", s.jg, s.jper, s.jmode, s.jpanicEvery, s.jhold.kind, s.jhold.n)
	}
	return b.String()
}

type c05scaleCase struct {
	kind   string
	n      int
	maxAge time.Duration
	large  bool
	total  int
	segs   []c05seg
}

func (c c05scaleCase) String() string {
	var b strings.Builder
	fmt.Fprintf(&b, "%s n=%d maxAge=%v large=%v cycles=%d:", c.kind, c.n, c.maxAge, c.large, c.total)
	for _, s := range c.segs {
		b.WriteString(" " + s.String())
	}
	return b.String()
}

func c05genScale(t *rapid.T, every int) c05scaleCase {
	var c c05scaleCase
	// the die shrinks towards 1 = a small case
	c.large = rapid.IntRange(1, every).Draw(t, "largeDie") == every
	c.kind = rapid.SampledFrom([]string{"limit", "timeoutlimit", "pool", "pool-maxage"}).Draw(t, "kind")
	c.n = c05logU(t, "n", 0, 12)
	if c.kind == "pool-maxage" {
		c.maxAge = time.Duration(c05logU(t, "maxAgeNs", 16, 44))
	}
	if c.large {
		c.total = c05logU(t, "cycles", 10, 18)
	} else {
		c.total = rapid.IntRange(1, 256).Draw(t, "cycles")
	}
	nseg := rapid.IntRange(1, 6).Draw(t, "segments")
	sumW := 0
	for i := 0; i < nseg; i++ {
		var s c05seg
		s.conc = rapid.Bool().Draw(t, "concurrent")
		s.weight = rapid.IntRange(1, 8).Draw(t, "weight")
		sumW += s.weight
		switch rapid.IntRange(0, 2).Draw(t, "depthKind") {
		case 0:
			s.depth = c05logUTo(t, "depth", c.n)
		case 1:
			s.depth = c.n
		default:
			s.depth = rapid.IntRange(1, c05min(c.n, 8)).Draw(t, "depth")
		}
		if rapid.Bool().Draw(t, "hotCold") {
			s.deepEvery = c05logU(t, "deepEvery", 1, 11)
			s.deep = s.depth + c05logUTo(t, "deepExtra", c05max(1, c.n-s.depth)) - 1
			if rapid.IntRange(0, 3).Draw(t, "deepAll") == 0 {
				s.deep = c.n
			}
			s.deep = c05min(c.n, c05max(s.deep, s.depth))
		}
		s.probe = rapid.Bool().Draw(t, "probe")
		s.order = rapid.IntRange(0, 2).Draw(t, "order")
		s.mode = rapid.IntRange(0, 2).Draw(t, "mode")
		if c.maxAge > 0 {
			s.advNum = rapid.SampledFrom([]int{0, 0, 1, 8, 32, 65, 200}).Draw(t, "advance64ths")
			s.advWhen = rapid.IntRange(0, 1).Draw(t, "advanceWhen")
		}
		s.surplusEvery = rapid.SampledFrom([]int{0, 1, 16}).Draw(t, "surplusEvery")
		s.g = c05logUTo(t, "goroutines", c05min(8*c.n, 127))
		s.yieldEvery = rapid.SampledFrom([]int{0, 1, 7, 64}).Draw(t, "yieldEvery")
		s.judged = i == nseg-1 || rapid.IntRange(0, 2).Draw(t, "judged") == 0
		if s.judged {
			s.jg = rapid.IntRange(1, c05min(4*c.n, 48)).Draw(t, "judgedGoroutines")
			s.jper = rapid.IntRange(1, 6).Draw(t, "judgedRounds")
			s.jmode = rapid.IntRange(0, 2).Draw(t, "judgedMode")
			s.jpanicEvery = rapid.SampledFrom([]int{0, 2, 5}).Draw(t, "judgedPanicEvery")
			s.jhold = c05genJit(t, "judgedHold")
		}
		c.segs = append(c.segs, s)
	}
	for i := range c.segs {
		c.segs[i].cycles = c05max(1, c.total*c.segs[i].weight/sumW)
	}
	return c
}

// ------------------------------------------------------------ the object under test

type c05scaleObj interface {
	// must: an acquisition for which capacity is free (sequential caller, fewer than n held)
	must(mode int) (*pres, string)
	// maybe: an acquisition under contention; false = refused / timed out
	maybe(mode, i int) (*pres, bool)
	release(tok *pres) string
	// refused: the caller holds all n; the (n+1)-th acquisition must be refused or blocked
	refused(r *c05scaleRun, held []*pres) string
	// refusedNow: the part of refused that needs no waiting ("" where there is none)
	refusedNow(held []*pres) string
	// surplus: nobody holds anything; a Return must report ErrLimitReturn
	surplus() string
}

type c05limObj struct {
	timeout bool
	lim     syncx.Limit
	tl      syncx.TimeoutLimit
}

func (o *c05limObj) must(mode int) (*pres, string) {
	switch {
	case o.timeout && mode == 0:
		if !o.tl.TryBorrow() {
			return nil, "TimeoutLimit.TryBorrow refused"
		}
	case o.timeout:
		if err := o.tl.Borrow(time.Second); err != nil {
			return nil, fmt.Sprintf("TimeoutLimit.Borrow(1s) returned %v", err)
		}
	case mode == 0:
		if !o.lim.TryBorrow() {
			return nil, "Limit.TryBorrow refused"
		}
	default:
		o.lim.Borrow()
	}
	return nil, ""
}

func (o *c05limObj) maybe(mode, i int) (*pres, bool) {
	if o.timeout {
		m := mode
		if mode == 2 {
			m = i % 3
		}
		switch m {
		case 0:
			// may time out with a permit free (Return's Signal is lost when no borrower is
			// parked at that instant); the statement allows "refused", so it is only counted
			return nil, o.tl.Borrow(50*time.Millisecond) == nil
		case 1:
			return nil, o.tl.TryBorrow()
		default:
			return nil, o.tl.Borrow(200*time.Microsecond) == nil
		}
	}
	m := mode
	if mode == 2 {
		m = i & 1
	}
	if m == 0 {
		o.lim.Borrow()
		return nil, true
	}
	return nil, o.lim.TryBorrow()
}

func (o *c05limObj) release(*pres) string {
	var err error
	if o.timeout {
		err = o.tl.Return()
	} else {
		err = o.lim.Return()
	}
	if err != nil {
		return fmt.Sprintf("Return by a holder failed: %v", err)
	}
	return ""
}

func (o *c05limObj) refused(r *c05scaleRun, held []*pres) string {
	if o.timeout {
		if o.tl.TryBorrow() {
			return fmt.Sprintf("TryBorrow admitted a holder beyond the capacity %d", len(held))
		}
		if err := o.tl.Borrow(time.Millisecond); err != syncx.ErrTimeout {
			return fmt.Sprintf("Borrow(1ms) with all %d permits held returned %v, want ErrTimeout", len(held), err)
		}
		return ""
	}
	if o.lim.TryBorrow() {
		return fmt.Sprintf("TryBorrow admitted a holder beyond the capacity %d", len(held))
	}
	return ""
}

func (o *c05limObj) refusedNow(held []*pres) string {
	if o.timeout && o.tl.TryBorrow() || !o.timeout && o.lim.TryBorrow() {
		return fmt.Sprintf("TryBorrow admitted a holder beyond the capacity %d", len(held))
	}
	return ""
}

func (o *c05limObj) surplus() string {
	var err error
	if o.timeout {
		err = o.tl.Return()
	} else {
		err = o.lim.Return()
	}
	if err != syncx.ErrLimitReturn {
		return fmt.Sprintf("surplus Return with no permit borrowed gave %v, want ErrLimitReturn", err)
	}
	return ""
}

type c05poolObj struct{ pool *syncx.Pool }

func (o *c05poolObj) must(int) (*pres, string)     { return o.pool.Get().(*pres), "" }
func (o *c05poolObj) maybe(int, int) (*pres, bool) { return o.pool.Get().(*pres), true }
func (o *c05poolObj) release(tok *pres) string     { o.pool.Put(tok); return "" }
func (o *c05poolObj) surplus() string              { return "" }
func (o *c05poolObj) refusedNow([]*pres) string    { return "" }

func (o *c05poolObj) refused(r *c05scaleRun, held []*pres) string {
	extra := make(chan *pres, 1)
	go func() { extra <- o.pool.Get().(*pres) }()
	select {
	case <-extra:
		return fmt.Sprintf("Get #%d was admitted beyond the limit %d", len(held)+1, len(held))
	case <-time.After(3 * time.Millisecond):
	}
	r.leave(held[0])
	o.pool.Put(held[0])
	select {
	case x := <-extra:
		r.enter(x)
		held[0] = x
	case <-time.After(20 * time.Second):
		return "Put did not wake the waiting Get"
	}
	return ""
}

// ------------------------------------------------------------ executing a plan

type c05scaleRun struct {
	c                  c05scaleCase
	obj                c05scaleObj
	gg                 gauge
	prog               int64 // successful acquisitions so far
	refusedN           int64
	created, destroyed int64
	advBudget          int64
	hotStale           int64 // sequential bursts that popped a hot top and expired stale resources below it
	judgedPassed       int64
	bad                atomic.Value
	where              atomic.Value
}

func (r *c05scaleRun) fail(format string, a ...any) {
	r.bad.CompareAndSwap(nil, fmt.Sprintf(format, a...)+" ["+r.where.Load().(string)+"]")
}

func (r *c05scaleRun) failed() bool { return r.bad.Load() != nil }

func (r *c05scaleRun) enter(tok *pres) {
	if tok != nil && !atomic.CompareAndSwapInt32(&tok.inUse, 0, 1) {
		r.fail("resource %d handed to two users at once", tok.id)
	}
	if c := r.gg.enter(); c > int64(r.c.n) {
		r.fail("%d holders inside the guarded region, capacity %d", c, r.c.n)
	}
	atomic.AddInt64(&r.prog, 1)
}

func (r *c05scaleRun) leave(tok *pres) {
	r.gg.leave()
	if tok != nil {
		atomic.StoreInt32(&tok.inUse, 0)
	}
}

func (r *c05scaleRun) advance(s c05seg) {
	if s.advNum == 0 || r.c.maxAge == 0 {
		return
	}
	d := int64(r.c.maxAge) * int64(s.advNum) / 64
	if d <= 0 {
		d = 1
	}
	// the virtual clock is an int64 of nanoseconds: stop moving it before it could overflow
	if atomic.AddInt64(&r.advBudget, -d) < 0 {
		return
	}
	timex.VerifAdvance(time.Duration(d))
}

func (r *c05scaleRun) seq(s c05seg) {
	reps := c05max(1, s.cycles/s.depth)
	if s.deepEvery > 0 {
		// keep the segment near its cycle budget: one period = deepEvery-1 shallow repetitions + a deep one
		reps = c05max(1, int(int64(s.cycles)*int64(s.deepEvery)/int64((s.deepEvery-1)*s.depth+s.deep)))
	}
	held := make([]*pres, 0, c05max(s.depth, s.deep))
	for rep := 0; rep < reps && !r.failed(); rep++ {
		held = held[:0]
		depth := s.depth
		if s.deepEvery > 0 && rep%s.deepEvery == s.deepEvery-1 {
			depth = s.deep
		}
		d0 := atomic.LoadInt64(&r.destroyed)
		reused := false
		for i := 0; i < depth; i++ {
			c0 := atomic.LoadInt64(&r.created)
			tok, v := r.obj.must(s.mode)
			if v != "" {
				r.fail("%s with %d of %d held by the only user", v, i, r.c.n)
				return
			}
			r.enter(tok)
			held = append(held, tok)
			if tok != nil && atomic.LoadInt64(&r.created) == c0 {
				reused = true
			}
		}
		if reused && atomic.LoadInt64(&r.destroyed) > d0 {
			r.hotStale++
		}
		if s.advWhen == 0 {
			r.advance(s)
		}
		if s.probe && depth == r.c.n {
			// the waiting forms of the probe (timed borrow, blocked Get) only on the first deep and the last repetition
			v := ""
			if rep == reps-1 || depth != s.depth && rep/s.deepEvery == 0 {
				v = r.obj.refused(r, held)
			} else {
				v = r.obj.refusedNow(held)
			}
			if v != "" {
				r.fail("%s", v)
				return
			}
		}
		rel := func(tok *pres) {
			r.leave(tok)
			if v := r.obj.release(tok); v != "" {
				r.fail("%s", v)
			}
		}
		switch s.order {
		case 0:
			for i := len(held) - 1; i >= 0; i-- {
				rel(held[i])
			}
		case 1:
			for i := 0; i < len(held); i++ {
				rel(held[i])
			}
		default:
			for i := 0; i < len(held); i++ {
				rel(held[(i+rep)%len(held)])
			}
		}
		if s.advWhen == 1 {
			r.advance(s)
		}
		if s.surplusEvery > 0 && rep%s.surplusEvery == 0 {
			if v := r.obj.surplus(); v != "" {
				r.fail("%s", v)
			}
		}
	}
}

func (r *c05scaleRun) conc(s c05seg) {
	per := c05max(1, s.cycles/s.g)
	var wg sync.WaitGroup
	for k := 0; k < s.g; k++ {
		wg.Add(1)
		go func(k int) {
			defer wg.Done()
			for i := 0; i < per && !r.failed(); i++ {
				tok, ok := r.obj.maybe(s.mode, i+k)
				if !ok {
					atomic.AddInt64(&r.refusedN, 1)
					continue
				}
				r.enter(tok)
				if s.yieldEvery > 0 && (i+k)%s.yieldEvery == 0 {
					runtime.Gosched()
				}
				if (i+k)%16 == 0 {
					r.advance(s)
				}
				r.leave(tok)
				if v := r.obj.release(tok); v != "" {
					r.fail("%s", v)
				}
			}
		}(k)
	}
	wg.Wait()
}

// judged: the burst of the small units (holders with jitter, some ending by panic), then at
// quiescence exactly n acquisitions succeed and the (n+1)-th is refused or blocked.
func (r *c05scaleRun) judged(si int, s c05seg) {
	n := r.c.n
	var wg sync.WaitGroup
	for k := 0; k < s.jg; k++ {
		wg.Add(1)
		go func(k int) {
			defer wg.Done()
			for j := 0; j < s.jper; j++ {
				tok, ok := r.obj.maybe(s.jmode, j+k)
				if !ok {
					atomic.AddInt64(&r.refusedN, 1)
					continue
				}
				func() {
					defer func() {
						recover()
						r.leave(tok)
						if v := r.obj.release(tok); v != "" {
							r.fail("%s", v)
						}
					}()
					r.enter(tok)
					s.jhold.run()
					if s.jpanicEvery > 0 && k%s.jpanicEvery == 0 && j == k%s.jper {
						panic("holder panic")
					}
				}()
			}
		}(k)
	}
	wg.Wait()
	if r.failed() {
		return
	}
	if v := r.obj.surplus(); v != "" {
		r.fail("%s", v)
		return
	}
	held := make([]*pres, 0, n)
	d0 := atomic.LoadInt64(&r.destroyed)
	reused := false
	for i := 0; i < n; i++ {
		r.where.Store(fmt.Sprintf("judged phase after segment %d: acquisition %d of %d after all holders finished", si, i+1, n))
		c0 := atomic.LoadInt64(&r.created)
		tok, v := r.obj.must(0)
		if tok != nil && atomic.LoadInt64(&r.created) == c0 {
			reused = true
		}
		if v != "" {
			r.fail("capacity leaked: only %d of %d acquisitions succeeded after all holders finished (%s)", i, n, v)
			return
		}
		r.enter(tok)
		held = append(held, tok)
	}
	if reused && atomic.LoadInt64(&r.destroyed) > d0 {
		r.hotStale++
	}
	r.where.Store(fmt.Sprintf("judged phase after segment %d: acquisition %d with all %d held", si, n+1, n))
	if v := r.obj.refused(r, held); v != "" {
		r.fail("%s", v)
		return
	}
	for i := len(held) - 1; i >= 0; i-- {
		r.leave(held[i])
		if v := r.obj.release(held[i]); v != "" {
			r.fail("%s", v)
			return
		}
	}
	if v := r.obj.surplus(); v != "" {
		r.fail("%s", v)
		return
	}
	if live := atomic.LoadInt64(&r.created) - atomic.LoadInt64(&r.destroyed); live > int64(n) {
		r.fail("%d resources alive, limit %d", live, n)
		return
	}
	if !r.failed() {
		r.judgedPassed++
	}
}

func (r *c05scaleRun) run() {
	for si, s := range r.c.segs {
		if r.failed() {
			return
		}
		r.where.Store(fmt.Sprintf("segment %d %s", si, s.String()))
		if s.conc {
			r.conc(s)
		} else {
			r.seq(s)
		}
		if s.judged && !r.failed() {
			r.where.Store(fmt.Sprintf("judged phase after segment %d: burst", si))
			r.judged(si, s)
		}
	}
}

func TestVerifC05Scale(t *testing.T) {
	st := verifkit.New("scale")
	defer st.Flush()
	defer timex.VerifUnfreeze()
	every := verifkit.EnvInt("scale_every", 40)
	if every < 1 {
		every = 1
	}
	rapid.Check(t, func(t *rapid.T) {
		st.Eval()
		c := c05genScale(t, every)
		r := &c05scaleRun{c: c, advBudget: int64(250 * 365 * 24 * time.Hour)}
		r.where.Store("start")
		switch c.kind {
		case "limit":
			timex.VerifUnfreeze()
			r.obj = &c05limObj{lim: syncx.NewLimit(c.n)}
		case "timeoutlimit":
			timex.VerifUnfreeze() // Cond measures the remaining timeout on this clock
			r.obj = &c05limObj{timeout: true, tl: syncx.NewTimeoutLimit(c.n)}
		default:
			timex.VerifFreeze(400 * 24 * time.Hour)
			var seq int64
			var opts []syncx.PoolOption
			if c.maxAge > 0 {
				opts = append(opts, syncx.WithMaxAge(c.maxAge))
			}
			r.obj = &c05poolObj{syncx.NewPool(c.n, func() any {
				cr := atomic.AddInt64(&r.created, 1)
				if live := cr - atomic.LoadInt64(&r.destroyed); live > int64(c.n) {
					r.fail("%d resources alive, limit %d", live, c.n)
				}
				return &pres{id: atomic.AddInt64(&seq, 1)}
			}, func(x any) {
				atomic.AddInt64(&r.destroyed, 1)
				if atomic.LoadInt32(&x.(*pres).inUse) != 0 {
					r.fail("resource %d was destroyed while in use", x.(*pres).id)
				}
			}, opts...)}
		}
		done := make(chan struct{})
		go func() { defer close(done); r.run() }()
		last, idle := int64(-1), 0
	wait:
		for {
			select {
			case <-done:
				break wait
			case <-time.After(250 * time.Millisecond):
			}
			if p := atomic.LoadInt64(&r.prog); p != last {
				last, idle = p, 0
			} else if idle++; idle >= 80 || idle >= 2 && atomic.LoadInt32(&c05scaleStalled) != 0 {
				// the verdict needs 20 s; once it has been given, the re-runs that rapid makes to shrink
				// the failing case settle for 0.5 s
				atomic.StoreInt32(&c05scaleStalled, 1)
				t.Fatalf("capacity leaked: no acquisition succeeded for %v (20 s for the verdict, 0.5 s in the re-runs that shrink it) in [%s] with %d holders inside the region (capacity %d, %d acquisitions so far); case: %s",
					time.Duration(idle)*250*time.Millisecond, r.where.Load(), atomic.LoadInt64(&r.gg.cur), c.n, last, c.String())
			}
		}
		if v := r.bad.Load(); v != nil {
			t.Fatalf("%v after %d acquisitions; case: %s", v, atomic.LoadInt64(&r.prog), c.String())
		}
		size := int(atomic.LoadInt64(&r.prog))
		st.Class("kind:" + c.kind)
		st.Class(fmt.Sprintf("n:2^%d", bits.Len(uint(c.n))-1))
		st.ClassN("judged-phases", int(r.judgedPassed))
		if r.gg.max == int64(c.n) {
			st.Class("reached-cap")
		}
		if r.destroyed > 0 {
			st.Class("with-expiry")
		}
		if r.hotStale > 0 {
			st.Class("stale-bottom-expired-below-hot-top")
		}
		if c.large {
			st.Class("large")
			st.Class("large:" + c.kind)
			st.Class(fmt.Sprintf("large:size:2^%d", bits.Len(uint(size))-1))
			if r.hotStale > 0 {
				st.Class("large:stale-bottom-expired-below-hot-top")
			}
		}
		if size >= c05scaleNonTrivial && r.judgedPassed > 0 {
			st.Class("nontrivial:" + c.kind)
			st.NonTrivial(fmt.Sprintf("%s acquisitions=%d refused=%d judged=%d created=%d destroyed=%d", c.String(), size, r.refusedN, r.judgedPassed, r.created, r.destroyed))
		}
	})
}
