//go:build verif

package conf_test

import (
	"fmt"
	"reflect"
	"sort"
	"strings"
	"testing"

	"github.com/zeromicro/go-zero/core/conf"
	"github.com/zeromicro/go-zero/core/logx"
	"github.com/zeromicro/go-zero/internal/verifc17"
	"github.com/zeromicro/go-zero/internal/verifkit"
	"pgregory.net/rapid"
)

// C17 part 1 on layered configuration types: several embedded structs contribute members to
// the same key (conf merges them), root types share embedded struct types, and the same types
// are loaded again and again in one process, in generated order, from the three formats.
// Oracle: every rendering of a valid document is accepted by every load (same verdict whatever
// the format and whatever was loaded before), and the target holds exactly the document's values.

type c17mMember struct {
	key  string // document key
	idx  int    // field index inside the shared struct
	kind reflect.Kind
}

type c17mLayer struct {
	rt      reflect.Type // the embedded struct type: { <SharedKey> struct{members...}; Own<k> string }
	members []c17mMember // members it contributes under the shared key
	ownKey  string       // its own unique scalar key ("" if none)
}

func c17mValue(t *rapid.T, k reflect.Kind, label string) any {
	switch k {
	case reflect.Bool:
		return rapid.Bool().Draw(t, label)
	case reflect.Int64:
		return rapid.Int64Range(-1000, 1000).Draw(t, label)
	default:
		return rapid.SampledFrom([]string{"a", "Some Value", "x-y_z", "7", "ünï"}).Draw(t, label)
	}
}

func c17mKind(k reflect.Kind) reflect.Type {
	switch k {
	case reflect.Bool:
		return reflect.TypeOf(false)
	case reflect.Int64:
		return reflect.TypeOf(int64(0))
	}
	return reflect.TypeOf("")
}

func TestVerifC17Layered(t *testing.T) {
	logx.Disable()
	st := verifkit.New(c17Unit("layered"))
	defer st.Flush()
	serial := 0
	rapid.Check(t, func(t *rapid.T) {
		st.Eval()
		serial++
		shared := rapid.SampledFrom([]string{"Server", "shared", "DB_Conf", "eTcd"}).Draw(t, "sharedKey")
		nLayers := rapid.IntRange(2, 4).Draw(t, "layers")
		var layers []c17mLayer
		n := 0
		for i := 0; i < nLayers; i++ {
			nm := rapid.IntRange(1, 2).Draw(t, "members")
			var fs []reflect.StructField
			var ms []c17mMember
			for j := 0; j < nm; j++ {
				n++
				k := rapid.SampledFrom([]reflect.Kind{reflect.String, reflect.Int64, reflect.Bool}).Draw(t, "kind")
				key := fmt.Sprintf("%s%d", rapid.SampledFrom([]string{"Host", "port", "TimeOut", "x"}).Draw(t, "mkey"), n)
				fs = append(fs, reflect.StructField{Name: fmt.Sprintf("M%d", n), Type: c17mKind(k),
					Tag: reflect.StructTag(fmt.Sprintf(`json:"%s"`, key))})
				ms = append(ms, c17mMember{key: key, idx: j, kind: k})
			}
			sharedT := reflect.StructOf(fs)
			// the serial number makes the struct types of different cases different types, so
			// whatever the code memoises per type is first use for this case's types
			lf := []reflect.StructField{{Name: "Shared", Type: sharedT, Tag: reflect.StructTag(fmt.Sprintf(`json:"%s"`, shared))},
				{Name: fmt.Sprintf("Case%dL%d", serial, i), Type: reflect.TypeOf(""), Tag: `json:",optional"`}}
			l := c17mLayer{members: ms}
			if rapid.Bool().Draw(t, "own") {
				n++
				l.ownKey = fmt.Sprintf("own%d", n)
				lf = append(lf, reflect.StructField{Name: fmt.Sprintf("Own%d", n), Type: reflect.TypeOf(""),
					Tag: reflect.StructTag(fmt.Sprintf(`json:"%s"`, l.ownKey))})
			}
			l.rt = reflect.StructOf(lf)
			layers = append(layers, l)
		}
		// two root types over subsets of the layers (embedded by value or by pointer)
		type root struct {
			rt     reflect.Type
			layers []int
			ptr    []bool
		}
		mkRoot := func(label string) root {
			var r root
			perm := rapid.Permutation(seqInts(nLayers)).Draw(t, label+"order")
			take := rapid.IntRange(2, nLayers).Draw(t, label+"take")
			var fs []reflect.StructField
			for _, li := range perm[:take] {
				p := rapid.IntRange(0, 3).Draw(t, label+"ptr") == 0
				ft := layers[li].rt
				if p {
					ft = reflect.PtrTo(ft)
				}
				fs = append(fs, reflect.StructField{Name: fmt.Sprintf("L%d", li), Type: ft, Anonymous: true})
				r.layers = append(r.layers, li)
				r.ptr = append(r.ptr, p)
			}
			r.rt = reflect.StructOf(fs)
			return r
		}
		roots := []root{mkRoot("a"), mkRoot("b")}
		desc := fmt.Sprintf("shared=%q layers=%d rootA=%v rootB=%v", shared, nLayers, roots[0].layers, roots[1].layers)
		nLoads := rapid.IntRange(3, 8).Draw(t, "loads")
		var history []string
		for li := 0; li < nLoads; li++ {
			r := roots[rapid.IntRange(0, 1).Draw(t, "root")]
			format := rapid.SampledFrom([]string{"json", "yaml", "toml"}).Draw(t, "format")
			// a valid document for r: every member of every layer of r under the shared key
			sh := map[string]any{}
			doc := map[string]any{}
			want := map[string]any{} // "<layer>/<key>" -> value
			for _, lidx := range r.layers {
				l := layers[lidx]
				for _, m := range l.members {
					v := c17mValue(t, m.kind, "v")
					sh[m.key] = v
					want[fmt.Sprintf("%d/%s", lidx, m.key)] = v
				}
				if l.ownKey != "" {
					v := c17mValue(t, reflect.String, "own")
					doc[l.ownKey] = v
					want[fmt.Sprintf("%d/%s", lidx, l.ownKey)] = v
				}
			}
			docKey := shared
			switch rapid.IntRange(0, 3).Draw(t, "case") {
			case 0:
				docKey = strings.ToLower(shared)
			case 1:
				docKey = strings.ToUpper(shared)
			}
			doc[docKey] = sh
			var content []byte
			var ok bool
			var load func([]byte, any) error
			switch format {
			case "json":
				content, ok = verifc17.RenderJSON(doc, false)
				load = func(b []byte, p any) error { return conf.LoadFromJsonBytes(b, p) }
			case "yaml":
				content, ok = verifc17.RenderYAML(doc)
				load = func(b []byte, p any) error { return conf.LoadFromYamlBytes(b, p) }
			default:
				content, ok = verifc17.RenderTOML(doc)
				load = func(b []byte, p any) error { return conf.LoadFromTomlBytes(b, p) }
			}
			if !ok {
				st.Class("unrepresentable")
				continue
			}
			history = append(history, fmt.Sprintf("%s->root%v", format, r.layers))
			target := reflect.New(r.rt)
			var err error
			func() {
				defer func() {
					if rec := recover(); rec != nil {
						err = fmt.Errorf("PANIC: %v", rec)
					}
				}()
				err = load(content, target.Interface())
			}()
			if err != nil {
				t.Fatalf("C17 VIOLATED (same error-or-success verdict whatever the format): load #%d (%s) of a valid document was rejected: %v\n  %s\n  loads so far: %v\n  type: %s\n  document: %s",
					li, format, err, desc, history, r.rt, content)
			}
			// the target holds exactly the document's values
			got := map[string]any{}
			for fi, lidx := range r.layers {
				lv := target.Elem().Field(fi)
				if r.ptr[fi] {
					if lv.IsNil() {
						t.Fatalf("C17 VIOLATED: embedded pointer layer %d left nil although its members were supplied; %s; document %s", lidx, desc, content)
					}
					lv = lv.Elem()
				}
				l := layers[lidx]
				for _, m := range l.members {
					got[fmt.Sprintf("%d/%s", lidx, m.key)] = lv.Field(0).Field(m.idx).Interface()
				}
				if l.ownKey != "" {
					got[fmt.Sprintf("%d/%s", lidx, l.ownKey)] = lv.Field(2).Interface()
				}
			}
			if !reflect.DeepEqual(got, want) {
				ks := make([]string, 0, len(want))
				for k := range want {
					ks = append(ks, k)
				}
				sort.Strings(ks)
				t.Fatalf("C17 VIOLATED (deeply equal values): load #%d (%s) decoded %v, the document says %v (keys %v)\n  %s\n  loads so far: %v\n  document: %s",
					li, format, got, want, ks, desc, history, content)
			}
			st.Class("load:" + format)
		}
		if len(history) >= 3 {
			st.NonTrivial(desc + " " + strings.Join(history, ","))
		}
	})
}

func seqInts(n int) []int {
	out := make([]int, n)
	for i := range out {
		out[i] = i
	}
	return out
}
