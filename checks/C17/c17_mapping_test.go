//go:build verif

package mapping_test

import (
	"bytes"
	"encoding/json"
	"flag"
	"fmt"
	"io"
	"os"
	"reflect"
	"runtime"
	"strings"
	"testing"
	"testing/iotest"

	"github.com/zeromicro/go-zero/core/logx"
	"github.com/zeromicro/go-zero/core/mapping"
	"github.com/zeromicro/go-zero/internal/verifc17"
	"github.com/zeromicro/go-zero/internal/verifkit"
	"pgregory.net/rapid"
)

// C17 part 2: for types that use only plain json name tags, built from numbers,
// strings, booleans, nested structs, slices, maps and pointers, whenever both
// mapping.UnmarshalJsonBytes and encoding/json accept an input the decoded values are
// deeply equal (nil and empty containers identified: the two decoders document
// different zero values for an absent container).

type c17dec struct {
	val reflect.Value
	err error
}

func c17Decode(rt reflect.Type, f func([]byte, any) error, data []byte) (res c17dec) {
	defer func() {
		if r := recover(); r != nil {
			res.err = fmt.Errorf("PANIC: %v", r)
		}
	}()
	res.val = reflect.New(rt)
	res.err = f(data, res.val.Interface())
	return res
}

func c17Mapping(data []byte, v any) error { return mapping.UnmarshalJsonBytes(data, v) }

// c17Agree applies the oracle to one (type, JSON text) pair and returns the class of the
// pair; fail is called on a disagreement.
func c17Agree(rt reflect.Type, data []byte, fail func(format string, args ...any)) string {
	m := c17Decode(rt, c17Mapping, data)
	j := c17Decode(rt, json.Unmarshal, data)
	if m.err != nil && strings.HasPrefix(m.err.Error(), "PANIC: ") {
		fail("mapping.UnmarshalJsonBytes panicked: %v\ntype %s\ninput %s", m.err, rt, data)
		return "panic"
	}
	switch {
	case m.err == nil && j.err == nil:
		if !verifc17.EqualData(m.val.Elem(), j.val.Elem()) {
			fail("both decoders accept, values differ\nmapping:       %s\nencoding/json: %s\ntype %s\ninput %s",
				c17Show(m.val), c17Show(j.val), rt, data)
		}
		return "both-accept"
	case m.err != nil && j.err != nil:
		return "both-reject"
	case m.err == nil:
		return "only-mapping-accepts"
	default:
		return "only-encoding/json-accepts"
	}
}

func c17Show(v reflect.Value) string {
	b, err := json.Marshal(v.Interface())
	if err != nil {
		return fmt.Sprintf("%+v", v.Elem().Interface())
	}
	return fmt.Sprintf("%s (%+v)", b, v.Elem().Interface())
}

// c17KnownD13: finding D13 (float32 struct fields are rounded twice) is listed as known;
// the generator then never places the midpoint of two adjacent float32 values in a
// float32 slot (counted), and the minimal input only prints KNOWN-FINDING.
var c17KnownD13 = verifkit.KnownFindings("C17")["D13"]

// TestVerifC17RegressFloat32 keeps the shrunk inputs of D13: a decimal literal just
// above the midpoint of two adjacent float32 values whose nearest float64 is exactly
// that midpoint.  encoding/json rounds once (up); mapping rounded the float64 (ties to
// even: down) for a float32 struct field, although it rounds once for []float32 and
// map[string]float32 elements.
func TestVerifC17RegressFloat32(t *testing.T) {
	logx.Disable()
	st := verifkit.New("agree")
	defer st.Flush()
	type field struct {
		A float32 `json:"a"`
	}
	type ptr struct {
		A *float32 `json:"a"`
	}
	type elems struct {
		A []float32          `json:"a"`
		B map[string]float32 `json:"b"`
	}
	cases := []struct {
		v    any
		data string
	}{
		{field{}, `{"a":2.3159180879592896}`},
		{field{}, `{"a":1.0000000596046448}`},
		{field{}, `{"a":-1.0000000596046448}`},
		{ptr{}, `{"a":1.0000000596046448}`},
		{elems{}, `{"a":[1.0000000596046448],"b":{"k":2.3159180879592896}}`},
	}
	for _, c := range cases {
		st.Eval()
		var msg string
		c17Agree(reflect.TypeOf(c.v), []byte(c.data), func(format string, args ...any) {
			msg = fmt.Sprintf(format, args...)
		})
		if msg == "" {
			continue
		}
		if c17KnownD13 {
			st.KnownFinding("D13", "mapping.UnmarshalJsonBytes rounds a float32 struct field twice: "+c.data+" decodes to a different float32 than with encoding/json")
			return
		}
		t.Errorf("%s", msg)
	}
}

func TestVerifC17Agree(t *testing.T) {
	logx.Disable()
	st := verifkit.New("agree")
	defer st.Flush()
	docsPerType := verifkit.EnvInt("docs", 3)
	rapid.Check(t, func(t *rapid.T) {
		tp, excl := verifc17.GenStruct(t, c17Cfg(verifc17.Cfg{MaxDepth: 3}))
		for k, n := range excl {
			if strings.HasPrefix(k, "generated:") {
				st.ClassN("shape:"+strings.TrimPrefix(k, "generated:"), n)
				continue
			}
			st.ClassN("excluded-shape:"+k, n)
			for i := 0; i < n; i++ {
				st.Excluded()
			}
		}
		for d := 0; d < docsPerType; d++ {
			st.Eval()
			g := &verifc17.DocGen{T: t, F32Mid: !c17KnownD13, Mutate: rapid.IntRange(0, 9).Draw(t, "mode") >= 5}
			doc := g.Doc(tp)
			st.ClassN("float32-midpoint-literal", g.F32MidUsed)
			if c17KnownD13 {
				for i := 0; i < g.F32MidSkipped; i++ {
					st.Excluded()
				}
			}
			data, ok := verifc17.RenderJSON(doc, rapid.Bool().Draw(t, "indent"))
			if !ok {
				st.Class("unrepresentable")
				continue
			}
			class := c17Agree(tp.RT(), data, func(format string, args ...any) {
				t.Fatalf("%s\nspec %s\nmutations %v", fmt.Sprintf(format, args...), tp, g.Muts)
			})
			st.Class(class)
			valid := len(g.Muts) == 0
			if valid {
				st.Class("doc:valid")
				// guard against vacuity: a complete, well-typed document is accepted by both
				if class != "both-accept" {
					t.Fatalf("valid document not accepted by both decoders (%s)\ntype %s\ninput %s", class, tp, data)
				}
			} else {
				st.Class("doc:mutated")
			}
			c17MappingFormats(t, st, tp, doc, g.Muts)
			depth, sc := verifc17.Shape(doc, tp)
			if (depth >= 2 && sc) || !valid {
				st.NonTrivial(fmt.Sprintf("%s | %v | %s", tp, g.Muts, data))
			}
		}
	})
}

// c17MappingFormats: the mapping-level entry points for the three formats
// (Unmarshal{Json,Yaml,Toml}{Bytes,Reader}) give the same verdict and deeply equal values
// on the three renderings of one document; with WithCanonicalKeyFunc(strings.ToLower)
// passed to all three, a document whose struct keys are lower-cased loads like the
// exact-case document without the option.
func c17MappingFormats(t *rapid.T, st *verifkit.Stats, tp *verifc17.Type, doc map[string]any, muts []string) {
	var opts []mapping.UnmarshalOption
	canon := rapid.IntRange(0, 2).Draw(t, "canonical") == 0
	if canon {
		n := 0
		doc = verifc17.Recase(doc, tp, strings.ToLower, &n).(map[string]any)
		opts = append(opts, mapping.WithCanonicalKeyFunc(strings.ToLower))
	}
	jb, okj := verifc17.RenderJSON(doc, false)
	yb, oky := verifc17.RenderYAML(doc)
	tb, okt := verifc17.RenderTOML(doc)
	if !okj || !oky || !okt {
		st.Class(fmt.Sprintf("formats:unrepresentable(json=%v,yaml=%v,toml=%v)", okj, oky, okt))
		return
	}
	// the Reader entry points get readers that behave in every way io.Reader allows: all at once, one
	// byte per Read, half of what is asked for, the last data together with io.EOF (what iotest's
	// DataErrReader does, and an HTTP body of known length), and short chunks of a drawn size
	readerKind := rapid.SampledFrom([]string{"bytes-api", "bytes.Reader", "one-byte", "half", "data-with-eof", "chunks-with-eof", "bytes-api", "bytes.Reader"}).Draw(t, "reader")
	reader := readerKind != "bytes-api"
	chunk := rapid.IntRange(1, 40).Draw(t, "chunk")
	mkReader := func(b []byte) io.Reader {
		switch readerKind {
		case "one-byte":
			return iotest.OneByteReader(bytes.NewReader(b))
		case "half":
			return iotest.HalfReader(bytes.NewReader(b))
		case "data-with-eof":
			return iotest.DataErrReader(bytes.NewReader(b))
		case "chunks-with-eof":
			return iotest.DataErrReader(&c17ChunkReader{b: b, n: chunk})
		}
		return bytes.NewReader(b)
	}
	st.Class("formats:reader=" + readerKind)
	dec := func(fb func([]byte, any, ...mapping.UnmarshalOption) error,
		fr func(io.Reader, any, ...mapping.UnmarshalOption) error, data []byte) c17dec {
		return c17Decode(tp.RT(), func(b []byte, v any) error {
			if reader {
				return fr(mkReader(b), v, opts...)
			}
			return fb(b, v, opts...)
		}, data)
	}
	mj := dec(mapping.UnmarshalJsonBytes, mapping.UnmarshalJsonReader, jb)
	my := dec(mapping.UnmarshalYamlBytes, mapping.UnmarshalYamlReader, yb)
	mt := dec(mapping.UnmarshalTomlBytes, mapping.UnmarshalTomlReader, tb)
	for _, o := range []struct {
		name string
		d    c17dec
		data []byte
	}{{"YAML", my, yb}, {"TOML", mt, tb}} {
		var msg string
		switch {
		case (mj.err == nil) != (o.d.err == nil):
			msg = fmt.Sprintf("verdicts differ: %v / %v", mj.err, o.d.err)
		case mj.err == nil && !reflect.DeepEqual(mj.val.Interface(), o.d.val.Interface()):
			msg = fmt.Sprintf("values differ: %s / %s", c17Show(mj.val), c17Show(o.d.val))
		}
		if msg != "" {
			t.Fatalf("mapping JSON vs %s (reader=%v canonicalKeyFunc=%v): %s\ntype %s\nmutations %v\nJSON %s\n%s:\n%s",
				o.name, readerKind, canon, msg, tp, muts, jb, o.name, o.data)
		}
	}
	if mj.err == nil {
		st.Class("formats:accept")
	} else {
		st.Class("formats:reject")
	}
	if canon && len(muts) == 0 && mj.err != nil {
		t.Fatalf("valid lower-cased document rejected with WithCanonicalKeyFunc(strings.ToLower): %v\ntype %s\nJSON %s", mj.err, tp, jb)
	}
}

// c17ChunkReader hands out at most n bytes per Read.
type c17ChunkReader struct {
	b []byte
	n int
}

func (r *c17ChunkReader) Read(p []byte) (int, error) {
	if len(r.b) == 0 {
		return 0, io.EOF
	}
	k := r.n
	if k > len(p) {
		k = len(p)
	}
	if k > len(r.b) {
		k = len(r.b)
	}
	copy(p, r.b[:k])
	r.b = r.b[k:]
	return k, nil
}

// ---------------------------------------------------------------- native fuzz target

type (
	c17fS struct {
		B int `json:"b"`
	}
	c17fS2 struct {
		B string  `json:"b"`
		C float32 `json:"c"`
	}
	c17fDeep struct {
		B map[string][]c17fS2 `json:"b"`
	}
)

// c17FuzzTypes: fixed types with plain json name tags only (one untagged field).
var c17FuzzTypes = []any{
	struct {
		A int `json:"a"`
	}{},
	struct {
		A int8 `json:"a"`
	}{},
	struct {
		A uint8 `json:"a"`
	}{},
	struct {
		A uint64 `json:"a"`
	}{},
	struct {
		A int64 `json:"a"`
	}{},
	struct {
		A float32 `json:"a"`
	}{},
	struct {
		A float64 `json:"a"`
	}{},
	struct {
		A string `json:"a"`
	}{},
	struct {
		A bool `json:"a"`
	}{},
	struct {
		A int    `json:"a"`
		B string `json:"b"`
		C bool   `json:"c"`
	}{},
	struct {
		A []int `json:"a"`
	}{},
	struct {
		A []string `json:"a"`
	}{},
	struct {
		A []float64 `json:"a"`
	}{},
	struct {
		A []bool `json:"a"`
	}{},
	struct {
		A []uint8 `json:"a"`
	}{},
	struct {
		A [][]int `json:"a"`
	}{},
	struct {
		A map[string]int `json:"a"`
	}{},
	struct {
		A map[string]string `json:"a"`
	}{},
	struct {
		A map[string]float32 `json:"a"`
	}{},
	struct {
		A map[string]bool `json:"a"`
	}{},
	struct {
		A map[string][]int `json:"a"`
	}{},
	struct {
		A map[string]map[string]int `json:"a"`
	}{},
	struct {
		A *int `json:"a"`
	}{},
	struct {
		A *string `json:"a"`
	}{},
	struct {
		A c17fS `json:"a"`
	}{},
	struct {
		A *c17fS `json:"a"`
	}{},
	struct {
		A []c17fS2 `json:"a"`
	}{},
	struct {
		A map[string]c17fS `json:"a"`
	}{},
	struct {
		A []*c17fS `json:"a"`
	}{},
	struct {
		A map[string]*c17fS `json:"a"`
	}{},
	struct {
		A []*int `json:"a"`
	}{},
	struct {
		A **int `json:"a"`
	}{},
	struct{ K int }{},
	struct {
		A []map[string]int `json:"a"`
	}{},
	struct {
		A []c17fDeep `json:"a"`
	}{},
	struct {
		A int16  `json:"a"`
		B uint16 `json:"b"`
		C int32  `json:"c"`
		S uint32 `json:"s"`
	}{},
}

// c17Names collects the keys a type's struct fields answer to (recursively).
func c17Names(rt reflect.Type, into map[string]bool) {
	switch rt.Kind() {
	case reflect.Ptr, reflect.Slice, reflect.Map:
		c17Names(rt.Elem(), into)
	case reflect.Struct:
		for i := 0; i < rt.NumField(); i++ {
			f := rt.Field(i)
			name := f.Name
			if tag := f.Tag.Get("json"); tag != "" {
				name = tag
			}
			into[name] = true
			c17Names(f.Type, into)
		}
	}
}

var c17FuzzSeeds = []string{
	`{"a":1}`, `{"a":-128}`, `{"a":255}`, `{"a":18446744073709551615}`, `{"a":-9223372036854775808}`,
	`{"a":1.5}`, `{"a":1.0000000596046448}`, `{"a":"x"}`, `{"a":true}`, `{"a":1,"b":"s","c":false}`,
	`{"a":[1,2,3]}`, `{"a":["x",""]}`, `{"a":[1.5,2e3]}`, `{"a":[true]}`, `{"a":"aGVsbG8="}`, `{"a":[[1],[],[2,3]]}`,
	`{"a":{"k":1}}`, `{"a":{"k":"v","":"e"}}`, `{"a":{"k":0.1}}`, `{"a":{"K":true}}`, `{"a":{"k":[1,2]}}`, `{"a":{"k":{"j":1}}}`,
	`{"a":7}`, `{"a":"p"}`, `{"a":{"b":1}}`, `{"a":{"b":2}}`, `{"a":[{"b":"x","c":1.25}]}`, `{"a":{"k":{"b":1}}}`,
	`{"a":[{"b":1},{"b":2}]}`, `{"a":{"k":{"b":1}}}`, `{"a":[1,2]}`, `{"a":3}`, `{"K":1}`, `{"a":[{"x":1},{}]}`,
	`{"a":[{"b":{"k":[{"b":"s","c":0.5}]}}]}`, `{"a":-32768,"b":65535,"c":2147483647,"s":4294967295}`,
}

var c17FuzzExtra = []string{
	`{}`, `{"a":null}`, `{"a":1,"a":2}`, `{"A":1}`, `{"a":1e2}`, `{"a":1.0}`, `{"a":"1"}`, `{"a":[1,"2",3.5]}`,
	`{"a":-0}`, `{"a":-0.0}`, `{"a":1} x`, `{"a":1e400}`, `{"a":3.40282356e38}`, `{"a":{"k":[1,2]},"zz":[{"q":1}]}`,
	`{"a":"[1,2]"}`, `{"a":"{\"k\":1}"}`, `[{"a":1}]`, `1`, `{"a":[{"b":1,"c":2}]}`, `{"a":{"b":"1"}}`, `{"K":1}`,
	` {"a" : [ ] } `, `{"a":{}}`, `{"a":""}`, `{"a":"\ud800"}`, `{"a":[[],[[]]]}`, `{"a":0.1000000000000000055511151231257827}`,
}

// c17HasFloat32Field: some struct field (at any depth) is a float32 or a pointer to one.
func c17HasFloat32Field(rt reflect.Type) bool {
	switch rt.Kind() {
	case reflect.Ptr, reflect.Slice, reflect.Map:
		return c17HasFloat32Field(rt.Elem())
	case reflect.Struct:
		for i := 0; i < rt.NumField(); i++ {
			ft := rt.Field(i).Type
			for ft.Kind() == reflect.Ptr {
				ft = ft.Elem()
			}
			if ft.Kind() == reflect.Float32 || c17HasFloat32Field(ft) {
				return true
			}
		}
	}
	return false
}

func c17Fuzzing() bool {
	f := flag.Lookup("test.fuzz")
	return f != nil && f.Value.String() != ""
}

// c17Scan reports whether a JSON text contains null, an object with a repeated key, or
// a key that matches one of names case-insensitively without being spelled exactly so
// (the three kinds of input the statement's domain excludes).
func c17Scan(data []byte, names []string) (null, dup, variant bool) {
	dec := json.NewDecoder(bytes.NewReader(data))
	dec.UseNumber()
	type frame struct {
		obj, wantKey bool
		keys         map[string]bool
	}
	var stack []*frame
	valueDone := func() {
		if n := len(stack); n > 0 && stack[n-1].obj {
			stack[n-1].wantKey = true
		}
	}
	for {
		tok, err := dec.Token()
		if err != nil {
			return
		}
		switch v := tok.(type) {
		case json.Delim:
			switch v {
			case '{':
				stack = append(stack, &frame{obj: true, wantKey: true, keys: map[string]bool{}})
			case '[':
				stack = append(stack, &frame{})
			default:
				if len(stack) > 0 {
					stack = stack[:len(stack)-1]
				}
				valueDone()
			}
		case string:
			if n := len(stack); n > 0 && stack[n-1].obj && stack[n-1].wantKey {
				top := stack[n-1]
				top.wantKey = false
				if top.keys[v] {
					dup = true
				}
				top.keys[v] = true
				for _, name := range names {
					if v != name && strings.EqualFold(v, name) {
						variant = true
					}
				}
				continue
			}
			valueDone()
		case nil:
			null = true
			valueDone()
		default:
			valueDone()
		}
	}
}

// FuzzVerifC17Agree feeds arbitrary bytes to both decoders for the fixed types.
// Quick tier: the seed corpus only.
func FuzzVerifC17Agree(f *testing.F) {
	logx.Disable()
	st := verifkit.New("agree-fuzz")
	defer st.Flush()
	campaign := c17Fuzzing() // the driver counts a campaign's executions itself
	for i, s := range c17FuzzSeeds {
		f.Add(uint8(i), []byte(s))
	}
	for i, s := range c17FuzzExtra {
		f.Add(uint8(i), []byte(s))
		f.Add(uint8(i+len(c17FuzzExtra)), []byte(s))
	}
	names := make([][]string, len(c17FuzzTypes))
	for i, v := range c17FuzzTypes {
		set := map[string]bool{}
		c17Names(reflect.TypeOf(v), set)
		for n := range set {
			names[i] = append(names[i], n)
		}
	}
	f.Fuzz(func(t *testing.T, idx uint8, data []byte) {
		if !campaign {
			st.Eval()
		}
		ti := int(idx) % len(c17FuzzTypes)
		rt := reflect.TypeOf(c17FuzzTypes[ti])
		null, dup, variant := c17Scan(data, names[ti])
		if null || dup || variant {
			st.Class(fmt.Sprintf("skipped(null=%v,dupkey=%v,casevariant=%v)", null, dup, variant))
			return
		}
		fail := t.Fatalf
		if c17KnownD13 && c17HasFloat32Field(rt) {
			// known-finding mode: a disagreement on a type with a float32 struct field is
			// not asserted by the fuzz target (counted as excluded)
			fail = func(string, ...any) { st.Excluded() }
		}
		class := c17Agree(rt, data, fail)
		st.Class(class)
		if class == "both-accept" {
			st.NonTrivial(fmt.Sprintf("%s | fuzz | %s", rt, data))
		}
	})
}

// c17Cfg keeps the type shapes of the C08 findings D9a/D9c (a pointer whose element is a
// map or slice) and D9b (a map whose element is a pointer to a primitive) out of the family
// only while they are listed as known; by default they are generated.
func c17Cfg(cfg verifc17.Cfg) verifc17.Cfg {
	kf := verifkit.KnownFindings("C08")
	cfg.ExcludePtrToContainer = kf["D9a"] || kf["D9c"] || kf["D9"]
	cfg.ExcludeMapOfPtrToPrim = kf["D9b"] || kf["D9"]
	return cfg
}

// TestVerifC17Concurrent: the mapping-level entry points yield, for every load, the
// result of the sequential load of the same document, whatever else the process is
// decoding (see the conf unit of the same name).
func TestVerifC17Concurrent(t *testing.T) {
	logx.Disable()
	st := verifkit.New(c17Unit("mconcurrent"))
	defer st.Flush()
	rounds := verifkit.EnvInt("rounds", 12)
	mk := func(name string, fb func([]byte, any, ...mapping.UnmarshalOption) error,
		fr func(io.Reader, any, ...mapping.UnmarshalOption) error, pick func(p *verifc17.Pair) []byte) []verifc17.ConcLoader {
		return []verifc17.ConcLoader{
			{Name: "Unmarshal" + name + "Bytes", Load: func(p *verifc17.Pair, k int) (reflect.Value, error) {
				d := c17Decode(p.T.RT(), func(b []byte, v any) error { return fb(b, v) }, pick(p))
				return d.val, d.err
			}},
			{Name: "Unmarshal" + name + "Reader", Load: func(p *verifc17.Pair, k int) (reflect.Value, error) {
				d := c17Decode(p.T.RT(), func(b []byte, v any) error { return fr(bytes.NewReader(b), v) }, pick(p))
				return d.val, d.err
			}},
		}
	}
	var loaders []verifc17.ConcLoader
	loaders = append(loaders, mk("Json", mapping.UnmarshalJsonBytes, mapping.UnmarshalJsonReader, func(p *verifc17.Pair) []byte { return p.J })...)
	loaders = append(loaders, mk("Yaml", mapping.UnmarshalYamlBytes, mapping.UnmarshalYamlReader, func(p *verifc17.Pair) []byte { return p.Y })...)
	loaders = append(loaders, mk("Toml", mapping.UnmarshalTomlBytes, mapping.UnmarshalTomlReader, func(p *verifc17.Pair) []byte { return p.M })...)
	rapid.Check(t, func(t *rapid.T) {
		n := rapid.IntRange(8, 32).Draw(t, "pairs")
		procs := rapid.SampledFrom([]int{0, 1, 2, 4}).Draw(t, "gomaxprocs") // 0: as the process was started
		gc := rapid.Bool().Draw(t, "gc")
		var pairs []*verifc17.Pair
		for tries := 0; len(pairs) < n && tries < 4*n; tries++ {
			pad := rapid.SampledFrom([]int{0, 3, 40, 200, 600, 1500}).Draw(t, "pad")
			p, ok := verifc17.GenPair(t, c17Cfg(verifc17.Cfg{Options: true, MaxDepth: 3}), len(pairs), pad)
			if !ok {
				st.Class("unrepresentable")
				continue
			}
			pairs = append(pairs, p)
		}
		if procs > 0 {
			defer runtime.GOMAXPROCS(runtime.GOMAXPROCS(procs))
		}
		loads, failures := verifc17.RunConcurrent(pairs, loaders, rounds, gc)
		st.EvalN(int(loads))
		st.Class(fmt.Sprintf("gomaxprocs=%d", runtime.GOMAXPROCS(0)))
		if len(failures) > 0 {
			t.Fatalf("%d goroutines, GOMAXPROCS=%d, gc=%v:\n%s", len(pairs), runtime.GOMAXPROCS(0), gc, strings.Join(failures, "\n"))
		}
		var fp strings.Builder
		for _, p := range pairs {
			fp.Write(p.J)
		}
		st.NonTrivial(fmt.Sprintf("concurrent %d pairs x %d rounds x %d loaders: %s", len(pairs), rounds, len(loaders), fp.String()))
	})
}

// c17Unit: the evidence unit name (a unit of check.json that reuses a test under another
// configuration, e.g. -race, sets VERIF_UNIT).
func c17Unit(def string) string {
	if v := os.Getenv("VERIF_UNIT"); v != "" {
		return v
	}
	return def
}
