//go:build verif

// Package verifc17 is injected (by -overlay) as
// github.com/zeromicro/go-zero/internal/verifc17.  It holds what the two C17 test
// binaries (core/conf and core/mapping) share: the configuration-type generator
// realised with reflect.StructOf, the type-directed document generator with its
// kind-level mutations, the three renderers (encoding/json, yaml.v2, go-toml/v2) with
// their round-trip validation, and the comparison helpers.  It imports nothing from
// go-zero.
//
// Vocabulary.  A *Type describes a Go type of the family; a struct *Type has *Field
// entries.  A document is an abstract value tree made of map[string]any, []any, int64,
// float64, string and bool (never nil: null is not representable in TOML).
package verifc17

import (
	"bytes"
	"encoding/json"
	"fmt"
	"math"
	"os"
	"reflect"
	"runtime"
	"sort"
	"strconv"
	"strings"
	"sync"
	"sync/atomic"

	"github.com/pelletier/go-toml/v2"
	"gopkg.in/yaml.v2"
	"pgregory.net/rapid"
)

// ---------------------------------------------------------------- type specs

// Type is one Go type of the generated family.
type Type struct {
	Kind   reflect.Kind
	Elem   *Type    // Slice, Map (string keys), Ptr
	Fields []*Field // Struct
	rt     reflect.Type
	flat   map[string]*FlatField
}

// Field is one struct field.
type Field struct {
	GoName     string
	Key        string // the key the field answers to (tag name, or GoName when untagged)
	Tagged     bool   // tag carries a name
	Optional   bool
	HasDefault bool
	Default    string
	Embedded   bool // anonymous, untagged struct (or pointer to struct)
	T          *Type
}

// FlatField is a field reachable from a struct through embedded structs.
type FlatField struct {
	F    *Field
	Path []int // field indices; embedded pointers are dereferenced on the way
}

// Tag renders the struct tag of the field.
func (f *Field) Tag() string {
	if f.Embedded {
		return ""
	}
	var opts string
	if f.Optional {
		opts += ",optional"
	}
	if f.HasDefault {
		opts += ",default=" + f.Default
	}
	switch {
	case f.Tagged:
		return `json:"` + f.Key + opts + `"`
	case opts != "":
		return `json:"` + opts + `"`
	default:
		return ""
	}
}

// Required says whether a valid document must carry the field's key.
func (f *Field) Required() bool { return !f.Optional && !f.HasDefault }

// IsPrim reports whether the type is a number, string or bool.
func (t *Type) IsPrim() bool {
	switch t.Kind {
	case reflect.Struct, reflect.Slice, reflect.Map, reflect.Ptr:
		return false
	}
	return true
}

// Deref strips pointers.
func (t *Type) Deref() *Type {
	for t.Kind == reflect.Ptr {
		t = t.Elem
	}
	return t
}

var primTypes = map[reflect.Kind]reflect.Type{
	reflect.Bool: reflect.TypeOf(false), reflect.String: reflect.TypeOf(""),
	reflect.Int: reflect.TypeOf(int(0)), reflect.Int8: reflect.TypeOf(int8(0)),
	reflect.Int16: reflect.TypeOf(int16(0)), reflect.Int32: reflect.TypeOf(int32(0)),
	reflect.Int64: reflect.TypeOf(int64(0)), reflect.Uint: reflect.TypeOf(uint(0)),
	reflect.Uint8: reflect.TypeOf(uint8(0)), reflect.Uint16: reflect.TypeOf(uint16(0)),
	reflect.Uint32: reflect.TypeOf(uint32(0)), reflect.Uint64: reflect.TypeOf(uint64(0)),
	reflect.Float32: reflect.TypeOf(float32(0)), reflect.Float64: reflect.TypeOf(float64(0)),
}

// RT realises the type with the reflect constructors.
func (t *Type) RT() reflect.Type {
	if t.rt != nil {
		return t.rt
	}
	switch t.Kind {
	case reflect.Struct:
		fs := make([]reflect.StructField, len(t.Fields))
		for i, f := range t.Fields {
			fs[i] = reflect.StructField{Name: f.GoName, Type: f.T.RT(),
				Tag: reflect.StructTag(f.Tag()), Anonymous: f.Embedded}
		}
		t.rt = reflect.StructOf(fs)
	case reflect.Slice:
		t.rt = reflect.SliceOf(t.Elem.RT())
	case reflect.Map:
		t.rt = reflect.MapOf(primTypes[reflect.String], t.Elem.RT())
	case reflect.Ptr:
		t.rt = reflect.PointerTo(t.Elem.RT())
	default:
		t.rt = primTypes[t.Kind]
	}
	return t.rt
}

// Flat returns the struct's fields by lower-cased key, embedded structs flattened.
func (t *Type) Flat() map[string]*FlatField {
	if t.flat != nil {
		return t.flat
	}
	t.flat = map[string]*FlatField{}
	var walk func(st *Type, prefix []int)
	walk = func(st *Type, prefix []int) {
		for i, f := range st.Fields {
			p := append(append([]int{}, prefix...), i)
			if f.Embedded {
				walk(f.T.Deref(), p)
				continue
			}
			t.flat[strings.ToLower(f.Key)] = &FlatField{F: f, Path: p}
		}
	}
	walk(t, nil)
	return t.flat
}

// FlatOrdered returns the flattened fields in declaration order.
func (t *Type) FlatOrdered() []*FlatField {
	m := t.Flat()
	out := make([]*FlatField, 0, len(m))
	for _, ff := range m {
		out = append(out, ff)
	}
	sort.Slice(out, func(i, j int) bool {
		a, b := out[i].Path, out[j].Path
		for k := 0; k < len(a) && k < len(b); k++ {
			if a[k] != b[k] {
				return a[k] < b[k]
			}
		}
		return len(a) < len(b)
	})
	return out
}

// FieldValue follows a flattened path inside struct value v; ok=false when an embedded
// pointer on the way is nil.
func FieldValue(v reflect.Value, path []int) (reflect.Value, bool) {
	for _, i := range path {
		for v.Kind() == reflect.Ptr {
			if v.IsNil() {
				return reflect.Value{}, false
			}
			v = v.Elem()
		}
		v = v.Field(i)
	}
	return v, true
}

// String renders the type in Go syntax.
func (t *Type) String() string {
	switch t.Kind {
	case reflect.Struct:
		var b strings.Builder
		b.WriteString("struct{")
		for i, f := range t.Fields {
			if i > 0 {
				b.WriteString("; ")
			}
			if f.Embedded {
				b.WriteString(f.GoName + " " + f.T.String() + " /*embedded*/")
				continue
			}
			b.WriteString(f.GoName + " " + f.T.String())
			if tag := f.Tag(); tag != "" {
				b.WriteString(" `" + tag + "`")
			}
		}
		b.WriteString("}")
		return b.String()
	case reflect.Slice:
		return "[]" + t.Elem.String()
	case reflect.Map:
		return "map[string]" + t.Elem.String()
	case reflect.Ptr:
		return "*" + t.Elem.String()
	}
	return t.Kind.String()
}

// ---------------------------------------------------------------- type generator

// Cfg selects the sub-family.
type Cfg struct {
	Options  bool // optional / default= tags and untagged-with-options fields (part 1)
	Embedded bool // embedded untagged structs (part 1)
	MaxDepth int  // nesting of struct/slice/map below the root struct
	// ExcludePtrToContainer / ExcludeMapOfPtrToPrim: replace (and count) the type shapes of
	// the C08 findings D9a/D9c resp. D9b.  Off by default (those are fixed in /repo); the
	// tests switch them on only while the finding is listed as known.
	ExcludePtrToContainer, ExcludeMapOfPtrToPrim bool
}

// TypeGen draws types; Excluded counts the shapes that were drawn and replaced (see Cfg),
// and under "generated:<shape>" those same shapes when they are generated.
type TypeGen struct {
	t        *rapid.T
	cfg      Cfg
	n        int
	Excluded map[string]int
}

var primKinds = []reflect.Kind{
	reflect.Int, reflect.String, reflect.Bool, reflect.Float64, reflect.Int64, reflect.Uint,
	reflect.Int8, reflect.Int16, reflect.Int32, reflect.Uint8, reflect.Uint16, reflect.Uint32,
	reflect.Uint64, reflect.Float32,
}

var tagBases = []string{"name", "Host", "PORT", "userName", "Db_Conf", "max-conns", "x", "TimeOut", "eTcd", "dataSource"}
var goBases = []string{"Name", "HOST", "UserName", "Db_Conf", "X", "TimeOut", "Etcd"}

// GenStruct draws a root struct type.
func GenStruct(t *rapid.T, cfg Cfg) (*Type, map[string]int) {
	g := &TypeGen{t: t, cfg: cfg, Excluded: map[string]int{}}
	return g.structType(0, rapid.IntRange(1, 5).Draw(t, "nfields")), g.Excluded
}

func (g *TypeGen) structType(depth, nfields int) *Type {
	st := &Type{Kind: reflect.Struct}
	for i := 0; i < nfields; i++ {
		st.Fields = append(st.Fields, g.field(depth))
	}
	return st
}

func (g *TypeGen) field(depth int) *Field {
	g.n++
	n := strconv.Itoa(g.n)
	if g.cfg.Embedded && depth < g.cfg.MaxDepth && rapid.IntRange(0, 7).Draw(g.t, "embed") == 0 {
		inner := g.structType(depth+1, rapid.IntRange(1, 3).Draw(g.t, "nemb"))
		f := &Field{GoName: "Emb" + n, Embedded: true, T: inner}
		if rapid.IntRange(0, 3).Draw(g.t, "embptr") == 0 {
			f.T = &Type{Kind: reflect.Ptr, Elem: inner}
		}
		return f
	}
	f := &Field{T: g.typ(depth, 0)}
	if rapid.IntRange(0, 4).Draw(g.t, "untagged") == 0 {
		f.GoName = rapid.SampledFrom(goBases).Draw(g.t, "goname") + n
		f.Key = f.GoName
	} else {
		f.GoName = "F" + n
		f.Key = rapid.SampledFrom(tagBases).Draw(g.t, "tag") + n
		f.Tagged = true
	}
	if g.cfg.Options {
		switch rapid.IntRange(0, 5).Draw(g.t, "opt") {
		case 0, 1:
			f.Optional = true
		case 2:
			if f.T.IsPrim() {
				f.HasDefault = true
				f.Default = g.defaultFor(f.T.Kind)
			}
		}
	}
	return f
}

func (g *TypeGen) defaultFor(k reflect.Kind) string {
	switch k {
	case reflect.Bool:
		return rapid.SampledFrom([]string{"true", "false"}).Draw(g.t, "defb")
	case reflect.String:
		return rapid.SampledFrom([]string{"dflt", "Some Value", "7", "x-y_z"}).Draw(g.t, "defs")
	case reflect.Float32, reflect.Float64:
		return rapid.SampledFrom([]string{"2.5", "0.125", "100"}).Draw(g.t, "deff")
	default:
		return rapid.SampledFrom([]string{"0", "7", "100"}).Draw(g.t, "defi")
	}
}

func (g *TypeGen) typ(depth, ptrs int) *Type {
	max := 9
	if depth >= g.cfg.MaxDepth {
		max = 4 // primitives and pointers only
	}
	c := rapid.IntRange(0, max).Draw(g.t, "shape")
	switch {
	case c <= 3:
		return &Type{Kind: rapid.SampledFrom(primKinds).Draw(g.t, "prim")}
	case c == 4:
		if ptrs >= 2 {
			return &Type{Kind: rapid.SampledFrom(primKinds).Draw(g.t, "prim")}
		}
		el := g.typ(depth, ptrs+1)
		if k := el.Deref().Kind; (k == reflect.Slice || k == reflect.Map) && !g.cfg.ExcludePtrToContainer {
			g.Excluded["generated:ptr-to-container"]++
		} else if k == reflect.Slice || k == reflect.Map {
			// DESIGN §3 D9 (a), (c): a pointer whose element is a map or a slice
			g.Excluded["ptr-to-container"]++
			return el
		}
		return &Type{Kind: reflect.Ptr, Elem: el}
	case c <= 6:
		return g.structType(depth+1, rapid.IntRange(1, 3).Draw(g.t, "nsub"))
	case c <= 8:
		return &Type{Kind: reflect.Slice, Elem: g.typ(depth+1, 0)}
	default:
		el := g.typ(depth+1, 0)
		if el.Kind == reflect.Ptr && el.Deref().IsPrim() && !g.cfg.ExcludeMapOfPtrToPrim {
			g.Excluded["generated:map-of-ptr-to-prim"]++
		} else if el.Kind == reflect.Ptr && el.Deref().IsPrim() {
			// DESIGN §3 D9 (b): a map whose element is a pointer to a primitive
			g.Excluded["map-of-ptr-to-prim"]++
			el = el.Deref()
		}
		return &Type{Kind: reflect.Map, Elem: el}
	}
}

// ---------------------------------------------------------------- document generator

// Env variables used by the expansion oracle (set by the conf test).
const (
	EnvA, EnvAVal = "VERIF_C17_A", "alpha"
	EnvB, EnvBVal = "VERIF_C17_B", "Bravo9"
	EnvU          = "VERIF_C17_UNDEF"
	// values that interact with the quoting rules of the formats: UseEnv() substitutes in the *text*
	// of the file, so the reference for these is the byte loader applied to os.ExpandEnv(text)
	EnvC, EnvCVal = "VERIF_C17_C", `C:\temp\new dir\x`
	EnvD, EnvDVal = "VERIF_C17_D", `say "hi" to 'them'`
	EnvE, EnvEVal = "VERIF_C17_E", "tab\there: # not a comment"
)

var hostileEnvStrings = []string{
	"${" + EnvC + "}", "p-$" + EnvC, "${" + EnvD + "}", "q ${" + EnvD + "} r", "${" + EnvE + "}", "${" + EnvA + "}/${" + EnvC + "}",
}

var envStrings = []string{
	"${" + EnvA + "}", "$" + EnvB, "pre-${" + EnvA + "}-post", "x$" + EnvB + ".y",
	"a${" + EnvU + "}b", "${" + EnvA + "}${" + EnvB + "}", "p $" + EnvB,
}

// ExpandEnv is the reference expansion of one string value (the two variables above,
// anything else undefined).
func ExpandEnv(s string) string {
	return os.Expand(s, func(name string) string {
		switch name {
		case EnvA:
			return EnvAVal
		case EnvB:
			return EnvBVal
		}
		return ""
	})
}

var hostileStrings = []string{
	"yes", "no", "on", "off", "~", "null", "Null", "NULL", "true", "True", "false", "y", "N",
	"012", "1e3", "0x1F", "1_000", "+1", "-1", "1.5", ".5", "1.", "0o7", "0b1", "1:30", "12:30:00",
	"2001-01-01", "2001-01-01T00:00:00Z", "inf", ".inf", "-.Inf", "nan", ".NaN",
	" lead", "trail ", "  ", " ", "", "a: b", "- a", "#c", "a #c", "[x]", "{y}", "'q'", "\"dq\"",
	"a\\b", "line1\nline2", "tab\there", "ünï", "日本語", "emoji😀", "<<", "=", "*a", "&a", "!t", "%d",
	"@a", "`b`", "|", ">", "?", "a,b", "key=value", "\u00a0nbsp", "é", "Ǆ", "x\u2028y", "\\n", "''", "\"\"",
	"aGVsbG8=", "[1,2]", "{\"a\":1}",
}

var mapKeys = []string{
	"K1", "key", "Alpha", "BETA", "mixedCase", "with space", "with.dot", "ÄÖ", "123", "7", "true",
	"~", "null", "a-b", "a_b", "x", "Y", "0", "-5", "1.5", "False", "日本", "q\"uote", "#h", "k:v",
}

var unknownKeys = []string{"zzUnknown", "ZZ_extra", "zz-Other"}

// DocGen draws documents for a type.
type DocGen struct {
	T      *rapid.T
	Env    bool // strings may carry ${VAR} / $VAR
	Mutate bool // kind-level mutations allowed
	F32Mid bool // float32 slots may receive the midpoint of two adjacent float32 values
	Muts   []string
	HasEnv bool
	// HasHostileEnv: the document refers to a variable whose value contains quoting-relevant characters
	HasHostileEnv bool
	// F32MidUsed / F32MidSkipped count the midpoint literals placed / withheld.
	F32MidUsed, F32MidSkipped int
	n                         int
	maxMuts                   int
}

// Doc draws a document for root struct type tp.
func (g *DocGen) Doc(tp *Type) map[string]any {
	g.maxMuts = 3
	return g.structDoc(tp, "")
}

func (g *DocGen) coin(n int, label string) bool {
	return rapid.IntRange(0, n-1).Draw(g.T, label) == 0
}

func (g *DocGen) mutateHere() bool {
	if !g.Mutate || len(g.Muts) >= g.maxMuts {
		return false
	}
	return g.coin(9, "mut")
}

func (g *DocGen) structDoc(tp *Type, path string) map[string]any {
	doc := map[string]any{}
	for _, ff := range tp.FlatOrdered() {
		f := ff.F
		p := path + "." + f.Key
		if f.Required() {
			if g.mutateHere() && g.coin(3, "drop") {
				g.Muts = append(g.Muts, p+":drop-required")
				continue
			}
		} else if g.coin(3, "omit") {
			continue
		}
		doc[f.Key] = g.value(f.T, p)
	}
	if g.Mutate && len(g.Muts) < g.maxMuts && g.coin(8, "unknown") {
		k := rapid.SampledFrom(unknownKeys).Draw(g.T, "unk")
		doc[k] = g.wrongValue(reflect.Invalid, path+"."+k)
		g.Muts = append(g.Muts, path+"."+k+":unknown-key")
	}
	return doc
}

func (g *DocGen) value(tp *Type, path string) any {
	tp = tp.Deref()
	if g.mutateHere() {
		v := g.wrongValue(tp.Kind, path)
		g.Muts = append(g.Muts, fmt.Sprintf("%s:%s-for-%s", path, abstractKind(v), tp.Kind))
		return v
	}
	switch tp.Kind {
	case reflect.Struct:
		return g.structDoc(tp, path)
	case reflect.Slice:
		n := rapid.IntRange(0, 3).Draw(g.T, "len")
		out := make([]any, n)
		for i := range out {
			out[i] = g.value(tp.Elem, path+"[]")
		}
		return out
	case reflect.Map:
		n := rapid.IntRange(0, 3).Draw(g.T, "mlen")
		out := map[string]any{}
		for i := 0; i < n; i++ {
			k := rapid.SampledFrom(mapKeys).Draw(g.T, "mkey")
			out[k] = g.value(tp.Elem, path+"{}")
		}
		return out
	case reflect.Bool:
		return rapid.Bool().Draw(g.T, "b")
	case reflect.String:
		return g.str()
	case reflect.Float32, reflect.Float64:
		return g.float(tp.Kind)
	default:
		return g.integer(tp.Kind)
	}
}

func abstractKind(v any) string {
	switch v.(type) {
	case map[string]any:
		return "object"
	case []any:
		return "array"
	case int64:
		return "int"
	case float64:
		return "float"
	case string:
		return "string"
	case bool:
		return "bool"
	}
	return fmt.Sprintf("%T", v)
}

// wrongValue draws a value whose kind differs from what slot kind want expects
// (reflect.Invalid: anything).  Floats drawn here are always "plain" (see plainFloat).
func (g *DocGen) wrongValue(want reflect.Kind, path string) any {
	for {
		c := rapid.IntRange(0, 6).Draw(g.T, "wrong")
		switch c {
		case 0:
			if isIntKind(want) {
				continue
			}
			return rapid.SampledFrom([]int64{0, 1, -1, 7, 300, 1 << 40}).Draw(g.T, "wi")
		case 1:
			if want == reflect.Float32 || want == reflect.Float64 {
				continue
			}
			return g.plainFloat()
		case 2:
			if want == reflect.String {
				continue
			}
			return rapid.SampledFrom([]string{"s", "12", "true", "1.5", "", "[1,2]", "{\"a\":1}", "yes", "aGk="}).Draw(g.T, "ws")
		case 3:
			if want == reflect.Bool {
				continue
			}
			return rapid.Bool().Draw(g.T, "wb")
		case 4:
			if want == reflect.Slice {
				continue
			}
			n := rapid.IntRange(0, 2).Draw(g.T, "wl")
			out := make([]any, n)
			for i := range out {
				out[i] = rapid.SampledFrom([]any{int64(1), "a", true, 2.5}).Draw(g.T, "we")
			}
			return out
		case 5:
			if want == reflect.Map || want == reflect.Struct {
				continue
			}
			out := map[string]any{}
			if g.coin(2, "wm") {
				out["k"] = rapid.SampledFrom([]any{int64(1), "a", true, 2.5}).Draw(g.T, "wv")
			}
			return out
		default:
			if want == reflect.Map || want == reflect.Struct {
				continue
			}
			return map[string]any{"K1": []any{map[string]any{"x": int64(1)}}}
		}
	}
}

func isIntKind(k reflect.Kind) bool {
	switch k {
	case reflect.Int, reflect.Int8, reflect.Int16, reflect.Int32, reflect.Int64,
		reflect.Uint, reflect.Uint8, reflect.Uint16, reflect.Uint32, reflect.Uint64:
		return true
	}
	return false
}

// IntRangeOf gives the value range of an integer kind, the upper end capped at
// MaxInt64 (larger integers are not representable in TOML).
func IntRangeOf(k reflect.Kind) (lo, hi int64) {
	switch k {
	case reflect.Int8:
		return math.MinInt8, math.MaxInt8
	case reflect.Int16:
		return math.MinInt16, math.MaxInt16
	case reflect.Int32:
		return math.MinInt32, math.MaxInt32
	case reflect.Int, reflect.Int64:
		return math.MinInt64, math.MaxInt64
	case reflect.Uint8:
		return 0, math.MaxUint8
	case reflect.Uint16:
		return 0, math.MaxUint16
	case reflect.Uint32:
		return 0, math.MaxUint32
	default:
		return 0, math.MaxInt64
	}
}

func (g *DocGen) integer(k reflect.Kind) int64 {
	lo, hi := IntRangeOf(k)
	switch rapid.IntRange(0, 7).Draw(g.T, "ic") {
	case 0:
		return 0
	case 1:
		return lo
	case 2:
		return hi
	case 3:
		if hi > 1<<53 {
			return 1<<53 + 1 // not a float64
		}
		return hi
	case 4:
		if lo < -(1 << 53) {
			return -(1 << 53) - 1
		}
		return lo
	case 5:
		if hi >= 1234567890123456789 {
			return 1234567890123456789
		}
		return 1
	default:
		return rapid.Int64Range(lo, hi).Draw(g.T, "iv")
	}
}

// plainFloat draws a float64 with a fractional part and 1e-5 <= |x| < 2^53, so that
// encoding/json, strconv 'f' -1 and both YAML/TOML marshalers spell it the same way
// (positional notation, shortest digits).
func (g *DocGen) plainFloat() float64 {
	switch rapid.IntRange(0, 5).Draw(g.T, "pfc") {
	case 0:
		return rapid.SampledFrom([]float64{0.1, 0.5, 1.5, -2.5, 123456789.125, 4503599627370495.5, 0.3, 1e-5 * 1.5, -0.75}).Draw(g.T, "pfs")
	default:
		ip := rapid.Int64Range(0, 1000000).Draw(g.T, "ip")
		if g.coin(3, "bigip") {
			ip = rapid.Int64Range(0, 1<<40).Draw(g.T, "ipb")
		}
		nd := rapid.IntRange(1, 5).Draw(g.T, "nd")
		frac := rapid.Int64Range(1, pow10(nd)-1).Draw(g.T, "frac")
		if frac%10 == 0 {
			frac++
		}
		s := fmt.Sprintf("%d.%0*d", ip, nd, frac)
		if g.coin(2, "neg") {
			s = "-" + s
		}
		f, _ := strconv.ParseFloat(s, 64)
		if !hasFraction(f) { // the fraction was below the float64 resolution at this magnitude
			return 0.5
		}
		return f
	}
}

func pow10(n int) int64 {
	p := int64(1)
	for i := 0; i < n; i++ {
		p *= 10
	}
	return p
}

// float draws a value for a float slot: plain, or "wide" (exponent notation in some
// renderers; only ever placed in float slots, where the spelling cannot be observed).
func (g *DocGen) float(k reflect.Kind) float64 {
	c := rapid.IntRange(0, 9).Draw(g.T, "fc")
	if k == reflect.Float32 {
		switch {
		case c == 0:
			return float64(rapid.Float32().Filter(func(f float32) bool {
				return !math.IsInf(float64(f), 0) && !math.IsNaN(float64(f)) && hasFraction(float64(f))
			}).Draw(g.T, "f32"))
		case c == 1 && !g.F32Mid:
			g.F32MidSkipped++
		case c == 1:
			a := rapid.Float32Range(1e-30, 1e30).Draw(g.T, "f32a")
			b := math.Nextafter32(a, float32(math.Inf(1)))
			m := (float64(a) + float64(b)) / 2
			if g.coin(2, "neg") {
				m = -m
			}
			if hasFraction(m) {
				g.F32MidUsed++
				return m
			}
			return 0.5
		case c == 2:
			return rapid.SampledFrom([]float64{math.MaxFloat32, -math.MaxFloat32, 1e-45 * 1.4, 3.4e38, 1.17549435e-38}).Draw(g.T, "f32e")
		case c == 3:
			f, _ := strconv.ParseFloat(fmt.Sprintf("%ge%d", g.plainFloat(), rapid.IntRange(-50, 22).Draw(g.T, "exp")), 64)
			if math.Abs(f) > math.MaxFloat32 || f == 0 || !hasFractionOrWide(f) {
				return 0.25
			}
			return f
		}
		return g.plainFloat()
	}
	switch c {
	case 0:
		return rapid.Float64().Filter(func(f float64) bool {
			return !math.IsInf(f, 0) && !math.IsNaN(f) && hasFractionOrWide(f)
		}).Draw(g.T, "f64")
	case 1:
		return rapid.SampledFrom([]float64{math.MaxFloat64, -math.MaxFloat64, math.SmallestNonzeroFloat64,
			1.7976931348623155e308, 2.2250738585072014e-308, 1e21 * 1.5, 1e-7 * 1.5, 1.5e22}).Draw(g.T, "f64e")
	case 2:
		f, _ := strconv.ParseFloat(fmt.Sprintf("%ge%d", g.plainFloat(), rapid.IntRange(-300, 290).Draw(g.T, "exp")), 64)
		if math.IsInf(f, 0) || f == 0 || !hasFractionOrWide(f) {
			return 0.25
		}
		return f
	}
	return g.plainFloat()
}

func hasFraction(f float64) bool { return f != math.Trunc(f) }

// hasFractionOrWide: either a fractional part, or so large that every renderer uses
// exponent notation (and every decoder therefore reads a float, not an integer).
func hasFractionOrWide(f float64) bool { return hasFraction(f) || math.Abs(f) >= 1e21 }

var randRunes = []rune("abcXYZ019 _-.:/,#'\"\\[]{}=!?*&%@|<>~+éß日\t")

func (g *DocGen) str() string {
	c := rapid.IntRange(0, 9).Draw(g.T, "sc")
	switch {
	case c <= 2:
		return rapid.SampledFrom(hostileStrings).Draw(g.T, "hs")
	case c == 3 && g.Env:
		g.HasEnv = true
		if rapid.IntRange(0, 3).Draw(g.T, "hostileEnv") == 0 {
			g.HasHostileEnv = true
			return rapid.SampledFrom(hostileEnvStrings).Draw(g.T, "hes")
		}
		return rapid.SampledFrom(envStrings).Draw(g.T, "es")
	case c <= 6:
		return rapid.StringOfN(rapid.SampledFrom(randRunes), 0, 8, -1).Draw(g.T, "rs")
	}
	return rapid.SampledFrom([]string{"localhost", "127.0.0.1:8080", "user:pass@tcp(db:3306)/x?y=z", "Hello World", "v1.2.3", "etcd-0"}).Draw(g.T, "ps")
}

// ---------------------------------------------------------------- document transforms

// MapStrings applies f to every string value (not keys).
func MapStrings(v any, f func(string) string) any {
	switch x := v.(type) {
	case map[string]any:
		out := make(map[string]any, len(x))
		for k, e := range x {
			out[k] = MapStrings(e, f)
		}
		return out
	case []any:
		out := make([]any, len(x))
		for i, e := range x {
			out[i] = MapStrings(e, f)
		}
		return out
	case string:
		return f(x)
	}
	return v
}

// Recase rewrites every key that addresses a struct field (found by walking the
// document along the type, matching case-insensitively and through embedded structs)
// with conv; map keys, unknown keys and everything below an ill-typed value stay as
// they are.  n counts the rewritten keys that actually changed.
func Recase(v any, tp *Type, conv func(string) string, n *int) any {
	tp = tp.Deref()
	switch x := v.(type) {
	case map[string]any:
		out := make(map[string]any, len(x))
		switch tp.Kind {
		case reflect.Struct:
			flat := tp.Flat()
			for k, e := range x {
				ff, ok := flat[strings.ToLower(k)]
				if !ok {
					out[k] = e
					continue
				}
				nk := conv(k)
				if nk != k {
					*n++
				}
				out[nk] = Recase(e, ff.F.T, conv, n)
			}
		case reflect.Map:
			for k, e := range x {
				out[k] = Recase(e, tp.Elem, conv, n)
			}
		default:
			return v
		}
		return out
	case []any:
		if tp.Kind != reflect.Slice {
			return v
		}
		out := make([]any, len(x))
		for i, e := range x {
			out[i] = Recase(e, tp.Elem, conv, n)
		}
		return out
	}
	return v
}

// Shape describes a document for the non-trivial rule: nesting depth and whether a
// map or slice of structs with at least one element occurs (walking along the type).
func Shape(v any, tp *Type) (depth int, structContainer bool) {
	tp = tp.Deref()
	switch x := v.(type) {
	case map[string]any:
		switch tp.Kind {
		case reflect.Struct:
			flat := tp.Flat()
			for k, e := range x {
				if ff, ok := flat[strings.ToLower(k)]; ok {
					d, s := Shape(e, ff.F.T)
					if d > depth {
						depth = d
					}
					structContainer = structContainer || s
				}
			}
		case reflect.Map:
			for _, e := range x {
				d, s := Shape(e, tp.Elem)
				if d > depth {
					depth = d
				}
				structContainer = structContainer || s
				if tp.Elem.Deref().Kind == reflect.Struct {
					if _, ok := e.(map[string]any); ok {
						structContainer = true
					}
				}
			}
		}
		return depth + 1, structContainer
	case []any:
		if tp.Kind == reflect.Slice {
			for _, e := range x {
				d, s := Shape(e, tp.Elem)
				if d > depth {
					depth = d
				}
				structContainer = structContainer || s
				if tp.Elem.Deref().Kind == reflect.Struct {
					if _, ok := e.(map[string]any); ok {
						structContainer = true
					}
				}
			}
		}
		return depth + 1, structContainer
	}
	return 0, false
}

// ---------------------------------------------------------------- rendering

// Normalize maps what a decoder of one of the three libraries returns onto the
// abstract vocabulary; ok=false when the value is outside it (null, time, non-string
// key, integer beyond int64 ...).
func Normalize(v any) (any, bool) {
	switch x := v.(type) {
	case map[string]any:
		out := make(map[string]any, len(x))
		for k, e := range x {
			n, ok := Normalize(e)
			if !ok {
				return nil, false
			}
			out[k] = n
		}
		return out, true
	case map[any]any:
		out := make(map[string]any, len(x))
		for k, e := range x {
			ks, ok := k.(string)
			if !ok {
				return nil, false
			}
			n, ok := Normalize(e)
			if !ok {
				return nil, false
			}
			out[ks] = n
		}
		return out, true
	case []any:
		out := make([]any, len(x))
		for i, e := range x {
			n, ok := Normalize(e)
			if !ok {
				return nil, false
			}
			out[i] = n
		}
		return out, true
	case json.Number:
		s := x.String()
		if !strings.ContainsAny(s, ".eE") {
			i, err := strconv.ParseInt(s, 10, 64)
			if err != nil {
				return nil, false
			}
			return i, true
		}
		f, err := strconv.ParseFloat(s, 64)
		if err != nil {
			return nil, false
		}
		return f, true
	case int:
		return int64(x), true
	case int64:
		return x, true
	case float64:
		return x, true
	case string:
		return x, true
	case bool:
		return x, true
	}
	return nil, false
}

// NormalizeYAMLKeys is Normalize for the YAML rendering with native (integer, bool)
// keys: such a key denotes the string that spells it canonically.
func normalizeNativeKeys(v any) (any, bool) {
	switch x := v.(type) {
	case map[any]any:
		out := make(map[string]any, len(x))
		for k, e := range x {
			var ks string
			switch kk := k.(type) {
			case string:
				ks = kk
			case int:
				ks = strconv.Itoa(kk)
			case bool:
				ks = strconv.FormatBool(kk)
			default:
				return nil, false
			}
			n, ok := normalizeNativeKeys(e)
			if !ok {
				return nil, false
			}
			if _, dup := out[ks]; dup {
				return nil, false
			}
			out[ks] = n
		}
		return out, true
	case []any:
		out := make([]any, len(x))
		for i, e := range x {
			n, ok := normalizeNativeKeys(e)
			if !ok {
				return nil, false
			}
			out[i] = n
		}
		return out, true
	}
	return Normalize(v)
}

// RenderJSON renders with encoding/json and verifies the round trip.
func RenderJSON(doc map[string]any, indent bool) ([]byte, bool) {
	var b []byte
	var err error
	if indent {
		b, err = json.MarshalIndent(doc, "", "  ")
	} else {
		b, err = json.Marshal(doc)
	}
	if err != nil {
		return nil, false
	}
	dec := json.NewDecoder(bytes.NewReader(b))
	dec.UseNumber()
	var back any
	if dec.Decode(&back) != nil {
		return nil, false
	}
	n, ok := Normalize(back)
	return b, ok && reflect.DeepEqual(n, any(doc))
}

// RenderYAML renders with yaml.v2 and verifies the round trip.
func RenderYAML(doc map[string]any) ([]byte, bool) {
	b, err := yaml.Marshal(doc)
	if err != nil {
		return nil, false
	}
	var back any
	if yaml.Unmarshal(b, &back) != nil {
		return nil, false
	}
	n, ok := Normalize(back)
	return b, ok && reflect.DeepEqual(n, any(doc))
}

// RenderYAMLNativeKeys renders map keys (not struct keys) that spell a canonical
// decimal integer or true/false as native YAML integers / booleans.  used=false when
// the document has no such key.
func RenderYAMLNativeKeys(doc map[string]any, tp *Type) (b []byte, used, ok bool) {
	var conv func(v any, tp *Type) any
	conv = func(v any, tp *Type) any {
		tp = tp.Deref()
		switch x := v.(type) {
		case map[string]any:
			out := map[any]any{}
			for k, e := range x {
				switch tp.Kind {
				case reflect.Struct:
					if ff, ok := tp.Flat()[strings.ToLower(k)]; ok {
						out[k] = conv(e, ff.F.T)
					} else {
						out[k] = e
					}
				case reflect.Map:
					var nk any = k
					if i, err := strconv.Atoi(k); err == nil && strconv.Itoa(i) == k {
						nk, used = i, true
					} else if k == "true" || k == "false" {
						nk, used = k == "true", true
					}
					out[nk] = conv(e, tp.Elem)
				default:
					out[k] = e
				}
			}
			return out
		case []any:
			if tp.Kind != reflect.Slice {
				return v
			}
			out := make([]any, len(x))
			for i, e := range x {
				out[i] = conv(e, tp.Elem)
			}
			return out
		}
		return v
	}
	nd := conv(doc, tp)
	if !used {
		return nil, false, false
	}
	b, err := yaml.Marshal(nd)
	if err != nil {
		return nil, true, false
	}
	var back any
	if yaml.Unmarshal(b, &back) != nil {
		return nil, true, false
	}
	n, nok := normalizeNativeKeys(back)
	return b, true, nok && reflect.DeepEqual(n, any(doc))
}

// RenderTOML renders with go-toml/v2 and verifies the round trip.
func RenderTOML(doc map[string]any) (b []byte, ok bool) {
	defer func() {
		if recover() != nil {
			b, ok = nil, false
		}
	}()
	b, err := toml.Marshal(doc)
	if err != nil {
		return nil, false
	}
	var back any
	if toml.NewDecoder(bytes.NewReader(b)).Decode(&back) != nil {
		return nil, false
	}
	n, nok := Normalize(back)
	return b, nok && reflect.DeepEqual(n, any(doc))
}

// ---------------------------------------------------------------- comparison

// EqualData is reflect.DeepEqual with nil and empty slices/maps identified, and a nil
// pointer to a container identified with a pointer to an empty container.
func EqualData(a, b reflect.Value) bool {
	if a.Type() != b.Type() {
		return false
	}
	switch a.Kind() {
	case reflect.Ptr:
		if a.IsNil() || b.IsNil() {
			// a nil pointer to a container and a pointer to an empty container hold the
			// same data (nil and empty containers are identified)
			return (a.IsNil() || emptyContainerPtr(a)) && (b.IsNil() || emptyContainerPtr(b))
		}
		return EqualData(a.Elem(), b.Elem())
	case reflect.Struct:
		for i := 0; i < a.NumField(); i++ {
			if !EqualData(a.Field(i), b.Field(i)) {
				return false
			}
		}
		return true
	case reflect.Slice:
		if a.Len() != b.Len() {
			return false
		}
		for i := 0; i < a.Len(); i++ {
			if !EqualData(a.Index(i), b.Index(i)) {
				return false
			}
		}
		return true
	case reflect.Map:
		if a.Len() != b.Len() {
			return false
		}
		for _, k := range a.MapKeys() {
			bv := b.MapIndex(k)
			if !bv.IsValid() || !EqualData(a.MapIndex(k), bv) {
				return false
			}
		}
		return true
	case reflect.Float32, reflect.Float64:
		return a.Float() == b.Float()
	}
	return reflect.DeepEqual(a.Interface(), b.Interface())
}

// emptyContainerPtr: a non-nil pointer (chain) that ends at an empty slice or map.
func emptyContainerPtr(v reflect.Value) bool {
	for v.Kind() == reflect.Ptr {
		if v.IsNil() {
			return false
		}
		v = v.Elem()
	}
	return (v.Kind() == reflect.Slice || v.Kind() == reflect.Map) && v.Len() == 0
}

func emptyContainerDoc(doc any) bool {
	switch x := doc.(type) {
	case []any:
		return len(x) == 0
	case map[string]any:
		return len(x) == 0
	}
	return false
}

// Contains checks that every datum of a valid document doc (struct keys matched
// case-insensitively, map keys verbatim) is found at its place in the loaded value v of
// type tp.  It says nothing about fields the document does not mention.
func Contains(doc any, v reflect.Value, tp *Type, path string) error {
	for tp.Kind == reflect.Ptr {
		if v.IsNil() {
			if k := tp.Deref().Kind; (k == reflect.Slice || k == reflect.Map) && emptyContainerDoc(doc) {
				return nil // nil and empty containers are identified
			}
			return fmt.Errorf("%s: nil pointer, document has %v", path, doc)
		}
		v, tp = v.Elem(), tp.Elem
	}
	switch tp.Kind {
	case reflect.Struct:
		m, ok := doc.(map[string]any)
		if !ok {
			return fmt.Errorf("%s: document is %T, want object", path, doc)
		}
		flat := tp.Flat()
		for k, e := range m {
			ff, ok := flat[strings.ToLower(k)]
			if !ok {
				continue
			}
			fv, ok := FieldValue(v, ff.Path)
			if !ok {
				return fmt.Errorf("%s.%s: embedded pointer is nil", path, k)
			}
			if err := Contains(e, fv, ff.F.T, path+"."+k); err != nil {
				return err
			}
		}
		return nil
	case reflect.Slice:
		s, ok := doc.([]any)
		if !ok {
			return fmt.Errorf("%s: document is %T, want array", path, doc)
		}
		if v.Len() != len(s) {
			return fmt.Errorf("%s: loaded %d elements, document has %d", path, v.Len(), len(s))
		}
		for i, e := range s {
			if err := Contains(e, v.Index(i), tp.Elem, fmt.Sprintf("%s[%d]", path, i)); err != nil {
				return err
			}
		}
		return nil
	case reflect.Map:
		m, ok := doc.(map[string]any)
		if !ok {
			return fmt.Errorf("%s: document is %T, want object", path, doc)
		}
		if v.Len() != len(m) {
			return fmt.Errorf("%s: loaded map has keys %v, document has %d keys", path, v.MapKeys(), len(m))
		}
		for k, e := range m {
			ev := v.MapIndex(reflect.ValueOf(k))
			if !ev.IsValid() {
				return fmt.Errorf("%s: map key %q of the document is missing, loaded keys %v", path, k, v.MapKeys())
			}
			if err := Contains(e, ev, tp.Elem, fmt.Sprintf("%s[%q]", path, k)); err != nil {
				return err
			}
		}
		return nil
	case reflect.Bool:
		if b, ok := doc.(bool); !ok || b != v.Bool() {
			return fmt.Errorf("%s: loaded %v, document has %v", path, v.Bool(), doc)
		}
	case reflect.String:
		if s, ok := doc.(string); !ok || s != v.String() {
			return fmt.Errorf("%s: loaded %q, document has %#v", path, v.String(), doc)
		}
	case reflect.Float32:
		f, ok := doc.(float64)
		if !ok || float32(f) != float32(v.Float()) {
			return fmt.Errorf("%s: loaded %v, document has %v", path, v.Float(), doc)
		}
	case reflect.Float64:
		f, ok := doc.(float64)
		if !ok || f != v.Float() {
			return fmt.Errorf("%s: loaded %v, document has %v", path, v.Float(), doc)
		}
	case reflect.Int, reflect.Int8, reflect.Int16, reflect.Int32, reflect.Int64:
		if i, ok := doc.(int64); !ok || i != v.Int() {
			return fmt.Errorf("%s: loaded %d, document has %v", path, v.Int(), doc)
		}
	default:
		if i, ok := doc.(int64); !ok || i < 0 || uint64(i) != v.Uint() {
			return fmt.Errorf("%s: loaded %d, document has %v", path, v.Uint(), doc)
		}
	}
	return nil
}

// ---------------------------------------------------------------- concurrent loads

// Pair is one (type, document) pair with its three renderings.
type Pair struct {
	T       *Type
	Doc     map[string]any
	Muts    []string
	J, Y, M []byte
}

func (p *Pair) String() string {
	j := p.J
	if len(j) > 400 {
		j = append(append([]byte{}, j[:400]...), "…"...)
	}
	return fmt.Sprintf("type %s mutations %v JSON %s", p.T, p.Muts, j)
}

// PadKey is the unknown key that carries padding in the concurrent units.
const PadKey = "zzPad"

// GenPair draws a pair; ok=false when the document is not representable in all three
// formats.  pad > 0 adds an unknown key holding an array of pad strings (they mention id,
// so that the documents of one case differ): an unknown key changes neither verdict nor
// value, but it travels through the YAML/TOML -> JSON conversion and makes the documents
// of a case differ widely in size.
func GenPair(t *rapid.T, cfg Cfg, id, pad int) (*Pair, bool) {
	tp, _ := GenStruct(t, cfg)
	g := &DocGen{T: t, Mutate: rapid.IntRange(0, 9).Draw(t, "mode") >= 7}
	p := &Pair{T: tp}
	p.Doc = g.Doc(tp)
	p.Muts = g.Muts
	if pad > 0 {
		arr := make([]any, pad)
		for i := range arr {
			arr[i] = fmt.Sprintf("pad-%03d-%05d", id, i)
		}
		p.Doc[PadKey] = arr
	}
	var okj, oky, okm bool
	p.J, okj = RenderJSON(p.Doc, false)
	p.Y, oky = RenderYAML(p.Doc)
	p.M, okm = RenderTOML(p.Doc)
	return p, okj && oky && okm
}

// ConcLoader loads pair number k (k identifies per-pair resources such as files).
type ConcLoader struct {
	Name string
	Load func(p *Pair, k int) (reflect.Value, error)
}

func sameResult(v1 reflect.Value, e1 error, v2 reflect.Value, e2 error) string {
	switch {
	case (e1 == nil) != (e2 == nil):
		return fmt.Sprintf("verdicts differ: %v / %v", errText(e1), errText(e2))
	case e1 == nil && !reflect.DeepEqual(v1.Interface(), v2.Interface()):
		return fmt.Sprintf("values differ: %s / %s", valText(v1), valText(v2))
	}
	return ""
}

func errText(err error) string {
	if err == nil {
		return "<nil>"
	}
	s := err.Error()
	if len(s) > 300 {
		s = s[:150] + " … " + s[len(s)-150:]
	}
	return s
}

func valText(v reflect.Value) string {
	s := fmt.Sprintf("%+v", v.Elem().Interface())
	if len(s) > 400 {
		s = s[:400] + "…"
	}
	return s
}

// RunConcurrent first loads every pair with every loader sequentially (all loaders must
// agree with loaders[0]; that result is the pair's expected result), then starts one
// goroutine per pair; each loads its own pair rounds times with every loader and every
// result must equal the pair's expected result: what a load yields does not depend on
// what else the process is loading.  gc adds a goroutine that forces garbage collections
// (preemption at arbitrary points, pool victim rotation) while the loads run.
func RunConcurrent(pairs []*Pair, loaders []ConcLoader, rounds int, gc bool) (loads int64, failures []string) {
	type result struct {
		v   reflect.Value
		err error
	}
	want := make([]result, len(pairs))
	for k, p := range pairs {
		for i, l := range loaders {
			v, err := l.Load(p, k)
			loads++
			if i == 0 {
				want[k] = result{v, err}
				continue
			}
			if d := sameResult(want[k].v, want[k].err, v, err); d != "" {
				failures = append(failures, fmt.Sprintf("sequential: %s vs %s: %s\n%s", loaders[0].Name, l.Name, d, p))
			}
		}
	}
	if len(failures) > 0 {
		return loads, failures
	}
	var (
		wg    sync.WaitGroup
		mu    sync.Mutex
		stop  atomic.Bool
		done  atomic.Bool
		total atomic.Int64
	)
	var gcwg sync.WaitGroup
	if gc {
		gcwg.Add(1)
		go func() {
			defer gcwg.Done()
			for !done.Load() {
				runtime.GC()
				runtime.Gosched()
			}
		}()
	}
	start := make(chan struct{})
	for k := range pairs {
		wg.Add(1)
		go func(k int) {
			defer wg.Done()
			p := pairs[k]
			<-start
			for r := 0; r < rounds && !stop.Load(); r++ {
				for i := range loaders {
					l := loaders[(i+k+r)%len(loaders)]
					v, err := l.Load(p, k)
					total.Add(1)
					if d := sameResult(want[k].v, want[k].err, v, err); d != "" {
						mu.Lock()
						if len(failures) < 4 {
							failures = append(failures, fmt.Sprintf(
								"concurrent load %d of pair %d with %s differs from the sequential result (sequential / concurrent): %s\n%s",
								r, k, l.Name, d, p))
						}
						mu.Unlock()
						stop.Store(true)
						return
					}
				}
			}
		}(k)
	}
	close(start)
	wg.Wait()
	done.Store(true)
	gcwg.Wait()
	return loads + total.Load(), failures
}
