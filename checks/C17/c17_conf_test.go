//go:build verif

package conf_test

import (
	"fmt"
	"os"
	"path/filepath"
	"reflect"
	"runtime"
	"strings"
	"testing"

	"github.com/zeromicro/go-zero/core/conf"
	"github.com/zeromicro/go-zero/core/logx"
	"github.com/zeromicro/go-zero/internal/verifc17"
	"github.com/zeromicro/go-zero/internal/verifkit"
	"pgregory.net/rapid"
)

// C17 part 1: loading the same document rendered as JSON, YAML or TOML into the same
// type yields the same verdict and deeply equal values; keys are matched
// case-insensitively; environment variables are expanded only with UseEnv().

type c17load struct {
	val reflect.Value // pointer to the target
	err error
}

func c17Load(tp *verifc17.Type, f func([]byte, any) error, content []byte) (res c17load) {
	defer func() {
		if r := recover(); r != nil {
			res.err = fmt.Errorf("PANIC: %v", r)
		}
	}()
	res.val = reflect.New(tp.RT())
	res.err = f(content, res.val.Interface())
	return res
}

func c17LoadFile(tp *verifc17.Type, file string, opts ...conf.Option) (res c17load) {
	defer func() {
		if r := recover(); r != nil {
			res.err = fmt.Errorf("PANIC: %v", r)
		}
	}()
	res.val = reflect.New(tp.RT())
	res.err = conf.Load(file, res.val.Interface(), opts...)
	return res
}

func c17Panicked(l c17load) bool {
	return l.err != nil && strings.HasPrefix(l.err.Error(), "PANIC: ")
}

// c17Same: same verdict and, on success, deeply equal values.
func c17Same(a, b c17load) error {
	if c17Panicked(a) || c17Panicked(b) {
		return fmt.Errorf("panic: %v / %v", a.err, b.err)
	}
	if (a.err == nil) != (b.err == nil) {
		return fmt.Errorf("verdicts differ: %v / %v", a.err, b.err)
	}
	if a.err == nil && !reflect.DeepEqual(a.val.Interface(), b.val.Interface()) {
		return fmt.Errorf("values differ: %+v / %+v", a.val.Elem().Interface(), b.val.Elem().Interface())
	}
	return nil
}

type c17case struct {
	tp      *verifc17.Type
	doc     map[string]any
	muts    []string
	j, y, m []byte
}

func (c *c17case) String() string {
	return fmt.Sprintf("type %s\nmutations %v\nJSON: %s\nYAML:\n%s\nTOML:\n%s", c.tp, c.muts, c.j, c.y, c.m)
}

func TestVerifC17Formats(t *testing.T) {
	logx.Disable()
	st := verifkit.New("formats")
	defer st.Flush()
	os.Setenv(verifc17.EnvA, verifc17.EnvAVal)
	os.Setenv(verifc17.EnvB, verifc17.EnvBVal)
	os.Setenv(verifc17.EnvC, verifc17.EnvCVal)
	os.Setenv(verifc17.EnvD, verifc17.EnvDVal)
	os.Setenv(verifc17.EnvE, verifc17.EnvEVal)
	os.Unsetenv(verifc17.EnvU)
	dir := t.TempDir()
	docsPerType := verifkit.EnvInt("docs", 3)
	rapid.Check(t, func(t *rapid.T) {
		tp, excl := verifc17.GenStruct(t, c17Cfg(verifc17.Cfg{Options: true, Embedded: true, MaxDepth: 3}))
		for k, n := range excl {
			if strings.HasPrefix(k, "generated:") {
				st.ClassN("shape:"+strings.TrimPrefix(k, "generated:"), n)
				continue
			}
			st.ClassN("excluded-shape:"+k, n)
			for i := 0; i < n; i++ {
				st.Excluded()
			}
		}
		for d := 0; d < docsPerType; d++ {
			c17OneDoc(t, st, dir, tp)
		}
	})
}

func c17OneDoc(t *rapid.T, st *verifkit.Stats, dir string, tp *verifc17.Type) {
	st.Eval()
	g := &verifc17.DocGen{T: t, Env: true, Mutate: rapid.IntRange(0, 9).Draw(t, "mode") >= 4}
	c := &c17case{tp: tp}
	c.doc = g.Doc(tp)
	c.muts = g.Muts
	var okj, oky, okm bool
	c.j, okj = verifc17.RenderJSON(c.doc, rapid.Bool().Draw(t, "indent"))
	c.y, oky = verifc17.RenderYAML(c.doc)
	c.m, okm = verifc17.RenderTOML(c.doc)
	if !okj || !oky || !okm {
		st.Class(fmt.Sprintf("unrepresentable(json=%v,yaml=%v,toml=%v)", okj, oky, okm))
		if os.Getenv("VERIF_C17_DEBUG") != "" {
			st.Note("unrepresentable(json=%v,yaml=%v,toml=%v): %#v\nJSON %s\nYAML %s\nTOML %s", okj, oky, okm, c.doc, c.j, c.y, c.m)
		}
		return
	}
	valid := len(c.muts) == 0
	if valid {
		st.Class("doc:valid")
	} else {
		st.Class("doc:mutated")
	}

	// ---- format independence of the byte loaders
	lj := c17Load(tp, conf.LoadFromJsonBytes, c.j)
	ly := c17Load(tp, conf.LoadFromYamlBytes, c.y)
	lm := c17Load(tp, conf.LoadFromTomlBytes, c.m)
	if err := c17Same(lj, ly); err != nil {
		t.Fatalf("JSON vs YAML: %v\n%s", err, c)
	}
	if err := c17Same(lj, lm); err != nil {
		t.Fatalf("JSON vs TOML: %v\n%s", err, c)
	}
	if lj.err == nil {
		st.Class("verdict:accept")
	} else {
		st.Class("verdict:reject")
	}

	// ---- a valid document is accepted and every datum of it is in the loaded value
	// (guards the relational oracles against vacuity: three loaders that reject, or
	// drop, everything agree with each other)
	if valid {
		if lj.err != nil {
			t.Fatalf("valid document rejected: %v\n%s", lj.err, c)
		}
		if err := verifc17.Contains(c.doc, lj.val, tp, ""); err != nil {
			t.Fatalf("loaded value does not hold the document: %v\nloaded %+v\n%s", err, lj.val.Elem().Interface(), c)
		}
	}

	// ---- YAML with native (non-string) map keys denotes the same document
	if yb, used, ok := verifc17.RenderYAMLNativeKeys(c.doc, tp); used && ok {
		st.Class("yaml-native-keys")
		ln := c17Load(tp, conf.LoadFromYamlBytes, yb)
		if err := c17Same(lj, ln); err != nil {
			t.Fatalf("JSON vs YAML with native map keys: %v\nYAML(native keys):\n%s\n%s", err, yb, c)
		}
	}

	// ---- keys are matched case-insensitively: re-spelling every struct key (map keys
	// untouched) changes nothing
	mode := rapid.IntRange(0, 2).Draw(t, "recase")
	conv := []func(string) string{strings.ToUpper, strings.ToLower, c17Mixed}[mode]
	changed := 0
	rdoc := verifc17.Recase(c.doc, tp, conv, &changed).(map[string]any)
	if changed > 0 {
		st.Class("recased")
		var rb []byte
		var rok bool
		var lr c17load
		switch f := rapid.IntRange(0, 2).Draw(t, "recaseFormat"); f {
		case 0:
			if rb, rok = verifc17.RenderJSON(rdoc, false); rok {
				lr = c17Load(tp, conf.LoadFromJsonBytes, rb)
			}
		case 1:
			if rb, rok = verifc17.RenderYAML(rdoc); rok {
				lr = c17Load(tp, conf.LoadFromYamlBytes, rb)
			}
		default:
			if rb, rok = verifc17.RenderTOML(rdoc); rok {
				lr = c17Load(tp, conf.LoadFromTomlBytes, rb)
			}
		}
		if rok {
			if err := c17Same(lj, lr); err != nil {
				t.Fatalf("exact-case keys vs re-cased struct keys: %v\nre-cased document:\n%s\n%s", err, rb, c)
			}
		}
	}

	// ---- conf.Load on files: without UseEnv the text is taken literally (same result
	// as the byte loaders); with UseEnv ${VAR}/$VAR are expanded (same result as loading
	// the document whose strings were expanded beforehand)
	exp := verifc17.MapStrings(c.doc, verifc17.ExpandEnv).(map[string]any)
	le := lj
	if g.HasHostileEnv {
		// the value-level reference does not apply: substitution happens in the file's text, where a quote
		// or a backslash of the value meets the format's own quoting; judged by the textual reference below
		st.Class("doc:has-hostile-env-reference")
		le.val = reflect.Value{}
	} else if g.HasEnv {
		st.Class("doc:has-env-reference")
		eb, ok := verifc17.RenderJSON(exp, false)
		_, oky := verifc17.RenderYAML(exp)
		_, okm := verifc17.RenderTOML(exp)
		if !ok || !oky || !okm {
			st.Class("unrepresentable-expanded")
			le.val = reflect.Value{}
		} else {
			le = c17Load(tp, conf.LoadFromJsonBytes, eb)
		}
	}
	files := []struct {
		ext     string
		content []byte
	}{{".json", c.j}, {".yaml", c.y}, {".yml", c.y}, {".toml", c.m}, {".YAML", c.y}}
	pick := rapid.IntRange(0, len(files)).Draw(t, "file") // the last value: all of them
	for i, f := range files {
		if pick != len(files) && pick != i {
			continue
		}
		name := filepath.Join(dir, "c17"+f.ext)
		if err := os.WriteFile(name, f.content, 0o600); err != nil {
			st.Note("write %s: %v", name, err)
			return
		}
		st.Class("file" + strings.ToLower(f.ext))
		lf := c17LoadFile(tp, name)
		if err := c17Same(lj, lf); err != nil {
			t.Fatalf("byte loader vs conf.Load(%s) without UseEnv: %v\n%s", f.ext, err, c)
		}
		lu := c17LoadFile(tp, name, conf.UseEnv())
		if le.val.IsValid() {
			if err := c17Same(le, lu); err != nil {
				t.Fatalf("conf.Load(%s, UseEnv()) vs loading the pre-expanded document: %v\n%s", f.ext, err, c)
			}
		}
		// "environment variables expanded … when requested", for every format alike: loading a file with
		// UseEnv() is loading the file's text after os.ExpandEnv (what conf.UseEnv documents), whatever
		// characters the values contain
		byteLoader := map[string]func([]byte, any) error{".json": conf.LoadFromJsonBytes, ".yaml": conf.LoadFromYamlBytes,
			".yml": conf.LoadFromYamlBytes, ".toml": conf.LoadFromTomlBytes}[strings.ToLower(f.ext)]
		lt := c17Load(tp, byteLoader, []byte(os.ExpandEnv(string(f.content))))
		if err := c17Same(lt, lu); err != nil {
			t.Fatalf("conf.Load(%s, UseEnv()) vs the byte loader on os.ExpandEnv(text): %v\nexpanded text:\n%s\n%s", f.ext, err, os.ExpandEnv(string(f.content)), c)
		}
	}

	depth, sc := verifc17.Shape(c.doc, tp)
	if (depth >= 2 && sc) || !valid {
		st.NonTrivial(fmt.Sprintf("%s | %v | %s", tp, c.muts, c.j))
	}
}

func c17Mixed(s string) string {
	b := []byte(s)
	for i := range b {
		if i%2 == 0 {
			b[i] = strings.ToUpper(string(b[i]))[0]
		} else {
			b[i] = strings.ToLower(string(b[i]))[0]
		}
	}
	return string(b)
}

// c17Cfg keeps the type shapes of the C08 findings D9a/D9c (a pointer whose element is a
// map or slice) and D9b (a map whose element is a pointer to a primitive) out of the family
// only while they are listed as known; by default they are generated.
func c17Cfg(cfg verifc17.Cfg) verifc17.Cfg {
	kf := verifkit.KnownFindings("C08")
	cfg.ExcludePtrToContainer = kf["D9a"] || kf["D9c"] || kf["D9"]
	cfg.ExcludeMapOfPtrToPrim = kf["D9b"] || kf["D9"]
	return cfg
}

// TestVerifC17Concurrent: "loading the same document rendered as JSON, YAML or TOML ...
// yields identical results" holds for every load, whatever else the process is loading.
// 8-32 (type, document) pairs with documents of very different sizes; each pair's result
// is computed sequentially (all loaders agree), then one goroutine per pair loads its own
// pair over and over through the byte loaders and conf.Load on files, and every result
// must equal the sequential one.
func TestVerifC17Concurrent(t *testing.T) {
	logx.Disable()
	st := verifkit.New(c17Unit("concurrent"))
	defer st.Flush()
	dir := t.TempDir()
	rounds := verifkit.EnvInt("rounds", 12)
	loaders := []verifc17.ConcLoader{
		{Name: "LoadFromJsonBytes", Load: func(p *verifc17.Pair, k int) (reflect.Value, error) {
			l := c17Load(p.T, conf.LoadFromJsonBytes, p.J)
			return l.val, l.err
		}},
		{Name: "LoadFromYamlBytes", Load: func(p *verifc17.Pair, k int) (reflect.Value, error) {
			l := c17Load(p.T, conf.LoadFromYamlBytes, p.Y)
			return l.val, l.err
		}},
		{Name: "LoadFromTomlBytes", Load: func(p *verifc17.Pair, k int) (reflect.Value, error) {
			l := c17Load(p.T, conf.LoadFromTomlBytes, p.M)
			return l.val, l.err
		}},
	}
	for _, ext := range []string{".json", ".yaml", ".toml"} {
		ext := ext
		loaders = append(loaders, verifc17.ConcLoader{Name: "Load(" + ext + ")",
			Load: func(p *verifc17.Pair, k int) (reflect.Value, error) {
				l := c17LoadFile(p.T, filepath.Join(dir, fmt.Sprintf("c17c-%d%s", k, ext)))
				return l.val, l.err
			}})
	}
	rapid.Check(t, func(t *rapid.T) {
		n := rapid.IntRange(8, 32).Draw(t, "pairs")
		procs := rapid.SampledFrom([]int{0, 1, 2, 4}).Draw(t, "gomaxprocs") // 0: as the process was started
		gc := rapid.Bool().Draw(t, "gc")
		var pairs []*verifc17.Pair
		for tries := 0; len(pairs) < n && tries < 4*n; tries++ {
			pad := rapid.SampledFrom([]int{0, 3, 40, 200, 600, 1500}).Draw(t, "pad")
			p, ok := verifc17.GenPair(t, c17Cfg(verifc17.Cfg{Options: true, Embedded: true, MaxDepth: 3}), len(pairs), pad)
			if !ok {
				st.Class("unrepresentable")
				continue
			}
			k := len(pairs)
			for ext, b := range map[string][]byte{".json": p.J, ".yaml": p.Y, ".toml": p.M} {
				if err := os.WriteFile(filepath.Join(dir, fmt.Sprintf("c17c-%d%s", k, ext)), b, 0o600); err != nil {
					st.Note("write: %v", err)
					return
				}
			}
			pairs = append(pairs, p)
		}
		if procs > 0 {
			defer runtime.GOMAXPROCS(runtime.GOMAXPROCS(procs))
		}
		loads, failures := verifc17.RunConcurrent(pairs, loaders, rounds, gc)
		st.EvalN(int(loads))
		st.Class(fmt.Sprintf("gomaxprocs=%d", runtime.GOMAXPROCS(0)))
		if len(failures) > 0 {
			t.Fatalf("%d goroutines, GOMAXPROCS=%d, gc=%v:\n%s", len(pairs), runtime.GOMAXPROCS(0), gc, strings.Join(failures, "\n"))
		}
		var fp strings.Builder
		for _, p := range pairs {
			fp.Write(p.J)
		}
		st.NonTrivial(fmt.Sprintf("concurrent %d pairs x %d rounds x %d loaders: %s", len(pairs), rounds, len(loaders), fp.String()))
	})
}

// c17Unit: the evidence unit name (a unit of check.json that reuses a test under another
// configuration, e.g. -race, sets VERIF_UNIT).
func c17Unit(def string) string {
	if v := os.Getenv("VERIF_UNIT"); v != "" {
		return v
	}
	return def
}
