//go:build verif

package conf_test

import (
	"bytes"
	"fmt"
	"os"
	"path/filepath"
	"reflect"
	"strings"
	"testing"

	"github.com/zeromicro/go-zero/core/conf"
	"github.com/zeromicro/go-zero/core/logx"
	"github.com/zeromicro/go-zero/internal/verifc17"
	"github.com/zeromicro/go-zero/internal/verifkit"
	"pgregory.net/rapid"
)

// C17 part 1 at scale (unit `scale`): the oracle of TestVerifC17Formats - same verdict and
// deeply equal values whatever the format and the entry point, struct keys matched
// case-insensitively, environment variables expanded only when requested - on documents
// one of whose values is large (see c17scale.go).  One case in VERIF_SCALE_ONE_IN is drawn
// from the large ranges, the others from the gap between the small generators and the
// large ranges.

// c17SameAt is c17Same with a failure text that stays readable for large values.
func c17SameAt(a, b c17load) error {
	if c17Panicked(a) || c17Panicked(b) {
		return fmt.Errorf("panic: %s / %s", verifc17.ClipErr(a.err), verifc17.ClipErr(b.err))
	}
	if (a.err == nil) != (b.err == nil) {
		return fmt.Errorf("verdicts differ: %s / %s", verifc17.ClipErr(a.err), verifc17.ClipErr(b.err))
	}
	if a.err == nil && !reflect.DeepEqual(a.val.Interface(), b.val.Interface()) {
		return fmt.Errorf("values differ at %s", verifc17.FirstDiff(a.val.Elem(), b.val.Elem(), ""))
	}
	return nil
}

func TestVerifC17Scale(t *testing.T) {
	logx.Disable()
	st := verifkit.New(c17Unit("scale"))
	defer st.Flush()
	dir := t.TempDir()
	oneIn := verifkit.EnvInt("scale_one_in", 20)
	liteOneIn := verifkit.EnvInt("scale_lite_one_in", 6)
	maxBytes := verifkit.EnvInt("scale_max_bytes", 2<<20)
	maxKeys := verifkit.EnvInt("scale_max_keys", 12000)
	rapid.Check(t, func(t *rapid.T) {
		st.Eval()
		large := verifc17.OneIn(t, oneIn, "large")
		lite := !large && verifc17.OneIn(t, liteOneIn, "lite")
		sc := verifc17.GenScale(t, c17Cfg(verifc17.Cfg{Options: true, Embedded: true, MaxDepth: 2}),
			verifc17.ScaleOpts{Large: large, Lite: lite, MaxBytes: maxBytes, MaxKeys: maxKeys, Modes: verifc17.ScaleModesFromEnv()})
		tp := sc.T
		r := verifc17.RenderScale(t, sc.Doc, sc.Mode == verifc17.ModeLongLine, sc.SkipTOML())
		st.Class("scale:" + sc.Class + ":" + sc.Mode)
		if !r.OK() {
			st.Class(fmt.Sprintf("unrepresentable:%s(json=%v,yaml=%v,toml=%v)", sc.Mode, r.OKJ, r.OKY, r.OKM))
			return
		}
		st.Class("style:json:" + r.JStyle)
		st.Class("style:yaml:" + r.YStyle)
		st.Class("style:toml:" + r.MStyle)
		st.Class("wrap:" + sc.Wrap)
		if sc.Capped {
			st.Class("elements-capped-by-byte-budget")
		}
		valid := len(sc.Muts) == 0
		if valid {
			st.Class("doc:valid")
		} else {
			st.Class("doc:mutated")
		}
		fail := func(format string, args ...any) {
			t.Fatalf("%s\n%s", fmt.Sprintf(format, args...), sc.Brief(r))
		}

		// ---- format independence of the byte loaders
		lj := c17Load(tp, conf.LoadFromJsonBytes, r.J)
		ly := c17Load(tp, conf.LoadFromYamlBytes, r.Y)
		if err := c17SameAt(lj, ly); err != nil {
			fail("JSON vs YAML: %v", err)
		}
		if r.M != nil {
			lm := c17Load(tp, conf.LoadFromTomlBytes, r.M)
			if err := c17SameAt(lj, lm); err != nil {
				fail("JSON vs TOML: %v", err)
			}
		}
		if lj.err == nil {
			st.Class("verdict:accept")
		} else {
			st.Class("verdict:reject")
		}

		// ---- a valid document is accepted and every datum of it is in the loaded value
		if valid {
			if lj.err != nil {
				fail("valid document rejected: %s", verifc17.ClipErr(lj.err))
			}
			if err := verifc17.Contains(sc.Doc, lj.val, tp, ""); err != nil {
				fail("loaded value does not hold the document: %s", verifc17.Clip([]byte(err.Error()), 600))
			}
		}

		// go-toml/v2 decodes a table of n keys in time ~ n^2 (verifc17.TOMLKeyLimit): above 5 000 keys the TOML
		// rendering is loaded once, through LoadFromTomlBytes, and the re-cased document and the file loads use
		// the other formats; above 30 000 keys (thorough tier only) there is no TOML rendering
		heavyTOML := sc.HeavyTOML()
		if r.M == nil {
			st.Class("toml-skipped(>30000 keys)")
		} else if heavyTOML {
			st.Class("toml-loaded-once(>5000 keys)")
		}

		// ---- struct keys are matched case-insensitively (map keys untouched)
		if rapid.Bool().Draw(t, "dorecase") {
			conv := []func(string) string{strings.ToUpper, strings.ToLower, c17Mixed}[rapid.IntRange(0, 2).Draw(t, "recase")]
			changed := 0
			rdoc := verifc17.Recase(sc.Doc, tp, conv, &changed).(map[string]any)
			if changed > 0 {
				var rb []byte
				var rok bool
				var lr c17load
				f := rapid.IntRange(0, 2).Draw(t, "recaseFormat")
				if heavyTOML && f == 2 {
					f = 0
				}
				switch f {
				case 0:
					if rb, rok = verifc17.RenderJSON(rdoc, false); rok {
						lr = c17Load(tp, conf.LoadFromJsonBytes, rb)
					}
				case 1:
					if rb, rok = verifc17.RenderYAML(rdoc); rok {
						lr = c17Load(tp, conf.LoadFromYamlBytes, rb)
					}
				default:
					if rb, rok = verifc17.RenderTOML(rdoc); rok {
						lr = c17Load(tp, conf.LoadFromTomlBytes, rb)
					}
				}
				if rok {
					st.Class("recased")
					if err := c17SameAt(lj, lr); err != nil {
						fail("exact-case keys vs re-cased struct keys: %v\nre-cased document: %s", err, verifc17.Clip(rb, 600))
					}
				}
			}
		}

		// ---- conf.Load on files, with and without UseEnv()
		files := []struct {
			ext     string
			content []byte
			loader  func([]byte, any) error
		}{{".json", r.J, conf.LoadFromJsonBytes}, {".yaml", r.Y, conf.LoadFromYamlBytes}, {".yml", r.Y, conf.LoadFromYamlBytes},
			{".toml", r.M, conf.LoadFromTomlBytes}, {".YAML", r.Y, conf.LoadFromYamlBytes}}
		first := rapid.IntRange(0, len(files)-1).Draw(t, "file")
		nfiles := rapid.SampledFrom([]int{1, 2, len(files)}).Draw(t, "nfiles")
		if large {
			nfiles = 1
		}
		for k := 0; k < nfiles; k++ {
			f := files[(first+k*2)%len(files)]
			if heavyTOML && f.ext == ".toml" {
				f = files[0]
			}
			name := filepath.Join(dir, "c17s"+f.ext)
			if err := os.WriteFile(name, f.content, 0o600); err != nil {
				st.Note("write %s: %v", name, err)
				return
			}
			st.Class("file" + strings.ToLower(f.ext))
			lf := c17LoadFile(tp, name)
			if err := c17SameAt(lj, lf); err != nil {
				fail("byte loader vs conf.Load(%s) without UseEnv: %v", f.ext, err)
			}
			lu := c17LoadFile(tp, name, conf.UseEnv())
			if bytes.IndexByte(f.content, '$') < 0 {
				// a document without '$' loads identically with and without UseEnv()
				if err := c17SameAt(lf, lu); err != nil {
					fail("conf.Load(%s) vs conf.Load(%s, UseEnv()) on a file without '$': %v", f.ext, f.ext, err)
				}
			} else {
				st.Class("file-has-dollar")
				lt := c17Load(tp, f.loader, []byte(os.ExpandEnv(string(f.content))))
				if err := c17SameAt(lt, lu); err != nil {
					fail("conf.Load(%s, UseEnv()) vs the byte loader on os.ExpandEnv(text): %v", f.ext, err)
				}
			}
		}

		c17ScaleCount(st, sc, r)
	})
}

// c17ScaleCount records the size classes of a case whose judged phase passed, and counts
// it non-trivial when its size reaches the mode's large range (check.json "rule").
func c17ScaleCount(st *verifkit.Stats, sc *verifc17.ScaleCase, r *verifc17.ScaleRender) {
	classes, nontrivial, desc := verifc17.ScaleClasses(sc, r)
	for _, c := range classes {
		st.Class(c)
	}
	if nontrivial {
		st.NonTrivial(desc)
	}
}
