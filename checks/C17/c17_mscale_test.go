//go:build verif

package mapping_test

import (
	"bytes"
	"encoding/json"
	"fmt"
	"io"
	"reflect"
	"strings"
	"testing"
	"testing/iotest"

	"github.com/zeromicro/go-zero/core/logx"
	"github.com/zeromicro/go-zero/core/mapping"
	"github.com/zeromicro/go-zero/internal/verifc17"
	"github.com/zeromicro/go-zero/internal/verifkit"
	"pgregory.net/rapid"
)

// C17 at scale, mapping level (unit `mscale`): the oracles of TestVerifC17Agree - agreement
// of mapping.UnmarshalJsonBytes with encoding/json for plain-tag types whenever both accept,
// and the same verdict and deeply equal values from Unmarshal{Json,Yaml,Toml}{Bytes,Reader}
// on the three renderings of one document, whatever the reader's behaviour - on documents
// one of whose values is large (see c17scale.go).

func TestVerifC17ScaleMapping(t *testing.T) {
	logx.Disable()
	st := verifkit.New(c17Unit("mscale"))
	defer st.Flush()
	oneIn := verifkit.EnvInt("scale_one_in", 20)
	liteOneIn := verifkit.EnvInt("scale_lite_one_in", 6)
	maxBytes := verifkit.EnvInt("scale_max_bytes", 2<<20)
	maxKeys := verifkit.EnvInt("scale_max_keys", 12000)
	rapid.Check(t, func(t *rapid.T) {
		st.Eval()
		large := verifc17.OneIn(t, oneIn, "large")
		lite := !large && verifc17.OneIn(t, liteOneIn, "lite")
		sc := verifc17.GenScale(t, c17Cfg(verifc17.Cfg{MaxDepth: 2}), verifc17.ScaleOpts{Large: large, Lite: lite, MaxBytes: maxBytes, MaxKeys: maxKeys, Modes: verifc17.ScaleModesFromEnv()})
		tp := sc.T
		r := verifc17.RenderScale(t, sc.Doc, sc.Mode == verifc17.ModeLongLine, sc.SkipTOML())
		st.Class("scale:" + sc.Class + ":" + sc.Mode)
		if !r.OK() {
			st.Class(fmt.Sprintf("unrepresentable:%s(json=%v,yaml=%v,toml=%v)", sc.Mode, r.OKJ, r.OKY, r.OKM))
			return
		}
		st.Class("style:json:" + r.JStyle)
		st.Class("style:yaml:" + r.YStyle)
		st.Class("style:toml:" + r.MStyle)
		st.Class("wrap:" + sc.Wrap)
		if sc.Capped {
			st.Class("elements-capped-by-byte-budget")
		}
		valid := len(sc.Muts) == 0
		if valid {
			st.Class("doc:valid")
		} else {
			st.Class("doc:mutated")
		}
		fail := func(format string, args ...any) {
			t.Fatalf("%s\n%s", fmt.Sprintf(format, args...), sc.Brief(r))
		}

		// ---- part 2: agreement with encoding/json whenever both accept
		m := c17Decode(tp.RT(), c17Mapping, r.J)
		j := c17Decode(tp.RT(), json.Unmarshal, r.J)
		if m.err != nil && strings.HasPrefix(m.err.Error(), "PANIC: ") {
			fail("mapping.UnmarshalJsonBytes panicked: %s", verifc17.ClipErr(m.err))
		}
		class := "both-reject"
		switch {
		case m.err == nil && j.err == nil:
			class = "both-accept"
			if !verifc17.EqualData(m.val.Elem(), j.val.Elem()) {
				fail("both decoders accept, values differ (mapping / encoding/json; nil and empty containers are identified, so the place named may be a neighbour of the real difference): %s",
					verifc17.FirstDiff(m.val.Elem(), j.val.Elem(), ""))
			}
		case m.err == nil:
			class = "only-mapping-accepts"
		case j.err == nil:
			class = "only-encoding/json-accepts"
		}
		st.Class(class)
		if valid && class != "both-accept" {
			fail("valid document not accepted by both decoders (%s): mapping %s / encoding/json %s", class, verifc17.ClipErr(m.err), verifc17.ClipErr(j.err))
		}
		if valid {
			// guard against vacuity: every datum of the document is in the decoded value
			if err := verifc17.Contains(sc.Doc, m.val, tp, ""); err != nil {
				fail("decoded value does not hold the document: %s", verifc17.Clip([]byte(err.Error()), 600))
			}
		}

		// ---- the mapping-level entry points of the three formats, Bytes and Reader
		doc := sc.Doc
		rr := r
		var opts []mapping.UnmarshalOption
		canon := rapid.IntRange(0, 2).Draw(t, "canonical") == 0
		if canon {
			n := 0
			doc = verifc17.Recase(doc, tp, strings.ToLower, &n).(map[string]any)
			opts = append(opts, mapping.WithCanonicalKeyFunc(strings.ToLower))
			rr = verifc17.RenderScale(t, doc, sc.Mode == verifc17.ModeLongLine, sc.SkipTOML())
			if !rr.OK() {
				st.Class("formats:unrepresentable-lowercased")
				return
			}
		}
		readerKind := rapid.SampledFrom([]string{"bytes-api", "bytes.Reader", "one-byte", "half", "data-with-eof", "chunks-with-eof", "bytes-api", "bytes.Reader"}).Draw(t, "reader")
		reader := readerKind != "bytes-api"
		chunk := verifc17.LogUniform(t, 1, 1<<20, "chunk")
		mkReader := func(b []byte) io.Reader {
			switch readerKind {
			case "one-byte":
				return iotest.OneByteReader(bytes.NewReader(b))
			case "half":
				return iotest.HalfReader(bytes.NewReader(b))
			case "data-with-eof":
				return iotest.DataErrReader(bytes.NewReader(b))
			case "chunks-with-eof":
				return iotest.DataErrReader(&c17ChunkReader{b: b, n: chunk})
			}
			return bytes.NewReader(b)
		}
		st.Class("formats:reader=" + readerKind)
		dec := func(fb func([]byte, any, ...mapping.UnmarshalOption) error,
			fr func(io.Reader, any, ...mapping.UnmarshalOption) error, data []byte) c17dec {
			return c17Decode(tp.RT(), func(b []byte, v any) error {
				if reader {
					return fr(mkReader(b), v, opts...)
				}
				return fb(b, v, opts...)
			}, data)
		}
		mj := dec(mapping.UnmarshalJsonBytes, mapping.UnmarshalJsonReader, rr.J)
		my := dec(mapping.UnmarshalYamlBytes, mapping.UnmarshalYamlReader, rr.Y)
		others := []struct {
			name string
			d    c17dec
		}{{"YAML", my}}
		if rr.M != nil {
			others = append(others, struct {
				name string
				d    c17dec
			}{"TOML", dec(mapping.UnmarshalTomlBytes, mapping.UnmarshalTomlReader, rr.M)})
		} else {
			st.Class("toml-skipped(>30000 keys)")
		}
		for _, o := range others {
			var msg string
			switch {
			case (mj.err == nil) != (o.d.err == nil):
				msg = fmt.Sprintf("verdicts differ: %s / %s", verifc17.ClipErr(mj.err), verifc17.ClipErr(o.d.err))
			case mj.err == nil && !reflect.DeepEqual(mj.val.Interface(), o.d.val.Interface()):
				msg = "values differ at " + verifc17.FirstDiff(mj.val.Elem(), o.d.val.Elem(), "")
			}
			if msg != "" {
				fail("mapping JSON vs %s (reader=%v chunk=%d canonicalKeyFunc=%v, styles %s): %s", o.name, readerKind, chunk, canon, rr.Styles(), msg)
			}
		}
		// the Bytes entry point, the Reader entry point and (without the option, where the document is the
		// same) the decode of the first phase yield the same result for the same JSON text
		if !canon {
			switch {
			case (mj.err == nil) != (m.err == nil):
				fail("UnmarshalJsonBytes vs the %s entry point on the same text: verdicts differ: %s / %s", readerKind, verifc17.ClipErr(m.err), verifc17.ClipErr(mj.err))
			case mj.err == nil && !reflect.DeepEqual(mj.val.Interface(), m.val.Interface()):
				fail("UnmarshalJsonBytes vs the %s entry point on the same text: values differ at %s", readerKind, verifc17.FirstDiff(m.val.Elem(), mj.val.Elem(), ""))
			}
		}
		if mj.err == nil {
			st.Class("formats:accept")
		} else {
			st.Class("formats:reject")
		}
		if canon && valid && mj.err != nil {
			fail("valid lower-cased document rejected with WithCanonicalKeyFunc(strings.ToLower): %s", verifc17.ClipErr(mj.err))
		}

		c17ScaleCount(st, sc, r)
	})
}

// c17ScaleCount records the size classes of a case whose judged phase passed, and counts
// it non-trivial when its size reaches the mode's large range (check.json "rule").
func c17ScaleCount(st *verifkit.Stats, sc *verifc17.ScaleCase, r *verifc17.ScaleRender) {
	classes, nontrivial, desc := verifc17.ScaleClasses(sc, r)
	for _, c := range classes {
		st.Class(c)
	}
	if nontrivial {
		st.NonTrivial(desc)
	}
}
