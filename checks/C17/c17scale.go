//go:build verif

// Scale mode of the C17 generators (units `scale` and `mscale`): the same type family,
// the same renderers with their round-trip validation and the same oracles as c17gen.go,
// but one field of the root struct carries something large - a string of 64 KiB - 1 MiB,
// an inline array that makes one physical line of 64 KiB - 2 MiB, a slice or a map of
// 10^3 - 10^5 elements, 30 - 100 nested containers, or a struct of 500 - 3 000 fields.
// Every size is drawn log-uniformly over its whole range (nothing is tuned to a threshold
// of the current code), and a large value is described by a few draws (a size, a short
// palette of element values drawn with the small generators, a pattern) that are tiled
// and index-stamped arithmetically, so that a failing case shrinks by its sizes and a
// dropped, duplicated, truncated or shifted part of the value is visible.
package verifc17

import (
	"bytes"
	"encoding/json"
	"fmt"
	"hash/fnv"
	"math"
	"math/bits"
	"os"
	"reflect"
	"strconv"
	"strings"
	"unicode/utf8"

	"github.com/pelletier/go-toml/v2"
	"gopkg.in/yaml.v2"
	"pgregory.net/rapid"
)

// Scale modes: what is large in the case.
const (
	ModeLongString = "longstring" // one string value, sized in bytes
	ModeLongLine   = "longline"   // an inline array rendered on one physical line, sized in bytes
	ModeBigArray   = "bigarray"   // a slice, sized in elements
	ModeBigMap     = "bigmap"     // a map, sized in keys
	ModeDeep       = "deep"       // nested containers, sized in levels
	ModeManyKeys   = "manykeys"   // one struct (one object), sized in fields (keys)
)

// ScaleModes lists the modes in the order they are drawn from.
var ScaleModes = []string{ModeLongString, ModeLongLine, ModeBigArray, ModeBigMap, ModeDeep, ModeManyKeys}

// ScaleRange describes the size dimension of a mode: Small is the largest size the small
// generator (DocGen / TypeGen of c17gen.go) produces in that dimension, [MidLo, MidHi] the
// gap between the small and the large cases (the "medium" cases), [LargeLo, LargeHi] the
// large cases, NonTrivialAt the size from which a case counts as non-trivial: the larger of
// LargeLo and 100 x Small (deep: LargeLo, because 100 x 7 levels is outside the range).
type ScaleRange struct {
	Unit                                  string
	Small, MidLo, MidHi, LargeLo, LargeHi int
	NonTrivialAt                          int
	// LiteHi: upper end of the "large-lite" cases - the lower part of the large range, cheap
	// enough to be drawn often in the quick tier (a budget, not a threshold of the code).
	LiteHi int
}

// ScaleRanges.  Small was measured over 30 000 documents of the small generator (Options,
// Embedded, MaxDepth 3, mutations on): longest string 29 bytes (8 runes: at most 32),
// longest physical line of the minified JSON 633 bytes, largest array 3 elements, largest
// map 3 keys, largest object 16 keys (5 declared fields plus flattened embedded structs),
// 7 nested containers.
var ScaleRanges = map[string]ScaleRange{
	ModeLongString: {"bytes", 32, 64, 64<<10 - 1, 64 << 10, 1 << 20, 64 << 10, 256 << 10},
	ModeLongLine:   {"bytes", 633, 1 << 10, 64<<10 - 1, 64 << 10, 2 << 20, 64 << 10, 256 << 10},
	ModeBigArray:   {"elements", 3, 4, 999, 1000, 100000, 1000, 8000},
	ModeBigMap:     {"elements", 3, 4, 999, 1000, 100000, 1000, 4000},
	ModeDeep:       {"levels", 7, 8, 29, 30, 100, 30, 100},
	ModeManyKeys:   {"keys", 16, 17, 499, 500, 3000, 1600, 1200},
}

// ScaleModesFromEnv: development aid - VERIF_C17_SCALE_MODES=deep,bigmap restricts the modes
// (unset: all).
func ScaleModesFromEnv() []string {
	if v := os.Getenv("VERIF_C17_SCALE_MODES"); v != "" {
		return strings.Split(v, ",")
	}
	return nil
}

// UniformBits draws a uniformly distributed k-bit number (rapid's integer generators lean
// towards small values and towards the ends of their range; its booleans do not).  It
// shrinks towards 0.
func UniformBits(t *rapid.T, k int, label string) int {
	v := 0
	for _, b := range rapid.SliceOfN(rapid.Bool(), k, k).Draw(t, label) {
		v <<= 1
		if b {
			v |= 1
		}
	}
	return v
}

// LogUniform draws an integer from [lo, hi] with a uniformly distributed logarithm; it
// shrinks towards lo.
func LogUniform(t *rapid.T, lo, hi int, label string) int {
	if hi <= lo {
		return lo
	}
	u := float64(UniformBits(t, 12, label)) / 4095
	v := int(math.Round(float64(lo) * math.Pow(float64(hi)/float64(lo), u)))
	if v < lo {
		v = lo
	}
	if v > hi {
		v = hi
	}
	return v
}

// OneIn is true for about one draw in n (uniformly); it shrinks towards false.
func OneIn(t *rapid.T, n int, label string) bool {
	if n <= 1 {
		return true
	}
	return UniformBits(t, 16, label)%n == n-1
}

// ScaleOpts parametrises GenScale.
type ScaleOpts struct {
	Large bool // the size is drawn from the whole large range
	Lite  bool // (when not Large) the size is drawn from the lower part of the large range, up to LiteHi
	// MaxBytes bounds (softly) the rendered size of the large value in the modes that are
	// sized in elements: the element count is capped at MaxBytes / (size of one rendered
	// element), never below the lower end of the mode's large range.
	MaxBytes int
	// MaxKeys caps the keys of the large map (bigmap): go-toml/v2's decoder, which both the
	// round-trip validation and the code under test run, takes time quadratic in the number of
	// keys of one table.  0: no cap.
	MaxKeys int
	Modes   []string // nil: all
}

// ScaleCase is one generated (type, document) pair of the scale units.
type ScaleCase struct {
	T      *Type
	Doc    map[string]any
	Muts   []string
	Mode   string
	Large  bool   // drawn from the whole large range
	Class  string // large | large-lite | medium
	Size   int    // the size actually built, in the mode's unit (longline: the target; see ScaleRender.MinMaxLine)
	Capped bool   // the element count was capped by MaxBytes
	BigKey string // the key of the root struct that holds the large value
	Wrap   string
	Shape  string // what the large value is made of
}

// Unit is the unit of Size.
func (c *ScaleCase) Unit() string { return ScaleRanges[c.Mode].Unit }

func (c *ScaleCase) String() string {
	return fmt.Sprintf("mode=%s class=%s size=%d %s capped=%v key=%s wrap=%s shape=%s muts=%v",
		c.Mode, c.Class, c.Size, c.Unit(), c.Capped, c.BigKey, c.Wrap, c.Shape, c.Muts)
}

type scaleGen struct {
	t   *rapid.T
	cfg Cfg
	tg  *TypeGen
	dg  *DocGen
	o   ScaleOpts
	c   *ScaleCase
	// poison: where a kind-level mutation of the large value goes (-1: none)
	poisonAt int
}

// GenScale draws a case: a small root struct of the family selected by cfg with a small
// document, plus one field holding the large value of the drawn mode.
func GenScale(t *rapid.T, cfg Cfg, o ScaleOpts) *ScaleCase {
	modes := o.Modes
	if len(modes) == 0 {
		modes = ScaleModes
	}
	if o.MaxBytes <= 0 {
		o.MaxBytes = 2 << 20
	}
	c := &ScaleCase{Large: o.Large}
	c.Mode = modes[UniformBits(t, 8, "mode")%len(modes)]
	r := ScaleRanges[c.Mode]
	switch {
	case o.Large:
		c.Class, c.Size = "large", LogUniform(t, r.LargeLo, r.LargeHi, "size")
	case o.Lite:
		c.Class, c.Size = "large-lite", LogUniform(t, r.LargeLo, r.LiteHi, "size")
	default:
		c.Class, c.Size = "medium", LogUniform(t, r.MidLo, r.MidHi, "size")
	}
	g := &scaleGen{t: t, cfg: cfg, o: o, c: c, poisonAt: -1}
	g.tg = &TypeGen{t: t, cfg: cfg, Excluded: map[string]int{}}
	g.dg = &DocGen{T: t}
	g.dg.maxMuts = 3

	// the small part
	root := g.tg.structType(0, rapid.IntRange(0, 3).Draw(t, "nsmall"))
	doc := g.dg.structDoc(root, "")

	// the large part
	poison := c.Mode != ModeLongString && rapid.IntRange(0, 4).Draw(t, "poison") == 0
	var bt *Type
	var mk func(n int) any // the value at size n (modes whose type does not depend on the size)
	var bv any
	switch c.Mode {
	case ModeLongString:
		bt, mk = g.longString()
	case ModeLongLine:
		bt, mk = g.elements(false, true)
	case ModeBigArray:
		bt, mk = g.elements(false, false)
	case ModeBigMap:
		bt, mk = g.elements(true, false)
	case ModeDeep:
		bt, bv = g.deep(c.Size, poison)
	default:
		bt, bv = g.manyKeys(c.Size, poison)
	}
	if mk != nil {
		if poison {
			g.poisonAt = g.position(c.Size)
		}
		bv = mk(c.Size)
		g.poisonAt = -1
	}

	// where the large value sits
	key := rapid.SampledFrom([]string{"bigData", "Big_Blob", "BULK", "payLoad"}).Draw(t, "bigkey")
	f := &Field{GoName: "ZBig", Key: key, Tagged: true}
	if rapid.IntRange(0, 4).Draw(t, "biguntagged") == 0 {
		f.GoName, f.Key, f.Tagged = "Big"+key, "Big"+key, false
	}
	c.BigKey = f.Key
	wraps := []string{"field", "field", "struct", "slice", "map"}
	if !(cfg.ExcludePtrToContainer && !bt.IsPrim()) {
		wraps = append(wraps, "ptr")
	}
	c.Wrap = rapid.SampledFrom(wraps).Draw(t, "wrap")
	tiny := func() any {
		if mk == nil {
			return nil
		}
		return mk(rapid.IntRange(0, 3).Draw(t, "tiny"))
	}
	switch c.Wrap {
	case "ptr":
		bt = &Type{Kind: reflect.Ptr, Elem: bt}
	case "struct":
		inner := &Type{Kind: reflect.Struct, Fields: []*Field{
			{GoName: "Inner", Key: "inNer", Tagged: true, T: bt},
			{GoName: "Side", Key: "Side", T: &Type{Kind: reflect.Int}},
		}}
		bt, bv = inner, map[string]any{"inNer": bv, "Side": int64(7)}
	case "slice":
		bt = &Type{Kind: reflect.Slice, Elem: bt}
		if tv := tiny(); tv != nil && rapid.Bool().Draw(t, "tinyfirst") {
			bv = []any{tv, bv}
		} else if tv != nil {
			bv = []any{bv, tv}
		} else {
			bv = []any{bv}
		}
	case "map":
		bt = &Type{Kind: reflect.Map, Elem: bt}
		m := map[string]any{"K1": bv}
		if tv := tiny(); tv != nil {
			m["x"] = tv
		}
		bv = m
	}
	f.T = bt
	at := rapid.IntRange(0, len(root.Fields)).Draw(t, "bigat")
	root.Fields = append(root.Fields[:at:at], append([]*Field{f}, root.Fields[at:]...)...)
	root.flat = nil // structDoc cached the flattened fields of the small part
	doc[f.Key] = bv
	c.T, c.Doc = root, doc
	c.Muts = g.dg.Muts
	return c
}

// position draws an index into n items: at a log-uniform distance from the end or from
// the start.
func (g *scaleGen) position(n int) int {
	if n <= 1 {
		return 0
	}
	d := LogUniform(g.t, 1, n, "poisondist")
	if rapid.Bool().Draw(g.t, "poisonfromend") {
		return n - d
	}
	return d - 1
}

var scaleChunks = []string{"lorem ipsum ", "0123456789", "abcXYZ", "ünï日本語", "a: b # c ", "- x\n", "\"q\" 'r' \\n ", "{[<=>]} ", "\t", "%d,&a*b!c|d>e ", "emoji😀"}

// longString: a string-typed slot; the value is a sequence of tiles, tile i = a palette
// chunk followed by i in decimal, cut to exactly n bytes (at a rune boundary, padded with
// '.').
func (g *scaleGen) longString() (*Type, func(n int) any) {
	np := rapid.IntRange(1, 4).Draw(g.t, "nchunks")
	pal := make([]string, np)
	for i := range pal {
		if rapid.Bool().Draw(g.t, "chunkhostile") {
			pal[i] = rapid.SampledFrom(hostileStrings).Draw(g.t, "chunk")
		} else {
			pal[i] = rapid.SampledFrom(scaleChunks).Draw(g.t, "chunk")
		}
	}
	sep := rapid.SampledFrom([]string{"", "", " ", ",", "/", "\n"}).Draw(g.t, "sep")
	g.c.Shape = fmt.Sprintf("string tiles=%q sep=%q", pal, sep)
	return &Type{Kind: reflect.String}, func(n int) any { return tileString(pal, sep, n) }
}

func tileString(pal []string, sep string, n int) string {
	var b strings.Builder
	b.Grow(n + 64)
	for i := 0; b.Len() < n; i++ {
		b.WriteString(pal[i%len(pal)])
		b.WriteString(strconv.Itoa(i))
		b.WriteString(sep)
	}
	s := b.String()[:n]
	for len(s) > 0 {
		// cut inside a rune: back off to the rune's start
		if r, size := utf8.DecodeLastRuneInString(s); r != utf8.RuneError || size != 1 {
			break
		}
		s = s[:len(s)-1]
	}
	for len(s) < n {
		s += "."
	}
	return s
}

// elemType draws the element type of a large slice or map.
func (g *scaleGen) elemType() *Type {
	c := rapid.IntRange(0, 9).Draw(g.t, "elemshape")
	prim := func() *Type { return &Type{Kind: rapid.SampledFrom(primKinds).Draw(g.t, "elemprim")} }
	switch {
	case c <= 3:
		return prim()
	case c == 4:
		if g.cfg.ExcludeMapOfPtrToPrim {
			return prim()
		}
		return &Type{Kind: reflect.Ptr, Elem: prim()}
	case c <= 7:
		return g.tg.structType(g.cfg.MaxDepth, rapid.IntRange(1, 3).Draw(g.t, "elemfields"))
	case c == 8:
		return &Type{Kind: reflect.Slice, Elem: prim()}
	default:
		return &Type{Kind: reflect.Map, Elem: prim()}
	}
}

// elements: a slice (or map) of n elements.  Elements come in periods of P+1: P palette
// values drawn with the small generator (range ends, 2^53+1, hostile strings ...), then
// one value computed from the index (stampValue), so that every element's place is
// visible in the loaded value.  Map keys are a style prefix followed by the index.
// line=true: n is a number of bytes (of the minified rendering) and the elements are
// strings or wide numbers: for strings the number of elements is drawn log-uniformly (at
// most 10^5) and the index-stamped elements are padded so that the array fills n bytes;
// for numbers the count follows from n (19-digit integers, 15-character floats).
func (g *scaleGen) elements(isMap, line bool) (*Type, func(n int) any) {
	var et *Type
	if line {
		et = &Type{Kind: rapid.SampledFrom([]reflect.Kind{reflect.String, reflect.String, reflect.String, reflect.Int64, reflect.Uint64, reflect.Int, reflect.Float64}).Draw(g.t, "lineelem")}
	} else {
		et = g.elemType()
	}
	np := rapid.IntRange(1, 6).Draw(g.t, "npalette")
	pal := make([]any, np)
	for i := range pal {
		pal[i] = g.dg.value(et, ".big[]")
	}
	styles := []string{"k", "Key_", "ÄÖ", "with space ", "", "UPPER", "a.b.", "q\"", "#", "日本"}
	nst := 1
	ks := []string{""}
	if isMap {
		nst = rapid.IntRange(1, 3).Draw(g.t, "nkeystyles")
		ks = make([]string, nst)
		for i := range ks {
			ks[i] = rapid.SampledFrom(styles).Draw(g.t, "keystyle")
		}
		for i := range ks { // two styles of one case must not produce the same key: keep distinct prefixes
			for j := 0; j < i; j++ {
				if ks[i] == ks[j] {
					ks[i] = ks[i] + "v" + strconv.Itoa(i) + "_"
				}
			}
		}
	}
	lineFrac := 0
	if line && et.Kind == reflect.String {
		lineFrac = UniformBits(g.t, 12, "linecount")
	}
	pad := 0 // line mode, strings: bytes every stamped element is padded to
	elem := func(i int) any {
		if e := i % (np + 1); e < np {
			return pal[e]
		}
		if line {
			return stampWide(et, i, pad)
		}
		return stampValue(et, i)
	}
	rendered := func(v any) int {
		b, _ := json.Marshal(v)
		return len(b) + 1
	}
	// the rendered size of one period, to convert bytes <-> elements
	period, rawBytes := 0, 0
	for i := 0; i <= np; i++ {
		l := rendered(elem(i + (np+1)*1000))
		period += l
		if i < np {
			rawBytes += l
		}
		if isMap {
			period += len(ks[0]) + 9
		}
	}
	perElem := float64(period) / float64(np+1)
	if isMap {
		g.c.Shape = fmt.Sprintf("map[string]%s palette=%d keystyles=%q", et, np, ks)
	} else {
		g.c.Shape = fmt.Sprintf("[]%s palette=%d", et, np)
	}
	var wrong any
	wrongDrawn := false
	mk := func(n int) any {
		count := n
		main := n == g.c.Size
		switch {
		case line && et.Kind == reflect.String:
			maxc := n / 8
			if maxc > 100000 {
				maxc = 100000
			}
			if maxc < 1 {
				maxc = 1
			}
			count = int(math.Round(math.Pow(float64(maxc), float64(lineFrac)/4095)))
			// count/(np+1) stamped elements share what the raw palette entries leave of the n bytes
			stamped := count / (np + 1)
			if stamped < 1 {
				stamped, count = 1, np+1
			}
			pad = (n-(count-stamped)*rawBytes/np)/stamped - 3
			if pad < 0 {
				pad = 0
			}
		case line:
			count = int(float64(n)/perElem) + 1
		case main:
			max := int(float64(g.o.MaxBytes) / perElem)
			if isMap && g.o.MaxKeys > 0 && g.o.MaxKeys < max {
				max = g.o.MaxKeys
			}
			if lo := ScaleRanges[g.c.Mode].LargeLo; max < lo {
				max = lo
			}
			if count > max {
				count, g.c.Capped, g.c.Size = max, true, max
				if g.poisonAt >= count {
					g.poisonAt = count - 1
				}
			}
		}
		if main && line {
			g.c.Shape += fmt.Sprintf(" elements=%d pad=%d", count, pad)
		}
		at := g.poisonAt
		if line && at >= 0 {
			at = at % count
		}
		if at >= 0 && !wrongDrawn {
			wrong = g.dg.wrongValue(et.Deref().Kind, ".big[]")
			wrongDrawn = true
		}
		if isMap {
			out := make(map[string]any, count)
			for i := 0; i < count; i++ {
				k := ks[i%nst] + strconv.Itoa(i)
				if i == at {
					out[k] = wrong
					g.dg.Muts = append(g.dg.Muts, fmt.Sprintf(".big{%s}:%s-for-%s", k, abstractKind(wrong), et.Deref().Kind))
					continue
				}
				out[k] = elem(i)
			}
			return out
		}
		out := make([]any, count)
		for i := range out {
			if i == at {
				out[i] = wrong
				g.dg.Muts = append(g.dg.Muts, fmt.Sprintf(".big[%d of %d]:%s-for-%s", i, count, abstractKind(wrong), et.Deref().Kind))
				continue
			}
			out[i] = elem(i)
		}
		return out
	}
	if isMap {
		return &Type{Kind: reflect.Map, Elem: et}, mk
	}
	return &Type{Kind: reflect.Slice, Elem: et}, mk
}

// stampWide is stampValue for the long-line mode: strings padded to pad bytes, integers of
// 19 digits, floats of 15 characters.
func stampWide(tp *Type, i, pad int) any {
	switch tp.Kind {
	case reflect.String:
		s := "e#" + strconv.Itoa(i) + "-"
		if n := pad - len(s); n > 0 {
			const fill = "abcdefghijklmnopqrstuvwxyz0123456789"
			s += strings.Repeat(fill, n/len(fill)) + fill[:n%len(fill)]
		}
		return s
	case reflect.Float64:
		return float64(1<<40+i) + 0.5
	case reflect.Int, reflect.Int64:
		if i%2 == 1 {
			return -int64(1e18) - int64(i)
		}
	}
	return int64(1e18) + int64(i)
}

// stampValue builds, without any draw, a valid document value for tp that depends on i.
func stampValue(tp *Type, i int) any {
	tp = tp.Deref()
	switch tp.Kind {
	case reflect.Struct:
		out := map[string]any{}
		for j, ff := range tp.FlatOrdered() {
			out[ff.F.Key] = stampValue(ff.F.T, i+j)
		}
		return out
	case reflect.Slice:
		return []any{stampValue(tp.Elem, i), stampValue(tp.Elem, i+1)}
	case reflect.Map:
		return map[string]any{"s" + strconv.Itoa(i%7): stampValue(tp.Elem, i)}
	case reflect.Bool:
		return i%3 == 0
	case reflect.String:
		return "e#" + strconv.Itoa(i)
	case reflect.Float32, reflect.Float64:
		return float64(i%(1<<22)) + 0.5
	}
	lo, hi := IntRangeOf(tp.Kind)
	span := uint64(hi) - uint64(lo) // two's complement distance
	if span < 1<<31 {
		return lo + int64(uint64(i)%(span+1))
	}
	if lo < 0 && i%2 == 1 {
		return -int64(i) * 7919
	}
	return int64(i) * 7919
}

// deep: levels nested containers (objects and arrays) below the big key; the kinds of the
// levels are a tiled palette of struct / slice / map, some of them behind a pointer, the
// innermost level holds primitives.  poison: the node at a drawn level is replaced by a
// value of another kind.
func (g *scaleGen) deep(levels int, poison bool) (*Type, any) {
	np := rapid.IntRange(1, 4).Draw(g.t, "nlevelkinds")
	kinds := make([]reflect.Kind, np)
	ptr := make([]bool, np)
	for i := range kinds {
		kinds[i] = rapid.SampledFrom([]reflect.Kind{reflect.Struct, reflect.Struct, reflect.Slice, reflect.Map}).Draw(g.t, "levelkind")
		ptr[i] = !g.cfg.ExcludePtrToContainer && rapid.IntRange(0, 3).Draw(g.t, "levelptr") == 0
	}
	leaf := &Type{Kind: rapid.SampledFrom(primKinds).Draw(g.t, "leafprim")}
	sib := rapid.Bool().Draw(g.t, "siblings")
	at := -1
	var wrong any
	if poison {
		at = g.position(levels)
		wrong = g.dg.wrongValue(kinds[at%np], ".big~")
		g.dg.Muts = append(g.dg.Muts, fmt.Sprintf(".big~level %d of %d:%s-for-%s", at, levels, abstractKind(wrong), kinds[at%np]))
	}
	g.c.Shape = fmt.Sprintf("levels=%v ptr=%v leaf=%s siblings=%v", kinds, ptr, leaf.Kind, sib)
	// innermost first
	var tp *Type
	var val any
	for l := levels - 1; l >= 0; l-- {
		k := kinds[l%np]
		var child *Type
		var cval []any // one or (innermost) three children
		if l == levels-1 {
			child = leaf
			cval = []any{stampValue(leaf, l), stampValue(leaf, l+1), stampValue(leaf, l+2)}
		} else {
			child, cval = tp, []any{val}
		}
		switch k {
		case reflect.Struct:
			key := tagBases[l%len(tagBases)] + strconv.Itoa(l)
			st := &Type{Kind: reflect.Struct, Fields: []*Field{{GoName: "N" + strconv.Itoa(l), Key: key, Tagged: true, T: child}}}
			v := map[string]any{key: cval[0]}
			if sib {
				st.Fields = append(st.Fields, &Field{GoName: "S" + strconv.Itoa(l), Key: "S" + strconv.Itoa(l), T: &Type{Kind: reflect.String}})
				v["S"+strconv.Itoa(l)] = "lvl" + strconv.Itoa(l)
			}
			tp, val = st, v
		case reflect.Slice:
			tp, val = &Type{Kind: reflect.Slice, Elem: child}, cval
		default:
			m := map[string]any{}
			for j, cv := range cval {
				m[mapKeys[(l+j)%len(mapKeys)]] = cv
			}
			tp, val = &Type{Kind: reflect.Map, Elem: child}, m
		}
		if l == at {
			val = wrong
		}
		if ptr[l%np] && l > 0 {
			tp = &Type{Kind: reflect.Ptr, Elem: tp}
		}
	}
	return tp, val
}

// manyKeys: one struct of n fields and the object with its keys.  Field i takes its type
// and value from a period of P+1 entries: P drawn (type, value) pairs, then a primitive
// with an index-stamped value; key = a mixed-case base + i; with cfg.Options some fields
// are optional (and left out of the document every other time) or have a default.  The
// object may carry unknown keys as well.  poison: one required key is dropped or one
// value gets another kind.
func (g *scaleGen) manyKeys(n int, poison bool) (*Type, any) {
	np := rapid.IntRange(1, 6).Draw(g.t, "nentries")
	types := make([]*Type, np)
	vals := make([]any, np)
	for i := range types {
		types[i] = g.tg.typ(g.cfg.MaxDepth-1, 0)
		vals[i] = g.dg.value(types[i], ".big.")
	}
	nb := rapid.IntRange(1, 4).Draw(g.t, "nbases")
	bases := make([]string, nb)
	for i := range bases {
		bases[i] = rapid.SampledFrom(tagBases).Draw(g.t, "base")
	}
	untaggedEvery := rapid.SampledFrom([]int{0, 0, 2, 5, 17}).Draw(g.t, "untaggedEvery")
	optEvery, defEvery := 0, 0
	if g.cfg.Options {
		optEvery = rapid.SampledFrom([]int{0, 3, 7, 50}).Draw(g.t, "optEvery")
		defEvery = rapid.SampledFrom([]int{0, 4, 11}).Draw(g.t, "defEvery")
	}
	unknown := 0
	if rapid.IntRange(0, 2).Draw(g.t, "unknownkeys") == 0 {
		unknown = LogUniform(g.t, 1, n, "nunknown")
	}
	at := -1
	if poison {
		at = g.position(n)
	}
	g.c.Shape = fmt.Sprintf("struct entries=%d bases=%q untaggedEvery=%d optEvery=%d defEvery=%d unknownKeys=%d", np, bases, untaggedEvery, optEvery, defEvery, unknown)
	st := &Type{Kind: reflect.Struct}
	doc := make(map[string]any, n+unknown)
	stampKinds := []reflect.Kind{reflect.String, reflect.Int, reflect.Int64, reflect.Uint16, reflect.Float64, reflect.Bool, reflect.Int8, reflect.Uint32}
	for i := 0; i < n; i++ {
		f := &Field{GoName: "F" + strconv.Itoa(i), Tagged: true, Key: bases[i%nb] + "x" + strconv.Itoa(i)}
		if untaggedEvery > 0 && i%untaggedEvery == 1 {
			f.GoName = goBases[i%len(goBases)] + "x" + strconv.Itoa(i)
			f.Key, f.Tagged = f.GoName, false
		}
		var v any
		if e := i % (np + 1); e < np {
			f.T, v = types[e], vals[e]
		} else {
			f.T = &Type{Kind: stampKinds[(i/(np+1))%len(stampKinds)]}
			v = stampValue(f.T, i)
		}
		omit := false
		switch {
		case optEvery > 0 && i%optEvery == 0:
			f.Optional = true
			omit = (i/optEvery)%2 == 1
		case defEvery > 0 && i%defEvery == 1 && f.T.IsPrim():
			f.HasDefault = true
			switch {
			case f.T.Kind == reflect.Bool:
				f.Default = "true"
			case f.T.Kind == reflect.String:
				f.Default = "dflt"
			case f.T.Kind == reflect.Float32 || f.T.Kind == reflect.Float64:
				f.Default = "2.5"
			default:
				f.Default = "7"
			}
			omit = (i/defEvery)%2 == 1
		}
		st.Fields = append(st.Fields, f)
		if i == at {
			if f.Required() && rapid.Bool().Draw(g.t, "poisondrop") {
				g.dg.Muts = append(g.dg.Muts, fmt.Sprintf(".big.%s (field %d of %d):drop-required", f.Key, i, n))
				continue
			}
			w := g.dg.wrongValue(f.T.Deref().Kind, ".big.")
			g.dg.Muts = append(g.dg.Muts, fmt.Sprintf(".big.%s (field %d of %d):%s-for-%s", f.Key, i, n, abstractKind(w), f.T.Deref().Kind))
			doc[f.Key] = w
			continue
		}
		if !omit {
			doc[f.Key] = v
		}
	}
	for i := 0; i < unknown; i++ {
		doc["zzUnknown"+strconv.Itoa(i)] = stampValue(&Type{Kind: stampKinds[i%len(stampKinds)]}, i)
	}
	return st, doc
}

// ---------------------------------------------------------------- rendering

// ScaleRender holds the three renderings of a scale case, each validated by reading it
// back with the library that wrote it.
type ScaleRender struct {
	J, Y, M                []byte
	JStyle, YStyle, MStyle string
	OKJ, OKY, OKM          bool
}

// OK: the document is representable in all three formats.
func (r *ScaleRender) OK() bool { return r.OKJ && r.OKY && r.OKM }

// Styles names the rendering variants.
func (r *ScaleRender) Styles() string {
	return "json:" + r.JStyle + " yaml:" + r.YStyle + " toml:" + r.MStyle
}

// MaxLine is the length of the longest physical line.
func MaxLine(b []byte) int {
	max := 0
	for len(b) > 0 {
		i := bytes.IndexByte(b, '\n')
		if i < 0 {
			i = len(b)
		}
		if i > max {
			max = i
		}
		if i == len(b) {
			break
		}
		b = b[i+1:]
	}
	return max
}

// MinMaxLine: the shortest of the three renderings' longest lines.
func (r *ScaleRender) MinMaxLine() int {
	m := MaxLine(r.J)
	if l := MaxLine(r.Y); l < m {
		m = l
	}
	if l := MaxLine(r.M); l < m && r.M != nil {
		m = l
	}
	return m
}

// TOMLKeyLimit: go-toml/v2 decodes a table of n keys in time proportional to n^2 (10^5 keys
// take minutes), in the round-trip validation and in the code under test alike.  A case
// whose large map has more keys than this is judged on its JSON and YAML renderings only
// (SkipTOML); above TOMLOnceLimit keys the TOML rendering is loaded once.
const (
	TOMLKeyLimit  = 30000
	TOMLOnceLimit = 5000
)

// SkipTOML: see TOMLKeyLimit.
func (c *ScaleCase) SkipTOML() bool { return c.Mode == ModeBigMap && c.Size > TOMLKeyLimit }

// HeavyTOML: see TOMLKeyLimit.
func (c *ScaleCase) HeavyTOML() bool { return c.Mode == ModeBigMap && c.Size > TOMLOnceLimit }

// RenderScale renders doc in the three formats with drawn styles.  JSON: minified or
// indented (encoding/json).  YAML: block style (yaml.v2 Marshal; long strings are folded
// at spaces) or flow style on one line (the minified JSON text, which is YAML flow syntax,
// accepted only if yaml.v2 reads it back to the same tree).  TOML (go-toml/v2 encoder):
// default (arrays inline, tables as sections), all tables inline, or arrays with one
// element per line.  oneLine forces the single-line styles.  skipTOML leaves the TOML
// rendering out (M == nil, MStyle "skipped"): see TOMLKeyLimit.
func RenderScale(t *rapid.T, doc map[string]any, oneLine, skipTOML bool) *ScaleRender {
	r := &ScaleRender{}
	js := rapid.SampledFrom([]string{"minified", "minified", "indented"}).Draw(t, "jsonstyle")
	ys := rapid.SampledFrom([]string{"block", "flow"}).Draw(t, "yamlstyle")
	ms := rapid.SampledFrom([]string{"default", "default", "inline-tables", "multiline-arrays"}).Draw(t, "tomlstyle")
	if oneLine {
		js, ys = "minified", "flow"
		if ms == "multiline-arrays" {
			ms = "default"
		}
	}
	r.JStyle, r.YStyle, r.MStyle = js, ys, ms
	r.J, r.OKJ = RenderJSON(doc, js == "indented")
	if ys == "flow" {
		var min []byte
		if js == "minified" {
			min = r.J
		} else {
			min, _ = json.Marshal(doc)
		}
		var back any
		if min != nil && yaml.Unmarshal(min, &back) == nil {
			if n, ok := Normalize(back); ok && reflect.DeepEqual(n, any(doc)) {
				r.Y, r.OKY = min, true
			}
		}
		if !r.OKY {
			r.YStyle = "block(flow-unrepresentable)"
		}
	}
	if !r.OKY {
		r.Y, r.OKY = RenderYAML(doc)
	}
	if skipTOML {
		r.MStyle, r.OKM = "skipped", true
		return r
	}
	r.M, r.OKM = renderTOMLStyle(doc, ms)
	if !r.OKM && ms != "default" {
		r.MStyle = "default(" + ms + "-unrepresentable)"
		r.M, r.OKM = RenderTOML(doc)
	}
	return r
}

func renderTOMLStyle(doc map[string]any, style string) (b []byte, ok bool) {
	if style == "default" {
		return RenderTOML(doc)
	}
	defer func() {
		if recover() != nil {
			b, ok = nil, false
		}
	}()
	var buf bytes.Buffer
	enc := toml.NewEncoder(&buf)
	if style == "inline-tables" {
		enc.SetTablesInline(true)
	} else {
		enc.SetArraysMultiline(true)
	}
	if enc.Encode(doc) != nil {
		return nil, false
	}
	var back any
	if toml.NewDecoder(bytes.NewReader(buf.Bytes())).Decode(&back) != nil {
		return nil, false
	}
	n, nok := Normalize(back)
	return buf.Bytes(), nok && reflect.DeepEqual(n, any(doc))
}

// ---------------------------------------------------------------- measuring, reporting

// DocStats measures a document: longest string, largest array, largest object, nesting.
type DocStats struct{ MaxString, MaxArray, MaxObject, Depth int }

// Measure walks a document value.
func Measure(v any) DocStats {
	var s DocStats
	var walk func(v any, d int)
	walk = func(v any, d int) {
		switch x := v.(type) {
		case map[string]any:
			if len(x) > s.MaxObject {
				s.MaxObject = len(x)
			}
			if d+1 > s.Depth {
				s.Depth = d + 1
			}
			for _, e := range x {
				walk(e, d+1)
			}
		case []any:
			if len(x) > s.MaxArray {
				s.MaxArray = len(x)
			}
			if d+1 > s.Depth {
				s.Depth = d + 1
			}
			for _, e := range x {
				walk(e, d+1)
			}
		case string:
			if len(x) > s.MaxString {
				s.MaxString = len(x)
			}
		}
	}
	walk(v, 0)
	return s
}

// Pow2Class names the power-of-two bucket of n, e.g. "2^16..".
func Pow2Class(n int) string {
	if n <= 0 {
		return "0"
	}
	return "2^" + strconv.Itoa(bits.Len(uint(n))-1) + ".."
}

// Clip shortens a text for a failure message: head and tail.
func Clip(b []byte, n int) string {
	if len(b) <= n {
		return string(b)
	}
	return fmt.Sprintf("%s … [%d bytes] … %s", b[:n*2/3], len(b), b[len(b)-n/3:])
}

// ClipErr renders an error for a failure message (the loaders quote the whole input in
// their error texts).
func ClipErr(err error) string { return errText(err) }

// Fingerprint hashes a rendering.
func Fingerprint(b []byte) string {
	h := fnv.New64a()
	h.Write(b)
	return strconv.FormatUint(h.Sum64(), 36)
}

// Brief renders a case for a failure message.
func (c *ScaleCase) Brief(r *ScaleRender) string {
	ts := c.T.String()
	s := fmt.Sprintf("%s\ntype %s", c, Clip([]byte(ts), 900))
	if r != nil {
		s += fmt.Sprintf("\nstyles %s\nJSON (%d bytes, longest line %d): %s\nYAML (%d bytes, longest line %d): %s\nTOML (%d bytes, longest line %d): %s",
			r.Styles(), len(r.J), MaxLine(r.J), Clip(r.J, 600), len(r.Y), MaxLine(r.Y), Clip(r.Y, 600), len(r.M), MaxLine(r.M), Clip(r.M, 600))
	}
	return s
}

// FirstDiff describes where two loaded values differ (a path and the two values there,
// clipped), for failure messages about large values.
func FirstDiff(a, b reflect.Value, path string) string {
	clip := func(v reflect.Value) string { return Clip([]byte(fmt.Sprintf("%+v", v.Interface())), 200) }
	if a.Type() != b.Type() {
		return fmt.Sprintf("%s: types %s / %s", path, a.Type(), b.Type())
	}
	switch a.Kind() {
	case reflect.Ptr:
		if a.IsNil() || b.IsNil() {
			if a.IsNil() != b.IsNil() {
				return fmt.Sprintf("%s: nil=%v / nil=%v", path, a.IsNil(), b.IsNil())
			}
			return ""
		}
		return FirstDiff(a.Elem(), b.Elem(), path)
	case reflect.Struct:
		for i := 0; i < a.NumField(); i++ {
			if d := FirstDiff(a.Field(i), b.Field(i), path+"."+a.Type().Field(i).Name); d != "" {
				return d
			}
		}
		return ""
	case reflect.Slice:
		if a.Len() != b.Len() {
			return fmt.Sprintf("%s: lengths %d / %d", path, a.Len(), b.Len())
		}
		if a.IsNil() != b.IsNil() {
			return fmt.Sprintf("%s: nil=%v / nil=%v", path, a.IsNil(), b.IsNil())
		}
		for i := 0; i < a.Len(); i++ {
			if d := FirstDiff(a.Index(i), b.Index(i), fmt.Sprintf("%s[%d]", path, i)); d != "" {
				return d
			}
		}
		return ""
	case reflect.Map:
		if a.Len() != b.Len() {
			return fmt.Sprintf("%s: sizes %d / %d", path, a.Len(), b.Len())
		}
		if a.IsNil() != b.IsNil() {
			return fmt.Sprintf("%s: nil=%v / nil=%v", path, a.IsNil(), b.IsNil())
		}
		for _, k := range a.MapKeys() {
			bv := b.MapIndex(k)
			if !bv.IsValid() {
				return fmt.Sprintf("%s: key %q only in the first", path, k.String())
			}
			if d := FirstDiff(a.MapIndex(k), bv, fmt.Sprintf("%s[%q]", path, k.String())); d != "" {
				return d
			}
		}
		return ""
	}
	if !reflect.DeepEqual(a.Interface(), b.Interface()) {
		return fmt.Sprintf("%s: %s / %s", path, clip(a), clip(b))
	}
	return ""
}

// ScaleClasses names the size classes of a case (histogram buckets: the measured document,
// the longest physical line of each rendering) and says whether the case is non-trivial:
// its size reaches NonTrivialAt of its mode (longline: judged by the lines actually
// rendered - the shortest of the three renderings' longest lines).  desc is the text to
// fingerprint.
func ScaleClasses(c *ScaleCase, r *ScaleRender) (classes []string, nontrivial bool, desc string) {
	m := Measure(c.Doc)
	classes = []string{
		"max-string:" + Pow2Class(m.MaxString), "max-array:" + Pow2Class(m.MaxArray),
		"max-object:" + Pow2Class(m.MaxObject), "depth:" + Pow2Class(m.Depth),
		"line-json:" + Pow2Class(MaxLine(r.J)), "line-yaml:" + Pow2Class(MaxLine(r.Y)),
		"bytes-json:" + Pow2Class(len(r.J)),
	}
	if r.M != nil {
		classes = append(classes, "line-toml:"+Pow2Class(MaxLine(r.M)))
	}
	size := c.Size
	if c.Mode == ModeLongLine {
		size = r.MinMaxLine()
	}
	if size >= ScaleRanges[c.Mode].NonTrivialAt {
		classes = append(classes, "nontrivial:"+c.Mode)
		nontrivial = true
	}
	return classes, nontrivial, fmt.Sprintf("%s | %s | json %d bytes fp=%s", c, r.Styles(), len(r.J), Fingerprint(r.J))
}
