//go:build verif

package conf_test

import (
	"encoding/json"
	"fmt"
	"math"
	"reflect"
	"strings"
	"testing"

	"github.com/zeromicro/go-zero/core/conf"
	"github.com/zeromicro/go-zero/core/logx"
	"github.com/zeromicro/go-zero/core/mapping"
	"github.com/zeromicro/go-zero/internal/verifkit"
	"pgregory.net/rapid"
)

// Unsigned integers above MaxInt64.  The abstract documents of the Formats unit hold int64 values
// (TOML has no larger integers), so the top half of the uint64 range never reached a loader.  JSON and
// YAML both spell such numbers; this property loads the same document from both (conf loaders and the
// mapping entry points) into uint64 / uint / []uint64 / map[string]uint64 fields and requires the same
// verdict and equal values, and agreement with encoding/json.  TOML is left out: a domain cut of the
// format, not of the check.
type c17BigU struct {
	Max  uint64            `json:"max"`
	U    uint              `json:"u,optional"`
	List []uint64          `json:"list,optional"`
	M    map[string]uint64 `json:"m,optional"`
	In   struct {
		V uint64 `json:"v"`
	} `json:"in,optional"`
}

func TestVerifC17FormatsBigUint(t *testing.T) {
	logx.Disable()
	st := verifkit.New("formats-biguint")
	defer st.Flush()
	big := rapid.OneOf(
		rapid.SampledFrom([]uint64{math.MaxInt64, math.MaxInt64 + 1, math.MaxUint64, math.MaxUint64 - 1, 1 << 63, 1<<63 + 1<<53 + 1, 0, 1}),
		rapid.Uint64Range(math.MaxInt64+1, math.MaxUint64),
		rapid.Uint64Range(0, math.MaxUint64),
	)
	rapid.Check(t, func(t *rapid.T) {
		st.Eval()
		max := big.Draw(t, "max")
		u := big.Draw(t, "u")
		list := rapid.SliceOfN(big, 0, 4).Draw(t, "list")
		mk := rapid.SliceOfNDistinct(rapid.SampledFrom([]string{"a", "b", "c", "d"}), 0, 3, rapid.ID[string]).Draw(t, "mkeys")
		mv := make([]uint64, len(mk))
		for i := range mk {
			mv[i] = big.Draw(t, "mval")
		}
		inV, hasIn := big.Draw(t, "inv"), rapid.Bool().Draw(t, "hasIn")
		// one document, two spellings (numbers as plain decimal digit strings in both)
		var jb, yb strings.Builder
		fmt.Fprintf(&jb, `{"max":%d,"u":%d,"list":[`, max, u)
		fmt.Fprintf(&yb, "max: %d\nu: %d\nlist: [", max, u)
		for i, v := range list {
			sep := ""
			if i > 0 {
				sep = ","
			}
			fmt.Fprintf(&jb, "%s%d", sep, v)
			fmt.Fprintf(&yb, "%s%d", sep, v)
		}
		jb.WriteString(`],"m":{`)
		yb.WriteString("]\nm:")
		if len(mk) == 0 {
			yb.WriteString(" {}")
		}
		for i, k := range mk {
			sep := ""
			if i > 0 {
				sep = ","
			}
			fmt.Fprintf(&jb, `%s"%s":%d`, sep, k, mv[i])
			fmt.Fprintf(&yb, "\n  %s: %d", k, mv[i])
		}
		jb.WriteString("}")
		yb.WriteString("\n")
		if hasIn {
			fmt.Fprintf(&jb, `,"in":{"v":%d}`, inV)
			fmt.Fprintf(&yb, "in:\n  v: %d\n", inV)
		}
		jb.WriteString("}")
		j, y := []byte(jb.String()), []byte(yb.String())

		var want c17BigU
		if err := json.Unmarshal(j, &want); err != nil {
			t.Fatalf("harness: encoding/json rejects the generated document: %v\n%s", err, j)
		}
		norm := func(v c17BigU) c17BigU { // nil and empty containers identified (DESIGN §4 C17)
			if len(v.List) == 0 {
				v.List = nil
			}
			if len(v.M) == 0 {
				v.M = nil
			}
			return v
		}
		above := max > math.MaxInt64 || u > math.MaxInt64
		for _, v := range append(append([]uint64{}, list...), mv...) {
			above = above || v > math.MaxInt64
		}
		if hasIn && inV > math.MaxInt64 {
			above = true
		}
		loaders := []struct {
			name string
			load func(v *c17BigU) error
		}{
			{"conf.LoadFromJsonBytes", func(v *c17BigU) error { return conf.LoadFromJsonBytes(j, v) }},
			{"conf.LoadFromYamlBytes", func(v *c17BigU) error { return conf.LoadFromYamlBytes(y, v) }},
			{"mapping.UnmarshalJsonBytes", func(v *c17BigU) error { return mapping.UnmarshalJsonBytes(j, v) }},
			{"mapping.UnmarshalYamlBytes", func(v *c17BigU) error { return mapping.UnmarshalYamlBytes(y, v) }},
		}
		for _, l := range loaders {
			var got c17BigU
			if err := l.load(&got); err != nil {
				t.Fatalf("C17 VIOLATED (same verdict and deeply equal values whatever the format; agreement with encoding/json): %s rejects a document that encoding/json accepts: %v\nJSON %s\nYAML\n%s", l.name, err, j, y)
			}
			if !reflect.DeepEqual(norm(got), norm(want)) {
				t.Fatalf("C17 VIOLATED (same verdict and deeply equal values whatever the format; agreement with encoding/json): %s loaded %+v, encoding/json %+v\nJSON %s\nYAML\n%s", l.name, got, want, j, y)
			}
		}
		if above {
			st.Class("value-above-MaxInt64")
			st.NonTrivial(string(j))
		}
	})
}
