//go:build verif

package sqlx

// C11, unit `bulkinserter`: sqlx.BulkInserter is a PeriodicalExecutor (flush interval 1 s, size
// threshold maxBulkRows = 1000) whose tasks are formatted value tuples and whose execute callback
// joins them into one INSERT statement.  The clauses of C11 are checked on rows: every row whose
// Insert returned nil is written (handed to SqlConn.Exec inside a statement) exactly once - at the
// threshold, on the periodic flush, on an explicit Flush / UpdateOrDelete / UpdateStmt, or at the
// latest when the executor is waited for - and a failing or panicking Exec loses only its own rows.
//
// The database is a fake SqlConn that records every statement, can fail / panic / hold the k-th Exec.
// The oracle parses the VALUES tuples back out of the recorded statements with a small lexer for
// MySQL string literals (independent of sqlx.escape), so it sees what a database would see.

import (
	"context"
	"database/sql"
	"fmt"
	"os"
	"runtime"
	"sort"
	"strconv"
	"strings"
	"sync"
	"sync/atomic"
	"testing"
	"time"

	"github.com/zeromicro/go-zero/core/logx"
	"github.com/zeromicro/go-zero/internal/verifkit"
	"pgregory.net/rapid"
)

// Findings of this unit on the unchanged tree (FINDINGS.md).  While one is listed with status "known"
// in known_findings.json (or named in $VERIF_C11_TOLERATE, a development aid) its signature is counted
// and reported instead of failing the case; otherwise it fails the case like any other violation.
var c11Known = verifkit.KnownFindings("C11")

func c11Tolerated(id string) bool {
	if c11Known[id] {
		return true
	}
	for _, x := range strings.Split(os.Getenv("VERIF_C11_TOLERATE"), ",") {
		if x == id {
			return true
		}
	}
	return false
}

const c11F2Text = "BulkInserter.UpdateStmt replaced the statement while a batch of rows inserted before the call was on its way (threshold batch handed to the background flusher, or a batch another goroutine is flushing); the batch was written with the new statement's prefix and/or suffix"

var c11Reported sync.Map // finding id -> reported once per process

func c11Finding(st *verifkit.Stats, id, what string) {
	st.Excluded()
	st.Class("known-finding-" + id + "-observed")
	if _, dup := c11Reported.LoadOrStore(id, true); !dup && c11Known[id] {
		st.KnownFinding(id, what)
	}
}

// ---------------------------------------------------------------- logical clock

var c11clock int64

func c11tick() int64 { return atomic.AddInt64(&c11clock, 1) }

// ---------------------------------------------------------------- statements

type c11Stmt struct {
	idx    int
	text   string
	prefix string // everything up to and including the VALUES keyword, as written
	suffix string // what follows the value tuple (trimmed), "" if nothing
}

func c11GenStmt(t *rapid.T, idx, arity int) c11Stmt {
	verb := rapid.SampledFrom([]string{"insert into", "INSERT INTO", "insert ignore into", "replace into"}).Draw(t, "verb")
	cols := ""
	if rapid.Bool().Draw(t, "withColumns") {
		if arity == 2 {
			cols = rapid.SampledFrom([]string{"(id, p)", " (id,p)", "(`id`, `p`)"}).Draw(t, "cols")
		} else {
			cols = rapid.SampledFrom([]string{"(id, p, f)", " (id,p,f)", "(`id`, `p`, `f`)"}).Draw(t, "cols")
		}
	}
	kw := rapid.SampledFrom([]string{"values", "VALUES", "Values"}).Draw(t, "keyword")
	gap := rapid.SampledFrom([]string{"", " "}).Draw(t, "gap")
	var vf string
	if arity == 2 {
		vf = rapid.SampledFrom([]string{"(?, ?)", "(?,?)", "( ?, ? )"}).Draw(t, "valueFormat")
	} else {
		vf = rapid.SampledFrom([]string{"(?, ?, ?)", "(?,?,?)", "( ?, ?, ? )"}).Draw(t, "valueFormat")
	}
	suffix := rapid.SampledFrom([]string{"", "", "on duplicate key update p=values(p)",
		"ON DUPLICATE KEY UPDATE p = VALUES(p), id = id + 1"}).Draw(t, "suffix")
	s := c11Stmt{idx: idx, suffix: suffix}
	s.prefix = fmt.Sprintf("%s tb%d%s %s", verb, idx, cols, kw)
	s.text = s.prefix + gap + vf
	if suffix != "" {
		s.text += " " + suffix
	}
	return s
}

// ---------------------------------------------------------------- tuple parser (MySQL literals)

// c11ParseTuples reads "(v, v, ...)[, (v, ...)]*" from the start of s (blanks allowed around every
// token) and returns the tuples and what follows the last one.  A value is a decimal integer or a
// single-quoted string literal with MySQL backslash escapes (” is a quote, too).
func c11ParseTuples(s string) (tuples [][]any, rest string, err error) {
	i := 0
	skip := func() {
		for i < len(s) && (s[i] == ' ' || s[i] == '\t' || s[i] == '\n' || s[i] == '\r') {
			i++
		}
	}
	for {
		skip()
		if i >= len(s) || s[i] != '(' {
			return tuples, s[i:], fmt.Errorf("offset %d: '(' of a value tuple expected", i)
		}
		i++
		var vals []any
		for {
			skip()
			if i >= len(s) {
				return tuples, "", fmt.Errorf("offset %d: statement ends inside a tuple", i)
			}
			if s[i] == '\'' {
				i++
				var b strings.Builder
				closed := false
				for i < len(s) {
					ch := s[i]
					if ch == '\\' {
						if i+1 >= len(s) {
							return tuples, "", fmt.Errorf("offset %d: statement ends after an escape character", i)
						}
						switch e := s[i+1]; e {
						case 'n':
							b.WriteByte('\n')
						case 'r':
							b.WriteByte('\r')
						case 't':
							b.WriteByte('\t')
						case 'b':
							b.WriteByte('\b')
						case '0':
							b.WriteByte(0)
						case 'Z':
							b.WriteByte(0x1a)
						default: // \\ \' \" and every other character stand for themselves
							b.WriteByte(e)
						}
						i += 2
						continue
					}
					if ch == '\'' {
						if i+1 < len(s) && s[i+1] == '\'' {
							b.WriteByte('\'')
							i += 2
							continue
						}
						i++
						closed = true
						break
					}
					b.WriteByte(ch)
					i++
				}
				if !closed {
					return tuples, "", fmt.Errorf("unterminated string literal")
				}
				vals = append(vals, b.String())
			} else {
				j := i
				for j < len(s) && s[j] != ',' && s[j] != ')' && s[j] != '\'' && s[j] != '(' {
					j++
				}
				tok := strings.TrimSpace(s[i:j])
				n, perr := strconv.ParseInt(tok, 10, 64)
				if perr != nil {
					return tuples, "", fmt.Errorf("offset %d: %q is neither a string literal nor an integer", i, tok)
				}
				vals = append(vals, n)
				i = j
			}
			skip()
			if i < len(s) && s[i] == ',' {
				i++
				continue
			}
			if i < len(s) && s[i] == ')' {
				i++
				break
			}
			return tuples, "", fmt.Errorf("offset %d: ',' or ')' expected after a value", i)
		}
		tuples = append(tuples, vals)
		skip()
		// a comma followed by '(' continues the tuple list; anything else belongs to the suffix
		if i < len(s) && s[i] == ',' {
			k := i + 1
			for k < len(s) && (s[k] == ' ' || s[k] == '\t' || s[k] == '\n' || s[k] == '\r') {
				k++
			}
			if k < len(s) && s[k] == '(' {
				i = k
				continue
			}
		}
		return tuples, s[i:], nil
	}
}

// ---------------------------------------------------------------- fake database

type c11Result struct{ seq int }

func (r c11Result) LastInsertId() (int64, error) { return int64(r.seq), nil }
func (r c11Result) RowsAffected() (int64, error) { return 0, nil }

type c11Exec struct {
	seq      int
	stmt     string
	nargs    int
	start    int64 // stamp at which Exec was entered ("handed to the database")
	mode     string
	err      error
	stmtIdx  int // which of the case's statements the text starts with, -1 if none
	tuples   [][]any
	rest     string // text after the tuples, trimmed
	parseErr string
}

type c11Conn struct {
	SqlConn // nil: any method other than Exec/ExecCtx is not expected to be called
	mu      sync.Mutex
	execs   []*c11Exec
	seen    map[int64]int
	modes   []string
	stmts   []c11Stmt
	gate    chan struct{}
	holdMax time.Duration
}

func (c *c11Conn) ExecCtx(_ context.Context, q string, args ...any) (sql.Result, error) {
	return c.Exec(q, args...)
}

func (c *c11Conn) Exec(q string, args ...any) (sql.Result, error) {
	e := &c11Exec{stmt: q, nargs: len(args), start: c11tick(), stmtIdx: -1, mode: "ok"}
	c.mu.Lock()
	e.seq = len(c.execs)
	if e.seq < len(c.modes) {
		e.mode = c.modes[e.seq]
	}
	c.execs = append(c.execs, e)
	gate := c.gate
	c.mu.Unlock()
	// what does the database see?
	best := -1
	for k, s := range c.stmts {
		if strings.HasPrefix(q, s.prefix) && (best < 0 || len(s.prefix) > len(c.stmts[best].prefix)) {
			best = k
		}
	}
	var ids []int64
	if best >= 0 {
		tuples, rest, err := c11ParseTuples(q[len(c.stmts[best].prefix):])
		for _, tp := range tuples {
			if len(tp) > 0 {
				if id, ok := tp[0].(int64); ok {
					ids = append(ids, id)
				}
			}
		}
		c.mu.Lock()
		e.stmtIdx, e.tuples, e.rest = best, tuples, strings.TrimSpace(rest)
		if err != nil {
			e.parseErr = err.Error()
		}
		for _, id := range ids {
			c.seen[id]++
		}
		c.mu.Unlock()
	}
	switch e.mode {
	case "hold":
		// schedule shaping only: held until a producer's `release` step or holdMax, whichever is first
		select {
		case <-gate:
		case <-time.After(c.holdMax):
		}
	case "panic":
		panic(fmt.Sprintf("planned panic in Exec #%d", e.seq))
	case "fail":
		err := fmt.Errorf("planned failure of Exec #%d", e.seq)
		c.mu.Lock()
		e.err = err
		c.mu.Unlock()
		return nil, err
	}
	return c11Result{e.seq}, nil
}

func (c *c11Conn) release() {
	c.mu.Lock()
	close(c.gate)
	c.gate = make(chan struct{})
	c.mu.Unlock()
}

func (c *c11Conn) seenAll(ids []int64) bool {
	c.mu.Lock()
	defer c.mu.Unlock()
	for _, id := range ids {
		if c.seen[id] == 0 {
			return false
		}
	}
	return true
}

// ---------------------------------------------------------------- plans

type c11Row struct {
	id       int64
	payload  string
	args     []any // what is passed to Insert
	want     []any // what the database must see (int64 / string)
	inv, ret int64
	err      error
	wellForm bool // number of args == number of placeholders
}

type c11Op struct {
	kind   string // ins burst flush uod upd seth pause gosched release await
	rows   []*c11Row
	stmt   c11Stmt
	hid    int
	hpanic bool
	n      int
	// filled while running
	inv, ret, fnAt int64
	fnRuns         int32
	err            error
}

var c11Alphabet = []rune{'a', 'b', 'Z', '7', ' ', '\'', '"', '\\', ',', '(', ')', '?', '%', '_', ';', '-', '#', ':', '$', '`', '\n', '\r', '\t', 'é', '中'}

func c11MakeRow(id int64, payload string, third int64, asBool bool, arity int, shape int) *c11Row {
	r := &c11Row{id: id, payload: payload, wellForm: shape == 0}
	r.args = []any{int(id), payload}
	r.want = []any{id, payload}
	if arity == 3 {
		if asBool {
			r.args = append(r.args, third&1 == 1)
			r.want = append(r.want, third&1)
		} else {
			r.args = append(r.args, third)
			r.want = append(r.want, third)
		}
	}
	switch shape {
	case 1: // one argument too few
		r.args, r.want = r.args[:len(r.args)-1], r.want[:len(r.want)-1]
	case 2: // one too many
		r.args, r.want = append(r.args, "extra"), append(r.want, "extra")
	}
	return r
}

type c11Case struct {
	arity   int
	stmts   []c11Stmt
	plans   [][]*c11Op
	modes   []string
	holdMax time.Duration
	await   bool
}

func c11Gen(t *rapid.T) *c11Case {
	c := &c11Case{}
	c.arity = rapid.IntRange(2, 3).Draw(t, "placeholders")
	c.stmts = append(c.stmts, c11GenStmt(t, 0, c.arity))
	nprod := rapid.IntRange(1, 4).Draw(t, "producers")
	maxOps := 8
	awaitOdds := 40
	if verifkit.Thorough() {
		maxOps, awaitOdds = 12, 25
	}
	// the 1 s periodic flush is waited for in a few cases only (each costs up to a second)
	c.await = rapid.IntRange(1, awaitOdds).Draw(t, "awaitPeriodicFlush") == awaitOdds
	nmodes := 12
	for k := 0; k < nmodes; k++ {
		c.modes = append(c.modes, rapid.SampledFrom([]string{"ok", "ok", "ok", "ok", "ok", "ok", "ok", "fail", "fail", "panic", "hold", "hold"}).Draw(t, "execMode"))
	}
	c.holdMax = time.Duration(rapid.SampledFrom([]int{200, 1000, 4000}).Draw(t, "holdMaxUs")) * time.Microsecond
	var nextID int64
	hid := 0
	bursts := 0
	for p := 0; p < nprod; p++ {
		nops := rapid.IntRange(1, maxOps).Draw(t, "ops")
		var plan []*c11Op
		for i := 0; i < nops; i++ {
			kinds := []string{"ins", "ins", "ins", "ins", "small", "small", "burst", "flush", "uod", "upd", "seth", "pause", "gosched", "release"}
			k := rapid.SampledFrom(kinds).Draw(t, "op")
			if k == "burst" && bursts >= 3 {
				k = "small"
			}
			o := &c11Op{kind: k}
			switch k {
			case "ins":
				nextID++
				payload := rapid.StringOfN(rapid.SampledFrom(c11Alphabet), 0, 10, -1).Draw(t, "payload")
				third := rapid.Int64Range(-3, 1<<40).Draw(t, "third")
				shape := rapid.SampledFrom([]int{0, 0, 0, 0, 0, 0, 0, 0, 0, 0, 0, 1, 2}).Draw(t, "argShape")
				o.rows = []*c11Row{c11MakeRow(nextID, payload, third, rapid.Bool().Draw(t, "asBool"), c.arity, shape)}
			case "small", "burst":
				n := 0
				if k == "burst" {
					bursts++
					// crosses the row threshold once or twice, alone or together with the other producers' rows
					n = rapid.SampledFrom([]int{1000, 1001, 1200, 1999, 2000, 2300}).Draw(t, "burstRows")
				} else {
					n = rapid.IntRange(2, 40).Draw(t, "smallBurstRows")
				}
				o.kind = "burst"
				tmpl := rapid.StringOfN(rapid.SampledFrom(c11Alphabet), 0, 6, -1).Draw(t, "payloadTemplate")
				asBool := rapid.Bool().Draw(t, "asBool")
				for j := 0; j < n; j++ {
					nextID++
					o.rows = append(o.rows, c11MakeRow(nextID, tmpl+strconv.FormatInt(nextID, 10)+tmpl, nextID*7-3, asBool, c.arity, 0))
				}
			case "upd":
				o.stmt = c11GenStmt(t, len(c.stmts), c.arity)
				c.stmts = append(c.stmts, o.stmt)
			case "seth":
				hid++
				o.hid = hid
				o.hpanic = rapid.IntRange(0, 5).Draw(t, "handlerPanics") == 0
			case "pause":
				o.n = rapid.SampledFrom([]int{20, 100, 500, 2000}).Draw(t, "pauseUs")
			case "gosched":
				o.n = rapid.IntRange(1, 20).Draw(t, "n")
			}
			plan = append(plan, o)
		}
		if c.await && p == 0 {
			// somewhere in producer 0's plan: wait (without flushing) until its rows so far were written
			at := rapid.IntRange(0, len(plan)).Draw(t, "awaitAt")
			plan = append(plan[:at], append([]*c11Op{{kind: "await"}}, plan[at:]...)...)
		}
		c.plans = append(c.plans, plan)
	}
	return c
}

func (c *c11Case) render() string {
	var b strings.Builder
	fmt.Fprintf(&b, "stmts:")
	for _, s := range c.stmts {
		fmt.Fprintf(&b, " [%d]%q", s.idx, s.text)
	}
	fmt.Fprintf(&b, " execModes=%s holdMax=%v | ", strings.Join(c.modes, ","), c.holdMax)
	for p, pl := range c.plans {
		fmt.Fprintf(&b, "p%d:", p)
		for _, o := range pl {
			switch o.kind {
			case "ins":
				r := o.rows[0]
				fmt.Fprintf(&b, " ins(#%d %q", r.id, r.payload)
				if !r.wellForm {
					fmt.Fprintf(&b, " %d-args", len(r.args))
				}
				b.WriteString(")")
			case "burst":
				fmt.Fprintf(&b, " burst(#%d..#%d %q)", o.rows[0].id, o.rows[len(o.rows)-1].id, o.rows[0].payload)
			case "upd":
				fmt.Fprintf(&b, " updstmt[%d]", o.stmt.idx)
			case "seth":
				fmt.Fprintf(&b, " sethandler(h%d", o.hid)
				if o.hpanic {
					b.WriteString(" panics")
				}
				b.WriteString(")")
			case "pause", "gosched":
				fmt.Fprintf(&b, " %s(%d)", o.kind, o.n)
			default:
				b.WriteString(" " + o.kind)
			}
		}
		b.WriteString("; ")
	}
	return b.String()
}

type c11HCall struct {
	hid int
	res sql.Result
	err error
	at  int64
}

func c11Same(a, b []any) bool {
	if len(a) != len(b) {
		return false
	}
	for i := range a {
		if a[i] != b[i] {
			return false
		}
	}
	return true
}

// ---------------------------------------------------------------- the property

func c11RunBulkCase(t *rapid.T, st *verifkit.Stats) {
	st.Eval()
	c := c11Gen(t)
	desc := c.render()
	conn := &c11Conn{seen: map[int64]int{}, modes: c.modes, stmts: c.stmts, gate: make(chan struct{}), holdMax: c.holdMax}
	bi, err := NewBulkInserter(conn, c.stmts[0].text)
	if err != nil {
		t.Fatalf("NewBulkInserter rejected the well-formed statement %q: %v", c.stmts[0].text, err)
	}
	var hmu sync.Mutex
	var hcalls []c11HCall
	var failMu sync.Mutex
	var failure string
	fail := func(format string, a ...any) {
		failMu.Lock()
		if failure == "" {
			failure = fmt.Sprintf(format, a...)
		}
		failMu.Unlock()
	}
	start := make(chan struct{})
	var wg sync.WaitGroup
	for p := range c.plans {
		wg.Add(1)
		go func(p int) {
			defer wg.Done()
			<-start
			var mine []int64
			for _, o := range c.plans[p] {
				switch o.kind {
				case "ins", "burst":
					for _, r := range o.rows {
						r.inv = c11tick()
						r.err = bi.Insert(r.args...)
						r.ret = c11tick()
						if r.err == nil {
							mine = append(mine, r.id)
						}
					}
				case "flush":
					o.inv = c11tick()
					bi.Flush()
					o.ret = c11tick()
				case "uod":
					o.inv = c11tick()
					bi.UpdateOrDelete(func() {
						o.fnAt = c11tick()
						atomic.AddInt32(&o.fnRuns, 1)
					})
					o.ret = c11tick()
				case "upd":
					o.inv = c11tick()
					o.err = bi.UpdateStmt(o.stmt.text)
					o.ret = c11tick()
				case "seth":
					hid, hp := o.hid, o.hpanic
					o.inv = c11tick()
					bi.SetResultHandler(func(res sql.Result, err error) {
						at := c11tick()
						hmu.Lock()
						hcalls = append(hcalls, c11HCall{hid, res, err, at})
						hmu.Unlock()
						if hp {
							panic("planned panic in the result handler")
						}
					})
					o.ret = c11tick()
				case "pause":
					time.Sleep(time.Duration(o.n) * time.Microsecond)
				case "gosched":
					for i := 0; i < o.n; i++ {
						runtime.Gosched()
					}
				case "release":
					conn.release()
				case "await":
					// no Flush: the rows this producer inserted so far must be written by the 1 s periodic
					// flush (or by whatever the other producers trigger).  Verdict budget: 20 intervals.
					deadline := time.Now().Add(20 * time.Second)
					for !conn.seenAll(mine) {
						if time.Now().After(deadline) {
							fail("C11 VIOLATED (a row accepted by Insert is written ... on the periodic flush): rows %v of producer %d "+
								"were inserted, nobody called Flush, and some were not handed to Exec within 20 s (flush interval: 1 s)", mine, p)
							return
						}
						time.Sleep(2 * time.Millisecond)
					}
				}
			}
		}(p)
	}
	close(start)
	done := make(chan struct{})
	go func() { wg.Wait(); close(done) }()
	select {
	case <-done:
	case <-time.After(60 * time.Second):
		t.Fatalf("producers did not finish within 60 s (an Insert/Flush/UpdateOrDelete/UpdateStmt/SetResultHandler never returned); case: %s", desc)
	}
	// final barrier: an explicit Flush, then the executor is waited for
	wdone := make(chan struct{})
	go func() { bi.Flush(); bi.executor.Wait(); close(wdone) }()
	select {
	case <-wdone:
	case <-time.After(60 * time.Second):
		t.Fatalf("final Flush + executor.Wait did not return within 60 s; case: %s", desc)
	}
	if failure != "" {
		t.Fatalf("%s; case: %s", failure, desc)
	}

	conn.mu.Lock()
	execs := append([]*c11Exec(nil), conn.execs...)
	conn.mu.Unlock()
	hmu.Lock()
	calls := append([]c11HCall(nil), hcalls...)
	hmu.Unlock()

	// ---- what the database saw
	rows := map[int64]*c11Row{}
	var order []int64
	var flushes, uods, upds, seths []*c11Op
	for _, pl := range c.plans {
		for _, o := range pl {
			for _, r := range o.rows {
				rows[r.id] = r
				order = append(order, r.id)
			}
			switch o.kind {
			case "flush":
				flushes = append(flushes, o)
			case "uod":
				uods = append(uods, o)
			case "upd":
				upds = append(upds, o)
			case "seth":
				seths = append(seths, o)
			}
		}
	}
	sort.Slice(order, func(i, j int) bool { return order[i] < order[j] })
	for _, id := range order {
		r := rows[id]
		if r.wellForm && r.err != nil {
			t.Fatalf("Insert(%v) with as many arguments as placeholders returned %v; case: %s", r.args, r.err, desc)
		}
	}
	for _, o := range upds {
		if o.err != nil {
			t.Fatalf("UpdateStmt rejected the well-formed statement %q: %v; case: %s", o.stmt.text, o.err, desc)
		}
	}
	written := map[int64]int{}     // id -> number of tuples carrying it, over all statements
	execOf := map[int64]*c11Exec{} // id -> the statement it was written in
	thresholdBatches := 0
	for _, e := range execs {
		if e.nargs != 0 {
			t.Fatalf("Exec #%d was given %d arguments besides the statement text; case: %s", e.seq, e.nargs, desc)
		}
		if e.stmtIdx < 0 {
			t.Fatalf("C11/bulkinserter (3): Exec #%d got %.200q, which starts with the prefix of none of the statements given to NewBulkInserter/UpdateStmt; case: %s",
				e.seq, e.stmt, desc)
		}
		if e.parseErr != "" {
			t.Fatalf("C11/bulkinserter (5): the value list of Exec #%d cannot be read back (%s): %.300q; case: %s", e.seq, e.parseErr, e.stmt, desc)
		}
		s := c.stmts[e.stmtIdx]
		if e.rest != s.suffix {
			other := -1
			for _, s2 := range c.stmts {
				if s2.idx != s.idx && s2.suffix == e.rest {
					other = s2.idx
				}
			}
			if other >= 0 && c11Tolerated("C11-F2") && (len(e.tuples) == maxBulkRows || len(c.plans) >= 2) {
				c11Finding(st, "C11-F2", c11F2Text)
			} else {
				t.Fatalf("C11/bulkinserter (3): Exec #%d carries the prefix of statement [%d] but is followed by %q instead of its suffix %q (suffix of statement [%d]; -1 = of none); case: %s",
					e.seq, s.idx, e.rest, s.suffix, other, desc)
			}
		}
		if len(e.tuples) > maxBulkRows {
			t.Fatalf("C11 VIOLATED (executed when the size threshold is reached): Exec #%d carries %d rows, threshold is %d; case: %s", e.seq, len(e.tuples), maxBulkRows, desc)
		}
		if len(e.tuples) == maxBulkRows {
			thresholdBatches++
		}
		for _, tp := range e.tuples {
			id, ok := int64(0), false
			if len(tp) > 0 {
				id, ok = tp[0].(int64)
			}
			r := rows[id]
			if !ok || r == nil {
				t.Fatalf("C11/bulkinserter (1): Exec #%d carries the tuple %v, which no Insert passed; case: %s", e.seq, tp, desc)
			}
			written[id]++
			execOf[id] = e
			if r.err != nil {
				t.Fatalf("C11/bulkinserter (1): row #%d was written (Exec #%d) although its Insert returned the error %v; case: %s", id, e.seq, r.err, desc)
			}
			// (5) values arrive unaltered
			if !c11Same(tp, r.want) {
				t.Fatalf("C11/bulkinserter (5): row #%d was inserted as %#v but the database reads %#v (Exec #%d); case: %s", id, r.want, tp, e.seq, desc)
			}
		}
	}
	// (1) exactly once
	accepted := 0
	for _, id := range order {
		r := rows[id]
		if r.err != nil {
			continue
		}
		accepted++
		if n := written[id]; n != 1 {
			t.Fatalf("C11 VIOLATED (every accepted task is passed to the execute callback exactly once ... at the latest by Wait): row #%d, whose Insert returned nil, "+
				"was written %d times by the time Flush + executor.Wait had returned (%d statements executed); case: %s", id, n, len(execs), desc)
		}
	}
	// an explicit flush (Flush, UpdateOrDelete, UpdateStmt) takes everything that is pending: no batch
	// contains a row inserted before the call together with a row inserted after it returned
	type span struct {
		what     string
		inv, ret int64
	}
	var spans []span
	for _, o := range flushes {
		spans = append(spans, span{"Flush", o.inv, o.ret})
	}
	for _, o := range uods {
		spans = append(spans, span{"UpdateOrDelete", o.inv, o.ret})
	}
	for _, o := range upds {
		spans = append(spans, span{"UpdateStmt", o.inv, o.ret})
	}
	for _, e := range execs {
		var first, last *c11Row // earliest completed Insert, latest started Insert
		for _, tp := range e.tuples {
			r := rows[tp[0].(int64)]
			if first == nil || r.ret < first.ret {
				first = r
			}
			if last == nil || r.inv > last.inv {
				last = r
			}
		}
		if first == nil {
			continue
		}
		for _, sp := range spans {
			if first.ret < sp.inv && sp.ret < last.inv {
				t.Fatalf("C11 VIOLATED (passed to the execute callback ... on an explicit Flush): row #%d was inserted [%d,%d] before %s [%d,%d] was called, "+
					"yet it was written in the same batch (Exec #%d) as row #%d, inserted [%d,%d] after that call had returned - the flush left it pending; case: %s",
					first.id, first.inv, first.ret, sp.what, sp.inv, sp.ret, e.seq, last.id, last.inv, last.ret, desc)
			}
		}
	}
	// (2) UpdateOrDelete(fn): rows inserted before the call were handed to the database before fn starts
	for _, o := range uods {
		if o.fnRuns != 1 {
			t.Fatalf("UpdateOrDelete ran fn %d times; case: %s", o.fnRuns, desc)
		}
		for _, id := range order {
			r := rows[id]
			if r.err != nil || r.ret >= o.inv {
				continue
			}
			if e := execOf[id]; e.start > o.fnAt {
				// signature of C11-F1: the row is in other hands when UpdateOrDelete flushes - in a threshold
				// batch on its way to the background flusher, or in a batch another producer is flushing
				if c11Tolerated("C11-F1") && (len(e.tuples) == maxBulkRows || len(c.plans) >= 2) {
					c11Finding(st, "C11-F1", "BulkInserter.UpdateOrDelete ran fn before rows inserted earlier (a threshold batch handed to the background flusher, or a batch another goroutine is flushing) were handed to Exec")
					break
				}
				t.Fatalf("C11/bulkinserter (2) (UpdateOrDelete \"flushes pending records first\"): Insert of row #%d returned at %d, UpdateOrDelete was called at %d and ran fn at %d, "+
					"but the row was handed to Exec (#%d, %d rows) only at %d; case: %s", id, r.ret, o.inv, o.fnAt, e.seq, len(e.tuples), e.start, desc)
			}
		}
	}
	// (3) a row is written under a statement that was current while it was inserted
	type set struct {
		idx      int
		inv, ret int64
	}
	sets := []set{{0, 0, 0}}
	for _, o := range upds {
		sets = append(sets, set{o.stmt.idx, o.inv, o.ret})
	}
	setOf := map[int]set{}
	for _, s := range sets {
		setOf[s.idx] = s
	}
	for _, e := range execs {
		si := setOf[e.stmtIdx]
		for _, tp := range e.tuples {
			r := rows[tp[0].(int64)]
			if si.inv > r.ret {
				// signature of C11-F2: the batch was in other hands (background flusher, another producer's
				// flush) when UpdateStmt replaced the statement
				if c11Tolerated("C11-F2") && (len(e.tuples) == maxBulkRows || len(c.plans) >= 2) {
					c11Finding(st, "C11-F2", c11F2Text)
					break
				}
				t.Fatalf("C11/bulkinserter (3): row #%d was inserted [%d,%d] before UpdateStmt(statement [%d]) was called (%d), yet it was written under that new statement (Exec #%d: %.80q...); case: %s",
					r.id, r.inv, r.ret, si.idx, si.inv, e.seq, e.stmt, desc)
			}
			for _, sj := range sets {
				if sj.idx != si.idx && si.ret < sj.inv && sj.ret < r.inv {
					t.Fatalf("C11/bulkinserter (3): row #%d was inserted [%d,%d] after UpdateStmt(statement [%d]) had returned (%d), yet it was written under the older statement [%d] (Exec #%d: %.80q...); case: %s",
						r.id, r.inv, r.ret, sj.idx, sj.ret, si.idx, e.seq, e.stmt, desc)
				}
			}
		}
	}
	// (4) result handlers
	callsOf := map[int][]c11HCall{}
	for _, hc := range calls {
		k := -1
		if res, ok := hc.res.(c11Result); ok && hc.err == nil {
			k = res.seq
		} else if hc.res == nil && hc.err != nil {
			for _, e := range execs {
				if e.err == hc.err {
					k = e.seq
				}
			}
		}
		if k < 0 || k >= len(execs) {
			t.Fatalf("C11/bulkinserter (4): handler h%d received (%v, %v), which no Exec returned; case: %s", hc.hid, hc.res, hc.err, desc)
		}
		callsOf[k] = append(callsOf[k], hc)
	}
	sethOf := map[int]*c11Op{}
	for _, o := range seths {
		sethOf[o.hid] = o
	}
	failed, panicked := 0, 0
	for _, e := range execs {
		cs := callsOf[e.seq]
		if e.mode == "panic" {
			panicked++
			continue // nothing was returned, nothing to hand to a handler
		}
		if e.mode == "fail" {
			failed++
		}
		if len(cs) > 1 {
			t.Fatalf("C11/bulkinserter (4): the result of Exec #%d was handed to handlers %d times; case: %s", e.seq, len(cs), desc)
		}
		setBefore := false
		for _, o := range seths {
			if o.ret < e.start {
				setBefore = true
			}
		}
		if len(cs) == 0 {
			if setBefore {
				t.Fatalf("C11/bulkinserter (4): a result handler had been set before Exec #%d (mode %s) started, but no handler received its result; case: %s", e.seq, e.mode, desc)
			}
			continue
		}
		hc := cs[0]
		h := sethOf[hc.hid]
		if h.inv > hc.at {
			t.Fatalf("C11/bulkinserter (4): handler h%d was called at %d, before SetResultHandler(h%d) was called (%d); case: %s", hc.hid, hc.at, hc.hid, h.inv, desc)
		}
		for _, o := range seths {
			if o.hid != h.hid && h.ret < o.inv && o.ret < e.start {
				t.Fatalf("C11/bulkinserter (4): the result of Exec #%d (started at %d) went to handler h%d although SetResultHandler(h%d) had been called (%d) and had returned (%d) after h%d was set (%d) and before the batch executed; case: %s",
					e.seq, e.start, h.hid, o.hid, o.inv, o.ret, h.hid, h.ret, desc)
			}
		}
	}

	// ---- coverage
	st.ClassN("rows-accepted", accepted)
	st.ClassN("statements-executed", len(execs))
	st.ClassN("threshold-batches", thresholdBatches)
	st.ClassN("exec-failed", failed)
	st.ClassN("exec-panicked", panicked)
	st.ClassN("handler-calls", len(calls))
	st.ClassN("update-or-delete", len(uods))
	st.ClassN("update-stmt", len(upds))
	if c.await {
		st.Class("case-waits-for-periodic-flush")
	}
	updBetween := false
	for _, o := range upds {
		before, after := false, false
		for _, id := range order {
			r := rows[id]
			if r.err == nil && r.ret < o.inv {
				before = true
			}
			if r.err == nil && r.inv > o.ret {
				after = true
			}
		}
		if before && after {
			updBetween = true
		}
	}
	if updBetween {
		st.Class("case-with-UpdateStmt-between-inserts")
	}
	if len(c.plans) >= 2 && (thresholdBatches > 0 || updBetween || failed+panicked > 0) {
		st.NonTrivial(desc)
	}
}

func TestVerifC11BulkInserter(t *testing.T) {
	logx.Disable()
	st := verifkit.New("bulkinserter")
	defer st.Flush()
	rapid.Check(t, func(t *rapid.T) { c11RunBulkCase(t, st) })
}

// The tuple parser is the oracle's eye; a few fixed points keep it honest.
func TestVerifC11BulkTupleParser(t *testing.T) {
	tuples, rest, err := c11ParseTuples(` (1, 'a\'b\\', -7), ( 2 ,'x,(y)?', 0 ) on duplicate key update p=values(p)`)
	if err != nil || len(tuples) != 2 || rest != "on duplicate key update p=values(p)" {
		t.Fatalf("parser: %v %q %v", tuples, rest, err)
	}
	if !c11Same(tuples[0], []any{int64(1), `a'b\`, int64(-7)}) || !c11Same(tuples[1], []any{int64(2), "x,(y)?", int64(0)}) {
		t.Fatalf("parser: %#v", tuples)
	}
	if _, _, err := c11ParseTuples(`(1, 'a'b')`); err == nil {
		t.Fatalf("parser accepted an unescaped quote")
	}
}

// ---------------------------------------------------------------- regressions (FINDINGS.md, C11-F1 / C11-F2)

func c11RegressStmt(idx int, suffix string) c11Stmt {
	s := c11Stmt{idx: idx, suffix: suffix}
	s.prefix = fmt.Sprintf("insert into tb%d(id, p) values", idx)
	s.text = s.prefix + " (?, ?)"
	if suffix != "" {
		s.text += " " + suffix
	}
	return s
}

// C11-F1, forced with a gate: one goroutine inserts exactly maxBulkRows rows, so the last Insert hands
// the batch to the background flusher and returns; the database holds that Exec.  UpdateOrDelete
// ("flushes pending records first") called now must not run fn while the rows inserted before it are
// still being written.  Before the repair it did, within microseconds; the test gives it 300 ms to do
// so (a slower machine can only make the test miss, never fail), then opens the gate.
func TestVerifC11RegressBulkUpdateOrDelete(t *testing.T) {
	logx.Disable()
	st := verifkit.New("bulkinserter")
	defer st.Flush()
	st.Eval()
	stmt := c11RegressStmt(0, "")
	conn := &c11Conn{seen: map[int64]int{}, modes: []string{"hold"}, stmts: []c11Stmt{stmt}, gate: make(chan struct{}), holdMax: 90 * time.Second}
	bi, err := NewBulkInserter(conn, stmt.text)
	if err != nil {
		t.Fatal(err)
	}
	for i := 1; i <= maxBulkRows; i++ {
		if err := bi.Insert(i, "x"); err != nil {
			t.Fatal(err)
		}
	}
	deadline := time.Now().Add(30 * time.Second)
	for !conn.seenAll([]int64{1, maxBulkRows}) {
		if time.Now().After(deadline) {
			t.Fatalf("C11 VIOLATED (executed when the size threshold is reached): %d rows were inserted and not handed to Exec within 30 s", maxBulkRows)
		}
		time.Sleep(time.Millisecond)
	}
	fnStarted := make(chan struct{})
	returned := make(chan struct{})
	go func() {
		bi.UpdateOrDelete(func() { close(fnStarted) })
		close(returned)
	}()
	select {
	case <-fnStarted:
		conn.release()
		t.Fatalf("C11-F1 (UpdateOrDelete \"flushes pending records first\"): rows #1..#%d were inserted before UpdateOrDelete was called and their Exec has not returned yet "+
			"(the database holds it), but fn already ran", maxBulkRows)
	case <-time.After(300 * time.Millisecond):
	}
	conn.release()
	select {
	case <-returned:
	case <-time.After(30 * time.Second):
		t.Fatalf("UpdateOrDelete did not return within 30 s after the database finished the pending Exec")
	}
	select {
	case <-fnStarted:
	default:
		t.Fatalf("UpdateOrDelete returned without running fn")
	}
}

// C11-F2 cannot be forced (the window lies between the background flusher's confirmation and the
// reads of the statement inside Execute): a stress loop with a stated budget - 150 rounds (quick) /
// 1500 (thorough) of "insert exactly maxBulkRows rows under statement A, then UpdateStmt(B) at once,
// then a few rows".  Every row of the first kind must be written with A's prefix and suffix, every row
// of the second kind with B's.  On the unrepaired tree about every 3rd-10th round failed (>= 2 CPUs).
func TestVerifC11RegressBulkUpdateStmt(t *testing.T) {
	logx.Disable()
	st := verifkit.New("bulkinserter")
	defer st.Flush()
	rounds := 150
	if verifkit.Thorough() {
		rounds = 1500
	}
	a := c11RegressStmt(0, "on duplicate key update p=values(p)")
	b := c11RegressStmt(1, "")
	payload := strings.Repeat("p'\\,(?)", 12)
	for round := 0; round < rounds; round++ {
		st.Eval()
		conn := &c11Conn{seen: map[int64]int{}, stmts: []c11Stmt{a, b}, gate: make(chan struct{}), holdMax: time.Millisecond}
		bi, err := NewBulkInserter(conn, a.text)
		if err != nil {
			t.Fatal(err)
		}
		for i := 1; i <= maxBulkRows; i++ {
			if err := bi.Insert(i, payload); err != nil {
				t.Fatal(err)
			}
		}
		if err := bi.UpdateStmt(b.text); err != nil {
			t.Fatal(err)
		}
		for i := maxBulkRows + 1; i <= maxBulkRows+3; i++ {
			if err := bi.Insert(i, payload); err != nil {
				t.Fatal(err)
			}
		}
		wdone := make(chan struct{})
		go func() { bi.Flush(); bi.executor.Wait(); close(wdone) }()
		select {
		case <-wdone:
		case <-time.After(60 * time.Second):
			t.Fatalf("round %d: final Flush + executor.Wait did not return within 60 s", round)
		}
		conn.mu.Lock()
		execs := append([]*c11Exec(nil), conn.execs...)
		conn.mu.Unlock()
		written := 0
		for _, e := range execs {
			if e.stmtIdx < 0 || e.parseErr != "" {
				t.Fatalf("round %d: Exec #%d cannot be read back (%s): %.200q", round, e.seq, e.parseErr, e.stmt)
			}
			for _, tp := range e.tuples {
				id, _ := tp[0].(int64)
				written++
				want := a
				if id > maxBulkRows {
					want = b
				}
				if e.stmtIdx != want.idx || e.rest != want.suffix {
					t.Fatalf("C11-F2, round %d: row #%d was inserted %s UpdateStmt(%q) and must be written as %q ... %q, but Exec #%d (%d rows) reads %.60q ... %q",
						round, id, map[bool]string{true: "after", false: "before"}[id > maxBulkRows], b.text, want.prefix, want.suffix, e.seq, len(e.tuples), e.stmt, e.rest)
				}
				if len(tp) != 2 || tp[1] != payload {
					t.Fatalf("round %d: row #%d reads %#v", round, id, tp)
				}
			}
		}
		if written != maxBulkRows+3 || len(conn.seen) != maxBulkRows+3 {
			t.Fatalf("C11 VIOLATED (exactly once): round %d: %d rows inserted, %d tuples of %d distinct rows written", round, maxBulkRows+3, written, len(conn.seen))
		}
	}
}
