//go:build verif

package executors_test

// Unit "scale" of C11: the clauses of the executors unit (every accepted task is passed to the
// callback exactly once; Wait returns only after the callbacks of everything added before it have
// returned; a panicking callback loses only its own batch; a batch is executed when the size
// threshold is reached / on the periodic flush) on executors whose thresholds, task counts and
// byte budgets are two to four orders of magnitude above what the other units generate.
//
// All sizes are drawn log-uniformly from wide ranges, none is tuned to a constant of the code:
//   medium cases: 100 - 10^4 tasks, thresholds 8 - 1000 tasks, chunk budgets 64 B - 1 MiB
//   large cases : 10^4 - 10^5 tasks, thresholds 1000 - 20 000 tasks, chunk budgets 1 - 8 MiB
// chunk task sizes 1 B - 64 KiB, 1-6 producers, flush interval 1-3 ms, 1 h, or log-uniform in 1 ms - 1 h.
// One case in VERIF_SCALE_EVERY is large (set in check.json: rare in quick, frequent in thorough).
//
// A case has up to three phases on ONE executor:
//   probe      (single goroutine, optional)  interval <= 20 ms: a burst below the threshold, nothing
//              else - the flush timer alone has to deliver it; otherwise: tasks up to one below the
//              threshold (interval >= 1 min: none of them may be executed), then the task that reaches it;
//   concurrent 1-6 producers, each a plan of bursts separated by flush / wait / pause / yield; some
//              callbacks are HELD at a gate (a slow callback) until the producers have added a drawn
//              number of further tasks - so the container fills again and is flushed again, Flush and
//              Wait are called, and Adds follow, while a callback is still running;
//   aftermath  (single goroutine) a small burst, Flush, burst, Wait on the executor that has just
//              been through the volume.
// Ids are dense integers; per-id counters and batch indices live in slices, not maps.

import (
	"fmt"
	"math"
	"math/bits"
	"runtime"
	"strings"
	"sync"
	"sync/atomic"
	"testing"
	"time"

	"github.com/zeromicro/go-zero/core/executors"
	"github.com/zeromicro/go-zero/core/logx"
	"github.com/zeromicro/go-zero/internal/verifkit"
	"pgregory.net/rapid"
)

// logU draws an integer from [lo,hi] (1 <= lo <= hi) log-uniformly: first one of 64 geometric
// classes of the range, then a value of that class.  Shrinks towards lo.
func logU(t *rapid.T, lo, hi int, label string) int {
	if lo >= hi {
		return lo
	}
	const steps = 64
	// six fair bits: rapid's integer generators favour small values, which would pile the cases
	// up at the lower end of every range
	e := 0
	for i := 0; i < 6; i++ {
		e <<= 1
		if rapid.Bool().Draw(t, label+"ClassBit") {
			e |= 1
		}
	}
	r := float64(hi+1) / float64(lo)
	a := int(float64(lo) * math.Pow(r, float64(e)/steps))
	b := int(float64(lo)*math.Pow(r, float64(e+1)/steps)) - 1
	if e == steps-1 || b > hi {
		b = hi
	}
	if a < lo {
		a = lo
	}
	if a > hi {
		a = hi
	}
	if b < a {
		b = a
	}
	return rapid.IntRange(a, b).Draw(t, label)
}

type scaleStep struct {
	kind  string // burst, flush, wait, pause, gosched
	n     int    // burst: tasks; pause: x100us; gosched: times
	sizes []int  // burst on a chunk executor: the task sizes cycle through these
}

func renderSteps(b *strings.Builder, steps []scaleStep) {
	for _, s := range steps {
		switch s.kind {
		case "burst":
			if len(s.sizes) > 0 {
				fmt.Fprintf(b, " burst(%d,sz=%v)", s.n, s.sizes)
			} else {
				fmt.Fprintf(b, " burst(%d)", s.n)
			}
		case "pause", "gosched":
			fmt.Fprintf(b, " %s(%d)", s.kind, s.n)
		default:
			b.WriteString(" " + s.kind)
		}
	}
}

// scaleHeartbeat ticks about once per millisecond while the process gets CPU; a verdict that
// depends on a wall-clock budget is only given when the heartbeat shows the harness was not stalled.
var (
	scaleHeartbeat     int64
	scaleHeartbeatOnce sync.Once
)

func startScaleHeartbeat() {
	scaleHeartbeatOnce.Do(func() {
		go func() {
			for {
				time.Sleep(time.Millisecond)
				atomic.AddInt64(&scaleHeartbeat, 1)
			}
		}()
	})
}

// holds: callbacks that are kept running until the producers have moved on
type scaleHold struct {
	releaseAt int64 // value of the logical clock at which the producers release it
	ch        chan struct{}
}

type scaleHolds struct {
	mu       sync.Mutex
	active   []*scaleHold
	n        int32 // len(active), read without the lock
	draining int32
	fallback time.Duration
	plan     map[int]int // ordinal of the callback invocation (concurrent phase) -> adds to wait for
	// observations
	held, releasedByAdds, timedOut       int
	startedWhileHeld                     int64 // callbacks that started while another one was held
	flushWhileHeld, waitWhileHeld        int64
	addsWhileHeld                        int64
}

func (hc *scaleHolds) enter(ord int) {
	if atomic.LoadInt32(&hc.n) > 0 {
		atomic.AddInt64(&hc.startedWhileHeld, 1)
	}
	delta, ok := hc.plan[ord]
	if !ok || atomic.LoadInt32(&hc.draining) != 0 {
		return
	}
	h := &scaleHold{releaseAt: atomic.LoadInt64(&lclock) + int64(delta), ch: make(chan struct{})}
	hc.mu.Lock()
	if hc.draining != 0 {
		hc.mu.Unlock()
		return
	}
	hc.active = append(hc.active, h)
	hc.held++
	atomic.StoreInt32(&hc.n, int32(len(hc.active)))
	hc.mu.Unlock()
	timeout := false
	select {
	case <-h.ch:
	case <-time.After(hc.fallback): // all producers may be blocked behind this callback: schedule shaping only
		timeout = true
	}
	hc.mu.Lock()
	for i, x := range hc.active {
		if x == h {
			hc.active = append(hc.active[:i], hc.active[i+1:]...)
			break
		}
	}
	atomic.StoreInt32(&hc.n, int32(len(hc.active)))
	if timeout {
		hc.timedOut++
	}
	hc.mu.Unlock()
}

// poll is called by producers after an Add while some callback is held
func (hc *scaleHolds) poll() {
	atomic.AddInt64(&hc.addsWhileHeld, 1)
	now := atomic.LoadInt64(&lclock)
	hc.mu.Lock()
	for _, h := range hc.active {
		if h.releaseAt != 0 && now >= h.releaseAt {
			h.releaseAt = 0
			hc.releasedByAdds++
			close(h.ch)
		}
	}
	hc.mu.Unlock()
}

func (hc *scaleHolds) drain() {
	hc.mu.Lock()
	atomic.StoreInt32(&hc.draining, 1)
	for _, h := range hc.active {
		if h.releaseAt != 0 {
			h.releaseAt = 0
			close(h.ch)
		}
	}
	hc.mu.Unlock()
}

type scaleWait struct {
	who      string
	inv, ret int64
}

func runScaleCase(t *rapid.T, st *verifkit.Stats) {
	st.Eval()
	every := verifkit.EnvInt("scale_every", 25)
	if every < 1 {
		every = 1
	}
	// the die shrinks towards 1 = medium, so that shrinking never inflates a case
	large := rapid.IntRange(1, every).Draw(t, "largeDie") == every
	// the raw PeriodicalExecutor runs on the test's own container; the Bulk and Chunk containers get more of the cases
	kind := rapid.SampledFrom([]execKind{kBulk, kChunk, kPeriodical, kBulk, kChunk}).Draw(t, "executor")
	var total, thr int
	if large {
		total = logU(t, 10_000, 100_000, "tasks")
		if kind == kChunk {
			thr = logU(t, 1<<20, 8<<20, "chunkBytes")
		} else {
			thr = logU(t, 1000, 20_000, "threshold")
		}
	} else {
		total = logU(t, 100, 10_000, "tasks")
		if kind == kChunk {
			thr = logU(t, 64, 1<<20, "chunkBytes")
		} else {
			thr = logU(t, 8, 1000, "threshold")
		}
	}
	var interval time.Duration
	switch rapid.IntRange(0, 4).Draw(t, "intervalKind") {
	case 0, 1:
		interval = time.Hour
	case 2:
		interval = time.Duration(logU(t, 1, 3_600_000, "intervalMs")) * time.Millisecond
	default:
		interval = time.Duration(rapid.IntRange(1, 3).Draw(t, "intervalMsSmall")) * time.Millisecond
	}
	nprod := rapid.IntRange(1, 6).Draw(t, "producers")
	cbJitter := rapid.IntRange(0, 3).Draw(t, "callbackJitter")
	drawSizes := func(lo int) []int {
		if kind != kChunk {
			return nil
		}
		n := rapid.IntRange(1, 4).Draw(t, "sizePattern")
		s := make([]int, n)
		for i := range s {
			s[i] = logU(t, lo, 64<<10, "size")
		}
		return s
	}

	// ---- probe plan
	doProbe := rapid.IntRange(0, 3).Draw(t, "probe") > 0
	timerProbe := interval <= 20*time.Millisecond
	var probeSizes []int
	probeN := 0 // tasks of the probe (timer probe: the burst; threshold probe: computed below)
	if doProbe {
		lo := 1
		if kind == kChunk && thr/40_000 > lo {
			lo = thr / 40_000 // at most ~40 000 tasks to reach the budget
		}
		probeSizes = drawSizes(lo)
		if kind == kChunk {
			// tasks whose sizes add up to less than the budget, then (threshold probe) one more
			sum, fits := 0, 0
			for sum+probeSizes[fits%len(probeSizes)] < thr {
				sum += probeSizes[fits%len(probeSizes)]
				fits++
			}
			if timerProbe {
				if fits > 0 {
					probeN = logU(t, 1, fits, "probeBurst")
				}
			} else {
				probeN = fits + 1
			}
		} else if timerProbe {
			if thr > 1 {
				probeN = logU(t, 1, thr-1, "probeBurst")
			}
		} else {
			probeN = thr
		}
	}

	// ---- concurrent plans: producer p adds per[p] tasks in bursts separated by other steps
	plans := make([][]scaleStep, nprod)
	per := make([]int, nprod)
	for p := range per {
		per[p] = total / nprod
	}
	per[0] += total - (total/nprod)*nprod
	for p := range plans {
		segs := rapid.IntRange(1, 8).Draw(t, "segments")
		rest := per[p]
		for s := 0; s < segs && rest > 0; s++ {
			n := rest
			if s < segs-1 {
				n = logU(t, 1, rest, "burst")
			}
			rest -= n
			plans[p] = append(plans[p], scaleStep{kind: "burst", n: n, sizes: drawSizes(1)})
			if rest == 0 && s == segs-1 {
				break
			}
			k := rapid.SampledFrom([]string{"none", "flush", "wait", "pause", "gosched", "none", "none"}).Draw(t, "between")
			switch k {
			case "pause":
				plans[p] = append(plans[p], scaleStep{kind: k, n: rapid.SampledFrom([]int{1, 5, 20, 150}).Draw(t, "pause100us")})
			case "gosched":
				plans[p] = append(plans[p], scaleStep{kind: k, n: rapid.IntRange(1, 20).Draw(t, "n")})
			case "none":
			default:
				plans[p] = append(plans[p], scaleStep{kind: k})
			}
		}
		if rest > 0 {
			plans[p] = append(plans[p], scaleStep{kind: "burst", n: rest, sizes: drawSizes(1)})
		}
	}
	// held callbacks
	hc := &scaleHolds{plan: map[int]int{}, fallback: time.Duration(logU(t, 2, 100, "holdFallbackMs")) * time.Millisecond}
	minHolds, maxHoldAt := 0, 64
	if large {
		minHolds, maxHoldAt = 1, 16 // few, big batches: hold early callbacks
	}
	for i, n := 0, rapid.IntRange(minHolds, minHolds+4).Draw(t, "holds"); i < n; i++ {
		hc.plan[logU(t, 1, maxHoldAt, "holdAt")] = logU(t, 1, total, "holdAdds")
	}
	// planned panics
	var poisonAt []int
	if rapid.IntRange(0, 3).Draw(t, "poisonDie") == 0 {
		for i, n := 0, rapid.IntRange(1, 2).Draw(t, "poisoned"); i < n; i++ {
			poisonAt = append(poisonAt, rapid.IntRange(0, total-1).Draw(t, "poisonAt"))
		}
	}
	// aftermath
	after := []scaleStep{
		{kind: "burst", n: logU(t, 1, 2*maxInt(thrTasks(kind, thr), 4), "afterBurst1"), sizes: drawSizes(1)},
		{kind: "flush"},
		{kind: "burst", n: logU(t, 1, 2*maxInt(thrTasks(kind, thr), 4), "afterBurst2"), sizes: drawSizes(1)},
	}
	afterN := after[0].n + after[2].n

	render := func() string {
		var b strings.Builder
		fmt.Fprintf(&b, "large=%v ex=%d thr=%d iv=%v tasks=%d producers=%d jitter=%d", large, kind, thr, interval, total, nprod, cbJitter)
		if doProbe {
			fmt.Fprintf(&b, " probe{timer=%v n=%d sz=%v}", timerProbe, probeN, probeSizes)
		}
		fmt.Fprintf(&b, " holds=%v/%v poison=%v | ", hc.plan, hc.fallback, poisonAt)
		for p, pl := range plans {
			fmt.Fprintf(&b, "p%d:", p)
			renderSteps(&b, pl)
			b.WriteString("; ")
		}
		b.WriteString("after:")
		renderSteps(&b, after)
		return b.String()
	}

	// ---- recording
	nIDs := probeN + total + afterN
	var (
		mu        sync.Mutex
		cnt       = make([]uint8, nIDs)  // deliveries per id (saturating)
		batchOf   = make([]int32, nIDs)  // index of the (last) batch that carried the id, +1
		batchEnd  []int64                // per batch: logical time at which its callback returned (or panicked)
		batchLen  []int
		foreign   int
		lostTasks int
		poison    = make([]bool, nIDs)
		addRet    = make([]int64, nIDs)
		execTotal int64 // deliveries, read without the lock
		phase     int32 // 1 while the concurrent phase runs
		batchSeq  int64
	)
	for _, at := range poisonAt {
		poison[probeN+at] = true
	}
	callback := func(tasks []any) {
		ord := 0
		if atomic.LoadInt32(&phase) == 1 {
			ord = int(atomic.AddInt64(&batchSeq, 1))
		}
		hc.enter(ord)
		switch cbJitter {
		case 1:
			runtime.Gosched()
		case 2:
			time.Sleep(50 * time.Microsecond)
		case 3:
			time.Sleep(time.Duration(len(tasks)) * 100 * time.Nanosecond)
		}
		bad := false
		mu.Lock()
		bi := int32(len(batchEnd) + 1)
		batchEnd = append(batchEnd, 0)
		batchLen = append(batchLen, len(tasks))
		for _, x := range tasks {
			id, ok := x.(int)
			if !ok || id < 0 || id >= nIDs {
				foreign++
				continue
			}
			if cnt[id] < 255 {
				cnt[id]++
			}
			batchOf[id] = bi
			if poison[id] {
				bad = true
			}
		}
		if bad {
			lostTasks += len(tasks)
		}
		mu.Unlock()
		atomic.AddInt64(&execTotal, int64(len(tasks)))
		// the stamp is the last thing the callback does
		s := tick()
		mu.Lock()
		batchEnd[bi-1] = s
		mu.Unlock()
		if bad {
			panic("planned callback panic")
		}
	}
	var ex exec
	switch kind {
	case kBulk:
		b := executors.NewBulkExecutor(callback, executors.WithBulkTasks(thr), executors.WithBulkInterval(interval))
		ex = exec{func(id, _ int) { b.Add(id) }, b.Flush, b.Wait}
	case kChunk:
		c := executors.NewChunkExecutor(callback, executors.WithChunkBytes(thr), executors.WithFlushInterval(interval))
		ex = exec{func(id, size int) { c.Add(id, size) }, c.Flush, c.Wait}
	default:
		cont := &sliceContainer{max: thr, fn: callback}
		p := executors.NewPeriodicalExecutor(interval, cont)
		ex = exec{func(id, _ int) { p.Add(id) }, func() { p.Flush() }, p.Wait}
	}
	sizeOf := func(sizes []int, i int) int {
		if len(sizes) == 0 {
			return 1
		}
		return sizes[i%len(sizes)]
	}
	// await: `want` deliveries within 20 s.  returns false (inconclusive) when the harness itself was stalled
	await := func(want int64, clause, what string) bool {
		hb0 := atomic.LoadInt64(&scaleHeartbeat)
		deadline := time.Now().Add(20 * time.Second)
		for atomic.LoadInt64(&execTotal) < want {
			if time.Now().After(deadline) {
				if hb := atomic.LoadInt64(&scaleHeartbeat) - hb0; hb < 2000 {
					st.Note("scale: inconclusive %s (20 s budget overrun with only %d heartbeats)", what, hb)
					st.Class("inconclusive:stalled-harness")
					return false
				}
				t.Fatalf("C11 VIOLATED (%s): %s: %d of %d tasks not executed within 20 s although no Flush/Wait is needed for them; case: %s",
					clause, what, want-atomic.LoadInt64(&execTotal), want, render())
			}
			time.Sleep(200 * time.Microsecond)
		}
		return true
	}

	// ---- phase 1: probe
	next := 0
	if doProbe && probeN > 0 {
		t0 := time.Now()
		if timerProbe {
			for i := 0; i < probeN; i++ {
				ex.add(next, sizeOf(probeSizes, i))
				addRet[next] = tick()
				next++
			}
			if !await(int64(probeN), "every accepted task is passed to the execute callback on the periodic flush",
				fmt.Sprintf("a burst of %d tasks below the threshold, interval %v", probeN, interval)) {
				return
			}
			st.Class("probe:timer")
		} else {
			for i := 0; i < probeN-1; i++ {
				ex.add(next, sizeOf(probeSizes, i))
				addRet[next] = tick()
				next++
			}
			if interval >= time.Minute && probeN > 1 {
				time.Sleep(5 * time.Millisecond) // settle; on correct code nothing can happen, however long
				if got := atomic.LoadInt64(&execTotal); got > 0 && time.Since(t0) < 30*time.Second {
					t.Fatalf("C11 VIOLATED (tasks are executed when the size threshold is reached, on the periodic flush, on Flush or by Wait - none of which has happened): "+
						"%d of the %d tasks added so far were executed (threshold %d not reached, interval %v); case: %s",
						got, probeN-1, thr, interval, render())
				}
				st.Class("probe:not-before-threshold")
			}
			ex.add(next, sizeOf(probeSizes, probeN-1))
			addRet[next] = tick()
			next++
			if interval >= 5*time.Second && time.Since(t0) >= interval/2 {
				// the harness was so slow that a tick of the flush timer may have taken part of the
				// tasks away before the threshold was reached: nothing can be concluded
				st.Class("probe:skipped-slow-harness")
			} else if !await(int64(probeN), "every accepted task is passed to the execute callback when the size threshold is reached",
				fmt.Sprintf("%d tasks, the last of which reaches the threshold %d", probeN, thr)) {
				return
			} else {
				st.Class("probe:threshold-reached")
			}
		}
	}
	if next != probeN {
		t.Fatalf("harness: probe added %d tasks, planned %d", next, probeN)
	}

	// ---- phase 2: concurrent producers
	base := make([]int, nprod)
	for p, o := 0, probeN; p < nprod; p++ {
		base[p] = o
		o += per[p]
	}
	waits := make([][]scaleWait, nprod)
	var wg sync.WaitGroup
	start := make(chan struct{})
	atomic.StoreInt32(&phase, 1)
	for p := range plans {
		wg.Add(1)
		go func(p int) {
			defer wg.Done()
			<-start
			id := base[p]
			for _, s := range plans[p] {
				switch s.kind {
				case "burst":
					for i := 0; i < s.n; i++ {
						ex.add(id, sizeOf(s.sizes, i))
						addRet[id] = tick()
						id++
						if atomic.LoadInt32(&hc.n) > 0 {
							hc.poll()
						}
					}
				case "flush":
					if atomic.LoadInt32(&hc.n) > 0 {
						atomic.AddInt64(&hc.flushWhileHeld, 1)
					}
					ex.flush()
				case "wait":
					if atomic.LoadInt32(&hc.n) > 0 {
						atomic.AddInt64(&hc.waitWhileHeld, 1)
					}
					inv := tick()
					ex.wait()
					ret := tick()
					waits[p] = append(waits[p], scaleWait{fmt.Sprintf("producer %d", p), inv, ret})
				case "pause":
					time.Sleep(time.Duration(s.n) * 100 * time.Microsecond)
				case "gosched":
					for i := 0; i < s.n; i++ {
						runtime.Gosched()
					}
				}
			}
		}(p)
	}
	close(start)
	// watchdog: a verdict only when nothing moved for 30 s while the harness was demonstrably running
	watch := func(done chan struct{}, what string) bool {
		tk := time.NewTicker(time.Second)
		defer tk.Stop()
		last, still, hb0 := atomic.LoadInt64(&lclock), 0, atomic.LoadInt64(&scaleHeartbeat)
		began := time.Now()
		for {
			select {
			case <-done:
				return true
			case <-tk.C:
			}
			if now := atomic.LoadInt64(&lclock); now != last {
				last, still, hb0 = now, 0, atomic.LoadInt64(&scaleHeartbeat)
			} else {
				still++
			}
			if still >= 30 {
				if hb := atomic.LoadInt64(&scaleHeartbeat) - hb0; hb >= 3000 {
					hc.drain()
					t.Fatalf("%s made no progress for 30 s (an Add/Flush/Wait never returns); case: %s", what, render())
				}
			}
			if time.Since(began) > 240*time.Second {
				hc.drain()
				st.Note("scale: inconclusive, %s not finished after 240 s", what)
				st.Class("inconclusive:budget")
				return false
			}
		}
	}
	pdone := make(chan struct{})
	go func() { wg.Wait(); close(pdone) }()
	if !watch(pdone, "the producers") {
		return
	}
	hc.drain()
	atomic.StoreInt32(&phase, 0)
	var allWaits []scaleWait
	for _, w := range waits {
		allWaits = append(allWaits, w...)
	}
	doWait := func(who string) bool {
		inv := tick()
		wdone := make(chan struct{})
		var ret int64
		go func() { ex.wait(); ret = tick(); close(wdone) }()
		if !watch(wdone, who) {
			return false
		}
		allWaits = append(allWaits, scaleWait{who, inv, ret})
		return true
	}
	if !doWait("the Wait after the producers") {
		return
	}

	// ---- phase 3: aftermath on the same executor
	next = probeN + total
	for _, s := range after {
		switch s.kind {
		case "burst":
			for i := 0; i < s.n; i++ {
				ex.add(next, sizeOf(s.sizes, i))
				addRet[next] = tick()
				next++
			}
		case "flush":
			ex.flush()
		}
	}
	if !doWait("the final Wait") {
		return
	}

	// ---- oracle
	mu.Lock()
	defer mu.Unlock()
	missing, dup, firstBad := 0, 0, -1
	for id := 0; id < nIDs; id++ {
		if cnt[id] != 1 {
			if cnt[id] == 0 {
				missing++
			} else {
				dup++
			}
			if firstBad < 0 {
				firstBad = id
			}
		}
	}
	maxBatch := 0
	for _, l := range batchLen {
		if l > maxBatch {
			maxBatch = l
		}
	}
	if firstBad >= 0 || foreign > 0 {
		where := "concurrent phase"
		if firstBad < probeN {
			where = "probe"
		} else if firstBad >= probeN+total {
			where = "aftermath"
		}
		t.Fatalf("C11 VIOLATED (every accepted task is passed to the execute callback exactly once): of %d accepted tasks %d were never passed to the callback and %d more than once "+
			"(first: task %d of the %s, %d times); %d values the callback received were never added; %d batches, largest %d tasks; case: %s",
			nIDs, missing, dup, firstBad, where, cntAt(cnt, firstBad), foreign, len(batchLen), maxBatch, render())
	}
	for _, w := range allWaits {
		for id := 0; id < nIDs; id++ {
			if addRet[id] != 0 && addRet[id] < w.inv {
				e := batchEnd[batchOf[id]-1]
				if e == 0 || e > w.ret {
					t.Fatalf("WAIT RETURNED EARLY: %s spanned [%d,%d]; task %d was added before it (Add returned at %d) but the callback of its batch (%d tasks) finished at %d; case: %s",
						w.who, w.inv, w.ret, id, addRet[id], batchLen[batchOf[id]-1], e, render())
				}
			}
		}
	}

	// ---- what the case covered
	if large {
		st.Class("large")
	} else {
		st.Class("medium")
	}
	st.Class(fmt.Sprintf("tasks:1e%d", decade(nIDs)))
	if kind == kChunk {
		st.Class(fmt.Sprintf("chunk-budget:2^%d", bits.Len(uint(thr))-1))
	} else {
		st.Class(fmt.Sprintf("threshold:1e%d", decade(thr)))
	}
	st.Class(fmt.Sprintf("largest-batch:1e%d", decade(maxBatch)))
	st.ClassN("tasks", nIDs)
	st.ClassN("batches", len(batchLen))
	st.ClassN("lost-in-panicking-batches", lostTasks)
	st.ClassN("waits-by-producers", len(allWaits)-2)
	st.ClassN("callbacks-held", hc.held)
	st.ClassN("held-callbacks-released-by-later-adds", hc.releasedByAdds)
	st.ClassN("held-callbacks-released-by-timeout", hc.timedOut)
	st.ClassN("callbacks-started-while-another-was-held", int(hc.startedWhileHeld))
	st.ClassN("flush-called-while-callback-held", int(hc.flushWhileHeld))
	st.ClassN("wait-called-while-callback-held", int(hc.waitWhileHeld))
	st.ClassN("adds-while-callback-held", int(hc.addsWhileHeld))
	if large {
		if hc.startedWhileHeld > 0 && hc.addsWhileHeld > 0 {
			st.Class("large:refilled-and-flushed-during-running-callback")
		}
		// non-trivial: >= 100x the largest sizes of the small generators (84 tasks, threshold 8 / 8 bytes)
		st.NonTrivial(render())
	}
}

func cntAt(c []uint8, i int) int {
	if i < 0 || i >= len(c) {
		return -1
	}
	return int(c[i])
}

func decade(n int) int {
	d := 0
	for n >= 10 {
		n /= 10
		d++
	}
	return d
}

func maxInt(a, b int) int {
	if a > b {
		return a
	}
	return b
}

// thrTasks: the threshold in tasks (chunk executors: a budget of 1 KiB per task, just to size the aftermath)
func thrTasks(kind execKind, thr int) int {
	if kind == kChunk {
		return thr >> 10
	}
	return thr
}

func TestVerifC11Scale(t *testing.T) {
	logx.Disable()
	startScaleHeartbeat()
	st := verifkit.New("scale")
	defer st.Flush()
	rapid.Check(t, func(t *rapid.T) { runScaleCase(t, st) })
}
