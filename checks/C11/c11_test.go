//go:build verif

package executors_test

import (
	"fmt"
	"runtime"
	"sort"
	"strings"
	"sync"
	"sync/atomic"
	"testing"
	"time"

	"github.com/zeromicro/go-zero/core/executors"
	"github.com/zeromicro/go-zero/core/lang"
	"github.com/zeromicro/go-zero/core/logx"
	"github.com/zeromicro/go-zero/internal/verifkit"
	"pgregory.net/rapid"
)

var lclock int64

func tick() int64 { return atomic.AddInt64(&lclock, 1) }

type op struct {
	kind    string // add, flush, wait, pause, gosched
	n       int    // pause: x100us ; gosched: times
	poison  bool   // add: the batch containing this task panics in the callback
	size    int    // chunk executor: task size
}

type execKind int

const (
	kBulk execKind = iota
	kChunk
	kPeriodical
)

// adapter over the three executors
type exec struct {
	add   func(id int, size int)
	flush func()
	wait  func()
}

// a TaskContainer for the raw PeriodicalExecutor: flushes when `max` tasks are buffered
type sliceContainer struct {
	tasks []any
	max   int
	fn    func([]any)
}

func (c *sliceContainer) AddTask(task any) bool {
	c.tasks = append(c.tasks, task)
	return len(c.tasks) >= c.max
}
func (c *sliceContainer) Execute(tasks any) { c.fn(tasks.([]any)) }
func (c *sliceContainer) RemoveAll() any {
	t := c.tasks
	c.tasks = nil
	return t
}

type waitRec struct {
	producer int
	inv, ret int64
}

type history struct {
	mu       sync.Mutex
	addInv   map[int]int64
	addRet   map[int]int64
	execEnd  map[int]int64 // id -> stamp at which its batch's callback returned (or panicked)
	execCnt  map[int]int
	lost     map[int]bool // ids in batches whose callback panicked
	batches  int
	waits    []waitRec
	overlapWaitTick bool
}

func runExecutorCase(t *rapid.T, st *verifkit.Stats, d10shape bool) {
	st.Eval()
	kind := execKind(rapid.IntRange(0, 2).Draw(t, "executor"))
	threshold := rapid.IntRange(1, 8).Draw(t, "threshold")
	intervalMs := rapid.IntRange(1, 3).Draw(t, "intervalMs")
	nprod := rapid.IntRange(1, 6).Draw(t, "producers")
	if d10shape {
		threshold = rapid.IntRange(1, 2).Draw(t, "thresholdSmall")
		nprod = rapid.IntRange(2, 5).Draw(t, "producersD10")
	}
	cbJitter := rapid.IntRange(0, 3).Draw(t, "callbackJitter")
	if verifkit.EnvInt("yield", 0) == 1 {
		lang.VerifYieldConfig(rapid.Uint64Range(1, 1<<62).Draw(t, "yieldSeed"),
			rapid.SampledFrom([]uint32{0, 100, 400}).Draw(t, "yieldGosched"), rapid.SampledFrom([]uint32{0, 30, 120}).Draw(t, "yieldSleep"), 150)
		defer lang.VerifYieldConfig(0, 0, 0, 0)
	}
	plans := make([][]op, nprod)
	for p := range plans {
		nops := rapid.IntRange(1, 14).Draw(t, "ops")
		for i := 0; i < nops; i++ {
			var o op
			if d10shape && p == 0 {
				// the "checker" producer: add; wait; add; wait ...
				if i%2 == 0 {
					o = op{kind: "add", size: 1}
				} else {
					o = op{kind: "wait"}
				}
			} else {
				k := rapid.SampledFrom([]string{"add", "add", "add", "add", "flush", "wait", "pause", "gosched"}).Draw(t, "op")
				o = op{kind: k}
				switch k {
				case "add":
					o.poison = rapid.IntRange(0, 11).Draw(t, "poison") == 0
					o.size = rapid.IntRange(0, 4).Draw(t, "size")
				case "pause":
					// long pauses (> 10 intervals) let the background flusher go idle and quit
					o.n = rapid.SampledFrom([]int{1, 5, 20, 150, 400}).Draw(t, "pause100us")
				case "gosched":
					o.n = rapid.IntRange(1, 20).Draw(t, "n")
				}
			}
			plans[p] = append(plans[p], o)
		}
	}
	h := &history{addInv: map[int]int64{}, addRet: map[int]int64{}, execEnd: map[int]int64{}, execCnt: map[int]int{}, lost: map[int]bool{}}
	poisoned := map[int]bool{}
	var poisonMu sync.Mutex
	callback := func(tasks []any) {
		switch cbJitter {
		case 1:
			runtime.Gosched()
		case 2:
			time.Sleep(50 * time.Microsecond)
		case 3:
			time.Sleep(time.Duration(len(tasks)) * 100 * time.Microsecond)
		}
		bad := false
		poisonMu.Lock()
		for _, x := range tasks {
			if poisoned[x.(int)] {
				bad = true
			}
		}
		poisonMu.Unlock()
		end := func() {
			s := tick()
			h.mu.Lock()
			h.batches++
			for _, x := range tasks {
				id := x.(int)
				h.execCnt[id]++
				h.execEnd[id] = s
				if bad {
					h.lost[id] = true
				}
			}
			h.mu.Unlock()
		}
		if bad {
			end()
			panic("planned callback panic")
		}
		end()
	}
	interval := time.Duration(intervalMs) * time.Millisecond
	var ex exec
	switch kind {
	case kBulk:
		b := executors.NewBulkExecutor(callback, executors.WithBulkTasks(threshold), executors.WithBulkInterval(interval))
		ex = exec{func(id, _ int) { b.Add(id) }, b.Flush, b.Wait}
	case kChunk:
		c := executors.NewChunkExecutor(callback, executors.WithChunkBytes(threshold), executors.WithFlushInterval(interval))
		ex = exec{func(id, size int) { c.Add(id, size) }, c.Flush, c.Wait}
	default:
		cont := &sliceContainer{max: threshold, fn: callback}
		p := executors.NewPeriodicalExecutor(interval, cont)
		ex = exec{func(id, _ int) { p.Add(id) }, func() { p.Flush() }, p.Wait}
	}
	var nextID int64
	var wg sync.WaitGroup
	start := make(chan struct{})
	for p := range plans {
		wg.Add(1)
		go func(p int) {
			defer wg.Done()
			<-start
			for _, o := range plans[p] {
				switch o.kind {
				case "add":
					id := int(atomic.AddInt64(&nextID, 1))
					if o.poison {
						poisonMu.Lock()
						poisoned[id] = true
						poisonMu.Unlock()
					}
					inv := tick()
					ex.add(id, o.size)
					ret := tick()
					h.mu.Lock()
					h.addInv[id] = inv
					h.addRet[id] = ret
					h.mu.Unlock()
				case "flush":
					ex.flush()
				case "wait":
					inv := tick()
					ex.wait()
					ret := tick()
					h.mu.Lock()
					h.waits = append(h.waits, waitRec{p, inv, ret})
					h.mu.Unlock()
				case "pause":
					time.Sleep(time.Duration(o.n) * 100 * time.Microsecond)
				case "gosched":
					for i := 0; i < o.n; i++ {
						runtime.Gosched()
					}
				}
			}
		}(p)
	}
	close(start)
	done := make(chan struct{})
	go func() { wg.Wait(); close(done) }()
	select {
	case <-done:
	case <-time.After(30 * time.Second):
		t.Fatalf("producers did not finish within 30 s (an Add/Flush/Wait never returned); plans: %s", renderOps(plans))
	}
	finalInv := tick()
	wdone := make(chan struct{})
	go func() { ex.wait(); close(wdone) }()
	select {
	case <-wdone:
	case <-time.After(30 * time.Second):
		t.Fatalf("final Wait did not return within 30 s; plans: %s", renderOps(plans))
	}
	finalRet := tick()
	h.mu.Lock()
	defer h.mu.Unlock()
	h.waits = append(h.waits, waitRec{-1, finalInv, finalRet})
	// exactly once: every added task executed exactly once (a poisoned batch counts as executed-and-lost)
	var ids []int
	for id := range h.addRet {
		ids = append(ids, id)
	}
	sort.Ints(ids)
	for _, id := range ids {
		if c := h.execCnt[id]; c != 1 {
			t.Fatalf("task %d was passed to the execute callback %d times (want exactly once by the final Wait); executor=%d threshold=%d interval=%v; plans: %s",
				id, c, kind, threshold, interval, renderOps(plans))
		}
	}
	for id, c := range h.execCnt {
		if _, ok := h.addRet[id]; !ok || c != 1 {
			t.Fatalf("callback received task %d (%d times) that was never added; plans: %s", id, c, renderOps(plans))
		}
	}
	// Wait clause: every task whose Add had returned before Wait was called is in a batch whose
	// callback had returned when Wait returned
	for _, w := range h.waits {
		for _, id := range ids {
			if h.addRet[id] < w.inv {
				if e := h.execEnd[id]; e == 0 || e > w.ret {
					t.Fatalf("WAIT RETURNED EARLY: Wait by producer %d spanned [%d,%d]; task %d was added before it (Add returned at %d) but its callback finished at %d; executor=%d threshold=%d interval=%v; plans: %s",
						w.producer, w.inv, w.ret, id, h.addRet[id], e, kind, threshold, interval, renderOps(plans))
				}
			}
		}
	}
	lostN := len(h.lost)
	st.ClassN("tasks", len(ids))
	st.ClassN("batches", h.batches)
	st.ClassN("lost-in-panicking-batches", lostN)
	// non-trivial: several producers and more than one batch, with a Wait by a producer or a long pause (flusher restart)
	longPause, prodWait := false, false
	for _, pl := range plans {
		for _, o := range pl {
			if o.kind == "pause" && o.n >= 150 {
				longPause = true
			}
			if o.kind == "wait" {
				prodWait = true
			}
		}
	}
	if longPause {
		st.Class("flusher-idle-quit-possible")
	}
	if nprod >= 2 && h.batches >= 2 && (prodWait || longPause) {
		st.NonTrivial(fmt.Sprintf("ex=%d thr=%d iv=%v %s", kind, threshold, interval, renderOps(plans)))
	}
}

func renderOps(plans [][]op) string {
	var b strings.Builder
	for p, pl := range plans {
		fmt.Fprintf(&b, "p%d:", p)
		for _, o := range pl {
			switch o.kind {
			case "add":
				if o.poison {
					b.WriteString(" ADD!")
				} else {
					fmt.Fprintf(&b, " add/%d", o.size)
				}
			case "pause", "gosched":
				fmt.Fprintf(&b, " %s(%d)", o.kind, o.n)
			default:
				b.WriteString(" " + o.kind)
			}
		}
		b.WriteString("; ")
	}
	return b.String()
}

func TestVerifC11Executors(t *testing.T) {
	logx.Disable()
	st := verifkit.New("executors")
	defer st.Flush()
	rapid.Check(t, func(t *rapid.T) { runExecutorCase(t, st, false) })
	st.ClassN("yield-points-hit", int(lang.VerifYieldHits()))
}

// The shape that exposed D10 (DESIGN §3): one goroutine does Add; Wait; Add; Wait … against
// competing producers with a threshold of 1-2.
func TestVerifC11WaitAfterAdd(t *testing.T) {
	logx.Disable()
	st := verifkit.New("wait-after-add")
	defer st.Flush()
	rapid.Check(t, func(t *rapid.T) { runExecutorCase(t, st, true) })
}

// "… is passed to the execute callback … on the periodic flush …, including ticks that make the
// background goroutine quit": tasks that never reach the size threshold and are never followed by
// Flush or Wait must still be executed by the flush timer — also after the background flusher
// went idle, quit and was restarted by a later Add (any number of times).  Real 1-3 ms intervals;
// the verdict budget is >= 3000 intervals (10 s), so an overrun is not a scheduling accident.
func TestVerifC11PeriodicFlush(t *testing.T) {
	logx.Disable()
	st := verifkit.New("periodic-flush")
	defer st.Flush()
	rapid.Check(t, func(t *rapid.T) {
		st.Eval()
		kind := execKind(rapid.IntRange(0, 2).Draw(t, "executor"))
		intervalMs := rapid.IntRange(1, 3).Draw(t, "intervalMs")
		interval := time.Duration(intervalMs) * time.Millisecond
		cycles := rapid.IntRange(2, 4).Draw(t, "cycles")
		var mu sync.Mutex
		execCnt := map[int]int{}
		callback := func(tasks []any) {
			mu.Lock()
			for _, x := range tasks {
				execCnt[x.(int)]++
			}
			mu.Unlock()
		}
		const never = 1 << 20 // size threshold that is never reached
		var ex exec
		switch kind {
		case kBulk:
			b := executors.NewBulkExecutor(callback, executors.WithBulkTasks(never), executors.WithBulkInterval(interval))
			ex = exec{func(id, _ int) { b.Add(id) }, b.Flush, b.Wait}
		case kChunk:
			c := executors.NewChunkExecutor(callback, executors.WithChunkBytes(never), executors.WithFlushInterval(interval))
			ex = exec{func(id, size int) { c.Add(id, size) }, c.Flush, c.Wait}
		default:
			cont := &sliceContainer{max: never, fn: callback}
			p := executors.NewPeriodicalExecutor(interval, cont)
			ex = exec{func(id, _ int) { p.Add(id) }, func() { p.Flush() }, p.Wait}
		}
		id := 0
		var desc strings.Builder
		fmt.Fprintf(&desc, "ex=%d iv=%v", kind, interval)
		restarts := 0
		for c := 0; c < cycles; c++ {
			n := rapid.IntRange(1, 3).Draw(t, "adds")
			gapUs := rapid.SampledFrom([]int{0, 0, 200, 1500}).Draw(t, "gapUs")
			var ids []int
			for i := 0; i < n; i++ {
				id++
				ids = append(ids, id)
				ex.add(id, 1)
				if gapUs > 0 {
					time.Sleep(time.Duration(gapUs) * time.Microsecond)
				}
			}
			fmt.Fprintf(&desc, " | add x%d (gap %dus)", n, gapUs)
			// no Flush, no Wait: the flush timer alone must deliver them
			deadline := time.Now().Add(10 * time.Second)
			for {
				mu.Lock()
				done := true
				for _, x := range ids {
					if execCnt[x] == 0 {
						done = false
					}
				}
				mu.Unlock()
				if done {
					break
				}
				if time.Now().After(deadline) {
					t.Fatalf("C11 VIOLATED (every accepted task is executed … on the periodic flush, also after the background flusher quit and restarted): "+
						"tasks %v were added (no Flush/Wait followed, threshold never reached) and not executed within 10 s (interval %v); history: %s",
						ids, interval, desc.String())
				}
				time.Sleep(200 * time.Microsecond)
			}
			// what happens between the bursts: short gap (flusher stays), long idle gap (> 10
			// intervals: flusher quits), or an explicit flush/wait on the empty executor
			between := rapid.SampledFrom([]string{"idle-long", "idle-long", "idle-short", "flush-then-idle", "wait-then-idle"}).Draw(t, "between")
			fmt.Fprintf(&desc, " -> delivered | %s", between)
			switch between {
			case "idle-short":
				time.Sleep(2 * interval)
			case "flush-then-idle":
				ex.flush()
				time.Sleep(25 * interval)
				restarts++
			case "wait-then-idle":
				ex.wait()
				time.Sleep(25 * interval)
				restarts++
			default:
				time.Sleep(time.Duration(rapid.IntRange(15, 40).Draw(t, "idleIntervals")) * interval)
				restarts++
			}
		}
		wdone := make(chan struct{})
		go func() { ex.wait(); close(wdone) }()
		select {
		case <-wdone:
		case <-time.After(30 * time.Second):
			t.Fatalf("final Wait did not return within 30 s; history: %s", desc.String())
		}
		mu.Lock()
		defer mu.Unlock()
		for x := 1; x <= id; x++ {
			if execCnt[x] != 1 {
				t.Fatalf("task %d was passed to the execute callback %d times (want exactly once); history: %s", x, execCnt[x], desc.String())
			}
		}
		st.ClassN("idle-gaps-long-enough-for-flusher-quit", restarts)
		if restarts >= 1 {
			st.NonTrivial(desc.String())
		}
	})
}

// "… when the size threshold is reached, on the periodic flush …" for the threshold and the interval
// THIS executor was configured with (an option left out means the documented default: 1000 tasks /
// 1 MiB, 1 s).  One case constructs two to four Bulk/Chunk executors one after the other, each with
// its own generated subset of options, and probes each of them:
//   - interval 1 h: one task less than the threshold is not executed (nothing in the statement
//     triggers it; observed after a settle — on correct code this can never fail, whatever the
//     timing), the task that reaches the threshold makes the whole batch execute (10 s verdict budget);
//   - interval 2 ms: a single task below the threshold is executed by the timer (10 s budget);
//   - default interval: a single task is not executed within the first 100 ms (asserted only if the
//     harness itself was not stalled) and is executed within 10 s.
// What an executor does must not depend on the options of executors built before or after it.
func TestVerifC11Triggers(t *testing.T) {
	logx.Disable()
	st := verifkit.New("triggers")
	defer st.Flush()
	rapid.Check(t, func(t *rapid.T) {
		st.Eval()
		type cfg struct {
			chunk     bool
			tasksOpt  int // 0: default, else the configured threshold (tasks, or bytes/10 for chunk)
			ivOpt     int // 0: default (1 s), 1: 1 h, 2: 2 ms
			threshold int // effective threshold in units (tasks; chunk: units of `unit` bytes)
			unit      int // chunk: bytes per task
		}
		type inst struct {
			cfg
			ex   exec
			desc string
		}
		var mu sync.Mutex
		execCnt := map[int]int{}
		callback := func(tasks []any) {
			mu.Lock()
			for _, x := range tasks {
				execCnt[x.(int)]++
			}
			mu.Unlock()
		}
		executed := func(ids []int) int {
			mu.Lock()
			defer mu.Unlock()
			n := 0
			for _, x := range ids {
				if execCnt[x] > 0 {
					n++
				}
			}
			return n
		}
		n := rapid.IntRange(2, 4).Draw(t, "executors")
		defaultIvUsed := false
		var insts []*inst
		var all strings.Builder
		for i := 0; i < n; i++ {
			var c cfg
			c.chunk = rapid.Bool().Draw(t, "chunk")
			switch rapid.IntRange(0, 3).Draw(t, "tasksOpt") {
			case 0:
			case 1:
				c.tasksOpt = 5000
			default:
				c.tasksOpt = rapid.IntRange(1, 8).Draw(t, "threshold")
			}
			c.ivOpt = rapid.IntRange(0, 2).Draw(t, "intervalOpt")
			if c.ivOpt == 0 {
				if defaultIvUsed { // at most one probe that has to sit out the 1 s default
					c.ivOpt = 1
				}
				defaultIvUsed = true
			}
			ivs := []time.Duration{0, time.Hour, 2 * time.Millisecond}
			var x *inst
			if c.chunk {
				c.unit = 10
				c.threshold = c.tasksOpt
				var opts []executors.ChunkOption
				if c.tasksOpt > 0 {
					opts = append(opts, executors.WithChunkBytes(c.tasksOpt*c.unit))
				} else {
					c.unit, c.threshold = 1<<18, 4 // default 1 MiB
				}
				if c.ivOpt > 0 {
					opts = append(opts, executors.WithFlushInterval(ivs[c.ivOpt]))
				}
				e := executors.NewChunkExecutor(callback, opts...)
				x = &inst{cfg: c, ex: exec{func(id, size int) { e.Add(id, size) }, e.Flush, e.Wait}}
			} else {
				c.threshold = c.tasksOpt
				var opts []executors.BulkOption
				if c.tasksOpt > 0 {
					opts = append(opts, executors.WithBulkTasks(c.tasksOpt))
				} else {
					c.threshold = 1000
				}
				if c.ivOpt > 0 {
					opts = append(opts, executors.WithBulkInterval(ivs[c.ivOpt]))
				}
				e := executors.NewBulkExecutor(callback, opts...)
				x = &inst{cfg: c, ex: exec{func(id, _ int) { e.Add(id) }, e.Flush, e.Wait}}
			}
			x.cfg = c
			x.desc = fmt.Sprintf("#%d{chunk=%v threshold=%s interval=%s}", i, c.chunk,
				map[bool]string{true: "default", false: fmt.Sprint(c.tasksOpt)}[c.tasksOpt == 0],
				[]string{"default(1s)", "1h", "2ms"}[c.ivOpt])
			insts = append(insts, x)
			all.WriteString(x.desc + " ")
		}
		order := rapid.Permutation(seq(len(insts))).Draw(t, "probeOrder")
		id := 0
		await := func(x *inst, ids []int, what string) {
			deadline := time.Now().Add(10 * time.Second)
			for executed(ids) < len(ids) {
				if time.Now().After(deadline) {
					t.Fatalf("C11 VIOLATED (%s): executor %s: %d of %d tasks not executed within 10 s, no Flush/Wait was called; executors built in this order: %s",
						what, x.desc, len(ids)-executed(ids), len(ids), all.String())
				}
				time.Sleep(200 * time.Microsecond)
			}
		}
		for _, oi := range order {
			x := insts[oi]
			switch x.ivOpt {
			case 1: // 1 h: only the size threshold can trigger
				var ids []int
				for k := 0; k < x.threshold-1; k++ {
					id++
					ids = append(ids, id)
					x.ex.add(id, x.unit)
				}
				if len(ids) > 0 {
					time.Sleep(15 * time.Millisecond)
					if got := executed(ids); got > 0 {
						t.Fatalf("C11 VIOLATED (tasks are executed when the size threshold is reached, on the periodic flush, on Flush or by Wait — none of which has happened): "+
							"executor %s executed %d of the %d tasks added so far (threshold %d, interval 1 h); executors built in this order: %s",
							x.desc, got, len(ids), x.threshold, all.String())
					}
				}
				id++
				ids = append(ids, id)
				x.ex.add(id, x.unit)
				await(x, ids, "every accepted task is passed to the execute callback when the size threshold is reached")
				st.Class("probe:threshold")
			case 2: // 2 ms
				id++
				x.ex.add(id, 1)
				await(x, []int{id}, "every accepted task is passed to the execute callback on the periodic flush")
				st.Class("probe:fast-interval")
			default: // default interval
				id++
				t0 := time.Now()
				x.ex.add(id, 1)
				if x.threshold > 1 {
					time.Sleep(100 * time.Millisecond)
					got := executed([]int{id})
					if el := time.Since(t0); got > 0 && el < 500*time.Millisecond {
						t.Fatalf("C11 VIOLATED (a task below the threshold is executed on the periodic flush — default interval 1 s — not before): "+
							"executor %s executed a single task %v after Add; executors built in this order: %s", x.desc, el, all.String())
					}
				}
				await(x, []int{id}, "every accepted task is passed to the execute callback on the periodic flush (default interval)")
				st.Class("probe:default-interval")
			}
		}
		for _, x := range insts {
			wdone := make(chan struct{})
			go func() { x.ex.wait(); close(wdone) }()
			select {
			case <-wdone:
			case <-time.After(30 * time.Second):
				t.Fatalf("final Wait of %s did not return within 30 s", x.desc)
			}
		}
		mu.Lock()
		defer mu.Unlock()
		for k := 1; k <= id; k++ {
			if execCnt[k] != 1 {
				t.Fatalf("task %d was passed to the execute callback %d times (want exactly once); executors: %s", k, execCnt[k], all.String())
			}
		}
		st.NonTrivial(all.String())
	})
}

func seq(n int) []int {
	s := make([]int, n)
	for i := range s {
		s[i] = i
	}
	return s
}
