//go:build verif

package verifc18

// Unit cryption-paths: the encrypted-mode request/response path with MALFORMED request
// bodies and with handlers that do more than echo (headers, explicit status, several
// chunks, Flush, no output, body read in pieces or not at all).
//
// It lives here, next to the signer and the reference AES-ECB/PKCS#7 client of c18kit.go,
// because it reuses their unexported parts (csSign, sigString, rsaEncryptBlocks,
// shapedBody, genBytes, ...).  Nothing of go-zero is imported: the gates under test are
// handed in by the test binary (PathsBuild).

import (
	"bytes"
	"crypto/aes"
	"encoding/base64"
	"fmt"
	"io"
	"net/http"
	"net/http/httptest"
	"strconv"
	"strings"
	"sync"
	"time"

	"github.com/zeromicro/go-zero/internal/verifkit"
	"pgregory.net/rapid"
)

// Ids under which the two findings of this unit (FINDINGS.md) may be listed in
// known_findings.json.
const (
	// KnownPartialBlock: a ciphertext that is not a whole number of AES blocks reaches the
	// handler as that many zero bytes, status 200.
	KnownPartialBlock = "C18-F1"
	// KnownNoCiphertext: a non-empty body that base64-decodes to zero bytes ("\n") panics
	// inside the middleware (codec.EcbDecrypt of an empty slice indexes src[-1]).
	KnownNoCiphertext = "C18-F2"
)

// ------------------------------------------------------------------ reference decoder

// Verdicts of the reference decoder.
const (
	RefNoBody       = "no-body"       // nothing was sent: the handler reads an empty body
	RefOK           = "ok"            // base64 -> whole blocks -> PKCS#7 valid
	RefNotBase64    = "not-base64"    //
	RefNoCiphertext = "no-ciphertext" // valid base64 of zero bytes (only line breaks)
	RefPartialBlock = "partial-block" // ciphertext is not a whole number of blocks
	RefBadPadding   = "bad-padding"   // whole blocks, but the PKCS#7 padding is invalid
)

// BodyVerdict is what the reference client-side decoder makes of the bytes sent.
type BodyVerdict struct {
	Kind  string
	OK    bool   // RefNoBody or RefOK: Plain is what the handler must read
	Plain []byte //
	Raw   []byte // block-wise AES decryption (RefOK, RefBadPadding)
	CTLen int
	Why   string
}

func ecbRawDecrypt(key, ct []byte) []byte {
	blk, err := aes.NewCipher(key)
	if err != nil {
		return nil
	}
	out := make([]byte, len(ct))
	for i := 0; i+blk.BlockSize() <= len(ct); i += blk.BlockSize() {
		blk.Decrypt(out[i:i+blk.BlockSize()], ct[i:i+blk.BlockSize()])
	}
	return out
}

func ecbRawEncrypt(key, raw []byte) []byte {
	blk, err := aes.NewCipher(key)
	if err != nil {
		return nil
	}
	out := make([]byte, len(raw))
	for i := 0; i+blk.BlockSize() <= len(raw); i += blk.BlockSize() {
		blk.Encrypt(out[i:i+blk.BlockSize()], raw[i:i+blk.BlockSize()])
	}
	return out
}

// RefDecodeBody is the reference decoder of a request body in encrypted mode: base64
// (RFC 4648 standard alphabet with padding, line breaks ignored, as encoding/base64
// decodes it), AES-ECB under key, PKCS#7 unpadding (the reference client ECBDecrypt of
// c18kit.go).  It uses the standard library only.
func RefDecodeBody(key, wire []byte) BodyVerdict {
	if len(wire) == 0 {
		return BodyVerdict{Kind: RefNoBody, OK: true}
	}
	ct, err := base64.StdEncoding.DecodeString(string(wire))
	if err != nil {
		return BodyVerdict{Kind: RefNotBase64, Why: err.Error()}
	}
	if len(ct) == 0 {
		return BodyVerdict{Kind: RefNoCiphertext, Why: "base64 text of zero bytes"}
	}
	if len(ct)%aes.BlockSize != 0 {
		return BodyVerdict{Kind: RefPartialBlock, CTLen: len(ct), Why: fmt.Sprintf("ciphertext of %d bytes is not whole blocks", len(ct))}
	}
	raw := ecbRawDecrypt(key, ct)
	p, err := ECBDecrypt(key, ct)
	if err != nil {
		return BodyVerdict{Kind: RefBadPadding, Raw: raw, CTLen: len(ct), Why: err.Error()}
	}
	return BodyVerdict{Kind: RefOK, OK: true, Plain: p, Raw: raw, CTLen: len(ct)}
}

// ------------------------------------------------------------------ handler plans

// RespPlan is what the protected handler does.
type RespPlan struct {
	Read       string // "all", "pieces", "none"
	Piece      int    // buffer size for "pieces"
	Headers    [][2]string
	Status     int // 0: no explicit WriteHeader
	FlushFirst bool
	Chunks     [][]byte
	FlushAfter []bool // per chunk
}

func (p RespPlan) flushes() int {
	n := 0
	if p.FlushFirst {
		n++
	}
	for _, f := range p.FlushAfter {
		if f {
			n++
		}
	}
	return n
}

func (p RespPlan) written() []byte {
	var all []byte
	for _, c := range p.Chunks {
		all = append(all, c...)
	}
	return all
}

func (p RespPlan) String() string {
	var b strings.Builder
	fmt.Fprintf(&b, "read=%s", p.Read)
	if p.Read == "pieces" {
		fmt.Fprintf(&b, "/%d", p.Piece)
	}
	for _, h := range p.Headers {
		fmt.Fprintf(&b, " hdr(%s: %s)", h[0], h[1])
	}
	if p.Status != 0 {
		fmt.Fprintf(&b, " WriteHeader(%d)", p.Status)
	}
	if p.FlushFirst {
		b.WriteString(" Flush")
	}
	for i, c := range p.Chunks {
		fmt.Fprintf(&b, " Write(%dB %s)", len(c), fp(c))
		if p.FlushAfter[i] {
			b.WriteString(" Flush")
		}
	}
	if len(p.Chunks) == 0 {
		b.WriteString(" (writes nothing)")
	}
	return b.String()
}

// fp renders a byte string as a short fingerprint: its first bytes and an FNV-like sum.
func fp(b []byte) string {
	h := uint32(2166136261)
	for _, c := range b {
		h = (h ^ uint32(c)) * 16777619
	}
	head := b
	if len(head) > 12 {
		head = head[:12]
	}
	return fmt.Sprintf("%q#%08x", head, h)
}

var (
	planHeaders = [][2]string{{"X-C18-A", "1"}, {"X-C18-A", "again"}, {"X-C18-B", "two words"},
		{"Content-Type", "application/json"}, {"Cache-Control", "no-store"}}
	planStatus = []int{200, 201, 400, 404, 500}
	chunkLen   = []int{0, 1, 15, 16, 17, 31, 32, 33}
)

func genChunk(t *rapid.T, label string) []byte {
	var n int
	switch rapid.IntRange(0, 9).Draw(t, label+".size") {
	case 0:
		n = rapid.IntRange(1000, 4000).Draw(t, label+".big")
	case 1, 2:
		n = rapid.IntRange(2, 64).Draw(t, label+".n")
	default:
		n = rapid.SampledFrom(chunkLen).Draw(t, label+".len")
	}
	if n == 0 {
		return []byte{}
	}
	switch rapid.IntRange(0, 2).Draw(t, label+".kind") {
	case 0:
		return bytes.Repeat([]byte(`{"r":"ok"} `), n/11+1)[:n]
	case 1: // bytes that look like padding
		c := byte(rapid.IntRange(0, 16).Draw(t, label+".fill"))
		return bytes.Repeat([]byte{c}, n)
	}
	return rapid.SliceOfN(rapid.Byte(), n, n).Draw(t, label+".bytes")
}

func genPlan(t *rapid.T) RespPlan {
	p := RespPlan{Read: rapid.SampledFrom([]string{"all", "all", "pieces", "pieces", "none"}).Draw(t, "read")}
	if p.Read == "pieces" {
		p.Piece = rapid.SampledFrom([]int{1, 2, 3, 7, 16, 100}).Draw(t, "piece")
	}
	for i, n := 0, rapid.SampledFrom([]int{0, 0, 1, 2, 3}).Draw(t, "headers"); i < n; i++ {
		p.Headers = append(p.Headers, rapid.SampledFrom(planHeaders).Draw(t, fmt.Sprintf("header[%d]", i)))
	}
	if rapid.IntRange(0, 2).Draw(t, "explicitStatus") == 0 {
		p.Status = rapid.SampledFrom(planStatus).Draw(t, "status")
	}
	p.FlushFirst = rapid.IntRange(0, 7).Draw(t, "flushFirst") == 0
	n := rapid.SampledFrom([]int{0, 1, 1, 2, 2, 3, 4}).Draw(t, "chunks")
	for i := 0; i < n; i++ {
		p.Chunks = append(p.Chunks, genChunk(t, fmt.Sprintf("chunk[%d]", i)))
		p.FlushAfter = append(p.FlushAfter, rapid.IntRange(0, 3).Draw(t, fmt.Sprintf("flush[%d]", i)) == 0)
	}
	return p
}

// PlanProbe is the protected handler of this unit: it carries out a RespPlan and records
// what it saw.
type PlanProbe struct {
	mu       sync.Mutex
	plan     RespPlan
	Ran      int
	DidRead  bool
	Body     []byte
	BodyErr  error
	Flusher  bool
	WriteErr string
}

func (p *PlanProbe) Reset(plan RespPlan) {
	p.mu.Lock()
	defer p.mu.Unlock()
	p.plan, p.Ran, p.DidRead, p.Body, p.BodyErr, p.Flusher, p.WriteErr = plan, 0, false, nil, nil, false, ""
}

func (p *PlanProbe) snapshot() PlanProbe {
	p.mu.Lock()
	defer p.mu.Unlock()
	return PlanProbe{Ran: p.Ran, DidRead: p.DidRead, Body: p.Body, BodyErr: p.BodyErr, Flusher: p.Flusher, WriteErr: p.WriteErr}
}

func (p *PlanProbe) ServeHTTP(w http.ResponseWriter, r *http.Request) {
	p.mu.Lock()
	defer p.mu.Unlock()
	p.Ran++
	switch p.plan.Read {
	case "all":
		p.DidRead = true
		if r.Body != nil {
			p.Body, p.BodyErr = io.ReadAll(r.Body)
		}
	case "pieces":
		p.DidRead = true
		if r.Body != nil {
			buf := make([]byte, p.plan.Piece)
			for rounds := 0; rounds < 1<<21; rounds++ {
				n, err := r.Body.Read(buf)
				p.Body = append(p.Body, buf[:n]...)
				if err == io.EOF {
					break
				}
				if err != nil {
					p.BodyErr = err
					break
				}
			}
		}
	}
	for _, h := range p.plan.Headers {
		w.Header().Add(h[0], h[1])
	}
	if p.plan.Status != 0 {
		w.WriteHeader(p.plan.Status)
	}
	fl, isFl := w.(http.Flusher)
	p.Flusher = isFl
	if p.plan.FlushFirst && isFl {
		fl.Flush()
	}
	for i, c := range p.plan.Chunks {
		n, err := w.Write(c)
		if (err != nil || n != len(c)) && p.WriteErr == "" {
			p.WriteErr = fmt.Sprintf("Write #%d of %d bytes returned (%d, %v)", i, len(c), n, err)
		}
		if p.plan.FlushAfter[i] && isFl {
			fl.Flush()
		}
	}
}

// ------------------------------------------------------------------ the case

// PathsBuild hands in the gates under test.
type PathsBuild struct {
	// Crypt wraps inner with the cryption middleware alone; limit < 0: the constructor
	// without a limit argument (default limit), limit == 0: no limit.
	Crypt func(limit int64, key []byte, inner http.Handler) http.Handler
	// CS wraps inner with the strict content-security gate (same meaning of limit).
	CS func(limit int64, conf CSConf, keyFiles map[string]string, inner http.Handler) http.Handler
}

// PathsOpt tunes the runner.
type PathsOpt struct {
	ExcludePartialBlock bool // C18-F1 is listed as known
	ExcludeNoCiphertext bool // C18-F2 is listed as known
	Wire                *WireTarget
}

// PathsCase is one request through one gate with one handler plan.
type PathsCase struct {
	Gate                string // "bare": cryption middleware alone; "cs": strict content security, type=1
	Key                 []byte
	Limit               int64
	Shape               string
	Method, Path, Query string
	Conf                CSConf
	UseB                bool // secret encrypted to key B instead of A
	BodyKind            string
	BodyDesc            string
	Wire                []byte // the bytes sent
	Plan                RespPlan
}

func (c PathsCase) String() string {
	lim := "default"
	if c.Limit >= 0 {
		lim = strconv.FormatInt(c.Limit, 10)
	}
	s := fmt.Sprintf("gate=%s key=%x limit=%s shape=%s %s body[%s %s] wire=%dB %s\n  handler: %s",
		c.Gate, c.Key, lim, c.Shape, c.Method, c.BodyKind, c.BodyDesc, len(c.Wire), fp(c.Wire), c.Plan)
	if c.Gate == "cs" {
		s += fmt.Sprintf("\n  cs: %s tolerance=%ds keyB=%v", target(c.Path, c.Query), c.Conf.TolSec, c.UseB)
	}
	return s
}

// SignEncryptedBody builds the X-Content-Security header a conforming client sends in
// encrypted mode (type=1) for exactly these body bytes: the reference signer of c18kit.go
// over timestamp, method, path, query and the digest of wire.
func SignEncryptedBody(env *Env, conf CSConf, useB bool, now int64, method, path, query string, wire, key []byte) (string, error) {
	rk, fpr := env.A, conf.FpA
	if useB {
		rk, fpr = env.B, conf.FpB
	}
	ts := strconv.FormatInt(now, 10)
	text := "type=1; key=" + base64.StdEncoding.EncodeToString(key) + "; time=" + ts
	ct, err := rsaEncryptBlocks(&rk.Priv.PublicKey, []byte(text))
	if err != nil {
		return "", err
	}
	return "key=" + fpr + "; secret=" + base64.StdEncoding.EncodeToString(ct) + "; signature=" +
		csSign(key, sigString(ts, method, path, query, wire)), nil
}

// PathsOutcome is what happened, for the class counters.
type PathsOutcome struct {
	Verdict    BodyVerdict
	Ran        int
	Code       int
	LaxPadding bool // bad padding by the reference, yet the handler ran and read the block-wise decryption
	Unread     bool // the handler ran for a body the reference rejects, without reading it
	OverLimit  bool
	Flusher    bool
}

const defaultLimit = 1 << 20 // the documented constant of the constructors without a limit

// CheckPaths sends the case and relates what happened to the reference decoder.  It
// returns the violated clause ("" if none) and, if the failure is exactly the signature
// of a finding that may be listed as known, that finding's id.
func CheckPaths(env *Env, c PathsCase, build PathsBuild, wire *WireTarget) (out PathsOutcome, problem, defect string, inconclusive bool) {
	probe := &PlanProbe{}
	probe.Reset(c.Plan)
	var gate http.Handler
	header := ""
	now0 := time.Now().Unix()
	if c.Gate == "cs" {
		var err error
		header, err = SignEncryptedBody(env, c.Conf, c.UseB, now0, c.Method, c.Path, c.Query, c.Wire, c.Key)
		if err != nil {
			return out, "generator bug: " + err.Error(), "", false
		}
		gate = build.CS(c.Limit, c.Conf, map[string]string{c.Conf.FpA: env.A.PrivFile, c.Conf.FpB: env.B.PrivFile}, probe)
	} else {
		gate = build.Crypt(c.Limit, c.Key, probe)
	}
	ref := RefDecodeBody(c.Key, c.Wire)
	out.Verdict = ref
	body, cl := shapedBody(c.Shape, c.Wire)

	var (
		code     int
		respBody []byte
		respHdr  http.Header
		panicked any
	)
	if wire == nil {
		hr := httptest.NewRequest(c.Method, target(c.Path, c.Query), body)
		hr.ContentLength = cl
		if header != "" {
			hr.Header.Set("X-Content-Security", header)
		}
		rec := httptest.NewRecorder()
		func() {
			defer func() { panicked = recover() }()
			gate.ServeHTTP(rec, hr)
		}()
		res := rec.Result()
		code, respBody, respHdr = res.StatusCode, rec.Body.Bytes(), res.Header
	} else {
		wire.SetHandler(gate)
		hr, err := http.NewRequest(c.Method, wire.srv.URL+strings.TrimPrefix(target(c.Path, c.Query), "http://c18.test"), body)
		if err != nil {
			return out, "generator bug: " + err.Error(), "", false
		}
		hr.ContentLength = cl
		if header != "" {
			hr.Header.Set("X-Content-Security", header)
		}
		resp, err := wire.Client.Do(hr)
		if err != nil {
			if ne, ok := err.(interface{ Timeout() bool }); ok && ne.Timeout() {
				return out, "", "", true
			}
			panicked = fmt.Sprintf("transport error (the server closes the connection when a handler panics): %v", err)
		} else {
			respBody, err = io.ReadAll(resp.Body)
			resp.Body.Close()
			if err != nil {
				panicked = fmt.Sprintf("transport error while reading the response: %v", err)
			}
			code, respHdr = resp.StatusCode, resp.Header
		}
	}
	seen := probe.snapshot()
	out.Ran, out.Code, out.Flusher = seen.Ran, code, seen.Flusher

	pf := func(format string, a ...any) string {
		return fmt.Sprintf("%s\n reference decoder: %s %s\n got: handlerRan=%d status=%d respLen=%d handlerRead=%v/%dB %s\n case: %s\n wire: %q",
			fmt.Sprintf(format, a...), ref.Kind, ref.Why, seen.Ran, code, len(respBody), seen.DidRead, len(seen.Body), fp(seen.Body), c, clipN(c.Wire, 160))
	}

	// (4) no panic reaches the caller
	if panicked != nil {
		d := ""
		if ref.Kind == RefNoCiphertext {
			d = KnownNoCiphertext
		}
		return out, pf("a panic reached the caller of the middleware: %v", panicked), d, false
	}
	if seen.Ran > 1 {
		return out, pf("handler ran %d times for one request", seen.Ran), "", false
	}
	if c.Gate == "cs" {
		now1 := time.Now().Unix()
		v0 := RefCS(env, c.Conf, header, true, c.Method, c.Path, c.Query, c.Wire, now0)
		v1 := RefCS(env, c.Conf, header, true, c.Method, c.Path, c.Query, c.Wire, now1)
		if !v0.Accept || !v0.Encrypted || !bytes.Equal(v0.Key, c.Key) {
			return out, pf("generator bug: the reference verifier does not accept the signed request (%s)", v0.Why), "", false
		}
		if !v1.Accept {
			return out, "", "", true
		}
	}
	limit := c.Limit
	if limit < 0 {
		limit = defaultLimit
	}
	out.OverLimit = limit > 0 && int64(len(c.Wire)) > limit

	if seen.Ran == 0 {
		if c.Gate == "cs" && code == http.StatusForbidden {
			return out, pf("correctly signed request refused by the signature gate (403)"), "", false
		}
		// (1) liveness: a decodable body within the limit reaches the handler
		if ref.OK && !out.OverLimit {
			return out, pf("encrypted body did not reach the handler (statement: 'an encrypted body reaches the handler decrypted ... round-tripping any payload')"), "", false
		}
		return out, "", "", false
	}

	// the handler ran
	if seen.DidRead {
		switch ref.Kind {
		case RefOK, RefNoBody:
			// (1) it reads exactly the reference plaintext
			if seen.BodyErr != nil {
				return out, pf("handler could not read the body: %v", seen.BodyErr), "", false
			}
			if !bytes.Equal(seen.Body, ref.Plain) {
				return out, pf("encrypted body did not reach the handler decrypted: handler read %d bytes %q, the reference plaintext is %d bytes %q (statement: 'an encrypted body reaches the handler decrypted')",
					len(seen.Body), clip(seen.Body), len(ref.Plain), clip(ref.Plain)), "", false
			}
		case RefNoCiphertext:
			// nothing was encrypted: seeing nothing is not seeing a wrong body
			if len(seen.Body) != 0 {
				return out, pf("handler read %d bytes %q although the body carries no ciphertext at all", len(seen.Body), clip(seen.Body)), "", false
			}
		case RefNotBase64, RefPartialBlock:
			// (2) the handler must never see a body that is not the decryption of what was sent
			d := ""
			if ref.Kind == RefPartialBlock {
				d = KnownPartialBlock
			}
			return out, pf("handler ran and read %d bytes %q although the body sent is not the encryption of anything (%s): what it read is not the decryption of what was sent",
				len(seen.Body), clip(seen.Body), ref.Why), d, false
		case RefBadPadding:
			// The statement does not say how strictly the padding is validated.  Whatever
			// rule the server applies to the last block, what the handler reads must be the
			// block-wise decryption of what was sent, less at most one block of padding.
			b, raw := seen.Body, ref.Raw
			if len(b) > len(raw) || len(b) < len(raw)-aes.BlockSize || !bytes.Equal(b, raw[:len(b)]) {
				return out, pf("handler ran for a body with invalid padding and read %d bytes %q, which is not the block-wise decryption of what was sent (%d bytes %q) less at most one block",
					len(b), clip(b), len(raw), clip(raw)), "", false
			}
			out.LaxPadding = true
		}
	} else if !ref.OK {
		out.Unread = true
	}
	if seen.WriteErr != "" {
		return out, pf("the response writer handed to the handler broke the io.Writer contract: %s", seen.WriteErr), "", false
	}

	// (3) the response: status, headers, body
	wantCode := c.Plan.Status
	if wantCode == 0 {
		wantCode = http.StatusOK
	}
	if code != wantCode {
		return out, pf("status is %d, the handler set %d", code, wantCode), "", false
	}
	for _, h := range c.Plan.Headers {
		found := false
		for _, v := range respHdr.Values(h[0]) {
			if v == h[1] {
				found = true
			}
		}
		if !found {
			return out, pf("header %s: %s, set by the handler before its first write, is missing from the response (%v)", h[0], h[1], respHdr.Values(h[0])), "", false
		}
	}
	// in encrypted mode a request with a body gets its response encrypted; the cryption
	// middleware alone always encrypts
	if c.Gate == "bare" || len(c.Wire) > 0 {
		want := c.Plan.written()
		if len(respBody) == 0 {
			if len(want) != 0 {
				return out, pf("the handler wrote %d bytes, the response came back empty", len(want)), "", false
			}
		} else {
			ct, err := base64.StdEncoding.DecodeString(string(respBody))
			if err != nil {
				return out, pf("response is not base64 (returned in the clear?): %q", clip(respBody)), "", false
			}
			pt, err := ECBDecrypt(c.Key, ct)
			if err != nil {
				return out, pf("response does not decrypt under the request key: %v", err), "", false
			}
			if !bytes.Equal(pt, want) {
				return out, pf("decrypted response (%d bytes %q) differs from the concatenation of the chunks the handler wrote (%d bytes %q) (statement: 'the response is returned encrypted, round-tripping any payload')",
					len(pt), clip(pt), len(want), clip(want)), "", false
			}
		}
	}
	return out, "", "", false
}

func clipN(b []byte, n int) string {
	if len(b) > n {
		return string(b[:n]) + "…"
	}
	return string(b)
}

// ------------------------------------------------------------------ generators

var (
	// replacement / inserted bytes for mutations of the base64 text
	b64MutBytes = []byte("AQgwZz059+/=-_ \n\r!\x00\xff")
	plainTexts  = []string{"hello", "ping", "abcd", `{"a":1}`, "AAAA", "AAAAAAAAAAAAAAAAAAAAAA==", "=", "====", "a"}
	blankTexts  = []string{"\n", "\r\n", "\n\n\n", " ", "\r\n\r\n"}
	bodyKinds   = []string{"valid", "valid", "valid", "b64-flip", "b64-flip", "b64-insert", "b64-delete", "ct-flip",
		"ct-truncate", "ct-truncate", "ct-extend", "random-last-block", "crafted-padding", "crafted-padding", "other-key", "plain", "blank"}
	padTails = []int{0, 1, 2, 3, 15, 16, 17, 32, 255}
)

// genPathsBody draws the body: a valid encrypted payload or one mutation of it.
func genPathsBody(t *rapid.T, key []byte, allowNone bool) (kind, desc string, wire []byte) {
	kinds := bodyKinds
	if allowNone {
		kinds = append(append([]string{}, bodyKinds...), "none")
	}
	kind = rapid.SampledFrom(kinds).Draw(t, "bodyKind")
	if kind == "none" {
		return kind, "", nil
	}
	payload := genBytes(t, "payload", true)
	ct, err := ECBEncrypt(key, payload)
	if err != nil {
		t.Fatalf("generator bug: %v", err)
	}
	b64 := func(b []byte) []byte { return []byte(base64.StdEncoding.EncodeToString(b)) }
	desc = fmt.Sprintf("payload=%dB %s", len(payload), fp(payload))
	switch kind {
	case "valid":
		wire = b64(ct)
	case "b64-flip":
		wire = b64(ct)
		i := rapid.IntRange(0, len(wire)-1).Draw(t, "at")
		c := rapid.SampledFrom(b64MutBytes).Draw(t, "byte")
		if c == wire[i] {
			c = 'B'
			if wire[i] == 'B' {
				c = 'C'
			}
		}
		desc += fmt.Sprintf(" base64[%d] %q->%q", i, wire[i], c)
		wire[i] = c
	case "b64-insert":
		w := b64(ct)
		i := rapid.IntRange(0, len(w)).Draw(t, "at")
		if rapid.IntRange(0, 2).Draw(t, "atEnd") == 0 {
			i = len(w) // junk behind a complete base64 text
		}
		c := rapid.SampledFrom(b64MutBytes).Draw(t, "byte")
		wire = append(append(append([]byte{}, w[:i]...), c), w[i:]...)
		desc += fmt.Sprintf(" base64 insert %q at %d", c, i)
	case "b64-delete":
		w := b64(ct)
		i := rapid.IntRange(0, len(w)-1).Draw(t, "at")
		wire = append(append([]byte{}, w[:i]...), w[i+1:]...)
		desc += fmt.Sprintf(" base64 delete [%d]", i)
	case "ct-flip":
		i := rapid.IntRange(0, len(ct)-1).Draw(t, "at")
		bit := rapid.IntRange(0, 7).Draw(t, "bit")
		ct[i] ^= 1 << bit
		wire = b64(ct)
		desc += fmt.Sprintf(" ciphertext[%d] bit %d flipped (block %d of %d)", i, bit, i/16+1, len(ct)/16)
	case "ct-truncate":
		n := rapid.IntRange(1, 15).Draw(t, "drop")
		wire = b64(ct[:len(ct)-n])
		desc += fmt.Sprintf(" ciphertext truncated by %d to %d bytes", n, len(ct)-n)
	case "ct-extend":
		extra := rapid.SliceOfN(rapid.Byte(), 1, 15).Draw(t, "extra")
		wire = b64(append(ct, extra...))
		desc += fmt.Sprintf(" ciphertext extended by %d to %d bytes", len(extra), len(ct)+len(extra))
	case "random-last-block":
		last := rapid.SliceOfN(rapid.Byte(), 16, 16).Draw(t, "lastBlock")
		copy(ct[len(ct)-16:], last)
		wire = b64(ct)
		desc += " last ciphertext block replaced by random bytes"
	case "crafted-padding":
		// the last block is the encryption of a block whose tail is chosen: the padding
		// length byte and whether the bytes in front of it agree with it
		raw := rapid.SliceOfN(rapid.Byte(), 16, 16).Draw(t, "lastRaw")
		n := rapid.SampledFrom(padTails).Draw(t, "padByte")
		raw[15] = byte(n)
		agree := rapid.IntRange(0, 2).Draw(t, "padAgree") // 0: tail as drawn, 1: all n bytes agree, 2: all but one
		if n >= 1 && n <= 16 && agree > 0 {
			for i := 16 - n; i < 16; i++ {
				raw[i] = byte(n)
			}
			if agree == 2 && n >= 2 {
				raw[16-n] ^= 0x40
			}
		}
		copy(ct[len(ct)-16:], ecbRawEncrypt(key, raw))
		wire = b64(ct)
		desc += fmt.Sprintf(" last block decrypts to …%x (padding byte %d, agree=%d)", raw[12:], n, agree)
	case "other-key":
		other := append([]byte{}, key...)
		other[rapid.IntRange(0, len(other)-1).Draw(t, "keyByte")] ^= 0x01
		ct2, _ := ECBEncrypt(other, payload)
		wire = b64(ct2)
		desc += " encrypted under another key"
	case "plain":
		s := rapid.SampledFrom(plainTexts).Draw(t, "plainText")
		if len(payload) > 0 && rapid.Bool().Draw(t, "plainPayload") {
			s = string(payload)
		}
		wire = []byte(s)
		desc = fmt.Sprintf("plain text %q", clip(wire))
	case "blank":
		wire = []byte(rapid.SampledFrom(blankTexts).Draw(t, "blankText"))
		desc = fmt.Sprintf("blank text %q", wire)
	}
	return kind, desc, wire
}

func genLimit(t *rapid.T, wireLen int) (int64, string) {
	k := rapid.SampledFrom([]string{"default", "default", "default", "none", "wire", "wire+1", "wire-1", "half", "double"}).Draw(t, "limit")
	w := int64(wireLen)
	var l int64
	switch k {
	case "default":
		return -1, k
	case "none":
		return 0, k
	case "wire":
		l = w
	case "wire+1":
		l = w + 1
	case "wire-1":
		l = w - 1
	case "half":
		l = w / 2
	case "double":
		l = 2 * w
	}
	if l < 1 {
		l = 1
	}
	return l, k
}

// RunPathsCase is one rapid case of the cryption-paths unit.
func RunPathsCase(t *rapid.T, st *verifkit.Stats, env *Env, opt PathsOpt, build PathsBuild) {
	c := PathsCase{Gate: rapid.SampledFrom([]string{"cs", "cs", "cs", "bare", "bare"}).Draw(t, "gate")}
	keyLen := rapid.SampledFrom([]int{16, 24, 32}).Draw(t, "keyLen")
	c.Key = rapid.SliceOfN(rapid.Byte(), keyLen, keyLen).Draw(t, "aesKey")
	c.Method, c.Path = http.MethodPost, "/any"
	if c.Gate == "cs" {
		c.Conf = GenCSConf(t)
		c.Conf.TolSec = 3600 // the timestamp is "now": the time window never decides here
		c.UseB = rapid.Bool().Draw(t, "keyB")
		c.Method = rapid.SampledFrom(methods).Draw(t, "method")
		c.Path = genPath(t, "path")
		c.Query = rapid.SampledFrom(queryForms).Draw(t, "query")
	}
	c.BodyKind, c.BodyDesc, c.Wire = genPathsBody(t, c.Key, c.Gate == "bare")
	c.Shape = rapid.SampledFrom(shapeMix).Draw(t, "shape")
	var limitKind string
	c.Limit, limitKind = genLimit(t, len(c.Wire))
	c.Plan = genPlan(t)

	ref := RefDecodeBody(c.Key, c.Wire)
	if (opt.ExcludePartialBlock && ref.Kind == RefPartialBlock) || (opt.ExcludeNoCiphertext && ref.Kind == RefNoCiphertext) {
		st.Excluded()
		return
	}
	out, problem, _, inconclusive := CheckPaths(env, c, build, opt.Wire)
	if inconclusive {
		st.Note("cryption-paths: request timed out or the signature's time window moved in flight (inconclusive)")
		return
	}
	if problem != "" {
		t.Fatalf("C18/cryption-paths: %s", problem)
	}

	outcome := "ran"
	if out.Ran == 0 {
		outcome = "not-run/" + strconv.Itoa(out.Code)
	}
	st.Class("paths/gate:" + c.Gate)
	st.Class("paths/body:" + c.BodyKind + "/ref:" + ref.Kind + "/" + outcome)
	st.Class("paths/shape:" + c.Shape + "/" + outcome)
	malformed := c.BodyKind != "valid" && c.BodyKind != "none"
	if malformed && ref.Kind == RefOK {
		st.Class("paths/reference-decode-ok-after-mutation/" + c.BodyKind)
	}
	if out.LaxPadding {
		st.Class("paths/observed:invalid-padding-accepted-by-the-server(handler read the block-wise decryption)")
	}
	if out.Unread {
		st.Class("paths/observed:handler-ran-unread-for-rejected-body/ref:" + ref.Kind)
	}
	if out.OverLimit {
		st.Class("paths/over-limit/" + c.Shape + "/" + outcome)
	} else if limitKind != "default" && limitKind != "none" {
		st.Class("paths/limit:" + limitKind + "/" + outcome)
	}
	if out.Ran == 1 {
		st.Class(fmt.Sprintf("paths/chunks=%d", len(c.Plan.Chunks)))
		st.Class("paths/read:" + c.Plan.Read)
		if c.Plan.Status != 0 {
			st.Class(fmt.Sprintf("paths/explicit-status=%d", c.Plan.Status))
		}
		if n := c.Plan.flushes(); n > 0 && out.Flusher {
			st.Class("paths/flush")
		}
		if len(c.Plan.Headers) > 0 {
			st.Class("paths/headers-set")
		}
		if len(c.Plan.written()) == 0 {
			st.Class("paths/empty-response")
		}
	}
	if malformed || len(c.Plan.Chunks) >= 2 || c.Plan.Status != 0 {
		st.NonTrivial(c.String())
	}
}

// GenPayload draws a payload (empty, one block, several blocks, text / padding look-alike /
// binary, up to a few KB) for the direct codec property.
func GenPayload(t *rapid.T, label string) []byte { return genBytes(t, label, true) }

// ECBRawEncrypt encrypts whole blocks without padding (reference, for crafted inputs).
func ECBRawEncrypt(key, raw []byte) []byte { return ecbRawEncrypt(key, raw) }

// ECBRawDecrypt decrypts whole blocks without unpadding (reference).
func ECBRawDecrypt(key, ct []byte) []byte { return ecbRawDecrypt(key, ct) }
