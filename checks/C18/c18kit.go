//go:build verif

// Package verifc18 holds what the two C18 test binaries (rest/handler and rest) share:
// the generators of credentials and of their single-field mutations, the independent
// reference verifiers written from the property statement (stdlib crypto only, nothing
// from go-zero or from the JWT library), the probe handler and the case runners that
// relate what the real middleware did to the reference verdict.
//
// It is injected by -overlay as github.com/zeromicro/go-zero/internal/verifc18.
package verifc18

import (
	"bytes"
	"crypto/aes"
	"crypto/hmac"
	crand "crypto/rand"
	"crypto/rsa"
	"crypto/sha1"
	"crypto/sha256"
	"crypto/sha512"
	"crypto/x509"
	"encoding/base64"
	"encoding/hex"
	"encoding/json"
	"encoding/pem"
	"errors"
	"fmt"
	"hash"
	"io"
	"math/big"
	"net/http"
	"net/http/httptest"
	"os"
	"path/filepath"
	"sort"
	"strconv"
	"strings"
	"sync"
	"testing/iotest"
	"time"

	"github.com/zeromicro/go-zero/internal/verifkit"
	"pgregory.net/rapid"
)

// KnownEmptyPayload is the id under which the empty-payload defect of the AES-ECB
// unpadding (FINDINGS.md) may be listed in known_findings.json.
const KnownEmptyPayload = "D12"

// KnownUnknownLength is the id under which the second defect (FINDINGS.md: an encrypted
// body sent with unknown length, i.e. chunked, reaches the handler undecrypted) may be
// listed in known_findings.json.
const KnownUnknownLength = "D19"

// Transport shapes: the same logical request (same bytes readable from r.Body) can reach
// the server with a declared length or without one.
const (
	ShapeSized    = "sized"          // Content-Length = len(body); empty body: http.NoBody, 0
	ShapeUnknown  = "unknown-length" // ContentLength = -1 (Transfer-Encoding: chunked on the wire)
	ShapeUnknown1 = "unknown-length-1byte"
)

var (
	shapeMix        = []string{ShapeSized, ShapeSized, ShapeUnknown, ShapeUnknown, ShapeUnknown1}
	shapeMixUnknown = []string{ShapeUnknown, ShapeUnknown, ShapeUnknown1, ShapeSized}
)

// shapedBody returns the request body and the ContentLength for a transport shape.
func shapedBody(shape string, b []byte) (io.ReadCloser, int64) {
	switch shape {
	case ShapeUnknown:
		return io.NopCloser(bytes.NewReader(b)), -1
	case ShapeUnknown1:
		return io.NopCloser(iotest.OneByteReader(bytes.NewReader(b))), -1
	}
	if len(b) == 0 {
		return http.NoBody, 0
	}
	return io.NopCloser(bytes.NewReader(b)), int64(len(b))
}

// WireTarget is a real HTTP server (httptest.NewServer) in front of whatever gate the
// current case built, and a client: requests of unknown length really travel with
// Transfer-Encoding: chunked.
type WireTarget struct {
	srv    *httptest.Server
	mu     sync.Mutex
	h      http.Handler
	Client *http.Client
}

// NewWireTarget starts the server.
func NewWireTarget() *WireTarget {
	w := &WireTarget{}
	w.srv = httptest.NewServer(http.HandlerFunc(func(rw http.ResponseWriter, r *http.Request) {
		w.mu.Lock()
		h := w.h
		w.mu.Unlock()
		h.ServeHTTP(rw, r)
	}))
	w.Client = &http.Client{Timeout: 30 * time.Second}
	return w
}

// SetHandler installs the gate of the current case.
func (w *WireTarget) SetHandler(h http.Handler) {
	w.mu.Lock()
	w.h = h
	w.mu.Unlock()
}

// Close stops the server.
func (w *WireTarget) Close() { w.srv.Close() }

// ------------------------------------------------------------------ RSA environment

// RSAKey is one key pair; the private half is also on disk in the PKCS#1 PEM form that
// codec.NewRsaDecrypter reads.
type RSAKey struct {
	Priv     *rsa.PrivateKey
	PrivFile string
	PubPEM   []byte
}

// Env holds the key pairs of one test process: A and B are configured at the server,
// X never is (an attacker's own key pair).  C is a third server-side key, used only by the
// multi-group engine units (groups of one server configured with different key sets).
type Env struct {
	A, B, X *RSAKey
	C       *RSAKey
	Dir     string
}

var (
	envOnce sync.Once
	envVal  *Env
	envErr  error
)

// GetEnv generates the RSA keys once per process.
func GetEnv() (*Env, error) {
	envOnce.Do(func() {
		dir, err := os.MkdirTemp(".", "c18keys-")
		if err != nil {
			dir, err = os.MkdirTemp("", "c18keys-")
		}
		if err != nil {
			envErr = err
			return
		}
		dir, _ = filepath.Abs(dir)
		e := &Env{Dir: dir}
		mk := func(name string, bits int) *RSAKey {
			if envErr != nil {
				return nil
			}
			priv, err := rsa.GenerateKey(crand.Reader, bits)
			if err != nil {
				envErr = err
				return nil
			}
			privPEM := pem.EncodeToMemory(&pem.Block{Type: "RSA PRIVATE KEY", Bytes: x509.MarshalPKCS1PrivateKey(priv)})
			pubDER, err := x509.MarshalPKIXPublicKey(&priv.PublicKey)
			if err != nil {
				envErr = err
				return nil
			}
			pubPEM := pem.EncodeToMemory(&pem.Block{Type: "PUBLIC KEY", Bytes: pubDER})
			file := filepath.Join(dir, name+".pem")
			if err := os.WriteFile(file, privPEM, 0o600); err != nil {
				envErr = err
				return nil
			}
			return &RSAKey{Priv: priv, PrivFile: file, PubPEM: pubPEM}
		}
		e.A = mk("a", 1024)
		e.B = mk("b", 1536)
		e.X = mk("x", 1024)
		e.C = mk("c", 1024)
		envVal = e
	})
	return envVal, envErr
}

// rsaEncryptBlocks is the client side of the protocol: PKCS#1 v1.5, message cut into
// chunks of k-11 bytes (RFC 2313), ciphertexts concatenated.
func rsaEncryptBlocks(pub *rsa.PublicKey, msg []byte) ([]byte, error) {
	limit := pub.Size() - 11
	var out []byte
	for len(msg) > 0 {
		n := len(msg)
		if n > limit {
			n = limit
		}
		ct, err := rsa.EncryptPKCS1v15(crand.Reader, pub, msg[:n])
		if err != nil {
			return nil, err
		}
		out = append(out, ct...)
		msg = msg[n:]
	}
	return out, nil
}

// rsaDecryptBlocks is the reference server side: chunks of k bytes.
func rsaDecryptBlocks(priv *rsa.PrivateKey, ct []byte) ([]byte, error) {
	k := priv.Size()
	var out []byte
	for len(ct) > 0 {
		n := len(ct)
		if n > k {
			n = k
		}
		pt, err := rsa.DecryptPKCS1v15(nil, priv, ct[:n])
		if err != nil {
			return nil, err
		}
		out = append(out, pt...)
		ct = ct[n:]
	}
	return out, nil
}

// ------------------------------------------------------------------ AES-ECB + PKCS#7 (reference)

func pkcs7Pad(b []byte, bs int) []byte {
	n := bs - len(b)%bs
	out := make([]byte, 0, len(b)+n)
	out = append(out, b...)
	for i := 0; i < n; i++ {
		out = append(out, byte(n))
	}
	return out
}

func pkcs7Unpad(b []byte, bs int) ([]byte, error) {
	if len(b) == 0 || len(b)%bs != 0 {
		return nil, errors.New("not whole blocks")
	}
	n := int(b[len(b)-1])
	if n == 0 || n > bs || n > len(b) {
		return nil, errors.New("bad padding")
	}
	for _, c := range b[len(b)-n:] {
		if int(c) != n {
			return nil, errors.New("bad padding bytes")
		}
	}
	return b[:len(b)-n], nil
}

// ECBEncrypt is the client's encryption of a payload: PKCS#7 pad, AES each block.
func ECBEncrypt(key, plain []byte) ([]byte, error) {
	blk, err := aes.NewCipher(key)
	if err != nil {
		return nil, err
	}
	p := pkcs7Pad(plain, blk.BlockSize())
	out := make([]byte, len(p))
	for i := 0; i < len(p); i += blk.BlockSize() {
		blk.Encrypt(out[i:i+blk.BlockSize()], p[i:i+blk.BlockSize()])
	}
	return out, nil
}

// ECBDecrypt is the client's decryption of a response.
func ECBDecrypt(key, ct []byte) ([]byte, error) {
	blk, err := aes.NewCipher(key)
	if err != nil {
		return nil, err
	}
	if len(ct) == 0 || len(ct)%blk.BlockSize() != 0 {
		return nil, errors.New("ciphertext is not whole blocks")
	}
	out := make([]byte, len(ct))
	for i := 0; i < len(ct); i += blk.BlockSize() {
		blk.Decrypt(out[i:i+blk.BlockSize()], ct[i:i+blk.BlockSize()])
	}
	return pkcs7Unpad(out, blk.BlockSize())
}

// ------------------------------------------------------------------ JWT: signer and reference verifier

func b64u(b []byte) string { return base64.RawURLEncoding.EncodeToString(b) }

func hsHash(alg string) func() hash.Hash {
	switch alg {
	case "HS256":
		return sha256.New
	case "HS384":
		return sha512.New384
	case "HS512":
		return sha512.New
	}
	return nil
}

func hsMac(alg string, key []byte, signingInput string) []byte {
	m := hmac.New(hsHash(alg), key)
	io.WriteString(m, signingInput)
	return m.Sum(nil)
}

// SignJWT builds header.payload.signature with the MAC of macAlg under key (the header
// bytes are whatever the caller gives, so header and MAC algorithm may disagree).
func SignJWT(hdrJSON, payJSON []byte, macAlg string, key []byte) string {
	in := b64u(hdrJSON) + "." + b64u(payJSON)
	return in + "." + b64u(hsMac(macAlg, key, in))
}

// JWTVerdict is the reference verifier's answer for one request.
type JWTVerdict struct {
	Accept bool
	// Soft: accepted by the statement's letter, but the statement leaves room (an
	// issued-at in the future): nothing is asserted about whether the handler runs.
	Soft   bool
	Why    string
	Claims map[string]any
}

var stdClaims = map[string]bool{"aud": true, "exp": true, "jti": true, "iat": true, "iss": true, "nbf": true, "sub": true}

func numClaim(v any) (float64, bool) {
	n, ok := v.(json.Number)
	if !ok {
		return 0, false
	}
	f, err := n.Float64()
	if err != nil {
		return 0, false
	}
	return f, true
}

// RefJWT decides from the statement: "a token whose HMAC signature verifies under the
// current or previous secret and whose time claims are currently valid".  keys holds the
// current secret and, if one is configured, the previous one.
func RefJWT(auth string, keys [][]byte, now int64) JWTVerdict {
	if auth == "" {
		return JWTVerdict{Why: "no credential"}
	}
	tok := auth
	if len(tok) >= 7 && strings.EqualFold(tok[:7], "bearer ") {
		tok = tok[7:]
	}
	parts := strings.Split(tok, ".")
	if len(parts) != 3 {
		return JWTVerdict{Why: "not three segments"}
	}
	hb, err := base64.RawURLEncoding.DecodeString(parts[0])
	if err != nil {
		return JWTVerdict{Why: "header not base64url"}
	}
	var hdr map[string]any
	if err := json.Unmarshal(hb, &hdr); err != nil {
		return JWTVerdict{Why: "header not a JSON object"}
	}
	alg, _ := hdr["alg"].(string)
	if hsHash(alg) == nil {
		return JWTVerdict{Why: "alg is not an HMAC algorithm: " + fmt.Sprint(hdr["alg"])}
	}
	sig, err := base64.RawURLEncoding.DecodeString(parts[2])
	if err != nil {
		return JWTVerdict{Why: "signature not base64url"}
	}
	ok := false
	for _, k := range keys {
		if hmac.Equal(hsMac(alg, k, parts[0]+"."+parts[1]), sig) {
			ok = true
		}
	}
	if !ok {
		return JWTVerdict{Why: "MAC does not verify under a configured secret"}
	}
	pb, err := base64.RawURLEncoding.DecodeString(parts[1])
	if err != nil {
		return JWTVerdict{Why: "payload not base64url"}
	}
	var claims map[string]any
	dec := json.NewDecoder(bytes.NewReader(pb))
	dec.UseNumber()
	if err := dec.Decode(&claims); err != nil {
		return JWTVerdict{Why: "payload not a JSON object"}
	}
	v := JWTVerdict{Accept: true, Claims: claims}
	if e, has := claims["exp"]; has {
		f, isnum := numClaim(e)
		if !isnum {
			return JWTVerdict{Why: "exp malformed"}
		}
		if !(float64(now) < f) {
			return JWTVerdict{Why: "expired"}
		}
	}
	if e, has := claims["nbf"]; has {
		f, isnum := numClaim(e)
		if !isnum {
			return JWTVerdict{Why: "nbf malformed"}
		}
		if float64(now) < f {
			return JWTVerdict{Why: "not valid yet"}
		}
	}
	if e, has := claims["iat"]; has {
		f, isnum := numClaim(e)
		if !isnum || float64(now) < f {
			v.Soft = true // RFC 7519 makes iat informational; the statement does not say
		}
	}
	return v
}

// SameClaim compares what the handler found in its context with the claim of the token.
// Numbers: the literal itself (json.Number) or any numeric type denoting exactly the same
// number; a lossy float64 is a difference.
func SameClaim(got, want any) bool {
	switch w := want.(type) {
	case json.Number:
		switch g := got.(type) {
		case json.Number:
			if g == w {
				return true
			}
			a, ok1 := new(big.Rat).SetString(string(g))
			b, ok2 := new(big.Rat).SetString(string(w))
			return ok1 && ok2 && a.Cmp(b) == 0
		case float64:
			a := new(big.Rat)
			if a.SetFloat64(g) == nil {
				return false
			}
			b, ok := new(big.Rat).SetString(string(w))
			return ok && a.Cmp(b) == 0
		case int64:
			b, ok := new(big.Rat).SetString(string(w))
			return ok && new(big.Rat).SetInt64(g).Cmp(b) == 0
		}
		return false
	case []any:
		g, ok := got.([]any)
		if !ok || len(g) != len(w) {
			return false
		}
		for i := range w {
			if !SameClaim(g[i], w[i]) {
				return false
			}
		}
		return true
	case map[string]any:
		g, ok := got.(map[string]any)
		if !ok || len(g) != len(w) {
			return false
		}
		for k, x := range w {
			y, has := g[k]
			if !has || !SameClaim(y, x) {
				return false
			}
		}
		return true
	case nil:
		return got == nil
	default:
		return got == want
	}
}

// ------------------------------------------------------------------ JWT: generators

var (
	claimKeys = []string{"uid", "name", "role", "admin", "scope", "Exp", "EXP", "exp2", "Iat", "subject",
		"issuer", "data", "n", "", "k.v", "a b", "键", "Sub", "nbf "}
	numLits = []string{"0", "1", "-1", "42", "3.25", "1e3", "-0.5", "12345678901234567890",
		"9007199254740993", "1.5e300", "-0", "0.1", "1790000000"}
	textRunes = []rune("abcXYZ019 _-./:;=+\"\\<>&'{}[],\t键é\u2028")
	b64Alpha  = "ABCDEFGHIJKLMNOPQRSTUVWXYZabcdefghijklmnopqrstuvwxyz0123456789-_"
	flipAlpha = b64Alpha + "=+/. ~"
)

func genText(t *rapid.T, label string) string {
	return rapid.StringOfN(rapid.RuneFrom(textRunes), 0, 12, -1).Draw(t, label)
}

func genValue(t *rapid.T, depth int, label string) any {
	k := rapid.IntRange(0, 9).Draw(t, label+".kind")
	switch {
	case k <= 2:
		return genText(t, label+".s")
	case k <= 4:
		return json.Number(rapid.SampledFrom(numLits).Draw(t, label+".lit"))
	case k == 5:
		return json.Number(strconv.FormatInt(rapid.Int64().Draw(t, label+".i"), 10))
	case k == 6:
		return rapid.Bool().Draw(t, label+".b")
	case k == 7 && depth < 2:
		n := rapid.IntRange(0, 3).Draw(t, label+".len")
		arr := make([]any, 0, n)
		for i := 0; i < n; i++ {
			arr = append(arr, genValue(t, depth+1, fmt.Sprintf("%s[%d]", label, i)))
		}
		return arr
	case k == 8 && depth < 2:
		n := rapid.IntRange(0, 3).Draw(t, label+".len")
		obj := map[string]any{}
		for i := 0; i < n; i++ {
			key := rapid.SampledFrom(claimKeys).Draw(t, fmt.Sprintf("%s{%d}.k", label, i))
			obj[key] = genValue(t, depth+1, fmt.Sprintf("%s{%d}", label, i))
		}
		return obj
	}
	return genText(t, label+".s")
}

// GenSecret draws a secret of at least minLen bytes: printable, or arbitrary bytes.
// HMAC pads short keys with zero bytes, so "k" and "k\x00" are one and the same key: a
// generated secret never ends in a zero byte, which makes "different string" mean
// "different HMAC key" for every secret shorter than the hash block (64 bytes).
func GenSecret(t *rapid.T, label string, minLen int) string {
	var s string
	if rapid.IntRange(0, 3).Draw(t, label+".kind") == 0 {
		s = string(rapid.SliceOfN(rapid.Byte(), minLen, minLen+24).Draw(t, label+".bytes"))
	} else {
		s = rapid.StringOfN(rapid.RuneFrom([]rune(b64Alpha+" !#$%")), minLen, minLen+32, -1).Draw(t, label)
	}
	s = strings.TrimRight(s, "\x00")
	for len(s) < minLen || len(s) == 0 {
		s += "z"
	}
	return s
}

const (
	hour = int64(3600)
	year = 365 * 24 * hour
)

func genOffset(t *rapid.T, label string) int64 {
	// at least one hour away from now, up to ten years; edges preferred
	switch rapid.IntRange(0, 3).Draw(t, label+".mag") {
	case 0:
		return hour
	case 1:
		return rapid.Int64Range(hour, 2*hour).Draw(t, label)
	case 2:
		return rapid.Int64Range(hour, 30*24*hour).Draw(t, label)
	}
	return rapid.Int64Range(hour, 10*year).Draw(t, label)
}

func numLit(t *rapid.T, v int64, label string) json.Number {
	if rapid.IntRange(0, 4).Draw(t, label+".frac") == 0 {
		return json.Number(strconv.FormatInt(v, 10) + ".5")
	}
	return json.Number(strconv.FormatInt(v, 10))
}

// JWTReq is one generated request against a JWT-protected handler.
type JWTReq struct {
	Auth     string // Authorization header value; "" = header absent
	Mut      string // "" = no mutation
	Pristine bool   // exactly what the generator's signer produced, sent as "Bearer <token>"
	// WantValid: a pristine token built to be valid (configured secret, valid time claims).
	WantValid bool
	// NonTrivial: single-field mutation (or single invalid time claim / unconfigured
	// secret) of an otherwise valid credential.
	NonTrivial bool
	Claims     map[string]any
	Desc       string
}

// GenJWTReq draws a token and possibly one mutation of it.  prev == "" means that no
// previous secret is configured.
func GenJWTReq(t *rapid.T, secret, prev string, now int64) JWTReq {
	alg := rapid.SampledFrom([]string{"HS256", "HS384", "HS512"}).Draw(t, "alg")
	claims := map[string]any{}
	nc := rapid.IntRange(0, 4).Draw(t, "nclaims")
	for i := 0; i < nc; i++ {
		k := rapid.SampledFrom(claimKeys).Draw(t, fmt.Sprintf("claim%d.key", i))
		claims[k] = genValue(t, 0, fmt.Sprintf("claim%d", i))
	}
	// registered non-time claims are part of real tokens
	if rapid.IntRange(0, 2).Draw(t, "withStd") == 0 {
		claims["sub"] = genText(t, "sub")
		claims["iss"] = "issuer"
		claims["jti"] = "id-1"
		claims["aud"] = "aud"
	}

	timeDesc := "valid"
	timeValid, soft := true, false
	if rapid.IntRange(0, 99).Draw(t, "timeKind") < 78 {
		switch rapid.IntRange(0, 3).Draw(t, "expKind") {
		case 0: // no exp
		default:
			claims["exp"] = numLit(t, now+genOffset(t, "expOff"), "exp")
		}
		if rapid.IntRange(0, 2).Draw(t, "hasNbf") == 0 {
			claims["nbf"] = numLit(t, now-genOffset(t, "nbfOff"), "nbf")
		}
		if rapid.IntRange(0, 1).Draw(t, "hasIat") == 0 {
			claims["iat"] = numLit(t, now-genOffset(t, "iatOff"), "iat")
		}
	} else {
		// exactly one time claim on the invalid side, the others valid or absent
		if rapid.Bool().Draw(t, "keepIat") {
			claims["iat"] = numLit(t, now-hour, "iat")
		}
		switch rapid.IntRange(0, 4).Draw(t, "badTime") {
		case 0, 1:
			claims["exp"] = numLit(t, now-genOffset(t, "expOff"), "exp")
			timeDesc, timeValid = "expired", false
		case 2:
			claims["exp"] = numLit(t, now+genOffset(t, "expOff"), "exp")
			claims["nbf"] = numLit(t, now+genOffset(t, "nbfOff"), "nbf")
			timeDesc, timeValid = "nbf-future", false
		case 3:
			claims["exp"] = rapid.SampledFrom([]any{"never", true, "1999999999", []any{}}).Draw(t, "expBad")
			timeDesc, timeValid = "exp-malformed", false
		case 4:
			claims["exp"] = numLit(t, now+genOffset(t, "expOff"), "exp")
			claims["iat"] = numLit(t, now+genOffset(t, "iatOff"), "iat")
			timeDesc, soft = "iat-future", true
		}
	}

	payJSON, err := json.Marshal(claims)
	if err != nil {
		t.Fatalf("generator bug: claims do not marshal: %v", err)
	}
	hdrJSON := []byte(rapid.SampledFrom([]string{
		`{"alg":"%s","typ":"JWT"}`, `{"typ":"JWT","alg":"%s"}`, `{"alg":"%s"}`, `{"alg":"%s","typ":"JWT","kid":"k1"}`,
	}).Draw(t, "hdrForm"))
	hdrJSON = []byte(fmt.Sprintf(string(hdrJSON), alg))

	signer := "cur"
	key := []byte(secret)
	configured := true
	if rapid.IntRange(0, 2).Draw(t, "signer") == 0 {
		signer = "prev"
		if prev != "" {
			key = []byte(prev)
		} else {
			signer = "prev-unconfigured"
			key = []byte(GenSecret(t, "oldSecret", 1))
			if string(key) == secret {
				key = append(key, 'x')
			}
			configured = false
		}
	}
	tok := SignJWT(hdrJSON, payJSON, alg, key)
	r := JWTReq{Claims: claims}
	baseValid := configured && timeValid
	desc := fmt.Sprintf("alg=%s signer=%s time=%s claims=%s", alg, signer, timeDesc, payJSON)

	if !baseValid || soft || rapid.IntRange(0, 99).Draw(t, "mutate") < 38 {
		r.Auth = "Bearer " + tok
		r.Pristine = true
		r.WantValid = baseValid && !soft
		// a single invalid field of an otherwise valid credential
		r.NonTrivial = (configured != timeValid) && !soft
		r.Desc = desc + " mut=none"
		return r
	}

	segs := strings.Split(tok, ".")
	resign := func(h, p []byte, macAlg string, k []byte) string { return SignJWT(h, p, macAlg, k) }
	hdrWithAlg := func(a string) []byte { return []byte(fmt.Sprintf(`{"alg":%s,"typ":"JWT"}`, a)) }
	prefix := "Bearer "
	mut := rapid.SampledFrom([]string{
		"byte-flip", "byte-flip", "byte-ins", "byte-del",
		"resign-wrong", "resign-wrong", "resign-empty", "resign-near",
		"alg-none", "alg-none", "alg-asym", "alg-asym", "alg-hash-mismatch", "alg-unknown",
		"hdr-garbage", "payload-swap", "payload-swap", "segments", "prefix", "no-header",
		"sig-other-token",
	}).Draw(t, "mutation")
	detail := ""
	switch mut {
	case "byte-flip", "byte-ins", "byte-del":
		si := rapid.IntRange(0, 2).Draw(t, "seg")
		s := segs[si]
		switch mut {
		case "byte-flip":
			pos := rapid.IntRange(0, len(s)-1).Draw(t, "pos")
			if rapid.IntRange(0, 3).Draw(t, "atEnd") == 0 {
				pos = len(s) - 1
			}
			c := rapid.SampledFrom([]byte(flipAlpha)).Draw(t, "char")
			if c == s[pos] {
				c = flipAlpha[(strings.IndexByte(flipAlpha, c)+1)%len(flipAlpha)]
			}
			s = s[:pos] + string(c) + s[pos+1:]
			detail = fmt.Sprintf("seg%d@%d=%q", si, pos, c)
		case "byte-ins":
			pos := rapid.IntRange(0, len(s)).Draw(t, "pos")
			c := rapid.SampledFrom([]byte(flipAlpha)).Draw(t, "char")
			s = s[:pos] + string(c) + s[pos:]
			detail = fmt.Sprintf("seg%d@%d+%q", si, pos, c)
		case "byte-del":
			pos := rapid.IntRange(0, len(s)-1).Draw(t, "pos")
			s = s[:pos] + s[pos+1:]
			detail = fmt.Sprintf("seg%d@%d-", si, pos)
		}
		segs[si] = s
		tok = strings.Join(segs, ".")
	case "resign-wrong":
		k := []byte(GenSecret(t, "wrongSecret", 1))
		if string(k) == secret || string(k) == prev {
			k = append(k, '!')
		}
		tok = resign(hdrJSON, payJSON, alg, k)
	case "resign-empty":
		tok = resign(hdrJSON, payJSON, alg, nil)
	case "resign-near":
		which := rapid.IntRange(0, 4).Draw(t, "near")
		base := string(key)
		var k string
		switch which {
		case 0:
			k = base + "\x00"
		case 1:
			k = base[:len(base)-1]
		case 2:
			k = strings.ToUpper(base)
			if k == base {
				k = strings.ToLower(base)
			}
		case 3:
			k = " " + base
		default:
			k = base + base
		}
		if k == secret || (prev != "" && k == prev) {
			k += "~"
		}
		detail = fmt.Sprintf("near%d", which)
		tok = resign(hdrJSON, payJSON, alg, []byte(k))
	case "alg-none":
		name := rapid.SampledFrom([]string{"none", "none", "none", "None", "NONE", "nOnE"}).Draw(t, "noneName")
		h := hdrWithAlg(strconv.Quote(name))
		in := b64u(h) + "." + b64u(payJSON)
		switch rapid.IntRange(0, 3).Draw(t, "noneSig") {
		case 0, 3:
			tok = in + "."
		case 1:
			tok = in + "." + segs[2]
		default:
			tok = in + "." + b64u(hsMac("HS256", key, in))
		}
		detail = name
	case "alg-asym":
		name := rapid.SampledFrom([]string{"RS256", "RS384", "RS512", "ES256", "ES384", "ES512", "PS256", "EdDSA"}).Draw(t, "asymName")
		h := hdrWithAlg(strconv.Quote(name))
		in := b64u(h) + "." + b64u(payJSON)
		if rapid.Bool().Draw(t, "asymResign") {
			mac := rapid.SampledFrom([]string{"HS256", "HS384", "HS512"}).Draw(t, "asymMac")
			tok = in + "." + b64u(hsMac(mac, key, in))
		} else {
			tok = in + "." + segs[2]
		}
		detail = name
	case "alg-hash-mismatch":
		other := map[string][]string{"HS256": {"HS384", "HS512"}, "HS384": {"HS256", "HS512"}, "HS512": {"HS256", "HS384"}}[alg]
		mac := rapid.SampledFrom(other).Draw(t, "macAlg")
		tok = resign(hdrJSON, payJSON, mac, key)
		detail = "mac=" + mac
	case "alg-unknown":
		a := rapid.SampledFrom([]string{`"HS128"`, `"hs256"`, `"HS256 "`, `""`, `256`, `null`, `["HS256"]`, `"HMAC"`, `"HS-256"`}).Draw(t, "algText")
		h := hdrWithAlg(a)
		tok = resign(h, payJSON, "HS256", key)
		detail = a
	case "hdr-garbage":
		h := rapid.SampledFrom([]string{"not json", "[]", "null", `"HS256"`, "", `{"typ":"JWT"}`, `{"alg":"HS256"`, `{}`}).Draw(t, "hdrText")
		tok = resign([]byte(h), payJSON, "HS256", key)
		detail = h
	case "payload-swap":
		// change the claims, keep the signature of the original token
		c2 := map[string]any{}
		for k, v := range claims {
			c2[k] = v
		}
		switch rapid.IntRange(0, 2).Draw(t, "swapKind") {
		case 0:
			c2["admin"] = !(claims["admin"] == true)
			detail = "admin"
		case 1:
			c2["exp"] = json.Number(strconv.FormatInt(now+20*year, 10))
			detail = "exp"
		default:
			c2["uid"] = json.Number("1")
			if claims["uid"] == json.Number("1") {
				c2["uid"] = json.Number("2")
			}
			detail = "uid"
		}
		p2, _ := json.Marshal(c2)
		tok = segs[0] + "." + b64u(p2) + "." + segs[2]
	case "segments":
		which := rapid.IntRange(0, 7).Draw(t, "segKind")
		switch which {
		case 0:
			tok = segs[0] + "." + segs[1]
		case 1:
			tok = segs[0] + "." + segs[1] + "."
		case 2:
			tok = tok + "." + segs[2]
		case 3:
			tok = segs[0] + "." + segs[1] + "." + segs[1] + "." + segs[2]
		case 4:
			tok = ".."
		case 5:
			tok = segs[2]
		case 6:
			tok = segs[1] + "." + segs[0] + "." + segs[2]
		default:
			tok = "." + tok
		}
		detail = strconv.Itoa(which)
	case "prefix":
		prefix = rapid.SampledFrom([]string{"bearer ", "BEARER ", "", "Bearer  ", "Bearer\t", "Basic ", "Token ", "Bearer", "Bearer: ", " Bearer "}).Draw(t, "prefix")
		detail = strconv.Quote(prefix)
	case "no-header":
		which := rapid.IntRange(0, 3).Draw(t, "noHdr")
		prefix, tok = [][2]string{{"", ""}, {"Bearer", ""}, {"Bearer ", ""}, {"Bearer ", "null"}}[which][0],
			[][2]string{{"", ""}, {"Bearer", ""}, {"Bearer ", ""}, {"Bearer ", "null"}}[which][1]
		detail = strconv.Itoa(which)
	case "sig-other-token":
		// a genuine signature, but of another token (other claims) under the same secret
		p2, _ := json.Marshal(map[string]any{"uid": json.Number("7"), "exp": json.Number(strconv.FormatInt(now+year, 10))})
		other := SignJWT(hdrJSON, p2, alg, key)
		tok = segs[0] + "." + segs[1] + "." + strings.Split(other, ".")[2]
	}
	r.Auth = prefix + tok
	r.Mut = mut
	r.NonTrivial = true
	r.Desc = desc + " mut=" + mut
	if detail != "" {
		r.Desc += "(" + detail + ")"
	}
	return r
}

// ------------------------------------------------------------------ probe (the protected handler)

// Probe is the protected handler: it records that it ran and what it saw.
type Probe struct {
	mu       sync.Mutex
	Ran      int
	Req      *http.Request
	Body     []byte
	BodyErr  error
	Resp     []byte
	Chunks   int
	ReadBody bool
}

func (p *Probe) Reset(resp []byte, chunks int, readBody bool) {
	p.mu.Lock()
	defer p.mu.Unlock()
	p.Ran, p.Req, p.Body, p.BodyErr = 0, nil, nil, nil
	p.Resp, p.Chunks, p.ReadBody = resp, chunks, readBody
}

// RanCount tells how often the handler ran since Reset.
func (p *Probe) RanCount() int {
	p.mu.Lock()
	defer p.mu.Unlock()
	return p.Ran
}

// Seen returns what the handler read from r.Body.
func (p *Probe) Seen() ([]byte, error) {
	p.mu.Lock()
	defer p.mu.Unlock()
	return p.Body, p.BodyErr
}

func (p *Probe) ServeHTTP(w http.ResponseWriter, r *http.Request) {
	p.mu.Lock()
	defer p.mu.Unlock()
	p.Ran++
	p.Req = r
	if p.ReadBody && r.Body != nil {
		p.Body, p.BodyErr = io.ReadAll(r.Body)
	}
	resp := p.Resp
	n := p.Chunks
	if n < 1 {
		n = 1
	}
	for i := 0; i < n && len(resp) > 0; i++ {
		k := len(resp) / (n - i)
		if k == 0 {
			k = len(resp)
		}
		w.Write(resp[:k])
		resp = resp[k:]
	}
}

// ------------------------------------------------------------------ JWT case runner

// UnauthorizedCallback mirrors handler.UnauthorizedCallback.
type UnauthorizedCallback = func(w http.ResponseWriter, r *http.Request, err error)

// JWTBuild wraps inner with the JWT gate under test.  prev == "" ⇒ none configured.
type JWTBuild func(secret, prev string, cb UnauthorizedCallback, inner http.Handler) http.Handler

// RunJWTCase is one rapid case: one gate (secret, optional previous secret), a sequence
// of requests through it (so that the parser's per-secret history takes every order).
func RunJWTCase(t *rapid.T, st *verifkit.Stats, minSecret int, build JWTBuild) {
	secret := GenSecret(t, "secret", minSecret)
	prev := ""
	if rapid.IntRange(0, 2).Draw(t, "hasPrev") > 0 {
		prev = GenSecret(t, "prevSecret", 1)
		if prev == secret {
			prev += "p"
		}
	}
	cbKind := rapid.IntRange(0, 2).Draw(t, "callback")
	cbCalls := 0
	var cb UnauthorizedCallback
	switch cbKind {
	case 1:
		cb = func(w http.ResponseWriter, r *http.Request, err error) { cbCalls++ }
	case 2:
		cb = func(w http.ResponseWriter, r *http.Request, err error) {
			cbCalls++
			w.Header().Set("X-Reason", "denied")
		}
	}
	probe := &Probe{}
	gate := build(secret, prev, cb, probe)
	keys := [][]byte{[]byte(secret)}
	if prev != "" {
		keys = append(keys, []byte(prev))
	}
	var logb strings.Builder
	fmt.Fprintf(&logb, "secret=%q prev=%q cb=%d:", secret, prev, cbKind)
	n := rapid.IntRange(1, 6).Draw(t, "requests")
	nontrivial := false
	for i := 0; i < n; i++ {
		now0 := time.Now().Unix()
		req := GenJWTReq(t, secret, prev, now0)
		fmt.Fprintf(&logb, "\n  #%d %s auth=%q", i, req.Desc, req.Auth)
		hr := httptest.NewRequest(http.MethodGet, "http://c18.test/p", http.NoBody)
		if req.Auth != "" {
			hr.Header.Set("Authorization", req.Auth)
		}
		probe.Reset([]byte("ok"), 1, false)
		rec := httptest.NewRecorder()
		gate.ServeHTTP(rec, hr)
		now1 := time.Now().Unix()
		v0, v1 := RefJWT(req.Auth, keys, now0), RefJWT(req.Auth, keys, now1)
		if v0.Accept != v1.Accept {
			st.Note("jwt: verdict changed while the request was in flight (inconclusive)")
			continue
		}
		ref := v0
		cls := "mut:" + req.Mut
		if req.Mut == "" {
			cls = "pristine"
		}
		fail := func(format string, a ...any) {
			t.Fatalf("C18/JWT: %s\n reference: accept=%v soft=%v (%s)\n got: handlerRan=%d status=%d\n history: %s",
				fmt.Sprintf(format, a...), ref.Accept, ref.Soft, ref.Why, probe.Ran, rec.Code, logb.String())
		}
		if req.Pristine && req.WantValid && !(ref.Accept && !ref.Soft) {
			fail("generator bug: a token built to be valid is rejected by the reference")
		}
		if req.Pristine && !req.WantValid && ref.Accept && !ref.Soft {
			fail("generator bug: a token built to be invalid is accepted by the reference")
		}
		if probe.Ran > 1 {
			fail("handler ran %d times for one request", probe.Ran)
		}
		if probe.Ran == 1 && !ref.Accept {
			fail("handler ran for a request without a valid credential (statement: 'runs only if the request carries a token whose HMAC signature verifies under the current or previous secret and whose time claims are currently valid')")
		}
		if probe.Ran == 0 && rec.Code != http.StatusUnauthorized {
			fail("rejected request answered with %d, statement says 401", rec.Code)
		}
		if req.Pristine && ref.Accept && !ref.Soft && probe.Ran != 1 {
			fail("valid token (signed by the generator under a configured secret, time claims valid) was rejected")
		}
		if probe.Ran == 1 {
			ctx := probe.Req.Context()
			for k, want := range ref.Claims {
				if stdClaims[k] {
					continue
				}
				if got := ctx.Value(k); !SameClaim(got, want) {
					fail("claim %q: handler sees %#v (%T), token says %#v", k, got, got, want)
				}
			}
			if req.Pristine && !SameClaim(map[string]any(ref.Claims), req.Claims) {
				fail("generator bug: reference decoded claims %v differ from generated %v", ref.Claims, req.Claims)
			}
		}
		outcome := "401"
		if probe.Ran == 1 {
			outcome = "ran"
		}
		st.Class("jwt/" + cls + "/" + outcome)
		if ref.Soft {
			st.Class("jwt/soft(iat-future)/" + outcome)
		}
		if req.NonTrivial {
			nontrivial = true
		}
	}
	if nontrivial {
		st.NonTrivial(logb.String())
	}
}

// ------------------------------------------------------------------ content security: reference

// CSConf is the server-side configuration of one strict content-security gate.
type CSConf struct {
	TolSec   int64
	FpA, FpB string // fingerprints under which env.A / env.B are configured
}

// Route is a (method, path) pair the runner will send requests to.
type Route struct{ Method, Path string }

func parseAttrs(s string) map[string]string {
	out := map[string]string{}
	for _, f := range strings.Split(s, ";") {
		f = strings.TrimSpace(f)
		if f == "" {
			continue
		}
		i := strings.IndexByte(f, '=')
		if i < 0 {
			continue
		}
		out[f[:i]] = f[i+1:]
	}
	return out
}

// CSVerdict is the reference answer for a signed request.
type CSVerdict struct {
	Accept    bool
	Why       string
	Key       []byte
	Encrypted bool
}

func sigString(ts, method, path, query string, body []byte) string {
	d := sha256.Sum256(body)
	return strings.Join([]string{ts, method, path, query, hex.EncodeToString(d[:])}, "\n")
}

func csSign(key []byte, s string) string {
	m := hmac.New(sha256.New, key)
	io.WriteString(m, s)
	return base64.StdEncoding.EncodeToString(m.Sum(nil))
}

// RefCS decides from the statement: the signature must cover exactly the request's
// timestamp (within tolerance), method, path, query and body digest, under the secret
// that was encrypted to a configured key.
func RefCS(env *Env, conf CSConf, header string, hasHeader bool, method, path, query string, body []byte, now int64) CSVerdict {
	keys := map[string]*rsa.PrivateKey{conf.FpB: env.B.Priv}
	keys[conf.FpA] = env.A.Priv // A wins if both fingerprints were equal (they never are)
	return RefCSKeys(keys, conf.TolSec, header, hasHeader, method, path, query, body, now)
}

// RefCSKeys is RefCS for an arbitrary configured key set (fingerprint -> private key) and
// tolerance.
func RefCSKeys(keys map[string]*rsa.PrivateKey, tolSec int64, header string, hasHeader bool, method, path, query string, body []byte, now int64) CSVerdict {
	if !hasHeader {
		return CSVerdict{Why: "no X-Content-Security header"}
	}
	at := parseAttrs(header)
	fp, secret, sig := at["key"], at["secret"], at["signature"]
	if fp == "" || secret == "" || sig == "" {
		return CSVerdict{Why: "header lacks key/secret/signature"}
	}
	priv, okKey := keys[fp]
	if !okKey {
		return CSVerdict{Why: "fingerprint names no configured key"}
	}
	ct, err := base64.StdEncoding.DecodeString(secret)
	if err != nil {
		return CSVerdict{Why: "secret not base64"}
	}
	pt, err := rsaDecryptBlocks(priv, ct)
	if err != nil {
		return CSVerdict{Why: "secret does not decrypt under the named key"}
	}
	sa := parseAttrs(string(pt))
	key, err := base64.StdEncoding.DecodeString(sa["key"])
	if err != nil {
		return CSVerdict{Why: "key in secret not base64"}
	}
	typ, err := strconv.Atoi(sa["type"])
	if err != nil {
		return CSVerdict{Why: "type in secret not a number"}
	}
	ts := sa["time"]
	sec, err := strconv.ParseInt(ts, 10, 64)
	if err != nil {
		return CSVerdict{Why: "time in secret not a number"}
	}
	if sec < now-tolSec || sec > now+tolSec { // (no subtraction of sec: it may be any int64)
		return CSVerdict{Why: fmt.Sprintf("timestamp %d, now %d, tolerance %d s", sec, now, tolSec)}
	}
	want := csSign(key, sigString(ts, method, path, query, body))
	if sig != want {
		a, e1 := base64.StdEncoding.DecodeString(sig)
		b, _ := base64.StdEncoding.DecodeString(want)
		if e1 != nil || !hmac.Equal(a, b) {
			return CSVerdict{Why: "signature does not cover this timestamp/method/path/query/body"}
		}
	}
	return CSVerdict{Accept: true, Key: key, Encrypted: typ == 1}
}

// ------------------------------------------------------------------ content security: generator

// CSReq is one generated request against a strict content-security gate.
type CSReq struct {
	Method, Path, Query string
	Body                []byte // bytes on the wire
	Header              string
	HasHeader           bool
	Mut                 string
	Pristine            bool
	WantValid           bool
	Encrypted           bool   // type=1 in the secret
	BodyEncrypted       bool   // Body is base64(AES-ECB(payload))
	Payload             []byte // what the client means to send
	AESKey              []byte
	Resp                []byte
	RespChunks          int
	EmptyEncrypted      bool   // signature of the known finding D12
	GenNow              int64  // the instant the timestamp was chosen against
	Shape               string // transport shape (ShapeSized, ...)
	UnknownLenEncrypted bool   // signature of the known finding D19
	Desc                string
}

var (
	pathSegs   = []string{"a", "b", "api", "v1", "users", "42", "x-y", "A", "orders", "q"}
	queryForms = []string{"", "", "a=1", "a=1&b=2", "b=2&a=1", "q=hello%20world", "x=%2F&y=+", "a=1&a=2", "flag", "k=v=w", "t=1790000000"}
	methods    = []string{http.MethodGet, http.MethodPost, http.MethodPut, http.MethodDelete}
	payloadLen = []int{0, 0, 1, 5, 15, 16, 17, 31, 32, 33, 48, 64, 100, 255, 256, 1000}
)

func genPath(t *rapid.T, label string) string {
	n := rapid.IntRange(0, 3).Draw(t, label+".n")
	p := ""
	for i := 0; i < n; i++ {
		p += "/" + rapid.SampledFrom(pathSegs).Draw(t, fmt.Sprintf("%s[%d]", label, i))
	}
	if p == "" {
		p = "/"
	}
	return p
}

func genBytes(t *rapid.T, label string, big bool) []byte {
	n := rapid.SampledFrom(payloadLen).Draw(t, label+".len")
	if big && rapid.IntRange(0, 19).Draw(t, label+".big") == 0 {
		n = rapid.IntRange(1000, 6000).Draw(t, label+".biglen")
	}
	if n == 0 {
		return nil
	}
	switch rapid.IntRange(0, 2).Draw(t, label+".kind") {
	case 0: // text
		return bytes.Repeat([]byte(`{"k":"v"} `), n/10+1)[:n]
	case 1: // bytes that look like padding
		c := byte(rapid.IntRange(0, 16).Draw(t, label+".fill"))
		return bytes.Repeat([]byte{c}, n)
	}
	return rapid.SliceOfN(rapid.Byte(), n, n).Draw(t, label+".bytes")
}

// CSGenOpt tunes the generator.
type CSGenOpt struct {
	// ExcludeEmptyEncrypted: the known finding D12 is listed; do not generate its
	// signature (an empty payload sent as an encrypted body).
	ExcludeEmptyEncrypted bool
	// UseCodecEncrypter, if set, encrypts the secret with go-zero's own client-side
	// codec.RsaEncrypter (half of the cases) instead of the stdlib reference.
	CodecEncrypt func(pubPEM, msg []byte) ([]byte, error)
	// ExcludeUnknownLenEncrypted: the known finding D19 is listed; a valid request with
	// an encrypted body is only sent with a declared length.
	ExcludeUnknownLenEncrypted bool
	// Wire, if set, sends every request through a real HTTP server instead of calling the
	// gate in process.
	Wire *WireTarget
	// FixMethod / FixPath, if set, are the method and path the client signs (nothing is
	// drawn for them): the multi-group engine units aim every request at a registered route.
	FixMethod, FixPath string
	// AltRoutes, if set, are other registered routes: the "method" and "path" mutations
	// then mostly send the signed request to one of them (same signature, other route —
	// possibly a route of another group) instead of to an arbitrary other method/path.
	AltRoutes []Route
}

type csParts struct {
	method, path, query string
	body                []byte
	ts                  string
	typ                 string
	key                 []byte
	rsa                 *RSAKey
	fp                  string
	sig                 string
	version             bool
	order               int
}

func (p *csParts) secretText() string {
	f := []string{"type=" + p.typ, "key=" + base64.StdEncoding.EncodeToString(p.key), "time=" + p.ts}
	switch p.order {
	case 1:
		f[0], f[2] = f[2], f[0]
	case 2:
		f[0], f[1] = f[1], f[0]
	}
	if p.version {
		f = append([]string{"version=v1"}, f...)
	}
	return strings.Join(f, "; ")
}

// GenCSReq draws a signed request, possibly one mutation of it, and the transport shape
// it is sent with.
func GenCSReq(t *rapid.T, st *verifkit.Stats, env *Env, conf CSConf, now int64, opt CSGenOpt) CSReq {
	r := genCSReqLogical(t, st, env, conf, now, opt)
	mix := shapeMix
	if r.Mut == "body-replay" && len(r.Body) > 0 {
		mix = shapeMixUnknown // an unsigned body appended to a body-less signed request
	}
	r.Shape = rapid.SampledFrom(mix).Draw(t, "shape")
	if r.Pristine && r.WantValid && r.BodyEncrypted && r.Shape != ShapeSized {
		if opt.ExcludeUnknownLenEncrypted {
			st.Excluded()
			r.Shape = ShapeSized
		} else {
			r.UnknownLenEncrypted = true
		}
	}
	r.Desc += " shape=" + r.Shape
	return r
}

func genCSReqLogical(t *rapid.T, st *verifkit.Stats, env *Env, conf CSConf, now int64, opt CSGenOpt) CSReq {
	p := &csParts{}
	if opt.FixMethod != "" {
		p.method = opt.FixMethod
	} else {
		p.method = rapid.SampledFrom(methods).Draw(t, "method")
	}
	if opt.FixPath != "" {
		p.path = opt.FixPath
	} else {
		p.path = genPath(t, "path")
	}
	p.query = rapid.SampledFrom(queryForms).Draw(t, "query")
	encrypted := rapid.IntRange(0, 1).Draw(t, "type") == 1
	p.typ = "0"
	if encrypted {
		p.typ = "1"
	}
	keyLen := rapid.SampledFrom([]int{16, 24, 32}).Draw(t, "keyLen")
	if !encrypted && rapid.IntRange(0, 3).Draw(t, "oddKey") == 0 {
		keyLen = rapid.SampledFrom([]int{1, 7, 20, 33, 64}).Draw(t, "oddKeyLen")
	}
	p.key = rapid.SliceOfN(rapid.Byte(), keyLen, keyLen).Draw(t, "aesKey")
	payload := genBytes(t, "payload", true)
	if p.method == http.MethodGet || p.method == http.MethodDelete {
		if rapid.IntRange(0, 3).Draw(t, "bodyless") > 0 {
			payload = nil
		}
	}
	r := CSReq{Encrypted: encrypted, Payload: payload, AESKey: p.key, GenNow: now}
	p.body = payload
	if encrypted {
		sendEncrypted := len(payload) > 0
		if len(payload) == 0 && rapid.Bool().Draw(t, "encryptEmpty") {
			if opt.ExcludeEmptyEncrypted {
				st.Excluded()
			} else {
				sendEncrypted = true
				r.EmptyEncrypted = true
			}
		}
		if sendEncrypted {
			ct, err := ECBEncrypt(p.key, payload)
			if err != nil {
				t.Fatalf("generator bug: %v", err)
			}
			p.body = []byte(base64.StdEncoding.EncodeToString(ct))
			r.BodyEncrypted = true
		}
	}
	r.Resp = genBytes(t, "resp", false)
	r.RespChunks = rapid.IntRange(1, 3).Draw(t, "respChunks")

	tol := conf.TolSec
	timeDesc := "inside"
	var off int64
	timeValid := true
	tk := rapid.IntRange(0, 99).Draw(t, "timeKind")
	switch {
	case tk < 25:
		off = 0
	case tk < 55:
		off = rapid.Int64Range(-(tol-5), tol-5).Draw(t, "tsOff")
	case tk < 70:
		off = tol - 5
		timeDesc = "inside-edge-future"
	case tk < 85:
		off = -(tol - 5)
		timeDesc = "inside-edge-past"
	default:
		timeValid = false
		far := rapid.SampledFrom([]int64{0, 0, 1, 60, 3600, year}).Draw(t, "tsFar")
		off = tol + 5 + far
		timeDesc = "outside-future"
		if rapid.Bool().Draw(t, "tsPast") {
			off = -off
			timeDesc = "outside-past"
		}
	}
	p.ts = strconv.FormatInt(now+off, 10)
	if !timeValid && rapid.IntRange(0, 2).Draw(t, "tsExtreme") == 0 {
		// an extreme of the legal range of the field (any int64): centuries away, where durations overflow
		p.ts = rapid.SampledFrom([]string{"0", "-1", "99999999999", "11000000000", "1000000000000000", "9223372036854775807",
			"9223372036854775806", "-9223372036854775808", "-9223372036854775807", "9223372030000000000", "-62135596801", "253402300800"}).Draw(t, "tsAbs")
		timeDesc = "outside-extreme(" + p.ts + ")"
	}
	p.rsa, p.fp = env.A, conf.FpA
	rsaName := "A"
	if rapid.IntRange(0, 3).Draw(t, "rsaKey") == 0 {
		p.rsa, p.fp = env.B, conf.FpB
		rsaName = "B"
	}
	p.version = rapid.IntRange(0, 3).Draw(t, "version") > 0
	p.order = rapid.IntRange(0, 2).Draw(t, "order")
	p.sig = csSign(p.key, sigString(p.ts, p.method, p.path, p.query, p.body))

	useCodec := opt.CodecEncrypt != nil && rapid.Bool().Draw(t, "codecEncrypter")
	encSecret := func(k *RSAKey, text string) string {
		var ct []byte
		var err error
		if useCodec {
			ct, err = opt.CodecEncrypt(k.PubPEM, []byte(text))
		} else {
			ct, err = rsaEncryptBlocks(&k.Priv.PublicKey, []byte(text))
		}
		if err != nil {
			t.Fatalf("generator bug: rsa encrypt: %v", err)
		}
		return base64.StdEncoding.EncodeToString(ct)
	}
	secret := encSecret(p.rsa, p.secretText())
	header := func(fp, secret, sig string) string {
		return "key=" + fp + "; secret=" + secret + "; signature=" + sig
	}

	desc := fmt.Sprintf("%s %s?%s type=%s key=%dB rsa=%s body=%dB(enc=%v,payload=%dB) resp=%dB/%d ts=%s(%+ds)",
		p.method, p.path, p.query, p.typ, len(p.key), rsaName, len(p.body), r.BodyEncrypted, len(payload), len(r.Resp), r.RespChunks, timeDesc, off)

	r.Method, r.Path, r.Query, r.Body = p.method, p.path, p.query, p.body
	r.Header, r.HasHeader = header(p.fp, secret, p.sig), true

	if !timeValid || rapid.IntRange(0, 99).Draw(t, "mutate") < 40 {
		r.Pristine = true
		r.WantValid = timeValid
		r.Mut = ""
		if !timeValid {
			r.Mut = "ts-" + timeDesc
		}
		r.Desc = desc + " mut=none"
		return r
	}

	mut := rapid.SampledFrom([]string{
		"method", "path", "path", "query", "query", "body", "body", "body-replay", "body-replay",
		"ts-resecret", "ts-resecret", "fp-unknown", "fp-other", "rsa-unconfigured",
		"sig-flip", "sig-trunc", "sig-wrongkey", "sig-otherhash", "key-resecret",
		"hdr-missing", "hdr-drop-field", "hdr-garbage", "secret-garbage",
		"signing-omit", "signing-omit",
	}).Draw(t, "mutation")
	detail := ""
	if (mut == "method" || mut == "path") && len(opt.AltRoutes) > 0 && rapid.IntRange(0, 3).Draw(t, "altRoute") > 0 {
		// the same signed request sent to another registered route
		var alts []Route
		for _, a := range opt.AltRoutes {
			if (mut == "method" && a.Path == p.path && a.Method != p.method) || (mut == "path" && a.Path != p.path) {
				alts = append(alts, a)
			}
		}
		if len(alts) > 0 {
			a := alts[rapid.IntRange(0, len(alts)-1).Draw(t, "altRouteIdx")]
			r.Method, r.Path = a.Method, a.Path
			r.Mut = mut
			r.Desc = desc + " mut=" + mut + "(registered " + a.Method + " " + a.Path + ")"
			return r
		}
	}
	switch mut {
	case "method":
		var others []string
		for _, m := range methods {
			if m != p.method {
				others = append(others, m)
			}
		}
		r.Method = rapid.SampledFrom(others).Draw(t, "method2")
		detail = r.Method
	case "path":
		switch rapid.IntRange(0, 4).Draw(t, "pathEdit") {
		case 0:
			r.Path = strings.TrimSuffix(p.path, "/") + "/" + rapid.SampledFrom(pathSegs).Draw(t, "seg2")
		case 1:
			r.Path = "/admin" + strings.TrimSuffix(p.path, "/")
		case 2:
			if p.path == "/" {
				r.Path = "/a"
			} else {
				r.Path = p.path[:strings.LastIndexByte(p.path, '/')]
				if r.Path == "" {
					r.Path = "/"
				}
			}
		case 3:
			if strings.ToUpper(p.path) != p.path {
				r.Path = strings.ToUpper(p.path)
			} else if strings.ToLower(p.path) != p.path {
				r.Path = strings.ToLower(p.path)
			} else {
				r.Path = p.path + "0"
			}
		default:
			r.Path = genPath(t, "path2")
			if r.Path == p.path {
				r.Path = strings.TrimSuffix(p.path, "/") + "/z"
			}
		}
		detail = r.Path
	case "query":
		r.Query = rapid.SampledFrom(queryForms).Draw(t, "query2")
		if r.Query == p.query {
			if p.query == "" {
				r.Query = "admin=1"
			} else {
				r.Query = p.query + "&admin=1"
			}
		}
		detail = r.Query
	case "body":
		b := append([]byte(nil), p.body...)
		kind := rapid.IntRange(0, 3).Draw(t, "bodyEdit")
		switch {
		case len(b) == 0:
			b = []byte("x")
		case kind == 0:
			pos := rapid.IntRange(0, len(b)-1).Draw(t, "bodyPos")
			b[pos] ^= byte(rapid.IntRange(1, 255).Draw(t, "bodyXor"))
		case kind == 1:
			b = append(b, 'A')
		case kind == 2:
			b = b[:len(b)-1]
		default:
			b = nil
		}
		r.Body = b
		detail = fmt.Sprintf("%dB", len(b))
	case "body-replay":
		// the signature of a body-less request replayed with a body, or the signature of a
		// request with a body replayed without one
		if len(p.body) == 0 {
			b := genBytes(t, "attackerBody", false)
			if len(b) == 0 {
				b = []byte(`{"transfer":"everything","to":"mallory"}`)
			}
			r.Body = b
			detail = fmt.Sprintf("added %dB", len(b))
		} else {
			r.Body = nil
			detail = "removed"
		}
	case "ts-resecret":
		// another timestamp (still inside the tolerance) in a re-encrypted secret, old signature
		d := rapid.SampledFrom([]int64{1, -1, 2, -3}).Draw(t, "tsDelta")
		if o := off + d; o > tol-4 || o < -(tol-4) {
			d = -d
		}
		q := *p
		q.ts = strconv.FormatInt(now+off+d, 10)
		r.Header = header(p.fp, encSecret(p.rsa, q.secretText()), p.sig)
		detail = fmt.Sprintf("%+d", d)
	case "fp-unknown":
		fp := rapid.SampledFrom([]string{"nobody", p.fp + "x", strings.ToUpper(p.fp) + "_", "0"}).Draw(t, "fp2")
		if fp == conf.FpA || fp == conf.FpB {
			fp += "#"
		}
		r.Header = header(fp, secret, p.sig)
		detail = fp
	case "fp-other":
		fp := conf.FpB
		if p.fp == conf.FpB {
			fp = conf.FpA
		}
		r.Header = header(fp, secret, p.sig)
	case "rsa-unconfigured":
		r.Header = header(p.fp, encSecret(env.X, p.secretText()), p.sig)
	case "sig-flip":
		pos := rapid.IntRange(0, len(p.sig)-1).Draw(t, "sigPos")
		c := rapid.SampledFrom([]byte("ABCDEFGHIJKLMNOPQRSTUVWXYZabcdefghijklmnopqrstuvwxyz0123456789+/")).Draw(t, "sigChar")
		if c == p.sig[pos] {
			c = 'A' + (c-'A'+1)%26
		}
		r.Header = header(p.fp, secret, p.sig[:pos]+string(c)+p.sig[pos+1:])
		detail = fmt.Sprintf("@%d", pos)
	case "sig-trunc":
		n := rapid.IntRange(1, len(p.sig)-1).Draw(t, "sigLen")
		r.Header = header(p.fp, secret, p.sig[:n])
		detail = strconv.Itoa(n)
	case "sig-wrongkey":
		k2 := append([]byte(nil), p.key...)
		k2[rapid.IntRange(0, len(k2)-1).Draw(t, "keyPos")] ^= 1
		r.Header = header(p.fp, secret, csSign(k2, sigString(p.ts, p.method, p.path, p.query, p.body)))
	case "sig-otherhash":
		s := sigString(p.ts, p.method, p.path, p.query, p.body)
		var sum []byte
		switch rapid.IntRange(0, 2).Draw(t, "otherHash") {
		case 0:
			d := sha256.Sum256([]byte(s))
			sum = d[:]
		case 1:
			m := hmac.New(sha1.New, p.key)
			io.WriteString(m, s)
			sum = m.Sum(nil)
		default:
			m := hmac.New(sha512.New, p.key)
			io.WriteString(m, s)
			sum = m.Sum(nil)[:32]
		}
		r.Header = header(p.fp, secret, base64.StdEncoding.EncodeToString(sum))
	case "key-resecret":
		q := *p
		q.key = append([]byte(nil), p.key...)
		q.key[0] ^= 0x80
		r.Header = header(p.fp, encSecret(p.rsa, q.secretText()), p.sig)
	case "hdr-missing":
		r.Header, r.HasHeader = "", false
	case "hdr-drop-field":
		switch rapid.IntRange(0, 2).Draw(t, "dropField") {
		case 0:
			r.Header = "secret=" + secret + "; signature=" + p.sig
			detail = "key"
		case 1:
			r.Header = "key=" + p.fp + "; signature=" + p.sig
			detail = "secret"
		default:
			r.Header = "key=" + p.fp + "; secret=" + secret
			detail = "signature"
		}
	case "hdr-garbage":
		r.Header = rapid.SampledFrom([]string{"garbage", "key=; secret=; signature=", ";;;", "key=" + p.fp, "signature=" + p.sig + "; signature=" + p.sig}).Draw(t, "hdrText")
		detail = r.Header
	case "secret-garbage":
		var s string
		switch rapid.IntRange(0, 3).Draw(t, "secretKind") {
		case 0:
			s = "not*base64"
		case 1:
			s = base64.StdEncoding.EncodeToString(bytes.Repeat([]byte{7}, p.rsa.Priv.Size()))
		case 2:
			s = secret[:len(secret)/2]
		default:
			s = base64.StdEncoding.EncodeToString([]byte(p.secretText())) // secret in the clear
		}
		r.Header = header(p.fp, s, p.sig)
	case "signing-omit":
		d := sha256.Sum256(p.body)
		parts := []string{p.ts, p.method, p.path, p.query, hex.EncodeToString(d[:])}
		which := rapid.IntRange(0, 6).Draw(t, "omit")
		var s string
		switch which {
		case 0, 1, 2, 3, 4:
			parts[which] = ""
			s = strings.Join(parts, "\n")
		case 5:
			s = strings.Join(parts, "")
		default:
			parts[2], parts[3] = parts[3], parts[2]
			s = strings.Join(parts, "\n")
		}
		if s == sigString(p.ts, p.method, p.path, p.query, p.body) {
			s += "\n"
		}
		r.Header = header(p.fp, secret, csSign(p.key, s))
		detail = strconv.Itoa(which)
	}
	r.Mut = mut
	r.Desc = desc + " mut=" + mut
	if detail != "" {
		r.Desc += "(" + detail + ")"
	}
	return r
}

// ------------------------------------------------------------------ content security: case runner

// CSBuild wraps inner with a strict content-security gate under test.  keyFiles maps
// fingerprint → private key file; routes lists every (method, path) that will be sent.
type CSBuild func(conf CSConf, keyFiles map[string]string, routes []Route, inner http.Handler) http.Handler

func target(path, query string) string {
	u := "http://c18.test" + path
	if query != "" {
		u += "?" + query
	}
	return u
}

// SendCS performs the request (in process, or over the wire if opt.Wire is set) and
// checks it against the reference.  It returns a description of the violated clause
// ("" if none) and, if the failure is exactly the signature of a finding that may be
// listed as known, that finding's id.
func SendCS(env *Env, conf CSConf, gate http.Handler, probe *Probe, req CSReq, st *verifkit.Stats, wire *WireTarget) (problem string, defect string, inconclusive bool) {
	if req.Shape == "" {
		req.Shape = ShapeSized
	}
	body, cl := shapedBody(req.Shape, req.Body)
	probe.Reset(req.Resp, req.RespChunks, true)
	var code int
	var respBody []byte
	now0 := time.Now().Unix()
	if wire == nil {
		hr := httptest.NewRequest(req.Method, target(req.Path, req.Query), body)
		hr.ContentLength = cl
		if hr.URL.Path != req.Path || hr.URL.RawQuery != req.Query {
			return fmt.Sprintf("generator bug: request line parsed to path %q query %q", hr.URL.Path, hr.URL.RawQuery), "", false
		}
		if req.HasHeader {
			hr.Header.Set("X-Content-Security", req.Header)
		}
		rec := httptest.NewRecorder()
		gate.ServeHTTP(rec, hr)
		code, respBody = rec.Code, rec.Body.Bytes()
	} else {
		wire.SetHandler(gate)
		u := wire.srv.URL + req.Path
		if req.Query != "" {
			u += "?" + req.Query
		}
		hr, err := http.NewRequest(req.Method, u, body)
		if err != nil {
			return "generator bug: " + err.Error(), "", false
		}
		hr.ContentLength = cl
		if req.HasHeader {
			hr.Header.Set("X-Content-Security", req.Header)
		}
		resp, err := wire.Client.Do(hr)
		if err != nil {
			if ne, ok := err.(interface{ Timeout() bool }); ok && ne.Timeout() {
				return "", "", true
			}
			return fmt.Sprintf("transport error (did the gate panic?): %v", err), "", false
		}
		respBody, err = io.ReadAll(resp.Body)
		resp.Body.Close()
		if err != nil {
			return fmt.Sprintf("transport error while reading the response: %v", err), "", false
		}
		code = resp.StatusCode
	}
	now1 := time.Now().Unix()
	// the body digest is that of the bytes the handler can read from r.Body: req.Body
	v0 := RefCS(env, conf, req.Header, req.HasHeader, req.Method, req.Path, req.Query, req.Body, now0)
	v1 := RefCS(env, conf, req.Header, req.HasHeader, req.Method, req.Path, req.Query, req.Body, now1)
	if v0.Accept != v1.Accept || now1-req.GenNow > 3 {
		return "", "", true
	}
	ref := v0
	ran := probe.RanCount()
	pf := func(format string, a ...any) string {
		return fmt.Sprintf("%s\n reference: accept=%v (%s)\n got: handlerRan=%d status=%d respLen=%d shape=%s bodyOnWire=%dB",
			fmt.Sprintf(format, a...), ref.Accept, ref.Why, ran, code, len(respBody), req.Shape, len(req.Body))
	}
	outcome := strconv.Itoa(code)
	if ran == 1 {
		outcome = "ran"
	}
	cls := "mut:" + req.Mut
	if req.Mut == "" {
		cls = "pristine"
	}
	if st != nil {
		st.Class("cs/" + cls + "/" + outcome)
		bodyKind := "empty-body"
		if len(req.Body) > 0 {
			bodyKind = "body"
		}
		st.Class("cs/shape:" + req.Shape + "/" + bodyKind + "/" + outcome)
	}
	if req.Pristine && req.WantValid != ref.Accept {
		return pf("generator bug: request built with valid=%v, reference says accept=%v", req.WantValid, ref.Accept), "", false
	}
	if ran > 1 {
		return pf("handler ran %d times for one request", ran), "", false
	}
	if ran == 1 && !ref.Accept {
		seen := ""
		if b, _ := probe.Seen(); len(b) > 0 {
			seen = fmt.Sprintf("; the handler read %d bytes %q", len(b), clip(b))
		}
		return pf("handler ran although the signature does not cover this request%s (statement: 'runs only if the signature covers exactly the request's timestamp (within tolerance), method, path, query and body digest under a secret encrypted to a configured key')", seen), "", false
	}
	if ran == 0 && !ref.Accept && code != http.StatusForbidden {
		return pf("rejected request answered with %d, strict mode answers 403", code), "", false
	}
	if !(req.Pristine && ref.Accept) {
		return "", "", false
	}
	// a request exactly as a conforming client builds it
	if ran != 1 {
		msg := pf("correctly signed request (all components covered, timestamp inside the tolerance, secret encrypted to a configured key) did not reach the handler")
		if req.EmptyEncrypted && code == http.StatusBadRequest {
			return msg, KnownEmptyPayload, false
		}
		return msg, "", false
	}
	seenBody, bodyErr := probe.Seen()
	if bodyErr != nil {
		return pf("handler could not read the body: %v", bodyErr), "", false
	}
	if req.BodyEncrypted {
		if !bytes.Equal(seenBody, req.Payload) {
			msg := pf("encrypted body did not reach the handler decrypted: handler read %d bytes %q, payload was %d bytes %q (statement: 'an encrypted body reaches the handler decrypted ... round-tripping any payload')",
				len(seenBody), clip(seenBody), len(req.Payload), clip(req.Payload))
			switch {
			case req.UnknownLenEncrypted && bytes.Equal(seenBody, req.Body):
				return msg, KnownUnknownLength, false
			case req.EmptyEncrypted:
				return msg, KnownEmptyPayload, false
			}
			return msg, "", false
		}
		// the response must come back encrypted under the same key
		got := respBody
		if len(got) == 0 {
			if len(req.Resp) != 0 {
				return pf("response of %d bytes came back empty", len(req.Resp)), "", false
			}
		} else {
			ct, err := base64.StdEncoding.DecodeString(string(got))
			if err != nil {
				return pf("response is not base64 (returned in the clear?): %q", clip(got)), "", false
			}
			pt, err := ECBDecrypt(req.AESKey, ct)
			if err != nil {
				return pf("response does not decrypt under the request key: %v", err), "", false
			}
			if !bytes.Equal(pt, req.Resp) {
				return pf("decrypted response %q differs from what the handler wrote %q", clip(pt), clip(req.Resp)), "", false
			}
		}
	} else {
		if !bytes.Equal(seenBody, req.Body) {
			return pf("plain body changed on its way to the handler: read %q, sent %q", clip(seenBody), clip(req.Body)), "", false
		}
	}
	return "", "", false
}

func clip(b []byte) string {
	if len(b) > 48 {
		return string(b[:48]) + "…"
	}
	return string(b)
}

var fpAlphabet = []rune("abcdefghijklmnopqrstuvwxyzABCDEF0123456789:-_/+")

// GenCSConf draws a gate configuration.
func GenCSConf(t *rapid.T) CSConf {
	conf := CSConf{TolSec: rapid.SampledFrom([]int64{10, 30, 60, 3600, 86400}).Draw(t, "toleranceSec")}
	conf.FpA = rapid.StringOfN(rapid.RuneFrom(fpAlphabet), 1, 24, -1).Draw(t, "fpA")
	conf.FpB = rapid.StringOfN(rapid.RuneFrom(fpAlphabet), 1, 24, -1).Draw(t, "fpB")
	if conf.FpB == conf.FpA {
		conf.FpB += "2"
	}
	return conf
}

// RunCSCase is one rapid case: one strict gate with two configured keys, a few requests.
func RunCSCase(t *rapid.T, st *verifkit.Stats, env *Env, opt CSGenOpt, build CSBuild) {
	conf := GenCSConf(t)
	n := rapid.IntRange(1, 3).Draw(t, "requests")
	now := time.Now().Unix()
	reqs := make([]CSReq, 0, n)
	seen := map[Route]bool{}
	var routes []Route
	for i := 0; i < n; i++ {
		r := GenCSReq(t, st, env, conf, now, opt)
		reqs = append(reqs, r)
		if rt := (Route{r.Method, r.Path}); !seen[rt] {
			seen[rt] = true
			routes = append(routes, rt)
		}
	}
	sort.Slice(routes, func(i, j int) bool {
		if routes[i].Path != routes[j].Path {
			return routes[i].Path < routes[j].Path
		}
		return routes[i].Method < routes[j].Method
	})
	probe := &Probe{}
	gate := build(conf, map[string]string{conf.FpA: env.A.PrivFile, conf.FpB: env.B.PrivFile}, routes, probe)
	var logb strings.Builder
	fmt.Fprintf(&logb, "tolerance=%ds fpA=%q fpB=%q:", conf.TolSec, conf.FpA, conf.FpB)
	nontrivial := false
	for i, r := range reqs {
		fmt.Fprintf(&logb, "\n  #%d %s", i, r.Desc)
		problem, _, inconclusive := SendCS(env, conf, gate, probe, r, st, opt.Wire)
		if inconclusive {
			st.Note("cs: more than 3 s between choosing the timestamp and the answer, or the verdict changed in flight (inconclusive)")
			continue
		}
		if problem != "" {
			t.Fatalf("C18/content-security: %s\n header: %s\n history: %s", problem, r.Header, logb.String())
		}
		if r.Mut != "" {
			nontrivial = true
		}
	}
	if nontrivial {
		st.NonTrivial(logb.String())
	}
}

// BuildCSReq builds, without any random choice, the request a conforming client sends
// (used by the plain regression tests).
func BuildCSReq(env *Env, conf CSConf, now int64, method, path, query string, payload, key []byte, encrypted bool, resp []byte) (CSReq, error) {
	r := CSReq{Method: method, Path: path, Query: query, Payload: payload, AESKey: key, Encrypted: encrypted,
		Resp: resp, RespChunks: 1, Pristine: true, WantValid: true, HasHeader: true, GenNow: now, Shape: ShapeSized}
	r.Body = payload
	typ := "0"
	if encrypted {
		typ = "1"
		ct, err := ECBEncrypt(key, payload)
		if err != nil {
			return r, err
		}
		r.Body = []byte(base64.StdEncoding.EncodeToString(ct))
		r.BodyEncrypted = true
		r.EmptyEncrypted = len(payload) == 0
	}
	ts := strconv.FormatInt(now, 10)
	text := "version=v1; type=" + typ + "; key=" + base64.StdEncoding.EncodeToString(key) + "; time=" + ts
	ct, err := rsaEncryptBlocks(&env.A.Priv.PublicKey, []byte(text))
	if err != nil {
		return r, err
	}
	r.Header = "key=" + conf.FpA + "; secret=" + base64.StdEncoding.EncodeToString(ct) + "; signature=" +
		csSign(key, sigString(ts, method, path, query, r.Body))
	r.Desc = fmt.Sprintf("%s %s?%s type=%s payload=%dB", method, path, query, typ, len(payload))
	return r, nil
}

// ------------------------------------------------------------------ cryption middleware alone

// CryptBuild wraps inner with the body-decrypting / response-encrypting middleware.
type CryptBuild func(key []byte, inner http.Handler) http.Handler

// CryptCase is one request through the cryption middleware.
type CryptCase struct {
	Key, Payload, Resp []byte
	Chunks             int
	SendBody           bool // false: no request body at all (only the response is encrypted)
	Shape              string
}

// CheckCrypt sends the case and returns the violated clause ("" if none) and, if the
// failure is exactly the signature of a finding that may be listed as known (D12: empty
// payload; D19: unknown length), that finding's id.
func CheckCrypt(c CryptCase, build CryptBuild) (problem string, defect string) {
	probe := &Probe{}
	h := build(c.Key, probe)
	if c.Shape == "" {
		c.Shape = ShapeSized
	}
	var wire []byte
	if c.SendBody {
		ct, err := ECBEncrypt(c.Key, c.Payload)
		if err != nil {
			return "generator bug: " + err.Error(), ""
		}
		wire = []byte(base64.StdEncoding.EncodeToString(ct))
	}
	body, cl := shapedBody(c.Shape, wire)
	hr := httptest.NewRequest(http.MethodPost, "http://c18.test/any", body)
	hr.ContentLength = cl
	probe.Reset(c.Resp, c.Chunks, true)
	rec := httptest.NewRecorder()
	h.ServeHTTP(rec, hr)
	pf := func(format string, a ...any) string {
		return fmt.Sprintf("%s\n case: key=%dB payload=%dB %q sendBody=%v shape=%s resp=%dB/%d\n got: handlerRan=%d status=%d respLen=%d",
			fmt.Sprintf(format, a...), len(c.Key), len(c.Payload), clip(c.Payload), c.SendBody, c.Shape, len(c.Resp), c.Chunks, probe.Ran, rec.Code, rec.Body.Len())
	}
	empty := c.SendBody && len(c.Payload) == 0
	if probe.Ran != 1 {
		d := ""
		if empty && rec.Code == http.StatusBadRequest {
			d = KnownEmptyPayload
		}
		return pf("encrypted body did not reach the handler (statement: 'an encrypted body reaches the handler decrypted ... round-tripping any payload')"), d
	}
	if probe.BodyErr != nil {
		return pf("handler could not read the body: %v", probe.BodyErr), ""
	}
	if c.SendBody && !bytes.Equal(probe.Body, c.Payload) {
		d := ""
		switch {
		case c.Shape != ShapeSized && bytes.Equal(probe.Body, wire):
			d = KnownUnknownLength
		case empty:
			d = KnownEmptyPayload
		}
		return pf("encrypted body did not reach the handler decrypted: handler read %d bytes %q instead of the payload (statement: 'an encrypted body reaches the handler decrypted')", len(probe.Body), clip(probe.Body)), d
	}
	got := rec.Body.Bytes()
	if len(got) == 0 {
		if len(c.Resp) != 0 {
			return pf("response of %d bytes came back empty", len(c.Resp)), ""
		}
		return "", ""
	}
	ct, err := base64.StdEncoding.DecodeString(string(got))
	if err != nil {
		return pf("response is not base64 (returned in the clear?): %q", clip(got)), ""
	}
	pt, err := ECBDecrypt(c.Key, ct)
	if err != nil {
		return pf("response does not decrypt under the key: %v", err), ""
	}
	if !bytes.Equal(pt, c.Resp) {
		return pf("decrypted response %q differs from what the handler wrote %q", clip(pt), clip(c.Resp)), ""
	}
	return "", ""
}

// RunCryptCase is one rapid case for the cryption middleware alone.
func RunCryptCase(t *rapid.T, st *verifkit.Stats, excludeEmpty, excludeUnknownLen bool, build CryptBuild) {
	keyLen := rapid.SampledFrom([]int{16, 24, 32}).Draw(t, "keyLen")
	c := CryptCase{Key: rapid.SliceOfN(rapid.Byte(), keyLen, keyLen).Draw(t, "aesKey")}
	c.Payload = genBytes(t, "payload", true)
	c.Resp = genBytes(t, "resp", true)
	c.Chunks = rapid.IntRange(1, 4).Draw(t, "respChunks")
	c.SendBody = true
	if len(c.Payload) == 0 {
		if excludeEmpty {
			c.SendBody = false
			st.Excluded()
		} else {
			c.SendBody = rapid.Bool().Draw(t, "encryptEmpty")
		}
	}
	c.Shape = rapid.SampledFrom(shapeMix).Draw(t, "shape")
	if c.SendBody && c.Shape != ShapeSized && excludeUnknownLen {
		c.Shape = ShapeSized
		st.Excluded()
	}
	problem, _ := CheckCrypt(c, build)
	if problem != "" {
		t.Fatalf("C18/cryption: %s", problem)
	}
	st.Class("crypt/shape:" + c.Shape)
	st.Class(fmt.Sprintf("crypt/payload%%16=%d", len(c.Payload)%16))
	if !c.SendBody {
		st.Class("crypt/no-body")
	}
	// non-trivial: a length that needs a full padding block, or more than one block
	if (c.SendBody && (len(c.Payload)%16 == 0 || len(c.Payload) > 16)) || (len(c.Resp) > 0 && (len(c.Resp)%16 == 0 || len(c.Resp) > 16)) {
		st.NonTrivial(fmt.Sprintf("key=%x payload=%x resp=%x chunks=%d body=%v shape=%s", c.Key, c.Payload, c.Resp, c.Chunks, c.SendBody, c.Shape))
	}
}
