//go:build verif

package handler_test

import (
	"encoding/json"
	"fmt"
	"net/http"
	"net/http/httptest"
	"strings"
	"sync/atomic"
	"testing"
	"time"

	"github.com/golang-jwt/jwt/v4"
	"github.com/zeromicro/go-zero/core/logx"
	"github.com/zeromicro/go-zero/internal/verifc18"
	"github.com/zeromicro/go-zero/internal/verifkit"
	"pgregory.net/rapid"
)

// "… and whose time claims are currently valid": *currently* means at the moment of each
// request.  One Authorize middleware instance (as a server keeps it for its whole life) receives
// the same few tokens again and again while the clock moves across their nbf and exp instants.
// The clock is golang-jwt's own hook (jwt.TimeFunc), so time passes without waiting; the oracle
// is the reference verifier of c18kit evaluated at the virtual instant of each request.
func TestVerifC18JWTClock(t *testing.T) {
	logx.Disable()
	st := verifkit.New("jwt-clock")
	defer st.Flush()
	var vnow atomic.Int64
	old := jwt.TimeFunc
	jwt.TimeFunc = func() time.Time { return time.Unix(vnow.Load(), 0) }
	defer func() { jwt.TimeFunc = old }()
	rapid.Check(t, func(t *rapid.T) {
		st.Eval()
		start := int64(1_900_000_000) + rapid.Int64Range(0, 1_000_000).Draw(t, "epoch")
		vnow.Store(start)
		secret := rapid.SampledFrom([]string{"s3cret-current", "another-secret-value"}).Draw(t, "secret")
		prev := rapid.SampledFrom([]string{"", "", "the-previous-secret"}).Draw(t, "prev")
		keys := [][]byte{[]byte(secret)}
		if prev != "" {
			keys = append(keys, []byte(prev))
		}
		ran := 0
		var seen map[string]any
		inner := http.HandlerFunc(func(w http.ResponseWriter, r *http.Request) {
			ran++
			seen = map[string]any{"uid": r.Context().Value("uid")}
			w.WriteHeader(http.StatusOK)
		})
		h := buildAuthorize(secret, prev, nil, inner)
		// a few tokens whose validity windows begin and end within the next minutes
		type tok struct {
			auth string
			desc string
		}
		n := rapid.IntRange(1, 4).Draw(t, "tokens")
		var toks []tok
		for i := 0; i < n; i++ {
			claims := map[string]any{"uid": fmt.Sprintf("u%d", i)}
			desc := fmt.Sprintf("t%d{", i)
			if rapid.IntRange(0, 9).Draw(t, "hasExp") != 0 {
				d := rapid.SampledFrom([]int64{2, 5, 30, 120, 600, -5}).Draw(t, "exp")
				claims["exp"] = start + d
				desc += fmt.Sprintf("exp=+%d ", d)
			}
			if rapid.IntRange(0, 2).Draw(t, "hasNbf") == 0 {
				d := rapid.SampledFrom([]int64{-10, 3, 20, 90}).Draw(t, "nbf")
				claims["nbf"] = start + d
				desc += fmt.Sprintf("nbf=+%d ", d)
			}
			key := secret
			switch rapid.IntRange(0, 5).Draw(t, "signer") {
			case 0:
				if prev != "" {
					key = prev
				}
			case 1:
				key = "not-a-configured-secret"
			}
			desc += "key=" + key + "}"
			alg := rapid.SampledFrom([]string{"HS256", "HS384", "HS512"}).Draw(t, "alg")
			hdr, _ := json.Marshal(map[string]any{"alg": alg, "typ": "JWT"})
			pay, _ := json.Marshal(claims)
			toks = append(toks, tok{auth: "Bearer " + verifc18.SignJWT(hdr, pay, alg, []byte(key)), desc: desc})
		}
		var hist strings.Builder
		flips := 0
		last := map[int]bool{}
		steps := rapid.IntRange(4, 24).Draw(t, "steps")
		for s := 0; s < steps; s++ {
			if rapid.IntRange(0, 2).Draw(t, "act") == 0 {
				d := rapid.SampledFrom([]int64{1, 2, 3, 6, 11, 25, 31, 95, 125, 700}).Draw(t, "advance")
				vnow.Add(d)
				fmt.Fprintf(&hist, " +%ds", d)
				continue
			}
			i := rapid.IntRange(0, n-1).Draw(t, "token")
			now := vnow.Load()
			want := verifc18.RefJWT(toks[i].auth, keys, now)
			req := httptest.NewRequest(http.MethodGet, "http://localhost/x", nil)
			req.Header.Set("Authorization", toks[i].auth)
			rec := httptest.NewRecorder()
			before := ran
			seen = nil
			h.ServeHTTP(rec, req)
			got := ran > before
			fmt.Fprintf(&hist, " t%d@+%d:%v", i, now-start, got)
			if prevV, ok := last[i]; ok && prevV != want.Accept {
				flips++
			}
			last[i] = want.Accept
			switch {
			case got && !want.Accept:
				t.Fatalf("C18 VIOLATED (handler runs only if … time claims are currently valid; expired/not-yet-valid/wrong secret gets 401 and the handler is not called): "+
					"handler ran for token %s at +%d s, reference verifier says: %s\n  secret=%q prev=%q tokens=%v\n  history:%s",
					toks[i].desc, now-start, want.Why, secret, prev, descs(toks, func(x tok) string { return x.desc }), hist.String())
			case !got && want.Accept:
				t.Fatalf("C18 VIOLATED (a request with a valid token is served): token %s refused with %d at +%d s although signature and time claims hold\n  secret=%q prev=%q\n  history:%s",
					toks[i].desc, rec.Code, now-start, secret, prev, hist.String())
			case !got && rec.Code != http.StatusUnauthorized:
				t.Fatalf("C18 VIOLATED (any other request gets 401): token %s at +%d s answered %d; history:%s", toks[i].desc, now-start, rec.Code, hist.String())
			case got && fmt.Sprint(seen["uid"]) != fmt.Sprintf("u%d", i):
				t.Fatalf("C18 VIOLATED (the handler sees the token's claims): token %s, handler saw uid=%v; history:%s", toks[i].desc, seen["uid"], hist.String())
			}
		}
		st.ClassN("verdict-of-a-token-changed-over-time", flips)
		if flips > 0 {
			st.NonTrivial(fmt.Sprintf("%v%s", descs(toks, func(x tok) string { return x.desc }), hist.String()))
		}
	})
}

func descs[T any](xs []T, f func(T) string) []string {
	out := make([]string, len(xs))
	for i, x := range xs {
		out[i] = f(x)
	}
	return out
}
