//go:build verif

package rest

import (
	"net/http"
	"testing"
	"time"

	"github.com/zeromicro/go-zero/internal/verifc18"
	"github.com/zeromicro/go-zero/internal/verifkit"
	"github.com/zeromicro/go-zero/rest/chain"
	"pgregory.net/rapid"
)

// Property C18 through a whole rest server with several route groups: what users write is
//
//	server := rest.MustNewServer(conf, rest.WithUnauthorizedCallback(..), ...)
//	server.AddRoutes(routesA, rest.WithJwt(s))
//	server.AddRoutes(routesB, rest.WithJwtTransition(s, prev), rest.WithPrefix("/p"))
//	server.AddRoutes(routesC, rest.WithSignature(conf))
//
// and engine.go (bindRoutes / bindFeaturedRoutes / bindRoute / appendAuthHandler /
// signatureVerifier) turns every group's settings into the chain in front of each of its
// routes.  The server is built with the public API only (NewServer, the RunOptions,
// AddRoute(s) with the RouteOptions, Use); the single white-box step is
// s.ngin.bindRoutes(s.router), which is the first half of Server.Start (the second half
// listens on a socket) and is what the package's own tests use (`serve` in
// server_test.go) to drive a server without listening.  Being in-package is needed for
// nothing else.

func buildGroupServer(spec verifc18.ServerSpec, handlerFor func(g, r int) http.HandlerFunc, hooks verifc18.ServerHooks) (http.Handler, error) {
	conf := RestConf{MaxBytes: 1 << 20}
	conf.Middlewares = MiddlewaresConf{
		Trace:    spec.MWBits&1 != 0,
		Log:      spec.MWBits&2 != 0,
		Recover:  spec.MWBits&4 != 0,
		MaxBytes: spec.MWBits&8 != 0,
		Gunzip:   spec.MWBits&16 != 0,
	}
	var ro []RunOption
	if hooks.Unauthorized != nil {
		ro = append(ro, WithUnauthorizedCallback(hooks.Unauthorized))
	}
	if hooks.Unsigned != nil {
		ro = append(ro, WithUnsignedCallback(hooks.Unsigned))
	}
	if spec.CustomChain {
		ro = append(ro, WithChain(chain.New(hooks.ChainMW)))
	}
	s, err := NewServer(conf, ro...)
	if err != nil {
		return nil, err
	}
	if spec.UseMW == 1 {
		s.Use(ToMiddleware(hooks.UseMW))
	}
	for gi, g := range spec.Groups {
		var routes []Route
		for ri, r := range g.Routes {
			routes = append(routes, Route{Method: r.Method, Path: r.Path, Handler: handlerFor(gi, ri)})
		}
		var opts []RouteOption
		for _, o := range g.OptOrder {
			switch o {
			case "jwt":
				switch g.JWT.Kind {
				case verifc18.JWTPlain:
					opts = append(opts, WithJwt(g.JWT.Secret))
				case verifc18.JWTTransition:
					opts = append(opts, WithJwtTransition(g.JWT.Secret, g.JWT.Prev))
				}
			case "sig":
				if g.Sig.Enabled {
					sc := SignatureConf{Strict: g.Sig.Strict, Expiry: time.Duration(g.Sig.TolSec) * time.Second}
					for _, k := range g.Sig.Keys {
						sc.PrivateKeys = append(sc.PrivateKeys, PrivateKeyConf{Fingerprint: k.Fp, KeyFile: k.Key.PrivFile})
					}
					opts = append(opts, WithSignature(sc))
				}
			case "prefix":
				if g.Prefix != "" {
					opts = append(opts, WithPrefix(g.Prefix))
				}
			case "priority":
				opts = append(opts, WithPriority())
			case "timeout":
				opts = append(opts, WithTimeout(time.Minute)) // the timeout middleware itself stays off
			case "maxbytes":
				opts = append(opts, WithMaxBytes(1<<20))
			}
		}
		if g.Single {
			s.AddRoute(routes[0], opts...)
		} else {
			s.AddRoutes(routes, opts...)
		}
	}
	if spec.UseMW == 2 {
		s.Use(ToMiddleware(hooks.UseMW))
	}
	if err := s.ngin.bindRoutes(s.router); err != nil {
		return nil, err
	}
	return s.router, nil
}

func runGroups(t *testing.T, unit, focus string) {
	setupOnce()
	env, err := verifc18.GetEnv()
	if err != nil {
		t.Fatalf("rsa setup: %v", err)
	}
	st := verifkit.New(unit)
	defer st.Flush()
	known := verifkit.KnownFindings("C18")
	opt := verifc18.CSGenOpt{ExcludeEmptyEncrypted: known[verifc18.KnownEmptyPayload],
		ExcludeUnknownLenEncrypted: known[verifc18.KnownUnknownLength]}
	rapid.Check(t, func(t *rapid.T) {
		st.Eval()
		verifc18.RunGroupsCase(t, st, env, focus, opt, buildGroupServer)
	})
}

// jwt-focused: most groups carry WithJwt / WithJwtTransition with secrets from a pool of
// four, so groups share the current secret and differ in the previous one all the time.
func TestVerifC18EngineGroupsJWT(t *testing.T) {
	runGroups(t, "engine-groups-jwt", "jwt")
}

// signature-focused: most groups carry WithSignature with key sets from three fingerprints
// x three RSA keys; about a third of them a jwt gate as well.
func TestVerifC18EngineGroupsSignature(t *testing.T) {
	runGroups(t, "engine-groups-sig", "sig")
}
