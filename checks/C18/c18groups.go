//go:build verif

package verifc18

// Multi-group engine cases: ONE rest server with 1-4 route groups, every group with its own
// jwt / signature / prefix settings, then a batch of requests.  Every request is judged
// against the settings of the group that owns the route it actually reaches, and of that
// group only; what the other groups of the same server are configured with must not matter
// in either direction.  The reference verifiers are the ones of c18kit.go (RefJWT,
// RefCSKeys); this file adds the server generator, the credential mixer (credentials made
// for the target group, for another group of the server, for no group at all) and the
// combined oracle.

import (
	"bytes"
	"crypto/rsa"
	"encoding/base64"
	"fmt"
	"net/http"
	"net/http/httptest"
	"sort"
	"strconv"
	"strings"
	"sync"
	"time"

	"github.com/zeromicro/go-zero/internal/verifkit"
	"pgregory.net/rapid"
)

// JWT kinds of a group.
const (
	JWTNone       = 0
	JWTPlain      = 1 // rest.WithJwt(secret)
	JWTTransition = 2 // rest.WithJwtTransition(secret, prev); prev may be ""
)

// GroupJWT is the jwt setting of one route group.
type GroupJWT struct {
	Kind         int
	Secret, Prev string
}

// Keys returns the HMAC keys the statement allows for this group.
func (j GroupJWT) Keys() [][]byte {
	if j.Kind == JWTNone {
		return nil
	}
	keys := [][]byte{[]byte(j.Secret)}
	if j.Kind == JWTTransition && j.Prev != "" {
		keys = append(keys, []byte(j.Prev))
	}
	return keys
}

// KeyEntry is one configured private key of a signature group.
type KeyEntry struct {
	Fp   string
	Name string // "A", "B", "C"
	Key  *RSAKey
}

// GroupSig is the signature setting of one route group.
type GroupSig struct {
	Enabled bool
	Strict  bool
	TolSec  int64
	Keys    []KeyEntry
}

// Active tells whether a gate exists at all (rest: non-strict without keys = no gate).
func (s GroupSig) Active() bool { return s.Enabled && len(s.Keys) > 0 }

func (s GroupSig) keyMap() map[string]*rsa.PrivateKey {
	m := map[string]*rsa.PrivateKey{}
	for _, k := range s.Keys {
		m[k.Fp] = k.Key.Priv
	}
	return m
}

func (s GroupSig) keySetText() string {
	var f []string
	for _, k := range s.Keys {
		f = append(f, k.Fp+"->"+k.Name)
	}
	sort.Strings(f)
	return strings.Join(f, ",")
}

// GroupRoute is one route: Path is what is handed to AddRoutes, Final what the server must
// serve it under (prefix applied).
type GroupRoute struct {
	Method, Path, Final string
}

// GroupSpec is one AddRoutes call.
type GroupSpec struct {
	ID       int // index in generation order (G0 and G1 are the twins, if any)
	JWT      GroupJWT
	Sig      GroupSig
	Prefix   string
	Routes   []GroupRoute
	OptOrder []string // order of the RouteOptions: "jwt", "sig", "prefix", and of "priority", "timeout", "maxbytes" where present
	Single   bool     // one route, registered with AddRoute
}

// ServerSpec is the whole generated server; Groups is in registration order.
type ServerSpec struct {
	Groups      []GroupSpec
	UnauthCB    int  // 0 none, 1 counting, 2 sets a response header (never writes a status)
	UnsignedCB  int  // 0 none, 1 callback doing what the default does, plus a response header
	CustomChain bool // rest.WithChain(chain.New(pass-through)) instead of the built-in chain
	MWBits      int  // built-in middlewares switched on: 1 trace, 2 log, 4 recover, 8 maxbytes, 16 gunzip
	UseMW       int  // 0 none, 1 server.Use(pass-through) before AddRoutes, 2 after
}

// ServerHooks are the callbacks and pass-through middlewares the builder installs.
type ServerHooks struct {
	Unauthorized func(w http.ResponseWriter, r *http.Request, err error)
	Unsigned     func(w http.ResponseWriter, r *http.Request, next http.Handler, strict bool, code int)
	ChainMW      func(http.Handler) http.Handler
	UseMW        func(http.Handler) http.Handler
}

// ServerBuild assembles the real server from the spec and returns the http.Handler that a
// listener would serve.  handlerFor(g, r) is the protected handler of route r of
// spec.Groups[g].
type ServerBuild func(spec ServerSpec, handlerFor func(g, r int) http.HandlerFunc, hooks ServerHooks) (http.Handler, error)

func (g GroupSpec) render() string {
	var b strings.Builder
	fmt.Fprintf(&b, "G%d", g.ID)
	switch g.JWT.Kind {
	case JWTNone:
		b.WriteString(" jwt=none")
	case JWTPlain:
		fmt.Fprintf(&b, " WithJwt(%q)", g.JWT.Secret)
	default:
		fmt.Fprintf(&b, " WithJwtTransition(%q,%q)", g.JWT.Secret, g.JWT.Prev)
	}
	if g.Sig.Enabled {
		fmt.Fprintf(&b, " WithSignature(strict=%v,expiry=%ds,keys=[%s])", g.Sig.Strict, g.Sig.TolSec, g.Sig.keySetText())
	} else {
		b.WriteString(" sig=none")
	}
	if g.Prefix != "" {
		fmt.Fprintf(&b, " WithPrefix(%q)", g.Prefix)
	}
	fmt.Fprintf(&b, " opts=%v single=%v routes=", g.OptOrder, g.Single)
	for i, r := range g.Routes {
		if i > 0 {
			b.WriteString(",")
		}
		fmt.Fprintf(&b, "%s %s", r.Method, r.Final)
	}
	return b.String()
}

func (s ServerSpec) render() string {
	var b strings.Builder
	fmt.Fprintf(&b, "server: unauthorizedCb=%d unsignedCb=%d customChain=%v middlewares=%05b use=%d", s.UnauthCB, s.UnsignedCB, s.CustomChain, s.MWBits, s.UseMW)
	for _, g := range s.Groups {
		b.WriteString("\n  " + g.render())
	}
	return b.String()
}

var (
	groupPaths    = []string{"/a", "/b", "/a/b", "/c"}
	groupPrefixes = []string{"", "", "", "/p", "/a", "/p/v1", "/q/"}
	groupFps      = []string{"k1", "k2", "k3"}
	groupTols     = []int64{10, 30, 60, 3600}
)

func finalPath(prefix, p string) string {
	if prefix == "" {
		return p
	}
	return strings.TrimRight(prefix, "/") + p
}

func permute(t *rapid.T, n int, label string) []int {
	p := make([]int, n)
	for i := range p {
		p[i] = i
	}
	for i := n - 1; i > 0; i-- {
		j := rapid.IntRange(0, i).Draw(t, fmt.Sprintf("%s[%d]", label, i))
		p[i], p[j] = p[j], p[i]
	}
	return p
}

func genKeySet(t *rapid.T, env *Env, label string) []KeyEntry {
	pool := []KeyEntry{{Name: "A", Key: env.A}, {Name: "B", Key: env.B}, {Name: "C", Key: env.C}}
	n := rapid.SampledFrom([]int{1, 1, 2, 2, 2, 3}).Draw(t, label+".n")
	fps := permute(t, len(groupFps), label+".fp")
	var out []KeyEntry
	for i := 0; i < n; i++ {
		k := pool[rapid.IntRange(0, len(pool)-1).Draw(t, fmt.Sprintf("%s.key%d", label, i))]
		k.Fp = groupFps[fps[i]]
		out = append(out, k)
	}
	return out
}

func sameKeySet(a, b []KeyEntry) bool {
	return GroupSig{Keys: a}.keySetText() == GroupSig{Keys: b}.keySetText()
}

// genServer draws the server.  focus "jwt": most groups carry a jwt gate, few a signature;
// focus "sig": most carry a signature gate, some a jwt gate as well.  With probability
// 0.65 (and >= 2 groups) groups G0 and G1 are twins: same current secret, different
// previous secret (jwt) / same kind of gate, different key sets (sig).
func genServer(t *rapid.T, env *Env, focus string, pool []string) (ServerSpec, bool) {
	var spec ServerSpec
	n := rapid.SampledFrom([]int{1, 2, 2, 2, 3, 3, 3, 4, 4}).Draw(t, "groups")
	twin := n >= 2 && rapid.IntRange(0, 99).Draw(t, "twin") < 65
	groups := make([]GroupSpec, n)
	drawPrev := func(label string, secretIdx int) string {
		// any pool member but the current secret; pool[3] is used by no group as a current secret
		k := rapid.IntRange(0, len(pool)-2).Draw(t, label)
		if k >= secretIdx {
			k++
		}
		return pool[k]
	}
	for i := range groups {
		g := &groups[i]
		g.ID = i
		lbl := fmt.Sprintf("g%d", i)
		jwtP, sigP := 85, 4
		if focus == "sig" {
			jwtP, sigP = 15, 78
		}
		if rapid.IntRange(0, 99).Draw(t, lbl+".hasJwt") < jwtP {
			si := rapid.IntRange(0, 2).Draw(t, lbl+".secret")
			g.JWT.Secret = pool[si]
			switch k := rapid.IntRange(0, 19).Draw(t, lbl+".jwtKind"); {
			case k < 8:
				g.JWT.Kind = JWTPlain
			case k < 19:
				g.JWT.Kind = JWTTransition
				g.JWT.Prev = drawPrev(lbl+".prev", si)
			default:
				g.JWT.Kind = JWTTransition // WithJwtTransition(secret, ""): no previous secret
			}
		}
		if rapid.IntRange(0, 99).Draw(t, lbl+".hasSig") < sigP {
			g.Sig.Enabled = true
			g.Sig.Strict = rapid.IntRange(0, 9).Draw(t, lbl+".strict") < 8
			g.Sig.TolSec = rapid.SampledFrom(groupTols).Draw(t, lbl+".expiry")
			g.Sig.Keys = genKeySet(t, env, lbl+".keys")
			if !g.Sig.Strict && rapid.IntRange(0, 9).Draw(t, lbl+".noKeys") == 0 {
				g.Sig.Keys = nil // documented: non-strict without keys = no gate
			}
		}
	}
	if twin {
		a, b := &groups[0], &groups[1]
		if focus == "jwt" {
			si := rapid.IntRange(0, 2).Draw(t, "twin.secret")
			a.JWT, b.JWT = GroupJWT{Kind: JWTPlain, Secret: pool[si]}, GroupJWT{Kind: JWTPlain, Secret: pool[si]}
			// different previous secrets; one of them may be "none"
			pa := drawPrev("twin.prevA", si)
			pb := drawPrev("twin.prevB", si)
			switch rapid.IntRange(0, 3).Draw(t, "twin.shape") {
			case 0:
				pa = ""
			case 1:
				pb = ""
			}
			if pa == pb {
				for _, c := range pool {
					if c != pool[si] && c != pa {
						pb = c
						break
					}
				}
			}
			if pa != "" {
				a.JWT.Kind, a.JWT.Prev = JWTTransition, pa
			}
			if pb != "" {
				b.JWT.Kind, b.JWT.Prev = JWTTransition, pb
			}
		} else {
			for _, g := range []*GroupSpec{a, b} {
				if !g.Sig.Active() {
					g.Sig = GroupSig{Enabled: true, Strict: true,
						TolSec: rapid.SampledFrom(groupTols).Draw(t, fmt.Sprintf("twin.expiry%d", g.ID)),
						Keys:   genKeySet(t, env, fmt.Sprintf("twin.keys%d", g.ID))}
				}
			}
			if rapid.IntRange(0, 3).Draw(t, "twin.strict") > 0 {
				a.Sig.Strict, b.Sig.Strict = true, true
			}
			if sameKeySet(a.Sig.Keys, b.Sig.Keys) {
				// same fingerprints, another key behind the first of them
				ks := append([]KeyEntry(nil), b.Sig.Keys...)
				for _, c := range []KeyEntry{{Name: "A", Key: env.A}, {Name: "B", Key: env.B}, {Name: "C", Key: env.C}} {
					if c.Name != ks[0].Name {
						c.Fp = ks[0].Fp
						ks[0] = c
						break
					}
				}
				b.Sig.Keys = ks
			}
		}
	}
	// routes: distinct (method, final path) over the whole server, by construction
	used := map[Route]bool{}
	for i := range groups {
		g := &groups[i]
		lbl := fmt.Sprintf("g%d", i)
		g.Prefix = rapid.SampledFrom(groupPrefixes).Draw(t, lbl+".prefix")
		nr := rapid.IntRange(1, 3).Draw(t, lbl+".routes")
		for j := 0; j < nr; j++ {
			mi := rapid.IntRange(0, len(methods)-1).Draw(t, fmt.Sprintf("%s.r%d.method", lbl, j))
			pi := rapid.IntRange(0, len(groupPaths)-1).Draw(t, fmt.Sprintf("%s.r%d.path", lbl, j))
			placed := false
			for k := 0; k < len(methods)*len(groupPaths) && !placed; k++ {
				m := methods[(mi+k)%len(methods)]
				p := groupPaths[(pi+k/len(methods))%len(groupPaths)]
				rt := Route{m, finalPath(g.Prefix, p)}
				if !used[rt] {
					used[rt] = true
					g.Routes = append(g.Routes, GroupRoute{Method: m, Path: p, Final: rt.Path})
					placed = true
				}
			}
		}
		if len(g.Routes) == 0 {
			t.Fatalf("generator bug: no free (method, path) left for group %d", i)
		}
		g.Single = len(g.Routes) == 1 && rapid.Bool().Draw(t, lbl+".addRoute")
		// the options in any order, mixed with options that have nothing to do with the gates
		names := []string{"jwt", "sig", "prefix"}
		noise := rapid.IntRange(0, 7).Draw(t, lbl+".otherOpts")
		for b, nm := range []string{"priority", "timeout", "maxbytes"} {
			if noise&(1<<b) != 0 {
				names = append(names, nm)
			}
		}
		for _, k := range permute(t, len(names), lbl+".optOrder") {
			g.OptOrder = append(g.OptOrder, names[k])
		}
	}
	for _, k := range permute(t, n, "regOrder") {
		spec.Groups = append(spec.Groups, groups[k])
	}
	spec.UnauthCB = rapid.IntRange(0, 2).Draw(t, "unauthorizedCb")
	spec.UnsignedCB = rapid.IntRange(0, 1).Draw(t, "unsignedCb")
	spec.CustomChain = rapid.IntRange(0, 4).Draw(t, "customChain") == 0
	if !spec.CustomChain && rapid.Bool().Draw(t, "builtins") {
		spec.MWBits = rapid.IntRange(1, 31).Draw(t, "middlewares")
	}
	spec.UseMW = rapid.SampledFrom([]int{0, 0, 1, 2}).Draw(t, "use")
	return spec, twin
}

// multiProbe is the set of protected handlers of one server: every route has its own
// handler; all of them record into one Probe, plus which route's handler it was.
type multiProbe struct {
	Probe
	rmu    sync.Mutex
	routes [][2]int
}

func (m *multiProbe) reset(resp []byte, chunks int) {
	m.Probe.Reset(resp, chunks, true)
	m.rmu.Lock()
	m.routes = nil
	m.rmu.Unlock()
}

func (m *multiProbe) handlerFor(g, r int) http.HandlerFunc {
	return func(w http.ResponseWriter, req *http.Request) {
		m.rmu.Lock()
		m.routes = append(m.routes, [2]int{g, r})
		m.rmu.Unlock()
		m.Probe.ServeHTTP(w, req)
	}
}

func (m *multiProbe) ranRoutes() [][2]int {
	m.rmu.Lock()
	defer m.rmu.Unlock()
	return append([][2]int(nil), m.routes...)
}

type flatRoute struct {
	g, r int // indexes into spec.Groups / .Routes
	Route
}

// RunGroupsCase is one rapid case of the engine-groups-* units.
func RunGroupsCase(t *rapid.T, st *verifkit.Stats, env *Env, focus string, opt CSGenOpt, build ServerBuild) {
	// the secret pool of this case: pool[0..2] may be a group's current secret, all four a
	// previous secret or a token's signing key
	pool := make([]string, 4)
	for i := range pool {
		pool[i] = GenSecret(t, fmt.Sprintf("pool%d", i), 8)
		for j := 0; j < i; j++ {
			if pool[j] == pool[i] {
				pool[i] += strconv.Itoa(i)
				j = -1
			}
		}
	}
	spec, twin := genServer(t, env, focus, pool)
	mp := &multiProbe{}
	cbCalls := 0
	var hooks ServerHooks
	switch spec.UnauthCB {
	case 1:
		hooks.Unauthorized = func(w http.ResponseWriter, r *http.Request, err error) { cbCalls++ }
	case 2:
		hooks.Unauthorized = func(w http.ResponseWriter, r *http.Request, err error) {
			cbCalls++
			w.Header().Set("X-Reason", "denied")
		}
	}
	if spec.UnsignedCB == 1 {
		hooks.Unsigned = func(w http.ResponseWriter, r *http.Request, next http.Handler, strict bool, code int) {
			w.Header().Set("X-Unsigned", strconv.Itoa(code))
			if strict {
				w.WriteHeader(http.StatusForbidden)
			} else {
				next.ServeHTTP(w, r)
			}
		}
	}
	pass := func(next http.Handler) http.Handler {
		return http.HandlerFunc(func(w http.ResponseWriter, r *http.Request) { next.ServeHTTP(w, r) })
	}
	hooks.ChainMW, hooks.UseMW = pass, pass

	var logb strings.Builder
	logb.WriteString(spec.render())
	fmt.Fprintf(&logb, "\n  secret pool: %q", pool)

	srv, err := build(spec, mp.handlerFor, hooks)
	if err != nil {
		t.Fatalf("C18/engine-groups: the server could not be assembled: %v\n %s", err, logb.String())
	}

	var flat []flatRoute
	var all []Route
	for gi, g := range spec.Groups {
		for ri, r := range g.Routes {
			flat = append(flat, flatRoute{gi, ri, Route{r.Method, r.Final}})
			all = append(all, Route{r.Method, r.Final})
		}
	}
	byID := map[int]int{} // group ID -> index in spec.Groups
	for gi, g := range spec.Groups {
		byID[g.ID] = gi
	}
	var twinRoutes []int
	if twin {
		for i, f := range flat {
			if id := spec.Groups[f.g].ID; id == 0 || id == 1 {
				twinRoutes = append(twinRoutes, i)
			}
		}
	}
	// the other groups that carry a gate of the given kind
	othersWith := func(self int, kind string) []int {
		var out []int
		for gi, g := range spec.Groups {
			if gi == self {
				continue
			}
			if (kind == "jwt" && g.JWT.Kind != JWTNone) || (kind == "sig" && g.Sig.Active()) {
				out = append(out, gi)
			}
		}
		// the twin partner first
		sort.SliceStable(out, func(i, j int) bool { return spec.Groups[out[i]].ID < spec.Groups[out[j]].ID })
		return out
	}

	nreq := rapid.IntRange(6, 12).Draw(t, "requests")
	discriminating := false
	for q := 0; q < nreq; q++ {
		lbl := fmt.Sprintf("q%d", q)
		var ti int
		if len(twinRoutes) > 0 && rapid.IntRange(0, 9).Draw(t, lbl+".aimTwin") < 6 {
			ti = twinRoutes[rapid.IntRange(0, len(twinRoutes)-1).Draw(t, lbl+".twinRoute")]
		} else {
			ti = rapid.IntRange(0, len(flat)-1).Draw(t, lbl+".route")
		}
		aim := flat[ti]
		aimG := spec.Groups[aim.g]
		now := time.Now().Unix()

		// ---- the jwt credential
		var jr JWTReq
		hasTok := false
		jwtFor := "none"
		pickPair := func() (string, string) {
			k := rapid.IntRange(0, 9).Draw(t, lbl+".jwtCred")
			others := othersWith(aim.g, "jwt")
			switch {
			case k < 5 && aimG.JWT.Kind != JWTNone:
				jwtFor = "own"
				return aimG.JWT.Secret, aimG.JWT.Prev
			case k < 8 && len(others) > 0:
				o := others[0]
				if len(others) > 1 && rapid.IntRange(0, 2).Draw(t, lbl+".jwtOther") == 0 {
					o = others[rapid.IntRange(1, len(others)-1).Draw(t, lbl+".jwtOtherIdx")]
				}
				jwtFor = fmt.Sprintf("G%d", spec.Groups[o].ID)
				return spec.Groups[o].JWT.Secret, spec.Groups[o].JWT.Prev
			case k < 9:
				i := rapid.IntRange(0, 3).Draw(t, lbl+".poolCur")
				j := rapid.IntRange(0, 4).Draw(t, lbl+".poolPrev")
				jwtFor = "pool"
				if j == 4 || j == i {
					return pool[i], ""
				}
				return pool[i], pool[j]
			}
			jwtFor = "outsider"
			s := GenSecret(t, lbl+".outsider", 8)
			for _, p := range pool {
				if p == s {
					s += "#"
				}
			}
			return s, ""
		}
		if aimG.JWT.Kind != JWTNone || rapid.IntRange(0, 9).Draw(t, lbl+".strayToken") < 3 {
			s, p := pickPair()
			jr = GenJWTReq(t, s, p, now)
			hasTok = true
		}

		// ---- the signed (or plain) request
		var cs CSReq
		sigFor := "none"
		viewOf := func(keys []KeyEntry, tol int64) (*Env, CSConf) {
			i := rapid.IntRange(0, len(keys)-1).Draw(t, lbl+".viewKeyA")
			a := keys[i]
			var b KeyEntry
			if len(keys) > 1 {
				j := rapid.IntRange(0, len(keys)-2).Draw(t, lbl+".viewKeyB")
				if j >= i {
					j++
				}
				b = keys[j]
			} else {
				// a second (fingerprint, key) pair the group does not have
				for _, fp := range groupFps {
					if fp != a.Fp {
						b.Fp = fp
						break
					}
				}
				b.Name, b.Key = "B", env.B
				if a.Name == "B" {
					b.Name, b.Key = "C", env.C
				}
			}
			return &Env{A: a.Key, B: b.Key, X: env.X, C: env.C, Dir: env.Dir}, CSConf{TolSec: tol, FpA: a.Fp, FpB: b.Fp}
		}
		signed := aimG.Sig.Active() || rapid.IntRange(0, 3).Draw(t, lbl+".straySignature") == 0
		if signed {
			var keys []KeyEntry
			var tol int64
			k := rapid.IntRange(0, 9).Draw(t, lbl+".sigCred")
			others := othersWith(aim.g, "sig")
			switch {
			case k < 5 && aimG.Sig.Active():
				sigFor = "own"
				keys, tol = aimG.Sig.Keys, aimG.Sig.TolSec
			case k < 8 && len(others) > 0:
				o := others[0]
				if len(others) > 1 && rapid.IntRange(0, 2).Draw(t, lbl+".sigOther") == 0 {
					o = others[rapid.IntRange(1, len(others)-1).Draw(t, lbl+".sigOtherIdx")]
				}
				sigFor = fmt.Sprintf("G%d", spec.Groups[o].ID)
				keys, tol = spec.Groups[o].Sig.Keys, spec.Groups[o].Sig.TolSec
			default:
				sigFor = "nobody"
				keys, tol = genKeySet(t, env, lbl+".strayKeys"), rapid.SampledFrom(groupTols).Draw(t, lbl+".strayTol")
			}
			venv, vconf := viewOf(keys, tol)
			o := opt
			o.FixMethod, o.FixPath, o.AltRoutes = aim.Method, aim.Path, all
			cs = GenCSReq(t, st, venv, vconf, now, o)
		} else {
			cs = CSReq{Method: aim.Method, Path: aim.Path, GenNow: now, Pristine: true, RespChunks: 1}
			cs.Query = rapid.SampledFrom(queryForms).Draw(t, lbl+".query")
			cs.Body = genBytes(t, lbl+".body", false)
			if aim.Method == http.MethodGet && rapid.Bool().Draw(t, lbl+".bodyless") {
				cs.Body = nil
			}
			cs.Resp = genBytes(t, lbl+".resp", false)
			cs.Shape = rapid.SampledFrom(shapeMix).Draw(t, lbl+".shape")
			cs.Desc = fmt.Sprintf("%s %s?%s unsigned body=%dB resp=%dB shape=%s", cs.Method, cs.Path, cs.Query, len(cs.Body), len(cs.Resp), cs.Shape)
		}

		// ---- where the request really goes (a method/path mutation may move it)
		hit := -1
		for i, f := range flat {
			if f.Method == cs.Method && f.Path == cs.Path {
				hit = i
			}
		}
		fmt.Fprintf(&logb, "\n  #%d aim=G%d[%s %s] token(for %s): ", q, aimG.ID, aim.Method, aim.Path, jwtFor)
		if hasTok {
			fmt.Fprintf(&logb, "%s auth=%q", jr.Desc, jr.Auth)
		} else {
			logb.WriteString("none")
		}
		fmt.Fprintf(&logb, "\n      request(signed for %s): %s", sigFor, cs.Desc)

		// ---- send
		body, cl := shapedBody(cs.Shape, cs.Body)
		hr := httptest.NewRequest(cs.Method, target(cs.Path, cs.Query), body)
		hr.ContentLength = cl
		if hr.URL.Path != cs.Path || hr.URL.RawQuery != cs.Query {
			t.Fatalf("generator bug: request line parsed to path %q query %q\n %s", hr.URL.Path, hr.URL.RawQuery, logb.String())
		}
		if cs.HasHeader {
			hr.Header.Set("X-Content-Security", cs.Header)
		}
		if hasTok && jr.Auth != "" {
			hr.Header.Set("Authorization", jr.Auth)
		}
		mp.reset(cs.Resp, cs.RespChunks)
		rec := httptest.NewRecorder()
		now0 := time.Now().Unix()
		srv.ServeHTTP(rec, hr)
		now1 := time.Now().Unix()
		code, respBody := rec.Code, rec.Body.Bytes()
		ran := mp.ranRoutes()

		fail := func(format string, a ...any) {
			t.Fatalf("C18/engine-groups(%s): %s\n got: handlersRun=%v status=%d respLen=%d\n X-Content-Security: %s\n history:\n %s",
				focus, fmt.Sprintf(format, a...), ran, code, len(respBody), cs.Header, logb.String())
		}
		if len(ran) > 1 {
			fail("%d handlers ran for one request", len(ran))
		}
		if hit < 0 {
			// no such route: whatever the router answers, no protected handler may run
			if len(ran) != 0 {
				fail("a handler ran for %s %s, which is no registered route", cs.Method, cs.Path)
			}
			st.Class(fmt.Sprintf("groups/unrouted/%d", code))
			continue
		}
		own := flat[hit]
		G := spec.Groups[own.g]
		auth := ""
		if hasTok {
			auth = jr.Auth
		}
		jwtOn, sigOn := G.JWT.Kind != JWTNone, G.Sig.Active()
		refJ := func(g GroupSpec, at int64) JWTVerdict { return RefJWT(auth, g.JWT.Keys(), at) }
		refS := func(g GroupSpec, at int64) CSVerdict {
			return RefCSKeys(g.Sig.keyMap(), g.Sig.TolSec, cs.Header, cs.HasHeader, cs.Method, cs.Path, cs.Query, cs.Body, at)
		}
		var jv JWTVerdict
		var sv CSVerdict
		inconclusive := false
		if jwtOn {
			jv = refJ(G, now0)
			if now1 != now0 && refJ(G, now1).Accept != jv.Accept {
				inconclusive = true
			}
		}
		if sigOn {
			sv = refS(G, now0)
			if now1 != now0 && refS(G, now1).Accept != sv.Accept {
				inconclusive = true
			}
			if now1-cs.GenNow > 3 {
				inconclusive = true
			}
		}
		if inconclusive {
			st.Note("engine-groups: a reference verdict changed while the request was in flight, or more than 3 s passed since the timestamp was chosen (inconclusive)")
			continue
		}
		fmt.Fprintf(&logb, "\n      -> reaches G%d[%s %s]", G.ID, own.Method, own.Path)
		if jwtOn {
			fmt.Fprintf(&logb, " jwt-reference: accept=%v soft=%v (%s)", jv.Accept, jv.Soft, jv.Why)
		}
		if sigOn {
			fmt.Fprintf(&logb, " signature-reference(strict=%v): accept=%v (%s)", G.Sig.Strict, sv.Accept, sv.Why)
		}
		fmt.Fprintf(&logb, " | got status=%d ran=%v", code, ran)

		didRun := len(ran) == 1
		if didRun && (ran[0][0] != own.g || ran[0][1] != own.r) {
			fail("the handler of another route ran (route %v of the registration, expected %v)", ran[0], [2]int{own.g, own.r})
		}
		jwtBad := jwtOn && !jv.Accept
		sigBad := sigOn && G.Sig.Strict && !sv.Accept
		jwtLive := !jwtOn || (jr.Pristine && jv.Accept && !jv.Soft)
		sigLive := !sigOn || (cs.Pristine && sv.Accept)
		// --- safety: judged by the settings of the route's own group only
		if didRun && jwtBad {
			fail("handler of a jwt-protected route ran although the token does not verify under the settings of its own group G%d (%s) (statement: 'runs only if the request carries a token whose HMAC signature verifies under the current or previous secret and whose time claims are currently valid')", G.ID, jv.Why)
		}
		if didRun && sigBad {
			seen := ""
			if b, _ := mp.Seen(); len(b) > 0 {
				seen = fmt.Sprintf("; the handler read %d bytes %q", len(b), clip(b))
			}
			fail("handler behind strict content security ran although the signature is not acceptable under the settings of its own group G%d (%s)%s (statement: 'runs only if the signature covers exactly the request's timestamp (within tolerance), method, path, query and body digest under a secret encrypted to a configured key')", G.ID, sv.Why, seen)
		}
		// --- rejected requests: 401 for the jwt gate, 403 for strict content security
		if !didRun {
			switch {
			case jwtBad:
				if code != http.StatusUnauthorized {
					fail("request without a valid token answered with %d, statement says 401", code)
				}
			case sigBad:
				if !(code == http.StatusForbidden || (!jwtLive && code == http.StatusUnauthorized)) {
					fail("request rejected by strict content security answered with %d, strict mode answers 403", code)
				}
			}
		}
		// --- liveness: credentials exactly as a conforming client builds them, valid for the
		// route's own group (a route without a gate needs none), must reach the handler
		if jwtLive && sigLive && !didRun {
			fail("request not served although it is acceptable under the settings of its own group G%d (jwt: %s; signature: %s) - settings of another group applied?", G.ID,
				map[bool]string{true: "valid token as the signer built it", false: "no jwt gate configured"}[jwtOn],
				map[bool]string{true: "correctly signed as a conforming client builds it", false: "no signature gate configured"}[sigOn])
		}
		if didRun {
			if jwtOn {
				ctx := mp.Req.Context()
				for k, want := range jv.Claims {
					if stdClaims[k] {
						continue
					}
					if got := ctx.Value(k); !SameClaim(got, want) {
						fail("claim %q: handler sees %#v (%T), token says %#v", k, got, got, want)
					}
				}
			}
			seenBody, bodyErr := mp.Seen()
			switch {
			case bodyErr != nil:
				if sigLive {
					fail("handler could not read the body: %v", bodyErr)
				}
			case sigOn && cs.Pristine && sv.Accept && cs.BodyEncrypted:
				if !bytes.Equal(seenBody, cs.Payload) {
					fail("encrypted body did not reach the handler decrypted: handler read %d bytes %q, payload was %d bytes %q", len(seenBody), clip(seenBody), len(cs.Payload), clip(cs.Payload))
				}
				if len(respBody) == 0 {
					if len(cs.Resp) != 0 {
						fail("response of %d bytes came back empty", len(cs.Resp))
					}
				} else {
					ct, err := base64.StdEncoding.DecodeString(string(respBody))
					if err != nil {
						fail("response is not base64 (returned in the clear?): %q", clip(respBody))
					}
					pt, err := ECBDecrypt(cs.AESKey, ct)
					if err != nil {
						fail("response does not decrypt under the request key: %v", err)
					}
					if !bytes.Equal(pt, cs.Resp) {
						fail("decrypted response %q differs from what the handler wrote %q", clip(pt), clip(cs.Resp))
					}
				}
			case !sigOn || (cs.Pristine && sv.Accept):
				if !bytes.Equal(seenBody, cs.Body) {
					fail("plain body changed on its way to the handler: read %q, sent %q", clip(seenBody), clip(cs.Body))
				}
				if !sigOn && !bytes.Equal(respBody, cs.Resp) {
					fail("response of a route without content security changed: got %q, handler wrote %q", clip(respBody), clip(cs.Resp))
				}
			}
		}

		// ---- classes; would another group of this server have decided otherwise?
		outcome := strconv.Itoa(code)
		if didRun {
			outcome = "ran"
		}
		gate := map[[2]bool]string{{false, false}: "open", {true, false}: "jwt", {false, true}: "sig", {true, true}: "jwt+sig"}[[2]bool{jwtOn, sigOn}]
		if sigOn && !G.Sig.Strict {
			gate += "(non-strict)"
		}
		st.Class("groups/gate:" + gate + "/" + outcome)
		if jwtOn {
			st.Class("groups/token-for:" + jwtFor + "/accept=" + strconv.FormatBool(jv.Accept))
			differs := ""
			for gi, o := range spec.Groups {
				if gi == own.g || o.JWT.Kind == JWTNone {
					continue
				}
				if ov := refJ(o, now0); ov.Accept != jv.Accept {
					if o.JWT.Secret == G.JWT.Secret && o.JWT.Prev != G.JWT.Prev {
						differs = "same-secret-other-prev"
					} else if differs == "" {
						differs = "other-secret"
					}
				}
			}
			if differs != "" {
				st.Class(fmt.Sprintf("groups/jwt-verdict-differs(%s)/own-accepts=%v", differs, jv.Accept))
				if differs == "same-secret-other-prev" && focus == "jwt" {
					discriminating = true
				}
			}
		}
		if sigOn {
			st.Class("groups/signed-for:" + sigFor + "/accept=" + strconv.FormatBool(sv.Accept))
			differs := ""
			for gi, o := range spec.Groups {
				if gi == own.g || !o.Sig.Active() {
					continue
				}
				if ov := refS(o, now0); ov.Accept != sv.Accept {
					if !sameKeySet(o.Sig.Keys, G.Sig.Keys) {
						differs = "other-key-set"
					} else if differs == "" {
						differs = "same-keys-other-expiry"
					}
				}
			}
			if differs != "" {
				st.Class(fmt.Sprintf("groups/signature-verdict-differs(%s)/own-accepts=%v", differs, sv.Accept))
				if differs == "other-key-set" && focus == "sig" {
					discriminating = true
				}
			}
		}
		if hit != ti {
			st.Class("groups/moved-to-other-route")
		}
	}
	st.Class(fmt.Sprintf("groups/server:%d-groups", len(spec.Groups)))
	if twin {
		st.Class("groups/server:twins")
	}
	if discriminating {
		st.Class("groups/case:discriminating")
		st.NonTrivial(logb.String())
	}
	_ = cbCalls
}
